(* C10 -- int(string, base): printing then parsing is the identity over Z *)
From Coq Require Import ZArith Bool List Lia.
From Coq Require Import ZifyBool.
From SV Require Import Common.GoInt C10.Model C10.Spec.
Import ListNotations.
Open Scope Z_scope.

Lemma digit_roundtrip d : 0 <= d < 36 -> digit_val (digit_char d) = Some d.
Proof.
  intros H. unfold digit_char, digit_val. destruct (d <? 10) eqn:E.
  - assert (A : (48 <=? 48 + d) && (48 + d <=? 57) = true) by lia. rewrite A. f_equal. lia.
  - assert (A : (48 <=? 87 + d) && (87 + d <=? 57) = false) by lia. rewrite A.
    assert (B : (97 <=? 87 + d) && (87 + d <=? 122) = true) by lia. rewrite B. f_equal. lia.
Qed.

Lemma digit_char_plain d : 0 <= d < 36 -> is_sign (digit_char d) = false /\ (0 < d -> (digit_char d =? 48) = false).
Proof. intros H. unfold digit_char, is_sign. destruct (d <? 10) eqn:E; split; intros; lia. Qed.

Lemma parse_acc_app base acc l1 l2 :
  parse_digits_acc base acc (l1 ++ l2) =
    match parse_digits_acc base acc l1 with Some a => parse_digits_acc base a l2 | None => None end.
Proof.
  revert acc. induction l1 as [|c t IH]; intros acc; cbn [app parse_digits_acc]; [reflexivity|].
  destruct (digit_val c) as [d|]; [|reflexivity]. destruct (d <? base); [apply IH|reflexivity].
Qed.

(* digits_of with enough fuel: positional digits, each below the base, leading one nonzero *)
Lemma digits_parse base : 2 <= base <= 36 -> forall fuel n acc,
  0 <= n < 2 ^ (Z.of_nat fuel + 1) ->
  parse_digits_acc base acc (map digit_char (digits_of fuel base n)) =
    Some (acc * base ^ Z.of_nat (length (digits_of fuel base n)) + n).
Proof.
  intros Hb. induction fuel as [|k IH]; intros n acc Hn.
  - cbn [digits_of]. change (2 ^ (Z.of_nat 0 + 1)) with 2 in Hn.
    rewrite Z.mod_small by lia. cbn [map parse_digits_acc length].
    rewrite digit_roundtrip by lia. assert (L : (n <? base) = true) by lia. rewrite L.
    change (Z.of_nat 1) with 1. rewrite Z.pow_1_r. reflexivity.
  - cbn [digits_of]. destruct (n <? base) eqn:L.
    + cbn [map parse_digits_acc length]. rewrite digit_roundtrip by lia. rewrite L.
      change (Z.of_nat 1) with 1. rewrite Z.pow_1_r. reflexivity.
    + rewrite map_app, parse_acc_app.
      assert (P : 0 <= n / base < 2 ^ (Z.of_nat k + 1)).
      { split; [apply Z.div_pos; lia|]. apply Z.div_lt_upper_bound; [lia|].
        replace (Z.of_nat (S k) + 1) with (Z.succ (Z.of_nat k + 1)) in Hn by lia.
        rewrite Z.pow_succ_r in Hn by lia.
        assert (0 < 2 ^ (Z.of_nat k + 1)) by (apply Z.pow_pos_nonneg; lia). nia. }
      rewrite (IH (n / base) acc P). cbn [map parse_digits_acc].
      pose proof (Z.mod_pos_bound n base ltac:(lia)) as M.
      rewrite digit_roundtrip by lia. assert (L2 : (n mod base <? base) = true) by lia. rewrite L2.
      f_equal. rewrite app_length. cbn [length]. rewrite Nat2Z.inj_add. change (Z.of_nat 1) with 1.
      rewrite Z.pow_add_r by lia. rewrite Z.pow_1_r.
      pose proof (Z.div_mod n base ltac:(lia)). nia.
Qed.

Lemma digits_first base : 2 <= base <= 36 -> forall fuel n,
  0 < n < 2 ^ (Z.of_nat fuel + 1) ->
  exists d t, digits_of fuel base n = d :: t /\ 0 < d < base.
Proof.
  intros Hb. induction fuel as [|k IH]; intros n Hn.
  - cbn [digits_of]. change (2 ^ (Z.of_nat 0 + 1)) with 2 in Hn. exists (n mod base), [].
    rewrite Z.mod_small by lia. split; [reflexivity|lia].
  - cbn [digits_of]. destruct (n <? base) eqn:L.
    + exists n, []. split; [reflexivity|lia].
    + assert (P : 0 < n / base < 2 ^ (Z.of_nat k + 1)).
      { split; [apply Z.div_str_pos; lia|]. apply Z.div_lt_upper_bound; [lia|].
        replace (Z.of_nat (S k) + 1) with (Z.succ (Z.of_nat k + 1)) in Hn by lia.
        rewrite Z.pow_succ_r in Hn by lia.
        assert (0 < 2 ^ (Z.of_nat k + 1)) by (apply Z.pow_pos_nonneg; lia). nia. }
      destruct (IH (n / base) P) as (d & t & E & D). exists d, (t ++ [n mod base]). rewrite E. split; [reflexivity|assumption].
Qed.

Lemma fuel_enough a : 0 <= a -> 0 <= a < 2 ^ (Z.of_nat (Z.to_nat (Z.log2 a)) + 1).
Proof.
  intros Ha. split; [assumption|]. rewrite Z2Nat.id by apply Z.log2_nonneg.
  destruct (Z.eq_dec a 0) as [->|NZ]; [cbn; lia|].
  replace (Z.log2 a + 1) with (Z.succ (Z.log2 a)) by lia. apply Z.log2_spec. lia.
Qed.

(* the digit string of a >= 0, parsed by the tail of parseInt *)
Lemma finish_digits base a neg : 2 <= base <= 36 -> 0 <= a ->
  parse_finish neg (map digit_char (digits_of (Z.to_nat (Z.log2 a)) base a)) base = Some (if neg then 0 - a else a).
Proof.
  intros Hb Ha. unfold parse_finish. assert (B0 : (base =? 0) = false) by lia. rewrite B0.
  pose proof (fuel_enough a Ha) as F. set (fuel := Z.to_nat (Z.log2 a)) in *.
  pose proof (digits_parse base Hb fuel a 0 F) as P. rewrite Z.mul_0_l, Z.add_0_l in P.
  destruct (digits_of fuel base a) as [|d t] eqn:E.
  - destruct fuel; cbn [digits_of] in E; [discriminate|]. destruct (a <? base); [discriminate|].
    destruct (digits_of fuel base (a / base)); discriminate.
  - cbn [map]. cbn [map] in P.
    assert (D : 0 <= d < 36).
    { destruct (Z.eq_dec a 0) as [->|NZ].
      - destruct fuel; cbn [digits_of] in E; [rewrite Z.mod_0_l in E by lia; injection E as <- _; lia|].
        assert (L : (0 <? base) = true) by lia. rewrite L in E. injection E as <- _. lia.
      - destruct (digits_first base Hb fuel a ltac:(lia)) as (d' & t' & E' & D'). rewrite E in E'. injection E' as <- <-. lia. }
    destruct (digit_char_plain d D) as [S _]. rewrite S.
    unfold big_SetString. rewrite P. reflexivity.
Qed.

Lemma digits_head_nonzero base a : 2 <= base <= 36 -> 0 < a ->
  exists c t, map digit_char (digits_of (Z.to_nat (Z.log2 a)) base a) = c :: t /\
              is_sign c = false /\ (c =? 48) = false.
Proof.
  intros Hb Ha. pose proof (fuel_enough a ltac:(lia)) as F.
  destruct (digits_first base Hb (Z.to_nat (Z.log2 a)) a ltac:(lia)) as (d & t & E & D). rewrite E. cbn [map].
  exists (digit_char d), (map digit_char t). split; [reflexivity|].
  destruct (digit_char_plain d ltac:(lia)) as [S Z0]. split; [assumption|apply Z0; lia].
Qed.

Lemma sign_chars c : is_sign c = false -> (c =? 43) = false /\ (c =? 45) = false.
Proof. unfold is_sign. lia. Qed.

(* parse_unsigned on a digit string that does not start with '0', or is exactly "0" *)
Lemma unsigned_digits base a neg : 2 <= base <= 36 -> 0 <= a ->
  parse_unsigned neg (map digit_char (digits_of (Z.to_nat (Z.log2 a)) base a)) base = Some (if neg then 0 - a else a).
Proof.
  intros Hb Ha. pose proof (finish_digits base a neg Hb Ha) as F.
  destruct (Z.eq_dec a 0) as [->|NZ].
  - change (Z.to_nat (Z.log2 0)) with 0%nat in *. cbn [digits_of] in *. rewrite Z.mod_0_l in * by lia.
    cbn [map] in *. unfold parse_unsigned. exact F.
  - destruct (digits_head_nonzero base a Hb ltac:(lia)) as (c & t & E & S & Z0). rewrite E in *.
    unfold parse_unsigned. destruct t as [|c1 rest]; [exact F|]. rewrite Z0. exact F.
Qed.

Lemma parse_print_lemma base z : 2 <= base <= 36 ->
  parseInt (print_int base z) base = Some z /\
  int_of_string (print_int base z) (Some base) = Some z.
Proof.
  intros Hb.
  assert (P : parseInt (print_int base z) base = Some z).
  { unfold print_int. destruct (z <? 0) eqn:N.
    - cbn [app]. unfold parseInt. change (45 =? 43) with false. change (45 =? 45) with true. cbn [andb].
      rewrite (unsigned_digits base (Z.abs z) true Hb ltac:(lia)). f_equal. lia.
    - cbn [app]. pose proof (unsigned_digits base (Z.abs z) false Hb ltac:(lia)) as U.
      replace (Z.abs z) with z in * by lia.
      destruct (Z.eq_dec z 0) as [->|NZ].
      + change (Z.to_nat (Z.log2 0)) with 0%nat in *. cbn [digits_of] in *. rewrite Z.mod_0_l in * by lia.
        cbn [map] in *. unfold parseInt. change (digit_char 0) with 48. change (48 =? 43) with false. change (48 =? 45) with false.
        exact U.
      + destruct (digits_head_nonzero base z Hb ltac:(lia)) as (c & t & E & S & Z0). rewrite E in *.
        unfold parseInt. destruct (sign_chars c S) as [S1 S2]. rewrite S1, S2. exact U. }
  split; [exact P|]. unfold int_of_string.
  assert (A : in_int32 base = true) by (unfold in_int32, min_int32, max_int32; lia). rewrite A.
  assert (B : negb (base =? 0) && ((base <? 2) || (36 <? base)) = false) by lia. rewrite B. exact P.
Qed.

Lemma parse_print_decimal_lemma z :
  int_of_string (print_int 10 z) None = Some z /\ parseInt (print_int 10 z) 0 = Some z.
Proof.
  split; [unfold int_of_string; apply parse_print_lemma; lia|].
  (* base 0: no prefix, no leading zero, so base becomes 10 *)
  pose proof (parse_print_lemma 10 z ltac:(lia)) as [P _].
  unfold print_int in *. destruct (z <? 0) eqn:N; cbn [app] in *.
  - unfold parseInt in *. change (45 =? 43) with false in *. change (45 =? 45) with true in *. cbn [andb] in *.
    destruct (digits_head_nonzero 10 (Z.abs z) ltac:(lia) ltac:(lia)) as (c & t & E & S & Z0). rewrite E in *.
    unfold parse_unsigned in *. destruct t as [|c1 rest]; [|rewrite Z0 in *]; unfold parse_finish in *; exact P.
  - replace (Z.abs z) with z in * by lia. destruct (Z.eq_dec z 0) as [->|NZ].
    + vm_compute. reflexivity.
    + destruct (digits_head_nonzero 10 z ltac:(lia) ltac:(lia)) as (c & t & E & S & Z0). rewrite E in *.
      unfold parseInt in *. destruct (sign_chars c S) as [S1 S2]. rewrite S1, S2 in *.
      unfold parse_unsigned in *. destruct t as [|c1 rest]; [|rewrite Z0 in *]; unfold parse_finish in *; exact P.
Qed.

(* literals with a base prefix: read back with base 0 and with the matching explicit base *)
Lemma parse_prefixed_lemma base z : (base = 2 \/ base = 8 \/ base = 16) ->
  parseInt (print_prefixed base z) 0 = Some z /\ parseInt (print_prefixed base z) base = Some z.
Proof.
  intros Hb. assert (Hb' : 2 <= base <= 36) by lia.
  assert (PB : prefix_base (nth 1 (prefix_of base) 0) = base /\ exists c, prefix_of base = [48; c]).
  { destruct Hb as [->|[->| ->]]; vm_compute; split; try reflexivity; eexists; reflexivity. }
  destruct PB as [PB [c PE]]. rewrite PE in PB. cbn [nth] in PB.
  assert (U : forall neg b, (b = 0 \/ b = base) ->
     parse_unsigned neg (prefix_of base ++ map digit_char (digits_of (Z.to_nat (Z.log2 (Z.abs z))) base (Z.abs z))) b
       = Some (if neg then 0 - Z.abs z else Z.abs z)).
  { intros neg b Hbb. pose proof (finish_digits base (Z.abs z) neg Hb' ltac:(lia)) as F.
    rewrite PE. cbn [app]. unfold parse_unsigned.
    destruct (map digit_char (digits_of (Z.to_nat (Z.log2 (Z.abs z))) base (Z.abs z))) as [|d t] eqn:E.
    - unfold parse_finish in F. discriminate.
    - change (48 =? 48) with true. cbv iota. rewrite PB.
      assert (NB : negb (base =? 0) = true) by lia. rewrite NB.
      assert (C : (b =? 0) || (base =? b) = true) by lia. rewrite C. exact F. }
  unfold print_prefixed. destruct (z <? 0) eqn:N; cbn [app].
  - unfold parseInt. change (45 =? 43) with false. change (45 =? 45) with true. cbn [andb].
    rewrite !U by lia. split; f_equal; lia.
  - rewrite PE. cbn [app]. unfold parseInt. change (48 =? 43) with false. change (48 =? 45) with false.
    pose proof (U false 0 ltac:(lia)) as U0. pose proof (U false base ltac:(lia)) as U1.
    rewrite PE in U0, U1. cbn [app] in U0, U1. rewrite U0, U1. split; f_equal; lia.
Qed.

(* ---------- the parser accepts exactly the strings of the specification, with the same value *)
Lemma digit_val_spec c : digit_val c = if 0 <=? spec_digit c then Some (spec_digit c) else None.
Proof.
  unfold digit_val, spec_digit.
  destruct ((48 <=? c) && (c <=? 57)) eqn:A.
  - assert (H : (0 <=? c - 48) = true) by lia. rewrite H. reflexivity.
  - destruct ((97 <=? c) && (c <=? 122)) eqn:B.
    + assert (H : (0 <=? c - 97 + 10) = true) by lia. rewrite H. f_equal. lia.
    + destruct ((65 <=? c) && (c <=? 90)) eqn:C.
      * assert (H : (0 <=? c - 65 + 10) = true) by lia. rewrite H. f_equal. lia.
      * reflexivity.
Qed.

Lemma parse_acc_spec base s : forall acc,
  parse_digits_acc base acc s =
    if forallb (fun c => (0 <=? spec_digit c) && (spec_digit c <? base)) s
    then Some (fold_left (fun acc c => acc * base + spec_digit c) s acc) else None.
Proof.
  induction s as [|c t IH]; intros acc; cbn [parse_digits_acc forallb fold_left]; [reflexivity|].
  rewrite digit_val_spec. destruct (0 <=? spec_digit c); cbn [andb]; [|reflexivity].
  destruct (spec_digit c <? base); [apply IH|reflexivity].
Qed.

Lemma SetString_spec base s : big_SetString s base = spec_digits base s.
Proof. unfold big_SetString, spec_digits. destruct s; [reflexivity|apply parse_acc_spec]. Qed.

Lemma sign_not_digit base c t : is_sign c = true -> spec_digits base (c :: t) = None.
Proof.
  intros H. unfold spec_digits. cbn [forallb].
  assert (E : spec_digit c = -1).
  { unfold is_sign in H. unfold spec_digit.
    destruct (c =? 43) eqn:A; [assert (c = 43) by lia; subst; reflexivity|].
    assert (c = 45) by lia. subst. reflexivity. }
  rewrite E. reflexivity.
Qed.

Definition sgn_of (neg : bool) : Z := if neg then -1 else 1.

Lemma finish_spec neg s base : base <> 0 ->
  parse_finish neg s base = match spec_digits base s with Some v => Some (sgn_of neg * v) | None => None end.
Proof.
  intros Hb. unfold parse_finish. assert (B : (base =? 0) = false) by lia. rewrite B.
  destruct s as [|c t]; [reflexivity|].
  destruct (is_sign c) eqn:S.
  - rewrite (sign_not_digit base c t S). reflexivity.
  - rewrite SetString_spec. destruct (spec_digits base (c :: t)); [|reflexivity].
    f_equal. unfold sgn_of. destruct neg; lia.
Qed.

Lemma finish_spec0 neg s :
  parse_finish neg s 0 = match spec_digits 10 s with Some v => Some (sgn_of neg * v) | None => None end.
Proof.
  pose proof (finish_spec neg s 10 ltac:(lia)) as F. unfold parse_finish in *. exact F.
Qed.

Lemma prefix_base_spec c0 c1 rest : spec_prefix (c0 :: c1 :: rest) = if c0 =? 48 then prefix_base c1 else 0.
Proof.
  unfold spec_prefix, prefix_base. destruct (c0 =? 48); [|reflexivity].
  destruct ((c1 =? 120) || (c1 =? 88)) eqn:X; destruct ((c1 =? 111) || (c1 =? 79)) eqn:O;
    destruct ((c1 =? 98) || (c1 =? 66)) eqn:B; try reflexivity; lia.
Qed.

Lemma prefix_base_values c : prefix_base c = 0 \/ prefix_base c = 2 \/ prefix_base c = 8 \/ prefix_base c = 16.
Proof.
  unfold prefix_base. destruct ((c =? 111) || (c =? 79)); [tauto|].
  destruct ((c =? 120) || (c =? 88)); [tauto|]. destruct ((c =? 98) || (c =? 66)); tauto.
Qed.

Lemma unsigned_spec neg body base : (base = 0 \/ 2 <= base <= 36) ->
  parse_unsigned neg body base =
    match (let pre := spec_prefix body in
           if base =? 0 then
             if negb (pre =? 0) then spec_digits pre (skipn 2 body)
             else match body with
                  | c0 :: _ :: _ => if c0 =? 48
                                    then (if forallb (fun c => c =? 48) body then Some 0 else None)
                                    else spec_digits 10 body
                  | _ => spec_digits 10 body
                  end
           else if (pre =? base) && (2 <? Z.of_nat (length body)) then spec_digits base (skipn 2 body)
           else spec_digits base body)
    with Some v => Some (sgn_of neg * v) | None => None end.
Proof.
  intros Hb. cbv zeta. unfold parse_unsigned.
  destruct body as [|c0 [|c1 rest]].
  - cbn [spec_prefix]. destruct (base =? 0) eqn:B0.
    + assert (base = 0) by lia. subst. cbn [Z.eqb negb]. apply finish_spec0.
    + assert (E : (0 =? base) = false) by lia. rewrite E. cbn [andb]. apply finish_spec. lia.
  - cbn [spec_prefix]. destruct (base =? 0) eqn:B0.
    + assert (base = 0) by lia. subst. cbn [Z.eqb negb]. apply finish_spec0.
    + assert (E : (0 =? base) = false) by lia. rewrite E. cbn [andb]. apply finish_spec. lia.
  - rewrite prefix_base_spec. destruct (c0 =? 48) eqn:Z0.
    + destruct rest as [|c2 rest'].
      * (* "0c": too short for a prefix *)
        change (negb (0 =? 0)) with false. cbv iota.
        destruct (base =? 0) eqn:B0.
        -- assert (base = 0) by lia. subst.
           destruct (prefix_base_values c1) as [P|P].
           ++ rewrite P. cbn [Z.eqb negb]. unfold all_zero_digits. cbn [forallb]. rewrite Z0. cbn [andb].
              destruct (c1 =? 48); cbn [andb]; rewrite ?Z.mul_0_r; reflexivity.
           ++ assert (NP : negb (prefix_base c1 =? 0) = true) by lia. rewrite NP. cbn [skipn].
              unfold all_zero_digits. cbn [forallb].
              assert (C1 : (c1 =? 48) = false).
              { unfold prefix_base in P. destruct ((c1 =? 111) || (c1 =? 79)) eqn:A; [lia|].
                destruct ((c1 =? 120) || (c1 =? 88)) eqn:A2; [lia|]. destruct ((c1 =? 98) || (c1 =? 66)) eqn:A3; lia. }
              rewrite C1. reflexivity.
        -- cbn [length]. change (2 <? Z.of_nat 2) with false. rewrite andb_false_r. apply finish_spec. lia.
      * (* "0c..." long enough *)
        destruct (negb (prefix_base c1 =? 0)) eqn:NP.
        -- destruct (base =? 0) eqn:B0.
           ++ cbn [orb skipn]. rewrite finish_spec by lia. reflexivity.
           ++ cbn [orb]. assert (L : (2 <? Z.of_nat (length (c0 :: c1 :: c2 :: rest'))) = true).
              { cbn [length]. lia. }
              rewrite L, andb_true_r. destruct (prefix_base c1 =? base) eqn:PB.
              ** cbn [skipn]. assert (prefix_base c1 = base) by lia. rewrite finish_spec by lia. subst. reflexivity.
              ** apply finish_spec. lia.
        -- assert (P0 : prefix_base c1 = 0) by lia. rewrite P0.
           destruct (base =? 0) eqn:B0.
           ++ unfold all_zero_digits. cbn [forallb]. rewrite Z0. cbn [andb]. destruct ((c1 =? 48) && ((c2 =? 48) && forallb (fun c => c =? 48) rest')); rewrite ?Z.mul_0_r; reflexivity.
           ++ assert (E : (0 =? base) = false) by lia. rewrite E. cbn [andb]. apply finish_spec. lia.
    + (* no leading zero *)
      destruct (base =? 0) eqn:B0.
      * assert (base = 0) by lia. subst. cbn [Z.eqb negb]. apply finish_spec0.
      * assert (E : (0 =? base) = false) by lia. rewrite E. cbn [andb]. apply finish_spec. lia.
Qed.

Lemma parse_spec_lemma s base : (base = 0 \/ 2 <= base <= 36) -> parseInt s base = spec_parse s base.
Proof.
  intros Hb. unfold parseInt, spec_parse.
  destruct s as [|c t].
  - rewrite (unsigned_spec false [] base Hb). cbv zeta.
    match goal with |- match ?X with _ => _ end = match ?Y with _ => _ end => change Y with X; destruct X end; [f_equal; unfold sgn_of; lia|reflexivity].
  - destruct (c =? 43) eqn:P; [assert (M : (c =? 45) = false) by lia; rewrite M|destruct (c =? 45) eqn:M].
    + rewrite (unsigned_spec false t base Hb). cbv zeta.
      match goal with |- match ?X with _ => _ end = match ?Y with _ => _ end => change Y with X; destruct X end; [f_equal; unfold sgn_of; lia|reflexivity].
    + rewrite (unsigned_spec true t base Hb). cbv zeta.
      match goal with |- match ?X with _ => _ end = match ?Y with _ => _ end => change Y with X; destruct X end; [f_equal; unfold sgn_of; lia|reflexivity].
    + rewrite (unsigned_spec false (c :: t) base Hb). cbv zeta.
      match goal with |- match ?X with _ => _ end = match ?Y with _ => _ end => change Y with X; destruct X end; [f_equal; unfold sgn_of; lia|reflexivity].
Qed.

Lemma int_of_string_spec_lemma s base : int_of_string s base = spec_int_of_string s base.
Proof.
  unfold int_of_string, spec_int_of_string. destruct base as [b|].
  - destruct (in_int32 b) eqn:I32; cbn [negb].
    + destruct (negb (b =? 0) && ((b <? 2) || (36 <? b))) eqn:G.
      * assert (F : (b =? 0) || ((2 <=? b) && (b <=? 36)) = false) by lia. rewrite F. reflexivity.
      * assert (F : (b =? 0) || ((2 <=? b) && (b <=? 36)) = true) by lia. rewrite F. apply parse_spec_lemma. lia.
    + assert (F : (b =? 0) || ((2 <=? b) && (b <=? 36)) = false).
      { unfold in_int32, min_int32, max_int32 in I32. lia. }
      rewrite F. reflexivity.
  - apply parse_spec_lemma. lia.
Qed.
