(* C10 -- specification of correctly rounded float arithmetic on the exact
   dyadic values, in the style of SpecRound.v: a finite binary64 value is the
   integer  value * 2^1074  (every finite binary64 value is a multiple of
   2^-1074), so sums and floored remainders of floats are computed exactly in Z
   on that grid and then rounded to nearest, ties to even.
   Independent of C10.Model and of SpecFloat's operations. *)
From Coq Require Import ZArith Bool.
From Coq Require Floats.SpecFloat.
From SV Require Import C10.SpecRound.
Import Floats.SpecFloat.
Open Scope Z_scope.

(* f is the binary64 value nearest (ties to even) to the number X * 2^-1074;
   the infinity of X's sign from the IEEE overflow threshold on.
   (rounds_to_nearest_even z f is the instance X = z * 2^1074 plus "0 gives +0".) *)
Definition rounds_grid_to_nearest_even (X : Z) (f : spec_float) : Prop :=
  if overflow_threshold * scale <=? Z.abs X then f = S754_infinity (X <? 0)
  else
    valid_binary 53 1024 f = true /\
    exists v, scaled_val f = Some v /\
      (forall w, b64_scaled w -> Z.abs (X - v) <= Z.abs (X - w)) /\
      (forall w, b64_scaled w -> w <> v -> Z.abs (X - w) = Z.abs (X - v) -> mantissa_even f = true).

(* x % y on the exact values: the remainder of floored division, Z.modulo on the
   grid (X mod Y has the sign of Y, |X mod Y| < |Y|, X = Y * (X / Y) + X mod Y) *)
Definition spec_grid_mod (X Y : Z) : Z := X mod Y.

(* x // y = floor (q) for the float quotient q (doc/spec.md: "x // y yields
   floor(x / y), the largest integer value not greater than x / y"): on the grid,
   the largest multiple of 2^1074 not above Q *)
Definition spec_grid_floor (Q : Z) : Z := (Q / scale) * scale.

(* f is the binary64 value nearest (ties to even) to the rational number
   (N / D) * 2^-1074, D > 0: distances to candidates w are compared after
   multiplying by D, |N - w * D|, so no division is needed.
   The exact quotient of two floats with grid values X and Y <> 0 is
   (X / Y) = ((X * 2^1074 * sgn Y) / |Y|) * 2^-1074. *)
Definition rounds_ratio_to_nearest_even (N D : Z) (f : spec_float) : Prop :=
  if overflow_threshold * scale * D <=? Z.abs N then f = S754_infinity (N <? 0)
  else
    valid_binary 53 1024 f = true /\
    exists v, scaled_val f = Some v /\
      (forall w, b64_scaled w -> Z.abs (N - v * D) <= Z.abs (N - w * D)) /\
      (forall w, b64_scaled w -> w <> v -> Z.abs (N - w * D) = Z.abs (N - v * D) -> mantissa_even f = true).

Definition quotient_num (X Y : Z) : Z := X * scale * Z.sgn Y.
Definition quotient_den (Y : Z) : Z := Z.abs Y.
