(* C10 -- SpecFloat's division (SFdiv: integer quotient with remainder location,
   then binary_round_aux) returns the binary64 value nearest to the exact
   rational quotient, ties to even; hence  x // y = floor(x / y)  on floats is
   the exact floor of the correctly rounded quotient (doc/spec.md).
   Generalises the shift invariant of ProofsRound.v to a remainder measured
   against an arbitrary positive gap (the divisor times a power of two). *)
From Coq Require Import ZArith Bool List Lia Zpower.
From Coq Require Import ZifyBool.
From Coq Require Floats.SpecFloat.
From SV Require Import Common.GoInt C10.Model C10.Spec C10.ProofsInt C10.ProofsRange C10.ProofsFloat.
From SV Require Import C10.SpecRound C10.ProofsRound C10.SpecFloatArith C10.ModelFloatDiv C10.ProofsFloatArith.
Import Floats.SpecFloat.
Open Scope Z_scope.

(* ---------- 1. shift invariant against a gap G *)
Definition loc_okG (rem G : Z) (r s : bool) : Prop :=
  match r, s with
  | false, false => rem = 0
  | false, true => 0 < rem /\ 2 * rem < G
  | true, false => 2 * rem = G
  | true, true => G < 2 * rem
  end.

Definition rec_invG (x G : Z) (mrs : shr_record) : Prop :=
  0 <= shr_m mrs /\ 0 < G /\
  exists rem, x = shr_m mrs * G + rem /\ 0 <= rem < G /\ loc_okG rem G (shr_r mrs) (shr_s mrs).

Lemma shr_1_invG x G mrs : rec_invG x G mrs -> rec_invG x (2 * G) (shr_1 mrs).
Proof.
  destruct mrs as [m r s]. unfold rec_invG. cbn [shr_m shr_r shr_s]. intros (Hm & HG & rem & Hx & Hr & Hl).
  unfold loc_okG in *.
  destruct m as [|[p|p|]|p]; cbn [shr_1 shr_m shr_r shr_s]; try lia.
  - split; [lia|]. split; [lia|]. exists rem. destruct r, s; cbn [orb] in *; lia.
  - split; [lia|]. split; [lia|]. exists (G + rem). destruct r, s; cbn [orb] in *; lia.
  - split; [lia|]. split; [lia|]. exists rem. destruct r, s; cbn [orb] in *; lia.
  - split; [lia|]. split; [lia|]. exists (G + rem). destruct r, s; cbn [orb] in *; lia.
Qed.

Lemma iter_shr_invG n : forall x G mrs, rec_invG x G mrs -> rec_invG x (G * 2 ^ Zpos n) (iter_pos shr_1 n mrs).
Proof.
  induction n as [n IH|n IH|]; intros x G mrs H; cbn [iter_pos].
  - replace (G * 2 ^ Zpos n~1) with (2 * G * 2 ^ Zpos n * 2 ^ Zpos n).
    + apply IH, IH, shr_1_invG, H.
    + assert (Q : Zpos n~1 = 1 + Zpos n + Zpos n) by lia. rewrite Q.
      rewrite !Z.pow_add_r by lia. change (2 ^ 1) with 2. ring.
  - replace (G * 2 ^ Zpos n~0) with (G * 2 ^ Zpos n * 2 ^ Zpos n).
    + apply IH, IH, H.
    + assert (Q : Zpos n~0 = Zpos n + Zpos n) by lia. rewrite Q. rewrite Z.pow_add_r by lia. ring.
  - change (2 ^ 1) with 2. replace (G * 2) with (2 * G) by ring. apply shr_1_invG, H.
Qed.

Definition round_caseG (m'' m rem G : Z) : Prop :=
  (m'' = m /\ 2 * rem <= G /\ (2 * rem = G -> Z.even m'' = true)) \/
  (m'' = m + 1 /\ G <= 2 * rem /\ (2 * rem = G -> Z.even m'' = true)).

Lemma round_ne_casesG m rem G r s : 0 <= rem < G -> loc_okG rem G r s ->
  round_caseG (round_nearest_even m (loc_of_shr_record {| shr_m := m; shr_r := r; shr_s := s |})) m rem G.
Proof.
  intros Hr Hl. unfold round_caseG.
  destruct r, s; cbn [loc_okG loc_of_shr_record round_nearest_even] in *.
  - right. split; [reflexivity|]. lia.
  - destruct (Z.even m) eqn:E.
    + left. split; [reflexivity|]. split; [lia|]. intros _. exact E.
    + right. split; [reflexivity|]. split; [lia|]. intros _.
      replace (m + 1) with (Z.succ m) by lia. rewrite Z.even_succ, <- Z.negb_even, E. reflexivity.
  - left. split; [reflexivity|]. lia.
  - left. split; [reflexivity|]. lia.
Qed.

Lemma round_caseG_scale m'' m rem G c : 0 < c -> round_caseG m'' m rem G -> round_caseG m'' m (rem * c) (G * c).
Proof.
  intros Hc RC. unfold round_caseG in *.
  destruct RC as [(E & H1 & Ev)|(E & H1 & Ev)]; [left|right]; (split; [exact E|]).
  - split; [nia|]. intros T. apply Ev. nia.
  - split; [nia|]. intros T. apply Ev. nia.
Qed.

(* ---------- 2. nearest to a ratio N / D *)
Definition nearest_ratio (N D mf Ef : Z) : Prop :=
  let V := mf * 2 ^ Ef in
  (forall w, b64_scaled w -> Z.abs (N - V * D) <= Z.abs (N - w * D)) /\
  (forall w, b64_scaled w -> w <> V -> Z.abs (N - w * D) = Z.abs (N - V * D) -> Z.even mf = true).

Lemma gap_general m E : 0 <= E -> (2 ^ 52 <= m \/ E = 0) ->
  forall w, b64_scaled w -> w <= m * 2 ^ E \/ (m + 1) * 2 ^ E <= w.
Proof.
  intros HE C w (mw & e & Hmw & He & ->). destruct C as [C| ->].
  - pose proof (no_value_between m E mw (e + 1074) C HE ltac:(lia) Hmw). lia.
  - change (2 ^ 0) with 1. assert (0 < 2 ^ (e + 1074)) by (apply Z.pow_pos_nonneg; lia). lia.
Qed.

Lemma nearest_ratio_from_round N D m E R m'' mf Ef :
  N = m * (D * 2 ^ E) + R -> 0 <= R < D * 2 ^ E -> 0 < D -> 0 <= E -> (2 ^ 52 <= m \/ E = 0) ->
  round_caseG m'' m R (D * 2 ^ E) -> mf * 2 ^ Ef = m'' * 2 ^ E ->
  (2 * R = D * 2 ^ E -> Z.even mf = true) ->
  nearest_ratio N D mf Ef.
Proof.
  intros HN HR HD HE C RC Hv Hev. unfold nearest_ratio. rewrite Hv.
  pose proof (gap_general m E HE C) as gap0.
  assert (gap : forall w, b64_scaled w -> w * D <= m * (D * 2 ^ E) \/ m * (D * 2 ^ E) + D * 2 ^ E <= w * D).
  { intros w Hw. destruct (gap0 w Hw) as [W|W]; [left|right].
    - replace (m * (D * 2 ^ E)) with (m * 2 ^ E * D) by ring. apply Z.mul_le_mono_nonneg_r; lia.
    - replace (m * (D * 2 ^ E) + D * 2 ^ E) with ((m + 1) * 2 ^ E * D) by ring. apply Z.mul_le_mono_nonneg_r; lia. }
  assert (EV : forall c, c * 2 ^ E * D = c * (D * 2 ^ E)) by (intros; ring).
  rewrite EV. set (G := D * 2 ^ E) in *. unfold round_caseG in RC. rewrite HN.
  split.
  - intros w Hw. destruct (gap w Hw) as [W|W]; destruct RC as [(-> & H1 & _)|(-> & H1 & _)]; lia.
  - intros w Hw Hne Heq. apply Hev.
    assert (NE : w * D <> m'' * G).
    { intros Q. apply Hne. rewrite <- EV in Q. apply Z.mul_reg_r in Q; lia. }
    destruct (gap w Hw) as [W|W]; destruct RC as [(-> & H1 & _)|(-> & H1 & _)]; lia.
Qed.

(* ---------- 3. overflow threshold for a ratio *)
Lemma overflow_iff_ratio c N D m' k R m'' : 1 <= c -> 0 < D ->
  N = m' * (D * 2 ^ k) + R -> 0 <= R < D * 2 ^ k -> 1 <= k -> 2 ^ 52 <= m' < 2 ^ 53 ->
  round_caseG m'' m' R (D * 2 ^ k) ->
  ((if m'' <? 2 ^ 53 then k else k + 1) <=? c) = negb ((2 ^ (c + 53) - 2 ^ (c - 1)) * D <=? N).
Proof.
  intros Hc HD Hx Hrem Hk Hm' RC.
  assert (E54 : (2 ^ (c + 53) - 2 ^ (c - 1)) * D = 18014398509481984 * (D * 2 ^ (c - 1)) - D * 2 ^ (c - 1)).
  { replace (c + 53) with (54 + (c - 1)) by lia. rewrite Z.pow_add_r by lia. change (2 ^ 54) with 18014398509481984. ring. }
  rewrite E54.
  change (2 ^ 52) with 4503599627370496 in *. change (2 ^ 53) with 9007199254740992 in *.
  assert (P1 : 0 < 2 ^ (c - 1)) by (apply Z.pow_pos_nonneg; lia).
  assert (P2 : 0 < 2 ^ (k - 1)) by (apply Z.pow_pos_nonneg; lia).
  assert (EP : D * 2 ^ k = 2 * (D * 2 ^ (k - 1))).
  { replace k with (1 + (k - 1)) at 1 by lia. rewrite Z.pow_add_r by lia. change (2 ^ 1) with 2. ring. }
  assert (Mono : forall a b, 0 <= a <= b -> D * 2 ^ a <= D * 2 ^ b).
  { intros. apply Z.mul_le_mono_nonneg_l; [lia|apply Z.pow_le_mono_r; lia]. }
  assert (Dbl : forall a, 0 <= a -> D * 2 ^ (a + 1) = 2 * (D * 2 ^ a)).
  { intros. rewrite Z.pow_add_r by lia. change (2 ^ 1) with 2. ring. }
  assert (C0 : 0 < D * 2 ^ (c - 1)) by nia. assert (H0 : 0 < D * 2 ^ (k - 1)) by nia.
  unfold round_caseG in RC. rewrite EP in *. set (H := D * 2 ^ (k - 1)) in *.
  assert (EvB : forall c, Z.even c = true -> c < 9007199254740992 -> c <= 9007199254740990).
  { intros c0 Ec Hc0. apply Z.even_spec in Ec. destruct Ec as [h ->]. lia. }
  destruct (m'' <? 9007199254740992) eqn:Lt.
  - destruct (k <=? c) eqn:K.
    + assert (HC : H <= D * 2 ^ (c - 1)) by (apply Mono; lia). set (C := D * 2 ^ (c - 1)) in *.
      destruct RC as [(-> & H1 & Ev)|(-> & H1 & _)].
      * destruct (Z.eq_dec (2 * R) (2 * H)) as [Tie|NT].
        -- pose proof (EvB m' (Ev Tie) ltac:(lia)). nia.
        -- nia.
      * nia.
    + assert (HC : D * 2 ^ (c - 1 + 1) <= H) by (apply Mono; lia).
      rewrite Dbl in HC by lia. set (C := D * 2 ^ (c - 1)) in *. nia.
  - destruct RC as [(-> & _)|(-> & H1 & _)]; [lia|].
    assert (m' = 9007199254740991) by lia. subst m'.
    destruct (k + 1 <=? c) eqn:K.
    + assert (HC : D * 2 ^ (k - 1 + 1) <= D * 2 ^ (c - 1)) by (apply Mono; lia).
      rewrite Dbl in HC by lia. fold H in HC. set (C := D * 2 ^ (c - 1)) in *. nia.
    + assert (HC : D * 2 ^ (c - 1) <= H) by (apply Mono; lia). set (C := D * 2 ^ (c - 1)) in *. nia.
Qed.

(* ---------- 4. number of digits *)
Lemma Zdigits2_bounds z : 0 < z -> 2 ^ (Zdigits2 z - 1) <= z < 2 ^ Zdigits2 z.
Proof.
  destruct z as [|p|p]; try lia. intros _. cbn [Zdigits2].
  split; [apply digits2_pos_lower|apply digits2_pos_bound].
Qed.

Lemma digits2_le p n : Zpos p < 2 ^ n -> Zpos (digits2_pos p) <= n.
Proof.
  intros H. pose proof (digits2_pos_lower p) as L.
  destruct (Z_le_gt_dec (Zpos (digits2_pos p)) n) as [|G]; [assumption|exfalso].
  destruct (Z_lt_le_dec n 0). { rewrite Z.pow_neg_r in H by lia. lia. }
  assert (2 ^ n <= 2 ^ (Zpos (digits2_pos p) - 1)) by (apply Z.pow_le_mono_r; lia). lia.
Qed.

(* the renormalising shift does nothing on a subnormal significand *)
Lemma second_shift_sub m : 0 <= m < 2 ^ 52 ->
  shr_fexp 53 1024 m (-1074) loc_Exact = ({| shr_m := m; shr_r := false; shr_s := false |}, -1074).
Proof.
  intros Hm. destruct m as [|pm|pm]; try lia.
  - reflexivity.
  - unfold shr_fexp. cbn [Zdigits2]. pose proof (digits2_le pm 52 ltac:(lia)) as D.
    assert (F : fexp 53 1024 (Zpos (digits2_pos pm) + -1074) - -1074 = 0) by (unfold fexp, emin; lia).
    rewrite F. reflexivity.
Qed.

Lemma shr_m_of_loc m l : shr_m (shr_record_of_loc m l) = m.
Proof. destruct l as [|[| |]]; reflexivity. Qed.

(* ---------- 5. binary_round_aux on a significand with a located remainder:
   the true magnitude is (A / B) * 2^eq with A = mq * B + rd, 0 <= rd < B *)
Definition mag_result (sx : bool) (N D : Z) (f : float) : Prop :=
  if overflow_threshold * scale * D <=? N then f = S754_infinity sx
  else exists mf Ef, nearest_ratio N D mf Ef /\
       ((mf = 0 /\ f = S754_zero sx) \/
        (exists pm, mf = Zpos pm /\ f = S754_finite sx pm (Ef - 1074) /\ valid_float f = true)).

Lemma TS_big : 2 ^ 54 * 2 ^ 2044 - 2 ^ 2044 = overflow_threshold * scale.
Proof. apply Z.eqb_eq. vm_compute. reflexivity. Qed.

Lemma binary_round_aux_ratio sx mq eq l A B rd :
  0 <= mq -> 0 < B -> A = mq * B + rd -> 0 <= rd < B ->
  loc_okG rd B (shr_r (shr_record_of_loc mq l)) (shr_s (shr_record_of_loc mq l)) ->
  eq <= fexp 53 1024 (Zdigits2 mq + eq) ->
  let fe := fexp 53 1024 (Zdigits2 mq + eq) in
  mag_result sx (A * 2 ^ (fe + 1074)) (B * 2 ^ (fe - eq)) (binary_round_aux 53 1024 sx mq eq l).
Proof.
  intros Hq HB HA Hrd Hl Hn fe.
  assert (Hfe : fe = Z.max (Zdigits2 mq + eq - 53) (-1074)) by (unfold fe, fexp, emin; lia).
  assert (Hfe0 : -1074 <= fe) by lia. fold fe in Hn.
  remember (binary_round_aux 53 1024 sx mq eq l) as BR eqn:EBR.
  unfold binary_round_aux in EBR. unfold shr_fexp at 1 in EBR. fold fe in EBR.
  (* first shift *)
  assert (S1 : exists mrs', shr (shr_record_of_loc mq l) eq (fe - eq) = (mrs', fe) /\
                            rec_invG A (B * 2 ^ (fe - eq)) mrs').
  { assert (I0 : rec_invG A B (shr_record_of_loc mq l)).
    { unfold rec_invG. rewrite shr_m_of_loc. split; [exact Hq|]. split; [exact HB|]. exists rd. auto. }
    destruct (fe - eq) as [|pn|pn] eqn:En; try lia.
    - exists (shr_record_of_loc mq l). split; [cbn [shr]; f_equal; lia|]. change (2 ^ 0) with 1. rewrite Z.mul_1_r. exact I0.
    - exists (iter_pos shr_1 pn (shr_record_of_loc mq l)). split; [cbn [shr]; f_equal; lia|]. apply iter_shr_invG, I0. }
  destruct S1 as (mrs' & E1 & I1). rewrite E1 in EBR. clear E1.
  set (n := fe - eq) in *. set (G := B * 2 ^ n) in *.
  destruct mrs' as [m r s]. destruct I1 as (Hm & HG & rem & HAm & Hrem & Hlm). cbn [shr_m shr_r shr_s] in *.
  assert (Pn : 0 < 2 ^ n) by (apply Z.pow_pos_nonneg; lia).
  (* m = mq / 2^n *)
  assert (Sand : m * 2 ^ n <= mq < (m + 1) * 2 ^ n).
  { unfold G in *. set (P := 2 ^ n) in *. split; nia. }
  assert (Msz : m < 2 ^ 53 /\ (2 ^ 52 <= m \/ fe = -1074)).
  { destruct (Z.eq_dec mq 0) as [Q0|Q0].
    - subst mq. cbn [Zdigits2] in Hfe. assert (m = 0) by nia. subst m. split; [lia|]. right. lia.
    - pose proof (Zdigits2_bounds mq ltac:(lia)) as [Dl Du]. set (dq := Zdigits2 mq) in *.
      split.
      + assert (2 ^ dq <= 2 ^ (n + 53)) by (apply Z.pow_le_mono_r; lia).
        rewrite Z.pow_add_r in H by lia. set (P := 2 ^ n) in *. nia.
      + destruct (Z.eq_dec fe (-1074)); [right; assumption|left].
        assert (En : dq - 1 = 52 + n) by lia. rewrite En, Z.pow_add_r in Dl by lia. set (P := 2 ^ n) in *. nia. }
  destruct Msz as [Mlt Mcan].
  pose proof (round_ne_casesG m rem G r s Hrem Hlm) as RC.
  set (m'' := round_nearest_even m _) in *.
  assert (Hm'' : 0 <= m'' <= 2 ^ 53) by (unfold round_caseG in RC; lia).
  (* the target, on the grid *)
  set (E := fe + 1074). assert (HE : 0 <= E) by (unfold E; lia).
  assert (PE : 0 < 2 ^ E) by (apply Z.pow_pos_nonneg; lia).
  assert (HN : A * 2 ^ E = m * (G * 2 ^ E) + rem * 2 ^ E) by (rewrite HAm; ring).
  assert (HR : 0 <= rem * 2 ^ E < G * 2 ^ E) by nia.
  pose proof (round_caseG_scale m'' m rem G (2 ^ E) PE RC) as RC'.
  assert (Mcan' : 2 ^ 52 <= m \/ E = 0) by (unfold E; lia).
  assert (Tie : 2 * (rem * 2 ^ E) = G * 2 ^ E -> Z.even m'' = true).
  { unfold round_caseG in RC'. intros T. destruct RC' as [(_ & _ & Ev)|(_ & _ & Ev)]; exact (Ev T). }
  unfold mag_result. fold E.
  destruct (Z_lt_le_dec m'' (2 ^ 52)) as [Sub|Nor].
  - (* subnormal result *)
    assert (fe = -1074) by (unfold round_caseG in RC; lia).
    assert (E0 : E = 0) by (unfold E; lia).
    replace fe with (-1074) in EBR by lia. rewrite second_shift_sub in EBR by lia. cbn [shr_m] in EBR.
    assert (O : (overflow_threshold * scale * G <=? A * 2 ^ E) = false).
    { rewrite <- TS_big. rewrite HN, E0. change (2 ^ 0) with 1. rewrite !Z.mul_1_r in *.
      change (2 ^ 54) with 18014398509481984. change (2 ^ 53) with 9007199254740992 in *.
      assert (1 <= 2 ^ 2044) by (assert (0 < 2 ^ 2044) by (apply Z.pow_pos_nonneg; lia); lia).
      set (C := 2 ^ 2044) in *. nia. }
    rewrite O. exists m'', 0. split.
    + apply (nearest_ratio_from_round _ G m E (rem * 2 ^ E) m''); try assumption; try lia. rewrite E0. reflexivity.
    + destruct m'' as [|pm|pm] eqn:Em; try lia; [left; split; [reflexivity|exact EBR]|right].
      exists pm. split; [reflexivity|]. change (0 - 1074) with (-1074).
      assert (EB : BR = S754_finite sx pm (-1074)) by (rewrite EBR; reflexivity).
      split; [exact EB|]. rewrite EB. apply valid_min_exp. lia.
  - (* normal result, possibly with a carry *)
    assert (OV : ((if m'' <? 2 ^ 53 then fe else fe + 1) <=? 971) = negb (overflow_threshold * scale * G <=? A * 2 ^ E)).
    { destruct (Z_le_gt_dec fe 970) as [Lo|Hi].
      - assert (O : (overflow_threshold * scale * G <=? A * 2 ^ E) = false).
        { rewrite <- TS_big, HN. change (2 ^ 54) with 18014398509481984. change (2 ^ 53) with 9007199254740992 in *.
          assert (2 ^ E <= 2 ^ 2044) by (apply Z.pow_le_mono_r; unfold E; lia).
          set (C := 2 ^ 2044) in *. set (Q := 2 ^ E) in *. nia. }
        rewrite O. destruct (m'' <? 2 ^ 53); cbn [negb]; lia.
      - assert (M52 : 2 ^ 52 <= m) by lia.
        pose proof (overflow_iff_ratio 2045 (A * 2 ^ E) G m E (rem * 2 ^ E) m'' ltac:(lia) HG HN HR ltac:(unfold E; lia) ltac:(lia) RC') as OI.
        rewrite <- threshold_grid in OI. rewrite <- OI. unfold E. destruct (m'' <? 2 ^ 53); lia. }
    destruct (second_shift m'' fe ltac:(lia) Hfe0) as [[Lt Es]|[Eq Es]]; rewrite Es in EBR; cbn [shr_m] in EBR.
    + assert (T : (m'' <? 2 ^ 53) = true) by lia. rewrite T in OV.
      destruct m'' as [|pm|pm] eqn:Em; try lia.
      destruct (overflow_threshold * scale * G <=? A * 2 ^ E); cbn [negb] in OV.
      * rewrite EBR. assert (T2 : Zle_bool fe (1024 - 53) = false) by (change (1024 - 53) with 971; exact OV). rewrite T2. reflexivity.
      * assert (T2 : Zle_bool fe (1024 - 53) = true) by (change (1024 - 53) with 971; exact OV). rewrite T2 in EBR.
        exists (Zpos pm), E. split.
        -- apply (nearest_ratio_from_round _ G m E (rem * 2 ^ E) (Zpos pm)); try assumption; try lia.
        -- right. exists pm. split; [reflexivity|]. replace (E - 1074) with fe by (unfold E; lia).
           split; [exact EBR|]. rewrite EBR. apply valid_53; lia.
    + assert (T : (m'' <? 2 ^ 53) = false) by lia. rewrite T in OV.
      change (2 ^ 52) with (Zpos 4503599627370496) in EBR.
      destruct (overflow_threshold * scale * G <=? A * 2 ^ E); cbn [negb] in OV.
      * rewrite EBR. assert (T2 : Zle_bool (fe + 1) (1024 - 53) = false) by (change (1024 - 53) with 971; exact OV). rewrite T2. reflexivity.
      * assert (T2 : Zle_bool (fe + 1) (1024 - 53) = true) by (change (1024 - 53) with 971; exact OV). rewrite T2 in EBR.
        exists (Zpos 4503599627370496), (E + 1). split.
        -- apply (nearest_ratio_from_round _ G m E (rem * 2 ^ E) m''); try assumption; try lia.
           ++ rewrite Eq, Z.pow_add_r by lia. change (2 ^ 1) with 2. change (2 ^ 53) with 9007199254740992. lia.
           ++ intros _. reflexivity.
        -- right. exists 4503599627370496%positive. split; [reflexivity|].
           replace (E + 1 - 1074) with (fe + 1) by (unfold E; lia).
           split; [exact EBR|]. rewrite EBR.
           apply valid_53; [change (2 ^ 52) with 4503599627370496; change (2 ^ 53) with 9007199254740992; lia|lia].
Qed.

(* ---------- 6. the remainder location computed by the division *)
Lemma new_location_ok q B r : 0 < B -> 0 <= r < B ->
  loc_okG r B (shr_r (shr_record_of_loc q (new_location B r))) (shr_s (shr_record_of_loc q (new_location B r))).
Proof.
  intros HB Hr. unfold new_location.
  destruct (Z.even B) eqn:Ev; [unfold new_location_even|unfold new_location_odd];
    destruct (Zeq_bool r 0) eqn:Z0; try (apply Zeq_bool_eq in Z0; subst r; cbn; reflexivity);
    apply Zeq_bool_neq in Z0.
  - destruct (Z.compare_spec (2 * r) B); cbn [shr_record_of_loc shr_r shr_s loc_okG]; lia.
  - assert (Od : Z.odd B = true) by (rewrite <- Z.negb_even, Ev; reflexivity).
    apply Z.odd_spec in Od. destruct Od as [h Eh].
    destruct (Z.compare_spec (2 * r + 1) B); cbn [shr_record_of_loc shr_r shr_s loc_okG]; lia.
Qed.

(* the same ratio written with another denominator *)
Lemma mag_result_transfer sx N1 D1 N D f : 0 < D1 -> 0 < D -> N1 * D = N * D1 ->
  mag_result sx N1 D1 f -> mag_result sx N D f.
Proof.
  intros H1 H2 Cross. unfold mag_result. pose proof threshold_grid_pos as TP. set (TS := overflow_threshold * scale) in *.
  assert (EO : (TS * D1 <=? N1) = (TS * D <=? N)).
  { destruct (TS * D <=? N) eqn:O.
    - apply Z.leb_le in O. apply Z.leb_le. nia.
    - apply Z.leb_gt in O. apply Z.leb_gt. nia. }
  rewrite EO. destruct (TS * D <=? N); [trivial|].
  assert (Ab : forall v, Z.abs (N1 - v * D1) * D = Z.abs (N - v * D) * D1).
  { intros v. rewrite <- (Z.abs_eq D) at 1 by lia. rewrite <- (Z.abs_eq D1) at 2 by lia. rewrite <- !Z.abs_mul. f_equal.
    rewrite !Z.mul_sub_distr_r, Cross. ring. }
  intros (mf & Ef & (Na & Nb) & R). exists mf, Ef. split; [|exact R]. unfold nearest_ratio in *. split.
  - intros w Hw. pose proof (Na w Hw) as I. pose proof (Ab w). pose proof (Ab (mf * 2 ^ Ef)). nia.
  - intros w Hw Hne Heq. apply (Nb w Hw Hne). pose proof (Ab w). pose proof (Ab (mf * 2 ^ Ef)). nia.
Qed.

(* ---------- 7. SFdiv on finite operands *)
Lemma SFdiv_finite_mag sx mx ex sy my ey :
  valid_float (S754_finite sx mx ex) = true -> valid_float (S754_finite sy my ey) = true ->
  mag_result (xorb sx sy) (Zpos mx * 2 ^ (ex + 1074) * scale) (Zpos my * 2 ^ (ey + 1074))
             (SFdiv 53 1024 (S754_finite sx mx ex) (S754_finite sy my ey)).
Proof.
  intros Vx Vy. destruct (valid_mantissa _ _ _ Vx) as [Bx Hex]. destruct (valid_mantissa _ _ _ Vy) as [By Hey].
  cbn [SFdiv]. unfold SFdiv_core_binary. cbn [Zdigits2].
  pose proof (digits2_pos_lower mx) as Lx. pose proof (digits2_pos_bound my) as Uy.
  pose proof (digits2_le_53 mx Bx) as D1. 
  set (d1 := Zpos (digits2_pos mx)) in *. set (d2 := Zpos (digits2_pos my)) in *.
  assert (D2 : 1 <= d2) by (unfold d2; lia).
  set (t := d1 + ex - (d2 + ey)). set (e' := Z.min (fexp 53 1024 t) (ex - ey)).
  set (s := ex - ey - e'). assert (Hs : 0 <= s) by (unfold s, e'; lia).
  set (m' := match s with Z0 => Zpos mx | Zpos _ => Z.shiftl (Zpos mx) s | Zneg _ => 0 end).
  assert (Em' : m' = Zpos mx * 2 ^ s).
  { unfold m'. destruct s as [|ps|ps] eqn:Es.
    - cbn. lia.
    - apply Z.shiftl_mul_pow2. lia.
    - lia. }
  assert (Ps : 0 < 2 ^ s) by (apply Z.pow_pos_nonneg; lia).
  pose proof (Z_div_mod m' (Zpos my) ltac:(lia)) as DM.
  destruct (Z.div_eucl m' (Zpos my)) as [q r]. destruct DM as [DM Hr].
  assert (Hq : 0 <= q) by nia.
  assert (Hn : e' <= fexp 53 1024 (Zdigits2 q + e')).
  { destruct (Z_le_gt_dec e' (-1074)); [unfold fexp, emin; lia|].
    assert (e' <= t - 53) by (unfold e', fexp, emin in *; lia).
    assert (Q52 : 2 ^ 52 <= q).
    { assert (2 ^ (52 + d2) <= 2 ^ (d1 - 1 + s)) by (apply Z.pow_le_mono_r; unfold s, t in *; lia).
      rewrite !Z.pow_add_r in H0 by lia. set (P1 := 2 ^ (d1 - 1)) in *. set (P2 := 2 ^ d2) in *. set (P := 2 ^ s) in *.
      change (2 ^ 52) with 4503599627370496 in *. nia. }
    pose proof (Zdigits2_bounds q ltac:(lia)) as [_ Uq].
    assert (52 < Zdigits2 q).
    { destruct (Z_lt_le_dec 52 (Zdigits2 q)); [assumption|exfalso].
      destruct (Z_lt_le_dec (Zdigits2 q) 0). { rewrite Z.pow_neg_r in Uq by lia. lia. }
      assert (2 ^ Zdigits2 q <= 2 ^ 52) by (apply Z.pow_le_mono_r; lia). lia. }
    unfold fexp, emin. lia. }
  pose proof (binary_round_aux_ratio (xorb sx sy) q e' (new_location (Zpos my) r) m' (Zpos my) r
                Hq ltac:(lia) ltac:(lia) Hr (new_location_ok q (Zpos my) r ltac:(lia) Hr) Hn) as MR.
  cbv zeta in MR. set (fe := fexp 53 1024 (Zdigits2 q + e')) in *.
  assert (Hfe : -1074 <= fe) by (unfold fe, fexp, emin; lia).
  eapply mag_result_transfer; [| |  |exact MR].
  - apply Z.mul_pos_pos; [lia|apply Z.pow_pos_nonneg; lia].
  - apply Z.mul_pos_pos; [lia|apply Z.pow_pos_nonneg; lia].
  - rewrite Em'. unfold scale.
    transitivity (Zpos mx * Zpos my * (2 ^ s * 2 ^ (fe + 1074) * 2 ^ (ey + 1074))); [ring|].
    transitivity (Zpos mx * Zpos my * (2 ^ (ex + 1074) * 2 ^ 1074 * 2 ^ (fe - e'))); [|ring].
    f_equal. rewrite <- !Z.pow_add_r by lia. f_equal. unfold s. lia.
Qed.

(* ---------- 8. from magnitudes to signed values *)
Lemma mag_to_ratio s N' D f : 0 < D -> 0 < N' -> mag_result s N' D f ->
  rounds_ratio_to_nearest_even (if s then - N' else N') D f.
Proof.
  intros HD HN. unfold mag_result, rounds_ratio_to_nearest_even.
  assert (EA : Z.abs (if s then - N' else N') = N') by (destruct s; lia). rewrite EA.
  assert (ES : ((if s then - N' else N') <? 0) = s) by (destruct s; lia). rewrite ES.
  destruct (overflow_threshold * scale * D <=? N'); [trivial|].
  intros (mf & Ef & (Na & Nb) & R).
  assert (Sym : forall w, Z.abs ((if s then - N' else N') - (if s then - w else w) * D) = Z.abs (N' - w * D)) by (intros; destruct s; lia).
  assert (Opp : forall w, b64_scaled w -> b64_scaled (if s then - w else w)) by (intros; destruct s; [apply b64_scaled_opp|]; assumption).
  assert (Inv : forall w, w = (if s then - (if s then - w else w) else (if s then - w else w))) by (intros; destruct s; lia).
  destruct R as [[-> ->]|(pm & -> & -> & V)].
  - split; [reflexivity|]. exists 0. split; [reflexivity|]. cbn [Z.mul] in *. split; [|reflexivity].
    intros w Hw. rewrite (Inv w), Sym. pose proof (Na _ (Opp w Hw)). pose proof (Sym 0). destruct s; cbn [Z.opp Z.mul] in *; lia.
  - split; [exact V|]. cbn [scaled_val mantissa_even]. replace (Ef - 1074 + 1074) with Ef by lia.
    exists ((if s then Zneg pm else Zpos pm) * 2 ^ Ef). split; [reflexivity|].
    assert (EV : (if s then Zneg pm else Zpos pm) * 2 ^ Ef = if s then - (Zpos pm * 2 ^ Ef) else Zpos pm * 2 ^ Ef).
    { destruct s; [rewrite <- Pos2Z.opp_pos; ring|reflexivity]. }
    rewrite EV, Sym. split.
    + intros w Hw. rewrite (Inv w), Sym. apply Na, Opp, Hw.
    + intros w Hw Hne Heq. rewrite (Inv w), Sym in Heq. apply (Nb _ (Opp w Hw)); [|exact Heq].
      intros Q. apply Hne. rewrite (Inv w), Q. reflexivity.
Qed.

(* ---------- 9. x / y and x // y on floats *)
Lemma SFdiv_lemma x y X Y :
  valid_float x = true -> valid_float y = true ->
  scaled_val x = Some X -> scaled_val y = Some Y -> Y <> 0 ->
  rounds_ratio_to_nearest_even (quotient_num X Y) (quotient_den Y) (SFdiv 53 1024 x y).
Proof.
  intros Vx Vy Sx Sy NY. unfold quotient_num, quotient_den.
  destruct y as [sy|sy| |sy my ey]; cbn [scaled_val] in Sy; try discriminate; [injection Sy as <-; contradiction NY; reflexivity|].
  injection Sy as Sy. fold (sv sy my ey) in Sy. destruct (valid_mantissa _ _ _ Vy) as [_ Hey].
  assert (Py : 0 < Zpos my * 2 ^ (ey + 1074)) by (apply Z.mul_pos_pos; [lia|apply Z.pow_pos_nonneg; lia]).
  assert (EY : Y = if sy then - (Zpos my * 2 ^ (ey + 1074)) else Zpos my * 2 ^ (ey + 1074)).
  { rewrite <- Sy. unfold sv. destruct sy; [rewrite <- Pos2Z.opp_pos; ring|reflexivity]. }
  assert (AY : Z.abs Y = Zpos my * 2 ^ (ey + 1074)) by (rewrite EY; destruct sy; lia).
  assert (SY : Z.sgn Y = if sy then -1 else 1) by (rewrite EY; destruct sy; lia).
  rewrite AY, SY.
  destruct x as [sx|sx| |sx mx ex]; cbn [scaled_val] in Sx; try discriminate.
  - injection Sx as <-. cbn [SFdiv]. replace (0 * scale * (if sy then -1 else 1)) with 0 by ring.
    unfold rounds_ratio_to_nearest_even. pose proof threshold_grid_pos.
    assert (O : (overflow_threshold * scale * (Zpos my * 2 ^ (ey + 1074)) <=? Z.abs 0) = false) by (cbn [Z.abs]; nia).
    rewrite O. split; [reflexivity|]. exists 0. split; [reflexivity|]. split; [intros; lia|reflexivity].
  - injection Sx as Sx. fold (sv sx mx ex) in Sx. destruct (valid_mantissa _ _ _ Vx) as [_ Hex].
    assert (Px : 0 < Zpos mx * 2 ^ (ex + 1074)) by (apply Z.mul_pos_pos; [lia|apply Z.pow_pos_nonneg; lia]).
    assert (S0 : 0 < scale) by (apply Z.pow_pos_nonneg; lia).
    assert (EX : X = if sx then - (Zpos mx * 2 ^ (ex + 1074)) else Zpos mx * 2 ^ (ex + 1074)).
    { rewrite <- Sx. unfold sv. destruct sx; [rewrite <- Pos2Z.opp_pos; ring|reflexivity]. }
    pose proof (SFdiv_finite_mag sx mx ex sy my ey Vx Vy) as MR.
    apply mag_to_ratio in MR; [|lia|nia].
    replace (X * scale * (if sy then -1 else 1))
      with (if xorb sx sy then - (Zpos mx * 2 ^ (ex + 1074) * scale) else Zpos mx * 2 ^ (ex + 1074) * scale)
      by (rewrite EX; destruct sx, sy; cbn [xorb]; ring).
    exact MR.
Qed.

Lemma float_floordiv_lemma x y X Y :
  valid_float x = true -> valid_float y = true ->
  scaled_val x = Some X -> scaled_val y = Some Y -> Y <> 0 ->
  let q := SFdiv 53 1024 x y in
  Binary_ff_floordiv x y = Ok (Float_floor q) /\
  rounds_ratio_to_nearest_even (quotient_num X Y) (quotient_den Y) q /\
  (forall Q, scaled_val q = Some Q ->
     valid_float (Float_floor q) = true /\ scaled_val (Float_floor q) = Some (spec_grid_floor Q)) /\
  (forall s, q = S754_infinity s -> Float_floor q = S754_infinity s).
Proof.
  intros Vx Vy Sx Sy NY q.
  pose proof (SFdiv_lemma x y X Y Vx Vy Sx Sy NY) as R. fold q in R.
  split.
  - unfold Binary_ff_floordiv. destruct y as [sy|sy| |sy my ey]; cbn [scaled_val] in Sy; try discriminate; [injection Sy as <-; contradiction NY; reflexivity|].
    reflexivity.
  - split; [exact R|]. split.
    + intros Q SQ. unfold Float_floor. apply math_Floor_exact; [|exact SQ].
      unfold rounds_ratio_to_nearest_even in R.
      destruct (overflow_threshold * scale * quotient_den Y <=? Z.abs (quotient_num X Y)).
      * rewrite R in SQ. discriminate.
      * destruct R as [V _]. exact V.
    + intros s ->. reflexivity.
Qed.

(* ---------- 10. the int/float mixes of eval.go reduce to the float/float case
   through Int.finiteFloat (error exactly from the overflow threshold on) *)
Lemma mixed_floordiv_mod_lemma I : impl_ok I -> forall (i : T I) (f : float), canonical I i = true ->
  let ovf := overflow_threshold <=? Z.abs (value I i) in
  Binary_if_floordiv I i f = (if ovf then Err else Binary_ff_floordiv (Int_Float I i) f) /\
  Binary_if_mod I i f = (if ovf then Err else Binary_ff_mod (Int_Float I i) f) /\
  Binary_fi_floordiv I f i = (if ovf then Err else Binary_ff_floordiv f (Int_Float I i)) /\
  Binary_fi_mod I f i = (if value I i =? 0 then Err else if ovf then Err else Ok (Float_Mod f (Int_Float I i))).
Proof.
  intros OK i f Hi ovf. destruct (Int_Float_nearest_even I i Hi) as [_ FF].
  destruct (to_machine_lemma I OK i Hi) as (_ & _ & Sg).
  unfold Binary_if_floordiv, Binary_if_mod, Binary_fi_floordiv, Binary_fi_mod. rewrite FF, Sg. fold ovf.
  assert (SZ : (sign_of (value I i) =? 0) = (value I i =? 0)) by (unfold sign_of; destruct (value I i <? 0) eqn:?; destruct (value I i =? 0) eqn:?; lia).
  rewrite SZ. destruct ovf; repeat split; reflexivity.
Qed.

(* ---------- the statement of Properties.float_floor_div_mod *)
Lemma float_floor_div_mod_lemma :
  (forall x y X Y, valid_float x = true -> valid_float y = true ->
     scaled_val x = Some X -> scaled_val y = Some Y -> Y <> 0 ->
     Binary_ff_mod x y = Ok (Float_Mod x y) /\
     rounds_grid_to_nearest_even (spec_grid_mod X Y) (Float_Mod x y) /\
     (negb (Bool.eqb (X <? 0) (Y <? 0)) && negb (Z.rem X Y =? 0) = false ->
        scaled_val (Float_Mod x y) = Some (spec_grid_mod X Y)) /\
     (exists v, valid_float (Float_Mod x y) = true /\ scaled_val (Float_Mod x y) = Some v /\
                (0 < Y -> 0 <= v <= Y) /\ (Y < 0 -> Y <= v <= 0))) /\
  (forall x y X Y, valid_float x = true -> valid_float y = true ->
     scaled_val x = Some X -> scaled_val y = Some Y -> Y <> 0 ->
     let q := SFdiv 53 1024 x y in
     Binary_ff_floordiv x y = Ok (Float_floor q) /\
     rounds_ratio_to_nearest_even (quotient_num X Y) (quotient_den Y) q /\
     (forall Q, scaled_val q = Some Q ->
        valid_float (Float_floor q) = true /\ scaled_val (Float_floor q) = Some (spec_grid_floor Q)) /\
     (forall s, q = S754_infinity s -> Float_floor q = S754_infinity s)) /\
  (forall x y, float_is_zero y = true -> Binary_ff_mod x y = Err /\ Binary_ff_floordiv x y = Err) /\
  (forall I, impl_ok I -> forall (i : T I) (f : float), canonical I i = true ->
     let ovf := overflow_threshold <=? Z.abs (value I i) in
     Binary_if_floordiv I i f = (if ovf then Err else Binary_ff_floordiv (Int_Float I i) f) /\
     Binary_if_mod I i f = (if ovf then Err else Binary_ff_mod (Int_Float I i) f) /\
     Binary_fi_floordiv I f i = (if ovf then Err else Binary_ff_floordiv f (Int_Float I i)) /\
     Binary_fi_mod I f i = (if value I i =? 0 then Err else if ovf then Err else Ok (Float_Mod f (Int_Float I i)))).
Proof.
  split; [|split; [exact float_floordiv_lemma|split; [|exact mixed_floordiv_mod_lemma]]].
  - intros x y X Y Vx Vy Sx Sy NY. split; [|exact (Float_Mod_lemma x y X Y Vx Vy Sx Sy NY)].
    unfold Binary_ff_mod. destruct y as [sy|sy| |sy my ey]; cbn [scaled_val] in Sy; try discriminate; [injection Sy as <-; contradiction NY; reflexivity|].
    reflexivity.
  - intros x y Zy. unfold Binary_ff_mod, Binary_ff_floordiv. rewrite Zy. split; reflexivity.
Qed.
