(* C13 -- format % args: the model of interpolate (Interp.v) computes what the
   declarative specification (InterpSpec.v) defines, for every template and
   every right operand; the fuel suffices and nothing panics. *)
From Coq Require Import ZArith NArith List Bool Lia ZifyBool ZifyNat ZifyN.
From SV Require Import Common.GoInt C13.Base C13.FormatBase C13.Format C13.FormatSpec
     C13.Interp C13.InterpSpec C13.ProofsFormat C13.ProofsFormat2.
Import ListNotations.
Open Scope Z_scope.

(* the operand as the specification sees it *)
Definition operand_spec {V : Type} (x : operand V) : soperand V :=
  match x with
  | OTuple l => STuple l
  | OMapping v e => SMapping v e
  | OSingle v => SSingle v
  end.

(* ---------------------------------------------------------- the parser *)
Definition no_lit_head (segs : list iseg) : Prop :=
  match segs with ILit _ :: _ => False | _ => True end.

Lemma ikey_no_lit_head s : forall acc, no_lit_head (ikey s acc).
Proof.
  induction s as [|c r IH]; intro acc; cbn [ikey]; [exact I|].
  destruct (N.eqb c ch_rparen); [destruct r; exact I|apply IH].
Qed.

Lemma iparse_pct_no_lit_head r : no_lit_head (iparse (ch_pct :: r)).
Proof.
  cbn [iparse]. rewrite N.eqb_refl. destruct r as [|d r']; [exact I|].
  destruct (N.eqb d ch_pct); [exact I|].
  destruct (N.eqb d ch_lparen); [apply ikey_no_lit_head|exact I].
Qed.

Definition text_ilits (s : fbytes) : list iseg := match s with [] => [] | _ => [ILit s] end.

Lemma iparse_lit_prefix lit tail :
  ~ In ch_pct lit -> no_lit_head (iparse tail) ->
  iparse (lit ++ tail) = text_ilits lit ++ iparse tail.
Proof.
  intros Hn Ht. induction lit as [|c l IH]; [reflexivity|].
  assert (Hc : c <> ch_pct) by (intro; apply Hn; now left).
  assert (Hl : ~ In ch_pct l) by (intro; apply Hn; now right).
  cbn [app iparse]. destruct (N.eqb_spec c ch_pct); [contradiction|].
  rewrite (IH Hl). destruct l as [|c2 l2].
  - cbn [text_ilits app]. unfold lit_cons. destruct (iparse tail) as [|[t| | |] r]; try reflexivity.
    contradiction.
  - reflexivity.
Qed.

Lemma ikey_collect k : forall acc after,
  ~ In ch_rparen k ->
  ikey (k ++ ch_rparen :: after) acc =
  match after with
  | [] => [IConv (Some (acc ++ k)) None]
  | d :: r' => IConv (Some (acc ++ k)) (Some d) :: iparse r'
  end.
Proof.
  induction k as [|c k IH]; intros acc after Hn.
  - cbn [app ikey]. rewrite N.eqb_refl, app_nil_r. reflexivity.
  - assert (Hc : c <> ch_rparen) by (intro; apply Hn; now left).
    assert (Hk : ~ In ch_rparen k) by (intro; apply Hn; now right).
    cbn [app ikey]. destruct (N.eqb_spec c ch_rparen); [contradiction|].
    rewrite IH by assumption. rewrite <- app_assoc. reflexivity.
Qed.

Lemma ikey_unclosed s : forall acc, ~ In ch_rparen s -> ikey s acc = [IBadKey].
Proof.
  induction s as [|c r IH]; intros acc Hn; [reflexivity|].
  assert (Hc : c <> ch_rparen) by (intro; apply Hn; now left).
  cbn [ikey]. destruct (N.eqb_spec c ch_rparen); [contradiction|].
  apply IH. intro; apply Hn; now right.
Qed.

Lemma sl_from_cons1 c r : sl_from (c :: r) 1 = Some r.
Proof. exact (sl_from_app [c] r). Qed.

Section Loops.
  Variable V : Type.
  Variables str_of repr_of : V -> fbytes.
  Variable conv_text : N -> V -> option fbytes.

  Local Notation ieval := (ieval V str_of repr_of conv_text).

  Lemma iprepend_nil r : iprepend [] r = r.
  Proof. destruct r; reflexivity. Qed.
  Lemma iprepend_app a b r : iprepend (a ++ b) r = iprepend a (iprepend b r).
  Proof. destruct r; cbn [iprepend]; try reflexivity. now rewrite app_assoc. Qed.

  Lemma ieval_text_ilits lit X x used :
    ieval (text_ilits lit ++ X) x used = iprepend lit (ieval X x used).
  Proof. destruct lit; cbn [text_ilits app]; [now rewrite iprepend_nil|reflexivity]. Qed.

  (* ------------------------------------------------ the conversion switch *)
  Lemma convert_arg_render c v :
    convert_arg V str_of repr_of conv_text c v = render V str_of repr_of conv_text c v.
  Proof.
    unfold convert_arg, render, value_letters. cbn [existsb].
    destruct (N.eqb c 115); [reflexivity|].
    destruct (N.eqb c 114); [reflexivity|].
    destruct (N.eqb_spec c 37) as [->|N37]; [reflexivity|].
    destruct (N.eqb c 100); [reflexivity|].
    destruct (N.eqb c 105); [reflexivity|].
    destruct (N.eqb c 111); [reflexivity|].
    destruct (N.eqb c 120); [reflexivity|].
    destruct (N.eqb c 88); [reflexivity|].
    destruct (N.eqb c 101); [reflexivity|].
    destruct (N.eqb c 102); [reflexivity|].
    destruct (N.eqb c 103); [reflexivity|].
    destruct (N.eqb c 69); [reflexivity|].
    destruct (N.eqb c 70); [reflexivity|].
    destruct (N.eqb c 71); [reflexivity|].
    destruct (N.eqb c 99); reflexivity.
  Qed.

  (* --------------------------------------------------- operand selection *)
  Lemma find_key_find (entries : list (fbytes * V)) key :
    find_key V entries key = option_map snd (find (fun kv => bytes_eqb (fst kv) key) entries).
  Proof.
    induction entries as [|[k v] r IH]; cbn [find_key find fst]; [reflexivity|].
    destruct (bytes_eqb k key); [reflexivity|assumption].
  Qed.

  Lemma nargs_positionals (x : operand V) :
    nargs V x = Z.of_nat (length (positionals V (operand_spec x))).
  Proof. destruct x; reflexivity. Qed.

  Lemma select_positional (x : operand V) format used :
    head_is format ch_lparen = Some false ->
    select_operand V x format (Z.of_nat used) =
    match choose V None (operand_spec x) used with
    | inl v => ISel v format
    | inr e => IStop (IErr e)
    end.
  Proof.
    intro Hh. unfold select_operand. rewrite Hh. cbn [choose].
    rewrite nargs_positionals.
    destruct (nth_error (positionals V (operand_spec x)) used) as [v|] eqn:E.
    - assert (used < length (positionals V (operand_spec x)))%nat by (apply nth_error_Some; congruence).
      replace (Z.of_nat used >=? Z.of_nat (length (positionals V (operand_spec x)))) with false by lia.
      destruct x as [l|v0 e|v0]; cbn [operand_spec positionals] in *.
      + replace (Z.of_nat used <? 0) with false by lia. rewrite Nat2Z.id, E. reflexivity.
      + destruct used; [|cbn in H; lia]. cbn in E. now inversion E.
      + destruct used; [|cbn in H; lia]. cbn in E. now inversion E.
    - apply nth_error_None in E.
      replace (Z.of_nat used >=? Z.of_nat (length (positionals V (operand_spec x)))) with true by lia.
      reflexivity.
  Qed.

  Lemma select_keyed (x : operand V) key after index :
    ~ In ch_rparen key ->
    select_operand V x (ch_lparen :: key ++ ch_rparen :: after) index =
    match choose V (Some key) (operand_spec x) 0 with
    | inl v => ISel v after
    | inr e => IStop (IErr e)
    end.
  Proof.
    intro Hn. unfold select_operand.
    change (head_is (ch_lparen :: key ++ ch_rparen :: after) ch_lparen) with (Some true).
    change (sl_from (ch_lparen :: key ++ ch_rparen :: after) 1) with (sl_from ([ch_lparen] ++ (key ++ ch_rparen :: after)) (flen [ch_lparen])).
    rewrite sl_from_app.
    destruct (index_byte_cases (key ++ ch_rparen :: after) ch_rparen) as [[N1 I]|(pre & post & E & N1 & I)].
    - exfalso. apply N1. apply in_or_app. right. now left.
    - destruct (split_unique _ _ _ _ _ E Hn N1) as [<- <-].
      rewrite I. pose proof (flen_nonneg key). replace (flen key <? 0) with false by lia.
      rewrite sl_to_app, sl_from_app1. cbn [choose].
      destruct x as [l|v0 e|v0]; cbn [operand_spec]; try reflexivity.
      rewrite find_key_find.
      destruct (find (fun kv => bytes_eqb (fst kv) key) e) as [[k v]|]; reflexivity.
  Qed.

  Lemma choose_keyed_used (x : soperand V) key used :
    choose V (Some key) x used = choose V (Some key) x 0.
  Proof. reflexivity. Qed.

  Lemma select_unclosed (x : operand V) rest index :
    ~ In ch_rparen rest ->
    select_operand V x (ch_lparen :: rest) index = IStop (IErr IIncompleteKey).
  Proof.
    intro Hn. unfold select_operand.
    change (head_is (ch_lparen :: rest) ch_lparen) with (Some true).
    change (sl_from (ch_lparen :: rest) 1) with (sl_from ([ch_lparen] ++ rest) (flen [ch_lparen])).
    rewrite sl_from_app.
    destruct (index_byte_cases rest ch_rparen) as [[N1 I]|(pre & post & E & N1 & I)].
    - rewrite I. reflexivity.
    - exfalso. apply Hn. rewrite E. apply in_or_app. right. now left.
  Qed.

  Lemma finish_spec (x : operand V) used buf :
    interp_finish V x (Z.of_nat used) buf = iprepend buf (ieval [] (operand_spec x) used).
  Proof.
    unfold interp_finish. cbn [InterpSpec.ieval]. rewrite nargs_positionals.
    replace (Z.of_nat used <? Z.of_nat (length (positionals V (operand_spec x))))
      with (used <? length (positionals V (operand_spec x)))%nat by lia.
    replace (is_mapping V x) with (exempt V (operand_spec x)) by (destruct x; reflexivity).
    destruct ((used <? length (positionals V (operand_spec x)))%nat && negb (exempt V (operand_spec x)));
      cbn [iprepend]; [reflexivity|now rewrite app_nil_r].
  Qed.

  (* -------------------------------------------------------------- the loop *)
  Lemma interp_loop_spec (x : operand V) : forall n format, (length format <= n)%nat ->
    forall fuel used buf, (length format < fuel)%nat ->
      interp_loop V str_of repr_of conv_text fuel x format (Z.of_nat used) buf =
      iprepend buf (ieval (iparse format) (operand_spec x) used).
  Proof.
    induction n as [|n IH]; intros format Hlen fuel used buf Hfuel.
    - destruct format; [|cbn in Hlen; lia]. destruct fuel; [lia|].
      cbn [interp_loop index_byte index_byte_from]. replace (-1 <? 0) with true by lia.
      rewrite app_nil_r. apply finish_spec.
    - destruct fuel as [|fuel']; [lia|]. cbn [interp_loop].
      destruct (index_byte_cases format ch_pct) as [[No I]|(lit & rest & E & No & I)]; rewrite I.
      + replace (-1 <? 0) with true by lia.
        rewrite <- (app_nil_r format) at 2. rewrite iparse_lit_prefix by (assumption || exact Logic.I).
        rewrite ieval_text_ilits, <- iprepend_app. apply finish_spec.
      + pose proof (flen_nonneg lit) as Hp. replace (flen lit <? 0) with false by lia.
        rewrite (rw_sl_to_app E), (rw_sl_from_app1 E).
        assert (Hparse : iparse format = text_ilits lit ++ iparse (ch_pct :: rest)).
        { rewrite E. apply iparse_lit_prefix; [assumption|apply iparse_pct_no_lit_head]. }
        rewrite Hparse, ieval_text_ilits, <- iprepend_app.
        assert (Hlen_rest : (length rest <= n)%nat /\ (length rest < fuel')%nat /\ length format = (length lit + S (length rest))%nat).
        { rewrite E, app_length in Hlen, Hfuel. cbn [length] in *. rewrite E, app_length. cbn [length]. lia. }
        destruct Hlen_rest as (Hlr & Hfr & _).
        destruct rest as [|d rest'].
        * (* the template ends with '%' *)
          cbn [head_is]. rewrite select_positional by reflexivity.
          cbn [iparse]. rewrite N.eqb_refl. cbn [InterpSpec.ieval].
          destruct (choose V None (operand_spec x) used); reflexivity.
        * cbn [head_is]. change (byte_at (d :: rest') 0) with (Some d).
          cbn [iparse]. rewrite N.eqb_refl.
          destruct (N.eqb_spec d ch_pct) as [->|Npct].
          -- (* "%%" *)
             rewrite (sl_from_cons1 ch_pct rest').
             cbn [InterpSpec.ieval]. rewrite <- iprepend_app.
             apply IH; cbn [length] in *; lia.
          -- destruct (N.eqb_spec d ch_lparen) as [->|Nlp].
             ++ (* %(key)c *)
                destruct (index_byte_cases rest' ch_rparen) as [[Nr _]|(key & after & E2 & Nr & _)].
                ** rewrite select_unclosed by assumption. rewrite ikey_unclosed by assumption. reflexivity.
                ** rewrite E2. rewrite select_keyed by assumption. rewrite ikey_collect by assumption.
                   cbn [app].
                   assert (Hla : (length after <= n)%nat /\ (length after < fuel')%nat).
                   { cbn [length] in Hlr, Hfr. rewrite E2, app_length in Hlr, Hfr. cbn [length] in *. lia. }
                   destruct Hla as [Hla Hfa].
                   destruct after as [|c after'].
                   { cbn [InterpSpec.ieval]. rewrite (choose_keyed_used _ key used).
                     destruct (choose V (Some key) (operand_spec x) 0); reflexivity. }
                   cbn [InterpSpec.ieval]. rewrite (choose_keyed_used _ key used).
                   destruct (choose V (Some key) (operand_spec x) 0) as [v|e]; [|reflexivity].
                   change (byte_at (c :: after') 0) with (Some c).
                   cbv beta iota. rewrite convert_arg_render.
                   destruct (render V str_of repr_of conv_text c v) as [t|e]; [|reflexivity].
                   rewrite (sl_from_cons1 c after').
                   replace (Z.of_nat used + 1) with (Z.of_nat (S used)) by lia.
                   rewrite <- iprepend_app. apply IH; cbn [length] in *; lia.
             ++ (* %c, positional *)
                assert (Hh : head_is (d :: rest') ch_lparen = Some false).
                { cbn [head_is]. change (byte_at (d :: rest') 0) with (Some d). cbv beta iota.
                  destruct (N.eqb_spec d ch_lparen); [contradiction|reflexivity]. }
                rewrite (select_positional x (d :: rest') used Hh).
                cbn [InterpSpec.ieval].
                destruct (choose V None (operand_spec x) used) as [v|e]; [|reflexivity].
                change (byte_at (d :: rest') 0) with (Some d). cbv beta iota.
                rewrite convert_arg_render.
                destruct (render V str_of repr_of conv_text d v) as [t|e]; [|reflexivity].
                rewrite (sl_from_cons1 d rest').
                replace (Z.of_nat used + 1) with (Z.of_nat (S used)) by lia.
                rewrite <- iprepend_app. apply IH; cbn [length] in *; lia.
  Qed.
End Loops.

(* ------------------------------------------------------------- theorems *)
Lemma interpolate_correct_lemma :
  forall (V : Type) (str_of repr_of : V -> fbytes) (conv_text : N -> V -> option fbytes)
         (template : fbytes) (x : operand V),
    interpolate V str_of repr_of conv_text template x =
    interpolate_spec V str_of repr_of conv_text template (operand_spec x).
Proof.
  intros. unfold interpolate, interpolate_spec.
  change 0 with (Z.of_nat 0).
  rewrite (interp_loop_spec V str_of repr_of conv_text x (length template) template (le_n _)
                            (S (length template)) 0%nat [] (Nat.lt_succ_diag_r _)).
  apply iprepend_nil.
Qed.

Lemma iprepend_total s r :
  (r <> IPanic /\ r <> IOutOfFuel) -> (iprepend s r <> IPanic /\ iprepend s r <> IOutOfFuel).
Proof. destruct r; cbn; intros [H1 H2]; split; congruence. Qed.

Lemma ieval_total (V : Type) (str_of repr_of : V -> fbytes) conv_text segs x : forall used,
  ieval V str_of repr_of conv_text segs x used <> IPanic /\
  ieval V str_of repr_of conv_text segs x used <> IOutOfFuel.
Proof.
  induction segs as [|s r IH]; intro used; cbn [ieval].
  - destruct ((used <? length (positionals V x))%nat && negb (exempt V x)); split; discriminate.
  - destruct s as [t| |key letter|]; try (split; discriminate).
    + apply iprepend_total, IH.
    + apply iprepend_total, IH.
    + destruct (choose V key x used) as [v|e]; [|split; discriminate].
      destruct letter as [c|]; [|split; discriminate].
      destruct (render V str_of repr_of conv_text c v); [|split; discriminate].
      apply iprepend_total, IH.
Qed.

Lemma interpolate_no_panic_lemma :
  forall (V : Type) (str_of repr_of : V -> fbytes) (conv_text : N -> V -> option fbytes)
         (template : fbytes) (x : operand V),
    interpolate V str_of repr_of conv_text template x <> IPanic /\
    interpolate V str_of repr_of conv_text template x <> IOutOfFuel.
Proof. intros. rewrite interpolate_correct_lemma. apply ieval_total. Qed.
