(* C13 -- executable model of string_format (starlark/library.go), the
   implementation of S.format( *args, **kwargs), over byte lists.

   The model follows the Go text statement by statement: the outer `for`
   that cuts the format string at the next '{' with strings.IndexByte, the
   inner `for` that replaces "}}" in the literal portion, the "{{" test, the
   cut at the next '}', the split of the field at '!' / ':' (IndexByte and
   strings.Cut), the three ways of choosing the argument with the two flags
   `auto` / `manual` and the counter `index`, `decimal` with Go's int (int64)
   arithmetic (saturating at math.MaxInt since commit 5574fcc), the keyword loop, the order of the error returns.

   Every slice expression s[a:b] and index expression s[i] of the Go text is
   bounds-checked here (None -> FPanic): nothing is totalised.  The two loops
   run on explicit fuel (FOutOfFuel); ProofsFormat.v shows that with the fuel
   given by string_format neither FPanic nor FOutOfFuel can occur.

   The argument values are abstract (type V): how a value is written by
   str(x) and repr(x) is property C15's subject, so the two renderings are
   parameters `str_of` and `repr_of`.  No proofs in this file. *)
From Coq Require Import ZArith NArith List Bool.
From SV Require Import Common.GoInt C13.Base C13.FormatBase.
Import ListNotations.
Open Scope Z_scope.

(* ------------------------------------------------ Go's strings / slices *)
Definition flen (s : fbytes) : Z := Z.of_nat (length s).

(* strings.IndexByte(s, c): index of the first c in s, or -1 *)
Fixpoint index_byte_from (s : fbytes) (c : N) (i : Z) : Z :=
  match s with
  | [] => -1
  | d :: t => if N.eqb d c then i else index_byte_from t c (i + 1)
  end.
Definition index_byte (s : fbytes) (c : N) : Z := index_byte_from s c 0.

(* s[:i] and s[i:] -- Go panics unless 0 <= i <= len(s) *)
Definition sl_to (s : fbytes) (i : Z) : option fbytes :=
  if (0 <=? i) && (i <=? flen s) then Some (firstn (Z.to_nat i) s) else None.
Definition sl_from (s : fbytes) (i : Z) : option fbytes :=
  if (0 <=? i) && (i <=? flen s) then Some (skipn (Z.to_nat i) s) else None.
(* s[i] -- Go panics unless 0 <= i < len(s) *)
Definition byte_at (s : fbytes) (i : Z) : option N :=
  if i <? 0 then None else nth_error s (Z.to_nat i).

(* strings.Contains(s, "c") for a one-byte string *)
Definition contains_byte (s : fbytes) (c : N) : bool := 0 <=? index_byte s c.

(* strings.Cut(s, "c"): before, after, found; None = a slice panicked *)
Definition go_cut (s : fbytes) (c : N) : option (fbytes * fbytes * bool) :=
  let i := index_byte s c in
  if 0 <=? i then
    match sl_to s i, sl_from s (i + 1) with
    | Some a, Some b => Some (a, b, true)
    | _, _ => None
    end
  else Some (s, [], false).

(* func decimal(s string) (x int, ok bool): None is (0, false).
     digit := s[i] - '0'            byte arithmetic: wraps modulo 256
     if digit > 9 { return 0, false }
     if x > (math.MaxInt-int(digit))/10 { x = math.MaxInt }   saturate (commit 5574fcc)
     else { x = x*10 + int(digit) }                           int arithmetic *)
Fixpoint decimal_loop (s : fbytes) (x : Z) : option Z :=
  match s with
  | [] => Some x
  | c :: t =>
      let digit := wrapu8 (Z.of_N c - 48) in
      if digit >? 9 then None
      else
        let x' := if x >? Z.quot (max_int64 - digit) 10 then max_int64
                  else wrap64 (x * 10 + digit) in
        decimal_loop t x'
  end.
Definition decimal (s : fbytes) : option Z := decimal_loop s 0.

(* the three variables `auto, manual bool` and `index int` *)
Record fstate := { st_auto : bool; st_manual : bool; st_index : Z }.
Definition fstate0 : fstate := {| st_auto := false; st_manual := false; st_index := 0 |}.

(* Replace "}}" with "}" in non-field portion, rejecting a lone '}':
     for {
       j := strings.IndexByte(literal, '}')
       if j < 0 { buf.WriteString(literal); break }
       if len(literal) == j+1 || literal[j+1] != '}' { return error }
       buf.WriteString(literal[:j+1])
       literal = literal[j+2:]
     }                                                                   *)
Fixpoint literal_loop (fuel : nat) (literal buf : fbytes) : fres :=
  match fuel with
  | O => FOutOfFuel
  | S fuel' =>
      let j := index_byte literal ch_close in
      if j <? 0 then FOk (buf ++ literal)
      else if flen literal =? j + 1 then FErr ESingleClose
      else
        match byte_at literal (j + 1) with
        | None => FPanic
        | Some c =>
            if negb (N.eqb c ch_close) then FErr ESingleClose
            else
              match sl_to literal (j + 1), sl_from literal (j + 2) with
              | Some w, Some rest => literal_loop fuel' rest (buf ++ w)
              | _, _ => FPanic
              end
        end
  end.

(* field -> (name, conv, spec); conv defaults to "s", spec to "":
     if i := strings.IndexByte(field, '!'); i < 0 {
       if i := strings.IndexByte(field, ':'); i < 0 { name = field }
       else { name = field[:i]; spec = field[i+1:] }
     } else {
       name = field[:i]; field = field[i+1:]
       if before, after, ok := strings.Cut(field, ":"); !ok { conv = field }
       else { conv = before; spec = after }
     }                                                                   *)
Definition split_field (field : fbytes) : option (fbytes * fbytes * fbytes) :=
  let i := index_byte field ch_bang in
  if i <? 0 then
    let k := index_byte field ch_colon in
    if k <? 0 then Some (field, [ch_s], [])
    else
      match sl_to field k, sl_from field (k + 1) with
      | Some name, Some spec => Some (name, [ch_s], spec)
      | _, _ => None
      end
  else
    match sl_to field i, sl_from field (i + 1) with
    | Some name, Some field' =>
        match go_cut field' ch_colon with
        | None => None
        | Some (before, after, ok) =>
            if negb ok then Some (name, field', [])
            else Some (name, before, after)
        end
    | _, _ => None
    end.

Section Model.
  Variable V : Type.                        (* Starlark values *)
  Variables str_of repr_of : V -> fbytes.   (* str(x), repr(x): property C15 *)

  (* for _, kv := range kwargs { if string(kv[0].(String)) == name { arg = kv[1]; break } } *)
  Fixpoint find_kwarg (kwargs : list (fbytes * V)) (name : fbytes) : option V :=
    match kwargs with
    | [] => None
    | (k, v) :: r => if bytes_eqb k name then Some v else find_kwarg r name
    end.

  Inductive sel_res :=
  | SelOk (arg : V) (st : fstate)
  | SelErr (e : ferr)
  | SelPanic.

  (* args[i] after the explicit `i >= len(args)` test of the Go text *)
  Definition arg_at (args : list V) (i : Z) (st : fstate) : sel_res :=
    if i >=? Z.of_nat (length args) then SelErr EIndexRange
    else if i <? 0 then SelPanic
    else match nth_error args (Z.to_nat i) with
         | Some v => SelOk v st
         | None => SelPanic
         end.

  (* if name == "" {...} else if num, ok := decimal(name); ok {...} else {...} *)
  Definition select_arg (name : fbytes) (args : list V) (kwargs : list (fbytes * V))
             (st : fstate) : sel_res :=
    match name with
    | [] =>
        (* "{}": automatic indexing *)
        if st_manual st then SelErr EManualToAuto
        else
          (* auto = true; arg = args[index]; index++ *)
          arg_at args (st_index st)
                 {| st_auto := true; st_manual := st_manual st; st_index := st_index st + 1 |}
    | _ :: _ =>
        match decimal name with
        | Some num =>
            (* positional argument *)
            if st_auto st then SelErr EAutoToManual
            else
              (* manual = true; arg = args[num] *)
              arg_at args num {| st_auto := st_auto st; st_manual := true; st_index := st_index st |}
        | None =>
            (* keyword argument *)
            match find_kwarg kwargs name with
            | Some v => SelOk v st
            | None =>
                if contains_byte name ch_dot then SelErr EAttrSyntax
                else if contains_byte name ch_lbrack then SelErr EElemSyntax
                else if contains_byte name ch_open then SelErr ENested
                else SelErr EKeyword
            end
        end
    end.

  (* the outer `for` of string_format; one unit of fuel per iteration *)
  Fixpoint format_loop (fuel : nat) (args : list V) (kwargs : list (fbytes * V))
           (format : fbytes) (st : fstate) (buf : fbytes) : fres :=
    match fuel with
    | O => FOutOfFuel
    | S fuel' =>
        (* literal := format; i := strings.IndexByte(format, '{'); if i >= 0 { literal = format[:i] } *)
        let i := index_byte format ch_open in
        match (if 0 <=? i then sl_to format i else Some format) with
        | None => FPanic
        | Some literal =>
            match literal_loop (S (length literal)) literal buf with
            | FOk buf1 =>
                if i <? 0 then FOk buf1                          (* end of format string *)
                else
                  (* if i+1 < len(format) && format[i+1] == '{' *)
                  let esc :=
                      if i + 1 <? flen format then
                        match byte_at format (i + 1) with
                        | Some c => Some (N.eqb c ch_open)
                        | None => None
                        end
                      else Some false in
                  match esc with
                  | None => FPanic
                  | Some true =>
                      (* "{{" means a literal '{' *)
                      match sl_from format (i + 2) with
                      | Some format' => format_loop fuel' args kwargs format' st (buf1 ++ [ch_open])
                      | None => FPanic
                      end
                  | Some false =>
                      match sl_from format (i + 1) with
                      | None => FPanic
                      | Some format1 =>
                          let i2 := index_byte format1 ch_close in
                          if i2 <? 0 then FErr EUnmatchedOpen
                          else
                            match sl_to format1 i2, sl_from format1 (i2 + 1) with
                            | Some field, Some format2 =>
                                match split_field field with
                                | None => FPanic
                                | Some (name, conv, spec) =>
                                    match select_arg name args kwargs st with
                                    | SelPanic => FPanic
                                    | SelErr e => FErr e
                                    | SelOk arg st' =>
                                        match spec with
                                        | _ :: _ => FErr ESpecUnsupported
                                        | [] =>
                                            if bytes_eqb conv [ch_s]
                                            then format_loop fuel' args kwargs format2 st' (buf1 ++ str_of arg)
                                            else if bytes_eqb conv [ch_r]
                                            then format_loop fuel' args kwargs format2 st' (buf1 ++ repr_of arg)
                                            else FErr EConversion
                                        end
                                    end
                                end
                            | _, _ => FPanic
                            end
                      end
                  end
            | r => r      (* the error return of the inner loop *)
            end
        end
    end.

  (* S.format( *args, **kwargs): every iteration of the outer loop that does
     not return removes at least one byte from `format` *)
  Definition string_format (format : fbytes) (args : list V) (kwargs : list (fbytes * V)) : fres :=
    format_loop (S (length format)) args kwargs format fstate0 [].
End Model.

Arguments SelOk {V} arg st.
Arguments SelErr {V} e.
Arguments SelPanic {V}.
