(* C13 -- sorted / min / max (Seq.v) against Spec.v part 4. *)
From Coq Require Import ZArith NArith List Bool Lia Sorting.Sorted Sorting.Permutation.
From Coq Require Import ZifyBool ZifyNat.
From SV Require Import Common.GoInt C13.Base C13.Seq C13.Spec.
Import ListNotations.
Open Scope Z_scope.

(* the order the output must follow, on (key, position) pairs *)
Definition lt2 (rev : bool) (a b : Z * nat) : Prop :=
  sort_less rev (fst a) (fst b) = true \/ (fst a = fst b /\ (snd a < snd b)%nat).

Lemma lt2_trans rev a b c : lt2 rev a b -> lt2 rev b c -> lt2 rev a c.
Proof. unfold lt2, sort_less. destruct rev; intros [H1|[H1 H1']] [H2|[H2 H2']]; [left|left|left|right|left|left|left|right]; lia. Qed.

Lemma less_total rev x y : sort_less rev y x = false -> sort_less rev x y = true \/ x = y.
Proof. unfold sort_less. destruct rev; lia. Qed.

Lemma sinsert_perm less x s : Permutation (sinsert less x s) (x :: s).
Proof.
  induction s as [|y s IH]; cbn; [reflexivity|].
  destruct (less (fst y) (fst x)); [|reflexivity].
  rewrite IH. apply perm_swap.
Qed.

Lemma sinsert_sorted rev x s :
  StronglySorted (lt2 rev) s -> Forall (fun y => (snd x < snd y)%nat) s ->
  StronglySorted (lt2 rev) (sinsert (sort_less rev) x s).
Proof.
  induction s as [|y s IH]; intros Hs Hx; cbn [sinsert].
  - constructor; constructor.
  - apply StronglySorted_inv in Hs. destruct Hs as [Hs Hy].
    apply Forall_cons_iff in Hx. destruct Hx as [Hxy Hx].
    destruct (sort_less rev (fst y) (fst x)) eqn:E.
    + constructor; [apply IH; assumption|].
      apply (Permutation_Forall (Permutation_sym (sinsert_perm (sort_less rev) x s))).
      constructor; [left; exact E|exact Hy].
    + assert (Hlt : lt2 rev x y).
      { destruct (less_total rev _ _ E) as [H|H]; [left; exact H|right; split; [exact H|exact Hxy]]. }
      constructor; [constructor; assumption|].
      constructor; [exact Hlt|].
      eapply Forall_impl; [|exact Hy]. intros z Hz. eapply lt2_trans; eassumption.
Qed.

Lemma stable_sort_perm less l : Permutation (stable_sort less l) l.
Proof.
  induction l as [|x r IH]; cbn; [reflexivity|].
  rewrite sinsert_perm. constructor. exact IH.
Qed.

(* positions strictly increasing along the input *)
Lemma stable_sort_sorted rev l :
  StronglySorted (fun a b => (snd a < snd b)%nat) l ->
  StronglySorted (lt2 rev) (stable_sort (sort_less rev) l).
Proof.
  induction l as [|x r IH]; intros H; cbn [stable_sort]; [constructor|].
  apply StronglySorted_inv in H. destruct H as [Hr Hx].
  apply sinsert_sorted; [apply IH; exact Hr|].
  apply (Permutation_Forall (Permutation_sym (stable_sort_perm (sort_less rev) r))). exact Hx.
Qed.

Lemma combine_seq_sorted (keys : list Z) : forall k,
  StronglySorted (fun a b : Z * nat => (snd a < snd b)%nat) (combine keys (seq k (length keys))).
Proof.
  induction keys as [|x r IH]; intros k; cbn [length seq combine]; [constructor|].
  constructor; [apply IH|].
  apply Forall_forall. intros [y j] Hin. apply in_combine_r in Hin. apply in_seq in Hin. cbn. lia.
Qed.

Lemma combine_seq_nth (keys : list Z) : forall k p,
  In p (combine keys (seq k (length keys))) ->
  (k <= snd p < k + length keys)%nat /\ nth (snd p - k) keys 0 = fst p.
Proof.
  induction keys as [|x r IH]; intros k p Hin; cbn [length seq combine] in Hin; [contradiction|].
  destruct Hin as [<-|Hin].
  - cbn. rewrite Nat.sub_diag. split; [lia|reflexivity].
  - destruct (IH (S k) p Hin) as [H1 H2]. cbn [length]. split; [lia|].
    replace (snd p - k)%nat with (S (snd p - S k)) by lia. exact H2.
Qed.

Lemma increasing_of_sorted rev keys (l : list (Z * nat)) :
  (forall p, In p l -> key_at keys (snd p) = fst p) ->
  StronglySorted (lt2 rev) l ->
  increasing (before rev keys) (map snd l) = true.
Proof.
  induction l as [|a t IH]; intros Hk Hs; [reflexivity|].
  apply StronglySorted_inv in Hs. destruct Hs as [Hs Ha].
  cbn [map increasing]. destruct t as [|b t']; [reflexivity|].
  cbn [map]. apply andb_true_iff. split.
  - apply Forall_inv in Ha. unfold before.
    rewrite (Hk a (or_introl eq_refl)), (Hk b (or_intror (or_introl eq_refl))).
    unfold lt2, sort_less in Ha. destruct rev; lia.
  - apply IH; [|exact Hs]. intros p Hp. apply Hk. right. exact Hp.
Qed.

Lemma sorted_sound_lemma : forall reverse keys,
  sorted_ok reverse keys (sorted_impl reverse keys) = true.
Proof.
  intros rev keys. unfold sorted_ok, sorted_impl.
  set (P := combine keys (seq 0 (length keys))).
  pose proof (stable_sort_perm (sort_less rev) P) as Hperm.
  assert (HP : forall p, In p P -> (snd p < length keys)%nat /\ key_at keys (snd p) = fst p).
  { intros p Hp. destruct (combine_seq_nth keys 0 p Hp) as [H1 H2].
    rewrite Nat.sub_0_r in H2. split; [lia|exact H2]. }
  apply andb_true_iff. split; [apply andb_true_iff; split|].
  - apply Nat.eqb_eq. rewrite map_length, (Permutation_length Hperm).
    unfold P. rewrite combine_length, seq_length. lia.
  - apply forallb_forall. intros i Hi. apply in_map_iff in Hi. destruct Hi as [p [<- Hp]].
    apply Nat.ltb_lt. apply HP. eapply Permutation_in; [exact Hperm|exact Hp].
  - apply increasing_of_sorted.
    + intros p Hp. apply HP. eapply Permutation_in; [exact Hperm|exact Hp].
    + apply stable_sort_sorted. apply combine_seq_sorted.
Qed.

(* ---- uniqueness: the relation sorted_ok determines the output *)
Definition bef (rev : bool) (keys : list Z) (a b : nat) : Prop := before rev keys a b = true.

Lemma bef_trans rev keys a b c : bef rev keys a b -> bef rev keys b c -> bef rev keys a c.
Proof. unfold bef, before. destruct rev; lia. Qed.
Lemma bef_asym rev keys a b : bef rev keys a b -> bef rev keys b a -> False.
Proof. unfold bef, before. destruct rev; lia. Qed.

Lemma increasing_sorted rev keys l :
  increasing (before rev keys) l = true -> StronglySorted (bef rev keys) l.
Proof.
  induction l as [|a t IH]; intros H; [constructor|].
  cbn [increasing] in H. destruct t as [|b t'].
  - constructor; constructor.
  - apply andb_true_iff in H. destruct H as [Hab Ht].
    specialize (IH Ht). constructor; [exact IH|].
    apply StronglySorted_inv in IH. destruct IH as [_ Hb].
    constructor; [exact Hab|].
    eapply Forall_impl; [|exact Hb]. intros c Hc. eapply bef_trans; eassumption.
Qed.

Lemma sorted_NoDup rev keys l : StronglySorted (bef rev keys) l -> NoDup l.
Proof.
  induction l as [|a t IH]; intros H; [constructor|].
  apply StronglySorted_inv in H. destruct H as [Ht Ha].
  constructor; [|apply IH; exact Ht].
  intros Hin. rewrite Forall_forall in Ha. specialize (Ha a Hin). eapply bef_asym; eassumption.
Qed.

Lemma sorted_perm_eq rev keys : forall l1 l2,
  StronglySorted (bef rev keys) l1 -> StronglySorted (bef rev keys) l2 ->
  Permutation l1 l2 -> l1 = l2.
Proof.
  induction l1 as [|a t1 IH]; intros l2 H1 H2 Hp.
  - apply Permutation_nil in Hp. subst. reflexivity.
  - destruct l2 as [|b t2]; [apply Permutation_sym, Permutation_nil in Hp; discriminate|].
    apply StronglySorted_inv in H1. destruct H1 as [Ht1 Ha].
    apply StronglySorted_inv in H2. destruct H2 as [Ht2 Hb].
    rewrite Forall_forall in Ha, Hb.
    assert (Hab : a = b).
    { destruct (Nat.eq_dec a b) as [E|E]; [exact E|exfalso].
      assert (Hin1 : In a (b :: t2)) by (eapply Permutation_in; [exact Hp|left; reflexivity]).
      assert (Hin2 : In b (a :: t1)) by (eapply Permutation_in; [apply Permutation_sym; exact Hp|left; reflexivity]).
      destruct Hin1 as [E1|Hin1]; [congruence|]. destruct Hin2 as [E2|Hin2]; [congruence|].
      eapply bef_asym; [apply Ha; exact Hin2|apply Hb; exact Hin1]. }
    subst b. f_equal. apply IH; try assumption.
    eapply Permutation_cons_inv. exact Hp.
Qed.

Lemma sorted_ok_perm rev keys out :
  sorted_ok rev keys out = true ->
  StronglySorted (bef rev keys) out /\ Permutation out (seq 0 (length keys)).
Proof.
  unfold sorted_ok. intros H. apply andb_true_iff in H. destruct H as [H Hinc].
  apply andb_true_iff in H. destruct H as [Hlen Hall]. apply Nat.eqb_eq in Hlen.
  pose proof (increasing_sorted rev keys out Hinc) as Hs. split; [exact Hs|].
  apply NoDup_Permutation_bis.
  - eapply sorted_NoDup. exact Hs.
  - rewrite seq_length. lia.
  - intros i Hi. rewrite forallb_forall in Hall. specialize (Hall i Hi). apply Nat.ltb_lt in Hall.
    apply in_seq. lia.
Qed.

Lemma sorted_unique_lemma : forall reverse keys out,
  sorted_ok reverse keys out = true -> out = sorted_impl reverse keys.
Proof.
  intros rev keys out H.
  destruct (sorted_ok_perm rev keys out H) as [Hs Hp].
  destruct (sorted_ok_perm rev keys _ (sorted_sound_lemma rev keys)) as [Hs' Hp'].
  apply (sorted_perm_eq rev keys); try assumption.
  rewrite Hp, Hp'. reflexivity.
Qed.

(* ---- min / max *)
Definition mm_inv (is_max : bool) (keys : list Z) (ext : Z * nat) (d : nat) : Prop :=
  (snd ext < d)%nat /\ key_at keys (snd ext) = fst ext /\
  forall j, (j < d)%nat ->
    if Nat.ltb j (snd ext)
    then (if is_max then key_at keys j <? fst ext else fst ext <? key_at keys j) = true
    else (if is_max then key_at keys j <=? fst ext else fst ext <=? key_at keys j) = true.

Lemma minmax_loop_spec is_max : forall ks pre ext,
  mm_inv is_max (pre ++ ks) ext (length pre) ->
  minmax_ok is_max (pre ++ ks)
            (minmax_loop is_max (combine ks (seq (length pre) (length ks))) ext) = true.
Proof.
  induction ks as [|k ks IH]; intros pre ext (He & Hk & Hinv).
  - cbn [length seq combine minmax_loop]. rewrite app_nil_r in *.
    unfold minmax_ok. apply andb_true_iff. split; [apply Nat.ltb_lt; exact He|].
    apply forallb_forall. intros j Hj. apply in_seq in Hj. rewrite Hk.
    specialize (Hinv j ltac:(lia)). destruct (Nat.ltb j (snd ext)); exact Hinv.
  - cbn [length seq combine minmax_loop fst snd].
    assert (Hkeys : pre ++ k :: ks = (pre ++ [k]) ++ ks) by (rewrite <- app_assoc; reflexivity).
    assert (Hkd : key_at (pre ++ k :: ks) (length pre) = k).
    { unfold key_at. rewrite app_nth2, Nat.sub_diag by lia. reflexivity. }
    assert (Hlen : S (length pre) = length (pre ++ [k])) by (rewrite app_length; cbn; lia).
    rewrite Hlen, Hkeys.
    destruct (if is_max then fst ext <? k else k <? fst ext) eqn:E.
    + apply IH. rewrite <- Hkeys, <- Hlen. unfold mm_inv. cbn [fst snd]. split; [lia|split; [exact Hkd|]].
      intros j Hj. destruct (Nat.ltb j (length pre)) eqn:Ejd.
      * specialize (Hinv j ltac:(lia)). destruct (Nat.ltb j (snd ext)); destruct is_max; lia.
      * assert (j = length pre) by lia. subst j. rewrite Hkd. destruct is_max; lia.
    + apply IH. rewrite <- Hkeys, <- Hlen. unfold mm_inv. split; [lia|split; [exact Hk|]].
      intros j Hj. destruct (Nat.eq_dec j (length pre)) as [->|Hne].
      * replace (Nat.ltb (length pre) (snd ext)) with false by lia. rewrite Hkd. destruct is_max; lia.
      * apply Hinv. lia.
Qed.

Lemma minmax_correct_lemma : forall is_max keys,
  match minmax_impl is_max keys with
  | Ok r => minmax_spec_ok is_max keys (Some r) = true
  | Err => minmax_spec_ok is_max keys None = true
  | _ => False
  end.
Proof.
  intros is_max keys. unfold minmax_impl. destruct keys as [|k ks]; [reflexivity|].
  cbn [length seq combine minmax_spec_ok].
  apply (minmax_loop_spec is_max ks [k] (k, 0%nat)).
  unfold mm_inv. cbn [length app fst snd]. split; [lia|split; [reflexivity|]].
  intros j Hj. assert (j = 0%nat) by lia. subst j. cbn. destruct is_max; lia.
Qed.

(* the position is determined by minmax_ok *)
Lemma minmax_unique_lemma : forall is_max keys r r',
  minmax_ok is_max keys r = true -> minmax_ok is_max keys r' = true -> r = r'.
Proof.
  intros is_max keys r r' H H'. unfold minmax_ok in *.
  apply andb_true_iff in H, H'. destruct H as [Hr H], H' as [Hr' H'].
  apply Nat.ltb_lt in Hr, Hr'. rewrite forallb_forall in H, H'.
  specialize (H r' ltac:(apply in_seq; lia)). specialize (H' r ltac:(apply in_seq; lia)).
  cbv zeta in H, H'.
  destruct (Nat.ltb r' r) eqn:E1; destruct (Nat.ltb r r') eqn:E2; destruct is_max; lia.
Qed.
