(* C13 -- declarative specification of  format % args  for a string format,
   written from doc/spec.md (string interpolation) and independent of
   Interp.v (it imports only the shared result type).  Two phases:

   PARSE.   The template is a sequence of
              literal text                      (maximal runs without '%'),
              "%%"                              a literal per-cent sign,
              '%' [ '(' key ')' ] letter        a conversion,
            where the key runs to the next ')'.  A template that ends inside a
            conversion yields a conversion without letter; "%(" without ")"
            yields BadKey.
   EVALUATE. Left to right with a count of the conversions performed so far.
            A keyed conversion needs a mapping operand that has the key; an
            unkeyed one takes the next positional operand (the elements of a
            tuple; any other operand counts as one).  Then the letter must be
            there, be a known conversion, and accept the value.  At the end
            no positional operand may be left over (a mapping is exempt).
            The first offending item determines the failure.

   Nothing here uses integer offsets, slicing or fuel. *)
From Coq Require Import ZArith NArith List Bool.
From SV Require Import C13.Base C13.FormatBase.
Import ListNotations.

Inductive iseg :=
| ILit (s : fbytes)
| IPercent                                    (* %% *)
| IConv (key : option fbytes) (letter : option N)
| IBadKey.                                    (* "%(" with no ")" *)

(* literal text is kept in maximal runs *)
Definition lit_cons (c : N) (segs : list iseg) : list iseg :=
  match segs with
  | ILit t :: r => ILit (c :: t) :: r
  | _ => ILit [c] :: segs
  end.

Fixpoint iparse (s : fbytes) : list iseg :=
  match s with
  | [] => []
  | c :: r =>
      if N.eqb c ch_pct then
        match r with
        | [] => [IConv None None]
        | d :: r' =>
            if N.eqb d ch_pct then IPercent :: iparse r'
            else if N.eqb d ch_lparen then ikey r' []
            else IConv None (Some d) :: iparse r'
        end
      else lit_cons c (iparse r)
  end
with ikey (s : fbytes) (acc : fbytes) : list iseg :=
  match s with
  | [] => [IBadKey]
  | c :: r =>
      if N.eqb c ch_rparen then
        match r with
        | [] => [IConv (Some acc) None]
        | d :: r' => IConv (Some acc) (Some d) :: iparse r'
        end
      else ikey r (acc ++ [c])
  end.

(* the right operand *)
Inductive soperand (V : Type) :=
| STuple (elems : list V)
| SMapping (self : V) (entries : list (fbytes * V))
| SSingle (self : V).
Arguments STuple {V} elems.
Arguments SMapping {V} self entries.
Arguments SSingle {V} self.

(* the conversion letters whose output depends on number / character formatting *)
Definition value_letters : list N := [100; 105; 111; 120; 88; 101; 102; 103; 69; 70; 71; 99]%N.

Section Spec.
  Variable V : Type.
  Variables str_of repr_of : V -> fbytes.
  Variable conv_text : N -> V -> option fbytes.

  (* the positional operands *)
  Definition positionals (x : soperand V) : list V :=
    match x with STuple l => l | SMapping v _ => [v] | SSingle v => [v] end.
  Definition exempt (x : soperand V) : bool :=
    match x with SMapping _ _ => true | _ => false end.

  Definition choose (key : option fbytes) (x : soperand V) (used : nat) : V + ierr :=
    match key with
    | Some k =>
        match x with
        | SMapping _ entries =>
            match find (fun kv => bytes_eqb (fst kv) k) entries with
            | Some kv => inl (snd kv)
            | None => inr IKeyNotFound
            end
        | _ => inr INotMapping
        end
    | None =>
        match nth_error (positionals x) used with
        | Some v => inl v
        | None => inr INotEnough
        end
    end.

  Definition render (c : N) (v : V) : fbytes + ierr :=
    if N.eqb c 115 then inl (str_of v)
    else if N.eqb c 114 then inl (repr_of v)
    else if N.eqb c 37 then inl [ch_pct]
    else if existsb (N.eqb c) value_letters
    then match conv_text c v with Some t => inl t | None => inr IBadOperand end
    else inr IUnknownConv.

  Definition iprepend (s : fbytes) (r : ires) : ires :=
    match r with IOk t => IOk (s ++ t) | _ => r end.

  Fixpoint ieval (segs : list iseg) (x : soperand V) (used : nat) : ires :=
    match segs with
    | [] => if (used <? length (positionals x))%nat && negb (exempt x) then IErr ITooMany else IOk []
    | ILit s :: r => iprepend s (ieval r x used)
    | IPercent :: r => iprepend [ch_pct] (ieval r x used)
    | IBadKey :: _ => IErr IIncompleteKey
    | IConv key letter :: r =>
        match choose key x used with
        | inr e => IErr e
        | inl v =>
            match letter with
            | None => IErr IIncomplete
            | Some c =>
                match render c v with
                | inr e => IErr e
                | inl t => iprepend t (ieval r x (S used))
                end
            end
        end
    end.

  Definition interpolate_spec (template : fbytes) (x : soperand V) : ires :=
    ieval (iparse template) x 0.
End Spec.
