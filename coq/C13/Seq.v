(* C13 -- model of the list methods (the list_xxx functions of library.go), the sequence built-ins
   reversed / zip / enumerate / any / all (library.go), concatenation and
   repetition (eval.go Binary PLUS/STAR cases, tupleRepeat / stringRepeat).
   Lists are never frozen and have no active iterator here (freezing and
   mutation-during-iteration are properties C04 / C06).  No proofs here. *)
From Coq Require Import ZArith NArith List Bool.
From SV Require Import Common.GoInt C13.Base C13.Index C13.Str.
Import ListNotations.
Open Scope Z_scope.

Inductive lmeth := LAppend | LClear | LExtend | LIndex | LInsert | LPop | LRemove.

Definition zlen {A} (l : list A) : Z := Z.of_nat (length l).

(* for i := start; i < end; i++ { if Equal(elems[i], value) return i }  (value equality on this
   value domain never fails) *)
Fixpoint index_loop (fuel : nat) (xs : list val) (i e : Z) (v : val) : outcome Z :=
  match fuel with
  | O => OutOfFuel
  | S f =>
      if i <? e then
        match zth xs i with
        | None => Panic
        | Some x => if val_eqb x v then Ok i else index_loop f xs (wrap64 (i + 1)) e v
        end
      else Err (* "value not in list" *)
  end.

Definition list_index (recv : list val) (args : list val) : outcome (val * list val) :=
  if negb (arity args 1 3) then Err else
  match nth_error args 0 with
  | None => Err
  | Some v =>
      match indices (arg_at args 1) (arg_at args 2) (zlen recv) with
      | None => Err
      | Some (start, e) =>
          match index_loop (S (length recv)) recv start e v with
          | Ok i => Ok (VInt i, recv)
          | Err => Err | Panic => Panic | OutOfFuel => OutOfFuel
          end
      end
  end.

(* recv.elems = append(recv.elems, nil); copy(recv.elems[index+1:], recv.elems[index:]); recv.elems[index] = object *)
Definition insert_at (xs : list val) (index : Z) (v : val) : outcome (list val) :=
  if (0 <=? index) && (index <=? zlen xs)
  then Ok (firstn (Z.to_nat index) xs ++ v :: skipn (Z.to_nat index) xs)
  else Panic.

Definition list_insert (recv : list val) (args : list val) : outcome (val * list val) :=
  if negb (arity args 2 2) then Err else
  match int_at args 0 0, nth_error args 1 with
  | Some index, Some object =>
      let index := if index <? 0 then wrap64 (index + zlen recv) else index in
      if index >=? zlen recv then Ok (VNone, recv ++ [object])
      else
        let index := if index <? 0 then 0 else index in
        match insert_at recv index object with
        | Ok l => Ok (VNone, l)
        | Err => Err | Panic => Panic | OutOfFuel => OutOfFuel
        end
  | _, _ => Err
  end.

(* list.elems = append(list.elems[:i], list.elems[i+1:]...) *)
Definition remove_at (xs : list val) (i : Z) : outcome (val * list val) :=
  match zth xs i with
  | None => Panic
  | Some x => Ok (x, firstn (Z.to_nat i) xs ++ skipn (Z.to_nat (i + 1)) xs)
  end.

Definition list_pop (recv : list val) (args : list val) : outcome (val * list val) :=
  let n := zlen recv in
  if negb (arity args 0 1) then Err else
  match int_at args 0 (wrap64 (n - 1)) with
  | None => Err
  | Some i =>
      let i := if i <? 0 then wrap64 (i + n) else i in
      if (i <? 0) || (i >=? n) then Err else remove_at recv i
  end.

Fixpoint remove_loop (xs : list val) (v : val) : option (list val) :=
  match xs with
  | [] => None
  | x :: r => if val_eqb x v then Some r
              else match remove_loop r v with Some r' => Some (x :: r') | None => None end
  end.

Definition list_remove (recv : list val) (args : list val) : outcome (val * list val) :=
  if negb (arity args 1 1) then Err else
  match nth_error args 0 with
  | Some v => match remove_loop recv v with Some l => Ok (VNone, l) | None => Err end
  | None => Err
  end.

Definition list_method (m : lmeth) (recv : list val) (args : list val) : outcome (val * list val) :=
  match m with
  | LAppend => match args with [x] => Ok (VNone, recv ++ [x]) | _ => Err end
  | LClear => match args with [] => Ok (VNone, []) | _ => Err end
  | LExtend => match args with
               | [v] => match iterable_elems v with Some l => Ok (VNone, recv ++ l) | None => Err end
               | _ => Err end
  | LIndex => list_index recv args
  | LInsert => list_insert recv args
  | LPop => list_pop recv args
  | LRemove => list_remove recv args
  end.

(* ---- built-in functions *)
Inductive bfun := BReversed | BZip | BEnumerate | BAny | BAll.

(* zip: rows = min of the lengths (all arguments here have a known length) *)
Fixpoint zip_rows (cols : list (list val)) (rows : nat) : list val :=
  match rows with
  | O => []
  | S r => VTuple (map (fun c => hd VNone c) cols) :: zip_rows (map (@tl val) cols) r
  end.
Fixpoint min_len (cols : list (list val)) (first : bool) (rows : Z) : Z :=
  match cols with
  | [] => rows
  | c :: r => min_len r false (if first || (zlen c <? rows) then zlen c else rows)
  end.
Fixpoint all_iterables (args : list val) : option (list (list val)) :=
  match args with
  | [] => Some []
  | v :: r => match iterable_elems v, all_iterables r with
              | Some l, Some ls => Some (l :: ls)
              | _, _ => None end
  end.

Fixpoint enumerate_loop (xs : list val) (start i : Z) : list val :=
  match xs with
  | [] => []
  | x :: r => VTuple [VInt (start + i); x] :: enumerate_loop r start (i + 1)  (* MakeInt(start).Add(MakeInt(i)): exact *)
  end.

(* any / all: first element deciding the answer stops the iteration *)
Fixpoint any_loop (xs : list val) : bool := match xs with [] => false | x :: r => if truth x then true else any_loop r end.
Fixpoint all_loop (xs : list val) : bool := match xs with [] => true | x :: r => if negb (truth x) then false else all_loop r end.

Definition builtin (f : bfun) (args : list val) : outcome val :=
  match f with
  | BReversed => match args with
                 | [v] => match iterable_elems v with Some l => Ok (VList (rev l)) | None => Err end
                 | _ => Err end
  | BZip => match all_iterables args with
            | Some cols => Ok (VList (zip_rows cols (Z.to_nat (min_len cols true 0))))
            | None => Err end
  | BEnumerate =>
      if negb (arity args 1 2) then Err else
      match nth_error args 0, int_at args 1 0 with
      | Some v, Some start =>
          match iterable_elems v with Some l => Ok (VList (enumerate_loop l start 0)) | None => Err end
      | _, _ => Err
      end
  | BAny => match args with
            | [v] => match iterable_elems v with Some l => Ok (VBool (any_loop l)) | None => Err end
            | _ => Err end
  | BAll => match args with
            | [v] => match iterable_elems v with Some l => Ok (VBool (all_loop l)) | None => Err end
            | _ => Err end
  end.

(* ---- repetition: tupleRepeat / stringRepeat (bytesRepeat goes through stringRepeat).
   n is the Starlark int operand; maxAlloc = 1<<30 *)
Definition max_alloc : Z := 1073741824.
Definition repeat_impl {A} (xs : list A) (n : Z) : outcome (list A) :=
  match xs with
  | [] => Ok []
  | _ =>
      if negb (in_int32 n) then               (* AsInt32 fails *)
        (if n <? 0 then Ok [] else Err)        (* negative: like zero; else "repeat count too large" *)
      else if n <? 1 then Ok []
      else
        (* bits.Mul(uint(len), uint(i)): hi word zero because both < 2^32 here; sz = len * i *)
        let sz := zlen xs * n in
        if sz >=? max_alloc then Err else Ok (repeat_bytes xs (Z.to_nat n))
  end.

(* x * y and y * x for x a string / bytes / list / tuple and y an int; x + y for two strings,
   two lists or two tuples (Binary has no PLUS case for bytes: "unknown binary op") *)
Definition binary_star (x y : val) : outcome val :=
  let rep {A} (mk : list A -> val) (xs : list A) (n : Z) : outcome val :=
      match repeat_impl xs n with Ok l => Ok (mk l) | Err => Err | Panic => Panic | OutOfFuel => OutOfFuel end in
  match x, y with
  | VStr s, VInt n | VInt n, VStr s => rep VStr s n
  | VBytes s, VInt n | VInt n, VBytes s => rep VBytes s n
  | VList l, VInt n | VInt n, VList l => rep VList l n
  | VTuple l, VInt n | VInt n, VTuple l => rep VTuple l n
  | _, _ => Err  (* other operand kinds are outside this property (ints: C10) *)
  end.

Definition binary_plus (x y : val) : outcome val :=
  match x, y with
  | VStr a, VStr b => Ok (VStr (a ++ b))
  | VList a, VList b => Ok (VList (a ++ b))
  | VTuple a, VTuple b => Ok (VTuple (a ++ b))
  | _, _ => Err
  end.

(* ---- sorted / min / max (library.go sorted, sortSlice, minmax).
   The keys are computed first (one Call of key per element, or the elements
   themselves); here they are integers and the elements are represented by
   their positions 0..n-1 in the argument.
   sorted: sort.Stable(slice) with Less(i, j) = keys[i] < keys[j], or
   sort.Stable(sort.Reverse(slice)), i.e. the same stable sort under the
   flipped Less.  sort.Stable is a library oracle; by its documented meaning
   ("keeping the original order of equal elements") it is modelled by the
   reference stable sort, insertion from the right. *)
Fixpoint sinsert (less : Z -> Z -> bool) (x : Z * nat) (s : list (Z * nat)) : list (Z * nat) :=
  match s with
  | [] => [x]
  | y :: s' => if less (fst y) (fst x) then y :: sinsert less x s' else x :: s
  end.
Fixpoint stable_sort (less : Z -> Z -> bool) (l : list (Z * nat)) : list (Z * nat) :=
  match l with
  | [] => []
  | x :: r => sinsert less x (stable_sort less r)
  end.
Definition sort_less (reverse : bool) : Z -> Z -> bool :=
  if reverse then (fun a b => Z.ltb b a) else Z.ltb.
Definition sorted_impl (reverse : bool) (keys : list Z) : list nat :=
  map snd (stable_sort (sort_less reverse) (combine keys (seq 0 (length keys)))).

(* minmax: extremum := first element; for each further x: if Compare(op, key(x), extremeKey) then
   extremum, extremeKey = x, key(x)  -- op is GT for max and LT for min *)
Fixpoint minmax_loop (is_max : bool) (l : list (Z * nat)) (ext : Z * nat) : nat :=
  match l with
  | [] => snd ext
  | x :: r =>
      if (if is_max then fst ext <? fst x else fst x <? fst ext)
      then minmax_loop is_max r x
      else minmax_loop is_max r ext
  end.
Definition minmax_impl (is_max : bool) (keys : list Z) : outcome nat :=
  match combine keys (seq 0 (length keys)) with
  | [] => Err                              (* "argument is an empty sequence" *)
  | x :: r => Ok (minmax_loop is_max r x)
  end.
