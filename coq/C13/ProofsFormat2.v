(* C13 -- string.format, part 2: the two loops of string_format against the
   specification's parse-then-evaluate, the fuel bound, absence of panics,
   and absence of panics.  (The refutation for the code before commit 5574fcc,
   whose `decimal` wrapped, is in History.v.) *)
From Coq Require Import ZArith NArith List Bool Lia ZifyBool ZifyNat ZifyN.
From SV Require Import Common.GoInt C13.Base C13.FormatBase C13.Format C13.FormatSpec C13.ProofsFormat.
Import ListNotations.
Open Scope Z_scope.

(* ------------------------------------------- runs of literal segments *)
Definition is_lit (s : seg) : bool := match s with Lit _ => true | _ => false end.
Definition all_lit (l : list seg) : bool := forallb is_lit l.
Fixpoint lit_text (l : list seg) : fbytes :=
  match l with
  | [] => []
  | Lit s :: r => s ++ lit_text r
  | _ :: r => lit_text r
  end.

Lemma all_lit_app a b : all_lit (a ++ b) = all_lit a && all_lit b.
Proof. apply forallb_app. Qed.
Lemma lit_text_app a b : lit_text (a ++ b) = lit_text a ++ lit_text b.
Proof.
  induction a as [|[s| | |] a IH]; cbn [app lit_text]; try assumption; [reflexivity|].
  now rewrite IH, app_assoc.
Qed.

(* the slice / index lemmas in the form used below: s is known as a concatenation *)
Lemma rw_sl_to_app {s a b} : s = a ++ b -> sl_to s (flen a) = Some a.
Proof. intros ->. apply sl_to_app. Qed.
Lemma rw_sl_to_app1 {s a c b} : s = a ++ c :: b -> sl_to s (flen a + 1) = Some (a ++ [c]).
Proof. intros ->. apply sl_to_app1. Qed.
Lemma rw_sl_from_app1 {s a c b} : s = a ++ c :: b -> sl_from s (flen a + 1) = Some b.
Proof. intros ->. apply sl_from_app1. Qed.
Lemma rw_sl_from_app2 {s a c d b} : s = a ++ c :: d :: b -> sl_from s (flen a + 2) = Some b.
Proof. intros ->. apply sl_from_app2. Qed.
Lemma rw_byte_at_app1 {s a c d b} : s = a ++ c :: d :: b -> byte_at s (flen a + 1) = Some d.
Proof. intros ->. apply byte_at_app1. Qed.

Section Loops.
  Variable V : Type.
  Variables str_of repr_of : V -> fbytes.
  Variable args : list V.
  Variable kwargs : list (fbytes * V).
  Hypothesis Hargs : Z.of_nat (length args) <= max_int64.   (* len(args) is a Go int *)

  Local Notation prepend := (prepend).
  Local Notation eval := (eval V str_of repr_of).

  Lemma prepend_nil r : prepend [] r = r.
  Proof. destruct r; reflexivity. Qed.
  Lemma prepend_app a b r : prepend (a ++ b) r = prepend a (prepend b r).
  Proof. destruct r; cbn [FormatSpec.prepend]; try reflexivity. now rewrite app_assoc. Qed.

  Lemma eval_lits lits X m :
    all_lit lits = true ->
    eval (lits ++ X) args kwargs m = prepend (lit_text lits) (eval X args kwargs m).
  Proof.
    induction lits as [|[s| | |] l IH]; cbn [all_lit forallb is_lit app andb]; intro H; try discriminate.
    - cbn [lit_text]. now rewrite prepend_nil.
    - cbn [FormatSpec.eval lit_text]. rewrite IH by assumption. now rewrite prepend_app.
  Qed.

  (* ------------------------------------------------- the inner loop *)
  Definition toks_ok (toks : list piece) : Prop := toks = [] \/ exists r, toks = POpen :: r.

  Definition text_lits (pre : fbytes) : list seg := match pre with [] => [] | _ => [Lit pre] end.

  Lemma text_lits_props pre : all_lit (text_lits pre) = true /\ lit_text (text_lits pre) = pre.
  Proof. destruct pre; cbn; [auto|]. now rewrite app_nil_r. Qed.

  Lemma segments_plain_prefix pre X :
    ~ In ch_open pre -> ~ In ch_close pre ->
    segments (split_braces pre ++ X) = text_lits pre ++ segments X.
  Proof.
    intros H1 H2. rewrite split_braces_plain by assumption. destruct pre; reflexivity.
  Qed.

  Lemma literal_loop_spec : forall n lit, (length lit <= n)%nat -> ~ In ch_open lit ->
    forall fuel buf toks, (length lit < fuel)%nat -> toks_ok toks ->
    exists lits, all_lit lits = true /\
      ((literal_loop fuel lit buf = FOk (buf ++ lit_text lits) /\
        segments (split_braces lit ++ toks) = lits ++ segments toks)
       \/ (literal_loop fuel lit buf = FErr ESingleClose /\
           segments (split_braces lit ++ toks) = lits ++ [Stray])).
  Proof.
    induction n as [|n IH]; intros lit Hlen Hno fuel buf toks Hfuel Htoks.
    - destruct lit; [|cbn in Hlen; lia]. destruct fuel; [lia|].
      exists []. split; [reflexivity|]. left. cbn. now rewrite app_nil_r.
    - destruct fuel as [|fuel']; [lia|]. cbn [literal_loop].
      destruct (index_byte_cases lit ch_close) as [[Nc I]|(pre & post & E & Nc & I)]; rewrite I.
      + (* no '}' at all *)
        replace (-1 <? 0) with true by lia.
        exists (text_lits lit). destruct (text_lits_props lit) as [A T]. split; [assumption|]. left.
        rewrite T. split; [reflexivity|]. now apply segments_plain_prefix.
      + pose proof (flen_nonneg pre) as Hp. replace (flen pre <? 0) with false by lia.
        assert (Hno_pre : ~ In ch_open pre).
        { intro H. apply Hno. rewrite E. apply in_or_app. now left. }
        assert (Hsplit : split_braces lit = split_braces pre ++ PClose :: split_braces post).
        { rewrite E. rewrite split_braces_app by reflexivity. reflexivity. }
        destruct (text_lits_props pre) as [A T].
        destruct post as [|d post'].
        * (* the '}' is the last byte *)
          subst lit. rewrite flen_app, flen_cons. replace (flen pre + (1 + flen []) =? flen pre + 1) with true by (unfold flen; cbn; lia).
          exists (text_lits pre). split; [assumption|]. right. split; [reflexivity|].
          rewrite Hsplit, <- app_assoc. rewrite segments_plain_prefix by assumption. f_equal.
          cbn [split_braces app]. destruct Htoks as [->|[r ->]]; reflexivity.
        * assert (Hl : flen lit =? flen pre + 1 = false).
          { rewrite E, flen_app, !flen_cons. pose proof (flen_nonneg post'). lia. }
          rewrite Hl. rewrite (rw_byte_at_app1 E).
          destruct (N.eqb_spec d ch_close) as [->|Nd]; cbn [negb].
          -- (* "}}" *)
             rewrite (rw_sl_to_app1 E). rewrite (rw_sl_from_app2 E).
             assert (Hlen' : (length post' <= n)%nat).
             { rewrite E, app_length in Hlen. cbn [length] in Hlen. lia. }
             assert (Hno' : ~ In ch_open post').
             { intro H. apply Hno. rewrite E. apply in_or_app. right. right. now right. }
             assert (Hfuel' : (length post' < fuel')%nat).
             { rewrite E, app_length in Hfuel. cbn [length] in Hfuel. lia. }
             destruct (IH post' Hlen' Hno' fuel' (buf ++ pre ++ [ch_close]) toks Hfuel' Htoks)
               as (lits' & A' & [[R S]|[R S]]).
             ++ exists (text_lits pre ++ Lit [ch_close] :: lits'). split.
                { rewrite all_lit_app, A. cbn. exact A'. }
                left. split.
                { rewrite R. f_equal. rewrite lit_text_app, T. cbn [lit_text].
                  rewrite <- !app_assoc. reflexivity. }
                rewrite Hsplit, <- app_assoc, segments_plain_prefix by assumption.
                rewrite <- app_assoc. f_equal.
                change (split_braces (ch_close :: post')) with (PClose :: split_braces post').
                cbn [app segments]. now rewrite S.
             ++ exists (text_lits pre ++ Lit [ch_close] :: lits'). split.
                { rewrite all_lit_app, A. cbn. exact A'. }
                right. split; [exact R|].
                rewrite Hsplit, <- app_assoc, segments_plain_prefix by assumption.
                rewrite <- app_assoc. f_equal.
                change (split_braces (ch_close :: post')) with (PClose :: split_braces post').
                cbn [app segments]. now rewrite S.
          -- (* a lone '}' followed by something else *)
             exists (text_lits pre). split; [assumption|]. right. split; [reflexivity|].
             rewrite Hsplit, <- app_assoc, segments_plain_prefix by assumption. f_equal.
             assert (Nd' : d <> ch_open).
             { intro H. apply Hno. rewrite E, H. apply in_or_app. right. right. now left. }
             destruct (split_braces_head_text d post' Nd' Nd) as (t & ps & Hh).
             rewrite Hh. reflexivity.
  Qed.

  (* -------------------------------------------------- the outer loop *)
  Lemma not_open_head c r :
    c <> ch_open -> forall X, segments (POpen :: split_braces (c :: r) ++ X) = in_field (split_braces (c :: r) ++ X) [].
  Proof.
    intros Nc X. cbn [split_braces].
    destruct (N.eqb_spec c ch_open); [contradiction|].
    destruct (N.eqb c ch_close); [reflexivity|].
    destruct (split_braces r) as [|[t| |] ps]; reflexivity.
  Qed.

  Lemma format_loop_spec : forall n format, (length format <= n)%nat ->
    forall fuel st m buf,
      (length format < fuel)%nat -> Rst st m ->
      is_bytes format = true ->
      format_loop V str_of repr_of fuel args kwargs format st buf =
      prepend buf (eval (parse format) args kwargs m).
  Proof.
    induction n as [|n IH]; intros format Hlen fuel st m buf Hfuel HR Hbytes.
    - destruct format; [|cbn in Hlen; lia]. destruct fuel; [lia|].
      cbn. now rewrite app_nil_r.
    - destruct fuel as [|fuel']; [lia|]. cbn [format_loop].
      destruct (index_byte_cases format ch_open) as [[No I]|(lit & rest & E & No & I)]; rewrite I.
      + (* no '{': the whole string is literal text *)
        replace (0 <=? -1) with false by lia.
        destruct (literal_loop_spec (length format) format (le_n _) No (S (length format)) buf []
                                    (Nat.lt_succ_diag_r _) (or_introl eq_refl))
          as (lits & A & [[R S]|[R S]]); rewrite R; rewrite app_nil_r in S.
        * replace (-1 <? 0) with true by lia.
          unfold parse. rewrite S. cbn [segments]. rewrite app_nil_r.
          rewrite <- (app_nil_r lits), eval_lits by assumption. cbn [FormatSpec.eval FormatSpec.prepend].
          now rewrite !app_nil_r.
        * unfold parse. rewrite S, eval_lits by assumption. reflexivity.
      + pose proof (flen_nonneg lit) as Hp. replace (0 <=? flen lit) with true by lia.
        rewrite (rw_sl_to_app E).
        assert (Hparse : parse format = segments (split_braces lit ++ POpen :: split_braces rest)).
        { unfold parse. rewrite E. rewrite split_braces_app by reflexivity. reflexivity. }
        destruct (literal_loop_spec (length lit) lit (le_n _) No (S (length lit)) buf (POpen :: split_braces rest)
                                    (Nat.lt_succ_diag_r _) (or_intror (ex_intro _ _ eq_refl)))
          as (lits & A & [[R S]|[R S]]); rewrite R.
        2:{ rewrite Hparse, S, eval_lits by assumption. reflexivity. }
        replace (flen lit <? 0) with false by lia.
        rewrite Hparse, S.
        rewrite eval_lits by assumption. rewrite <- prepend_app.
        rewrite E in Hbytes. rewrite is_bytes_app in Hbytes. apply andb_true_iff in Hbytes as [Hb_lit Hb_rest].
        change (is_bytes (ch_open :: rest)) with (is_bytes rest) in Hb_rest.
        destruct rest as [|c rest'].
        * (* '{' is the last byte *)
          replace (flen lit + 1 <? flen format) with false
            by (rewrite E, flen_app, flen_cons; unfold flen; cbn; lia).
          rewrite (rw_sl_from_app1 E). cbn. reflexivity.
        * replace (flen lit + 1 <? flen format) with true
            by (rewrite E, flen_app, !flen_cons; pose proof (flen_nonneg rest'); lia).
          rewrite (rw_byte_at_app1 E).
          destruct (N.eqb_spec c ch_open) as [->|Nc].
          -- (* "{{" *)
             rewrite (rw_sl_from_app2 E).
             change (split_braces (ch_open :: rest')) with (POpen :: split_braces rest').
             cbn [segments].
             cbn [FormatSpec.eval]. rewrite <- prepend_app.
             assert (Hlen' : (length rest' <= n)%nat).
             { rewrite E, app_length in Hlen. cbn [length] in Hlen. lia. }
             assert (Hfuel' : (length rest' < fuel')%nat).
             { rewrite E, app_length in Hfuel. cbn [length] in Hfuel. lia. }
             rewrite (IH rest' Hlen' fuel' st m _ Hfuel' HR Hb_rest).
             rewrite <- app_assoc. reflexivity.
          -- (* a replacement field *)
             rewrite (rw_sl_from_app1 E).
             rewrite <- (app_nil_r (split_braces (c :: rest'))).
             rewrite (not_open_head c rest' Nc []).
             rewrite app_nil_r.
             destruct (index_byte_cases (c :: rest') ch_close) as [[Ncl I2]|(field & after & E2 & Ncl & I2)]; rewrite I2.
             ++ (* unmatched '{' *)
                replace (-1 <? 0) with true by lia.
                rewrite in_field_unclosed by (now apply split_braces_no_close). reflexivity.
             ++ pose proof (flen_nonneg field) as Hf. replace (flen field <? 0) with false by lia.
                rewrite (rw_sl_to_app E2). rewrite (rw_sl_from_app1 E2).
                assert (Hin : in_field (split_braces (c :: rest')) [] = field_of field :: parse after).
                { rewrite E2, split_braces_app by reflexivity.
                  change (split_braces (ch_close :: after)) with (PClose :: split_braces after).
                  rewrite in_field_collect by (now apply split_braces_no_close).
                  now rewrite split_braces_render. }
                rewrite Hin.
                destruct (split_field_spec field) as (name & conv & spec & tail & Hsf & Hfo & Hnt).
                rewrite Hsf, Hfo.
                rewrite E2, is_bytes_app in Hb_rest. apply andb_true_iff in Hb_rest as [Hb_field Hb_after].
                change (is_bytes (ch_close :: after)) with (is_bytes after) in Hb_after.
                rewrite Hnt, is_bytes_app in Hb_field. apply andb_true_iff in Hb_field as [Hb_name _].
                pose proof (select_arg_spec V name args kwargs st m HR Hb_name Hargs) as Hsel.
                cbn [FormatSpec.eval].
                destruct (select_arg V name args kwargs st) as [arg st'|e|];
                  destruct (resolve V (selector_of name) args kwargs m) as [[v m']|e']; try contradiction.
                ** destruct Hsel as [<- HR'].
                   destruct spec; [|reflexivity].
                   assert (Hlen' : (length after <= n)%nat).
                   { assert (length (c :: rest') = length (field ++ ch_close :: after)) by now rewrite <- E2.
                     rewrite E, app_length in Hlen. rewrite app_length in H. cbn [length] in *. lia. }
                   assert (Hfuel' : (length after < fuel')%nat).
                   { assert (length (c :: rest') = length (field ++ ch_close :: after)) by now rewrite <- E2.
                     rewrite E, app_length in Hfuel. rewrite app_length in H. cbn [length] in *. lia. }
                   unfold convert.
                   destruct (bytes_eqb conv [ch_s]).
                   { rewrite (IH after Hlen' fuel' st' m' _ Hfuel' HR' Hb_after).
                     rewrite <- !prepend_app, <- app_assoc. reflexivity. }
                   destruct (bytes_eqb conv [ch_r]).
                   { rewrite (IH after Hlen' fuel' st' m' _ Hfuel' HR' Hb_after).
                     rewrite <- !prepend_app, <- app_assoc. reflexivity. }
                   reflexivity.
                ** subst e'. reflexivity.
  Qed.
End Loops.

(* ------------------------------------------------------------- theorems *)
Lemma format_correct_lemma :
  forall (V : Type) (str_of repr_of : V -> fbytes)
         (template : fbytes) (args : list V) (kwargs : list (fbytes * V)),
    is_bytes template = true ->
    Z.of_nat (length args) <= max_int64 ->
    string_format V str_of repr_of template args kwargs =
    format_spec V str_of repr_of template args kwargs.
Proof.
  intros V str_of repr_of template args kwargs Hb Hn.
  unfold string_format, format_spec.
  rewrite (format_loop_spec V str_of repr_of args kwargs Hn (length template) template (le_n _)
                            (S (length template)) fstate0 Unused [] (Nat.lt_succ_diag_r _) eq_refl Hb).
  apply prepend_nil.
Qed.

(* the specification never panics nor runs out of fuel, hence neither does
   the model with the fuel string_format gives it *)
Lemma prepend_total s r : (r <> FPanic /\ r <> FOutOfFuel) -> (prepend s r <> FPanic /\ prepend s r <> FOutOfFuel).
Proof. destruct r; cbn; intros [H1 H2]; split; congruence. Qed.

Lemma eval_total (V : Type) (str_of repr_of : V -> fbytes) segs args kwargs : forall m,
  eval V str_of repr_of segs args kwargs m <> FPanic /\ eval V str_of repr_of segs args kwargs m <> FOutOfFuel.
Proof.
  induction segs as [|s r IH]; intro m; cbn [eval]; [split; discriminate|].
  destruct s as [t|sel conv spec| |]; try (split; discriminate).
  - apply prepend_total, IH.
  - destruct (resolve V sel args kwargs m) as [[v m']|e]; [|split; discriminate].
    destruct spec; [|split; discriminate].
    destruct (convert V str_of repr_of conv); [|split; discriminate].
    apply prepend_total, IH.
Qed.

Lemma format_no_panic_lemma :
  forall (V : Type) (str_of repr_of : V -> fbytes)
         (template : fbytes) (args : list V) (kwargs : list (fbytes * V)),
    is_bytes template = true ->
    Z.of_nat (length args) <= max_int64 ->
    string_format V str_of repr_of template args kwargs <> FPanic /\
    string_format V str_of repr_of template args kwargs <> FOutOfFuel.
Proof.
  intros. rewrite format_correct_lemma by assumption. apply eval_total.
Qed.
