(* C13 -- slice_correct and the index lemmas (continues ProofsIndex.v). *)
From Coq Require Import ZArith NArith List Bool Lia.
From Coq Require Import ZifyBool ZifyNat.
From SV Require Import Common.GoInt C13.Base C13.Index C13.Spec C13.ProofsIndex.
Import ListNotations.
Open Scope Z_scope.

Lemma plen_one s e : s <= e -> plen s e 1 = e - s.
Proof.
  intros H. unfold plen. change (1 <? 0) with false. cbv iota. unfold cnt.
  destruct (0 <? e - s) eqn:E; [|apply Z.ltb_ge in E; lia].
  rewrite Z.div_1_r. lia.
Qed.

Lemma plen_bound s e st n :
  0 <= n -> st <> 0 ->
  (0 < st -> 0 <= s <= e /\ e <= n) ->
  (st < 0 -> e <= s /\ (e < s -> s <= n - 1 /\ -1 <= e)) ->
  0 <= plen s e st <= n.
Proof.
  intros Hn0 Hst Hp Hn. unfold plen.
  destruct (st <? 0) eqn:E.
  - destruct (Hn ltac:(lia)) as [H1 H2].
    destruct (Z.eq_dec e s) as [->|Hne].
    + rewrite cnt_nonpos by lia. lia.
    + pose proof (cnt_pos (s - e) (- st)). lia.
  - destruct (Hp ltac:(lia)) as [H1 H2].
    destruct (Z.eq_dec e s) as [->|Hne].
    + rewrite cnt_nonpos by lia. lia.
    + pose proof (cnt_pos (e - s) st). lia.
Qed.

Lemma seq_slice_ok {A} (xs : list A) s e st :
  let n := Z.of_nat (length xs) in
  st <> 0 -> - B <= st <= B -> - B <= s <= B -> - B <= e <= B ->
  (0 < st -> 0 <= s <= e /\ e <= n) ->
  (st < 0 -> e <= s /\ (e < s -> s <= n - 1 /\ -1 <= e)) ->
  seq_slice xs s e st = Ok (pick xs (progression s st (Z.to_nat (plen s e st)))).
Proof.
  intros n Hst Bst Bs Be Hp Hn. unfold seq_slice.
  pose proof (plen_bound s e st n ltac:(lia) Hst Hp Hn) as HB.
  destruct (st =? 1) eqn:E1.
  - assert (st = 1) by lia. subst st.
    destruct (Hp ltac:(lia)) as [H1 H2].
    unfold go_subslice.
    destruct ((0 <=? s) && (s <=? e) && (e <=? Z.of_nat (length xs))) eqn:E2; [|lia].
    rewrite plen_one by lia.
    rewrite pick_contiguous by lia. reflexivity.
  - destruct (slice_loop_ok xs e st Hst Bst Be (Z.to_nat (plen s e st)) (S (length xs)) s) as [H1 _];
      try (unfold B in *; lia).
    exact H1.
Qed.

(* a negative stride with start = end: the loop stops at once (the bounds may be anywhere) *)
Lemma seq_slice_empty {A} (xs : list A) s st :
  st < 0 -> seq_slice xs s s st = Ok (pick xs (progression s st (Z.to_nat (plen s s st)))).
Proof.
  intros Hst. unfold seq_slice.
  destruct (st =? 1) eqn:E1; [lia|].
  cbn [slice_loop]. replace (s - s) with 0 by lia.
  change (wrap64 0) with 0. rewrite signum_sgn_neg by lia. cbn.
  unfold plen. destruct (st <? 0) eqn:E; [|lia].
  replace (s - s) with 0 by lia. rewrite cnt_nonpos by lia. reflexivity.
Qed.

(* ---- the stride *)
Definition eff_step (n z : Z) : Z :=
  if in_int64 z && (in_int32 z || ((- n <? z) && (z <? n))) then z
  else if z <? 0 then - (if n <? 1 then 1 else n) else (if n <? 1 then 1 else n).

Lemma slice_step_eq n st :
  0 <= n <= B ->
  slice_step n st =
  match int_or_none st with
  | Some None => Some 1
  | Some (Some z) => if z =? 0 then None else Some (eff_step n z)
  | None => None
  end.
Proof.
  unfold B. intros Hn. destruct st as [|z|]; cbn [slice_step int_or_none]; try reflexivity.
  unfold eff_step. cbv zeta.
  destruct (in_int64 z && (in_int32 z || ((- n <? z) && (z <? n)))) eqn:E; [reflexivity|].
  unfold in_int64, in_int32, min_int64, max_int64, min_int32, max_int32 in E.
  set (m := if n <? 1 then 1 else n).
  assert (Hm : 1 <= m <= 2305843009213693952) by (unfold m; destruct (n <? 1) eqn:?; lia).
  clearbody m.
  destruct (z <? 0) eqn:E1.
  - rewrite wrap64_small by lia.
    destruct (- m =? 0) eqn:E2; destruct (z =? 0) eqn:E3; first [reflexivity | lia].
  - destruct (m =? 0) eqn:E2; destruct (z =? 0) eqn:E3; first [reflexivity | lia].
Qed.

Lemma eff_step_facts n z :
  0 <= n <= B -> z <> 0 ->
  eff_step n z <> 0 /\ - B <= eff_step n z <= B /\
  (0 < z <-> 0 < eff_step n z) /\
  (eff_step n z = z \/ ((n <= z \/ z <= - n) /\ (n <= eff_step n z \/ eff_step n z <= - n) /\ 1 <= Z.abs (eff_step n z))).
Proof.
  unfold B, eff_step. intros Hn Hz.
  destruct (in_int64 z && (in_int32 z || ((- n <? z) && (z <? n)))) eqn:E.
  - unfold in_int64, in_int32, min_int64, max_int64, min_int32, max_int32 in E. lia.
  - unfold in_int64, in_int32, min_int64, max_int64, min_int32, max_int32 in E.
    destruct (z <? 0) eqn:E1; destruct (n <? 1) eqn:E2; lia.
Qed.

(* strides of absolute value >= n select the same elements *)
Lemma cnt_big k d : 0 < k -> k <= d -> cnt k d = 1.
Proof.
  intros Hk Hd. unfold cnt. destruct (0 <? k) eqn:E; [|lia].
  rewrite Z.div_small by lia. lia.
Qed.

Lemma spec_big_step {A} (xs : list A) lo hi z z' :
  let n := Z.of_nat (length xs) in
  z <> 0 -> z' <> 0 -> (0 < z <-> 0 < z') ->
  (n <= z \/ z <= - n) -> (n <= z' \/ z' <= - n) ->
  (let '(start, _, len) := slice_indices n lo hi z in pick xs (progression start z (Z.to_nat len))) =
  (let '(start, _, len) := slice_indices n lo hi z' in pick xs (progression start z' (Z.to_nat len))).
Proof.
  intros n Hz Hz' Hs Hb Hb'.
  pose proof (slice_indices_len n lo hi z) as HL.
  pose proof (slice_indices_len n lo hi z') as HL'.
  destruct (slice_indices n lo hi z) as [[sp ep] len] eqn:ES.
  destruct (slice_indices n lo hi z') as [[sp' ep'] len'] eqn:ES'.
  unfold slice_indices in ES, ES'.
  assert (Hsign : (z <? 0) = (z' <? 0)) by lia.
  rewrite <- Hsign in ES'.
  injection ES as Es Ee El. injection ES' as Es' Ee' El'.
  assert (sp' = sp) by (subst; reflexivity).
  assert (ep' = ep) by (subst; reflexivity).
  subst sp' ep'. clear El El'.
  assert (Hn0 : 0 <= n) by lia.
  assert (Hrange : (z <? 0) = false -> 0 <= sp <= n /\ 0 <= ep <= n).
  { intros Ez. rewrite Ez in *. subst sp ep. unfold adjust_bound.
    destruct lo as [zl|], hi as [zh|]; split_ifs; lia. }
  assert (Hrange' : (z <? 0) = true -> -1 <= sp <= n - 1 /\ -1 <= ep <= n - 1).
  { intros Ez. rewrite Ez in *. subst sp ep. unfold adjust_bound.
    destruct lo as [zl|], hi as [zh|]; split_ifs; lia. }
  unfold plen in HL, HL'. rewrite <- Hsign in HL'.
  destruct (z <? 0) eqn:Ez.
  - destruct (Hrange' eq_refl) as [R1 R2].
    destruct (Z_le_gt_dec (sp - ep) 0) as [Hk|Hk].
    + rewrite cnt_nonpos in HL, HL' by lia. subst len len'. reflexivity.
    + rewrite cnt_big in HL, HL' by lia. subst len len'.
      change (Z.to_nat 1) with 1%nat. unfold progression. cbn [seq map]. f_equal. f_equal. lia.
  - destruct (Hrange eq_refl) as [R1 R2].
    destruct (Z_le_gt_dec (ep - sp) 0) as [Hk|Hk].
    + rewrite cnt_nonpos in HL, HL' by lia. subst len len'. reflexivity.
    + rewrite cnt_big in HL, HL' by lia. subst len len'.
      change (Z.to_nat 1) with 1%nat. unfold progression. cbn [seq map]. f_equal. f_equal. lia.
Qed.

(* the Go computation for an effective stride equals the specification for that stride *)
Lemma slice_core {A} (xs : list A) lo hi st stv :
  Z.of_nat (length xs) <= B ->
  slice_step (Z.of_nat (length xs)) st = Some stv -> stv <> 0 -> - B <= stv <= B ->
  slice_impl xs lo hi st =
  match int_or_none lo, int_or_none hi with
  | Some lo', Some hi' =>
      let '(start, _, len) := slice_indices (Z.of_nat (length xs)) lo' hi' stv in
      Ok (pick xs (progression start stv (Z.to_nat len)))
  | _, _ => Err
  end.
Proof.
  intros Hn Hstep Hnz Bst. unfold slice_impl.
  rewrite (slice_bounds_eq _ lo hi st stv) by (try assumption; lia).
  destruct (int_or_none lo) as [lo'|]; [|reflexivity].
  destruct (int_or_none hi) as [hi'|]; [|reflexivity].
  pose proof (go_bounds_agree (Z.of_nat (length xs)) lo' hi' stv ltac:(lia) Hnz) as HA.
  destruct (go_bounds (Z.of_nat (length xs)) lo' hi' stv) as [s e].
  destruct (slice_indices (Z.of_nat (length xs)) lo' hi' stv) as [[sp ep] len].
  destruct HA as (Hlen & Hs & [[Hneg Hse] | (Bs & Be & Hp & Hneg)]).
  - subst e. rewrite seq_slice_empty by assumption. rewrite Hlen.
    destruct Hs as [-> | ->]; reflexivity.
  - rewrite seq_slice_ok by (try assumption; lia). rewrite Hlen.
    destruct Hs as [-> | ->]; reflexivity.
Qed.

Lemma slice_correct_lemma : forall (A : Type) (xs : list A) lo hi st,
  Z.of_nat (length xs) <= 2^61 ->
  slice_impl xs lo hi st = of_spec (slice_spec xs lo hi st).
Proof.
  intros A xs lo hi st Hn.
  change (2^61) with B in Hn.
  pose proof (slice_step_eq (Z.of_nat (length xs)) st ltac:(lia)) as HS.
  unfold slice_spec.
  destruct (int_or_none st) as [[z|]|] eqn:Eo.
  - (* an integer stride *)
    destruct (z =? 0) eqn:E0.
    { unfold slice_impl, slice_bounds. rewrite HS.
      destruct (int_or_none lo), (int_or_none hi); reflexivity. }
    destruct (eff_step_facts (Z.of_nat (length xs)) z ltac:(lia) ltac:(lia)) as (F1 & F2 & F3 & F4).
    rewrite (slice_core xs lo hi st _ Hn HS F1 F2).
    destruct (int_or_none lo) as [lo'|]; [|reflexivity].
    destruct (int_or_none hi) as [hi'|]; [|reflexivity].
    destruct F4 as [F4 | (G1 & G2 & G3)].
    + rewrite F4. destruct (slice_indices _ lo' hi' z) as [[a b] c]. reflexivity.
    + pose proof (spec_big_step xs lo' hi' z (eff_step (Z.of_nat (length xs)) z) ltac:(lia) F1 F3 G1 G2) as HBig.
      cbv zeta in HBig.
      destruct (slice_indices _ lo' hi' z) as [[a b] c];
        destruct (slice_indices _ lo' hi' (eff_step (Z.of_nat (length xs)) z)) as [[a' b'] c'].
      cbn [of_spec]. rewrite HBig. reflexivity.
  - (* None: stride 1 *)
    change (1 =? 0) with false. cbv iota.
    rewrite (slice_core xs lo hi st 1 Hn HS) by (unfold B; lia).
    destruct (int_or_none lo) as [lo'|]; [|reflexivity].
    destruct (int_or_none hi) as [hi'|]; reflexivity.
  - unfold slice_impl, slice_bounds. rewrite HS.
    destruct (int_or_none lo), (int_or_none hi); reflexivity.
Qed.

Lemma indices_clamp_lemma : forall n lo hi,
  0 <= n <= 2^61 ->
  indices lo hi n = clamped_bounds n lo hi.
Proof.
  intros n lo hi Hn. change (2^61) with B in Hn.
  unfold indices, clamped_bounds.
  rewrite (as_index_eq lo) by assumption.
  rewrite (as_index_eq hi) by assumption.
  destruct (int_or_none lo) as [lo'|]; [|reflexivity].
  destruct (int_or_none hi) as [hi'|].
  2:{ destruct lo'; reflexivity. }
  unfold slice_indices. change (1 <? 0) with false. cbv iota.
  unfold clamp0, adjust_bound, gadj, in_int64, min_int64, max_int64, B in *.
  destruct lo' as [zl|], hi' as [zh|];
    split_ifs; repeat f_equal; lia.
Qed.

Lemma indices_range_lemma : forall n lo hi s e,
  0 <= n -> indices lo hi n = Some (s, e) -> 0 <= s <= n /\ 0 <= e <= n.
Proof.
  intros n lo hi s e Hn H. unfold indices in H.
  destruct (as_index lo n 0) as [a|]; [|discriminate].
  destruct (as_index hi n n) as [b|]; [|discriminate].
  injection H as <- <-. unfold clamp0. split_ifs; lia.
Qed.

Lemma index_correct_lemma : forall (A : Type) (xs : list A) y,
  Z.of_nat (length xs) <= 2^31 -> get_index xs y = of_spec (index_spec xs y).
Proof.
  intros A xs y Hn. change (2^31) with 2147483648 in Hn.
  unfold get_index, norm_index, index_spec, as_int32.
  destruct y as [|z|]; try reflexivity.
  destruct (in_int32 z) eqn:Ez.
  - apply in_int32_bounds in Ez.
    destruct (z <? 0) eqn:E1.
    + rewrite wrap64_small by lia.
      destruct ((z + Z.of_nat (length xs) <? 0) || (z + Z.of_nat (length xs) >=? Z.of_nat (length xs))) eqn:E2.
      * destruct ((- Z.of_nat (length xs) <=? z) && (z <? Z.of_nat (length xs))) eqn:E3; [lia|reflexivity].
      * destruct ((- Z.of_nat (length xs) <=? z) && (z <? Z.of_nat (length xs))) eqn:E3; [|lia].
        replace (Z.of_nat (length xs) + z) with (z + Z.of_nat (length xs)) by lia.
        destruct (valid_index xs (z + Z.of_nat (length xs)) ltac:(lia)) as [x [-> ->]]. reflexivity.
    + destruct ((z <? 0) || (z >=? Z.of_nat (length xs))) eqn:E2.
      * destruct ((- Z.of_nat (length xs) <=? z) && (z <? Z.of_nat (length xs))) eqn:E3; [lia|reflexivity].
      * destruct ((- Z.of_nat (length xs) <=? z) && (z <? Z.of_nat (length xs))) eqn:E3; [|lia].
        destruct (valid_index xs z ltac:(lia)) as [x [-> ->]]. reflexivity.
  - destruct ((- Z.of_nat (length xs) <=? z) && (z <? Z.of_nat (length xs))) eqn:E3; [|reflexivity].
    unfold in_int32, min_int32, max_int32 in Ez. lia.
Qed.

Lemma set_nth_spec {A} (xs : list A) (j : nat) v :
  (j < length xs)%nat -> set_nth xs j v = Some (firstn j xs ++ v :: skipn (S j) xs).
Proof.
  revert j. induction xs as [|x r IH]; intros [|j] H; cbn in *; try lia; try reflexivity.
  rewrite IH by lia. reflexivity.
Qed.

Lemma setindex_correct_lemma : forall (A : Type) (xs : list A) y v,
  Z.of_nat (length xs) <= 2^31 -> set_index xs y v = of_spec (setindex_spec xs y v).
Proof.
  intros A xs y v Hn. change (2^31) with 2147483648 in Hn.
  unfold set_index, norm_index, setindex_spec, as_int32.
  destruct y as [|z|]; try reflexivity.
  destruct (in_int32 z) eqn:Ez.
  - apply in_int32_bounds in Ez.
    destruct (z <? 0) eqn:E1.
    + rewrite wrap64_small by lia.
      destruct ((z + Z.of_nat (length xs) <? 0) || (z + Z.of_nat (length xs) >=? Z.of_nat (length xs))) eqn:E2.
      * destruct ((- Z.of_nat (length xs) <=? z) && (z <? Z.of_nat (length xs))) eqn:E3; [lia|reflexivity].
      * destruct ((- Z.of_nat (length xs) <=? z) && (z <? Z.of_nat (length xs))) eqn:E3; [|lia].
        destruct (z + Z.of_nat (length xs) <? 0) eqn:E4; [lia|].
        rewrite set_nth_spec by lia. cbn [of_spec].
        replace (Z.of_nat (length xs) + z) with (z + Z.of_nat (length xs)) by lia. reflexivity.
    + destruct ((z <? 0) || (z >=? Z.of_nat (length xs))) eqn:E2.
      * destruct ((- Z.of_nat (length xs) <=? z) && (z <? Z.of_nat (length xs))) eqn:E3; [lia|reflexivity].
      * destruct ((- Z.of_nat (length xs) <=? z) && (z <? Z.of_nat (length xs))) eqn:E3; [|lia].
        rewrite E1. rewrite set_nth_spec by lia. reflexivity.
  - destruct ((- Z.of_nat (length xs) <=? z) && (z <? Z.of_nat (length xs))) eqn:E3; [|reflexivity].
    unfold in_int32, min_int32, max_int32 in Ez. lia.
Qed.

Lemma subrange_bounds n lo hi a b :
  0 <= n -> subrange n lo hi = Some (a, b) -> 0 <= a <= b /\ b <= n.
Proof.
  intros Hn. unfold subrange, clamped_bounds.
  destruct (int_or_none lo) as [lo'|]; [|discriminate].
  destruct (int_or_none hi) as [hi'|]; [|discriminate].
  unfold slice_indices. change (1 <? 0) with false. cbv iota.
  intros H. injection H as <- <-.
  unfold adjust_bound. destruct lo' as [zl|], hi' as [zh|]; split_ifs; lia.
Qed.


(* ---- signum64: the bit-level text of eval.go equals the sign used by the loops *)
Lemma signum_bits_sgn : forall x, in_int64 x = true -> signum_bits x = Z.sgn x.
Proof.
  intros x Hx. unfold in_int64, min_int64, max_int64 in Hx. unfold signum_bits.
  rewrite !Z.shiftr_div_pow2 by lia. change (2 ^ 63) with 9223372036854775808.
  destruct (Z.compare_spec x 0) as [->|Hneg|Hpos].
  - reflexivity.
  - (* x < 0 *)
    assert (Hq : x / 9223372036854775808 = -1).
    { symmetry. apply (Z.div_unique x 9223372036854775808 (-1) (x + 9223372036854775808)); lia. }
    rewrite Hq. change (wrapu64 (-1)) with 18446744073709551615.
    assert (Hw : wrapu64 (- x) = - x) by (unfold wrapu64; apply Z.mod_small; lia).
    rewrite Hw.
    destruct (Z.eq_dec x (-9223372036854775808)) as [->|Hne].
    + reflexivity.
    + rewrite (Z.div_small (- x)) by lia. rewrite Z.sgn_neg by lia. reflexivity.
  - (* x > 0 *)
    rewrite (Z.div_small x) by lia. change (wrapu64 0) with 0.
    assert (Hw : wrapu64 (- x) = 18446744073709551616 - x).
    { unfold wrapu64. symmetry. apply (Z.mod_unique (- x) 18446744073709551616 (-1)); lia. }
    rewrite Hw.
    assert (Hq : (18446744073709551616 - x) / 9223372036854775808 = 1).
    { symmetry. apply (Z.div_unique _ 9223372036854775808 1 (9223372036854775808 - x)); lia. }
    rewrite Hq. rewrite Z.sgn_pos by lia. reflexivity.
Qed.
