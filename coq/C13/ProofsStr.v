(* C13 -- proofs about the string methods (Str.v) against Spec.v part 2. *)
From Coq Require Import ZArith NArith List Bool Lia.
From Coq Require Import ZifyBool ZifyNat.
From SV Require Import Common.GoInt C13.Base C13.Index C13.Str C13.Spec C13.ProofsIndex C13.ProofsSlice.
Import ListNotations.
Open Scope Z_scope.

Definition sspec (m : meth) : smeth :=
  match m with
  | MCount => SCount | MFind => SFind | MRfind => SRfind | MIndex => SIndex | MRindex => SRindex
  | MStartswith => SStartswith | MEndswith => SEndswith | MSplit => SSplit | MRsplit => SRsplit
  | MSplitlines => SSplitlines | MPartition => SPartition | MRpartition => SRpartition
  | MStrip => SStrip | MLstrip => SLstrip | MRstrip => SRstrip | MReplace => SReplace | MJoin => SJoin
  | MRemoveprefix => SRemoveprefix | MRemovesuffix => SRemovesuffix | MUpper => SUpper | MLower => SLower
  | MCapitalize => SCapitalize | MTitle => STitle | MIsalnum => SIsalnum | MIsalpha => SIsalpha
  | MIsdigit => SIsdigit | MIslower => SIslower | MIsupper => SIsupper | MIsspace => SIsspace
  | MIstitle => SIstitle
  end.

(* ---- byte-string equality *)
Lemma bytes_eqb_eq (a b : bytes) : bytes_eqb a b = true <-> a = b.
Proof.
  unfold bytes_eqb. revert b. induction a as [|x a IH]; intros [|y b]; split; intros H; try reflexivity; try discriminate.
  - apply andb_true_iff in H. destruct H as [H1 H2]. apply N.eqb_eq in H1. apply IH in H2. subst. reflexivity.
  - injection H as -> ->. apply andb_true_iff. split; [apply N.eqb_refl|]. apply IH. reflexivity.
Qed.

Lemma bytes_eqb_refl a : bytes_eqb a a = true.
Proof. apply bytes_eqb_eq. reflexivity. Qed.

Lemma bool_eq_iff (a b : bool) : (a = true <-> b = true) -> a = b.
Proof. destruct a, b; intros [H1 H2]; try reflexivity; [symmetry; apply H1|apply H2]; reflexivity. Qed.

(* ---- HasPrefix / HasSuffix *)
Lemma has_prefix_starts s p : has_prefix s p = starts_with s p.
Proof.
  unfold starts_with. revert s. induction p as [|c p IH]; intros s.
  - destruct s; reflexivity.
  - destruct s as [|d s]; [reflexivity|].
    cbn [has_prefix length firstn]. rewrite IH.
    unfold bytes_eqb at 2. cbn. fold (bytes_eqb (firstn (length p) s) p).
    rewrite N.eqb_sym. reflexivity.
Qed.

Lemma has_prefix_iff s p : has_prefix s p = true <-> firstn (length p) s = p.
Proof. rewrite has_prefix_starts. unfold starts_with. apply bytes_eqb_eq. Qed.

Lemma has_prefix_app s p : has_prefix s p = true <-> exists t, s = p ++ t.
Proof.
  rewrite has_prefix_iff. split.
  - intros H. exists (skipn (length p) s). rewrite <- H at 1. symmetry. apply firstn_skipn.
  - intros [t ->]. rewrite firstn_app, firstn_all, Nat.sub_diag. cbn. apply app_nil_r.
Qed.

Lemma has_suffix_ends s p : has_suffix s p = ends_with s p.
Proof.
  apply bool_eq_iff. unfold has_suffix, ends_with.
  rewrite has_prefix_app, andb_true_iff, bytes_eqb_eq. split.
  - intros [t H]. apply (f_equal (@rev N)) in H. rewrite rev_involutive, rev_app_distr, rev_involutive in H.
    subst s. rewrite app_length. split; [apply Nat.leb_le; lia|].
    replace (length (rev t) + length p - length p)%nat with (length (rev t)) by lia.
    rewrite skipn_app, skipn_all, Nat.sub_diag. reflexivity.
  - intros [H1 H2]. apply Nat.leb_le in H1.
    exists (rev (firstn (length s - length p) s)).
    rewrite <- rev_app_distr. f_equal. rewrite <- H2 at 2. symmetry. apply firstn_skipn.
Qed.

(* ---- Index / LastIndex against the positional definition *)
Lemma occurs_at_prefix s sub i : occurs_at s sub i = has_prefix (skipn i s) sub.
Proof. unfold occurs_at. rewrite has_prefix_starts. reflexivity. Qed.

Lemma find_map_S (f : nat -> bool) (l : list nat) :
  find f (map S l) = option_map S (find (fun j => f (S j)) l).
Proof.
  induction l as [|x r IH]; cbn; [reflexivity|]. destruct (f (S x)); [reflexivity|exact IH].
Qed.

Lemma find_app' {A} (f : A -> bool) (a b : list A) :
  find f (a ++ b) = match find f a with Some x => Some x | None => find f b end.
Proof. induction a as [|x a IH]; cbn; [reflexivity|]. destruct (f x); [reflexivity|exact IH]. Qed.

Lemma has_prefix_len s p : has_prefix s p = true -> (length p <= length s)%nat.
Proof. intros H. apply has_prefix_app in H. destruct H as [t ->]. rewrite app_length. lia. Qed.

(* candidates beyond len(s) - len(sub) never match *)
Lemma find_positions s sub :
  find (occurs_at s sub) (seq 0 (S (length s))) = find_first s sub.
Proof.
  unfold find_first, positions.
  destruct (Nat.leb (length sub) (length s)) eqn:E.
  - apply Nat.leb_le in E.
    replace (S (length s)) with ((length s - length sub + 1) + length sub)%nat by lia.
    rewrite seq_app, find_app'.
    destruct (find (occurs_at s sub) (seq 0 (length s - length sub + 1))); [reflexivity|].
    cbn [Nat.add]. remember (length s - length sub + 1)%nat as m.
    assert (Hnone : forall l, (forall j, In j l -> (m <= j <= length s)%nat) -> find (occurs_at s sub) l = None).
    { induction l as [|j l IH]; intros Hl; cbn; [reflexivity|].
      destruct (occurs_at s sub j) eqn:Eo.
      - rewrite occurs_at_prefix in Eo. apply has_prefix_len in Eo.
        rewrite skipn_length in Eo. specialize (Hl j (or_introl eq_refl)). lia.
      - apply IH. intros j' Hj. apply Hl. right. exact Hj. }
    apply Hnone. intros j Hj. apply in_seq in Hj. lia.
  - apply Nat.leb_gt in E.
    assert (Hnone : forall l, find (occurs_at s sub) l = None).
    { induction l as [|j l IH]; cbn; [reflexivity|].
      destruct (occurs_at s sub j) eqn:Eo; [|exact IH].
      rewrite occurs_at_prefix in Eo. apply has_prefix_len in Eo. rewrite skipn_length in Eo. lia. }
    apply Hnone.
Qed.

Lemma index_from_spec sub : forall s i,
  index_from s sub i =
  match find (occurs_at s sub) (seq 0 (S (length s))) with
  | Some j => i + Z.of_nat j
  | None => -1
  end.
Proof.
  induction s as [|c t IH]; intros i.
  - cbn [index_from length seq find]. rewrite occurs_at_prefix. cbn [skipn].
    destruct (has_prefix [] sub); [lia|reflexivity].
  - cbn [index_from length]. rewrite <- cons_seq, <- seq_shift. cbn [find].
    rewrite occurs_at_prefix. cbn [skipn].
    destruct (has_prefix (c :: t) sub); [lia|].
    rewrite find_map_S, IH.
    replace (fun j => occurs_at (c :: t) sub (S j)) with (occurs_at t sub) by reflexivity.
    destruct (find (occurs_at t sub) (seq 0 (S (length t)))); cbn; [lia|reflexivity].
Qed.

Lemma index_spec_eq s sub :
  index s sub = match find_first s sub with Some j => Z.of_nat j | None => -1 end.
Proof. unfold index. rewrite index_from_spec, find_positions. destruct (find_first s sub); [lia|reflexivity]. Qed.

Lemma find_none_beyond s sub m l :
  m = (length s - length sub + 1)%nat -> (length sub <= length s)%nat ->
  (forall j, In j l -> (m <= j <= length s)%nat) -> find (occurs_at s sub) l = None.
Proof.
  intros Hm Hle. induction l as [|j l IH]; intros Hl; cbn; [reflexivity|].
  destruct (occurs_at s sub j) eqn:Eo.
  - rewrite occurs_at_prefix in Eo. apply has_prefix_len in Eo.
    rewrite skipn_length in Eo. specialize (Hl j (or_introl eq_refl)). lia.
  - apply IH. intros j' Hj. apply Hl. right. exact Hj.
Qed.

Lemma find_rev_positions s sub :
  find (occurs_at s sub) (rev (seq 0 (S (length s)))) = find_last s sub.
Proof.
  unfold find_last, positions.
  destruct (Nat.leb (length sub) (length s)) eqn:E.
  - apply Nat.leb_le in E.
    replace (S (length s)) with ((length s - length sub + 1) + length sub)%nat by lia.
    rewrite seq_app, rev_app_distr, find_app'.
    rewrite (find_none_beyond s sub (length s - length sub + 1)%nat); [reflexivity|reflexivity|exact E|].
    intros j Hj. apply in_rev in Hj. apply in_seq in Hj. lia.
  - apply Nat.leb_gt in E. cbn [rev find].
    assert (Hnone : forall l, find (occurs_at s sub) l = None).
    { induction l as [|j l IH]; cbn; [reflexivity|].
      destruct (occurs_at s sub j) eqn:Eo; [|exact IH].
      rewrite occurs_at_prefix in Eo. apply has_prefix_len in Eo. rewrite skipn_length in Eo. lia. }
    apply Hnone.
Qed.

Lemma last_index_from_spec sub : forall s i best,
  last_index_from s sub i best =
  match find (occurs_at s sub) (rev (seq 0 (S (length s)))) with
  | Some j => i + Z.of_nat j
  | None => best
  end.
Proof.
  induction s as [|c t IH]; intros i best.
  - cbn [last_index_from length seq rev app find]. rewrite occurs_at_prefix. cbn [skipn].
    destruct (has_prefix [] sub); [lia|reflexivity].
  - cbn [last_index_from length]. rewrite <- cons_seq, <- seq_shift.
    cbn [rev]. rewrite <- map_rev, find_app', find_map_S.
    replace (fun j => occurs_at (c :: t) sub (S j)) with (occurs_at t sub) by reflexivity.
    rewrite IH.
    destruct (find (occurs_at t sub) (rev (seq 0 (S (length t))))); cbn [option_map]; [lia|].
    cbn [find]. rewrite occurs_at_prefix. cbn [skipn].
    destruct (has_prefix (c :: t) sub); [lia|reflexivity].
Qed.

Lemma last_index_spec_eq s sub :
  last_index s sub = match find_last s sub with Some j => Z.of_nat j | None => -1 end.
Proof.
  unfold last_index. rewrite last_index_from_spec, find_rev_positions.
  destruct (find_last s sub); [lia|reflexivity].
Qed.

Lemma find_first_bound s sub j : find_first s sub = Some j -> (j + length sub <= length s)%nat.
Proof.
  unfold find_first. intros H. apply find_some in H. destruct H as [Hin Ho].
  rewrite occurs_at_prefix in Ho. apply has_prefix_len in Ho. rewrite skipn_length in Ho.
  unfold positions in Hin. destruct (Nat.leb (length sub) (length s)) eqn:E; [|contradiction].
  apply in_seq in Hin. apply Nat.leb_le in E. lia.
Qed.
Lemma find_last_bound s sub j : find_last s sub = Some j -> (j + length sub <= length s)%nat.
Proof.
  unfold find_last. intros H. apply find_some in H. destruct H as [Hin Ho].
  apply in_rev in Hin.
  unfold positions in Hin. destruct (Nat.leb (length sub) (length s)) eqn:E; [|contradiction].
  apply in_seq in Hin. apply Nat.leb_le in E. lia.
Qed.

(* ---- the sub-range idiom *)
Lemma sub_range_spec recv a b :
  blen recv <= 2^61 ->
  sub_range recv a b =
  match sub_of recv (a, b) with
  | Some (off, t) => Some (Z.of_nat off, t)
  | None => None
  end.
Proof.
  intros Hn. unfold sub_range, sub_of, subrange, blen in *. cbn [fst snd].
  rewrite indices_clamp_lemma by lia.
  destruct (clamped_bounds (Z.of_nat (length recv)) a b) as [[s e]|] eqn:Ec; [|reflexivity].
  assert (Hsub : subrange (Z.of_nat (length recv)) a b = Some (s, Z.max s e)).
  { unfold subrange. rewrite Ec. reflexivity. }
  apply subrange_bounds in Hsub; [|lia].
  f_equal. f_equal; [lia|].
  unfold substr. destruct (s <? e) eqn:E.
  - replace (Z.max s e) with e by lia. reflexivity.
  - replace (Z.max s e) with s by lia. replace (Z.to_nat (s - s)) with 0%nat by lia. reflexivity.
Qed.

Lemma args_range (x : val) rest :
  (arity (x :: rest) 1 3 = true /\ opt_range rest = Some (arg_at (x :: rest) 1, arg_at (x :: rest) 2)) \/
  (arity (x :: rest) 1 3 = false /\ opt_range rest = None).
Proof.
  destruct rest as [|a [|b [|c r]]]; [left|left|left|right]; split; reflexivity.
Qed.

(* ---- find / rfind / index / rindex *)
Lemma find_correct_lemma : forall recv args (allow_error last : bool),
  blen recv <= 2^61 ->
  string_find_impl recv args allow_error last = of_spec (spec_find recv args last (negb allow_error)).
Proof.
  intros recv args allow last Hn. unfold string_find_impl, spec_find.
  destruct args as [|x rest]; [reflexivity|].
  destruct (args_range x rest) as [[Ha Hr] | [Ha Hr]]; rewrite Ha, Hr; cbn [negb].
  2:{ destruct x; reflexivity. }
  destruct x; try reflexivity. cbn [str_at nth_error].
  rewrite sub_range_spec by assumption.
  destruct (sub_of recv (arg_at (VStr s :: rest) 1, arg_at (VStr s :: rest) 2)) as [[off t]|] eqn:Es; [|reflexivity].
  assert (Hoff : Z.of_nat off <= blen recv /\ (length t <= length recv)%nat).
  { unfold sub_of in Es. destruct (subrange _ _ _) as [[a b]|] eqn:Esub; [|discriminate].
    apply subrange_bounds in Esub; [|lia]. injection Es as <- <-. unfold blen.
    rewrite firstn_length, skipn_length. lia. }
  destruct last.
  - rewrite last_index_spec_eq.
    destruct (find_last t s) as [j|] eqn:Ef.
    + apply find_last_bound in Ef.
      destruct (Z.of_nat j <? 0) eqn:E; [lia|].
      rewrite wrap64_small by (unfold blen in *; lia).
      cbn [of_spec]. do 2 f_equal. lia.
    + cbn. destruct allow; reflexivity.
  - rewrite index_spec_eq.
    destruct (find_first t s) as [j|] eqn:Ef.
    + apply find_first_bound in Ef.
      destruct (Z.of_nat j <? 0) eqn:E; [lia|].
      rewrite wrap64_small by (unfold blen in *; lia).
      cbn [of_spec]. do 2 f_equal. lia.
    + cbn. destruct allow; reflexivity.
Qed.

(* ---- startswith / endswith *)
Lemma any_fix_spec f g t l :
  (forall p, f t p = g t p) ->
  any_fix f t l = of_spec (any_affix g t l).
Proof.
  intros Hfg. induction l as [|v r IH]; cbn; [reflexivity|].
  destruct v; try reflexivity. rewrite Hfg. destruct (g t s); [reflexivity|exact IH].
Qed.

Lemma startswith_correct_lemma : forall recv args (ends : bool),
  blen recv <= 2^61 ->
  string_startswith recv args ends =
  of_spec (spec_affix recv args (if ends then ends_with else starts_with)).
Proof.
  intros recv args ends Hn. unfold string_startswith, spec_affix.
  destruct args as [|x rest]; [reflexivity|].
  destruct (args_range x rest) as [[Ha Hr] | [Ha Hr]]; rewrite Ha, Hr; cbn [negb].
  2:{ reflexivity. }
  change (nth_error (x :: rest) 0) with (Some x). cbv iota.
  fold (arg_at (x :: rest) 1). fold (arg_at (x :: rest) 2).
  pose proof (sub_range_spec recv (arg_at (x :: rest) 1) (arg_at (x :: rest) 2) Hn) as HS.
  unfold sub_range in HS.
  destruct (indices (arg_at (x :: rest) 1) (arg_at (x :: rest) 2) (blen recv)) as [[s e]|] eqn:Ei.
  - destruct (sub_of recv (arg_at (x :: rest) 1, arg_at (x :: rest) 2)) as [[off t]|]; [|discriminate].
    injection HS as Hoff Ht.
    assert (Hsub : substr recv s (if e <? s then s else e) = t).
    { rewrite <- Ht. unfold substr. destruct (s <? e) eqn:E1; destruct (e <? s) eqn:E2; try lia; try reflexivity.
      - replace (Z.to_nat (s - s)) with 0%nat by lia. reflexivity.
      - assert (e = s) by lia. subst e. replace (Z.to_nat (s - s)) with 0%nat by lia. reflexivity. }
    cbv zeta. rewrite Hsub.
    destruct x; try reflexivity.
    + destruct ends; cbn [of_spec]; do 2 f_equal; [apply has_suffix_ends|apply has_prefix_starts].
    + destruct ends; apply any_fix_spec; intros p; [apply has_suffix_ends|apply has_prefix_starts].
  - destruct (sub_of recv (arg_at (x :: rest) 1, arg_at (x :: rest) 2)) as [[off t]|]; [discriminate|].
    reflexivity.
Qed.

(* ---- partition / rpartition *)
Lemma partition_correct_lemma : forall recv args (right : bool),
  string_partition recv args right = of_spec (spec_partition recv args right).
Proof.
  intros recv args right. unfold string_partition, spec_partition, arity.
  destruct args as [|x [|y r]]; try reflexivity.
  2:{ cbn. destruct x; try reflexivity. destruct s; reflexivity. }
  cbn [length Nat.leb andb negb str_at nth_error].
  destruct x; try reflexivity.
  destruct s as [|c sep']; [reflexivity|].
  remember (c :: sep') as sep.
  destruct right.
  - rewrite last_index_spec_eq. destruct (find_last recv sep) as [j|] eqn:Ef.
    + apply find_last_bound in Ef.
      destruct (Z.of_nat j <? 0) eqn:E; [lia|].
      cbn [of_spec]. unfold substr, blen.
      replace (Z.to_nat (Z.of_nat j - 0)) with j by lia.
      replace (Z.to_nat (Z.of_nat j + Z.of_nat (length sep))) with (j + length sep)%nat by lia.
      change (Z.to_nat 0) with 0%nat. cbn [skipn].
      rewrite (firstn_all2 (skipn (j + length sep) recv)) by (rewrite skipn_length; lia).
      reflexivity.
    + reflexivity.
  - rewrite index_spec_eq. destruct (find_first recv sep) as [j|] eqn:Ef.
    + apply find_first_bound in Ef.
      destruct (Z.of_nat j <? 0) eqn:E; [lia|].
      cbn [of_spec]. unfold substr, blen.
      replace (Z.to_nat (Z.of_nat j - 0)) with j by lia.
      replace (Z.to_nat (Z.of_nat j + Z.of_nat (length sep))) with (j + length sep)%nat by lia.
      change (Z.to_nat 0) with 0%nat. cbn [skipn].
      rewrite (firstn_all2 (skipn (j + length sep) recv)) by (rewrite skipn_length; lia).
      reflexivity.
    + reflexivity.
Qed.

(* ---- removeprefix / removesuffix *)
Lemma removefix_correct_lemma : forall recv args (suffix : bool),
  string_removefix recv args suffix =
  of_spec (spec_string_method (if suffix then SRemovesuffix else SRemoveprefix) recv args).
Proof.
  intros recv args suffix. unfold string_removefix, arity.
  destruct args as [|x [|y r]]; try (destruct suffix; reflexivity).
  2:{ destruct suffix; cbn; destruct x; reflexivity. }
  cbn [length Nat.leb andb negb str_at nth_error].
  destruct x; try (destruct suffix; reflexivity).
  destruct suffix; cbn [spec_string_method of_spec]; do 2 f_equal.
  - unfold trim_suffix. rewrite has_suffix_ends. reflexivity.
  - unfold trim_prefix. rewrite has_prefix_starts. reflexivity.
Qed.

(* ---- strip / lstrip / rstrip.  The full statement (for every argument tuple)
   is false on the unchanged tree: an explicit empty cutset strips white space
   (pinned by starlark/testdata/string.star); see strip_refuted below. *)
Lemma drop_while_skip p s : drop_while p s = skip_leading p s.
Proof. induction s as [|c t IH]; cbn; [reflexivity|]. destruct (p c); [exact IH|reflexivity]. Qed.

Lemma is_space_ws c : is_space c = is_ws c.
Proof.
  unfold is_space, is_ws.
  destruct (N.eqb c 32) eqn:E32; [rewrite !orb_true_r; reflexivity|].
  cbn [orb]. rewrite orb_false_r.
  apply bool_eq_iff. rewrite andb_true_iff, !orb_true_iff, !N.leb_le, !N.eqb_eq. lia.
Qed.

Lemma drop_while_ext p q s : (forall c, p c = q c) -> drop_while p s = drop_while q s.
Proof. intros H. induction s as [|c t IH]; cbn; [reflexivity|]. rewrite H, IH. reflexivity. Qed.

Lemma strip_pred_eq chars :
  chars <> Some [] ->
  forall c, (match chars with None | Some [] => is_space | Some set => in_set set end) c = strip_pred chars c.
Proof.
  intros Hne c. destruct chars as [[|d set]|]; [contradiction| |].
  - reflexivity.
  - apply is_space_ws.
Qed.

Lemma strip_correct_partial_lemma : forall recv args (which : nat),
  (which <= 2)%nat ->
  args <> [VStr []] ->
  string_strip recv args which =
  of_spec (spec_strip recv args (match which with 2%nat => false | _ => true end)
                                (match which with 1%nat => false | _ => true end)).
Proof.
  intros recv args which Hw Hne. unfold string_strip, spec_strip, arity.
  destruct args as [|x [|y r]].
  - cbn [length Nat.leb andb negb str_at nth_error of_spec strip_pred].
    assert (HL : forall t, trim_left is_space t = skip_leading is_ws t).
    { intros t. unfold trim_left. rewrite (drop_while_ext is_space is_ws) by apply is_space_ws. apply drop_while_skip. }
    assert (HR : forall t, trim_right is_space t = skip_trailing is_ws t).
    { intros t. unfold trim_right, skip_trailing. rewrite (drop_while_ext is_space is_ws) by apply is_space_ws.
      rewrite drop_while_skip. reflexivity. }
    destruct which as [|[|[|w]]]; [| | |lia]; rewrite ?HR, ?HL; reflexivity.
  - cbn [length Nat.leb andb negb str_at nth_error].
    destruct x; try reflexivity.
    destruct s as [|d set]; [contradiction Hne; reflexivity|].
    cbn [of_spec]. unfold trim_left, trim_right, skip_trailing. rewrite !drop_while_skip.
    destruct which as [|[|[|w]]]; [| | |lia]; reflexivity.
  - cbn. destruct x; reflexivity.
Qed.

Lemma strip_refuted_lemma :
  exists recv args which,
    string_strip recv args which <>
    of_spec (spec_strip recv args (match which with 2%nat => false | _ => true end)
                                  (match which with 1%nat => false | _ => true end)).
Proof. exists [32; 97; 32]%N, [VStr []], 0%nat. vm_compute. discriminate. Qed.

(* ---- join *)
Lemma join_loop_false recv l :
  join_loop recv l false =
  match all_strs l with Some ps => Ok (flat_map (fun p => recv ++ p) ps) | None => Err end.
Proof.
  induction l as [|v r IH]; cbn; [reflexivity|].
  destruct v; try reflexivity. rewrite IH.
  destruct (all_strs r); [|reflexivity]. cbn. rewrite app_assoc. reflexivity.
Qed.

Lemma concat_with_cons sep p r : concat_with sep (p :: r) = p ++ flat_map (fun q => sep ++ q) r.
Proof.
  revert p. induction r as [|q r IH]; intros p; cbn; [symmetry; apply app_nil_r|].
  cbn in IH. rewrite IH. rewrite <- !app_assoc. reflexivity.
Qed.

Lemma join_correct_lemma : forall recv args,
  string_join recv args = of_spec (spec_string_method SJoin recv args).
Proof.
  intros recv args. unfold string_join, arity. cbn [spec_string_method].
  destruct args as [|v [|w r]]; try reflexivity.
  cbn [length Nat.leb andb negb nth_error].
  replace (iterable_elems v) with (elems_of v) by (destruct v; reflexivity).
  destruct (elems_of v) as [l|]; [|reflexivity].
  destruct l as [|x l]; [reflexivity|].
  cbn [join_loop all_strs]. destruct x; try reflexivity.
  rewrite join_loop_false. destruct (all_strs l) as [ps|]; [|reflexivity].
  cbn [of_spec app]. rewrite concat_with_cons. reflexivity.
Qed.

(* ---- case mapping and predicates *)
Lemma cased_to_lower c : is_cased (to_lower c) = is_cased c.
Proof.
  unfold is_cased, is_letter, to_lower, is_upper, is_lower.
  destruct (N.leb 65 c && N.leb c 90)%N eqn:E.
  - apply bool_eq_iff. rewrite !orb_true_iff, !andb_true_iff, !N.leb_le.
    apply andb_true_iff in E. rewrite !N.leb_le in E. lia.
  - rewrite ?E. reflexivity.
Qed.
Lemma cased_to_upper c : is_cased (to_upper c) = is_cased c.
Proof.
  unfold is_cased, is_letter, to_upper, is_upper, is_lower.
  destruct (N.leb 97 c && N.leb c 122)%N eqn:E.
  - apply bool_eq_iff. rewrite !orb_true_iff, !andb_true_iff, !N.leb_le.
    apply andb_true_iff in E. rewrite !N.leb_le in E. lia.
  - rewrite ?E. reflexivity.
Qed.

Lemma title_loop_spec s : forall prev, title_loop s prev = title_map prev s.
Proof.
  induction s as [|c t IH]; intros prev; cbn [title_loop title_map]; [reflexivity|].
  assert (Hc : is_cased (if prev then to_lower c else to_upper c) = cased_c c).
  { destruct prev; [apply cased_to_lower|apply cased_to_upper]. }
  rewrite Hc, IH. f_equal.
  unfold cased_c, to_lower, to_upper, down, up, is_upper, is_lower, upper_c, lower_c.
  destruct (N.leb 65 c && N.leb c 90)%N eqn:E1; destruct (N.leb 97 c && N.leb c 122)%N eqn:E2;
    destruct prev; cbn [orb]; try reflexivity;
    apply andb_true_iff in E1, E2; rewrite !N.leb_le in E1, E2; lia.
Qed.

Lemma all_nonempty_spec p s : all_nonempty p s = nonempty_all p s.
Proof. unfold all_nonempty, nonempty_all. destruct s; [apply andb_false_r|apply andb_true_r]. Qed.

Lemma eq_lower_no_upper s : bytes_eqb s (map to_lower s) = negb (existsb upper_c s).
Proof.
  induction s as [|c t IH]; [reflexivity|].
  unfold bytes_eqb. cbn [map existsb]. fold (bytes_eqb t (map to_lower t)). rewrite IH.
  unfold to_lower, is_upper, upper_c.
  destruct (N.leb 65 c && N.leb c 90)%N eqn:E.
  - cbn [orb negb]. replace (N.eqb c (c + 32)) with false; [reflexivity|].
    symmetry. apply N.eqb_neq. lia.
  - rewrite N.eqb_refl. reflexivity.
Qed.
Lemma eq_upper_no_lower s : bytes_eqb s (map to_upper s) = negb (existsb lower_c s).
Proof.
  induction s as [|c t IH]; [reflexivity|].
  unfold bytes_eqb. cbn [map existsb]. fold (bytes_eqb t (map to_upper t)). rewrite IH.
  unfold to_upper, is_lower, lower_c.
  destruct (N.leb 97 c && N.leb c 122)%N eqn:E.
  - cbn [orb negb]. replace (N.eqb c (c - 32)) with false; [reflexivity|].
    symmetry. apply N.eqb_neq. apply andb_true_iff in E. rewrite !N.leb_le in E. lia.
  - rewrite N.eqb_refl. reflexivity.
Qed.

Lemma istitle_loop_spec s : forall cased prev,
  istitle_loop s cased prev = title_ok prev s && (cased || existsb cased_c s).
Proof.
  induction s as [|c t IH]; intros cased prev; cbn [istitle_loop title_ok existsb].
  - rewrite orb_false_r. reflexivity.
  - unfold cased_c at 1 2 3. unfold is_upper, is_lower, upper_c, lower_c.
    destruct (N.leb 65 c && N.leb c 90)%N eqn:E1.
    + cbn [orb]. destruct prev; cbn [negb Bool.eqb andb]; [reflexivity|].
      rewrite IH. rewrite !orb_true_r. reflexivity.
    + destruct (N.leb 97 c && N.leb c 122)%N eqn:E2.
      * cbn [orb]. destruct prev; cbn [negb Bool.eqb andb]; [|reflexivity].
        rewrite IH. rewrite !orb_true_r. reflexivity.
      * cbn [orb andb]. rewrite IH. reflexivity.
Qed.

Lemma forallb_ext' {A} (f g : A -> bool) l : (forall x, f x = g x) -> forallb f l = forallb g l.
Proof. intros H. induction l as [|x r IH]; cbn; [reflexivity|]. rewrite H, IH. reflexivity. Qed.

Lemma case_methods_correct_lemma : forall m recv args,
  match m with
  | MUpper | MLower | MCapitalize | MTitle | MIsalnum | MIsalpha | MIsdigit
  | MIslower | MIsupper | MIsspace | MIstitle => True
  | _ => False
  end ->
  string_method m recv args = of_spec (spec_string_method (sspec m) recv args).
Proof.
  intros m recv args Hm.
  destruct m; try contradiction; cbn [string_method sspec spec_string_method];
    (destruct args as [|a r]; [|reflexivity]); cbn [noargs no_args of_spec]; do 2 f_equal.
  - apply title_loop_spec.
  - apply all_nonempty_spec.
  - apply all_nonempty_spec.
  - apply all_nonempty_spec.
  - f_equal. apply eq_lower_no_upper.
  - f_equal. apply eq_upper_no_lower.
  - rewrite all_nonempty_spec. unfold nonempty_all. destruct recv; [reflexivity|].
    apply forallb_ext'. intros c. apply is_space_ws.
  - rewrite istitle_loop_spec. cbn [orb]. apply andb_comm.
Qed.

(* ---- all string methods proved so far, as one statement *)
Definition proved_method (m : meth) : bool :=
  match m with
  | MCount | MSplit | MRsplit | MSplitlines | MReplace => false
  | _ => true
  end.
Definition strip_method (m : meth) : bool :=
  match m with MStrip | MLstrip | MRstrip => true | _ => false end.

Lemma string_methods_correct_partial_lemma : forall m recv args,
  proved_method m = true ->
  (strip_method m = true -> args <> [VStr []]) ->
  blen recv <= 2^61 ->
  string_method m recv args = of_spec (spec_string_method (sspec m) recv args).
Proof.
  intros m recv args Hp Hs Hn.
  destruct m; try discriminate Hp;
    try (apply case_methods_correct_lemma; exact I); cbn [string_method sspec].
  - apply (find_correct_lemma recv args true false Hn).
  - apply (find_correct_lemma recv args true true Hn).
  - apply (find_correct_lemma recv args false false Hn).
  - apply (find_correct_lemma recv args false true Hn).
  - apply (startswith_correct_lemma recv args false Hn).
  - apply (startswith_correct_lemma recv args true Hn).
  - apply (partition_correct_lemma recv args false).
  - apply (partition_correct_lemma recv args true).
  - apply (strip_correct_partial_lemma recv args 0); [lia|apply Hs; reflexivity].
  - apply (strip_correct_partial_lemma recv args 1); [lia|apply Hs; reflexivity].
  - apply (strip_correct_partial_lemma recv args 2); [lia|apply Hs; reflexivity].
  - apply join_correct_lemma.
  - apply (removefix_correct_lemma recv args false).
  - apply (removefix_correct_lemma recv args true).
Qed.
