(* C13 -- property theorems only.  Each is closed by `exact <lemma>`; axioms are
   printed by the audit step of bin/check (Print Assumptions per theorem). *)
From Coq Require Import ZArith NArith Bool List.
From SV Require Import Common.GoInt C13.Base C13.Index C13.Str C13.Seq C13.Spec C13.ProofsIndex.
Import ListNotations.
Open Scope Z_scope.

(* x[lo:hi:step] for a string, bytes, list or tuple x of ANY length, every
   operand None / an int in the AsInt32 domain / a non-int, every stride:
   the Go computation (slice -> indices/asIndex -> the Slice loop run with fuel
   len(x)+1, or the step = 1 fast path) returns exactly Python's slice -- the
   elements at slice.indices' arithmetic progression -- never panics, never
   runs out of fuel; step = 0 and non-int operands fail on both sides. *)
Theorem slice_correct :
  forall (A : Type) (xs : list A) lo hi st,
    Z.of_nat (length xs) <= 2^61 ->
    small_arg lo = true -> small_arg hi = true -> small_arg st = true ->
    slice_impl xs lo hi st = of_spec (slice_spec xs lo hi st).
Proof. exact slice_correct_lemma. Qed.

(* outside the AsInt32 domain the code returns an error *)
Theorem slice_rejects_outside_int32 :
  forall (A : Type) (xs : list A) lo hi st,
    small_arg lo && small_arg hi && small_arg st = false -> slice_impl xs lo hi st = Err.
Proof. exact slice_rejects_outside_int32_lemma. Qed.

Theorem index_correct :
  forall (A : Type) (xs : list A) y,
    Z.of_nat (length xs) <= 2^31 -> get_index xs y = of_spec (index_spec xs y).
Proof. exact index_correct_lemma. Qed.

Theorem setindex_correct :
  forall (A : Type) (xs : list A) y v,
    Z.of_nat (length xs) <= 2^31 -> set_index xs y v = of_spec (setindex_spec xs y v).
Proof. exact setindex_correct_lemma. Qed.

(* the (start, end) normalisation shared by find/count/startswith/list.index *)
Theorem indices_clamp :
  forall n lo hi,
    0 <= n <= 2^61 -> small_arg lo = true -> small_arg hi = true ->
    indices lo hi n = clamped_bounds n lo hi.
Proof. exact indices_clamp_lemma. Qed.

(* Non-vacuity *)
Example slice_premises_hold :
  let xs := [98; 97; 110; 97; 110; 97]%N in
  Z.of_nat (length xs) <= 2^61 /\ small_arg (AInt 4) = true /\ small_arg ANone = true /\ small_arg (AInt (-2)) = true /\
  slice_impl xs (AInt 4) ANone (AInt (-2)) = Ok [110; 110; 98]%N /\
  slice_spec xs (AInt 4) ANone (AInt (-2)) = Some [110; 110; 98]%N /\
  slice_impl xs ANone ANone (AInt 0) = Err /\
  get_index xs (AInt (-6)) = Ok 98%N /\ get_index xs (AInt 6) = Err.
Proof. vm_compute. repeat split; intro; discriminate. Qed.
