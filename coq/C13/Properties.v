(* C13 -- property theorems only.  Each is closed by `exact <lemma>`; axioms are
   printed by the audit step of bin/check (Print Assumptions per theorem).
   History.v (refutations about the code before the fix: commits) is required
   so that it is compiled and audited with the rest. *)
From Coq Require Import ZArith NArith Bool List.
From SV Require Import Common.GoInt C13.Base C13.Index C13.Str C13.Seq C13.Spec.
From SV Require Import C13.ProofsIndex C13.ProofsSlice.
From SV Require C13.History.
Import ListNotations.
Open Scope Z_scope.

(* x[lo:hi:step] for a string, bytes, list or tuple x of ANY length, every
   operand None / an int of any size / a non-int, every stride: the Go
   computation (slice -> indices/asIndex -> the Slice loop run with fuel
   len(x)+1, or the step = 1 fast path) returns exactly Python's slice -- the
   elements at slice.indices' arithmetic progression; it never panics and
   never runs out of fuel (both would be other constructors of `outcome`);
   step = 0 and non-int operands fail on both sides.  The bound 2^61 on the
   length only keeps Go's int arithmetic away from 2^63. *)
Theorem slice_correct :
  forall (A : Type) (xs : list A) lo hi st,
    Z.of_nat (length xs) <= 2^61 ->
    slice_impl xs lo hi st = of_spec (slice_spec xs lo hi st).
Proof. exact slice_correct_lemma. Qed.

(* x[i]: -n <= i < n, n added to a negative i; anything else fails *)
Theorem index_correct :
  forall (A : Type) (xs : list A) y,
    Z.of_nat (length xs) <= 2^31 -> get_index xs y = of_spec (index_spec xs y).
Proof. exact index_correct_lemma. Qed.

(* x[i] = v on a list *)
Theorem setindex_correct :
  forall (A : Type) (xs : list A) y v,
    Z.of_nat (length xs) <= 2^31 -> set_index xs y v = of_spec (setindex_spec xs y v).
Proof. exact setindex_correct_lemma. Qed.

(* the (start, end) normalisation shared by find/count/startswith/list.index:
   defaults, n added to negatives, truncation to [0, n] -- for operands of any size *)
Theorem indices_clamp :
  forall n lo hi, 0 <= n <= 2^61 -> indices lo hi n = clamped_bounds n lo hi.
Proof. exact indices_clamp_lemma. Qed.

(* Non-vacuity *)
Example slice_premises_hold :
  let xs := [98; 97; 110; 97; 110; 97]%N in
  Z.of_nat (length xs) <= 2^61 /\
  slice_impl xs (AInt 4) ANone (AInt (-2)) = Ok [110; 110; 98]%N /\
  slice_spec xs (AInt 4) ANone (AInt (-2)) = Some [110; 110; 98]%N /\
  slice_impl xs ANone (AInt (2^100)) (AInt (2^70)) = Ok [98]%N /\
  slice_impl xs ANone ANone (AInt 0) = Err /\
  get_index xs (AInt (-6)) = Ok 98%N /\ get_index xs (AInt 6) = Err /\
  indices (AInt (-2)) (AInt (2^80)) 6 = Some (4, 6).
Proof. vm_compute. repeat split; intro; discriminate. Qed.
