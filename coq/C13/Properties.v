(* C13 -- property theorems only.  Each is closed by `exact <lemma>`; axioms are
   printed by the audit step of bin/check (Print Assumptions per theorem).
   History.v (refutations about the code before the fix: commits) is required
   so that it is compiled and audited with the rest. *)
From Coq Require Import ZArith NArith Bool List.
From SV Require Import Common.GoInt C13.Base C13.Index C13.Str C13.Seq C13.Spec.
From SV Require Import C13.ProofsIndex C13.ProofsSlice C13.ProofsSeq C13.ProofsStr C13.ProofsStr2 C13.ProofsStr3 C13.ProofsRange C13.ProofsSort.
From SV Require C13.History.
From SV Require Import C13.FormatBase C13.Format C13.FormatSpec C13.ProofsFormat2.
From SV Require Import C13.Interp C13.InterpSpec C13.ProofsInterp.
Import ListNotations.
Open Scope Z_scope.

(* x[lo:hi:step] for a string, bytes, list or tuple x of ANY length, every
   operand None / an int of any size / a non-int, every stride: the Go
   computation (slice -> indices/asIndex -> the Slice loop run with fuel
   len(x)+1, or the step = 1 fast path) returns exactly Python's slice -- the
   elements at slice.indices' arithmetic progression; it never panics and
   never runs out of fuel (both would be other constructors of `outcome`);
   step = 0 and non-int operands fail on both sides.  The bound 2^61 on the
   length only keeps Go's int arithmetic away from 2^63. *)
Theorem slice_correct :
  forall (A : Type) (xs : list A) lo hi st,
    Z.of_nat (length xs) <= 2^61 ->
    slice_impl xs lo hi st = of_spec (slice_spec xs lo hi st).
Proof. exact slice_correct_lemma. Qed.

(* signum64(x) = int(uint64(x>>63) | uint64(-x)>>63), the bit-level text of
   eval.go that the Slice loops use for their exit test, is the sign of x on
   every int64 (the models use Z.sgn) *)
Theorem signum64_is_sign :
  forall x, in_int64 x = true -> signum_bits x = Z.sgn x.
Proof. exact signum_bits_sgn. Qed.

(* x[i]: -n <= i < n, n added to a negative i; anything else fails *)
Theorem index_correct :
  forall (A : Type) (xs : list A) y,
    Z.of_nat (length xs) <= 2^31 -> get_index xs y = of_spec (index_spec xs y).
Proof. exact index_correct_lemma. Qed.

(* x[i] = v on a list *)
Theorem setindex_correct :
  forall (A : Type) (xs : list A) y v,
    Z.of_nat (length xs) <= 2^31 -> set_index xs y v = of_spec (setindex_spec xs y v).
Proof. exact setindex_correct_lemma. Qed.

(* the (start, end) normalisation shared by find/count/startswith/list.index:
   defaults, n added to negatives, truncation to [0, n] -- for operands of any size *)
Theorem indices_clamp :
  forall n lo hi, 0 <= n <= 2^61 -> indices lo hi n = clamped_bounds n lo hi.
Proof. exact indices_clamp_lemma. Qed.

(* Ranges.  A range value with 32-bit parameters (range arithmetic beyond that
   is property C10) is the list of its elements start, start+step, ...; slicing
   it -- rangeValue.Slice computes a new (start, stop, step, len) with Go int
   arithmetic and the unsigned division of rangeLen -- gives exactly the range
   whose elements are the Python slice of the element list, for every operand
   triple of any size; it fails exactly when the slice expression must fail. *)
Theorem range_elems_correct :
  forall r, rng_ok r -> range_elems r = range_spec (r_start r) (r_stop r) (r_step r).
Proof. exact range_elems_spec_lemma. Qed.

Theorem range_slice_correct :
  forall r lo hi st,
    rng_ok r ->
    match range_slice_impl r lo hi st with
    | Ok r' => slice_spec (range_elems r) lo hi st = Some (range_elems r')
    | Err => slice_spec (range_elems r) lo hi st = None
    | _ => False
    end.
Proof. exact range_slice_correct_lemma. Qed.

Theorem range_index_correct :
  forall r y,
    rng_ok r -> r_len r <= 2^31 ->
    range_get_index r y = of_spec (index_spec (range_elems r) y).
Proof. exact range_index_correct_lemma. Qed.

(* Every list method, every receiver, every argument tuple (wrong arity, wrong
   types, None, integers of any size): result and the list afterwards equal
   the specification, or both fail.  index: sub-range by the slice conventions;
   insert: clamped position; pop: the -n <= i < n rule; remove: first equal. *)
Theorem list_methods_correct :
  forall m recv args,
    zlen recv <= 2^61 ->
    list_method m recv args = of_spec (spec_list_method (lspec m) recv args).
Proof. exact list_methods_correct_lemma. Qed.

(* reversed / zip (shortest argument) / enumerate (exact start + i) / any / all,
   for every argument tuple *)
Theorem builtins_correct :
  forall f args, builtin f args = of_spec (spec_builtin (bspec f) args).
Proof. exact builtins_correct_lemma. Qed.

(* sorted(x, key=, reverse=): with the keys k_0..k_(n-1) already computed and
   the elements named by their positions, the implementation (a stable sort
   under Less, or under the flipped Less for reverse=True) returns THE list that
   the specification describes -- all positions, ordered by key (descending
   when reversed), ties in input order in both directions: the output
   satisfies the relation sorted_ok, and sorted_ok has no other solution. *)
Theorem sorted_correct :
  forall reverse keys out,
    sorted_ok reverse keys out = true <-> out = sorted_impl reverse keys.
Proof.
  intros reverse keys out. split.
  - exact (sorted_unique_lemma reverse keys out).
  - intros ->. exact (sorted_sound_lemma reverse keys).
Qed.

(* min / max (with or without key=): fails exactly on an empty sequence,
   otherwise returns the first position whose key is extremal; that position
   is unique. *)
Theorem minmax_correct :
  forall is_max keys,
    match minmax_impl is_max keys with
    | Ok r => minmax_spec_ok is_max keys (Some r) = true
    | Err => minmax_spec_ok is_max keys None = true
    | _ => False
    end.
Proof. exact minmax_correct_lemma. Qed.

Theorem minmax_unique :
  forall is_max keys r r',
    minmax_ok is_max keys r = true -> minmax_ok is_max keys r' = true -> r = r'.
Proof. exact minmax_unique_lemma. Qed.

(* s * n: n <= 0 (of any size) gives the empty sequence, the 2^30-element cap
   and counts beyond 32 bits fail, otherwise n copies *)
Theorem repeat_correct :
  forall (A : Type) (xs : list A) n,
    zlen xs <= 2^61 -> repeat_impl xs n = of_spec (repeat_spec xs n).
Proof. exact repeat_correct_lemma. Qed.

Theorem concat_correct :
  forall x y, binary_plus x y = of_spec (spec_plus x y).
Proof. exact plus_correct_lemma. Qed.

(* String methods.  FULL statement: for every method m (all 30: count, find,
   rfind, index, rindex, startswith, endswith, split, rsplit, splitlines,
   partition, rpartition, strip, lstrip, rstrip, replace, join, removeprefix,
   removesuffix, upper, lower, capitalize, title, isalnum, isalpha, isdigit,
   islower, isupper, isspace, istitle), every receiver and every argument tuple
   (wrong arity, wrong types, None, omitted optionals, integers of any size),
     string_method m recv args = of_spec (spec_string_method (sspec m) recv args).
   The full statement is FALSE on the unchanged tree for exactly one input
   class -- an explicit empty cutset for strip / lstrip / rstrip
   (strip_empty_cutset_refuted, known finding strip:empty-cutset) -- and is
   proved for everything else: the guard not_empty_cutset excludes only
   (strip|lstrip|rstrip, [""]).  Included: sub-ranges by the slice conventions
   for operands of any size, tuples of prefixes, split/rsplit with a separator
   for every maxsplit (the int64 wrap of maxsplit+1; rightmost occurrences
   for rsplit, also when they overlap), the hand-written loops splitspace and
   rsplitspace statement by statement against the word splitter of the
   specification (rsplit = split of the reversed string), strings.Fields for
   an unlimited rsplit, splitlines, replace with every count and an empty
   `old`, and the case predicates against their declarative definitions. *)
Theorem string_methods_correct_partial :
  forall m recv args,
    not_empty_cutset m args = true ->
    blen recv <= 2^61 ->
    string_method m recv args = of_spec (spec_string_method (sspec m) recv args).
Proof. exact string_methods_correct_lemma. Qed.

(* " a ".strip("") strips white space; the specification (cutset = the given
   characters) and Python 3 leave the string alone.  Known finding strip:empty-cutset. *)
Theorem strip_empty_cutset_refuted :
  exists recv args which,
    string_strip recv args which <>
    of_spec (spec_strip recv args (match which with 2%nat => false | _ => true end)
                                  (match which with 1%nat => false | _ => true end)).
Proof. exact strip_refuted_lemma. Qed.

(* Non-vacuity *)
Example slice_premises_hold :
  let xs := [98; 97; 110; 97; 110; 97]%N in
  Z.of_nat (length xs) <= 2^61 /\ Z.of_nat (length xs) <= 2^31 /\ 0 <= 6 <= 2^61 /\ in_int64 (-5) = true /\
  slice_impl xs (AInt 4) ANone (AInt (-2)) = Ok [110; 110; 98]%N /\
  slice_spec xs (AInt 4) ANone (AInt (-2)) = Some [110; 110; 98]%N /\
  slice_impl xs ANone (AInt (2^100)) (AInt (2^70)) = Ok [98]%N /\
  slice_impl xs ANone ANone (AInt 0) = Err /\
  get_index xs (AInt (-6)) = Ok 98%N /\ get_index xs (AInt 6) = Err /\
  indices (AInt (-2)) (AInt (2^80)) 6 = Some (4, 6).
Proof. vm_compute. repeat split; intro; discriminate. Qed.

Example method_premises_hold :
  let recv := [98; 111; 110; 98; 111; 110]%N in
  not_empty_cutset MRfind [VStr [111; 110]%N; VNone; VInt 5] = true /\ blen recv <= 2^61 /\
  not_empty_cutset MStrip [VStr [97]%N] = true /\
  string_method MRsplit [97; 97; 97]%N [VStr [97; 97]%N; VInt 1] = Ok (VList [VStr [97]%N; VStr []]) /\
  string_method MSplit recv [VStr [110]%N; VInt 1] = Ok (VList [VStr [98; 111]%N; VStr [98; 111; 110]%N]) /\
  string_method MReplace recv [VStr []; VStr [45]%N; VInt 2] = Ok (VStr [45; 98; 45; 111; 110; 98; 111; 110]%N) /\
  string_method MRfind recv [VStr [111; 110]%N; VNone; VInt 5] = Ok (VInt 1) /\
  string_method MStrip [32; 97; 32]%N [VStr [97]%N] = Ok (VStr [32; 97; 32]%N) /\
  zlen [VInt 1; VInt 2] <= 2^61 /\
  list_method LInsert [VInt 1; VInt 2] [VInt (-1); VInt 9] = Ok (VNone, [VInt 1; VInt 9; VInt 2]) /\
  builtin BZip [VList [VInt 1; VInt 2]; VTuple [VInt 3]] = Ok (VList [VTuple [VInt 1; VInt 3]]) /\
  repeat_impl [1; 2]%N (-5) = Ok [].
Proof. vm_compute. repeat split; intro; discriminate. Qed.

Example range_premises_hold :
  let r := {| r_start := 5; r_stop := -4; r_step := -3; r_len := 3 |} in
  rng_ok r /\ range_elems r = [5; 2; -1] /\
  (exists r', range_slice_impl r ANone ANone (AInt (-1)) = Ok r' /\ range_elems r' = [-1; 2; 5]).
Proof.
  split; [|split].
  - unfold rng_ok. vm_compute. repeat split; intro; discriminate.
  - reflexivity.
  - eexists. split; [vm_compute; reflexivity|reflexivity].
Qed.

Example sort_premises_hold :
  (* sorted(["bb","a","cc","d"], key=len, reverse=True) = ["bb","cc","a","d"] *)
  sorted_impl true [2; 1; 2; 1] = [0; 2; 1; 3]%nat /\
  sorted_ok true [2; 1; 2; 1] [0; 2; 1; 3]%nat = true /\
  sorted_ok true [2; 1; 2; 1] [2; 0; 3; 1]%nat = false /\
  minmax_impl true [1; 3; 3] = Ok 1%nat /\ minmax_ok true [1; 3; 3] 1%nat = true /\
  minmax_ok true [1; 3; 3] 2%nat = false.
Proof. vm_compute. repeat split. Qed.

(* ------------------------------------------------------------------------
   string.format.  string_format (Format.v) is the scanning loop of
   string_format in starlark/library.go over byte lists (IndexByte / slicing /
   strings.Cut, the flags auto / manual and the counter index, `decimal` with
   Go's int arithmetic -- saturating at math.MaxInt since commit 5574fcc --,
   every slice and index expression bounds-checked, explicit fuel) and
   format_spec (FormatSpec.v) parses the template into segments (split at the
   braces, then group and classify: Lit | Field selector conv spec | Stray |
   Unclosed; a numeric field name is a natural number of any size) and
   evaluates them against (args, kwargs) with the numbering discipline of
   doc/spec.md.  Values are abstract: str_of / repr_of are the renderings
   str(x) / repr(x) (property C15).

   For templates of ANY length and ANY positional / keyword argument lists the
   two results are equal: the same bytes on success, failure on exactly the
   same inputs with the same error class (FormatBase.ferr, one class per
   message group of the Go code), and -- the specification has no such
   results -- no run-time panic and no exhausted fuel in the model.  This is
   the full statement; the two hypotheses are well-formedness conditions of
   the representation, not restrictions: the elements of the template are
   byte values (is_bytes), and len(args) is a Go int.

   Before 5574fcc the statement was false (decimal wrapped past 2^64 to a
   small index, or fell through to the keyword branch):
   History.old_format_refuted, History.old_format_number_as_keyword. *)
Theorem format_correct :
  forall (V : Type) (str_of repr_of : V -> fbytes)
         (template : fbytes) (args : list V) (kwargs : list (fbytes * V)),
    is_bytes template = true ->
    Z.of_nat (length args) <= max_int64 ->
    string_format V str_of repr_of template args kwargs =
    format_spec V str_of repr_of template args kwargs.
Proof. exact format_correct_lemma. Qed.

(* with the fuel string_format passes (len(format)+1 for the outer loop,
   len(literal)+1 for the inner one) the loops never run dry, and no slice or
   index expression of the Go text is out of range *)
Theorem format_never_panics :
  forall (V : Type) (str_of repr_of : V -> fbytes)
         (template : fbytes) (args : list V) (kwargs : list (fbytes * V)),
    is_bytes template = true ->
    Z.of_nat (length args) <= max_int64 ->
    string_format V str_of repr_of template args kwargs <> FPanic /\
    string_format V str_of repr_of template args kwargs <> FOutOfFuel.
Proof. exact format_no_panic_lemma. Qed.

(* Non-vacuity: a value is (its str text, its repr text).
   "{!r}{} {k}{{}}".format("a", "b", k="v") = "\"a\"b v{}"  (conversion not
   carried over to the next field, keyword field, both escapes);
   "{}{0}" mixes the numberings, "{a}{b}" lacks b, "{0:>4}" has a specifier,
   "{0!x}" an unknown conversion, "x}" a single close brace, "{00}" is index 0,
   "{18446744073709551616}" (2^64) is an index out of range. *)
Example format_premises_hold :
  let V := (fbytes * fbytes)%type in
  let a : V := ([97]%N, [34; 97; 34]%N) in
  let b : V := ([98]%N, [34; 98; 34]%N) in
  let v : V := ([118]%N, [34; 118; 34]%N) in
  let t := [123; 33; 114; 125; 123; 125; 32; 123; 107; 125; 123; 123; 125; 125]%N in
  is_bytes t = true /\ Z.of_nat (length [a; b]) <= max_int64 /\
  parse t = [Field Auto [114]%N []; Field Auto [115]%N []; Lit [32]%N; Field (Key [107]%N) [115]%N [];
             Lit [123]%N; Lit [125]%N] /\
  string_format V fst snd t [a; b] [([107]%N, v)] = FOk [34; 97; 34; 98; 32; 118; 123; 125]%N /\
  format_spec V fst snd t [a; b] [([107]%N, v)] = FOk [34; 97; 34; 98; 32; 118; 123; 125]%N /\
  string_format V fst snd t [a] [([107]%N, v)] = FErr EIndexRange /\
  string_format V fst snd [123; 125; 123; 48; 125]%N [a; b] [] = FErr EAutoToManual /\
  string_format V fst snd [123; 97; 125; 123; 98; 125]%N [] [([97]%N, a)] = FErr EKeyword /\
  format_spec V fst snd [123; 97; 125; 123; 98; 125]%N [] [([97]%N, a)] = FErr EKeyword /\
  string_format V fst snd [123; 48; 58; 62; 52; 125]%N [a] [] = FErr ESpecUnsupported /\
  string_format V fst snd [123; 48; 33; 120; 125]%N [a] [] = FErr EConversion /\
  string_format V fst snd [120; 125]%N [a] [] = FErr ESingleClose /\
  string_format V fst snd [123; 48; 48; 125]%N [a] [] = FOk [97]%N /\
  is_bytes History.wrap_witness = true /\
  string_format V fst snd History.wrap_witness [a; b] [] = FErr EIndexRange /\
  format_spec V fst snd History.wrap_witness [a; b] [] = FErr EIndexRange.
Proof. vm_compute. repeat split; intro; discriminate. Qed.

(* ------------------------------------------------------------------------
   format % args  (a string left operand).  interpolate (Interp.v) is the
   scanning loop of interpolate in starlark/eval.go over byte lists
   (IndexByte('%'), "%%", the "%(key)" branch with its Mapping lookup, the
   positional branch with index / nargs, the switch on the conversion letter,
   the surplus-operand test; slices and index expressions bounds-checked,
   explicit fuel); interpolate_spec (InterpSpec.v) parses the template into
   items (ILit | IPercent | IConv key letter | IBadKey) and evaluates them left
   to right against the operand.  Values are abstract: what a conversion
   letter prints for a value (str_of, repr_of, conv_text for d i o x X e f g
   E F G c, None = the letter rejects the value) is a parameter (C15 / C19).
   For ALL templates and ALL operands (a tuple of any length, a mapping with
   any entries, any other value): the same bytes, failure on exactly the same
   inputs with the same error class (FormatBase.ierr), no panic, fuel
   sufficient.  No guard is needed: this is the full statement. *)
Theorem interpolate_correct :
  forall (V : Type) (str_of repr_of : V -> fbytes) (conv_text : N -> V -> option fbytes)
         (template : fbytes) (x : operand V),
    interpolate V str_of repr_of conv_text template x =
    interpolate_spec V str_of repr_of conv_text template (operand_spec x).
Proof. exact interpolate_correct_lemma. Qed.

Theorem interpolate_never_panics :
  forall (V : Type) (str_of repr_of : V -> fbytes) (conv_text : N -> V -> option fbytes)
         (template : fbytes) (x : operand V),
    interpolate V str_of repr_of conv_text template x <> IPanic /\
    interpolate V str_of repr_of conv_text template x <> IOutOfFuel.
Proof. exact interpolate_no_panic_lemma. Qed.

(* Non-vacuity: a value is (str text, repr text, decimal text if it is a number).
   "%s=%r %d%%" % ("x", "x", 7) = "x=\"x\" 7%";  "%(k)s" % {"k": "x"} = "x";
   too few / too many operands, "%(k" unclosed, %(k)s of a non-mapping, %d of a
   string, unknown letter, template ending in '%'. *)
Example interpolate_premises_hold :
  let V := (fbytes * fbytes * option fbytes)%type in
  let so : V -> fbytes := fun v => fst (fst v) in
  let ro : V -> fbytes := fun v => snd (fst v) in
  let ct : N -> V -> option fbytes := fun c v => if N.eqb c 100 then snd v else None in
  let xs : V := ([120]%N, [34; 120; 34]%N, None) in
  let seven : V := ([55]%N, [55]%N, Some [55]%N) in
  let d : V := ([123; 125]%N, [123; 125]%N, None) in
  interpolate V so ro ct [37; 115; 61; 37; 114; 32; 37; 100; 37; 37]%N (OTuple [xs; xs; seven])
    = IOk [120; 61; 34; 120; 34; 32; 55; 37]%N /\
  interpolate_spec V so ro ct [37; 115; 61; 37; 114; 32; 37; 100; 37; 37]%N (STuple [xs; xs; seven])
    = IOk [120; 61; 34; 120; 34; 32; 55; 37]%N /\
  iparse [37; 115; 61; 37; 114; 32; 37; 40; 107; 41; 100; 37; 37]%N
    = [IConv None (Some 115%N); ILit [61]%N; IConv None (Some 114%N); ILit [32]%N;
       IConv (Some [107]%N) (Some 100%N); IPercent] /\
  interpolate V so ro ct [37; 40; 107; 41; 115]%N (OMapping d [([107]%N, xs)]) = IOk [120]%N /\
  interpolate V so ro ct [37; 40; 107; 41; 115]%N (OMapping d []) = IErr IKeyNotFound /\
  interpolate V so ro ct [37; 40; 107; 41; 115]%N (OSingle xs) = IErr INotMapping /\
  interpolate V so ro ct [37; 40; 107]%N (OMapping d []) = IErr IIncompleteKey /\
  interpolate V so ro ct [37; 115; 37; 115]%N (OTuple [xs]) = IErr INotEnough /\
  interpolate V so ro ct [37; 115]%N (OTuple [xs; xs]) = IErr ITooMany /\
  interpolate V so ro ct [37; 100]%N (OSingle xs) = IErr IBadOperand /\
  interpolate V so ro ct [37; 122]%N (OSingle xs) = IErr IUnknownConv /\
  interpolate V so ro ct [37]%N (OSingle xs) = IErr IIncomplete.
Proof. vm_compute. repeat split. Qed.
