(* C13 -- proofs about white-space splitting (splitspace / rsplitspace) and
   rsplit with a separator (continues ProofsStr2.v). *)
From Coq Require Import ZArith NArith List Bool Lia.
From Coq Require Import ZifyBool ZifyNat.
From SV Require Import Common.GoInt C13.Base C13.Index C13.Str C13.Spec.
From SV Require Import C13.ProofsIndex C13.ProofsSlice C13.ProofsStr C13.ProofsStr2.
Import ListNotations.
Open Scope Z_scope.

(* ---- substr facts *)
Lemma substr_app_mid (pre rest : bytes) (st : Z) :
  0 <= st <= blen pre ->
  substr (pre ++ rest) st (blen pre) = skipn (Z.to_nat st) pre.
Proof.
  intros H. unfold substr, blen in *.
  rewrite skipn_app.
  replace (Z.to_nat st - length pre)%nat with 0%nat by lia. cbn [skipn].
  rewrite firstn_app. rewrite skipn_length.
  replace (Z.to_nat (Z.of_nat (length pre) - st) - (length pre - Z.to_nat st))%nat with 0%nat by lia.
  cbn [firstn]. rewrite app_nil_r. apply firstn_all2. rewrite skipn_length. lia.
Qed.

Lemma substr_to_end (pre rest : bytes) (st : Z) :
  0 <= st <= blen pre ->
  substr (pre ++ rest) st (blen (pre ++ rest)) = skipn (Z.to_nat st) pre ++ rest.
Proof.
  intros H. unfold substr, blen in *. rewrite app_length.
  rewrite skipn_app.
  replace (Z.to_nat st - length pre)%nat with 0%nat by lia. cbn [skipn].
  apply firstn_all2. rewrite app_length, skipn_length. lia.
Qed.

Definition final (full : bytes) (p : list bytes * Z) : list bytes :=
  let '(res, start) := p in
  if start >=? 0 then res ++ [substr full start (blen full)] else res.

Lemma zlen_app1 (res : list bytes) w : Z.of_nat (length (res ++ [w])) = Z.of_nat (length res) + 1.
Proof. rewrite app_length. cbn. lia. Qed.

Lemma skipn_app_exact {A} (pre : list A) r : skipn (length pre) (pre ++ [r]) = [r].
Proof. rewrite skipn_app, skipn_all, Nat.sub_diag. reflexivity. Qed.

Lemma skipn_app_le {A} (pre : list A) r n : (n <= length pre)%nat -> skipn n (pre ++ [r]) = skipn n pre ++ [r].
Proof. intros H. rewrite skipn_app. replace (n - length pre)%nat with 0%nat by lia. reflexivity. Qed.

(* ---- splitspace: the loop against the word splitter of the specification *)
Lemma splitspace_loop_spec (max : Z) : 0 <= max ->
  forall rest pre res start,
    Z.of_nat (length res) <= max ->
    let full := pre ++ rest in
    let i := blen pre in
    (start = -1 ->
       final full (splitspace_loop rest i full max res start) =
       res ++ wsplit rest (Some (Z.to_nat (max - Z.of_nat (length res)))) [] false) /\
    (0 <= start <= i ->
       let w := skipn (Z.to_nat start) pre in
       final full (splitspace_loop rest i full max res start) =
       if Z.of_nat (length res) =? max then res ++ [w ++ rest]
       else res ++ wsplit rest (Some (Z.to_nat (max - Z.of_nat (length res) - 1))) (rev w) true).
Proof.
  intros Hmax. induction rest as [|r t IH]; intros pre res start Hres; cbv zeta.
  - split.
    + intros ->. cbn. rewrite app_nil_r. reflexivity.
    + intros Hs. cbn [splitspace_loop final wsplit].
      destruct (start >=? 0) eqn:E; [|lia].
      rewrite substr_to_end by lia. rewrite rev_involutive, app_nil_r.
      destruct (Z.of_nat (length res) =? max); reflexivity.
  - assert (Hfull : pre ++ r :: t = (pre ++ [r]) ++ t) by (rewrite <- app_assoc; reflexivity).
    assert (Hi : blen pre + 1 = blen (pre ++ [r])) by (unfold blen; rewrite app_length; cbn; lia).
    cbn [splitspace_loop wsplit]. rewrite <- is_space_ws.
    split.
    + intros ->. change (-1 >=? 0) with false. change (-1 =? -1) with true. cbv iota.
      destruct (is_space r) eqn:Esp.
      * rewrite Hfull, Hi. apply (proj1 (IH (pre ++ [r]) res (-1) Hres)). reflexivity.
      * rewrite Hfull, Hi.
        pose proof (proj2 (IH (pre ++ [r]) res (blen pre) Hres)) as HB. cbv zeta in HB.
        rewrite HB by (unfold blen; rewrite app_length; cbn; lia). clear HB.
        unfold blen. rewrite Nat2Z.id, skipn_app_exact.
        destruct (Z.of_nat (length res) =? max) eqn:Em.
        -- replace (Z.to_nat (max - Z.of_nat (length res))) with 0%nat by lia. reflexivity.
        -- replace (Z.to_nat (max - Z.of_nat (length res))) with (S (Z.to_nat (max - Z.of_nat (length res) - 1))) by lia.
           reflexivity.
    + intros Hs. cbv zeta.
      destruct (start >=? 0) eqn:E0; [|lia].
      destruct (start =? -1) eqn:E1; [lia|].
      destruct (is_space r) eqn:Esp.
      * destruct (Z.of_nat (length res) =? max) eqn:Em.
        -- cbn [final]. rewrite E0. rewrite substr_to_end by lia. reflexivity.
        -- rewrite Hfull, Hi.
           pose proof (proj1 (IH (pre ++ [r]) (res ++ [substr ((pre ++ [r]) ++ t) start (blen pre)]) (-1)
                              ltac:(rewrite zlen_app1; lia)) eq_refl) as HA.
           rewrite HA. clear HA.
           rewrite <- Hfull, substr_app_mid by lia.
           rewrite zlen_app1, rev_involutive, <- app_assoc. cbn [app].
           replace (max - (Z.of_nat (length res) + 1)) with (max - Z.of_nat (length res) - 1) by lia.
           reflexivity.
      * rewrite Hfull, Hi.
        pose proof (proj2 (IH (pre ++ [r]) res start Hres)) as HB. cbv zeta in HB.
        rewrite HB by (unfold blen in *; rewrite app_length; cbn; lia). clear HB.
        rewrite skipn_app_le by (unfold blen in *; lia).
        rewrite rev_app_distr. cbn [rev app]. rewrite <- app_assoc. cbn [app]. reflexivity.
Qed.

Lemma wsplit_big s : forall k k' cur w,
  (length s < k)%nat -> (length s < k')%nat -> wsplit s (Some k) cur w = wsplit s (Some k') cur w.
Proof.
  induction s as [|c t IH]; intros k k' cur w Hk Hk'; [reflexivity|].
  cbn [wsplit]. cbn [length] in *.
  destruct w.
  - destruct (is_ws c); [f_equal|]; apply IH; lia.
  - destruct (is_ws c); [apply IH; lia|].
    destruct k as [|k1]; [lia|]. destruct k' as [|k2]; [lia|]. apply IH; lia.
Qed.

Lemma splitspace_spec s max :
  0 <= max -> splitspace s max = wsplit_spec s (cap (Some max) (S (length s))).
Proof.
  intros Hmax. unfold splitspace, wsplit_spec, cap.
  pose proof (proj1 (splitspace_loop_spec max Hmax s [] [] (-1) ltac:(cbn; lia)) eq_refl) as H.
  cbn [app length] in H. change (blen []) with 0 in H. change (Z.of_nat 0) with 0 in H. unfold final in H.
  destruct (splitspace_loop s 0 s max [] (-1)) as [res start].
  rewrite H. cbn [app]. rewrite Z.sub_0_r.
  destruct (Z_le_gt_dec max (Z.of_nat (S (length s)))) as [Hle|Hgt].
  - replace (Z.min max (Z.of_nat (S (length s)))) with max by lia. reflexivity.
  - apply wsplit_big; lia.
Qed.

Lemma fields_aux_spec s : forall cur,
  fields_aux s cur = wsplit s None cur (match cur with [] => false | _ => true end).
Proof.
  induction s as [|c t IH]; intros cur; cbn [fields_aux wsplit].
  - destruct cur; reflexivity.
  - rewrite is_space_ws. destruct cur as [|d cur'].
    + destruct (is_ws c); rewrite IH; reflexivity.
    + destruct (is_ws c); rewrite IH; reflexivity.
Qed.

(* ---- rsplitspace is splitspace on the reversed string *)
Lemma substr_rev (s : bytes) a b :
  0 <= a <= b -> b <= blen s ->
  substr (rev s) (blen s - b) (blen s - a) = rev (substr s a b).
Proof.
  intros H1 H2. unfold substr, blen in *.
  replace (Z.to_nat (Z.of_nat (length s) - a - (Z.of_nat (length s) - b))) with (Z.to_nat b - Z.to_nat a)%nat by lia.
  replace (Z.to_nat (Z.of_nat (length s) - b)) with (length s - Z.to_nat b)%nat by lia.
  replace (Z.to_nat (b - a)) with (Z.to_nat b - Z.to_nat a)%nat by lia.
  rewrite skipn_rev.
  replace (length s - (length s - Z.to_nat b))%nat with (Z.to_nat b) by lia.
  rewrite firstn_rev, firstn_length.
  replace (Nat.min (Z.to_nat b) (length s) - (Z.to_nat b - Z.to_nat a))%nat with (Z.to_nat a) by lia.
  rewrite skipn_firstn_comm. reflexivity.
Qed.

Definition conv_e (n st : Z) : Z := if st =? -1 then -1 else n - st.

Lemma rsplitspace_mirror_loop (full : bytes) (max : Z) :
  let n := blen full in
  forall rrest i res e,
    blen rrest = i -> i <= n -> (e = -1 \/ i <= e <= n) ->
    let '(rf, sf) := splitspace_loop rrest (n - i) (rev full) max (map (@rev N) res) (conv_e n e) in
    rsplitspace_loop rrest i full max res e = (map (@rev N) rf, conv_e n sf) /\
    (sf = -1 \/ 0 <= sf <= n).
Proof.
  intros n. induction rrest as [|r t IH]; intros i res e Hi Hin He.
  - assert (Hi0 : i = 0) by (unfold blen in Hi; cbn in Hi; lia).
    cbn [splitspace_loop rsplitspace_loop]. rewrite map_map.
    rewrite (map_ext _ (fun x => x)) by (intros; apply rev_involutive). rewrite map_id.
    unfold conv_e. destruct He as [->|He].
    + change (-1 =? -1) with true. cbv iota. change (-1 =? -1) with true. cbv iota. split; [reflexivity|left; reflexivity].
    + destruct (e =? -1) eqn:E; [lia|].
      destruct (n - e =? -1) eqn:E2; [lia|]. split; [f_equal; lia|right; lia].
  - assert (Hi1 : blen t = i - 1) by (unfold blen in *; cbn [length] in Hi; lia).
    assert (Hipos : 1 <= i) by (unfold blen in *; cbn [length] in Hi; lia).
    cbn [splitspace_loop rsplitspace_loop].
    replace (n - i + 1) with (n - (i - 1)) by lia.
    destruct (is_space r) eqn:Esp.
    + destruct He as [->|He].
      * (* in a region of spaces *)
        unfold conv_e at 1 2. change (-1 =? -1) with true. cbv iota.
        change (-1 >=? 0) with false. cbv iota.
        pose proof (IH (i - 1) res (-1) Hi1 ltac:(lia) (or_introl eq_refl)) as H.
        unfold conv_e at 1 in H. change (-1 =? -1) with true in H. cbv iota in H. exact H.
      * assert (Ec : conv_e n e = n - e) by (unfold conv_e; destruct (e =? -1) eqn:E; lia).
        rewrite Ec.
        destruct (e >=? 0) eqn:E0; [|lia]. destruct (n - e >=? 0) eqn:E1; [|lia].
        rewrite map_length.
        destruct (Z.of_nat (length res) =? max) eqn:Em.
        -- rewrite map_map. rewrite (map_ext _ (fun x => x)) by (intros; apply rev_involutive). rewrite map_id.
           split; [|right; lia]. f_equal. unfold conv_e. destruct (n - e =? -1) eqn:E2; lia.
        -- pose proof (IH (i - 1) (res ++ [substr full i e]) (-1) Hi1 ltac:(lia) (or_introl eq_refl)) as H.
           unfold conv_e at 1 in H. change (-1 =? -1) with true in H. cbv iota in H.
           rewrite map_app in H. cbn [map] in H.
           rewrite <- (substr_rev full i e) in H by (unfold n in *; lia).
           fold n in H. exact H.
    + destruct He as [->|He].
      * unfold conv_e at 1 2. change (-1 =? -1) with true. cbv iota.
        change (-1 <? 0) with true. cbv iota.
        assert (Hb : i - 1 <= i <= n) by lia.
        pose proof (IH (i - 1) res i Hi1 ltac:(lia) (or_intror Hb)) as H.
        assert (Ec : conv_e n i = n - i) by (unfold conv_e; destruct (i =? -1) eqn:E; lia).
        rewrite Ec in H. exact H.
      * assert (Ec : conv_e n e = n - e) by (unfold conv_e; destruct (e =? -1) eqn:E; lia).
        rewrite Ec.
        destruct (e <? 0) eqn:E0; [lia|]. destruct (n - e =? -1) eqn:E1; [lia|].
        assert (Hb : i - 1 <= e <= n) by lia.
        pose proof (IH (i - 1) res e Hi1 ltac:(lia) (or_intror Hb)) as H.
        rewrite Ec in H. exact H.
Qed.

Lemma rsplitspace_mirror s max :
  rsplitspace s max = rev (map (@rev N) (splitspace (rev s) max)).
Proof.
  unfold rsplitspace, splitspace.
  pose proof (rsplitspace_mirror_loop s max (rev s) (blen s) [] (-1)
                ltac:(unfold blen; rewrite rev_length; reflexivity) ltac:(lia) (or_introl eq_refl)) as H.
  cbv zeta in H. unfold conv_e at 1 in H. change (-1 =? -1) with true in H. cbv iota in H.
  rewrite Z.sub_diag in H. cbn [map] in H.
  assert (Hb : blen (rev s) = blen s) by (unfold blen; rewrite rev_length; reflexivity).
  rewrite Hb.
  destruct (splitspace_loop (rev s) 0 (rev s) max [] (-1)) as [rf sf].
  destruct H as [H Hsf]. rewrite H. unfold conv_e.
  destruct Hsf as [->|Hsf].
  - change (-1 =? -1) with true. cbv iota. change (-1 >=? 0) with false. cbv iota. reflexivity.
  - destruct (sf =? -1) eqn:E; [lia|].
    destruct (blen s - sf >=? 0) eqn:E1; [|lia]. destruct (sf >=? 0) eqn:E2; [|lia].
    f_equal. rewrite map_app. cbn [map]. f_equal. f_equal.
    pose proof (substr_rev s 0 (blen s - sf) ltac:(lia) ltac:(lia)) as HS.
    replace (blen s - (blen s - sf)) with sf in HS by lia. rewrite Z.sub_0_r in HS.
    rewrite HS. symmetry. apply rev_involutive.
Qed.


(* ---- the occurrence list, one occurrence at a time *)
Lemma occ_scan_skip_nomatch s sub a b next :
  (forall j, In j a -> occurs_at s sub j = false) ->
  occ_scan s sub (a ++ b) next = occ_scan s sub b next.
Proof.
  revert next. induction a as [|j r IH]; intros next H; cbn [app occ_scan]; [reflexivity|].
  rewrite (H j (or_introl eq_refl)), andb_false_r. apply IH. intros j' Hj. apply H. right. exact Hj.
Qed.

Lemma occ_scan_skip_early s sub a b next :
  (forall j, In j a -> (j < next)%nat) ->
  occ_scan s sub (a ++ b) next = occ_scan s sub b next.
Proof.
  induction a as [|j r IH]; intros H; cbn [app occ_scan]; [reflexivity|].
  replace (Nat.leb next j) with false by (symmetry; apply Nat.leb_gt; apply H; left; reflexivity).
  cbn [andb]. apply IH. intros j' Hj. apply H. right. exact Hj.
Qed.

Lemma occurs_at_skipn s sub d j : occurs_at s sub (d + j) = occurs_at (skipn d s) sub j.
Proof. unfold occurs_at. rewrite skipn_plus. reflexivity. Qed.

Lemma occ_scan_shift_by s sub d cands : forall next,
  occ_scan s sub (map (fun j => d + j)%nat cands) (d + next) =
  map (fun j => d + j)%nat (occ_scan (skipn d s) sub cands next).
Proof.
  induction cands as [|j r IH]; intros next; cbn [map occ_scan]; [reflexivity|].
  rewrite occurs_at_skipn.
  replace (Nat.leb (d + next) (d + j)) with (Nat.leb next j)
    by (destruct (Nat.leb next j) eqn:E; symmetry; [apply Nat.leb_le; apply Nat.leb_le in E; lia|apply Nat.leb_gt; apply Nat.leb_gt in E; lia]).
  destruct (Nat.leb next j && occurs_at (skipn d s) sub j).
  - cbn [map]. f_equal. replace (d + j + length sub)%nat with (d + (j + length sub))%nat by lia. apply IH.
  - apply IH.
Qed.

Lemma seq_map_add d len : seq d len = map (fun j => d + j)%nat (seq 0 len).
Proof.
  revert d. induction len as [|n IH]; intros d; cbn [seq map]; [reflexivity|].
  f_equal; [lia|]. rewrite (IH (S d)), <- seq_shift, map_map. apply map_ext. intros j. lia.
Qed.

Lemma find_split {A} (f : A -> bool) l x :
  find f l = Some x -> exists l1 l2, l = l1 ++ x :: l2 /\ (forall y, In y l1 -> f y = false) /\ f x = true.
Proof.
  induction l as [|y r IH]; cbn; [discriminate|].
  destruct (f y) eqn:E.
  - intros H. injection H as ->. exists [], r. repeat split; [intros y []|exact E].
  - intros H. destruct (IH H) as (l1 & l2 & -> & H1 & H2).
    exists (y :: l1), l2. repeat split; [|exact H2].
    intros z [->|Hz]; [exact E|apply H1; exact Hz].
Qed.

Lemma find_first_min s sub i :
  find_first s sub = Some i ->
  occurs_at s sub i = true /\ (forall j, (j < i)%nat -> occurs_at s sub j = false).
Proof.
  rewrite <- find_positions. intros H.
  destruct (find_split _ _ _ H) as (l1 & l2 & Hl & H1 & H2). split; [exact H2|].
  intros j Hj. apply H1.
  assert (Hin : In j (seq 0 (S (length s)))).
  { apply in_seq. apply find_some in H. destruct H as [Hi _]. apply in_seq in Hi. lia. }
  rewrite Hl in Hin. apply in_app_or in Hin. destruct Hin as [Hin|Hin]; [exact Hin|].
  exfalso.
  (* j occurs at or after i in an increasing list *)
  assert (Hsorted : forall a b c, seq 0 (S (length s)) = a ++ b :: c -> forall z, In z (b :: c) -> (b <= z)%nat).
  { intros a b c Heq z Hz.
    assert (Hlen : length a = b).
    { pose proof (f_equal (fun l => nth (length a) l 0%nat) Heq) as Hn. cbn beta in Hn.
      rewrite app_nth2, Nat.sub_diag in Hn by lia. cbn [nth] in Hn.
      rewrite seq_nth in Hn; [lia|].
      pose proof (f_equal (@length nat) Heq) as HL. rewrite seq_length, app_length in HL. cbn in HL. lia. }
    destruct Hz as [<-|Hz]; [lia|].
    apply In_nth with (d := 0%nat) in Hz. destruct Hz as (k & Hk & Hnth).
    pose proof (f_equal (fun l => nth (length a + S k) l 0%nat) Heq) as Hn. cbn beta in Hn.
    rewrite app_nth2 in Hn by lia. replace (length a + S k - length a)%nat with (S k) in Hn by lia.
    cbn [nth] in Hn. rewrite Hnth in Hn.
    rewrite seq_nth in Hn; [lia|].
    pose proof (f_equal (@length nat) Heq) as HL. rewrite seq_length, app_length in HL. cbn in HL. lia. }
  specialize (Hsorted l1 i l2 Hl j Hin). lia.
Qed.

Lemma occurrences_none s sub : sub <> [] -> find_first s sub = None -> occurrences s sub = [].
Proof.
  intros Hne H. unfold occurrences. rewrite <- occ_scan_all_positions by assumption.
  apply occ_scan_nomatch. intros j Hj.
  rewrite <- find_positions in H.
  destruct (occurs_at s sub j) eqn:E; [|reflexivity].
  exfalso. eapply find_none in H; [|exact Hj]. congruence.
Qed.

Lemma occurrences_step s sub i :
  sub <> [] -> find_first s sub = Some i ->
  occurrences s sub =
  i :: map (fun j => i + length sub + j)%nat (occurrences (skipn (i + length sub) s) sub).
Proof.
  intros Hne H. pose proof (find_first_bound _ _ _ H) as Hb.
  destruct (find_first_min _ _ _ H) as [Ho Hmin].
  assert (Hm : (1 <= length sub)%nat) by (destruct sub; [contradiction|cbn; lia]).
  unfold occurrences. rewrite <- !occ_scan_all_positions by assumption.
  remember (occ_scan (skipn (i + length sub) s) sub (seq 0 (S (length (skipn (i + length sub) s)))) 0) as R eqn:ER.
  replace (S (length s)) with (i + S ((length sub - 1) + S (length s - i - length sub)))%nat by lia.
  rewrite seq_app. cbn [Nat.add].
  rewrite occ_scan_skip_nomatch by (intros j Hj; apply in_seq in Hj; apply Hmin; lia).
  cbn [seq occ_scan Nat.leb andb]. rewrite Ho. f_equal.
  rewrite seq_app.
  rewrite occ_scan_skip_early by (intros j Hj; apply in_seq in Hj; lia).
  replace (S i + (length sub - 1))%nat with (i + length sub)%nat by lia.
  rewrite (seq_map_add (i + length sub)).
  pose proof (occ_scan_shift_by s sub (i + length sub) (seq 0 (S (length s - i - length sub))) 0) as HS.
  rewrite Nat.add_0_r in HS. rewrite HS. subst R. rewrite skipn_length.
  replace (length s - (i + length sub))%nat with (length s - i - length sub)%nat by lia. reflexivity.
Qed.

(* ---- splitting one occurrence at a time (what an Index / LastIndex loop does) *)
Fixpoint isplit (fuel : nat) (t p : bytes) (k : option nat) : list bytes :=
  match fuel with
  | O => [t]
  | S f =>
      match k with
      | Some O => [t]
      | _ =>
          match find_first t p with
          | None => [t]
          | Some i => firstn i t :: isplit f (skipn (i + length p) t) p (option_map Nat.pred k)
          end
      end
  end.

Lemma cut_shift_by t m d occs : forall from,
  cut t m (map (fun j => d + j)%nat occs) (d + from) = cut (skipn d t) m occs from.
Proof.
  induction occs as [|i r IH]; intros from; cbn [map cut].
  - rewrite skipn_plus. reflexivity.
  - rewrite skipn_plus. replace (d + i - (d + from))%nat with (i - from)%nat by lia. f_equal.
    replace (d + i + m)%nat with (d + (i + m))%nat by lia. apply IH.
Qed.

Lemma isplit_spec p : p <> [] -> forall fuel t k,
  (length t < fuel)%nat ->
  isplit fuel t p k = cut t (length p) (limit k (occurrences t p)) 0.
Proof.
  intros Hne. induction fuel as [|f IH]; intros t k Hf; [lia|].
  cbn [isplit].
  assert (Hm : (1 <= length p)%nat) by (destruct p; [contradiction|cbn; lia]).
  destruct (find_first t p) as [i|] eqn:Ef.
  - pose proof (find_first_bound _ _ _ Ef) as Hb.
    rewrite (occurrences_step t p i Hne Ef).
    destruct k as [[|k']|].
    + reflexivity.
    + cbn [limit firstn cut option_map Nat.pred]. rewrite Nat.sub_0_r. cbn [skipn]. f_equal.
      rewrite IH by (rewrite skipn_length; lia).
      rewrite firstn_map'. cbn [limit].
      pose proof (cut_shift_by t (length p) (i + length p) (firstn k' (occurrences (skipn (i + length p) t) p)) 0) as HC.
      rewrite Nat.add_0_r in HC. rewrite HC. reflexivity.
    + cbn [limit cut option_map]. rewrite Nat.sub_0_r. cbn [skipn]. f_equal.
      rewrite IH by (rewrite skipn_length; lia). cbn [limit].
      pose proof (cut_shift_by t (length p) (i + length p) (occurrences (skipn (i + length p) t) p) 0) as HC.
      rewrite Nat.add_0_r in HC. rewrite HC. reflexivity.
  - rewrite (occurrences_none t p Hne Ef).
    destruct k as [[|k']|]; cbn [limit firstn cut skipn]; reflexivity.
Qed.

Lemma isplit_big p : forall fuel t n, (fuel <= n)%nat -> isplit fuel t p (Some n) = isplit fuel t p None.
Proof.
  induction fuel as [|f IH]; intros t n Hn; [reflexivity|].
  cbn [isplit]. destruct n as [|n']; [lia|].
  destruct (find_first t p); [|reflexivity]. cbn [option_map Nat.pred]. f_equal. apply IH. lia.
Qed.

(* ---- an occurrence seen from the other end *)
Lemma occurs_at_iff s sub j :
  sub <> [] ->
  (occurs_at s sub j = true <-> exists a b, s = a ++ sub ++ b /\ length a = j).
Proof.
  intros Hne. split.
  - intros H. pose proof H as H'. rewrite occurs_at_prefix in H'.
    pose proof (has_prefix_len _ _ H') as Hl. rewrite skipn_length in Hl.
    assert (Hm : (1 <= length sub)%nat) by (destruct sub; [contradiction|cbn; lia]).
    apply has_prefix_app in H'. destruct H' as [t Ht].
    exists (firstn j s), t. split.
    + rewrite <- Ht. symmetry. apply firstn_skipn.
    + apply firstn_length_le. lia.
  - intros (a & b & -> & <-). rewrite occurs_at_prefix. apply has_prefix_app.
    exists b. rewrite skipn_app, skipn_all, Nat.sub_diag. reflexivity.
Qed.

Lemma occurs_at_rev s sub j :
  sub <> [] -> (j + length sub <= length s)%nat ->
  occurs_at (rev s) (rev sub) j = occurs_at s sub (length s - length sub - j).
Proof.
  intros Hne Hj. apply bool_eq_iff.
  assert (Hne' : rev sub <> []) by (destruct sub; [contradiction|cbn; intro H; destruct (rev sub); discriminate]).
  rewrite (occurs_at_iff _ _ _ Hne'), (occurs_at_iff _ _ _ Hne). split.
  - intros (a & b & Hs & Ha).
    apply (f_equal (@rev N)) in Hs. rewrite rev_involutive, !rev_app_distr, rev_involutive, <- app_assoc in Hs.
    exists (rev b), (rev a). split; [exact Hs|].
    subst s. rewrite !app_length, !rev_length in *. lia.
  - intros (a & b & Hs & Ha).
    exists (rev b), (rev a). split.
    + subst s. rewrite !rev_app_distr, <- app_assoc. reflexivity.
    + subst s. rewrite !app_length, !rev_length in *. lia.
Qed.

Lemma find_map {A B} (f : B -> bool) (g : A -> B) l :
  find f (map g l) = option_map g (find (fun x => f (g x)) l).
Proof. induction l as [|x r IH]; cbn; [reflexivity|]. destruct (f (g x)); [reflexivity|exact IH]. Qed.

Lemma find_ext_in {A} (f g : A -> bool) l : (forall x, In x l -> f x = g x) -> find f l = find g l.
Proof.
  induction l as [|x r IH]; intros H; cbn; [reflexivity|].
  rewrite (H x (or_introl eq_refl)). destruct (g x); [reflexivity|].
  apply IH. intros y Hy. apply H. right. exact Hy.
Qed.

Lemma rev_seq_map n : rev (seq 0 n) = map (fun i => n - 1 - i)%nat (seq 0 n).
Proof.
  induction n as [|n IH]; [reflexivity|].
  rewrite seq_S at 1. rewrite rev_app_distr. cbn [rev app Nat.add].
  rewrite IH. cbn [seq map]. f_equal; [lia|].
  rewrite <- seq_shift, map_map. apply map_ext_in. intros i Hi. apply in_seq in Hi. lia.
Qed.

(* the last occurrence in s is the first occurrence in the reversed string *)
Lemma find_last_rev s sub :
  sub <> [] ->
  find_last s sub = option_map (fun i => length s - length sub - i)%nat (find_first (rev s) (rev sub)).
Proof.
  intros Hne. unfold find_last, find_first, positions. rewrite !rev_length.
  destruct (Nat.leb (length sub) (length s)) eqn:E; [|reflexivity].
  apply Nat.leb_le in E.
  rewrite rev_seq_map, find_map.
  replace (length s - length sub + 1 - 1)%nat with (length s - length sub)%nat by lia.
  f_equal. apply find_ext_in. intros i Hi. apply in_seq in Hi.
  symmetry. apply occurs_at_rev; [exact Hne|lia].
Qed.

(* ---- rsplit with a separator: the LastIndex loop is the Index loop on the reversed string *)
Definition krel (fuel : nat) (max : Z) (k : option nat) : Prop :=
  (0 <= max /\ k = Some (Z.to_nat max)) \/ ((max < 0 \/ Z.of_nat fuel <= max) /\ k = None).

Lemma rsplit_loop_spec sep : sep <> [] -> forall fuel s max res k,
  (length s < fuel)%nat -> Z.of_nat fuel <= 2^62 -> in_int64 max = true -> krel fuel max k ->
  rsplit_loop fuel s sep max res =
  Ok (rev (map (@rev N) (isplit fuel (rev s) (rev sep) k)) ++ rev res).
Proof.
  intros Hne.
  assert (Hm : (1 <= length sep)%nat) by (destruct sep; [contradiction|cbn; lia]).
  induction fuel as [|f IH]; intros s max res k Hf Hfb Hmax Hk; [lia|].
  change (2^62) with 4611686018427387904 in *.
  unfold in_int64, min_int64, max_int64 in Hmax.
  cbn [rsplit_loop isplit].
  assert (Hbase : rev (res ++ [s]) = rev (map (@rev N) [rev s]) ++ rev res).
  { rewrite rev_app_distr. cbn [map rev app]. rewrite rev_involutive. reflexivity. }
  destruct (max =? 0) eqn:E0.
  { destruct Hk as [[H0 ->]|[[H0|H0] ->]]; try lia.
    replace (Z.to_nat max) with 0%nat by lia. rewrite Hbase. reflexivity. }
  assert (Hk0 : match k with Some O => False | _ => True end).
  { destruct Hk as [[H0 ->]|[_ ->]]; [|exact I]. destruct (Z.to_nat max) eqn:En; [lia|exact I]. }
  rewrite last_index_spec_eq, (find_last_rev s sep Hne).
  destruct (find_first (rev s) (rev sep)) as [i'|] eqn:Ef.
  - pose proof (find_first_bound _ _ _ Ef) as Hb. rewrite !rev_length in Hb.
    cbn [option_map].
    set (j := (length s - length sep - i')%nat).
    destruct (Z.of_nat j <? 0) eqn:Ej; [lia|].
    assert (Hsub1 : substr s 0 (Z.of_nat j) = firstn j s).
    { unfold substr. change (Z.to_nat 0) with 0%nat. cbn [skipn]. f_equal. lia. }
    assert (Hsub2 : substr s (Z.of_nat j + blen sep) (blen s) = skipn (j + length sep) s).
    { unfold substr, blen. replace (Z.to_nat (Z.of_nat j + Z.of_nat (length sep))) with (j + length sep)%nat by lia.
      apply firstn_all2. rewrite skipn_length. lia. }
    rewrite Hsub1, Hsub2.
    assert (Hk' : krel f (wrap64 (max - 1)) (option_map Nat.pred k)).
    { destruct Hk as [[H0 ->]|[[H0|H0] ->]].
      - left. rewrite wrap64_small by lia. split; [lia|]. cbn [option_map]. f_equal. lia.
      - right. split; [|reflexivity].
        destruct (Z.eq_dec max (-9223372036854775808)) as [->|Hne2].
        + right. change (wrap64 (-9223372036854775808 - 1)) with 9223372036854775807. lia.
        + left. rewrite wrap64_small by lia. lia.
      - right. split; [|reflexivity]. right. rewrite wrap64_small by lia. lia. }
    assert (Hint : in_int64 (wrap64 (max - 1)) = true) by apply wrap64_range.
    assert (Hlen : (length (firstn j s) < f)%nat) by (rewrite firstn_length; unfold j; lia).
    assert (Hfb' : Z.of_nat f <= 4611686018427387904) by lia.
    rewrite (IH (firstn j s) (wrap64 (max - 1)) (res ++ [skipn (j + length sep) s]) (option_map Nat.pred k)
                Hlen Hfb' Hint Hk').
    assert (HY : rev (firstn j s) = skipn (i' + length (rev sep)) (rev s)).
    { rewrite rev_length, skipn_rev. f_equal. f_equal. unfold j. lia. }
    assert (HX : rev (firstn i' (rev s)) = skipn (j + length sep) s).
    { rewrite firstn_rev, rev_involutive. f_equal. unfold j. lia. }
    rewrite HY.
    destruct k as [[|n']|]; [contradiction| |].
    + cbn [map rev option_map]. rewrite HX, rev_app_distr. cbn [rev app].
      rewrite <- app_assoc. reflexivity.
    + cbn [map rev option_map]. rewrite HX, rev_app_distr. cbn [rev app].
      rewrite <- app_assoc. reflexivity.
  - cbn [option_map]. change (-1 <? 0) with true. cbv iota.
    destruct k as [[|n']|]; [contradiction| |]; rewrite Hbase; reflexivity.
Qed.

Lemma rsplit_sep_correct_lemma : forall recv args,
  blen recv <= 2^61 ->
  (match args with [] | VNone :: _ => False | _ => True end) ->
  string_split recv args true = of_spec (spec_split recv args true).
Proof.
  intros recv args Hn Hsep. unfold blen in Hn. change (2^61) with 2305843009213693952 in Hn.
  assert (Hcore : forall sep maxsplit, sep <> [] -> in_int64 maxsplit = true ->
            rsplit_loop (S (length recv)) recv sep maxsplit [] =
            Ok (rsplit_spec recv sep (cap (if maxsplit <? 0 then None else Some maxsplit) (S (length recv))))).
  { intros sep maxsplit Hne Hint.
    assert (Hne' : rev sep <> []) by (destruct sep; [contradiction|cbn; intro H; destruct (rev sep); discriminate]).
    pose proof (occurrences_length (rev recv) (rev sep) Hne') as HL. rewrite rev_length in HL.
    assert (Hk : krel (S (length recv)) maxsplit (if maxsplit <? 0 then None else Some (Z.to_nat maxsplit))).
    { unfold krel. destruct (maxsplit <? 0) eqn:E; [right; split; [left; lia|reflexivity]|left; split; [lia|reflexivity]]. }
    assert (Hfb : Z.of_nat (S (length recv)) <= 2^62) by (change (2^62) with 4611686018427387904; lia).
    rewrite (rsplit_loop_spec sep Hne (S (length recv)) recv maxsplit []
               (if maxsplit <? 0 then None else Some (Z.to_nat maxsplit)) ltac:(lia) Hfb Hint Hk).
    cbn [rev]. rewrite app_nil_r.
    rewrite isplit_spec by (try assumption; rewrite rev_length; lia).
    unfold rsplit_spec, split_spec. rewrite rev_length. do 4 f_equal.
    destruct (maxsplit <? 0) eqn:E; cbn [cap limit]; [reflexivity|].
    destruct (Z_le_gt_dec maxsplit (Z.of_nat (S (length recv)))) as [Hle|Hgt].
    - f_equal. lia.
    - rewrite !firstn_all2 by lia. reflexivity. }
  unfold string_split, spec_split, arity, int_at.
  destruct args as [|x [|y [|z r]]]; try contradiction.
  - cbn [length Nat.leb andb negb nth_error opt_count].
    destruct x; try contradiction; try reflexivity.
    destruct s as [|d sep']; [reflexivity|].
    rewrite (Hcore (d :: sep') (-1) ltac:(discriminate) eq_refl). reflexivity.
  - cbn [length Nat.leb andb negb nth_error].
    destruct x; try contradiction;
      try (destruct y; try reflexivity; match goal with |- context[in_int64 ?q] => destruct (in_int64 q) end; reflexivity).
    destruct y; try reflexivity.
    unfold opt_count. rewrite <- (in_int64_word' z).
    destruct (in_int64 z) eqn:Ez; [|reflexivity].
    destruct s as [|d sep']; [destruct (z <? 0); reflexivity|].
    rewrite (Hcore (d :: sep') z ltac:(discriminate) Ez). reflexivity.
  - cbn. destruct x; try contradiction; destruct y; try reflexivity;
      match goal with |- context[in_int64 ?q] => destruct (in_int64 q) end; reflexivity.
Qed.

(* ---- split / rsplit on white space *)
Definition ws_unlimited (args : list val) : bool :=
  match args with
  | [] | [VNone] => true
  | [VNone; VInt z] => z <? 0
  | _ => false
  end.

Lemma wsplit_cases_lemma : forall recv args (right : bool),
  match args with [] | VNone :: _ => True | _ => False end ->
  (right = true -> ws_unlimited args = false) ->
  string_split recv args right = of_spec (spec_split recv args right).
Proof.
  intros recv args right Hargs Hr. unfold string_split, spec_split, arity, int_at.
  assert (Hf : fields recv = wsplit_spec recv None).
  { unfold fields, wsplit_spec. apply fields_aux_spec. }
  destruct args as [|x [|y [|z r]]]; try contradiction.
  - cbn [length Nat.leb andb negb nth_error opt_count]. change (-1 <? 0) with true. cbv iota.
    destruct right; [specialize (Hr eq_refl); discriminate|].
    cbn [cap of_spec]. unfold str_list, strs. rewrite Hf. reflexivity.
  - cbn [length Nat.leb andb negb nth_error opt_count]. change (-1 <? 0) with true. cbv iota.
    destruct x; try contradiction.
    destruct right; [specialize (Hr eq_refl); discriminate|].
    cbn [cap of_spec]. unfold str_list, strs. rewrite Hf. reflexivity.
  - cbn [length Nat.leb andb negb nth_error].
    destruct x; try contradiction.
    destruct y; try reflexivity.
    unfold opt_count. rewrite <- (in_int64_word' z).
    destruct (in_int64 z) eqn:Ez; [|reflexivity].
    destruct (z <? 0) eqn:E.
    + destruct right; [specialize (Hr eq_refl); cbn in Hr; rewrite E in Hr; discriminate|].
      cbn [cap of_spec]. unfold str_list, strs. rewrite Hf. reflexivity.
    + destruct right.
      * cbn [of_spec]. unfold str_list, strs. do 3 f_equal.
        rewrite rsplitspace_mirror, splitspace_spec by lia.
        unfold rwsplit_spec. rewrite rev_length. reflexivity.
      * cbn [of_spec]. unfold str_list, strs. do 3 f_equal.
        apply splitspace_spec. lia.
  - cbn. destruct x; try contradiction. destruct y; try reflexivity;
      match goal with |- context[in_int64 ?q] => destruct (in_int64 q) end; reflexivity.
Qed.

(* ---- every string method: the cases proved *)
Definition proved_case3 (m : meth) (args : list val) : bool :=
  match m with
  | MRsplit => negb (ws_unlimited args)            (* rsplit() / rsplit(None) / rsplit(None, -1): not proved *)
  | MStrip | MLstrip | MRstrip =>
      match args with [VStr []] => false | _ => true end   (* refuted: strip_empty_cutset_refuted *)
  | _ => true
  end.

Lemma string_methods_correct_partial3_lemma : forall m recv args,
  proved_case3 m args = true ->
  blen recv <= 2^61 ->
  string_method m recv args = of_spec (spec_string_method (sspec m) recv args).
Proof.
  intros m recv args Hp Hn.
  destruct (proved_case m args) eqn:Epc.
  - apply string_methods_correct_partial2_lemma; assumption.
  - destruct m; try discriminate Epc; cbn [string_method sspec spec_string_method].
    + (* split on white space *)
      apply wsplit_cases_lemma; [|discriminate].
      cbn [proved_case] in Epc. destruct args as [|x r]; [exact I|]. destruct x; try discriminate Epc. exact I.
    + (* rsplit *)
      cbn [proved_case3] in Hp. apply negb_true_iff in Hp.
      destruct args as [|x r]; [discriminate Hp|].
      destruct x; try (apply rsplit_sep_correct_lemma; [assumption|exact I]).
      apply wsplit_cases_lemma; [exact I|intros _; exact Hp].
    + cbn [proved_case proved_case3] in *. congruence.
    + cbn [proved_case proved_case3] in *. congruence.
    + cbn [proved_case proved_case3] in *. congruence.
Qed.

(* ---- words are the same from either end: strings.Fields for rsplit without a limit *)
Definition W (s : bytes) : list bytes := wsplit s None [] false.

Lemma wsplit_app_ws a sp b : is_ws sp = true -> forall cur inw,
  wsplit (a ++ sp :: b) None cur inw = wsplit a None cur inw ++ W b.
Proof.
  intros Hsp. induction a as [|c t IH]; intros cur inw.
  - cbn [app wsplit]. rewrite Hsp. destruct inw; reflexivity.
  - cbn [app wsplit]. destruct inw.
    + destruct (is_ws c); [rewrite IH; reflexivity|apply IH].
    + destruct (is_ws c); apply IH.
Qed.

Lemma wsplit_word w : existsb is_ws w = false -> forall cur,
  wsplit w None cur true = [rev cur ++ w].
Proof.
  induction w as [|c t IH]; intros H cur.
  - cbn. rewrite app_nil_r. reflexivity.
  - cbn [existsb] in H. apply orb_false_iff in H. destruct H as [Hc Ht].
    cbn [wsplit]. rewrite Hc. rewrite IH by exact Ht. cbn [rev]. rewrite <- app_assoc. reflexivity.
Qed.

Lemma W_word w : existsb is_ws w = false -> W w = match w with [] => [] | _ => [w] end.
Proof.
  intros H. unfold W. destruct w as [|c t]; [reflexivity|].
  cbn [existsb] in H. apply orb_false_iff in H. destruct H as [Hc Ht].
  cbn [wsplit]. rewrite Hc. rewrite wsplit_word by exact Ht. reflexivity.
Qed.

Lemma existsb_rev {A} (f : A -> bool) l : existsb f (rev l) = existsb f l.
Proof.
  induction l as [|x r IH]; [reflexivity|]. cbn [rev existsb].
  rewrite existsb_app, IH. cbn [existsb]. rewrite orb_false_r. apply orb_comm.
Qed.

Lemma W_rev : forall n s, (length s <= n)%nat -> W (rev s) = rev (map (@rev N) (W s)).
Proof.
  induction n as [|n IH]; intros s Hn.
  - destruct s; [reflexivity|cbn in Hn; lia].
  - destruct (existsb is_ws s) eqn:E.
    + apply existsb_exists in E. destruct E as (sp & Hin & Hsp).
      apply in_split in Hin. destruct Hin as (a & b & ->).
      rewrite app_length in Hn. cbn [length] in Hn.
      rewrite rev_app_distr. cbn [rev]. rewrite <- app_assoc. cbn [app].
      unfold W at 1. rewrite (wsplit_app_ws (rev b) sp (rev a) Hsp).
      fold (W (rev b)). rewrite !IH by lia.
      unfold W at 3. rewrite (wsplit_app_ws a sp b Hsp). fold (W a).
      rewrite map_app, rev_app_distr. reflexivity.
    + rewrite W_word by (rewrite existsb_rev; exact E). rewrite (W_word s E).
      destruct s as [|c t]; [reflexivity|].
      destruct (rev (c :: t)) eqn:Er; [apply (f_equal (@length N)) in Er; rewrite rev_length in Er; discriminate|].
      rewrite <- Er. reflexivity.
Qed.

Lemma fields_rev s : fields s = rwsplit_spec s None.
Proof.
  unfold rwsplit_spec, wsplit_spec. fold (W (rev s)).
  rewrite (W_rev (length s) s ltac:(lia)).
  rewrite map_rev, rev_involutive, map_map.
  rewrite (map_ext _ (fun x => x)) by (intros; apply rev_involutive). rewrite map_id.
  unfold fields, W. apply fields_aux_spec.
Qed.

Lemma rsplit_ws_unlimited_lemma : forall recv args,
  ws_unlimited args = true ->
  string_split recv args true = of_spec (spec_split recv args true).
Proof.
  intros recv args H. unfold string_split, spec_split, arity, int_at.
  destruct args as [|x [|y [|z r]]]; try discriminate H.
  - cbn [length Nat.leb andb negb nth_error opt_count]. change (-1 <? 0) with true. cbv iota.
    cbn [cap of_spec]. unfold str_list, strs. rewrite fields_rev. reflexivity.
  - destruct x; try discriminate H.
    cbn [length Nat.leb andb negb nth_error opt_count]. change (-1 <? 0) with true. cbv iota.
    cbn [cap of_spec]. unfold str_list, strs. rewrite fields_rev. reflexivity.
  - destruct x; try discriminate H. destruct y; try discriminate H. cbn [ws_unlimited] in H.
    cbn [length Nat.leb andb negb nth_error]. unfold opt_count. rewrite <- (in_int64_word' z).
    destruct (in_int64 z); [|reflexivity]. rewrite H.
    cbn [cap of_spec]. unfold str_list, strs. rewrite fields_rev. reflexivity.
  - destruct x; try discriminate H. destruct y; discriminate H.
Qed.

(* ---- every string method, every argument tuple except an explicit empty cutset for the strip family *)
Definition not_empty_cutset (m : meth) (args : list val) : bool :=
  match m with
  | MStrip | MLstrip | MRstrip => match args with [VStr []] => false | _ => true end
  | _ => true
  end.

Lemma string_methods_correct_lemma : forall m recv args,
  not_empty_cutset m args = true ->
  blen recv <= 2^61 ->
  string_method m recv args = of_spec (spec_string_method (sspec m) recv args).
Proof.
  intros m recv args Hp Hn.
  destruct (proved_case3 m args) eqn:E.
  - apply string_methods_correct_partial3_lemma; assumption.
  - destruct m; try (cbn [proved_case3 not_empty_cutset] in *; congruence).
    cbn [proved_case3] in E. apply negb_false_iff in E.
    cbn [string_method sspec spec_string_method]. apply rsplit_ws_unlimited_lemma. exact E.
Qed.
