(* C13 -- proofs about count, split, replace, splitlines (continues ProofsStr.v). *)
From Coq Require Import ZArith NArith List Bool Lia.
From Coq Require Import ZifyBool ZifyNat.
From SV Require Import Common.GoInt C13.Base C13.Index C13.Str C13.Spec C13.ProofsIndex C13.ProofsSlice C13.ProofsStr.
Import ListNotations.
Open Scope Z_scope.

(* ---- leftmost non-overlapping occurrences: the skip counter of the model
   against the position scan of the specification *)
Lemma occ_scan_shift c t sub cands : forall next,
  occ_scan (c :: t) sub (map S cands) next = map S (occ_scan t sub cands (Nat.pred next)).
Proof.
  induction cands as [|j r IH]; intros next; cbn [map occ_scan]; [reflexivity|].
  replace (occurs_at (c :: t) sub (S j)) with (occurs_at t sub j) by reflexivity.
  assert (Hle : Nat.leb next (S j) = Nat.leb (Nat.pred next) j).
  { destruct next; cbn; [destruct j; reflexivity|reflexivity]. }
  rewrite Hle.
  destruct (Nat.leb (Nat.pred next) j && occurs_at t sub j).
  - cbn [map]. f_equal. rewrite IH. reflexivity.
  - apply IH.
Qed.

Lemma occ_scan_nomatch s sub l : forall next,
  (forall j, In j l -> occurs_at s sub j = false) -> occ_scan s sub l next = [].
Proof.
  induction l as [|j r IH]; intros next H; cbn; [reflexivity|].
  rewrite (H j (or_introl eq_refl)), andb_false_r. apply IH. intros j' Hj. apply H. right. exact Hj.
Qed.

Lemma occ_scan_app_nomatch s sub a b : forall next,
  (forall j, In j b -> occurs_at s sub j = false) ->
  occ_scan s sub (a ++ b) next = occ_scan s sub a next.
Proof.
  induction a as [|j r IH]; intros next H; cbn [app occ_scan].
  - apply occ_scan_nomatch. exact H.
  - destruct (Nat.leb next j && occurs_at s sub j); [f_equal|]; apply IH; exact H.
Qed.

Lemma occurs_beyond s sub j :
  sub <> [] -> (length s - length sub < j)%nat \/ (length s < length sub)%nat -> occurs_at s sub j = false.
Proof.
  intros Hne H. destruct (occurs_at s sub j) eqn:E; [|reflexivity].
  rewrite occurs_at_prefix in E. apply has_prefix_len in E. rewrite skipn_length in E.
  destruct sub; [contradiction|]. cbn in *. lia.
Qed.

Lemma occ_scan_all_positions s sub next :
  sub <> [] ->
  occ_scan s sub (seq 0 (S (length s))) next = occ_scan s sub (positions s sub) next.
Proof.
  intros Hne. unfold positions.
  destruct (Nat.leb (length sub) (length s)) eqn:E.
  - apply Nat.leb_le in E.
    replace (S (length s)) with ((length s - length sub + 1) + length sub)%nat by lia.
    rewrite seq_app. apply occ_scan_app_nomatch.
    intros j Hj. apply in_seq in Hj. apply occurs_beyond; [exact Hne|]. left. lia.
  - apply Nat.leb_gt in E. cbn [occ_scan]. apply occ_scan_nomatch.
    intros j Hj. apply occurs_beyond; [exact Hne|]. right. lia.
Qed.

Lemma count_aux_spec sub : sub <> [] -> forall s k,
  count_aux s sub k = Z.of_nat (length (occ_scan s sub (seq 0 (S (length s))) k)).
Proof.
  intros Hne. induction s as [|c t IH]; intros k.
  - cbn [count_aux length seq occ_scan]. rewrite occurs_at_prefix. cbn [skipn].
    destruct sub; [contradiction|]. cbn. rewrite andb_false_r. reflexivity.
  - cbn [count_aux length]. rewrite <- cons_seq, <- seq_shift. cbn [occ_scan].
    rewrite occurs_at_prefix. cbn [skipn].
    destruct k as [|k'].
    + cbn [Nat.leb andb].
      destruct (has_prefix (c :: t) sub) eqn:Ep.
      * rewrite occ_scan_shift. cbn [length]. rewrite map_length, IH.
        replace (Nat.pred (0 + length sub)) with (length sub - 1)%nat by lia. lia.
      * rewrite occ_scan_shift, map_length, IH. reflexivity.
    + cbn [Nat.leb andb]. rewrite occ_scan_shift, map_length, IH. reflexivity.
Qed.

Lemma count_spec_eq s sub : count s sub = count_spec s sub.
Proof.
  unfold count, count_spec, blen. destruct sub as [|c sub']; [reflexivity|].
  rewrite count_aux_spec by discriminate.
  rewrite occ_scan_all_positions by discriminate. reflexivity.
Qed.

Lemma count_correct_lemma : forall recv args,
  blen recv <= 2^61 ->
  string_count recv args = of_spec (spec_string_method SCount recv args).
Proof.
  intros recv args Hn. unfold string_count. cbn [spec_string_method].
  destruct args as [|x rest]; [reflexivity|].
  destruct (args_range x rest) as [[Ha Hr] | [Ha Hr]]; rewrite Ha, Hr; cbn [negb].
  2:{ destruct x; reflexivity. }
  destruct x; try reflexivity. cbn [str_at nth_error].
  rewrite sub_range_spec by assumption.
  destruct (sub_of recv (arg_at (VStr s :: rest) 1, arg_at (VStr s :: rest) 2)) as [[off t]|]; [|reflexivity].
  cbn [of_spec]. rewrite count_spec_eq. reflexivity.
Qed.

(* ---- split with a separator *)
Definition prepend (p : bytes) (l : list bytes) : list bytes :=
  match l with [] => [p] | x :: r => (p ++ x) :: r end.

Lemma cut_nonempty s m occs from : cut s m occs from <> [].
Proof. destruct occs; cbn; discriminate. Qed.

Lemma cut_shift c t m occs : forall from,
  cut (c :: t) m (map S occs) (S from) = cut t m occs from.
Proof.
  induction occs as [|i r IH]; intros from; cbn [map cut]; [reflexivity|].
  cbn [skipn Nat.sub]. f_equal. replace (S i + m)%nat with (S (i + m)) by lia. apply IH.
Qed.

Lemma cut_shift0 c t m occs :
  cut (c :: t) m (map S occs) 0 = prepend [c] (cut t m occs 0).
Proof.
  destruct occs as [|i r]; cbn [map cut prepend skipn]; [reflexivity|].
  cbn [Nat.sub firstn app]. rewrite Nat.sub_0_r. f_equal.
  replace (S i + m)%nat with (S (i + m)) by lia. apply cut_shift.
Qed.

Lemma prepend_prepend p q l : l <> [] -> prepend p (prepend q l) = prepend (p ++ q) l.
Proof. destruct l as [|x r]; [contradiction|]. intros _. cbn. rewrite app_assoc. reflexivity. Qed.

Lemma prepend_nil l : l <> [] -> prepend [] l = l.
Proof. destruct l; [contradiction|reflexivity]. Qed.

Lemma firstn_map' {A B} (f : A -> B) l : forall k, firstn k (map f l) = map f (firstn k l).
Proof. induction l as [|x r IH]; intros [|k]; cbn; try reflexivity. rewrite IH. reflexivity. Qed.

Lemma split_aux_spec sep : sep <> [] -> forall s k skip cur,
  (skip <> 0%nat -> cur = []) ->
  split_aux s sep false k skip cur =
  prepend (rev cur) (cut s (length sep) (firstn k (occ_scan s sep (seq 0 (S (length s))) skip)) skip).
Proof.
  intros Hne. induction s as [|c t IH]; intros k skip cur Hcur.
  - cbn [split_aux length seq occ_scan]. rewrite occurs_at_prefix. cbn [skipn].
    destruct sep as [|d sep']; [contradiction|]. cbn [has_prefix]. rewrite andb_false_r.
    destruct k; cbn [firstn cut prepend]; rewrite skipn_nil, app_nil_r; reflexivity.
  - cbn [split_aux length]. rewrite <- cons_seq, <- seq_shift. cbn [occ_scan].
    rewrite occurs_at_prefix. cbn [skipn].
    destruct skip as [|j].
    + cbn [Nat.leb andb].
      destruct k as [|k'].
      * (* no splits left: the rest of the string joins the current piece *)
        rewrite IH by (intros H; contradiction). cbn [firstn cut prepend skipn rev].
        destruct (has_prefix (c :: t) sep); cbn [firstn cut prepend skipn];
          rewrite <- app_assoc; reflexivity.
      * destruct (has_prefix (c :: t) sep) eqn:Ep.
        -- rewrite occ_scan_shift. cbn [firstn]. rewrite firstn_map'. cbn [cut Nat.sub firstn prepend].
           rewrite app_nil_r. f_equal.
           replace (0 + length sep)%nat with (S (length sep - 1)) by (destruct sep; [contradiction|cbn; lia]).
           rewrite cut_shift. cbn [Nat.pred].
           rewrite IH by reflexivity. cbn [rev]. apply prepend_nil. apply cut_nonempty.
        -- rewrite occ_scan_shift. cbn [Nat.pred]. rewrite firstn_map', cut_shift0.
           rewrite IH by (intros H; contradiction). cbn [rev].
           rewrite prepend_prepend by apply cut_nonempty. reflexivity.
    + rewrite (Hcur ltac:(discriminate)). cbn [Nat.leb andb].
      rewrite occ_scan_shift. cbn [Nat.pred]. rewrite firstn_map', cut_shift.
      apply IH. reflexivity.
Qed.

Lemma occ_scan_length s sub cands : forall next, (length (occ_scan s sub cands next) <= length cands)%nat.
Proof.
  induction cands as [|j r IH]; intros next; cbn; [lia|].
  destruct (Nat.leb next j && occurs_at s sub j); cbn.
  - specialize (IH (j + length sub)%nat). lia.
  - specialize (IH next). lia.
Qed.

Lemma occurrences_length s sub : sub <> [] -> (length (occurrences s sub) <= length s)%nat.
Proof.
  intros Hne. unfold occurrences. pose proof (occ_scan_length s sub (positions s sub) 0) as H.
  unfold positions in *. destruct (Nat.leb (length sub) (length s)) eqn:E.
  - apply Nat.leb_le in E. rewrite seq_length in H.
    assert (1 <= length sub)%nat by (destruct sub; [contradiction|cbn; lia]). lia.
  - cbn. lia.
Qed.

Lemma gen_split_spec s sep n :
  sep <> [] -> n <> 0 ->
  gen_split s sep false n =
  cut s (length sep) (firstn (if n <? 0 then S (length s) else Z.to_nat (n - 1)) (occurrences s sep)) 0.
Proof.
  intros Hne Hn0. unfold gen_split.
  destruct (n =? 0) eqn:E0; [lia|].
  rewrite split_aux_spec by (try assumption; intros H; contradiction). cbn [rev].
  rewrite prepend_nil by apply cut_nonempty.
  rewrite occ_scan_all_positions by assumption. fold (occurrences s sep).
  pose proof (occurrences_length s sep Hne) as HL.
  f_equal.
  rewrite count_spec_eq. unfold count_spec, blen.
  destruct sep as [|d sep']; [contradiction|]. remember (d :: sep') as sep.
  destruct (n <? 0) eqn:E1.
  - rewrite !firstn_all2; [reflexivity|lia|].
    destruct (Z.of_nat (length (occurrences s sep)) + 1 >? Z.of_nat (length s) + 1) eqn:E2; lia.
  - destruct (n >? Z.of_nat (length s) + 1) eqn:E2.
    + rewrite !firstn_all2; [reflexivity|lia|lia].
    + reflexivity.
Qed.

Lemma in_int64_word' z : in_int64 z = word_int z.
Proof. reflexivity. Qed.

Lemma split_correct_lemma : forall recv args,
  blen recv <= 2^61 ->
  (match args with [] | VNone :: _ => False | _ => True end) ->
  string_split recv args false = of_spec (spec_split recv args false).
Proof.
  intros recv args Hn Hsep. unfold string_split, spec_split, arity, int_at, blen in *.
  destruct args as [|x [|y [|z r]]]; try contradiction.
  - (* one argument: the separator *)
    cbn [length Nat.leb andb negb nth_error opt_count].
    destruct x; try contradiction; try reflexivity.
    destruct s as [|d sep']; [reflexivity|]. remember (d :: sep') as sep.
    change (-1 <? 0) with true. cbv iota. cbn [cap of_spec]. unfold str_list, strs, go_split, split_spec.
    rewrite gen_split_spec by (subst; discriminate || lia).
    change (-1 <? 0) with true. cbv iota. cbn [limit].
    rewrite firstn_all2; [subst; reflexivity|].
    pose proof (occurrences_length recv sep ltac:(subst; discriminate)). lia.
  - cbn [length Nat.leb andb negb nth_error].
    destruct x; try contradiction;
      try (destruct y; try reflexivity; match goal with |- context[in_int64 ?q] => destruct (in_int64 q) end; reflexivity).
    destruct y; try reflexivity.
    unfold opt_count. rewrite <- (in_int64_word' z).
    destruct (in_int64 z) eqn:Ez; [|reflexivity].
    destruct s as [|d sep']; [destruct (z <? 0); reflexivity|]. remember (d :: sep') as sep.
    assert (Hne : sep <> []) by (subst; discriminate).
    pose proof (occurrences_length recv sep Hne) as HL.
    unfold in_int64, min_int64, max_int64 in Ez.
    destruct (z <? 0) eqn:E1.
    + cbn [cap of_spec]. unfold str_list, strs, go_split, split_spec.
      rewrite gen_split_spec by (assumption || lia).
      change (-1 <? 0) with true. cbv iota. cbn [limit].
      rewrite firstn_all2 by lia. subst; reflexivity.
    + cbn [cap of_spec]. unfold str_list, strs, go_split_n, split_spec. cbn [limit].
      destruct (Z.eq_dec z 9223372036854775807) as [->|Hz].
      * (* maxsplit+1 wraps to a negative n: all pieces *)
        change (wrap64 (9223372036854775807 + 1)) with (-9223372036854775808).
        rewrite gen_split_spec by (assumption || lia).
        change (-9223372036854775808 <? 0) with true. cbv iota.
        rewrite !firstn_all2 by lia. subst; reflexivity.
      * rewrite wrap64_small by lia.
        rewrite gen_split_spec by (assumption || lia).
        destruct (z + 1 <? 0) eqn:E2; [lia|].
        destruct (Z_le_gt_dec z (Z.of_nat (length recv))) as [Hle|Hgt].
        -- replace (Z.to_nat (Z.min z (Z.of_nat (S (length recv))))) with (Z.to_nat (z + 1 - 1)) by lia.
           subst; reflexivity.
        -- rewrite !firstn_all2 by lia. subst; reflexivity.
  - cbn. destruct x; try contradiction; destruct y; try reflexivity;
      match goal with |- context[in_int64 ?q] => destruct (in_int64 q) end; reflexivity.
Qed.
