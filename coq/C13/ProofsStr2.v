(* C13 -- proofs about count, split, replace, splitlines (continues ProofsStr.v). *)
From Coq Require Import ZArith NArith List Bool Lia.
From Coq Require Import ZifyBool ZifyNat.
From SV Require Import Common.GoInt C13.Base C13.Index C13.Str C13.Spec C13.ProofsIndex C13.ProofsSlice C13.ProofsStr.
Import ListNotations.
Open Scope Z_scope.

(* ---- leftmost non-overlapping occurrences: the skip counter of the model
   against the position scan of the specification *)
Lemma occ_scan_shift c t sub cands : forall next,
  occ_scan (c :: t) sub (map S cands) next = map S (occ_scan t sub cands (Nat.pred next)).
Proof.
  induction cands as [|j r IH]; intros next; cbn [map occ_scan]; [reflexivity|].
  replace (occurs_at (c :: t) sub (S j)) with (occurs_at t sub j) by reflexivity.
  assert (Hle : Nat.leb next (S j) = Nat.leb (Nat.pred next) j).
  { destruct next; cbn; [destruct j; reflexivity|reflexivity]. }
  rewrite Hle.
  destruct (Nat.leb (Nat.pred next) j && occurs_at t sub j).
  - cbn [map]. f_equal. rewrite IH. reflexivity.
  - apply IH.
Qed.

Lemma occ_scan_nomatch s sub l : forall next,
  (forall j, In j l -> occurs_at s sub j = false) -> occ_scan s sub l next = [].
Proof.
  induction l as [|j r IH]; intros next H; cbn; [reflexivity|].
  rewrite (H j (or_introl eq_refl)), andb_false_r. apply IH. intros j' Hj. apply H. right. exact Hj.
Qed.

Lemma occ_scan_app_nomatch s sub a b : forall next,
  (forall j, In j b -> occurs_at s sub j = false) ->
  occ_scan s sub (a ++ b) next = occ_scan s sub a next.
Proof.
  induction a as [|j r IH]; intros next H; cbn [app occ_scan].
  - apply occ_scan_nomatch. exact H.
  - destruct (Nat.leb next j && occurs_at s sub j); [f_equal|]; apply IH; exact H.
Qed.

Lemma occurs_beyond s sub j :
  sub <> [] -> (length s - length sub < j)%nat \/ (length s < length sub)%nat -> occurs_at s sub j = false.
Proof.
  intros Hne H. destruct (occurs_at s sub j) eqn:E; [|reflexivity].
  rewrite occurs_at_prefix in E. apply has_prefix_len in E. rewrite skipn_length in E.
  destruct sub; [contradiction|]. cbn in *. lia.
Qed.

Lemma occ_scan_all_positions s sub next :
  sub <> [] ->
  occ_scan s sub (seq 0 (S (length s))) next = occ_scan s sub (positions s sub) next.
Proof.
  intros Hne. unfold positions.
  destruct (Nat.leb (length sub) (length s)) eqn:E.
  - apply Nat.leb_le in E.
    replace (S (length s)) with ((length s - length sub + 1) + length sub)%nat by lia.
    rewrite seq_app. apply occ_scan_app_nomatch.
    intros j Hj. apply in_seq in Hj. apply occurs_beyond; [exact Hne|]. left. lia.
  - apply Nat.leb_gt in E. cbn [occ_scan]. apply occ_scan_nomatch.
    intros j Hj. apply occurs_beyond; [exact Hne|]. right. lia.
Qed.

Lemma count_aux_spec sub : sub <> [] -> forall s k,
  count_aux s sub k = Z.of_nat (length (occ_scan s sub (seq 0 (S (length s))) k)).
Proof.
  intros Hne. induction s as [|c t IH]; intros k.
  - cbn [count_aux length seq occ_scan]. rewrite occurs_at_prefix. cbn [skipn].
    destruct sub; [contradiction|]. cbn. rewrite andb_false_r. reflexivity.
  - cbn [count_aux length]. rewrite <- cons_seq, <- seq_shift. cbn [occ_scan].
    rewrite occurs_at_prefix. cbn [skipn].
    destruct k as [|k'].
    + cbn [Nat.leb andb].
      destruct (has_prefix (c :: t) sub) eqn:Ep.
      * rewrite occ_scan_shift. cbn [length]. rewrite map_length, IH.
        replace (Nat.pred (0 + length sub)) with (length sub - 1)%nat by lia. lia.
      * rewrite occ_scan_shift, map_length, IH. reflexivity.
    + cbn [Nat.leb andb]. rewrite occ_scan_shift, map_length, IH. reflexivity.
Qed.

Lemma count_spec_eq s sub : count s sub = count_spec s sub.
Proof.
  unfold count, count_spec, blen. destruct sub as [|c sub']; [reflexivity|].
  rewrite count_aux_spec by discriminate.
  rewrite occ_scan_all_positions by discriminate. reflexivity.
Qed.

Lemma count_correct_lemma : forall recv args,
  blen recv <= 2^61 ->
  string_count recv args = of_spec (spec_string_method SCount recv args).
Proof.
  intros recv args Hn. unfold string_count. cbn [spec_string_method].
  destruct args as [|x rest]; [reflexivity|].
  destruct (args_range x rest) as [[Ha Hr] | [Ha Hr]]; rewrite Ha, Hr; cbn [negb].
  2:{ destruct x; reflexivity. }
  destruct x; try reflexivity. cbn [str_at nth_error].
  rewrite sub_range_spec by assumption.
  destruct (sub_of recv (arg_at (VStr s :: rest) 1, arg_at (VStr s :: rest) 2)) as [[off t]|]; [|reflexivity].
  cbn [of_spec]. rewrite count_spec_eq. reflexivity.
Qed.

(* ---- split with a separator *)
Definition prepend (p : bytes) (l : list bytes) : list bytes :=
  match l with [] => [p] | x :: r => (p ++ x) :: r end.

Lemma cut_nonempty s m occs from : cut s m occs from <> [].
Proof. destruct occs; cbn; discriminate. Qed.

Lemma cut_shift c t m occs : forall from,
  cut (c :: t) m (map S occs) (S from) = cut t m occs from.
Proof.
  induction occs as [|i r IH]; intros from; cbn [map cut]; [reflexivity|].
  cbn [skipn Nat.sub]. f_equal. replace (S i + m)%nat with (S (i + m)) by lia. apply IH.
Qed.

Lemma cut_shift0 c t m occs :
  cut (c :: t) m (map S occs) 0 = prepend [c] (cut t m occs 0).
Proof.
  destruct occs as [|i r]; cbn [map cut prepend skipn]; [reflexivity|].
  cbn [Nat.sub firstn app]. rewrite Nat.sub_0_r. f_equal.
  replace (S i + m)%nat with (S (i + m)) by lia. apply cut_shift.
Qed.

Lemma prepend_prepend p q l : l <> [] -> prepend p (prepend q l) = prepend (p ++ q) l.
Proof. destruct l as [|x r]; [contradiction|]. intros _. cbn. rewrite app_assoc. reflexivity. Qed.

Lemma prepend_nil l : l <> [] -> prepend [] l = l.
Proof. destruct l; [contradiction|reflexivity]. Qed.

Lemma firstn_map' {A B} (f : A -> B) l : forall k, firstn k (map f l) = map f (firstn k l).
Proof. induction l as [|x r IH]; intros [|k]; cbn; try reflexivity. rewrite IH. reflexivity. Qed.

Lemma split_aux_spec sep : sep <> [] -> forall s k skip cur,
  (skip <> 0%nat -> cur = []) ->
  split_aux s sep false k skip cur =
  prepend (rev cur) (cut s (length sep) (firstn k (occ_scan s sep (seq 0 (S (length s))) skip)) skip).
Proof.
  intros Hne. induction s as [|c t IH]; intros k skip cur Hcur.
  - cbn [split_aux length seq occ_scan]. rewrite occurs_at_prefix. cbn [skipn].
    destruct sep as [|d sep']; [contradiction|]. cbn [has_prefix]. rewrite andb_false_r.
    destruct k; cbn [firstn cut prepend]; rewrite skipn_nil, app_nil_r; reflexivity.
  - cbn [split_aux length]. rewrite <- cons_seq, <- seq_shift. cbn [occ_scan].
    rewrite occurs_at_prefix. cbn [skipn].
    destruct skip as [|j].
    + cbn [Nat.leb andb].
      destruct k as [|k'].
      * (* no splits left: the rest of the string joins the current piece *)
        rewrite IH by (intros H; contradiction). cbn [firstn cut prepend skipn rev].
        destruct (has_prefix (c :: t) sep); cbn [firstn cut prepend skipn];
          rewrite <- app_assoc; reflexivity.
      * destruct (has_prefix (c :: t) sep) eqn:Ep.
        -- rewrite occ_scan_shift. cbn [firstn]. rewrite firstn_map'. cbn [cut Nat.sub firstn prepend].
           rewrite app_nil_r. f_equal.
           replace (0 + length sep)%nat with (S (length sep - 1)) by (destruct sep; [contradiction|cbn; lia]).
           rewrite cut_shift. cbn [Nat.pred].
           rewrite IH by reflexivity. cbn [rev]. apply prepend_nil. apply cut_nonempty.
        -- rewrite occ_scan_shift. cbn [Nat.pred]. rewrite firstn_map', cut_shift0.
           rewrite IH by (intros H; contradiction). cbn [rev].
           rewrite prepend_prepend by apply cut_nonempty. reflexivity.
    + rewrite (Hcur ltac:(discriminate)). cbn [Nat.leb andb].
      rewrite occ_scan_shift. cbn [Nat.pred]. rewrite firstn_map', cut_shift.
      apply IH. reflexivity.
Qed.

Lemma occ_scan_length s sub cands : forall next, (length (occ_scan s sub cands next) <= length cands)%nat.
Proof.
  induction cands as [|j r IH]; intros next; cbn; [lia|].
  destruct (Nat.leb next j && occurs_at s sub j); cbn.
  - specialize (IH (j + length sub)%nat). lia.
  - specialize (IH next). lia.
Qed.

Lemma occurrences_length s sub : sub <> [] -> (length (occurrences s sub) <= length s)%nat.
Proof.
  intros Hne. unfold occurrences. pose proof (occ_scan_length s sub (positions s sub) 0) as H.
  unfold positions in *. destruct (Nat.leb (length sub) (length s)) eqn:E.
  - apply Nat.leb_le in E. rewrite seq_length in H.
    assert (1 <= length sub)%nat by (destruct sub; [contradiction|cbn; lia]). lia.
  - cbn. lia.
Qed.

Lemma gen_split_spec s sep n :
  sep <> [] -> n <> 0 ->
  gen_split s sep false n =
  cut s (length sep) (firstn (if n <? 0 then S (length s) else Z.to_nat (n - 1)) (occurrences s sep)) 0.
Proof.
  intros Hne Hn0. unfold gen_split.
  destruct (n =? 0) eqn:E0; [lia|].
  rewrite split_aux_spec by (try assumption; intros H; contradiction). cbn [rev].
  rewrite prepend_nil by apply cut_nonempty.
  rewrite occ_scan_all_positions by assumption. fold (occurrences s sep).
  pose proof (occurrences_length s sep Hne) as HL.
  f_equal.
  rewrite count_spec_eq. unfold count_spec, blen.
  destruct sep as [|d sep']; [contradiction|]. remember (d :: sep') as sep.
  destruct (n <? 0) eqn:E1.
  - rewrite !firstn_all2; [reflexivity|lia|].
    destruct (Z.of_nat (length (occurrences s sep)) + 1 >? Z.of_nat (length s) + 1) eqn:E2; lia.
  - destruct (n >? Z.of_nat (length s) + 1) eqn:E2.
    + rewrite !firstn_all2; [reflexivity|lia|lia].
    + reflexivity.
Qed.

Lemma in_int64_word' z : in_int64 z = word_int z.
Proof. reflexivity. Qed.

Lemma split_correct_lemma : forall recv args,
  blen recv <= 2^61 ->
  (match args with [] | VNone :: _ => False | _ => True end) ->
  string_split recv args false = of_spec (spec_split recv args false).
Proof.
  intros recv args Hn Hsep. unfold string_split, spec_split, arity, int_at, blen in *.
  destruct args as [|x [|y [|z r]]]; try contradiction.
  - (* one argument: the separator *)
    cbn [length Nat.leb andb negb nth_error opt_count].
    destruct x; try contradiction; try reflexivity.
    destruct s as [|d sep']; [reflexivity|]. remember (d :: sep') as sep.
    change (-1 <? 0) with true. cbv iota. cbn [cap of_spec]. unfold str_list, strs, go_split, split_spec.
    rewrite gen_split_spec by (subst; discriminate || lia).
    change (-1 <? 0) with true. cbv iota. cbn [limit].
    rewrite firstn_all2; [subst; reflexivity|].
    pose proof (occurrences_length recv sep ltac:(subst; discriminate)). lia.
  - cbn [length Nat.leb andb negb nth_error].
    destruct x; try contradiction;
      try (destruct y; try reflexivity; match goal with |- context[in_int64 ?q] => destruct (in_int64 q) end; reflexivity).
    destruct y; try reflexivity.
    unfold opt_count. rewrite <- (in_int64_word' z).
    destruct (in_int64 z) eqn:Ez; [|reflexivity].
    destruct s as [|d sep']; [destruct (z <? 0); reflexivity|]. remember (d :: sep') as sep.
    assert (Hne : sep <> []) by (subst; discriminate).
    pose proof (occurrences_length recv sep Hne) as HL.
    unfold in_int64, min_int64, max_int64 in Ez.
    destruct (z <? 0) eqn:E1.
    + cbn [cap of_spec]. unfold str_list, strs, go_split, split_spec.
      rewrite gen_split_spec by (assumption || lia).
      change (-1 <? 0) with true. cbv iota. cbn [limit].
      rewrite firstn_all2 by lia. subst; reflexivity.
    + cbn [cap of_spec]. unfold str_list, strs, go_split_n, split_spec. cbn [limit].
      destruct (Z.eq_dec z 9223372036854775807) as [->|Hz].
      * (* maxsplit+1 wraps to a negative n: all pieces *)
        change (wrap64 (9223372036854775807 + 1)) with (-9223372036854775808).
        rewrite gen_split_spec by (assumption || lia).
        change (-9223372036854775808 <? 0) with true. cbv iota.
        rewrite !firstn_all2 by lia. subst; reflexivity.
      * rewrite wrap64_small by lia.
        rewrite gen_split_spec by (assumption || lia).
        destruct (z + 1 <? 0) eqn:E2; [lia|].
        destruct (Z_le_gt_dec z (Z.of_nat (length recv))) as [Hle|Hgt].
        -- replace (Z.to_nat (Z.min z (Z.of_nat (S (length recv))))) with (Z.to_nat (z + 1 - 1)) by lia.
           subst; reflexivity.
        -- rewrite !firstn_all2 by lia. subst; reflexivity.
  - cbn. destruct x; try contradiction; destruct y; try reflexivity;
      match goal with |- context[in_int64 ?q] => destruct (in_int64 q) end; reflexivity.
Qed.

(* ---- replace *)
Lemma split_aux_nonempty s sep k skip cur : split_aux s sep false k skip cur <> [].
Proof.
  revert k skip cur. induction s as [|c t IH]; intros k skip cur; cbn [split_aux]; [discriminate|].
  destruct skip; [|apply IH]. destruct k; [apply IH|]. destruct (has_prefix (c :: t) sep); [intro HH; discriminate HH|apply IH].
Qed.

Lemma split_aux_cur sep : sep <> [] -> forall s k cur,
  split_aux s sep false k 0 cur = prepend (rev cur) (split_aux s sep false k 0 []).
Proof.
  intros Hne s k cur.
  rewrite (split_aux_spec sep Hne s k 0 cur) by (intros H; contradiction).
  rewrite (split_aux_spec sep Hne s k 0 []) by (intros H; contradiction).
  cbn [rev]. rewrite (prepend_nil (cut _ _ _ _)) by apply cut_nonempty. reflexivity.
Qed.

Lemma concat_with_prepend new c l : l <> [] -> concat_with new (prepend [c] l) = c :: concat_with new l.
Proof. destruct l as [|x r]; [contradiction|]. intros _. cbn. destruct r; reflexivity. Qed.

Lemma replace_aux_spec old new : old <> [] -> forall s k skip,
  replace_aux s old new k skip = concat_with new (split_aux s old false k skip []).
Proof.
  intros Hne. induction s as [|c t IH]; intros k skip; cbn [replace_aux split_aux]; [reflexivity|].
  destruct skip as [|j]; [|apply IH].
  destruct k as [|k'].
  - rewrite (split_aux_cur old Hne t 0 [c]). cbn [rev app].
    rewrite concat_with_prepend by apply split_aux_nonempty. rewrite IH. reflexivity.
  - destruct (has_prefix (c :: t) old).
    + cbn [rev app]. rewrite IH.
      destruct (split_aux t old false k' (length old - 1) []) eqn:E; [exfalso; eapply split_aux_nonempty; exact E|].
      cbn [concat_with app]. reflexivity.
    + rewrite (split_aux_cur old Hne t (S k') [c]). cbn [rev app].
      rewrite concat_with_prepend by apply split_aux_nonempty. rewrite IH. reflexivity.
Qed.

(* joining the pieces with the separator gives the string back *)
Fixpoint valid_occs (s sep : bytes) (from : nat) (l : list nat) : Prop :=
  match l with
  | [] => True
  | i :: r => (from <= i)%nat /\ occurs_at s sep i = true /\ valid_occs s sep (i + length sep) r
  end.

Lemma occ_scan_valid s sep cands : forall next, valid_occs s sep next (occ_scan s sep cands next).
Proof.
  induction cands as [|j r IH]; intros next; cbn [occ_scan]; [exact I|].
  destruct (Nat.leb next j && occurs_at s sep j) eqn:E; [|apply IH].
  apply andb_true_iff in E. destruct E as [E1 E2]. apply Nat.leb_le in E1.
  cbn. repeat split; [exact E1|exact E2|apply IH].
Qed.

Lemma valid_firstn s sep l : forall from k, valid_occs s sep from l -> valid_occs s sep from (firstn k l).
Proof.
  induction l as [|i r IH]; intros from k H; destruct k; cbn; try exact I.
  destruct H as (H1 & H2 & H3). repeat split; try assumption. apply IH. exact H3.
Qed.

Lemma skipn_plus {A} (l : list A) : forall a b, skipn (a + b) l = skipn b (skipn a l).
Proof.
  induction l as [|x r IH]; intros a b.
  - rewrite !skipn_nil. reflexivity.
  - destruct a as [|a']; [reflexivity|]. cbn [Nat.add skipn]. apply IH.
Qed.

Lemma concat_cut s sep l : forall from,
  valid_occs s sep from l -> concat_with sep (cut s (length sep) l from) = skipn from s.
Proof.
  induction l as [|i r IH]; intros from H; cbn [cut concat_with]; [reflexivity|].
  destruct H as (H1 & H2 & H3).
  destruct (cut s (length sep) r (i + length sep)) eqn:Ec; [exfalso; eapply cut_nonempty; exact Ec|].
  rewrite <- Ec, IH by exact H3.
  rewrite occurs_at_prefix in H2. apply has_prefix_app in H2. destruct H2 as [t Ht].
  assert (Hs : skipn (i + length sep) s = t).
  { rewrite skipn_plus, Ht, skipn_app, skipn_all, Nat.sub_diag. reflexivity. }
  rewrite Hs, <- Ht.
  replace i with (from + (i - from))%nat at 2 by lia.
  rewrite skipn_plus. apply firstn_skipn.
Qed.

Lemma weave_spec s new k : replace_empty s new k = weave s new k.
Proof.
  revert s. induction k as [|k IH]; intros s; [destruct s; reflexivity|].
  destruct s as [|c t]; cbn; [apply app_nil_r|]. rewrite IH. reflexivity.
Qed.

Lemma weave_nil s k : weave s [] k = s.
Proof. revert s. induction k as [|k IH]; intros s; [destruct s; reflexivity|]. destruct s; cbn; [reflexivity|]. rewrite IH. reflexivity. Qed.

Lemma weave_0 s new : weave s new 0 = s.
Proof. destruct s; reflexivity. Qed.

Lemma nonempty_match {A B} (l : list A) (a b : B) :
  l <> [] -> match l with [] => a | _ :: _ => b end = b.
Proof. destruct l; [contradiction|reflexivity]. Qed.

Lemma go_replace_empty s new n :
  in_int64 n = true ->
  go_replace s [] new n =
  replace_spec s [] new (cap (if n <? 0 then None else Some n) (S (length s))).
Proof.
  intros Hn. unfold go_replace, replace_spec.
  rewrite (count_spec_eq s []). unfold count_spec.
  destruct (bytes_eqb [] new) eqn:Eb.
  - apply bytes_eqb_eq in Eb. subst new. cbn [orb]. rewrite weave_nil. reflexivity.
  - cbn [orb]. destruct (n =? 0) eqn:E0.
    + assert (n = 0) by lia. subst n. change (0 <? 0) with false. cbv iota. cbn [cap].
      replace (Z.to_nat (Z.min 0 (Z.of_nat (S (length s))))) with 0%nat by lia.
      symmetry. apply weave_0.
    + destruct (Z.of_nat (length s) + 1 =? 0) eqn:E1; [lia|].
      rewrite weave_spec. destruct (n <? 0) eqn:E2; cbn [orb cap].
      * f_equal. lia.
      * destruct (Z.of_nat (length s) + 1 <? n) eqn:E3; f_equal; lia.
Qed.

Lemma go_replace_nonempty s old new n :
  old <> [] -> in_int64 n = true ->
  go_replace s old new n =
  replace_spec s old new (cap (if n <? 0 then None else Some n) (S (length s))).
Proof.
  intros Hne Hn. unfold go_replace, replace_spec.
  rewrite !nonempty_match by assumption.
  pose proof (occurrences_length s old Hne) as HL.
  unfold split_spec.
  destruct (bytes_eqb old new) eqn:Eb.
  - apply bytes_eqb_eq in Eb. subst new. cbn [orb]. symmetry.
    rewrite concat_cut; [reflexivity|].
    destruct (n <? 0); cbn [cap limit]; [|apply valid_firstn]; apply occ_scan_valid.
  - cbn [orb]. destruct (n =? 0) eqn:E0.
    + assert (n = 0) by lia. subst n. change (0 <? 0) with false. cbv iota. cbn [cap limit].
      replace (Z.to_nat (Z.min 0 (Z.of_nat (S (length s))))) with 0%nat by lia.
      cbn [firstn cut concat_with skipn]. reflexivity.
    + rewrite count_spec_eq. unfold count_spec. rewrite nonempty_match by assumption.
      destruct (Z.of_nat (length (occurrences s old)) =? 0) eqn:E1.
      * assert (Ho : occurrences s old = []) by (destruct (occurrences s old); [reflexivity|cbn in E1; lia]).
        rewrite Ho. destruct (n <? 0); cbn [cap limit]; [|rewrite firstn_nil]; reflexivity.
      * rewrite replace_aux_spec by assumption.
        rewrite split_aux_spec by (try assumption; intros H; contradiction).
        cbn [rev]. rewrite prepend_nil by apply cut_nonempty.
        rewrite occ_scan_all_positions by assumption. fold (occurrences s old).
        f_equal. f_equal.
        destruct (n <? 0) eqn:E2; cbn [orb cap limit].
        -- apply firstn_all2. lia.
        -- destruct (Z.of_nat (length (occurrences s old)) <? n) eqn:E3.
           ++ rewrite !firstn_all2 by lia. reflexivity.
           ++ f_equal. lia.
Qed.

Lemma go_replace_spec s old new n :
  in_int64 n = true ->
  go_replace s old new n =
  replace_spec s old new (cap (if n <? 0 then None else Some n) (S (length s))).
Proof.
  intros Hn. destruct old as [|d old'].
  - apply go_replace_empty. exact Hn.
  - apply go_replace_nonempty; [discriminate|exact Hn].
Qed.

Lemma replace_correct_lemma : forall recv args,
  string_replace recv args = of_spec (spec_string_method SReplace recv args).
Proof.
  intros recv args. unfold string_replace, arity, int_at. cbn [spec_string_method].
  destruct args as [|a [|b [|c [|d r]]]]; try reflexivity.
  - cbn. destruct a; reflexivity.
  - cbn [length Nat.leb andb negb str_at nth_error opt_count].
    destruct a; try reflexivity. destruct b; try reflexivity.
    cbn [of_spec]. do 2 f_equal.
    rewrite (go_replace_spec recv s s0 (-1) eq_refl). reflexivity.
  - cbn [length Nat.leb andb negb str_at nth_error].
    destruct a; try reflexivity; destruct b; try reflexivity.
    unfold opt_count. destruct c; try reflexivity.
    rewrite <- (in_int64_word' z). destruct (in_int64 z) eqn:Ez; [|reflexivity].
    cbn [of_spec]. do 2 f_equal. apply go_replace_spec. exact Ez.
  - cbn. destruct a; try reflexivity. destruct b; try reflexivity. destruct c; reflexivity.
Qed.

(* ---- splitlines *)
Fixpoint lines_raw (s : bytes) (save : bool) (cur : bytes) : list bytes :=
  match s with
  | [] => [rev cur]
  | c :: t => if N.eqb 10 c
              then (rev cur ++ (if save then [10%N] else [])) :: lines_raw t save []
              else lines_raw t save (c :: cur)
  end.
Fixpoint ends_nl (s cur : bytes) : bool :=
  match s with
  | [] => match cur with [] => true | _ => false end
  | c :: t => if N.eqb 10 c then ends_nl t [] else ends_nl t (c :: cur)
  end.

Lemma has_prefix_nl c t : has_prefix (c :: t) [10%N] = N.eqb 10 c.
Proof. cbn. destruct t; apply andb_true_r. Qed.

Lemma count_aux_nonneg s sub k : 0 <= count_aux s sub k.
Proof.
  revert k. induction s as [|c t IH]; intros k; cbn [count_aux]; [lia|].
  destruct k; [|apply IH]. destruct (has_prefix (c :: t) sub); [specialize (IH (length sub - 1)%nat); lia|apply IH].
Qed.

Lemma split_aux_lines save : forall s k cur,
  count_aux s [10%N] 0 <= Z.of_nat k ->
  split_aux s [10%N] save k 0 cur = lines_raw s save cur.
Proof.
  induction s as [|c t IH]; intros k cur Hk; [reflexivity|].
  cbn [split_aux lines_raw]. cbn [count_aux] in Hk. rewrite has_prefix_nl in *.
  change (length [10%N] - 1)%nat with 0%nat in *.
  pose proof (count_aux_nonneg t [10%N] 0) as Hc.
  destruct (N.eqb 10 c) eqn:E.
  - destruct k as [|k']; [lia|]. f_equal. apply IH. lia.
  - destruct k as [|k']; apply IH; lia.
Qed.

Lemma lines_raw_spec save : forall s cur,
  lines_raw s save cur = lines s save cur ++ (if ends_nl s cur then [[]] else []).
Proof.
  induction s as [|c t IH]; intros cur; cbn [lines_raw lines ends_nl].
  - destruct cur; reflexivity.
  - rewrite (N.eqb_sym c 10). destruct (N.eqb 10 c) eqn:E.
    + rewrite IH. cbn [app]. f_equal. apply N.eqb_eq in E. subst c.
      destruct save; cbn [rev]; [reflexivity|apply app_nil_r].
    + apply IH.
Qed.

Lemma ends_nl_suffix : forall s cur, s <> [] -> ends_nl s cur = has_suffix s [10%N].
Proof.
  induction s as [|c t IH]; intros cur Hne; [contradiction|].
  cbn [ends_nl]. destruct t as [|d t'].
  - unfold has_suffix. cbn. destruct (N.eqb 10 c); reflexivity.
  - assert (Ht : has_suffix (c :: d :: t') [10%N] = has_suffix (d :: t') [10%N]).
    { unfold has_suffix. cbn [rev]. 
      destruct (rev t' ++ [d]) as [|x r] eqn:Er; [destruct (rev t'); discriminate|].
      cbn [app has_prefix rev]. f_equal. destruct r; reflexivity. }
    rewrite Ht. destruct (N.eqb 10 c); apply IH; discriminate.
Qed.

Lemma splitlines_correct_lemma : forall recv args,
  blen recv <= 2^61 ->
  string_splitlines recv args = of_spec (spec_string_method SSplitlines recv args).
Proof.
  intros recv args Hn. unfold string_splitlines, arity, bool_at. cbn [spec_string_method].
  assert (Hcore : forall keep : bool, recv <> [] ->
            (let ls := if keep then go_split_after recv [10%N] else go_split recv [10%N] in
             if has_suffix recv [10%N] then removelast ls else ls) = lines recv keep []).
  { intros keep Hne. cbv zeta.
    assert (Hg : forall save, gen_split recv [10%N] save (-1) = lines_raw recv save []).
    { intros save. unfold gen_split. change (-1 =? 0) with false. change (-1 <? 0) with true. cbv iota.
      apply split_aux_lines. unfold count.
      pose proof (count_aux_nonneg recv [10%N] 0) as Hc.
      assert (Hle : count_aux recv [10%N] 0 <= blen recv).
      { pose proof (count_spec_eq recv [10%N]) as H1. unfold count, count_spec in H1. rewrite H1.
        pose proof (occurrences_length recv [10%N] ltac:(discriminate)). unfold blen. lia. }
      destruct (count_aux recv [10%N] 0 + 1 >? blen recv + 1) eqn:E; lia. }
    unfold go_split_after, go_split. rewrite !Hg.
    assert (Hr : (if keep then lines_raw recv true [] else lines_raw recv false []) = lines_raw recv keep [])
      by (destruct keep; reflexivity).
    rewrite Hr, lines_raw_spec, <- (ends_nl_suffix recv [] Hne).
    destruct (ends_nl recv []); [apply removelast_last|apply app_nil_r]. }
  destruct args as [|a [|b r]].
  - cbn [length Nat.leb andb negb nth_error].
    destruct recv as [|c t]; [reflexivity|]. cbn [of_spec]. unfold str_list, strs. do 3 f_equal.
    apply (Hcore false). discriminate.
  - cbn [length Nat.leb andb negb nth_error].
    destruct a; try reflexivity.
    destruct recv as [|c t]; [reflexivity|]. cbn [of_spec]. unfold str_list, strs. do 3 f_equal.
    apply (Hcore b). discriminate.
  - cbn. destruct a; reflexivity.
Qed.

(* ---- all string methods proved, as one statement *)
(* the (method, argument tuple) pairs covered by the theorem *)
Definition proved_case (m : meth) (args : list val) : bool :=
  match m with
  | MRsplit => false                                            (* not proved *)
  | MSplit => match args with [] | VNone :: _ => false | _ => true end   (* white-space splitting not proved *)
  | MStrip | MLstrip | MRstrip =>
      match args with [VStr []] => false | _ => true end       (* refuted: strip_empty_cutset_refuted *)
  | _ => true
  end.

Lemma string_methods_correct_partial2_lemma : forall m recv args,
  proved_case m args = true ->
  blen recv <= 2^61 ->
  string_method m recv args = of_spec (spec_string_method (sspec m) recv args).
Proof.
  intros m recv args Hp Hn.
  destruct (proved_method m) eqn:Epm.
  - apply string_methods_correct_partial_lemma; try assumption.
    intros Hs Hargs. subst args. destruct m; try discriminate Hs; discriminate Hp.
  - destruct m; try discriminate Epm; cbn [string_method sspec].
    + apply count_correct_lemma; assumption.
    + cbn [spec_string_method]. apply split_correct_lemma; [assumption|].
      cbn [proved_case] in Hp. destruct args as [|x r]; [discriminate|]. destruct x; try exact I. discriminate.
    + discriminate Hp.
    + apply splitlines_correct_lemma; assumption.
    + apply replace_correct_lemma.
Qed.
