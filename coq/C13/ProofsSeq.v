(* C13 -- proofs about the list methods, sequence built-ins and repetition
   (Seq.v) against Spec.v part 3. *)
From Coq Require Import ZArith NArith List Bool Lia.
From Coq Require Import ZifyBool ZifyNat.
From SV Require Import Common.GoInt C13.Base C13.Index C13.Str C13.Seq C13.Spec C13.ProofsIndex C13.ProofsSlice.
Import ListNotations.
Open Scope Z_scope.

Definition lspec (m : lmeth) : slmeth :=
  match m with
  | LAppend => SLAppend | LClear => SLClear | LExtend => SLExtend | LIndex => SLIndex
  | LInsert => SLInsert | LPop => SLPop | LRemove => SLRemove
  end.
Definition bspec (f : bfun) : sbfun :=
  match f with
  | BReversed => SBReversed | BZip => SBZip | BEnumerate => SBEnumerate | BAny => SBAny | BAll => SBAll
  end.

Lemma iterable_elems_eq v : iterable_elems v = elems_of v.
Proof. destruct v; reflexivity. Qed.

Lemma in_int64_word z : in_int64 z = word_int z.
Proof. reflexivity. Qed.

(* ---- list.index *)
Lemma zth_skipn {A} (xs : list A) i x :
  zth xs i = Some x -> 0 <= i /\ skipn (Z.to_nat i) xs = x :: skipn (S (Z.to_nat i)) xs.
Proof.
  unfold zth. destruct (i <? 0) eqn:E; [discriminate|]. intros H. split; [lia|].
  apply skipn_nth. exact H.
Qed.

Lemma first_eq_shift xs v i : first_eq xs v (S i) = option_map S (first_eq xs v i).
Proof.
  revert i. induction xs as [|x r IH]; intros i; cbn; [reflexivity|].
  destruct (val_eqb x v); [reflexivity|]. apply IH.
Qed.

Lemma index_loop_spec (xs : list val) v e :
  e <= zlen xs -> zlen xs <= B ->
  forall (m fuel : nat) i,
    0 <= i -> i + Z.of_nat m = e -> (m < fuel)%nat ->
    index_loop fuel xs i e v =
    match first_eq (firstn m (skipn (Z.to_nat i) xs)) v 0 with
    | Some k => Ok (i + Z.of_nat k)
    | None => Err
    end.
Proof.
  intros He Hn. unfold B, zlen in *.
  induction m as [|m IH]; intros fuel i Hi Hm Hf.
  - destruct fuel as [|f]; [lia|]. cbn [index_loop firstn first_eq].
    destruct (i <? e) eqn:E; [lia|reflexivity].
  - destruct fuel as [|f]; [lia|]. cbn [index_loop].
    destruct (i <? e) eqn:E; [|lia].
    destruct (valid_index xs i ltac:(lia)) as [x [Hz _]]. rewrite Hz.
    destruct (zth_skipn _ _ _ Hz) as [_ Hs]. rewrite Hs. cbn [firstn first_eq].
    destruct (val_eqb x v) eqn:Ev.
    + f_equal. lia.
    + rewrite wrap64_small by lia.
      rewrite (IH f (i + 1)) by lia.
      replace (Z.to_nat (i + 1)) with (S (Z.to_nat i)) by lia.
      rewrite first_eq_shift.
      destruct (first_eq (firstn m (skipn (S (Z.to_nat i)) xs)) v 0); cbn; [f_equal; lia|reflexivity].
Qed.

Lemma opt_range_args (args : list val) :
  (length args <= 3)%nat ->
  forall v rest, args = v :: rest ->
  opt_range rest = Some (arg_at args 1, arg_at args 2).
Proof.
  intros Hl v rest ->. unfold arg_at.
  destruct rest as [|a [|b [|c r]]]; cbn in *; try reflexivity. lia.
Qed.

Lemma list_index_correct recv args :
  zlen recv <= 2^61 ->
  list_index recv args = of_spec (spec_list_method SLIndex recv args).
Proof.
  intros Hn. change (2^61) with B in Hn. unfold list_index, spec_list_method, arity.
  destruct args as [|v rest]; [reflexivity|].
  cbn [length nth_error].
  destruct (Nat.leb 1 (S (length rest)) && Nat.leb (S (length rest)) 3) eqn:Ea.
  2:{ cbn [negb]. destruct rest as [|a [|b [|c r]]]; cbn in Ea; try discriminate. reflexivity. }
  cbn [negb].
  rewrite (opt_range_args (v :: rest) ltac:(cbn; lia) v rest eq_refl). cbn [fst snd].
  rewrite indices_clamp_lemma by (unfold zlen, B in *; lia).
  unfold subrange. fold (zlen recv).
  destruct (clamped_bounds (zlen recv) (arg_at (v :: rest) 1) (arg_at (v :: rest) 2)) as [[a b]|] eqn:Ec; [|reflexivity].
  assert (Hsub : subrange (zlen recv) (arg_at (v :: rest) 1) (arg_at (v :: rest) 2) = Some (a, Z.max a b)).
  { unfold subrange. rewrite Ec. reflexivity. }
  apply subrange_bounds in Hsub; [|unfold zlen; lia].
  assert (Ha : 0 <= a <= zlen recv).
  { lia. }
  destruct (Z_le_gt_dec a b) as [Hab|Hab].
  - rewrite (index_loop_spec recv v b ltac:(lia) Hn (Z.to_nat (b - a)) (S (length recv)) a) by (unfold zlen in *; lia).
    replace (Z.max a b) with b by lia.
    destruct (first_eq _ v 0) as [k|]; reflexivity.
  - (* end < start: the loop exits at once; the sub-range is empty *)
    replace (Z.max a b) with a by lia. replace (Z.to_nat (a - a)) with 0%nat by lia.
    cbn [index_loop firstn first_eq]. destruct (a <? b) eqn:E; [lia|]. reflexivity.
Qed.

(* ---- list.insert *)
Lemma list_insert_correct recv args :
  zlen recv <= 2^61 ->
  list_insert recv args = of_spec (spec_list_method SLInsert recv args).
Proof.
  intros Hn. change (2^61) with B in Hn. unfold B, zlen in Hn.
  unfold list_insert, spec_list_method, arity, int_at.
  destruct args as [|a [|x [|y r]]]; try reflexivity.
  { cbn. destruct a; reflexivity. }
  2:{ cbn. destruct a; reflexivity. }
  cbn [length nth_error Nat.leb andb negb].
  destruct a; try reflexivity.
  rewrite in_int64_word. destruct (word_int z) eqn:Ew; [|reflexivity].
  unfold word_int in Ew. unfold insert_pos, insert_at, zlen.
  destruct (z <? 0) eqn:E1.
  - rewrite wrap64_small by lia.
    destruct (z + Z.of_nat (length recv) >=? Z.of_nat (length recv)) eqn:E2; [lia|].
    destruct (z + Z.of_nat (length recv) <? 0) eqn:E3.
    + cbn. destruct (0 <=? Z.of_nat (length recv)) eqn:E6; [reflexivity|lia].
    + destruct (z + Z.of_nat (length recv) >? Z.of_nat (length recv)) eqn:E4; [lia|].
      destruct ((0 <=? z + Z.of_nat (length recv)) && (z + Z.of_nat (length recv) <=? Z.of_nat (length recv))) eqn:E5; [|lia].
      reflexivity.
  - rewrite ?E1.
    destruct (z >=? Z.of_nat (length recv)) eqn:E2.
    + destruct (z >? Z.of_nat (length recv)) eqn:E4.
      * rewrite Nat2Z.id. rewrite firstn_all, skipn_all. reflexivity.
      * assert (z = Z.of_nat (length recv)) by lia. subst z.
        rewrite Nat2Z.id. rewrite firstn_all, skipn_all. reflexivity.
    + destruct (z >? Z.of_nat (length recv)) eqn:E4; [lia|].
      destruct ((0 <=? z) && (z <=? Z.of_nat (length recv))) eqn:E5; [|lia].
      reflexivity.
Qed.

(* ---- list.pop *)
Lemma remove_at_spec (xs : list val) i :
  0 <= i < zlen xs ->
  remove_at xs i =
  match nth_error xs (Z.to_nat i) with
  | Some x => Ok (x, firstn (Z.to_nat i) xs ++ skipn (S (Z.to_nat i)) xs)
  | None => Panic
  end.
Proof.
  intros H. unfold remove_at, zth. destruct (i <? 0) eqn:E; [lia|].
  destruct (nth_error xs (Z.to_nat i)); [|reflexivity].
  replace (Z.to_nat (i + 1)) with (S (Z.to_nat i)) by lia. reflexivity.
Qed.

Lemma pop_at (xs : list val) (i : Z) :
  zlen xs <= B -> - B <= i <= B ->
  (let n := zlen xs in
   let i' := if i <? 0 then wrap64 (i + n) else i in
   if (i' <? 0) || (i' >=? n) then Err else remove_at xs i') =
  of_spec (let n := zlen xs in
           if (- n <=? i) && (i <? n) then
             let j := Z.to_nat (if i <? 0 then n + i else i) in
             match nth_error xs j with
             | Some x => Some (x, firstn j xs ++ skipn (S j) xs)
             | None => None
             end
           else None).
Proof.
  unfold B. intros Hn Hi. cbv zeta.
  destruct (i <? 0) eqn:E1.
  - rewrite wrap64_small by (unfold zlen in *; lia).
    destruct ((i + zlen xs <? 0) || (i + zlen xs >=? zlen xs)) eqn:E2.
    + destruct ((- zlen xs <=? i) && (i <? zlen xs)) eqn:E3; [lia|reflexivity].
    + destruct ((- zlen xs <=? i) && (i <? zlen xs)) eqn:E3; [|lia].
      rewrite remove_at_spec by lia.
      replace (zlen xs + i) with (i + zlen xs) by lia.
      destruct (nth_error xs (Z.to_nat (i + zlen xs))) eqn:En; [reflexivity|].
      apply nth_error_None in En. unfold zlen in *. lia.
  - destruct ((i <? 0) || (i >=? zlen xs)) eqn:E2.
    + destruct ((- zlen xs <=? i) && (i <? zlen xs)) eqn:E3; [lia|reflexivity].
    + destruct ((- zlen xs <=? i) && (i <? zlen xs)) eqn:E3; [|unfold zlen in *; lia].
      rewrite remove_at_spec by lia.
      destruct (nth_error xs (Z.to_nat i)) eqn:En; [reflexivity|].
      apply nth_error_None in En. unfold zlen in *. lia.
Qed.

Lemma list_pop_correct recv args :
  zlen recv <= 2^61 ->
  list_pop recv args = of_spec (spec_list_method SLPop recv args).
Proof.
  intros Hn. change (2^61) with B in Hn.
  unfold list_pop, spec_list_method, arity, int_at.
  destruct args as [|a [|x r]]; try reflexivity.
  - (* no argument: the last element *)
    cbn [length nth_error Nat.leb andb negb].
    fold (zlen recv).
    pose proof (pop_at recv (-1) Hn ltac:(unfold B; lia)) as HP. cbv zeta in HP.
    etransitivity; [|exact HP]. clear HP.
    change (-1 <? 0) with true. cbv iota.
    unfold B in Hn.
    rewrite (wrap64_small (zlen recv - 1)) by (unfold zlen in *; lia).
    destruct (zlen recv - 1 <? 0) eqn:E.
    + assert (zlen recv = 0) by (unfold zlen in *; lia).
      rewrite H. reflexivity.
    + rewrite (wrap64_small (-1 + zlen recv)) by (unfold zlen in *; lia).
      replace (-1 + zlen recv) with (zlen recv - 1) by lia. reflexivity.
  - cbn [length nth_error Nat.leb andb negb].
    destruct a; try reflexivity.
    destruct (in_int64 z) eqn:Ez.
    + fold (zlen recv).
      destruct (Z_le_gt_dec (- B) z) as [H1|H1]; [destruct (Z_le_gt_dec z B) as [H2|H2]|].
      * apply (pop_at recv z Hn). lia.
      * (* z > 2^61 >= n : both fail *)
        unfold B in *. destruct (z <? 0) eqn:E1; [lia|].
        destruct ((z <? 0) || (z >=? zlen recv)) eqn:E2; [|lia].
        destruct ((- zlen recv <=? z) && (z <? zlen recv)) eqn:E3; [lia|reflexivity].
      * unfold B, in_int64, min_int64, max_int64 in *. destruct (z <? 0) eqn:E1; [|lia].
        rewrite wrap64_small by (unfold zlen in *; lia).
        destruct ((z + zlen recv <? 0) || (z + zlen recv >=? zlen recv)) eqn:E2; [|unfold zlen in *; lia].
        destruct ((- zlen recv <=? z) && (z <? zlen recv)) eqn:E3; [unfold zlen in *; lia|reflexivity].
    + fold (zlen recv). unfold B, in_int64, min_int64, max_int64 in *.
      destruct ((- zlen recv <=? z) && (z <? zlen recv)) eqn:E3; [unfold zlen in *; lia|reflexivity].
  - cbn. destruct a; reflexivity.
Qed.

(* ---- list.remove *)
Lemma remove_loop_spec xs v :
  remove_loop xs v =
  match first_eq xs v 0 with
  | Some i => Some (firstn i xs ++ skipn (S i) xs)
  | None => None
  end.
Proof.
  induction xs as [|x r IH]; cbn; [reflexivity|].
  destruct (val_eqb x v); [reflexivity|].
  rewrite IH, first_eq_shift.
  destruct (first_eq r v 0); reflexivity.
Qed.

Lemma list_methods_correct_lemma : forall m recv args,
  zlen recv <= 2^61 ->
  list_method m recv args = of_spec (spec_list_method (lspec m) recv args).
Proof.
  intros m recv args Hn. destruct m; cbn [lspec list_method].
  - destruct args as [|a [|b r]]; reflexivity.
  - destruct args; reflexivity.
  - destruct args as [|a [|b r]]; try reflexivity. cbn.
    rewrite iterable_elems_eq. destruct (elems_of a); reflexivity.
  - apply list_index_correct; assumption.
  - apply list_insert_correct; assumption.
  - apply list_pop_correct; assumption.
  - unfold list_remove, arity. destruct args as [|a [|b r]]; try reflexivity.
    cbn. rewrite remove_loop_spec. destruct (first_eq recv a 0); reflexivity.
Qed.

(* ---- built-ins *)
Lemma any_loop_spec l : any_loop l = existsb truth l.
Proof. induction l as [|x r IH]; cbn; [reflexivity|]. destruct (truth x); [reflexivity|exact IH]. Qed.
Lemma all_loop_spec l : all_loop l = forallb truth l.
Proof. induction l as [|x r IH]; cbn; [reflexivity|]. destruct (truth x); [exact IH|reflexivity]. Qed.

Lemma enumerate_loop_spec l start : forall k,
  enumerate_loop l start (Z.of_nat k) =
  map (fun p => VTuple [VInt (start + Z.of_nat (fst p)); snd p]) (combine (seq k (length l)) l).
Proof.
  induction l as [|x r IH]; intros k; cbn; [reflexivity|].
  f_equal. replace (Z.of_nat k + 1) with (Z.of_nat (S k)) by lia. apply IH.
Qed.

Lemma all_iterables_eq args : all_iterables args = all_elems args.
Proof.
  induction args as [|v r IH]; cbn; [reflexivity|].
  rewrite iterable_elems_eq, IH. reflexivity.
Qed.

Lemma min_len_fold r : forall m,
  min_len r false (Z.of_nat m) = Z.of_nat (fold_left (fun m c' => Nat.min m (length c')) r m).
Proof.
  induction r as [|c r IH]; intros m; cbn; [reflexivity|].
  unfold zlen. destruct (Z.of_nat (length c) <? Z.of_nat m) eqn:E.
  - replace (Nat.min m (length c)) with (length c) by lia. apply IH.
  - replace (Nat.min m (length c)) with m by lia. apply IH.
Qed.

Lemma min_len_shortest cols : min_len cols true 0 = Z.of_nat (shortest cols).
Proof.
  destruct cols as [|c r]; cbn; [reflexivity|]. unfold zlen. apply min_len_fold.
Qed.

Lemma fold_min_le (r : list (list val)) : forall m,
  (fold_left (fun m c' => Nat.min m (length c')) r m <= m)%nat /\
  forall c, In c r -> (fold_left (fun m c' => Nat.min m (length c')) r m <= length c)%nat.
Proof.
  induction r as [|c r IH]; intros m; cbn.
  - split; [lia|]. intros c [].
  - destruct (IH (Nat.min m (length c))) as [H1 H2]. split; [lia|].
    intros c' [->|Hin]; [lia|]. apply H2. exact Hin.
Qed.

Lemma shortest_le cols c : In c cols -> (shortest cols <= length c)%nat.
Proof.
  destruct cols as [|c0 r]; [intros []|]. cbn.
  destruct (fold_min_le r (length c0)) as [H1 H2].
  intros [<-|Hin]; [exact H1|]. apply H2. exact Hin.
Qed.

Lemma heads_all (cols : list (list val)) :
  (forall c, In c cols -> (1 <= length c)%nat) -> heads cols = Some (map (fun c => hd VNone c) cols).
Proof.
  induction cols as [|c r IH]; intros H; cbn; [reflexivity|].
  assert (Hc : (1 <= length c)%nat) by (apply H; left; reflexivity).
  destruct c as [|x t]; [cbn in Hc; lia|].
  rewrite IH by (intros c' Hin; apply H; right; exact Hin). reflexivity.
Qed.

Lemma zip_rows_transpose rows : forall cols,
  cols <> [] -> (forall c, In c cols -> (rows <= length c)%nat) ->
  zip_rows cols rows = transpose rows cols.
Proof.
  induction rows as [|r IH]; intros cols Hne H; cbn; [reflexivity|].
  destruct cols as [|c0 cs]; [contradiction|].
  rewrite heads_all by (intros c Hin; specialize (H c Hin); lia).
  f_equal. apply IH.
  - cbn. discriminate.
  - intros c Hin. apply in_map_iff in Hin. destruct Hin as [c' [<- Hin']].
    specialize (H c' Hin'). destruct c'; cbn in *; lia.
Qed.

Lemma builtins_correct_lemma : forall f args,
  builtin f args = of_spec (spec_builtin (bspec f) args).
Proof.
  intros f args. destruct f; cbn [bspec builtin spec_builtin].
  - destruct args as [|a [|b r]]; try reflexivity.
    rewrite iterable_elems_eq. destruct (elems_of a); reflexivity.
  - rewrite all_iterables_eq. destruct (all_elems args) as [cols|]; [|reflexivity].
    cbn [of_spec]. do 2 f_equal.
    rewrite min_len_shortest, Nat2Z.id.
    destruct cols as [|c0 cs]; [reflexivity|].
    apply zip_rows_transpose; [discriminate|].
    intros c Hin. apply shortest_le. exact Hin.
  - unfold arity, int_at.
    destruct args as [|a [|b [|c r]]]; try reflexivity.
    + cbn. rewrite iterable_elems_eq. destruct (elems_of a); [|reflexivity].
      cbn. do 2 f_equal. apply (enumerate_loop_spec l 0 0%nat).
    + cbn [length nth_error Nat.leb andb negb].
      destruct b; try reflexivity.
      rewrite in_int64_word. destruct (word_int z); [|reflexivity].
      rewrite iterable_elems_eq. destruct (elems_of a); [|reflexivity].
      cbn. do 2 f_equal. apply (enumerate_loop_spec l z 0%nat).
    + cbn. destruct b; reflexivity.
  - destruct args as [|a [|b r]]; try reflexivity.
    rewrite iterable_elems_eq. destruct (elems_of a); [|reflexivity].
    cbn. rewrite any_loop_spec. reflexivity.
  - destruct args as [|a [|b r]]; try reflexivity.
    rewrite iterable_elems_eq. destruct (elems_of a); [|reflexivity].
    cbn. rewrite all_loop_spec. reflexivity.
Qed.

(* ---- repetition and concatenation *)
Lemma repeat_bytes_times {A} (xs : list A) n : repeat_bytes xs n = times n xs.
Proof. induction n as [|n IH]; cbn; [reflexivity|]. rewrite IH. reflexivity. Qed.

Lemma repeat_correct_lemma : forall (A : Type) (xs : list A) n,
  zlen xs <= 2^61 ->
  repeat_impl xs n = of_spec (repeat_spec xs n).
Proof.
  intros A xs n Hn. change (2^61) with B in Hn. unfold B, zlen in Hn.
  unfold repeat_impl, repeat_spec, max_alloc, zlen.
  destruct xs as [|x r].
  - destruct (n <=? 0); reflexivity.
  - remember (x :: r) as l eqn:El.
    assert (Hl : 1 <= Z.of_nat (length l)) by (subst l; cbn; lia).
    destruct (in_int32 n) eqn:E32; cbn [negb].
    + destruct (n <? 1) eqn:E1.
      * destruct (n <=? 0) eqn:E2; [reflexivity|lia].
      * destruct (n <=? 0) eqn:E2; [lia|].
        destruct l as [|y t]; [discriminate|].
        destruct (Z.of_nat (length (y :: t)) * n >=? 1073741824) eqn:E3;
          destruct (Z.of_nat (length (y :: t)) * n <? 1073741824) eqn:E4; try lia.
        -- reflexivity.
        -- cbn [of_spec]. rewrite repeat_bytes_times. reflexivity.
    + unfold in_int32, min_int32, max_int32 in E32.
      destruct (n <? 0) eqn:E1.
      * destruct (n <=? 0) eqn:E2; [reflexivity|lia].
      * destruct (n <=? 0) eqn:E2; [lia|].
        destruct l as [|y t]; [discriminate|].
        destruct (Z.of_nat (length (y :: t)) * n <? 1073741824) eqn:E4; [nia|reflexivity].
Qed.

Lemma star_correct_lemma : forall x y,
  (forall s, x = VStr s \/ x = VBytes s \/ y = VStr s \/ y = VBytes s -> zlen s <= 2^61) ->
  (forall l, x = VList l \/ x = VTuple l \/ y = VList l \/ y = VTuple l -> zlen l <= 2^61) ->
  binary_star x y = of_spec (spec_star x y).
Proof.
  intros x y Hs Hl. unfold binary_star, spec_star.
  destruct x, y; try reflexivity;
    try (rewrite repeat_correct_lemma by (first [apply Hs | apply Hl]; tauto));
    match goal with |- context[repeat_spec ?a ?b] => destruct (repeat_spec a b) end; reflexivity.
Qed.

Lemma plus_correct_lemma : forall x y, binary_plus x y = of_spec (spec_plus x y).
Proof. intros x y. destruct x, y; reflexivity. Qed.
