(* C13 -- string.format: the model of string_format (Format.v) computes what
   the declarative specification (FormatSpec.v) defines.  Part 1: Go's
   strings/slice primitives, `decimal`, the argument selection, the field
   split, and the piece/segment lemmas of the specification's parser.
   The loops are in ProofsFormat2.v. *)
From Coq Require Import ZArith NArith List Bool Lia ZifyBool ZifyNat ZifyN.
From SV Require Import Common.GoInt C13.Base C13.FormatBase C13.Format C13.FormatSpec.
Import ListNotations.
Open Scope Z_scope.

Ltac Zify.zify_post_hook ::= Z.to_euclidean_division_equations.

(* -------------------------------------------- IndexByte and slicing *)
Lemma flen_app a b : flen (a ++ b) = flen a + flen b.
Proof. unfold flen. rewrite app_length. lia. Qed.
Lemma flen_cons c b : flen (c :: b) = 1 + flen b.
Proof. unfold flen. cbn [length]. lia. Qed.
Lemma flen_nonneg a : 0 <= flen a.
Proof. unfold flen. lia. Qed.

Lemma index_byte_from_cases s c : forall i,
  (~ In c s /\ index_byte_from s c i = -1) \/
  (exists pre post, s = pre ++ c :: post /\ ~ In c pre /\ index_byte_from s c i = i + flen pre).
Proof.
  induction s as [|d t IH]; intro i; cbn [index_byte_from].
  - left. split; [intros []|reflexivity].
  - destruct (N.eqb_spec d c) as [E|NE].
    + right. exists [], t. subst. split; [reflexivity|]. split; [intros []|]. unfold flen; cbn; lia.
    + destruct (IH (i + 1)) as [[H1 H2]|(pre & post & H1 & H2 & H3)].
      * left. split; [|assumption]. intros [H|H]; [congruence|tauto].
      * right. exists (d :: pre), post. subst t. split; [reflexivity|]. split.
        -- intros [H|H]; [congruence|tauto].
        -- rewrite H3, flen_cons. lia.
Qed.

Lemma index_byte_cases s c :
  (~ In c s /\ index_byte s c = -1) \/
  (exists pre post, s = pre ++ c :: post /\ ~ In c pre /\ index_byte s c = flen pre).
Proof.
  unfold index_byte. destruct (index_byte_from_cases s c 0) as [H|(pre & post & H1 & H2 & H3)]; [now left|].
  right. exists pre, post. repeat split; try assumption.
Qed.

Lemma sl_to_app a b : sl_to (a ++ b) (flen a) = Some a.
Proof.
  unfold sl_to. rewrite flen_app. pose proof (flen_nonneg a). pose proof (flen_nonneg b).
  replace ((0 <=? flen a) && (flen a <=? flen a + flen b)) with true by lia.
  unfold flen. rewrite Nat2Z.id. rewrite firstn_app, Nat.sub_diag, firstn_all. cbn. now rewrite app_nil_r.
Qed.
Lemma sl_from_app a b : sl_from (a ++ b) (flen a) = Some b.
Proof.
  unfold sl_from. rewrite flen_app. pose proof (flen_nonneg a). pose proof (flen_nonneg b).
  replace ((0 <=? flen a) && (flen a <=? flen a + flen b)) with true by lia.
  unfold flen. rewrite Nat2Z.id. rewrite skipn_app, Nat.sub_diag, skipn_all. reflexivity.
Qed.
Lemma byte_at_app a c b : byte_at (a ++ c :: b) (flen a) = Some c.
Proof.
  unfold byte_at. pose proof (flen_nonneg a). replace (flen a <? 0) with false by lia.
  unfold flen. rewrite Nat2Z.id. rewrite nth_error_app2 by lia. now rewrite Nat.sub_diag.
Qed.

Lemma sl_to_app1 a c b : sl_to (a ++ c :: b) (flen a + 1) = Some (a ++ [c]).
Proof.
  replace (a ++ c :: b) with ((a ++ [c]) ++ b) by (rewrite <- app_assoc; reflexivity).
  replace (flen a + 1) with (flen (a ++ [c])) by (rewrite flen_app; unfold flen; cbn; lia).
  apply sl_to_app.
Qed.
Lemma sl_from_app1 a c b : sl_from (a ++ c :: b) (flen a + 1) = Some b.
Proof.
  replace (a ++ c :: b) with ((a ++ [c]) ++ b) by (rewrite <- app_assoc; reflexivity).
  replace (flen a + 1) with (flen (a ++ [c])) by (rewrite flen_app; unfold flen; cbn; lia).
  apply sl_from_app.
Qed.
Lemma sl_from_app2 a c d b : sl_from (a ++ c :: d :: b) (flen a + 2) = Some b.
Proof.
  replace (a ++ c :: d :: b) with ((a ++ [c; d]) ++ b) by (rewrite <- app_assoc; reflexivity).
  replace (flen a + 2) with (flen (a ++ [c; d])) by (rewrite flen_app; unfold flen; cbn; lia).
  apply sl_from_app.
Qed.
Lemma byte_at_app1 a c d b : byte_at (a ++ c :: d :: b) (flen a + 1) = Some d.
Proof.
  replace (a ++ c :: d :: b) with ((a ++ [c]) ++ d :: b) by (rewrite <- app_assoc; reflexivity).
  replace (flen a + 1) with (flen (a ++ [c])) by (rewrite flen_app; unfold flen; cbn; lia).
  apply byte_at_app.
Qed.

(* strings.Contains for one byte = membership *)
Lemma index_byte_from_nonneg s c : forall i, 0 <= i ->
  (0 <=? index_byte_from s c i) = existsb (N.eqb c) s.
Proof.
  induction s as [|d t IH]; intros i Hi; cbn [index_byte_from existsb].
  - reflexivity.
  - rewrite (N.eqb_sym c d). destruct (N.eqb d c); cbn [orb].
    + lia.
    + apply IH. lia.
Qed.
Lemma contains_byte_existsb s c : contains_byte s c = existsb (N.eqb c) s.
Proof. unfold contains_byte, index_byte. apply index_byte_from_nonneg. lia. Qed.

(* the specification's cut_at against IndexByte *)
Lemma cut_at_cases c s :
  (cut_at c s = None /\ ~ In c s) \/
  (exists a b, cut_at c s = Some (a, b) /\ s = a ++ c :: b /\ ~ In c a).
Proof.
  induction s as [|d r IH]; cbn [cut_at].
  - left. split; [reflexivity|intros []].
  - destruct (N.eqb_spec d c) as [E|NE].
    + right. exists [], r. subst. repeat split. intros [].
    + destruct IH as [[H1 H2]|(a & b & H1 & H2 & H3)].
      * left. rewrite H1. split; [reflexivity|]. intros [H|H]; [congruence|tauto].
      * right. rewrite H1. exists (d :: a), b. subst r. repeat split. intros [H|H]; [congruence|tauto].
Qed.

Lemma split_unique (c : N) a b a' b' :
  a ++ c :: b = a' ++ c :: b' -> ~ In c a -> ~ In c a' -> a = a' /\ b = b'.
Proof.
  revert a'; induction a as [|x a IH]; intros [|y a'] E Ha Ha'; cbn in *.
  - inversion E. auto.
  - inversion E; subst. exfalso. apply Ha'. now left.
  - inversion E; subst. exfalso. apply Ha. now left.
  - inversion E; subst. destruct (IH a' H1) as [-> ->]; auto.
Qed.

(* ------------------------------------------------------------- decimal *)
Definition nfold (s : fbytes) (a : N) : N := fold_left (fun a d => a * 10 + (d - 48))%N s a.

Lemma number_of_nfold s : number_of s = nfold s 0%N.
Proof. reflexivity. Qed.

Lemma nfold_mono s : forall a, (a <= nfold s a)%N.
Proof.
  induction s as [|d t IH]; intro a; cbn [nfold fold_left].
  - lia.
  - specialize (IH (a * 10 + (d - 48))%N). unfold nfold in IH. lia.
Qed.

(* on a digit string `decimal` computes min(value, math.MaxInt): once the
   accumulator would pass MaxInt it stays there *)
Lemma decimal_loop_digits s : forall a,
  forallb is_dec_digit s = true ->
  decimal_loop s (Z.min (Z.of_N a) max_int64) = Some (Z.min (Z.of_N (nfold s a)) max_int64).
Proof.
  induction s as [|c t IH]; intros a Hd; cbn [decimal_loop nfold fold_left].
  - reflexivity.
  - cbn [forallb] in Hd. apply andb_true_iff in Hd as [Hc Ht].
    unfold is_dec_digit in Hc.
    assert (Hdig : wrapu8 (Z.of_N c - 48) = Z.of_N c - 48) by (unfold wrapu8; lia).
    rewrite Hdig.
    replace (Z.of_N c - 48 >? 9) with false by lia.
    rewrite Z.quot_div_nonneg by (unfold max_int64; lia).
    specialize (IH (a * 10 + (c - 48))%N Ht). unfold nfold in IH.
    destruct (Z.min (Z.of_N a) max_int64 >? (max_int64 - (Z.of_N c - 48)) / 10) eqn:Sat.
    + (* saturate *)
      replace max_int64 with (Z.min (Z.of_N (a * 10 + (c - 48))) max_int64) at 1
        by (unfold max_int64 in *; lia).
      exact IH.
    + assert (Hw : wrap64 (Z.min (Z.of_N a) max_int64 * 10 + (Z.of_N c - 48)) =
                   Z.min (Z.of_N (a * 10 + (c - 48))%N) max_int64).
      { rewrite wrap64_id; unfold in_int64, min_int64, max_int64 in *; lia. }
      rewrite Hw. exact IH.
Qed.

Lemma decimal_loop_nondigit s : forall x,
  forallb is_dec_digit s = false -> is_bytes s = true -> decimal_loop s x = None.
Proof.
  induction s as [|c t IH]; intros x Hd Hb; cbn [decimal_loop].
  - discriminate.
  - cbn [forallb] in Hd. unfold is_bytes in Hb. cbn [forallb] in Hb.
    apply andb_true_iff in Hb as [Hc Hb].
    destruct (is_dec_digit c) eqn:Dc.
    + cbn [andb] in Hd.
      destruct (wrapu8 (Z.of_N c - 48) >? 9); [reflexivity|].
      apply IH; assumption.
    + unfold is_dec_digit in Dc.
      assert (H : wrapu8 (Z.of_N c - 48) >? 9 = true) by (unfold wrapu8; lia).
      now rewrite H.
Qed.

(* --------------------------------------------------------- field split *)
Lemma is_bytes_app a b : is_bytes (a ++ b) = is_bytes a && is_bytes b.
Proof. unfold is_bytes. apply forallb_app. Qed.

Lemma split_field_spec field :
  exists name conv spec tail,
    split_field field = Some (name, conv, spec) /\
    field_of field = Field (selector_of name) conv spec /\
    field = name ++ tail.
Proof.
  unfold split_field, field_of.
  destruct (cut_at_cases ch_bang field) as [[C1 N1]|(a & b & C1 & E1 & N1)];
    destruct (index_byte_cases field ch_bang) as [[N1' I1]|(pre & post & E1' & N1' & I1)]; rewrite C1, I1.
  - (* no '!' *)
    replace (-1 <? 0) with true by lia.
    destruct (cut_at_cases ch_colon field) as [[C2 N2]|(a2 & b2 & C2 & E2 & N2)];
      destruct (index_byte_cases field ch_colon) as [[N2' I2]|(pre2 & post2 & E2' & N2' & I2)]; rewrite C2, I2.
    + replace (-1 <? 0) with true by lia. exists field, [ch_s], [], []. now rewrite app_nil_r.
    + exfalso. apply N2. rewrite E2'. apply in_or_app. right. now left.
    + exfalso. apply N2'. rewrite E2. apply in_or_app. right. now left.
    + pose proof (flen_nonneg pre2). replace (flen pre2 <? 0) with false by lia.
      rewrite E2' in E2. destruct (split_unique _ _ _ _ _ E2 N2' N2) as [<- <-].
      rewrite E2', sl_to_app, sl_from_app1.
      exists pre2, [ch_s], post2, (ch_colon :: post2). repeat split.
  - exfalso. apply N1. rewrite E1'. apply in_or_app. right. now left.
  - exfalso. apply N1'. rewrite E1. apply in_or_app. right. now left.
  - pose proof (flen_nonneg pre). replace (flen pre <? 0) with false by lia.
    rewrite E1' in E1. destruct (split_unique _ _ _ _ _ E1 N1' N1) as [<- <-].
    rewrite E1', sl_to_app, sl_from_app1.
    unfold go_cut.
    destruct (cut_at_cases ch_colon post) as [[C2 N2]|(a2 & b2 & C2 & E2 & N2)];
      destruct (index_byte_cases post ch_colon) as [[N2' I2]|(pre2 & post2 & E2' & N2' & I2)]; rewrite C2, I2.
    + replace (0 <=? -1) with false by lia. cbn [negb].
      exists pre, post, [], (ch_bang :: post). repeat split.
    + exfalso. apply N2. rewrite E2'. apply in_or_app. right. now left.
    + exfalso. apply N2'. rewrite E2. apply in_or_app. right. now left.
    + pose proof (flen_nonneg pre2). replace (0 <=? flen pre2) with true by lia.
      rewrite E2' in E2. destruct (split_unique _ _ _ _ _ E2 N2' N2) as [<- <-].
      rewrite E2', sl_to_app, sl_from_app1. cbn [negb].
      exists pre, pre2, post2, (ch_bang :: pre2 ++ ch_colon :: post2). repeat split.
Qed.

(* -------------------------------------------------- argument selection *)
Section Select.
  Variable V : Type.

  Lemma find_kwarg_find (kwargs : list (fbytes * V)) name :
    find_kwarg V kwargs name = option_map snd (find (fun kv => bytes_eqb (fst kv) name) kwargs).
  Proof.
    induction kwargs as [|[k v] r IH]; cbn [find_kwarg find fst]; [reflexivity|].
    destruct (bytes_eqb k name); [reflexivity|assumption].
  Qed.

  Lemma arg_at_positional (args : list V) (n : N) st :
    arg_at V args (Z.of_N n) st =
    match positional V args n with Some v => SelOk v st | None => SelErr EIndexRange end.
  Proof.
    unfold arg_at, positional.
    destruct (N.ltb_spec n (N.of_nat (length args))) as [L|G].
    - replace (Z.of_N n >=? Z.of_nat (length args)) with false by lia.
      replace (Z.of_N n <? 0) with false by lia.
      replace (Z.to_nat (Z.of_N n)) with (N.to_nat n) by lia.
      destruct (nth_error args (N.to_nat n)) eqn:E; [reflexivity|].
      apply nth_error_None in E. lia.
    - replace (Z.of_N n >=? Z.of_nat (length args)) with true by lia. reflexivity.
  Qed.

  (* a saturated field number is an out-of-range index: len(args) fits in an int *)
  Lemma arg_at_saturated (args : list V) (n : N) st :
    Z.of_nat (length args) <= max_int64 ->
    arg_at V args (Z.min (Z.of_N n) max_int64) st =
    match positional V args n with Some v => SelOk v st | None => SelErr EIndexRange end.
  Proof.
    intro Hlen. destruct (Z.leb_spec (Z.of_N n) max_int64) as [L|G].
    - rewrite Z.min_l by assumption. apply arg_at_positional.
    - rewrite Z.min_r by lia. unfold arg_at, positional.
      replace (max_int64 >=? Z.of_nat (length args)) with true by lia.
      replace (n <? N.of_nat (length args))%N with false by lia. reflexivity.
  Qed.

  (* the two flags and the counter against the specification's numbering *)
  Definition Rst (st : fstate) (m : numbering) : Prop :=
    match m with
    | Unused => st = {| st_auto := false; st_manual := false; st_index := 0 |}
    | Implicit k => st = {| st_auto := true; st_manual := false; st_index := Z.of_nat k |}
    | Explicit => st = {| st_auto := false; st_manual := true; st_index := 0 |}
    end.

  Lemma select_arg_spec name (args : list V) kwargs st m :
    Rst st m -> is_bytes name = true ->
    Z.of_nat (length args) <= max_int64 ->
    match select_arg V name args kwargs st, resolve V (selector_of name) args kwargs m with
    | SelOk v st', inl (v', m') => v = v' /\ Rst st' m'
    | SelErr e, inr e' => e = e'
    | _, _ => False
    end.
  Proof.
    intros HR Hb Hargs.
    destruct name as [|c0 name0].
    - (* {} *)
      cbn [select_arg selector_of resolve].
      destruct m; cbn [Rst] in HR; subst st; cbn [st_manual st_index st_auto].
      + change 0 with (Z.of_N 0). rewrite arg_at_positional.
        destruct (positional V args 0); [|reflexivity]. split; [reflexivity|]. cbn [Rst]. reflexivity.
      + replace (Z.of_nat next) with (Z.of_N (N.of_nat next)) by lia. rewrite arg_at_positional.
        destruct (positional V args (N.of_nat next)); [|reflexivity]. split; [reflexivity|].
        cbn [Rst]. f_equal. lia.
      + reflexivity.
    - set (name := c0 :: name0) in *.
      assert (Hsel : select_arg V name args kwargs st =
                     match decimal name with
                     | Some num => if st_auto st then SelErr EAutoToManual
                                   else arg_at V args num {| st_auto := st_auto st; st_manual := true; st_index := st_index st |}
                     | None => match find_kwarg V kwargs name with
                               | Some v => SelOk v st
                               | None => if contains_byte name ch_dot then SelErr EAttrSyntax
                                         else if contains_byte name ch_lbrack then SelErr EElemSyntax
                                         else if contains_byte name ch_open then SelErr ENested
                                         else SelErr EKeyword
                               end
                     end) by reflexivity.
      rewrite Hsel. clear Hsel.
      assert (Hs : selector_of name = if forallb is_dec_digit name then Num (number_of name) else Key name) by reflexivity.
      rewrite Hs in *. clear Hs.
      destruct (forallb is_dec_digit name) eqn:Dg.
      + (* a number *)
        unfold decimal. change 0 with (Z.min (Z.of_N 0) max_int64).
        rewrite decimal_loop_digits by assumption.
        rewrite <- number_of_nfold. cbn [resolve].
        destruct m; cbn [Rst] in HR; subst st; cbn [st_manual st_index st_auto].
        * rewrite arg_at_saturated by assumption. destruct (positional V args (number_of name)); [|reflexivity].
          split; reflexivity.
        * reflexivity.
        * rewrite arg_at_saturated by assumption. destruct (positional V args (number_of name)); [|reflexivity].
          split; reflexivity.
      + (* a keyword *)
        unfold decimal. rewrite decimal_loop_nondigit by assumption.
        cbn [resolve]. rewrite find_kwarg_find.
        destruct (find (fun kv => bytes_eqb (fst kv) name) kwargs) as [[k v]|]; cbn [option_map snd].
        * split; [reflexivity|assumption].
        * unfold missing_keyword. rewrite !contains_byte_existsb.
          destruct (existsb (N.eqb ch_dot) name); [reflexivity|].
          destruct (existsb (N.eqb ch_lbrack) name); [reflexivity|].
          destruct (existsb (N.eqb ch_open) name); reflexivity.
  Qed.
End Select.

(* ------------------------------------------------------ split_braces *)
Definition is_brace (c : N) : bool := N.eqb c ch_open || N.eqb c ch_close.

Lemma split_braces_app a c b :
  is_brace c = true ->
  split_braces (a ++ c :: b) = split_braces a ++ split_braces (c :: b).
Proof.
  intro Hc. induction a as [|x a IH]; [reflexivity|].
  cbn [app]. cbn [split_braces]. fold (split_braces (c :: b)).
  destruct (N.eqb x ch_open); [cbn [app]; now f_equal|].
  destruct (N.eqb x ch_close); [cbn [app]; now f_equal|].
  rewrite IH.
  destruct (split_braces a) as [|[t| |] ps]; cbn [app]; try reflexivity.
  unfold is_brace in Hc. cbn [split_braces].
  destruct (N.eqb c ch_open); [reflexivity|]. cbn [orb] in Hc. rewrite Hc. reflexivity.
Qed.

Lemma split_braces_render s : flat_map render (split_braces s) = s.
Proof.
  induction s as [|c r IH]; [reflexivity|]. cbn [split_braces].
  destruct (N.eqb_spec c ch_open) as [->|N1]; [cbn [flat_map render app]; now f_equal|].
  destruct (N.eqb_spec c ch_close) as [->|N2]; [cbn [flat_map render app]; now f_equal|].
  destruct (split_braces r) as [|[t| |] ps]; cbn [flat_map render app] in *; now f_equal.
Qed.

Lemma split_braces_no_close s : ~ In ch_close s -> ~ In PClose (split_braces s).
Proof.
  induction s as [|c r IH]; intros Hn; [intros []|]. cbn [split_braces].
  assert (Hr : ~ In ch_close r) by (intro; apply Hn; now right).
  specialize (IH Hr).
  destruct (N.eqb_spec c ch_open) as [->|N1]; [intros [H|H]; [discriminate|tauto]|].
  destruct (N.eqb_spec c ch_close) as [->|N2]; [exfalso; apply Hn; now left|].
  destruct (split_braces r) as [|[t| |] ps]; intros [H|H]; try discriminate; try tauto;
    apply IH; now right.
Qed.

Lemma split_braces_plain s :
  ~ In ch_open s -> ~ In ch_close s ->
  split_braces s = match s with [] => [] | _ => [PText s] end.
Proof.
  induction s as [|c r IH]; intros H1 H2; [reflexivity|]. cbn [split_braces].
  destruct (N.eqb_spec c ch_open) as [->|N1]; [exfalso; apply H1; now left|].
  destruct (N.eqb_spec c ch_close) as [->|N2]; [exfalso; apply H2; now left|].
  rewrite IH by (intro; (apply H1 + apply H2); now right).
  destruct r; reflexivity.
Qed.

(* the first piece of a string that starts with a non-brace is text *)
Lemma split_braces_head_text c r :
  c <> ch_open -> c <> ch_close -> exists t ps, split_braces (c :: r) = PText t :: ps.
Proof.
  intros N1 N2. cbn [split_braces].
  destruct (N.eqb_spec c ch_open); [contradiction|].
  destruct (N.eqb_spec c ch_close); [contradiction|].
  destruct (split_braces r) as [|[t| |] ps]; eauto.
Qed.

Lemma in_field_collect ts : forall acc rest,
  ~ In PClose ts ->
  in_field (ts ++ PClose :: rest) acc = field_of (acc ++ flat_map render ts) :: segments rest.
Proof.
  induction ts as [|p ts IH]; intros acc rest Hn.
  - cbn [app flat_map in_field]. now rewrite app_nil_r.
  - assert (Hp : p <> PClose) by (intro; apply Hn; now left).
    assert (Ht : ~ In PClose ts) by (intro; apply Hn; now right).
    cbn [app flat_map].
    destruct p as [t| |]; [| |contradiction]; cbn [in_field]; rewrite IH by assumption;
      now rewrite app_assoc.
Qed.

Lemma in_field_unclosed ts : forall acc, ~ In PClose ts -> in_field ts acc = [Unclosed].
Proof.
  induction ts as [|p ts IH]; intros acc Hn; [reflexivity|].
  assert (Hp : p <> PClose) by (intro; apply Hn; now left).
  assert (Ht : ~ In PClose ts) by (intro; apply Hn; now right).
  destruct p as [t| |]; [| |contradiction]; cbn [in_field]; now apply IH.
Qed.
