(* C13 -- the specification (oracle), written from doc/spec.md and the Python 3
   reference semantics, independently of the implementation models: nothing
   here mentions Go's `strings` package, machine integers, the AsInt32 domain,
   fuel, or the models Index.v / Str.v / Seq.v.  Only the data types of Base.v
   are shared.  A result of `None` means: the operation fails.

   Part 1: index and slice expressions (spec.md "Index expressions", "Slice
           expressions"; CPython PySlice_AdjustIndices / PySlice_GetIndicesEx).
   Part 2: string methods.   Part 3: list methods and sequence built-ins. *)
From Coq Require Import ZArith NArith List Bool.
From SV Require Import C13.Base.
Import ListNotations.
Open Scope Z_scope.

(* ------------------------------------------------------------------ part 1 *)

(* an operand that must be an int or None: Some None = None/omitted,
   Some (Some z) = the integer z (of any size), None = wrong type *)
Definition int_or_none (a : arg) : option (option Z) :=
  match a with ANone => Some None | AInt z => Some (Some z) | AOther => None end.

(* element at a mathematical index, if the index is valid *)
Definition at_index {A} (xs : list A) (i : Z) : option A :=
  if (0 <=? i) && (i <? Z.of_nat (length xs)) then nth_error xs (Z.to_nat i) else None.

(* "The result consists of the concatenation of values of a[i] for which i is valid" *)
Definition pick {A} (xs : list A) (idx : list Z) : list A :=
  flat_map (fun i => match at_index xs i with Some x => [x] | None => [] end) idx.

(* start, start+step, ... (len terms) *)
Definition progression (start step : Z) (len : nat) : list Z :=
  map (fun k => start + Z.of_nat k * step) (seq 0 len).

(* Python: adjust one bound.  lower/upper are the clamping limits, dflt the value of an omitted bound *)
Definition adjust_bound (n lower upper dflt : Z) (v : option Z) : Z :=
  match v with
  | None => dflt
  | Some v =>
      let v := if v <? 0 then v + n else v in
      if v <? lower then lower else if v >? upper then upper else v
  end.

(* slice.indices(n) of Python, plus the number of selected elements *)
Definition slice_indices (n : Z) (lo hi : option Z) (step : Z) : Z * Z * Z :=
  let lower := if step <? 0 then -1 else 0 in
  let upper := if step <? 0 then n - 1 else n in
  let start := adjust_bound n lower upper (if step <? 0 then upper else lower) lo in
  let stop  := adjust_bound n lower upper (if step <? 0 then lower else upper) hi in
  let len :=
      if step <? 0
      then (if stop <? start then (start - stop - 1) / (- step) + 1 else 0)
      else (if start <? stop then (stop - start - 1) / step + 1 else 0) in
  (start, stop, len).

(* a[lo:hi:step] for a sequence a; fails iff an operand is neither int nor None, or step = 0 *)
Definition slice_spec {A} (xs : list A) (lo hi st : arg) : option (list A) :=
  match int_or_none lo, int_or_none hi, int_or_none st with
  | Some lo, Some hi, Some st =>
      let step := match st with None => 1 | Some s => s end in
      if step =? 0 then None
      else let '(start, _, len) := slice_indices (Z.of_nat (length xs)) lo hi step in
           Some (pick xs (progression start step (Z.to_nat len)))
  | _, _, _ => None
  end.

(* a[i]: i must be an int with -n <= i < n; a valid negative i means n+i *)
Definition index_spec {A} (xs : list A) (y : arg) : option A :=
  match y with
  | AInt i =>
      let n := Z.of_nat (length xs) in
      if (- n <=? i) && (i <? n) then at_index xs (if i <? 0 then n + i else i) else None
  | _ => None
  end.

(* a[i] = v on a list: same index rule; every other element unchanged *)
Definition setindex_spec {A} (xs : list A) (y : arg) (v : A) : option (list A) :=
  match y with
  | AInt i =>
      let n := Z.of_nat (length xs) in
      if (- n <=? i) && (i <? n) then
        let j := Z.to_nat (if i <? 0 then n + i else i) in
        Some (firstn j xs ++ v :: skipn (S j) xs)
      else None
  | _ => None
  end.

(* the two indices of a sub-sequence operation (a[i:j], find(x, i, j), list.index(x, i, j) ...):
   defaults 0 and n, n added to negative values, then truncated to [0, n] *)
Definition clamped_bounds (n : Z) (lo hi : arg) : option (Z * Z) :=
  match int_or_none lo, int_or_none hi with
  | Some lo, Some hi =>
      let '(start, stop, _) := slice_indices n lo hi 1 in Some (start, stop)
  | _, _ => None
  end.

(* the sub-range S[start:end] that find/count/startswith/list.index restrict themselves to:
   0 <= start <= end' <= n where end' = max start end (an empty range when end < start) *)
Definition subrange (n : Z) (lo hi : arg) : option (Z * Z) :=
  match clamped_bounds n lo hi with
  | Some (start, stop) => Some (start, Z.max start stop)
  | None => None
  end.

(* range(start, stop, step) as the list of its elements (exact integers) *)
Definition range_spec (start stop step : Z) : list Z :=
  let len := if step <? 0
             then (if stop <? start then (start - stop - 1) / (- step) + 1 else 0)
             else (if start <? stop then (stop - start - 1) / step + 1 else 0) in
  progression start step (Z.to_nat len).

(* ------------------------------------------------------------------ part 2 *)
(* String methods, Python 3 str semantics on ASCII text as adopted by spec.md.
   Deliberate, documented deviations of spec.md from Python that are built in
   here:  (i) find/index/count/startswith/endswith with start/end operate on
   the substring S[start:end] formed by the slice conventions (spec.md "the
   string S[start:end] has the specified prefix", "within the designated
   substring of S"), so an empty needle is found in an empty sub-range;
   (ii) splitlines splits at "\n" only; (iii) white space is Unicode
   White_Space: on ASCII  \t \n \v \f \r and space;  (iv) strings are not
   iterable; (v) parameters documented as string / int / bool reject None. *)
Notation bytes := (list N).

Definition nlen (s : bytes) : nat := length s.
Definition word_int (z : Z) : bool := (- 9223372036854775808 <=? z) && (z <=? 9223372036854775807).

(* sub occurs in s at position i *)
Definition occurs_at (s sub : bytes) (i : nat) : bool :=
  bytes_eqb (firstn (length sub) (skipn i s)) sub.
(* candidate positions of sub in s, ascending *)
Definition positions (s sub : bytes) : list nat :=
  if Nat.leb (length sub) (length s) then seq 0 (length s - length sub + 1) else [].
Definition find_first (s sub : bytes) : option nat := find (occurs_at s sub) (positions s sub).
Definition find_last (s sub : bytes) : option nat := find (occurs_at s sub) (rev (positions s sub)).

(* leftmost non-overlapping occurrences of a non-empty sub *)
Fixpoint occ_scan (s sub : bytes) (cands : list nat) (next : nat) : list nat :=
  match cands with
  | [] => []
  | i :: r => if Nat.leb next i && occurs_at s sub i
              then i :: occ_scan s sub r (i + length sub)
              else occ_scan s sub r next
  end.
Definition occurrences (s sub : bytes) : list nat := occ_scan s sub (positions s sub) 0.

Definition count_spec (s sub : bytes) : Z :=
  match sub with [] => Z.of_nat (length s) + 1 | _ => Z.of_nat (length (occurrences s sub)) end.

(* the pieces of s between the given occurrences of a separator of length m *)
Fixpoint cut (s : bytes) (m : nat) (occs : list nat) (from : nat) : list bytes :=
  match occs with
  | [] => [skipn from s]
  | i :: r => firstn (i - from) (skipn from s) :: cut s m r (i + m)
  end.
(* maxsplit: None = no limit *)
Definition limit {A} (k : option nat) (l : list A) : list A :=
  match k with None => l | Some k => firstn k l end.
Definition split_spec (s sep : bytes) (k : option nat) : list bytes :=
  cut s (length sep) (limit k (occurrences s sep)) 0.
(* rsplit is split seen from the right end *)
Definition rsplit_spec (s sep : bytes) (k : option nat) : list bytes :=
  rev (map (@rev N) (split_spec (rev s) (rev sep) k)).

Fixpoint concat_with (sep : bytes) (parts : list bytes) : bytes :=
  match parts with
  | [] => []
  | p :: r => match r with [] => p | _ => p ++ sep ++ concat_with sep r end
  end.

(* replace: the first k leftmost non-overlapping occurrences; an empty `old`
   matches at every boundary (before each character and at the end) *)
Fixpoint weave (s new : bytes) (k : nat) : bytes :=
  match k with
  | O => s
  | S k' => match s with
            | [] => new
            | c :: t => new ++ c :: weave t new k'
            end
  end.
Definition replace_spec (s old new : bytes) (k : option nat) : bytes :=
  match old with
  | [] => weave s new (match k with None => S (length s) | Some k => k end)
  | _ => concat_with new (split_spec s old k)
  end.

Definition is_ws (c : N) : bool :=
  (N.eqb c 9 || N.eqb c 10 || N.eqb c 11 || N.eqb c 12 || N.eqb c 13 || N.eqb c 32)%N.

(* split on runs of white space; after k splits the rest of the string (from
   the start of the next word to the very end) is the last piece *)
Fixpoint wsplit (s : bytes) (k : option nat) (cur : bytes) (inword : bool) : list bytes :=
  match s with
  | [] => if inword then [rev cur] else []
  | c :: t =>
      if inword then
        (if is_ws c then rev cur :: wsplit t k [] false else wsplit t k (c :: cur) true)
      else if is_ws c then wsplit t k [] false
      else match k with
           | Some O => [s]
           | Some (S k') => wsplit t (Some k') [c] true
           | None => wsplit t None [c] true
           end
  end.
Definition wsplit_spec (s : bytes) (k : option nat) : list bytes := wsplit s k [] false.
Definition rwsplit_spec (s : bytes) (k : option nat) : list bytes :=
  rev (map (@rev N) (wsplit_spec (rev s) k)).

(* splitlines: lines end at "\n"; no empty last line *)
Fixpoint lines (s : bytes) (keep : bool) (cur : bytes) : list bytes :=
  match s with
  | [] => match cur with [] => [] | _ => [rev cur] end
  | c :: t => if N.eqb c 10
              then rev (if keep then c :: cur else cur) :: lines t keep []
              else lines t keep (c :: cur)
  end.

Fixpoint skip_leading (p : N -> bool) (s : bytes) : bytes :=
  match s with [] => [] | c :: t => if p c then skip_leading p t else s end.
Definition skip_trailing (p : N -> bool) (s : bytes) : bytes := rev (skip_leading p (rev s)).
Definition member (set : bytes) (c : N) : bool := existsb (N.eqb c) set.
(* chars: None = omitted -> white space; Some set -> exactly the characters of set *)
Definition strip_pred (chars : option bytes) : N -> bool :=
  match chars with None => is_ws | Some set => member set end.

Definition starts_with (s p : bytes) : bool := bytes_eqb (firstn (length p) s) p.
Definition ends_with (s p : bytes) : bool :=
  Nat.leb (length p) (length s) && bytes_eqb (skipn (length s - length p) s) p.

Definition upper_c (c : N) : bool := (N.leb 65 c && N.leb c 90)%N.
Definition lower_c (c : N) : bool := (N.leb 97 c && N.leb c 122)%N.
Definition cased_c (c : N) : bool := upper_c c || lower_c c.
Definition digit_c (c : N) : bool := (N.leb 48 c && N.leb c 57)%N.
Definition up (c : N) : N := if lower_c c then (c - 32)%N else c.
Definition down (c : N) : N := if upper_c c then (c + 32)%N else c.

(* title case: a cased character is upper case exactly when it starts a word
   (is not preceded by a cased character) *)
Fixpoint title_map (prev_cased : bool) (s : bytes) : bytes :=
  match s with
  | [] => []
  | c :: t => (if cased_c c then (if prev_cased then down c else up c) else c) :: title_map (cased_c c) t
  end.
Fixpoint title_ok (prev_cased : bool) (s : bytes) : bool :=
  match s with
  | [] => true
  | c :: t => (if cased_c c then Bool.eqb (upper_c c) (negb prev_cased) else true) && title_ok (cased_c c) t
  end.
Definition nonempty_all (p : N -> bool) (s : bytes) : bool :=
  match s with [] => false | _ => forallb p s end.

(* --- argument conventions *)
(* optional [start [, end]] operands *)
Definition opt_range (rest : list val) : option (arg * arg) :=
  match rest with
  | [] => Some (ANone, ANone)
  | [a] => Some (to_arg a, ANone)
  | [a; b] => Some (to_arg a, to_arg b)
  | _ => None
  end.
(* S[start:end] and its offset *)
Definition sub_of (s : bytes) (r : arg * arg) : option (nat * bytes) :=
  match subrange (Z.of_nat (length s)) (fst r) (snd r) with
  | Some (a, b) => Some (Z.to_nat a, firstn (Z.to_nat (b - a)) (skipn (Z.to_nat a) s))
  | None => None
  end.
(* optional count / maxsplit: negative = no limit; must be a machine-word int *)
Definition opt_count (rest : list val) : option (option Z) :=
  match rest with
  | [] => Some None
  | [VInt z] => if word_int z then Some (if z <? 0 then None else Some z) else None
  | _ => None
  end.
(* a limit larger than `bound` is as good as `bound` (there are at most that many places to split) *)
Definition cap (k : option Z) (bound : nat) : option nat :=
  match k with None => None | Some z => Some (Z.to_nat (Z.min z (Z.of_nat bound))) end.
Definition strs (l : list bytes) : val := VList (map VStr l).
Definition elems_of (v : val) : option (list val) :=
  match v with VList l | VTuple l => Some l | _ => None end.

Inductive smeth :=
| SCount | SFind | SRfind | SIndex | SRindex | SStartswith | SEndswith
| SSplit | SRsplit | SSplitlines | SPartition | SRpartition
| SStrip | SLstrip | SRstrip | SReplace | SJoin | SRemoveprefix | SRemovesuffix
| SUpper | SLower | SCapitalize | STitle
| SIsalnum | SIsalpha | SIsdigit | SIslower | SIsupper | SIsspace | SIstitle.

Definition spec_find (s : bytes) (args : list val) (last strict : bool) : option val :=
  match args with
  | VStr sub :: rest =>
      match opt_range rest with
      | Some r =>
          match sub_of s r with
          | Some (off, t) =>
              match (if last then find_last t sub else find_first t sub) with
              | Some i => Some (VInt (Z.of_nat (off + i)))
              | None => if strict then None else Some (VInt (-1))
              end
          | None => None
          end
      | None => None
      end
  | _ => None
  end.

(* any of the candidates, tried in order; a non-string candidate is an error when reached *)
Fixpoint any_affix (f : bytes -> bytes -> bool) (t : bytes) (l : list val) : option val :=
  match l with
  | [] => Some (VBool false)
  | VStr p :: r => if f t p then Some (VBool true) else any_affix f t r
  | _ => None
  end.
Definition spec_affix (s : bytes) (args : list val) (f : bytes -> bytes -> bool) : option val :=
  match args with
  | x :: rest =>
      match opt_range rest with
      | Some r =>
          match sub_of s r with
          | Some (_, t) =>
              match x with
              | VStr p => Some (VBool (f t p))
              | VTuple l => any_affix f t l
              | _ => None
              end
          | None => None
          end
      | None => None
      end
  | [] => None
  end.

Definition spec_split (s : bytes) (args : list val) (right : bool) : option val :=
  let go (sep : option bytes) (rest : list val) : option val :=
      match opt_count rest with
      | None => None
      | Some k =>
          match sep with
          | None => let k := cap k (S (length s)) in
                    Some (strs (if right then rwsplit_spec s k else wsplit_spec s k))
          | Some [] => None
          | Some sep => let k := cap k (S (length s)) in
                        Some (strs (if right then rsplit_spec s sep k else split_spec s sep k))
          end
      end in
  match args with
  | [] => go None []
  | VNone :: rest => go None rest
  | VStr sep :: rest => go (Some sep) rest
  | _ => None
  end.

Definition spec_partition (s : bytes) (args : list val) (right : bool) : option val :=
  match args with
  | [VStr []] => None
  | [VStr sep] =>
      match (if right then find_last s sep else find_first s sep) with
      | Some i => Some (VTuple [VStr (firstn i s); VStr sep; VStr (skipn (i + length sep) s)])
      | None => Some (if right then VTuple [VStr []; VStr []; VStr s] else VTuple [VStr s; VStr []; VStr []])
      end
  | _ => None
  end.

Definition spec_strip (s : bytes) (args : list val) (left right : bool) : option val :=
  let go (chars : option bytes) :=
      let p := strip_pred chars in
      let s := if left then skip_leading p s else s in
      Some (VStr (if right then skip_trailing p s else s)) in
  match args with
  | [] => go None
  | [VStr set] => go (Some set)
  | _ => None
  end.

Fixpoint all_strs (l : list val) : option (list bytes) :=
  match l with
  | [] => Some []
  | VStr s :: r => match all_strs r with Some rs => Some (s :: rs) | None => None end
  | _ => None
  end.

Definition no_args (args : list val) (r : val) : option val := match args with [] => Some r | _ => None end.

Definition spec_string_method (m : smeth) (s : bytes) (args : list val) : option val :=
  match m with
  | SCount =>
      match args with
      | VStr sub :: rest =>
          match opt_range rest with
          | Some r => match sub_of s r with Some (_, t) => Some (VInt (count_spec t sub)) | None => None end
          | None => None
          end
      | _ => None
      end
  | SFind => spec_find s args false false
  | SRfind => spec_find s args true false
  | SIndex => spec_find s args false true
  | SRindex => spec_find s args true true
  | SStartswith => spec_affix s args starts_with
  | SEndswith => spec_affix s args ends_with
  | SSplit => spec_split s args false
  | SRsplit => spec_split s args true
  | SSplitlines =>
      match args with
      | [] => Some (strs (lines s false []))
      | [VBool keep] => Some (strs (lines s keep []))
      | _ => None
      end
  | SPartition => spec_partition s args false
  | SRpartition => spec_partition s args true
  | SStrip => spec_strip s args true true
  | SLstrip => spec_strip s args true false
  | SRstrip => spec_strip s args false true
  | SReplace =>
      match args with
      | VStr old :: VStr new :: rest =>
          match opt_count rest with
          | Some k => Some (VStr (replace_spec s old new (cap k (S (length s)))))
          | None => None
          end
      | _ => None
      end
  | SJoin =>
      match args with
      | [v] => match elems_of v with
               | Some l => match all_strs l with Some ps => Some (VStr (concat_with s ps)) | None => None end
               | None => None
               end
      | _ => None
      end
  | SRemoveprefix =>
      match args with
      | [VStr p] => Some (VStr (if starts_with s p then skipn (length p) s else s))
      | _ => None
      end
  | SRemovesuffix =>
      match args with
      | [VStr p] => Some (VStr (if ends_with s p then firstn (length s - length p) s else s))
      | _ => None
      end
  | SUpper => no_args args (VStr (map up s))
  | SLower => no_args args (VStr (map down s))
  | SCapitalize => no_args args (VStr (match s with [] => [] | c :: t => up c :: map down t end))
  | STitle => no_args args (VStr (title_map false s))
  | SIsalnum => no_args args (VBool (nonempty_all (fun c => cased_c c || digit_c c) s))
  | SIsalpha => no_args args (VBool (nonempty_all cased_c s))
  | SIsdigit => no_args args (VBool (nonempty_all digit_c s))
  | SIslower => no_args args (VBool (existsb cased_c s && negb (existsb upper_c s)))
  | SIsupper => no_args args (VBool (existsb cased_c s && negb (existsb lower_c s)))
  | SIsspace => no_args args (VBool (nonempty_all is_ws s))
  | SIstitle => no_args args (VBool (existsb cased_c s && title_ok false s))
  end.

(* ------------------------------------------------------------------ part 3 *)
(* list methods: result and the list afterwards *)
Inductive slmeth := SLAppend | SLClear | SLExtend | SLIndex | SLInsert | SLPop | SLRemove.

Fixpoint first_eq (xs : list val) (v : val) (i : nat) : option nat :=
  match xs with
  | [] => None
  | x :: r => if val_eqb x v then Some i else first_eq r v (S i)
  end.

(* insert position: n added to a negative i, then truncated to [0, n] *)
Definition insert_pos (n i : Z) : nat :=
  let i := if i <? 0 then i + n else i in
  Z.to_nat (if i <? 0 then 0 else if i >? n then n else i).

Definition spec_list_method (m : slmeth) (xs : list val) (args : list val) : option (val * list val) :=
  let n := Z.of_nat (length xs) in
  match m with
  | SLAppend => match args with [x] => Some (VNone, xs ++ [x]) | _ => None end
  | SLClear => match args with [] => Some (VNone, []) | _ => None end
  | SLExtend => match args with
                | [v] => match elems_of v with Some l => Some (VNone, xs ++ l) | None => None end
                | _ => None end
  | SLIndex =>
      match args with
      | v :: rest =>
          match opt_range rest with
          | Some r =>
              match subrange n (fst r) (snd r) with
              | Some (a, b) =>
                  match first_eq (firstn (Z.to_nat (b - a)) (skipn (Z.to_nat a) xs)) v 0 with
                  | Some i => Some (VInt (a + Z.of_nat i), xs)
                  | None => None
                  end
              | None => None
              end
          | None => None
          end
      | [] => None
      end
  | SLInsert =>
      match args with
      | [VInt i; x] =>
          if word_int i then
            let p := insert_pos n i in Some (VNone, firstn p xs ++ x :: skipn p xs)
          else None
      | _ => None
      end
  | SLPop =>
      let pop (i : Z) :=
          if (- n <=? i) && (i <? n) then
            let j := Z.to_nat (if i <? 0 then n + i else i) in
            match nth_error xs j with
            | Some x => Some (x, firstn j xs ++ skipn (S j) xs)
            | None => None
            end
          else None in
      match args with
      | [] => pop (-1)
      | [VInt i] => pop i
      | _ => None
      end
  | SLRemove =>
      match args with
      | [v] => match first_eq xs v 0 with
               | Some i => Some (VNone, firstn i xs ++ skipn (S i) xs)
               | None => None
               end
      | _ => None
      end
  end.

Inductive sbfun := SBReversed | SBZip | SBEnumerate | SBAny | SBAll.

Fixpoint all_elems (args : list val) : option (list (list val)) :=
  match args with
  | [] => Some []
  | v :: r => match elems_of v, all_elems r with
              | Some l, Some ls => Some (l :: ls)
              | _, _ => None
              end
  end.
(* zip by transposition: stop as soon as one column is exhausted *)
Fixpoint heads (cols : list (list val)) : option (list val) :=
  match cols with
  | [] => Some []
  | [] :: _ => None
  | (x :: _) :: r => match heads r with Some hs => Some (x :: hs) | None => None end
  end.
Fixpoint transpose (fuel : nat) (cols : list (list val)) : list val :=
  match fuel with
  | O => []
  | S f => match cols with
           | [] => []
           | _ => match heads cols with
                  | Some hs => VTuple hs :: transpose f (map (@tl val) cols)
                  | None => []
                  end
           end
  end.
Definition shortest (cols : list (list val)) : nat :=
  match cols with [] => O | c :: r => fold_left (fun m c' => Nat.min m (length c')) r (length c) end.

Definition spec_builtin (f : sbfun) (args : list val) : option val :=
  match f with
  | SBReversed => match args with [v] => option_map (fun l => VList (rev l)) (elems_of v) | _ => None end
  | SBZip => match all_elems args with
             | Some cols => Some (VList (transpose (shortest cols) cols))
             | None => None end
  | SBEnumerate =>
      let go v (start : Z) :=
          match elems_of v with
          | Some l => Some (VList (map (fun p => VTuple [VInt (start + Z.of_nat (fst p)); snd p])
                                       (combine (seq 0 (length l)) l)))
          | None => None
          end in
      match args with
      | [v] => go v 0
      | [v; VInt start] => if word_int start then go v start else None
      | _ => None
      end
  | SBAny => match args with [v] => option_map (fun l => VBool (existsb truth l)) (elems_of v) | _ => None end
  | SBAll => match args with [v] => option_map (fun l => VBool (forallb truth l)) (elems_of v) | _ => None end
  end.

(* repetition: n <= 0 gives the empty sequence; the implementation limit of
   2^30 elements is part of the contract ("excessive repeat") *)
Fixpoint times {A} (n : nat) (xs : list A) : list A := match n with O => [] | S k => xs ++ times k xs end.
Definition repeat_spec {A} (xs : list A) (n : Z) : option (list A) :=
  if n <=? 0 then Some []
  else match xs with
       | [] => Some []
       | _ => if Z.of_nat (length xs) * n <? 1073741824 then Some (times (Z.to_nat n) xs) else None
       end.

Definition spec_star (x y : val) : option val :=
  match x, y with
  | VStr s, VInt n | VInt n, VStr s => option_map VStr (repeat_spec s n)
  | VBytes s, VInt n | VInt n, VBytes s => option_map VBytes (repeat_spec s n)
  | VList l, VInt n | VInt n, VList l => option_map VList (repeat_spec l n)
  | VTuple l, VInt n | VInt n, VTuple l => option_map VTuple (repeat_spec l n)
  | _, _ => None
  end.
(* spec.md "Concatenation": string + string, list + list, tuple + tuple *)
Definition spec_plus (x y : val) : option val :=
  match x, y with
  | VStr a, VStr b => Some (VStr (a ++ b))
  | VList a, VList b => Some (VList (a ++ b))
  | VTuple a, VTuple b => Some (VTuple (a ++ b))
  | _, _ => None
  end.

(* ------------------------------------------------------------------ part 4 *)
(* sorted, min, max over the keys k_0 .. k_(n-1) of the elements, elements
   named by their positions (spec.md: "sorted order.  The sort algorithm is
   stable"; reverse = "reverse sorted order", and -- as in Python -- ties keep
   their input order in BOTH directions; min / max: "the least / greatest
   element", the first one among equals).
   sorted_ok is the specification as a decidable relation between the keys
   and an output: the output lists positions below n, as many as there are
   elements, strictly increasing in the order
        a before b  iff  key a < key b  (key a > key b when reversed)
                         or  key a = key b  and  a < b.
   Such a list is necessarily the unique permutation in that order. *)
Definition key_at (keys : list Z) (i : nat) : Z := nth i keys 0.
Definition before (reverse : bool) (keys : list Z) (a b : nat) : bool :=
  let ka := key_at keys a in let kb := key_at keys b in
  (if reverse then kb <? ka else ka <? kb) || ((ka =? kb) && Nat.ltb a b).
Fixpoint increasing (lt : nat -> nat -> bool) (l : list nat) : bool :=
  match l with
  | a :: t => match t with b :: _ => lt a b && increasing lt t | [] => true end
  | [] => true
  end.
Definition sorted_ok (reverse : bool) (keys : list Z) (out : list nat) : bool :=
  Nat.eqb (length out) (length keys) &&
  forallb (fun i => Nat.ltb i (length keys)) out &&
  increasing (before reverse keys) out.

(* min / max: position r is valid, no key is smaller (larger), and no earlier key is equal *)
Definition minmax_ok (is_max : bool) (keys : list Z) (r : nat) : bool :=
  Nat.ltb r (length keys) &&
  forallb (fun j => let kj := key_at keys j in let kr := key_at keys r in
                    if Nat.ltb j r then (if is_max then kj <? kr else kr <? kj)
                    else (if is_max then kj <=? kr else kr <=? kj))
          (seq 0 (length keys)).
Definition minmax_spec_ok (is_max : bool) (keys : list Z) (r : option nat) : bool :=
  match r, keys with
  | None, [] => true
  | Some r, _ :: _ => minmax_ok is_max keys r
  | _, _ => false
  end.
