(* C13 -- the specification (oracle), written from doc/spec.md and the Python 3
   reference semantics, independently of the implementation models: nothing
   here mentions Go's `strings` package, machine integers, the AsInt32 domain,
   fuel, or the models Index.v / Str.v / Seq.v.  Only the data types of Base.v
   are shared.  A result of `None` means: the operation fails.

   Part 1: index and slice expressions (spec.md "Index expressions", "Slice
           expressions"; CPython PySlice_AdjustIndices / PySlice_GetIndicesEx).
   Part 2: string methods.   Part 3: list methods and sequence built-ins. *)
From Coq Require Import ZArith NArith List Bool.
From SV Require Import C13.Base.
Import ListNotations.
Open Scope Z_scope.

(* ------------------------------------------------------------------ part 1 *)

(* an operand that must be an int or None: Some None = None/omitted,
   Some (Some z) = the integer z (of any size), None = wrong type *)
Definition int_or_none (a : arg) : option (option Z) :=
  match a with ANone => Some None | AInt z => Some (Some z) | AOther => None end.

(* element at a mathematical index, if the index is valid *)
Definition at_index {A} (xs : list A) (i : Z) : option A :=
  if (0 <=? i) && (i <? Z.of_nat (length xs)) then nth_error xs (Z.to_nat i) else None.

(* "The result consists of the concatenation of values of a[i] for which i is valid" *)
Definition pick {A} (xs : list A) (idx : list Z) : list A :=
  flat_map (fun i => match at_index xs i with Some x => [x] | None => [] end) idx.

(* start, start+step, ... (len terms) *)
Definition progression (start step : Z) (len : nat) : list Z :=
  map (fun k => start + Z.of_nat k * step) (seq 0 len).

(* Python: adjust one bound.  lower/upper are the clamping limits, dflt the value of an omitted bound *)
Definition adjust_bound (n lower upper dflt : Z) (v : option Z) : Z :=
  match v with
  | None => dflt
  | Some v =>
      let v := if v <? 0 then v + n else v in
      if v <? lower then lower else if v >? upper then upper else v
  end.

(* slice.indices(n) of Python, plus the number of selected elements *)
Definition slice_indices (n : Z) (lo hi : option Z) (step : Z) : Z * Z * Z :=
  let lower := if step <? 0 then -1 else 0 in
  let upper := if step <? 0 then n - 1 else n in
  let start := adjust_bound n lower upper (if step <? 0 then upper else lower) lo in
  let stop  := adjust_bound n lower upper (if step <? 0 then lower else upper) hi in
  let len :=
      if step <? 0
      then (if stop <? start then (start - stop - 1) / (- step) + 1 else 0)
      else (if start <? stop then (stop - start - 1) / step + 1 else 0) in
  (start, stop, len).

(* a[lo:hi:step] for a sequence a; fails iff an operand is neither int nor None, or step = 0 *)
Definition slice_spec {A} (xs : list A) (lo hi st : arg) : option (list A) :=
  match int_or_none lo, int_or_none hi, int_or_none st with
  | Some lo, Some hi, Some st =>
      let step := match st with None => 1 | Some s => s end in
      if step =? 0 then None
      else let '(start, _, len) := slice_indices (Z.of_nat (length xs)) lo hi step in
           Some (pick xs (progression start step (Z.to_nat len)))
  | _, _, _ => None
  end.

(* a[i]: i must be an int with -n <= i < n; a valid negative i means n+i *)
Definition index_spec {A} (xs : list A) (y : arg) : option A :=
  match y with
  | AInt i =>
      let n := Z.of_nat (length xs) in
      if (- n <=? i) && (i <? n) then at_index xs (if i <? 0 then n + i else i) else None
  | _ => None
  end.

(* a[i] = v on a list: same index rule; every other element unchanged *)
Definition setindex_spec {A} (xs : list A) (y : arg) (v : A) : option (list A) :=
  match y with
  | AInt i =>
      let n := Z.of_nat (length xs) in
      if (- n <=? i) && (i <? n) then
        let j := Z.to_nat (if i <? 0 then n + i else i) in
        Some (firstn j xs ++ v :: skipn (S j) xs)
      else None
  | _ => None
  end.

(* the two indices of a sub-sequence operation (a[i:j], find(x, i, j), list.index(x, i, j) ...):
   defaults 0 and n, n added to negative values, then truncated to [0, n] *)
Definition clamped_bounds (n : Z) (lo hi : arg) : option (Z * Z) :=
  match int_or_none lo, int_or_none hi with
  | Some lo, Some hi =>
      let '(start, stop, _) := slice_indices n lo hi 1 in Some (start, stop)
  | _, _ => None
  end.

(* the sub-range S[start:end] that find/count/startswith/list.index restrict themselves to:
   0 <= start <= end' <= n where end' = max start end (an empty range when end < start) *)
Definition subrange (n : Z) (lo hi : arg) : option (Z * Z) :=
  match clamped_bounds n lo hi with
  | Some (start, stop) => Some (start, Z.max start stop)
  | None => None
  end.

(* range(start, stop, step) as the list of its elements (exact integers) *)
Definition range_spec (start stop step : Z) : list Z :=
  let len := if step <? 0
             then (if stop <? start then (start - stop - 1) / (- step) + 1 else 0)
             else (if start <? stop then (stop - start - 1) / step + 1 else 0) in
  progression start step (Z.to_nat len).
