(* C13 -- model of the string methods of starlark/library.go over byte lists
   (ASCII by the property's quantifier: one byte = one code point).

   Section 1 defines the functions of Go's `strings` / `unicode` packages that
   the code calls, by their documented meaning (they are library oracles: not
   verified, validated by the correspondence run).  Section 2 models the
   Starlark methods themselves, following library.go: argument unpacking
   (arity, types, defaults), the `indices` call for sub-ranges, the case
   distinctions, and the two hand-written loops splitspace / rsplitspace
   statement by statement.  No proofs here. *)
From Coq Require Import ZArith NArith List Bool.
From SV Require Import Common.GoInt C13.Base C13.Index.
Import ListNotations.
Open Scope Z_scope.

Notation bytes := (list N).

(* ------------------------------------------------------------ section 1 *)
Definition blen (s : bytes) : Z := Z.of_nat (length s).
(* s[a:b] for 0 <= a <= b <= len(s) (callers establish the bounds) *)
Definition substr (s : bytes) (a b : Z) : bytes := firstn (Z.to_nat (b - a)) (skipn (Z.to_nat a) s).

(* strings.HasPrefix / HasSuffix *)
Fixpoint has_prefix (s p : bytes) : bool :=
  match p, s with
  | [], _ => true
  | c :: p', d :: s' => N.eqb c d && has_prefix s' p'
  | _ :: _, [] => false
  end.
Definition has_suffix (s p : bytes) : bool := has_prefix (rev s) (rev p).

(* strings.Index: index of the first instance of sub in s, or -1 *)
Fixpoint index_from (s sub : bytes) (i : Z) : Z :=
  if has_prefix s sub then i
  else match s with [] => -1 | _ :: t => index_from t sub (i + 1) end.
Definition index (s sub : bytes) : Z := index_from s sub 0.

(* strings.LastIndex: index of the last instance of sub in s, or -1 *)
Fixpoint last_index_from (s sub : bytes) (i best : Z) : Z :=
  let best' := if has_prefix s sub then i else best in
  match s with [] => best' | _ :: t => last_index_from t sub (i + 1) best' end.
Definition last_index (s sub : bytes) : Z := last_index_from s sub 0 (-1).

(* strings.Count: number of non-overlapping instances (leftmost first);
   1 + number of code points for an empty sub *)
Fixpoint count_aux (s sub : bytes) (skip : nat) : Z :=
  match s with
  | [] => 0
  | _ :: t =>
      match skip with
      | S k => count_aux t sub k
      | O => if has_prefix s sub then 1 + count_aux t sub (length sub - 1)
             else count_aux t sub 0
      end
  end.
Definition count (s sub : bytes) : Z :=
  match sub with [] => blen s + 1 | _ => count_aux s sub 0 end.

(* strings.genSplit for a non-empty sep: split at the first k non-overlapping
   instances of sep (leftmost first); save = keep the separator at the end of
   each piece (SplitAfter) *)
Fixpoint split_aux (s sep : bytes) (save : bool) (k skip : nat) (cur : bytes) : list bytes :=
  match s with
  | [] => [rev cur]
  | c :: t =>
      match skip with
      | S j => split_aux t sep save k j cur
      | O =>
          match k with
          | S k' =>
              if has_prefix s sep
              then (rev cur ++ (if save then sep else [])) :: split_aux t sep save k' (length sep - 1) []
              else split_aux t sep save k 0 (c :: cur)
          | O => split_aux t sep save k 0 (c :: cur)
          end
      end
  end.
Definition gen_split (s sep : bytes) (save : bool) (n : Z) : list bytes :=
  if n =? 0 then []
  else
    let n := if n <? 0 then count s sep + 1 else n in
    let n := if n >? blen s + 1 then blen s + 1 else n in
    split_aux s sep save (Z.to_nat (n - 1)) 0 [].
Definition go_split (s sep : bytes) : list bytes := gen_split s sep false (-1).
Definition go_split_n (s sep : bytes) (n : Z) : list bytes := gen_split s sep false n.
Definition go_split_after (s sep : bytes) : list bytes := gen_split s sep true (-1).

(* strings.Join *)
Fixpoint join (parts : list bytes) (sep : bytes) : bytes :=
  match parts with
  | [] => []
  | [p] => p
  | p :: rest => p ++ sep ++ join rest sep
  end.

(* strings.Replace(s, old, new, n) *)
Fixpoint replace_aux (s old new : bytes) (k skip : nat) : bytes :=
  match s with
  | [] => []
  | c :: t =>
      match skip with
      | S j => replace_aux t old new k j
      | O =>
          match k with
          | S k' =>
              if has_prefix s old
              then new ++ replace_aux t old new k' (length old - 1)
              else c :: replace_aux t old new k 0
          | O => c :: replace_aux t old new k 0
          end
      end
  end.
Fixpoint replace_empty (s new : bytes) (k : nat) : bytes :=
  match k with
  | O => s
  | S k' => new ++ match s with [] => [] | c :: t => c :: replace_empty t new k' end
  end.
Definition go_replace (s old new : bytes) (n : Z) : bytes :=
  if bytes_eqb old new || (n =? 0) then s
  else
    let m := count s old in
    if m =? 0 then s
    else
      let n := if (n <? 0) || (m <? n) then m else n in
      match old with
      | [] => replace_empty s new (Z.to_nat n)
      | _ => replace_aux s old new (Z.to_nat n) 0
      end.

(* unicode.IsSpace on ASCII: '\t' '\n' '\v' '\f' '\r' ' ' (U+0085, U+00A0 are not ASCII) *)
Definition is_space (c : N) : bool := (N.eqb c 32 || (N.leb 9 c && N.leb c 13))%N.
Definition is_upper (c : N) : bool := (N.leb 65 c && N.leb c 90)%N.
Definition is_lower (c : N) : bool := (N.leb 97 c && N.leb c 122)%N.
Definition is_letter (c : N) : bool := is_upper c || is_lower c.
Definition is_digit (c : N) : bool := (N.leb 48 c && N.leb c 57)%N.
Definition to_upper (c : N) : N := if is_lower c then (c - 32)%N else c.
Definition to_lower (c : N) : N := if is_upper c then (c + 32)%N else c.

(* strings.Fields *)
Fixpoint fields_aux (s cur : bytes) : list bytes :=
  match s with
  | [] => match cur with [] => [] | _ => [rev cur] end
  | c :: t =>
      if is_space c
      then match cur with [] => fields_aux t [] | _ => rev cur :: fields_aux t [] end
      else fields_aux t (c :: cur)
  end.
Definition fields (s : bytes) : list bytes := fields_aux s [].

(* strings.TrimLeftFunc / TrimRightFunc / Trim* with a cutset *)
Fixpoint drop_while (p : N -> bool) (s : bytes) : bytes :=
  match s with c :: t => if p c then drop_while p t else s | [] => [] end.
Definition trim_left (p : N -> bool) (s : bytes) : bytes := drop_while p s.
Definition trim_right (p : N -> bool) (s : bytes) : bytes := rev (drop_while p (rev s)).
Definition in_set (cut : bytes) (c : N) : bool := existsb (N.eqb c) cut.

(* strings.TrimPrefix / TrimSuffix *)
Definition trim_prefix (s p : bytes) : bytes := if has_prefix s p then skipn (length p) s else s.
Definition trim_suffix (s p : bytes) : bytes :=
  if has_suffix s p then firstn (length s - length p) s else s.

(* strings.Repeat *)
Fixpoint repeat_bytes {A} (s : list A) (n : nat) : list A :=
  match n with O => [] | S k => s ++ repeat_bytes s k end.

(* ------------------------------------------------------------ section 2 *)
Inductive meth :=
| MCount | MFind | MRfind | MIndex | MRindex | MStartswith | MEndswith
| MSplit | MRsplit | MSplitlines | MPartition | MRpartition
| MStrip | MLstrip | MRstrip | MReplace | MJoin | MRemoveprefix | MRemovesuffix
| MUpper | MLower | MCapitalize | MTitle
| MIsalnum | MIsalpha | MIsdigit | MIslower | MIsupper | MIsspace | MIstitle.

(* ---- unpackPositionalArgsNoEscape: arity, then per-parameter conversion *)
Definition arity (args : list val) (min max : nat) : bool :=
  (Nat.leb min (length args)) && (Nat.leb (length args) max).
(* a parameter of Go type Value that feeds asIndex: omitted (nil) and None are the same there *)
Definition arg_at (args : list val) (i : nat) : arg :=
  match nth_error args i with Some v => to_arg v | None => ANone end.
(* *string parameter: must be a string when present *)
Definition str_at (args : list val) (i : nat) (dflt : option bytes) : option bytes :=
  match nth_error args i with
  | None => dflt
  | Some (VStr s) => Some s
  | Some _ => None
  end.
(* *int parameter: AsInt into a Go int, i.e. must be an int within int64 *)
Definition int_at (args : list val) (i : nat) (dflt : Z) : option Z :=
  match nth_error args i with
  | None => Some dflt
  | Some (VInt z) => if in_int64 z then Some z else None
  | Some _ => None
  end.
Definition bool_at (args : list val) (i : nat) (dflt : bool) : option bool :=
  match nth_error args i with
  | None => Some dflt
  | Some (VBool b) => Some b
  | Some _ => None
  end.

(* the sub-range idiom of string_count and string_find_impl:
     start, end, err := indices(start_, end_, len(recv)); if start < end { slice = recv[start:end] } *)
Definition sub_range (recv : bytes) (a b : arg) : option (Z * bytes) :=
  match indices a b (blen recv) with
  | None => None
  | Some (start, e) => Some (start, if start <? e then substr recv start e else [])
  end.

Definition string_count (recv : bytes) (args : list val) : outcome val :=
  if negb (arity args 1 3) then Err else
  match str_at args 0 None with
  | None => Err
  | Some sub =>
      match sub_range recv (arg_at args 1) (arg_at args 2) with
      | None => Err
      | Some (_, slice) => Ok (VInt (count slice sub))
      end
  end.

(* string_find_impl(b, args, kwargs, allowError, last) *)
Definition string_find_impl (recv : bytes) (args : list val) (allow_error last : bool) : outcome val :=
  if negb (arity args 1 3) then Err else
  match str_at args 0 None with
  | None => Err
  | Some sub =>
      match sub_range recv (arg_at args 1) (arg_at args 2) with
      | None => Err
      | Some (start, slice) =>
          let i := if last then last_index slice sub else index slice sub in
          if i <? 0 then (if allow_error then Ok (VInt (-1)) else Err)
          else Ok (VInt (wrap64 (i + start)))
      end
  end.

(* string_startswith (also endswith) *)
Fixpoint any_fix (f : bytes -> bytes -> bool) (s : bytes) (l : list val) : outcome val :=
  match l with
  | [] => Ok (VBool false)
  | VStr p :: r => if f s p then Ok (VBool true) else any_fix f s r
  | _ :: _ => Err
  end.
Definition string_startswith (recv : bytes) (args : list val) (ends : bool) : outcome val :=
  if negb (arity args 1 3) then Err else
  match nth_error args 0 with
  | None => Err
  | Some x =>
      let a := match nth_error args 1 with Some v => to_arg v | None => ANone end in
      let b := match nth_error args 2 with Some v => to_arg v | None => ANone end in
      match indices a b (blen recv) with
      | None => Err
      | Some (start, e) =>
          let e := if e <? start then start else e in
          let s := substr recv start e in
          let f := if ends then has_suffix else has_prefix in
          match x with
          | VTuple l => any_fix f s l
          | VStr p => Ok (VBool (f s p))
          | _ => Err
          end
      end
  end.

(* splitspace(s, max): for i, r := range s { ... }  then the trailing field.
   State: res, start (-1 in a region of spaces).  Returns at `break` or at the end of s. *)
Fixpoint splitspace_loop (rest : bytes) (i : Z) (full : bytes) (max : Z)
         (res : list bytes) (start : Z) : list bytes * Z :=
  match rest with
  | [] => (res, start)
  | r :: t =>
      if is_space r then
        if start >=? 0 then
          if Z.of_nat (length res) =? max then (res, start) (* break *)
          else splitspace_loop t (i + 1) full max (res ++ [substr full start i]) (-1)
        else splitspace_loop t (i + 1) full max res start
      else if start =? -1 then splitspace_loop t (i + 1) full max res i
      else splitspace_loop t (i + 1) full max res start
  end.
Definition splitspace (s : bytes) (max : Z) : list bytes :=
  let '(res, start) := splitspace_loop s 0 s max [] (-1) in
  if start >=? 0 then res ++ [substr s start (blen s)] else res.

(* rsplitspace(s, max): for i := len(s); i > 0; { r := last rune of s[:i]; ...; i -= 1 }
   `rrest` is s[:i] reversed.  State: res, end (-1 in a region of spaces). *)
Fixpoint rsplitspace_loop (rrest : bytes) (i : Z) (full : bytes) (max : Z)
         (res : list bytes) (e : Z) : list bytes * Z :=
  match rrest with
  | [] => (res, e)
  | r :: t =>
      if is_space r then
        if e >=? 0 then
          if Z.of_nat (length res) =? max then (res, e) (* break *)
          else rsplitspace_loop t (i - 1) full max (res ++ [substr full i e]) (-1)
        else rsplitspace_loop t (i - 1) full max res e
      else if e <? 0 then rsplitspace_loop t (i - 1) full max res i
      else rsplitspace_loop t (i - 1) full max res e
  end.
Definition rsplitspace (s : bytes) (max : Z) : list bytes :=
  let '(res, e) := rsplitspace_loop (rev s) (blen s) s max [] (-1) in
  let res := if e >=? 0 then res ++ [substr s 0 e] else res in
  rev res.

Definition str_list (l : list bytes) : val := VList (map VStr l).

(* rsplit(s, sep, max): for ; max != 0; max-- { i := LastIndex(s, sep); if i < 0 { break };
     res = append(res, s[i+len(sep):]); s = s[:i] };  res = append(res, s); reverse(res) *)
Fixpoint rsplit_loop (fuel : nat) (s sep : bytes) (max : Z) (res : list bytes) : outcome (list bytes) :=
  match fuel with
  | O => OutOfFuel
  | S f =>
      if max =? 0 then Ok (rev (res ++ [s]))
      else
        let i := last_index s sep in
        if i <? 0 then Ok (rev (res ++ [s]))
        else rsplit_loop f (substr s 0 i) sep (wrap64 (max - 1))
                         (res ++ [substr s (i + blen sep) (blen s)])
  end.

(* string_split (also rsplit) *)
Definition string_split (recv : bytes) (args : list val) (right : bool) : outcome val :=
  if negb (arity args 0 2) then Err else
  match int_at args 1 (-1) with
  | None => Err
  | Some maxsplit =>
      match nth_error args 0 with
      | None | Some VNone =>
          if maxsplit <? 0 then Ok (str_list (fields recv))
          else if right then Ok (str_list (rsplitspace recv maxsplit))
          else Ok (str_list (splitspace recv maxsplit))
      | Some (VStr sep) =>
          match sep with
          | [] => Err
          | _ =>
              if right then
                match rsplit_loop (S (length recv)) recv sep maxsplit [] with
                | Ok res => Ok (str_list res)
                | Err => Err | Panic => Panic | OutOfFuel => OutOfFuel
                end
              else if maxsplit <? 0 then Ok (str_list (go_split recv sep))
              else Ok (str_list (go_split_n recv sep (wrap64 (maxsplit + 1))))
          end
      | Some _ => Err
      end
  end.

Definition string_splitlines (recv : bytes) (args : list val) : outcome val :=
  if negb (arity args 0 1) then Err else
  match bool_at args 0 false with
  | None => Err
  | Some keepends =>
      match recv with
      | [] => Ok (str_list [])
      | _ =>
          let lines := if keepends then go_split_after recv [10%N] else go_split recv [10%N] in
          let lines := if has_suffix recv [10%N] then removelast lines else lines in
          Ok (str_list lines)
      end
  end.

Definition string_partition (recv : bytes) (args : list val) (right : bool) : outcome val :=
  if negb (arity args 1 1) then Err else
  match str_at args 0 None with
  | None => Err
  | Some [] => Err
  | Some sep =>
      let i := if right then last_index recv sep else index recv sep in
      if i <? 0 then
        (if right then Ok (VTuple [VStr []; VStr []; VStr recv])
         else Ok (VTuple [VStr recv; VStr []; VStr []]))
      else Ok (VTuple [VStr (substr recv 0 i); VStr sep; VStr (substr recv (i + blen sep) (blen recv))])
  end.

(* string_strip: which = 0 strip, 1 lstrip, 2 rstrip *)
Definition string_strip (recv : bytes) (args : list val) (which : nat) : outcome val :=
  if negb (arity args 0 1) then Err else
  match str_at args 0 (Some []) with
  | None => Err
  | Some chars =>
      let p := match chars with [] => is_space | _ => in_set chars end in
      Ok (VStr (match which with
                | O => trim_right p (trim_left p recv)
                | S O => trim_left p recv
                | _ => trim_right p recv
                end))
  end.

Definition string_replace (recv : bytes) (args : list val) : outcome val :=
  if negb (arity args 2 3) then Err else
  match str_at args 0 None, str_at args 1 None, int_at args 2 (-1) with
  | Some old, Some new, Some cnt => Ok (VStr (go_replace recv old new cnt))
  | _, _, _ => Err
  end.

(* string_join: the iterable's elements are consumed left to right; a non-string fails *)
Fixpoint join_loop (recv : bytes) (l : list val) (first : bool) : outcome bytes :=
  match l with
  | [] => Ok []
  | VStr s :: r =>
      match join_loop recv r false with
      | Ok rest => Ok ((if first then [] else recv) ++ s ++ rest)
      | o => o
      end
  | _ :: _ => Err
  end.
Definition iterable_elems (v : val) : option (list val) :=
  match v with VList l | VTuple l => Some l | _ => None end.
Definition string_join (recv : bytes) (args : list val) : outcome val :=
  if negb (arity args 1 1) then Err else
  match nth_error args 0 with
  | Some v => match iterable_elems v with
              | Some l => match join_loop recv l true with Ok b => Ok (VStr b) | Err => Err | Panic => Panic | OutOfFuel => OutOfFuel end
              | None => Err
              end
  | None => Err
  end.

Definition string_removefix (recv : bytes) (args : list val) (suffix : bool) : outcome val :=
  if negb (arity args 1 1) then Err else
  match str_at args 0 None with
  | None => Err
  | Some fix_ => Ok (VStr (if suffix then trim_suffix recv fix_ else trim_prefix recv fix_))
  end.

(* case mapping and predicates (ASCII readings of unicode.ToTitle/ToLower/IsLetter/...) *)
Definition is_cased (c : N) : bool := is_letter c.
Definition string_capitalize (s : bytes) : bytes :=
  match s with [] => [] | c :: t => to_upper c :: map to_lower t end.
Fixpoint title_loop (s : bytes) (prev_cased : bool) : bytes :=
  match s with
  | [] => []
  | c :: t => let r := if prev_cased then to_lower c else to_upper c in
              r :: title_loop t (is_cased r)
  end.
Fixpoint istitle_loop (s : bytes) (cased prev_cased : bool) : bool :=
  match s with
  | [] => cased
  | c :: t =>
      if is_upper c then (if prev_cased then false else istitle_loop t true true)
      else if is_lower c then (if negb prev_cased then false else istitle_loop t true true)
      else istitle_loop t cased false
  end.
Definition all_nonempty (p : N -> bool) (s : bytes) : bool :=
  forallb p s && match s with [] => false | _ => true end.

Definition noargs (args : list val) (r : val) : outcome val :=
  match args with [] => Ok r | _ => Err end.

Definition string_method (m : meth) (recv : bytes) (args : list val) : outcome val :=
  match m with
  | MCount => string_count recv args
  | MFind => string_find_impl recv args true false
  | MRfind => string_find_impl recv args true true
  | MIndex => string_find_impl recv args false false
  | MRindex => string_find_impl recv args false true
  | MStartswith => string_startswith recv args false
  | MEndswith => string_startswith recv args true
  | MSplit => string_split recv args false
  | MRsplit => string_split recv args true
  | MSplitlines => string_splitlines recv args
  | MPartition => string_partition recv args false
  | MRpartition => string_partition recv args true
  | MStrip => string_strip recv args 0
  | MLstrip => string_strip recv args 1
  | MRstrip => string_strip recv args 2
  | MReplace => string_replace recv args
  | MJoin => string_join recv args
  | MRemoveprefix => string_removefix recv args false
  | MRemovesuffix => string_removefix recv args true
  | MUpper => noargs args (VStr (map to_upper recv))
  | MLower => noargs args (VStr (map to_lower recv))
  | MCapitalize => noargs args (VStr (string_capitalize recv))
  | MTitle => noargs args (VStr (title_loop recv false))
  | MIsalnum => noargs args (VBool (all_nonempty (fun c => is_letter c || is_digit c) recv))
  | MIsalpha => noargs args (VBool (all_nonempty is_letter recv))
  | MIsdigit => noargs args (VBool (all_nonempty is_digit recv))
  | MIslower => noargs args (VBool (existsb is_cased recv && bytes_eqb recv (map to_lower recv)))
  | MIsupper => noargs args (VBool (existsb is_cased recv && bytes_eqb recv (map to_upper recv)))
  | MIsspace => noargs args (VBool (all_nonempty is_space recv))
  | MIstitle => noargs args (VBool (istitle_loop recv false false))
  end.
