(* C13 -- executable model of interpolate (starlark/eval.go), the
   implementation of  format % args  for a string left operand, over byte
   lists.  It follows the Go text: the `for` that cuts the format string at the
   next '%' with strings.IndexByte, the "%%" test, the "%(key)" branch with its
   IndexByte(')') and Mapping lookup, the positional branch with `index` /
   `nargs`, the `format == ""` test, the switch on the conversion letter,
   `format = format[1:]; index++`, and the final surplus-operand test.

   Every slice / index expression is bounds-checked (None -> IPanic) and the
   loop runs on explicit fuel (IOutOfFuel); ProofsInterp.v shows that neither
   can occur.  Values are abstract (type V).  What a conversion letter prints
   for a value -- str(x), repr(x), and number / character formatting for
   d i o x X e f g E F G c, or that it rejects the value -- is not this
   property's subject (C15 / C19): str_of, repr_of and conv_text are
   parameters.  No proofs in this file. *)
From Coq Require Import ZArith NArith List Bool.
From SV Require Import Common.GoInt C13.Base C13.FormatBase C13.Format.
Import ListNotations.
Open Scope Z_scope.

(* the right operand x of %, as interpolate looks at it *)
Inductive operand (V : Type) :=
| OTuple (elems : list V)                          (* x.(Tuple) *)
| OMapping (self : V) (entries : list (fbytes * V)) (* x.(Mapping): its string-keyed entries *)
| OSingle (self : V).                              (* anything else *)
Arguments OTuple {V} elems.
Arguments OMapping {V} self entries.
Arguments OSingle {V} self.

(* format != "" && format[0] == c ; None = the index expression panicked *)
Definition head_is (format : fbytes) (c : N) : option bool :=
  match format with
  | [] => Some false
  | _ :: _ => match byte_at format 0 with
              | Some d => Some (N.eqb d c)
              | None => None
              end
  end.

Section Model.
  Variable V : Type.
  Variables str_of repr_of : V -> fbytes.        (* %s, %r *)
  Variable conv_text : N -> V -> option fbytes.  (* d i o x X e f g E F G c: the text, or None = rejected *)

  (* nargs := 1; if tuple, ok := x.(Tuple); ok { nargs = len(tuple) } *)
  Definition nargs (x : operand V) : Z :=
    match x with OTuple l => Z.of_nat (length l) | _ => 1 end.
  Definition is_mapping (x : operand V) : bool :=
    match x with OMapping _ _ => true | _ => false end.

  (* dict.Get(String(key)) *)
  Fixpoint find_key (entries : list (fbytes * V)) (key : fbytes) : option V :=
    match entries with
    | [] => None
    | (k, v) :: r => if bytes_eqb k key then Some v else find_key r key
    end.

  (* switch c := format[0]; c { ... } : the text to write, or the error *)
  Definition convert_arg (c : N) (arg : V) : fbytes + ierr :=
    let valued := match conv_text c arg with Some t => inl t | None => inr IBadOperand end in
    if N.eqb c 115 then inl (str_of arg)                       (* s *)
    else if N.eqb c 114 then inl (repr_of arg)                 (* r *)
    else if N.eqb c 100 || N.eqb c 105 || N.eqb c 111 || N.eqb c 120 || N.eqb c 88
    then valued                                                (* d i o x X: NumberToInt *)
    else if N.eqb c 101 || N.eqb c 102 || N.eqb c 103 || N.eqb c 69 || N.eqb c 70 || N.eqb c 71
    then valued                                                (* e f g E F G: AsFloat *)
    else if N.eqb c 99 then valued                             (* c *)
    else if N.eqb c 37 then inl [ch_pct]                       (* % *)
    else inr IUnknownConv.

  Inductive isel :=
  | ISel (arg : V) (format : fbytes)   (* the argument and the rest of the format string *)
  | IStop (r : ires).

  (* if index < nargs && !is[Mapping](x) { error } ; return buf *)
  Definition interp_finish (x : operand V) (index : Z) (buf : fbytes) : ires :=
    if (index <? nargs x) && negb (is_mapping x) then IErr ITooMany else IOk buf.

  (* "var arg Value; if format != "" && format[0] == '(' {...} else {...}" *)
  Definition select_operand (x : operand V) (format : fbytes) (index : Z) : isel :=
    match head_is format ch_lparen with
    | None => IStop IPanic
    | Some true =>
        (* keyword argument: %(name)s *)
        match sl_from format 1 with
        | None => IStop IPanic
        | Some format2 =>
            let j := index_byte format2 ch_rparen in
            if j <? 0 then IStop (IErr IIncompleteKey)
            else
              match sl_to format2 j, sl_from format2 (j + 1) with
              | Some key, Some format3 =>
                  match x with
                  | OMapping _ entries =>
                      match find_key entries key with
                      | Some v => ISel v format3
                      | None => IStop (IErr IKeyNotFound)
                      end
                  | _ => IStop (IErr INotMapping)
                  end
              | _, _ => IStop IPanic
              end
        end
    | Some false =>
        (* positional argument: %s *)
        if index >=? nargs x then IStop (IErr INotEnough)
        else
          match x with
          | OTuple l =>
              if index <? 0 then IStop IPanic
              else match nth_error l (Z.to_nat index) with
                   | Some v => ISel v format
                   | None => IStop IPanic
                   end
          | OMapping v _ | OSingle v => ISel v format
          end
    end.

  Fixpoint interp_loop (fuel : nat) (x : operand V) (format : fbytes) (index : Z) (buf : fbytes) : ires :=
    match fuel with
    | O => IOutOfFuel
    | S fuel' =>
        let i := index_byte format ch_pct in
        if i <? 0 then interp_finish x index (buf ++ format)     (* buf.WriteString(format); break *)
        else
          match sl_to format i, sl_from format (i + 1) with
          | Some lit, Some format1 =>
              let buf1 := buf ++ lit in
              (* if format != "" && format[0] == '%' *)
              match head_is format1 ch_pct with
              | None => IPanic
              | Some true =>
                  match sl_from format1 1 with
                  | Some format2 => interp_loop fuel' x format2 index (buf1 ++ [ch_pct])
                  | None => IPanic
                  end
              | Some false =>
                  match select_operand x format1 index with
                  | IStop r => r
                  | ISel arg format3 =>
                      (* if format == "" { return error } *)
                      match format3 with
                      | [] => IErr IIncomplete
                      | _ :: _ =>
                          match byte_at format3 0 with
                          | None => IPanic
                          | Some c =>
                              match convert_arg c arg with
                              | inr e => IErr e
                              | inl t =>
                                  (* format = format[1:]; index++ *)
                                  match sl_from format3 1 with
                                  | Some format4 => interp_loop fuel' x format4 (index + 1) (buf1 ++ t)
                                  | None => IPanic
                                  end
                              end
                          end
                      end
                  end
              end
          | _, _ => IPanic
          end
    end.

  Definition interpolate (format : fbytes) (x : operand V) : ires :=
    interp_loop (S (length format)) x format 0 [].
End Model.

Arguments ISel {V} arg format.
Arguments IStop {V} r.
