(* C13 -- data types shared by the models (Index.v, Str.v, Seq.v) and the
   specification (Spec.v).  No definitions with computational content beyond
   equality tests live here. *)
From Coq Require Import ZArith NArith List Bool.
Import ListNotations.
Open Scope Z_scope.

(* Outcome of running a piece of the implementation.
   Err       : the Go function returned a non-nil error (any message; the class
               is the observable);
   Panic     : a Go run-time panic (index out of range, makeslice ...) -- the
               model makes every potentially panicking operation explicit;
   OutOfFuel : the explicit fuel of a modelled loop ran out (excluded by the
               theorems through a proven bound). *)
Inductive outcome (A : Type) : Type :=
| Ok (a : A) | Err | Panic | OutOfFuel.
Arguments Ok {A} a. Arguments Err {A}. Arguments Panic {A}. Arguments OutOfFuel {A}.

Definition obind {A B} (o : outcome A) (f : A -> outcome B) : outcome B :=
  match o with Ok a => f a | Err => Err | Panic => Panic | OutOfFuel => OutOfFuel end.

(* What the specification says about a call: a value, or "the operation fails". *)
Definition of_spec {A} (o : option A) : outcome A :=
  match o with Some a => Ok a | None => Err end.

(* An operand of an index / slice expression or an optional index argument of
   a method: None (or omitted), an integer of any size, or a value of another
   type (string, float, ...). *)
Inductive arg := ANone | AInt (z : Z) | AOther.

(* Starlark values that occur as receivers, arguments and results of the
   operations of this property.  Strings and bytes are lists of byte values
   (ASCII by the property's quantifier, so bytes = code points). *)
Inductive val :=
| VNone
| VBool (b : bool)
| VInt (z : Z)
| VStr (s : list N)
| VBytes (s : list N)
| VList (l : list val)
| VTuple (l : list val)
| VOther.               (* a value of a type none of these operations accepts (a float, a dict...) *)

Definition bytes_eqb (a b : list N) : bool :=
  (fix go a b := match a, b with
                 | [], [] => true
                 | x :: a', y :: b' => N.eqb x y && go a' b'
                 | _, _ => false end) a b.

Fixpoint val_eqb (a b : val) {struct a} : bool :=
  let fix list_eqb (l m : list val) {struct l} : bool :=
      match l, m with
      | [], [] => true
      | x :: l', y :: m' => val_eqb x y && list_eqb l' m'
      | _, _ => false
      end in
  match a, b with
  | VNone, VNone => true
  | VBool x, VBool y => Bool.eqb x y
  | VInt x, VInt y => Z.eqb x y
  | VStr x, VStr y => bytes_eqb x y
  | VBytes x, VBytes y => bytes_eqb x y
  | VList x, VList y => list_eqb x y
  | VTuple x, VTuple y => list_eqb x y
  | VOther, VOther => true
  | _, _ => false
  end.

Definition outcome_eqb {A} (eqb : A -> A -> bool) (a b : outcome A) : bool :=
  match a, b with
  | Ok x, Ok y => eqb x y
  | Err, Err => true
  | Panic, Panic => true
  | OutOfFuel, OutOfFuel => true
  | _, _ => false
  end.

Definition to_arg (v : val) : arg :=
  match v with VNone => ANone | VInt z => AInt z | _ => AOther end.

(* Starlark truth value *)
Definition truth (v : val) : bool :=
  match v with
  | VNone => false
  | VBool b => b
  | VInt z => negb (z =? 0)
  | VStr s | VBytes s => match s with [] => false | _ => true end
  | VList l | VTuple l => match l with [] => false | _ => true end
  | VOther => true
  end.
