(* C13 -- proofs about the index / slice core (Index.v) against Spec.v part 1. *)
From Coq Require Import ZArith NArith List Bool Lia.
From Coq Require Import ZifyBool ZifyNat.
From SV Require Import Common.GoInt C13.Base C13.Index C13.Spec.
Import ListNotations.
Open Scope Z_scope.

Definition small_arg (a : arg) : bool := match a with AInt z => in_int32 z | _ => true end.

Lemma in_int32_bounds z : in_int32 z = true -> -2147483648 <= z <= 2147483647.
Proof. unfold in_int32, min_int32, max_int32. lia. Qed.

Lemma wrap64_small z : -9223372036854775808 <= z <= 9223372036854775807 -> wrap64 z = z.
Proof. intros. apply wrap64_id. unfold in_int64, min_int64, max_int64. lia. Qed.

(* ---- progression / pick *)
Lemma progression_S s st m : progression s st (S m) = s :: progression (s + st) st m.
Proof.
  unfold progression. cbn [seq map]. f_equal; [lia|].
  rewrite <- seq_shift, map_map. apply map_ext. intros k. lia.
Qed.

Lemma pick_cons {A} (xs : list A) i l :
  pick xs (i :: l) = (match at_index xs i with Some x => [x] | None => [] end) ++ pick xs l.
Proof. reflexivity. Qed.

Lemma valid_index {A} (xs : list A) i :
  0 <= i < Z.of_nat (length xs) -> exists x, zth xs i = Some x /\ at_index xs i = Some x.
Proof.
  intros H. unfold zth, at_index.
  destruct (nth_error xs (Z.to_nat i)) eqn:E.
  - exists a. split.
    + destruct (i <? 0) eqn:E1; [lia|reflexivity].
    + destruct ((0 <=? i) && (i <? Z.of_nat (length xs))) eqn:E2; [reflexivity|lia].
  - apply nth_error_None in E. lia.
Qed.

(* ---- number of terms of an arithmetic progression *)
Definition cnt (k d : Z) : Z := if 0 <? k then (k - 1) / d + 1 else 0.
Definition plen (s e st : Z) : Z := if st <? 0 then cnt (s - e) (- st) else cnt (e - s) st.

Lemma cnt_step k d : 0 < d -> 0 < k -> cnt (k - d) d = cnt k d - 1.
Proof.
  intros Hd Hk. unfold cnt.
  destruct (0 <? k) eqn:E1; [|lia].
  destruct (0 <? k - d) eqn:E2.
  - replace (k - d - 1) with ((k - 1) + (-1) * d) by lia.
    rewrite Z.div_add by lia. lia.
  - rewrite Z.div_small by lia. lia.
Qed.

Lemma cnt_pos k d : 0 < d -> 0 < k -> 1 <= cnt k d <= k.
Proof.
  intros Hd Hk. unfold cnt. destruct (0 <? k) eqn:E; [|lia].
  assert (0 <= (k - 1) / d) by (apply Z.div_pos; lia).
  assert ((k - 1) / d <= k - 1) by (apply Z.div_le_upper_bound; nia).
  lia.
Qed.

Lemma cnt_nonpos k d : k <= 0 -> cnt k d = 0.
Proof. intros. unfold cnt. destruct (0 <? k) eqn:E; lia. Qed.

Lemma slice_indices_len n lo hi st :
  let '(s, e, len) := slice_indices n lo hi st in len = plen s e st.
Proof.
  unfold slice_indices, plen, cnt. cbv zeta.
  destruct (st <? 0) eqn:E.
  - match goal with |- context[?a <? ?b] => destruct (a <? b) eqn:E1 end;
    match goal with |- context[0 <? ?b] => destruct (0 <? b) eqn:E2 end; try lia.
    all: repeat match goal with |- context[?a <? ?b] => destruct (a <? b) eqn:? end; try lia.
    all: f_equal; try lia.
  - match goal with |- context[?a <? ?b] => destruct (a <? b) eqn:E1 end;
    match goal with |- context[0 <? ?b] => destruct (0 <? b) eqn:E2 end; try lia.
    all: repeat match goal with |- context[?a <? ?b] => destruct (a <? b) eqn:? end; try lia.
    all: f_equal; try lia.
Qed.

(* ---- the Slice loop: with enough fuel it returns exactly the picked progression *)
Lemma signum_sgn_pos d st : 0 < st -> (signum d =? Z.sgn st) = (0 <? d).
Proof. intros. unfold signum. rewrite (Z.sgn_pos st) by lia. destruct d; cbn; lia. Qed.
Lemma signum_sgn_neg d st : st < 0 -> (signum d =? Z.sgn st) = (d <? 0).
Proof. intros. unfold signum. rewrite (Z.sgn_neg st) by lia. destruct d; cbn; lia. Qed.

Definition B : Z := 2305843009213693952. (* 2^61 *)
Definition S32 : Z := 4294967296. (* 2^32 *)

Lemma slice_loop_ok {A} (xs : list A) e st :
  let n := Z.of_nat (length xs) in
  st <> 0 -> - S32 <= st <= S32 -> - B <= e <= B ->
  forall (m fuel : nat) i,
    - B - S32 <= i <= B + S32 ->
    (0 < st -> i < e -> 0 <= i /\ e <= n) ->
    (st < 0 -> e < i -> i <= n - 1 /\ -1 <= e) ->
    Z.of_nat m = plen i e st -> (m < fuel)%nat ->
    slice_loop fuel xs i e st (Z.sgn st) = Ok (pick xs (progression i st m)) /\
    length (pick xs (progression i st m)) = m.
Proof.
  intros n Hst Bst Be. unfold B, S32 in *.
  induction m as [|m IH]; intros fuel i Bi Hpos Hneg Hm Hfuel.
  - destruct fuel as [|f]; [lia|]. cbn [slice_loop].
    rewrite wrap64_small by lia.
    unfold plen in Hm.
    destruct (Z_lt_ge_dec st 0) as [Hs|Hs].
    + rewrite signum_sgn_neg by lia.
      destruct (st <? 0) eqn:E; [|lia].
      destruct (e - i <? 0) eqn:E1.
      * pose proof (cnt_pos (i - e) (- st)). lia.
      * split; reflexivity.
    + rewrite signum_sgn_pos by lia.
      destruct (st <? 0) eqn:E; [lia|].
      destruct (0 <? e - i) eqn:E1.
      * pose proof (cnt_pos (e - i) st). lia.
      * split; reflexivity.
  - destruct fuel as [|f]; [lia|]. cbn [slice_loop].
    rewrite wrap64_small by lia.
    rewrite progression_S, pick_cons.
    unfold plen in Hm.
    destruct (Z_lt_ge_dec st 0) as [Hs|Hs].
    + rewrite signum_sgn_neg by lia.
      destruct (st <? 0) eqn:E; [|lia].
      destruct (e - i <? 0) eqn:E1.
      2:{ rewrite cnt_nonpos in Hm by lia. lia. }
      destruct (Hneg Hs ltac:(lia)) as [Hi1 He1].
      destruct (valid_index xs i ltac:(lia)) as [x [Hz Ha]].
      rewrite Hz, Ha.
      assert (Bw : wrap64 (i + st) = i + st) by (apply wrap64_small; lia).
      rewrite Bw.
      assert (Hp : Z.of_nat m = plen (i + st) e st).
      { unfold plen. rewrite E.
        replace (i + st - e) with ((i - e) - (- st)) by lia.
        rewrite cnt_step by lia. lia. }
      destruct (IH f (i + st)) as [IH1 IH2]; try lia.
      rewrite IH1. split; [reflexivity|]. cbn [app length]. lia.
    + rewrite signum_sgn_pos by lia.
      destruct (st <? 0) eqn:E; [lia|].
      destruct (0 <? e - i) eqn:E1.
      2:{ rewrite cnt_nonpos in Hm by lia. lia. }
      destruct (Hpos ltac:(lia) ltac:(lia)) as [Hi1 He1].
      destruct (valid_index xs i ltac:(lia)) as [x [Hz Ha]].
      rewrite Hz, Ha.
      assert (Bw : wrap64 (i + st) = i + st) by (apply wrap64_small; lia).
      rewrite Bw.
      assert (Hp : Z.of_nat m = plen (i + st) e st).
      { unfold plen. rewrite E.
        replace (e - (i + st)) with ((e - i) - st) by lia.
        rewrite cnt_step by lia. lia. }
      destruct (IH f (i + st)) as [IH1 IH2]; try lia.
      rewrite IH1. split; [reflexivity|]. cbn [app length]. lia.
Qed.

(* ---- the step = 1 fast path s[start:end] *)
Lemma skipn_nth {A} (xs : list A) k x : nth_error xs k = Some x -> skipn k xs = x :: skipn (S k) xs.
Proof.
  revert k. induction xs as [|y ys IH]; intros [|k] H; cbn in *; try discriminate.
  - injection H as ->. reflexivity.
  - apply IH in H. exact H.
Qed.

Lemma at_index_nth {A} (xs : list A) i x : at_index xs i = Some x -> 0 <= i /\ nth_error xs (Z.to_nat i) = Some x.
Proof.
  unfold at_index. destruct ((0 <=? i) && (i <? Z.of_nat (length xs))) eqn:E; [|discriminate].
  intros H. split; [lia|exact H].
Qed.

Lemma pick_contiguous {A} (xs : list A) (m : nat) : forall s,
  0 <= s -> s + Z.of_nat m <= Z.of_nat (length xs) ->
  pick xs (progression s 1 m) = firstn m (skipn (Z.to_nat s) xs).
Proof.
  induction m as [|m IH]; intros s H0 H1.
  - reflexivity.
  - rewrite progression_S, pick_cons.
    destruct (valid_index xs s ltac:(lia)) as [x [_ Ha]]. rewrite Ha.
    apply at_index_nth in Ha. destruct Ha as [_ Hn].
    rewrite (skipn_nth _ _ _ Hn). cbn [app firstn]. f_equal.
    rewrite IH by lia. f_equal. f_equal. lia.
Qed.

(* ---- what slice_bounds computes, in terms of Python's slice.indices *)
Lemma as_index_small v len r0 :
  small_arg v = true -> 0 <= len <= B ->
  as_index v len r0 =
  match int_or_none v with
  | None => None
  | Some None => Some r0
  | Some (Some z) => Some (if z <? 0 then z + len else z)
  end.
Proof.
  unfold B. intros Hs Hl. destruct v as [|z|]; cbn in *; try reflexivity.
  rewrite Hs. apply in_int32_bounds in Hs.
  destruct (z <? 0); [rewrite wrap64_small by lia|]; reflexivity.
Qed.

Definition adj (len : Z) (v : option Z) (dflt : Z) : Z :=
  match v with None => dflt | Some z => if z <? 0 then z + len else z end.

Definition go_bounds (n : Z) (lo hi : option Z) (st : Z) : Z * Z :=
  if st >? 0 then
    let s := clamp0 (adj n lo 0) n in
    let e := clamp0 (adj n hi n) n in
    (s, if e <? s then s else e)
  else
    let s0 := adj n lo (n - 1) in
    let s0 := if s0 >=? n then n - 1 else s0 in
    let e0 := adj n hi (-1) in
    let e := if e0 <? -1 then -1 else e0 in
    ((if s0 <? e then e else s0), e).

Lemma slice_bounds_eq n lo hi st stv :
  0 <= n <= B -> small_arg lo = true -> small_arg hi = true ->
  slice_step st = Some stv ->
  slice_bounds n lo hi st =
  match int_or_none lo, int_or_none hi with
  | Some lo', Some hi' => let '(s, e) := go_bounds n lo' hi' stv in Some (s, e, stv)
  | _, _ => None
  end.
Proof.
  intros Hn Hlo Hhi Hst. unfold slice_bounds, indices, go_bounds. rewrite Hst.
  rewrite !(as_index_small lo) by assumption.
  rewrite !(as_index_small hi) by assumption.
  rewrite (wrap64_small (n - 1)) by (unfold B in *; lia).
  destruct (stv >? 0) eqn:E.
  - destruct (int_or_none lo) as [[zl|]|]; destruct (int_or_none hi) as [[zh|]|]; cbn [adj]; reflexivity.
  - destruct (int_or_none lo) as [[zl|]|]; destruct (int_or_none hi) as [[zh|]|]; cbn [adj]; reflexivity.
Qed.

Definition opt_small (v : option Z) : Prop := match v with Some z => -2147483648 <= z <= 2147483647 | None => True end.

Ltac split_ifs :=
  repeat (match goal with
         | |- context[if ?a <? ?b then _ else _] => destruct (a <? b) eqn:?
         | |- context[if ?a >? ?b then _ else _] => destruct (a >? b) eqn:?
         | |- context[if ?a >=? ?b then _ else _] => destruct (a >=? b) eqn:?
         | H : context[if ?a <? ?b then _ else _] |- _ => destruct (a <? b) eqn:?
         | H : context[if ?a >? ?b then _ else _] |- _ => destruct (a >? b) eqn:?
         | H : context[if ?a >=? ?b then _ else _] |- _ => destruct (a >=? b) eqn:?
         end; try lia).

Lemma go_bounds_agree n lo hi st :
  0 <= n <= B -> opt_small lo -> opt_small hi -> st <> 0 ->
  let '(s, e) := go_bounds n lo hi st in
  let '(sp, ep, len) := slice_indices n lo hi st in
  plen s e st = len /\ (len = 0 \/ s = sp) /\
  - B <= s <= B /\ - B <= e <= B /\
  (0 < st -> 0 <= s <= e /\ e <= n) /\
  (st < 0 -> e <= s /\ (e < s -> s <= n - 1 /\ -1 <= e)).
Proof.
  intros Hn Hlo Hhi Hst.
  pose proof (slice_indices_len n lo hi st) as HL.
  destruct (slice_indices n lo hi st) as [[sp ep] len] eqn:ES.
  unfold slice_indices in ES. injection ES as Es Ee El.
  destruct (go_bounds n lo hi st) as [s e] eqn:EG.
  unfold go_bounds in EG.
  unfold B in *.
  assert (Hc : forall k d, k <= 0 -> cnt k d = 0) by (intros; apply cnt_nonpos; assumption).
  destruct (st >? 0) eqn:E0.
  - injection EG as Gs Ge.
    assert (Est : (st <? 0) = false) by lia. rewrite Est in *.
    unfold plen in *. rewrite Est in *.
    unfold clamp0, adj, adjust_bound in *.
    destruct lo as [zl|], hi as [zh|]; cbn [opt_small] in *;
      subst s e sp ep; rewrite HL; clear HL El;
      split_ifs; repeat split; try lia;
      try (first [ f_equal; lia | rewrite !Hc by lia; reflexivity | right; lia | left; apply Hc; lia ]).
  - injection EG as Gs Ge.
    assert (Est : (st <? 0) = true) by lia. rewrite Est in *.
    unfold plen in *. rewrite Est in *.
    unfold clamp0, adj, adjust_bound in *.
    destruct lo as [zl|], hi as [zh|]; cbn [opt_small] in *;
      subst s e sp ep; rewrite HL; clear HL El;
      split_ifs; repeat split; try lia;
      try (first [ f_equal; lia | rewrite !Hc by lia; reflexivity | right; lia | left; apply Hc; lia ]).
Qed.

Lemma plen_one s e : s <= e -> plen s e 1 = e - s.
Proof.
  intros H. unfold plen. change (1 <? 0) with false. cbv iota. unfold cnt.
  destruct (0 <? e - s) eqn:E; [|apply Z.ltb_ge in E; lia].
  rewrite Z.div_1_r. lia.
Qed.

Lemma plen_bound s e st n :
  0 <= n -> st <> 0 ->
  (0 < st -> 0 <= s <= e /\ e <= n) ->
  (st < 0 -> e <= s /\ (e < s -> s <= n - 1 /\ -1 <= e)) ->
  0 <= plen s e st <= n.
Proof.
  intros Hn0 Hst Hp Hn. unfold plen.
  destruct (st <? 0) eqn:E.
  - destruct (Hn ltac:(lia)) as [H1 H2].
    destruct (Z.eq_dec e s) as [->|Hne].
    + rewrite cnt_nonpos by lia. lia.
    + pose proof (cnt_pos (s - e) (- st)). lia.
  - destruct (Hp ltac:(lia)) as [H1 H2].
    destruct (Z.eq_dec e s) as [->|Hne].
    + rewrite cnt_nonpos by lia. lia.
    + pose proof (cnt_pos (e - s) st). lia.
Qed.

Lemma seq_slice_ok {A} (xs : list A) s e st :
  let n := Z.of_nat (length xs) in
  st <> 0 -> - S32 <= st <= S32 -> - B <= s <= B -> - B <= e <= B ->
  (0 < st -> 0 <= s <= e /\ e <= n) ->
  (st < 0 -> e <= s /\ (e < s -> s <= n - 1 /\ -1 <= e)) ->
  seq_slice xs s e st = Ok (pick xs (progression s st (Z.to_nat (plen s e st)))).
Proof.
  intros n Hst Bst Bs Be Hp Hn. unfold seq_slice.
  pose proof (plen_bound s e st n ltac:(lia) Hst Hp Hn) as HB.
  destruct (st =? 1) eqn:E1.
  - assert (st = 1) by lia. subst st.
    destruct (Hp ltac:(lia)) as [H1 H2].
    unfold go_subslice.
    destruct ((0 <=? s) && (s <=? e) && (e <=? Z.of_nat (length xs))) eqn:E2; [|lia].
    rewrite plen_one by lia.
    rewrite pick_contiguous by lia. reflexivity.
  - destruct (slice_loop_ok xs e st Hst Bst Be (Z.to_nat (plen s e st)) (S (length xs)) s) as [H1 _];
      try (unfold B, S32 in *; lia).
    exact H1.
Qed.

Lemma small_opt v z : small_arg v = true -> int_or_none v = Some z -> opt_small z.
Proof.
  destruct v as [|x|]; cbn; intros H E; try discriminate; injection E as <-; cbn; [exact I|].
  apply in_int32_bounds. exact H.
Qed.

Lemma slice_step_spec st :
  small_arg st = true ->
  slice_step st =
  match int_or_none st with
  | Some o => let step := match o with None => 1 | Some s => s end in
              if step =? 0 then None else Some step
  | None => None
  end.
Proof.
  destruct st as [|z|]; cbn; intros H; try reflexivity. rewrite H. reflexivity.
Qed.

Lemma slice_correct_lemma : forall (A : Type) (xs : list A) lo hi st,
  Z.of_nat (length xs) <= 2^61 ->
  small_arg lo = true -> small_arg hi = true -> small_arg st = true ->
  slice_impl xs lo hi st = of_spec (slice_spec xs lo hi st).
Proof.
  intros A xs lo hi st Hn Hlo Hhi Hst.
  change (2^61) with B in Hn.
  unfold slice_impl, slice_spec.
  pose proof (slice_step_spec st Hst) as HS.
  destruct (int_or_none st) as [o|] eqn:Eo.
  2:{ unfold slice_bounds. rewrite HS.
      destruct (int_or_none lo), (int_or_none hi); reflexivity. }
  cbv zeta in HS.
  set (step := match o with None => 1 | Some s => s end) in *.
  destruct (step =? 0) eqn:E0.
  { unfold slice_bounds. rewrite HS.
    destruct (int_or_none lo), (int_or_none hi); reflexivity. }
  rewrite (slice_bounds_eq _ lo hi st step) by (try assumption; lia).
  destruct (int_or_none lo) as [lo'|] eqn:El; [|reflexivity].
  destruct (int_or_none hi) as [hi'|] eqn:Eh; [|reflexivity].
  assert (Bstep : - S32 <= step <= S32).
  { unfold S32, step. destruct o as [z|]; [|lia].
    pose proof (small_opt st (Some z) Hst Eo) as Hz. cbn in Hz. lia. }
  pose proof (go_bounds_agree (Z.of_nat (length xs)) lo' hi' step ltac:(lia)
                (small_opt _ _ Hlo El) (small_opt _ _ Hhi Eh) ltac:(lia)) as HA.
  destruct (go_bounds (Z.of_nat (length xs)) lo' hi' step) as [s e].
  destruct (slice_indices (Z.of_nat (length xs)) lo' hi' step) as [[sp ep] len].
  destruct HA as (Hlen & Hs & Bs & Be & Hp & Hneg).
  rewrite seq_slice_ok by (try assumption; lia).
  cbn [of_spec]. rewrite Hlen.
  destruct Hs as [-> | ->]; reflexivity.
Qed.

(* operands outside the AsInt32 domain are rejected (spec.md and Python would clamp them) *)
Lemma slice_rejects_outside_int32_lemma : forall (A : Type) (xs : list A) lo hi st,
  small_arg lo && small_arg hi && small_arg st = false -> slice_impl xs lo hi st = Err.
Proof.
  intros A xs lo hi st H. unfold slice_impl, slice_bounds, slice_step, indices, as_index, as_int32.
  destruct st as [|zs|]; cbn [small_arg] in H; try reflexivity.
  - destruct lo as [|zl|], hi as [|zh|]; cbn [small_arg] in H; cbn; try discriminate;
      repeat match goal with |- context[in_int32 ?z] => destruct (in_int32 z) eqn:? end;
      cbn in *; try discriminate; reflexivity.
  - destruct (in_int32 zs) eqn:Es; [|reflexivity].
    destruct (zs =? 0); [reflexivity|].
    destruct (zs >? 0);
    destruct lo as [|zl|], hi as [|zh|]; cbn [small_arg] in H; cbn; try discriminate;
      repeat match goal with |- context[in_int32 ?z] => destruct (in_int32 z) eqn:? end;
      cbn in *; try discriminate; try reflexivity.
Qed.

Lemma indices_clamp_lemma : forall n lo hi,
  0 <= n <= 2^61 -> small_arg lo = true -> small_arg hi = true ->
  indices lo hi n = clamped_bounds n lo hi.
Proof.
  intros n lo hi Hn Hlo Hhi. change (2^61) with B in Hn.
  unfold indices, clamped_bounds.
  rewrite (as_index_small lo) by assumption.
  rewrite (as_index_small hi) by assumption.
  pose proof (small_opt lo) as Slo. pose proof (small_opt hi) as Shi.
  destruct (int_or_none lo) as [lo'|]; [|reflexivity].
  destruct (int_or_none hi) as [hi'|].
  2:{ destruct lo'; reflexivity. }
  specialize (Slo _ Hlo eq_refl). specialize (Shi _ Hhi eq_refl).
  unfold slice_indices. change (1 <? 0) with false. cbv iota.
  unfold clamp0, adjust_bound, B in *.
  destruct lo' as [zl|], hi' as [zh|]; cbn [opt_small] in *;
    split_ifs; repeat f_equal; lia.
Qed.

Lemma indices_range_lemma : forall n lo hi s e,
  0 <= n -> indices lo hi n = Some (s, e) -> 0 <= s <= n /\ 0 <= e <= n.
Proof.
  intros n lo hi s e Hn H. unfold indices in H.
  destruct (as_index lo n 0) as [a|]; [|discriminate].
  destruct (as_index hi n n) as [b|]; [|discriminate].
  injection H as <- <-. unfold clamp0. split_ifs; lia.
Qed.

Lemma index_correct_lemma : forall (A : Type) (xs : list A) y,
  Z.of_nat (length xs) <= 2^31 -> get_index xs y = of_spec (index_spec xs y).
Proof.
  intros A xs y Hn. change (2^31) with 2147483648 in Hn.
  unfold get_index, norm_index, index_spec, as_int32.
  destruct y as [|z|]; try reflexivity.
  destruct (in_int32 z) eqn:Ez.
  - apply in_int32_bounds in Ez.
    destruct (z <? 0) eqn:E1.
    + rewrite wrap64_small by lia.
      destruct ((z + Z.of_nat (length xs) <? 0) || (z + Z.of_nat (length xs) >=? Z.of_nat (length xs))) eqn:E2.
      * destruct ((- Z.of_nat (length xs) <=? z) && (z <? Z.of_nat (length xs))) eqn:E3; [lia|reflexivity].
      * destruct ((- Z.of_nat (length xs) <=? z) && (z <? Z.of_nat (length xs))) eqn:E3; [|lia].
        replace (Z.of_nat (length xs) + z) with (z + Z.of_nat (length xs)) by lia.
        destruct (valid_index xs (z + Z.of_nat (length xs)) ltac:(lia)) as [x [-> ->]]. reflexivity.
    + destruct ((z <? 0) || (z >=? Z.of_nat (length xs))) eqn:E2.
      * destruct ((- Z.of_nat (length xs) <=? z) && (z <? Z.of_nat (length xs))) eqn:E3; [lia|reflexivity].
      * destruct ((- Z.of_nat (length xs) <=? z) && (z <? Z.of_nat (length xs))) eqn:E3; [|lia].
        destruct (valid_index xs z ltac:(lia)) as [x [-> ->]]. reflexivity.
  - destruct ((- Z.of_nat (length xs) <=? z) && (z <? Z.of_nat (length xs))) eqn:E3; [|reflexivity].
    unfold in_int32, min_int32, max_int32 in Ez. lia.
Qed.

Lemma set_nth_spec {A} (xs : list A) (j : nat) v :
  (j < length xs)%nat -> set_nth xs j v = Some (firstn j xs ++ v :: skipn (S j) xs).
Proof.
  revert j. induction xs as [|x r IH]; intros [|j] H; cbn in *; try lia; try reflexivity.
  rewrite IH by lia. reflexivity.
Qed.

Lemma setindex_correct_lemma : forall (A : Type) (xs : list A) y v,
  Z.of_nat (length xs) <= 2^31 -> set_index xs y v = of_spec (setindex_spec xs y v).
Proof.
  intros A xs y v Hn. change (2^31) with 2147483648 in Hn.
  unfold set_index, norm_index, setindex_spec, as_int32.
  destruct y as [|z|]; try reflexivity.
  destruct (in_int32 z) eqn:Ez.
  - apply in_int32_bounds in Ez.
    destruct (z <? 0) eqn:E1.
    + rewrite wrap64_small by lia.
      destruct ((z + Z.of_nat (length xs) <? 0) || (z + Z.of_nat (length xs) >=? Z.of_nat (length xs))) eqn:E2.
      * destruct ((- Z.of_nat (length xs) <=? z) && (z <? Z.of_nat (length xs))) eqn:E3; [lia|reflexivity].
      * destruct ((- Z.of_nat (length xs) <=? z) && (z <? Z.of_nat (length xs))) eqn:E3; [|lia].
        destruct (z + Z.of_nat (length xs) <? 0) eqn:E4; [lia|].
        rewrite set_nth_spec by lia. cbn [of_spec].
        replace (Z.of_nat (length xs) + z) with (z + Z.of_nat (length xs)) by lia. reflexivity.
    + destruct ((z <? 0) || (z >=? Z.of_nat (length xs))) eqn:E2.
      * destruct ((- Z.of_nat (length xs) <=? z) && (z <? Z.of_nat (length xs))) eqn:E3; [lia|reflexivity].
      * destruct ((- Z.of_nat (length xs) <=? z) && (z <? Z.of_nat (length xs))) eqn:E3; [|lia].
        rewrite E1. rewrite set_nth_spec by lia. reflexivity.
  - destruct ((- Z.of_nat (length xs) <=? z) && (z <? Z.of_nat (length xs))) eqn:E3; [|reflexivity].
    unfold in_int32, min_int32, max_int32 in Ez. lia.
Qed.
