(* C13 -- proofs about the index / slice core (Index.v) against Spec.v part 1. *)
From Coq Require Import ZArith NArith List Bool Lia.
From Coq Require Import ZifyBool ZifyNat.
From SV Require Import Common.GoInt C13.Base C13.Index C13.Spec.
Import ListNotations.
Open Scope Z_scope.

Definition small_arg (a : arg) : bool := match a with AInt z => in_int32 z | _ => true end.

Lemma in_int32_bounds z : in_int32 z = true -> -2147483648 <= z <= 2147483647.
Proof. unfold in_int32, min_int32, max_int32. lia. Qed.

Lemma wrap64_small z : -9223372036854775808 <= z <= 9223372036854775807 -> wrap64 z = z.
Proof. intros. apply wrap64_id. unfold in_int64, min_int64, max_int64. lia. Qed.

(* ---- progression / pick *)
Lemma progression_S s st m : progression s st (S m) = s :: progression (s + st) st m.
Proof.
  unfold progression. cbn [seq map]. f_equal; [lia|].
  rewrite <- seq_shift, map_map. apply map_ext. intros k. lia.
Qed.

Lemma pick_cons {A} (xs : list A) i l :
  pick xs (i :: l) = (match at_index xs i with Some x => [x] | None => [] end) ++ pick xs l.
Proof. reflexivity. Qed.

Lemma valid_index {A} (xs : list A) i :
  0 <= i < Z.of_nat (length xs) -> exists x, zth xs i = Some x /\ at_index xs i = Some x.
Proof.
  intros H. unfold zth, at_index.
  destruct (nth_error xs (Z.to_nat i)) eqn:E.
  - exists a. split.
    + destruct (i <? 0) eqn:E1; [lia|reflexivity].
    + destruct ((0 <=? i) && (i <? Z.of_nat (length xs))) eqn:E2; [reflexivity|lia].
  - apply nth_error_None in E. lia.
Qed.

(* ---- number of terms of an arithmetic progression *)
Definition cnt (k d : Z) : Z := if 0 <? k then (k - 1) / d + 1 else 0.
Definition plen (s e st : Z) : Z := if st <? 0 then cnt (s - e) (- st) else cnt (e - s) st.

Lemma cnt_step k d : 0 < d -> 0 < k -> cnt (k - d) d = cnt k d - 1.
Proof.
  intros Hd Hk. unfold cnt.
  destruct (0 <? k) eqn:E1; [|lia].
  destruct (0 <? k - d) eqn:E2.
  - replace (k - d - 1) with ((k - 1) + (-1) * d) by lia.
    rewrite Z.div_add by lia. lia.
  - rewrite Z.div_small by lia. lia.
Qed.

Lemma cnt_pos k d : 0 < d -> 0 < k -> 1 <= cnt k d <= k.
Proof.
  intros Hd Hk. unfold cnt. destruct (0 <? k) eqn:E; [|lia].
  assert (0 <= (k - 1) / d) by (apply Z.div_pos; lia).
  assert ((k - 1) / d <= k - 1) by (apply Z.div_le_upper_bound; nia).
  lia.
Qed.

Lemma cnt_nonpos k d : k <= 0 -> cnt k d = 0.
Proof. intros. unfold cnt. destruct (0 <? k) eqn:E; lia. Qed.

Lemma slice_indices_len n lo hi st :
  let '(s, e, len) := slice_indices n lo hi st in len = plen s e st.
Proof.
  unfold slice_indices, plen, cnt. cbv zeta.
  destruct (st <? 0) eqn:E.
  - match goal with |- context[?a <? ?b] => destruct (a <? b) eqn:E1 end;
    match goal with |- context[0 <? ?b] => destruct (0 <? b) eqn:E2 end; try lia.
    all: repeat match goal with |- context[?a <? ?b] => destruct (a <? b) eqn:? end; try lia.
    all: f_equal; try lia.
  - match goal with |- context[?a <? ?b] => destruct (a <? b) eqn:E1 end;
    match goal with |- context[0 <? ?b] => destruct (0 <? b) eqn:E2 end; try lia.
    all: repeat match goal with |- context[?a <? ?b] => destruct (a <? b) eqn:? end; try lia.
    all: f_equal; try lia.
Qed.

(* ---- the Slice loop: with enough fuel it returns exactly the picked progression *)
Lemma signum_sgn_pos d st : 0 < st -> (signum d =? Z.sgn st) = (0 <? d).
Proof. intros. unfold signum. rewrite (Z.sgn_pos st) by lia. destruct d; cbn; lia. Qed.
Lemma signum_sgn_neg d st : st < 0 -> (signum d =? Z.sgn st) = (d <? 0).
Proof. intros. unfold signum. rewrite (Z.sgn_neg st) by lia. destruct d; cbn; lia. Qed.

Definition B : Z := 2305843009213693952. (* 2^61 *)

Lemma slice_loop_ok {A} (xs : list A) e st :
  let n := Z.of_nat (length xs) in
  st <> 0 -> - B <= st <= B -> - B <= e <= B ->
  forall (m fuel : nat) i,
    - 2 * B <= i <= 2 * B ->
    (0 < st -> i < e -> 0 <= i /\ e <= n) ->
    (st < 0 -> e < i -> i <= n - 1 /\ -1 <= e) ->
    Z.of_nat m = plen i e st -> (m < fuel)%nat ->
    slice_loop fuel xs i e st (Z.sgn st) = Ok (pick xs (progression i st m)) /\
    length (pick xs (progression i st m)) = m.
Proof.
  intros n Hst Bst Be. unfold B in *.
  induction m as [|m IH]; intros fuel i Bi Hpos Hneg Hm Hfuel.
  - destruct fuel as [|f]; [lia|]. cbn [slice_loop].
    rewrite wrap64_small by lia.
    unfold plen in Hm.
    destruct (Z_lt_ge_dec st 0) as [Hs|Hs].
    + rewrite signum_sgn_neg by lia.
      destruct (st <? 0) eqn:E; [|lia].
      destruct (e - i <? 0) eqn:E1.
      * pose proof (cnt_pos (i - e) (- st)). lia.
      * split; reflexivity.
    + rewrite signum_sgn_pos by lia.
      destruct (st <? 0) eqn:E; [lia|].
      destruct (0 <? e - i) eqn:E1.
      * pose proof (cnt_pos (e - i) st). lia.
      * split; reflexivity.
  - destruct fuel as [|f]; [lia|]. cbn [slice_loop].
    rewrite wrap64_small by lia.
    rewrite progression_S, pick_cons.
    unfold plen in Hm.
    destruct (Z_lt_ge_dec st 0) as [Hs|Hs].
    + rewrite signum_sgn_neg by lia.
      destruct (st <? 0) eqn:E; [|lia].
      destruct (e - i <? 0) eqn:E1.
      2:{ rewrite cnt_nonpos in Hm by lia. lia. }
      destruct (Hneg Hs ltac:(lia)) as [Hi1 He1].
      destruct (valid_index xs i ltac:(lia)) as [x [Hz Ha]].
      rewrite Hz, Ha.
      assert (Bw : wrap64 (i + st) = i + st) by (apply wrap64_small; lia).
      rewrite Bw.
      assert (Hp : Z.of_nat m = plen (i + st) e st).
      { unfold plen. rewrite E.
        replace (i + st - e) with ((i - e) - (- st)) by lia.
        rewrite cnt_step by lia. lia. }
      destruct (IH f (i + st)) as [IH1 IH2]; try lia.
      rewrite IH1. split; [reflexivity|]. cbn [app length]. lia.
    + rewrite signum_sgn_pos by lia.
      destruct (st <? 0) eqn:E; [lia|].
      destruct (0 <? e - i) eqn:E1.
      2:{ rewrite cnt_nonpos in Hm by lia. lia. }
      destruct (Hpos ltac:(lia) ltac:(lia)) as [Hi1 He1].
      destruct (valid_index xs i ltac:(lia)) as [x [Hz Ha]].
      rewrite Hz, Ha.
      assert (Bw : wrap64 (i + st) = i + st) by (apply wrap64_small; lia).
      rewrite Bw.
      assert (Hp : Z.of_nat m = plen (i + st) e st).
      { unfold plen. rewrite E.
        replace (e - (i + st)) with ((e - i) - st) by lia.
        rewrite cnt_step by lia. lia. }
      destruct (IH f (i + st)) as [IH1 IH2]; try lia.
      rewrite IH1. split; [reflexivity|]. cbn [app length]. lia.
Qed.

(* ---- the step = 1 fast path s[start:end] *)
Lemma skipn_nth {A} (xs : list A) k x : nth_error xs k = Some x -> skipn k xs = x :: skipn (S k) xs.
Proof.
  revert k. induction xs as [|y ys IH]; intros [|k] H; cbn in *; try discriminate.
  - injection H as ->. reflexivity.
  - apply IH in H. exact H.
Qed.

Lemma at_index_nth {A} (xs : list A) i x : at_index xs i = Some x -> 0 <= i /\ nth_error xs (Z.to_nat i) = Some x.
Proof.
  unfold at_index. destruct ((0 <=? i) && (i <? Z.of_nat (length xs))) eqn:E; [|discriminate].
  intros H. split; [lia|exact H].
Qed.

Lemma pick_contiguous {A} (xs : list A) (m : nat) : forall s,
  0 <= s -> s + Z.of_nat m <= Z.of_nat (length xs) ->
  pick xs (progression s 1 m) = firstn m (skipn (Z.to_nat s) xs).
Proof.
  induction m as [|m IH]; intros s H0 H1.
  - reflexivity.
  - rewrite progression_S, pick_cons.
    destruct (valid_index xs s ltac:(lia)) as [x [_ Ha]]. rewrite Ha.
    apply at_index_nth in Ha. destruct Ha as [_ Hn].
    rewrite (skipn_nth _ _ _ Hn). cbn [app firstn]. f_equal.
    rewrite IH by lia. f_equal. f_equal. lia.
Qed.

(* ---- what slice_bounds computes, in terms of Python's slice.indices *)
(* the value asIndex gives an integer operand *)
Definition gadj (len z : Z) : Z :=
  if in_int64 z then (if z <? 0 then z + len else z) else if z <? 0 then -1 else len.

Lemma as_index_eq v len r0 :
  0 <= len <= B ->
  as_index v len r0 =
  match int_or_none v with
  | None => None
  | Some None => Some r0
  | Some (Some z) => Some (gadj len z)
  end.
Proof.
  unfold B. intros Hl. destruct v as [|z|]; cbn; try reflexivity.
  unfold gadj. destruct (in_int64 z) eqn:E; [|destruct (z <? 0); reflexivity].
  unfold in_int64, min_int64, max_int64 in E.
  destruct (z <? 0) eqn:E1; [rewrite wrap64_small by lia|]; reflexivity.
Qed.

Definition adj (len : Z) (v : option Z) (dflt : Z) : Z :=
  match v with None => dflt | Some z => gadj len z end.

Definition go_bounds (n : Z) (lo hi : option Z) (st : Z) : Z * Z :=
  if st >? 0 then
    let s := clamp0 (adj n lo 0) n in
    let e := clamp0 (adj n hi n) n in
    (s, if e <? s then s else e)
  else
    let s0 := adj n lo (n - 1) in
    let s0 := if s0 >=? n then n - 1 else s0 in
    let e0 := adj n hi (-1) in
    let e := if e0 <? -1 then -1 else e0 in
    ((if s0 <? e then e else s0), e).

Lemma slice_bounds_eq n lo hi st stv :
  0 <= n <= B ->
  slice_step n st = Some stv ->
  slice_bounds n lo hi st =
  match int_or_none lo, int_or_none hi with
  | Some lo', Some hi' => let '(s, e) := go_bounds n lo' hi' stv in Some (s, e, stv)
  | _, _ => None
  end.
Proof.
  intros Hn Hst. unfold slice_bounds, indices, go_bounds. rewrite Hst.
  rewrite !(as_index_eq lo) by assumption.
  rewrite !(as_index_eq hi) by assumption.
  rewrite (wrap64_small (n - 1)) by (unfold B in *; lia).
  destruct (stv >? 0) eqn:E.
  - destruct (int_or_none lo) as [[zl|]|]; destruct (int_or_none hi) as [[zh|]|]; cbn [adj]; reflexivity.
  - destruct (int_or_none lo) as [[zl|]|]; destruct (int_or_none hi) as [[zh|]|]; cbn [adj]; reflexivity.
Qed.


Ltac split_ifs :=
  repeat (match goal with
         | |- context[if ?a <? ?b then _ else _] => destruct (a <? b) eqn:?
         | |- context[if ?a >? ?b then _ else _] => destruct (a >? b) eqn:?
         | |- context[if ?a >=? ?b then _ else _] => destruct (a >=? b) eqn:?
         | H : context[if ?a <? ?b then _ else _] |- _ => destruct (a <? b) eqn:?
         | H : context[if ?a >? ?b then _ else _] |- _ => destruct (a >? b) eqn:?
         | H : context[if ?a >=? ?b then _ else _] |- _ => destruct (a >=? b) eqn:?
         | |- context[if ?c then _ else _] => destruct c eqn:?
         | H : context[if ?c then _ else _] |- _ => destruct c eqn:?
         end; try lia).

Lemma go_bounds_agree n lo hi st :
  0 <= n <= B -> st <> 0 ->
  let '(s, e) := go_bounds n lo hi st in
  let '(sp, ep, len) := slice_indices n lo hi st in
  plen s e st = len /\ (len = 0 \/ s = sp) /\
  ((st < 0 /\ s = e) \/
   (- B <= s <= B /\ - B <= e <= B /\
    (0 < st -> 0 <= s <= e /\ e <= n) /\
    (st < 0 -> e <= s /\ (e < s -> s <= n - 1 /\ -1 <= e)))).
Proof.
  intros Hn Hst.
  pose proof (slice_indices_len n lo hi st) as HL.
  destruct (slice_indices n lo hi st) as [[sp ep] len] eqn:ES.
  unfold slice_indices in ES. injection ES as Es Ee El.
  destruct (go_bounds n lo hi st) as [s e] eqn:EG.
  unfold go_bounds in EG.
  unfold B in *.
  assert (Hc : forall k d, k <= 0 -> cnt k d = 0) by (intros; apply cnt_nonpos; assumption).
  destruct (st >? 0) eqn:E0.
  - injection EG as Gs Ge.
    assert (Est : (st <? 0) = false) by lia. rewrite Est in *.
    unfold plen in *. rewrite Est in *.
    unfold clamp0, adj, gadj, adjust_bound, in_int64, min_int64, max_int64 in *.
    destruct lo as [zl|], hi as [zh|];
      subst s e sp ep; rewrite HL; clear HL El;
      split_ifs; (split; [|split; [|right]]); repeat split; try lia;
      try (first [ f_equal; lia | rewrite !Hc by lia; reflexivity | right; lia | left; apply Hc; lia ]).
  - injection EG as Gs Ge.
    assert (Est : (st <? 0) = true) by lia. rewrite Est in *.
    unfold plen in *. rewrite Est in *.
    unfold clamp0, adj, gadj, adjust_bound, in_int64, min_int64, max_int64 in *.
    destruct lo as [zl|], hi as [zh|];
      subst s e sp ep; rewrite HL; clear HL El;
      split_ifs; (split; [|split]);
      try (first [ f_equal; lia | rewrite !Hc by lia; reflexivity | right; lia | left; apply Hc; lia ]);
      try (first [ left; split; lia | right; repeat split; lia ]).
Qed.

