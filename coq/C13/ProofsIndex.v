(* C13 -- proofs about the index / slice core (Index.v) against Spec.v part 1. *)
From Coq Require Import ZArith NArith List Bool Lia.
From Coq Require Import ZifyBool ZifyNat.
From SV Require Import Common.GoInt C13.Base C13.Index C13.Spec.
Import ListNotations.
Open Scope Z_scope.

Definition small_arg (a : arg) : bool := match a with AInt z => in_int32 z | _ => true end.

Lemma in_int32_bounds z : in_int32 z = true -> -2147483648 <= z <= 2147483647.
Proof. unfold in_int32, min_int32, max_int32. lia. Qed.

Lemma wrap64_small z : -9223372036854775808 <= z <= 9223372036854775807 -> wrap64 z = z.
Proof. intros. apply wrap64_id. unfold in_int64, min_int64, max_int64. lia. Qed.

(* ---- progression / pick *)
Lemma progression_S s st m : progression s st (S m) = s :: progression (s + st) st m.
Proof.
  unfold progression. cbn [seq map]. f_equal; [lia|].
  rewrite <- seq_shift, map_map. apply map_ext. intros k. lia.
Qed.

Lemma pick_cons {A} (xs : list A) i l :
  pick xs (i :: l) = (match at_index xs i with Some x => [x] | None => [] end) ++ pick xs l.
Proof. reflexivity. Qed.

Lemma valid_index {A} (xs : list A) i :
  0 <= i < Z.of_nat (length xs) -> exists x, zth xs i = Some x /\ at_index xs i = Some x.
Proof.
  intros H. unfold zth, at_index.
  destruct (nth_error xs (Z.to_nat i)) eqn:E.
  - exists a. split.
    + destruct (i <? 0) eqn:E1; [lia|reflexivity].
    + destruct ((0 <=? i) && (i <? Z.of_nat (length xs))) eqn:E2; [reflexivity|lia].
  - apply nth_error_None in E. lia.
Qed.

(* ---- number of terms of an arithmetic progression *)
Definition cnt (k d : Z) : Z := if 0 <? k then (k - 1) / d + 1 else 0.
Definition plen (s e st : Z) : Z := if st <? 0 then cnt (s - e) (- st) else cnt (e - s) st.

Lemma cnt_step k d : 0 < d -> 0 < k -> cnt (k - d) d = cnt k d - 1.
Proof.
  intros Hd Hk. unfold cnt.
  destruct (0 <? k) eqn:E1; [|lia].
  destruct (0 <? k - d) eqn:E2.
  - replace (k - d - 1) with ((k - 1) + (-1) * d) by lia.
    rewrite Z.div_add by lia. lia.
  - rewrite Z.div_small by lia. lia.
Qed.

Lemma cnt_pos k d : 0 < d -> 0 < k -> 1 <= cnt k d <= k.
Proof.
  intros Hd Hk. unfold cnt. destruct (0 <? k) eqn:E; [|lia].
  assert (0 <= (k - 1) / d) by (apply Z.div_pos; lia).
  assert ((k - 1) / d <= k - 1) by (apply Z.div_le_upper_bound; nia).
  lia.
Qed.

Lemma cnt_nonpos k d : k <= 0 -> cnt k d = 0.
Proof. intros. unfold cnt. destruct (0 <? k) eqn:E; lia. Qed.

Lemma slice_indices_len n lo hi st :
  let '(s, e, len) := slice_indices n lo hi st in len = plen s e st.
Proof.
  unfold slice_indices, plen, cnt. cbv zeta.
  destruct (st <? 0) eqn:E.
  - match goal with |- context[?a <? ?b] => destruct (a <? b) eqn:E1 end;
    match goal with |- context[0 <? ?b] => destruct (0 <? b) eqn:E2 end; try lia.
    all: repeat match goal with |- context[?a <? ?b] => destruct (a <? b) eqn:? end; try lia.
    all: f_equal; try lia.
  - match goal with |- context[?a <? ?b] => destruct (a <? b) eqn:E1 end;
    match goal with |- context[0 <? ?b] => destruct (0 <? b) eqn:E2 end; try lia.
    all: repeat match goal with |- context[?a <? ?b] => destruct (a <? b) eqn:? end; try lia.
    all: f_equal; try lia.
Qed.
