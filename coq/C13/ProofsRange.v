(* C13 -- range slices and range indexing (Index.v: range_len, range_slice,
   range_index) against the specification. *)
From Coq Require Import ZArith NArith List Bool Lia.
From Coq Require Import ZifyBool ZifyNat.
From SV Require Import Common.GoInt C13.Base C13.Index C13.Spec C13.ProofsIndex C13.ProofsSlice.
Import ListNotations.
Open Scope Z_scope.

Definition R : Z := 2305843009213693952. (* 2^61 *)

Lemma wrapu64_small z : 0 <= z < 18446744073709551616 -> wrapu64 z = z.
Proof. intros H. unfold wrapu64. apply Z.mod_small. exact H. Qed.

(* rangeLen is Python's len(range(a, b, c)) as long as b - a does not overflow *)
Lemma range_len_plen a b c :
  c <> 0 -> - R <= a <= R -> - R <= b <= R -> - 2 * R <= c <= 2 * R ->
  range_len a b c = Ok (plen a b c).
Proof.
  unfold R. intros Hc Ha Hb Hcc. unfold range_len, plen, cnt. rewrite !Z.gtb_ltb.
  destruct (0 <? c) eqn:E1.
  - destruct (c <? 0) eqn:E2; [lia|].
    destruct (a <? b) eqn:E3.
    + destruct (0 <? b - a) eqn:E4; [|lia].
      rewrite (wrap64_small (b - 1)) by lia. assert (0 <= b - 1 - a <= 9223372036854775807) by lia. rewrite (wrap64_small (b - 1 - a)) by lia.
      rewrite (wrapu64_small (b - 1 - a)) by lia. rewrite (wrapu64_small c) by lia.
      assert (0 <= (b - 1 - a) / c) by (apply Z.div_pos; lia).
      assert ((b - 1 - a) / c <= b - 1 - a) by (apply Z.div_le_upper_bound; nia).
      rewrite wrapu64_small by lia. rewrite wrap64_small by lia.
      replace (b - 1 - a) with (b - a - 1) by lia. reflexivity.
    + destruct (0 <? b - a) eqn:E4; [lia|reflexivity].
  - destruct (c <? 0) eqn:E2; [|lia].
    destruct (b <? a) eqn:E3.
    + destruct (0 <? a - b) eqn:E4; [|lia].
      rewrite (wrap64_small (a - 1)) by lia. assert (0 <= a - 1 - b <= 9223372036854775807) by lia. rewrite (wrap64_small (a - 1 - b)) by lia.
      rewrite (wrap64_small (- c)) by lia.
      rewrite (wrapu64_small (a - 1 - b)) by lia. rewrite (wrapu64_small (- c)) by lia.
      assert (0 <= (a - 1 - b) / (- c)) by (apply Z.div_pos; lia).
      assert ((a - 1 - b) / (- c) <= a - 1 - b) by (apply Z.div_le_upper_bound; nia).
      rewrite wrapu64_small by lia. rewrite wrap64_small by lia.
      replace (a - 1 - b) with (a - b - 1) by lia. reflexivity.
    + destruct (0 <? a - b) eqn:E4; [lia|reflexivity].
Qed.

(* scaling a progression by c does not change its number of terms *)
Lemma cnt_scale k d c : 0 < c -> 0 < d -> cnt (c * k) (c * d) = cnt k d.
Proof.
  intros Hc Hd. unfold cnt.
  destruct (0 <? k) eqn:E1.
  - destruct (0 <? c * k) eqn:E2; [|nia].
    f_equal. symmetry.
    (* (k-1) = q d + r, 0 <= r < d  ==>  c k - 1 = q (c d) + (c r + c - 1) *)
    pose proof (Z.div_mod (k - 1) d ltac:(lia)) as Hdm.
    pose proof (Z.mod_pos_bound (k - 1) d Hd) as Hr.
    apply (Z.div_unique (c * k - 1) (c * d) ((k - 1) / d) (c * ((k - 1) mod d) + c - 1)); nia.
  - destruct (0 <? c * k) eqn:E2; [nia|reflexivity].
Qed.

Lemma plen_scale a c s e st :
  c <> 0 -> st <> 0 -> plen (a + c * s) (a + c * e) (c * st) = plen s e st.
Proof.
  intros Hc Hst. unfold plen.
  destruct (Z_lt_ge_dec c 0) as [Hn|Hp]; destruct (Z_lt_ge_dec st 0) as [Hsn|Hsp].
  - (* c < 0, st < 0: c*st > 0 *)
    destruct (c * st <? 0) eqn:E1; [nia|]. destruct (st <? 0) eqn:E2; [|lia].
    replace (a + c * e - (a + c * s)) with ((- c) * (s - e)) by lia.
    replace (c * st) with ((- c) * (- st)) by lia. apply cnt_scale; lia.
  - destruct (c * st <? 0) eqn:E1; [|nia]. destruct (st <? 0) eqn:E2; [lia|].
    replace (a + c * s - (a + c * e)) with ((- c) * (e - s)) by lia.
    replace (- (c * st)) with ((- c) * st) by lia. apply cnt_scale; lia.
  - destruct (c * st <? 0) eqn:E1; [|nia]. destruct (st <? 0) eqn:E2; [|lia].
    replace (a + c * s - (a + c * e)) with (c * (s - e)) by lia.
    replace (- (c * st)) with (c * (- st)) by lia. apply cnt_scale; lia.
  - destruct (c * st <? 0) eqn:E1; [nia|]. destruct (st <? 0) eqn:E2; [lia|].
    replace (a + c * e - (a + c * s)) with (c * (e - s)) by lia. apply cnt_scale; lia.
Qed.

(* ---- well-formed range values *)
Definition rng_ok (r : rng) : Prop :=
  in_int32 (r_start r) = true /\ in_int32 (r_stop r) = true /\ in_int32 (r_step r) = true /\
  r_step r <> 0 /\ r_len r = plen (r_start r) (r_stop r) (r_step r).

Lemma cnt_mul k d : 0 < d -> 0 < k -> (cnt k d - 1) * d <= k - 1.
Proof.
  intros Hd Hk. unfold cnt. destruct (0 <? k) eqn:E; [|lia].
  pose proof (Z.mul_div_le (k - 1) d Hd). nia.
Qed.

Lemma cnt_nonneg k d : 0 < d -> 0 <= cnt k d.
Proof.
  intros Hd. unfold cnt. destruct (0 <? k) eqn:E; [|lia].
  assert (0 <= (k - 1) / d) by (apply Z.div_pos; lia). lia.
Qed.

Lemma rng_len_bounds r : rng_ok r ->
  0 <= r_len r <= 4294967296 /\ (r_len r - 1) * Z.abs (r_step r) <= 4294967296.
Proof.
  intros (Ha & Hb & Hc & Hnz & Hl). apply in_int32_bounds in Ha, Hb, Hc.
  rewrite Hl. unfold plen.
  destruct (r_step r <? 0) eqn:E.
  - pose proof (cnt_nonneg (r_start r - r_stop r) (- r_step r) ltac:(lia)).
    destruct (Z_le_gt_dec (r_start r - r_stop r) 0) as [Hk|Hk].
    + rewrite cnt_nonpos in * by lia. lia.
    + pose proof (cnt_pos (r_start r - r_stop r) (- r_step r) ltac:(lia) ltac:(lia)).
      pose proof (cnt_mul (r_start r - r_stop r) (- r_step r) ltac:(lia) ltac:(lia)). lia.
  - pose proof (cnt_nonneg (r_stop r - r_start r) (r_step r) ltac:(lia)).
    destruct (Z_le_gt_dec (r_stop r - r_start r) 0) as [Hk|Hk].
    + rewrite cnt_nonpos in * by lia. lia.
    + pose proof (cnt_pos (r_stop r - r_start r) (r_step r) ltac:(lia) ltac:(lia)).
      pose proof (cnt_mul (r_stop r - r_start r) (r_step r) ltac:(lia) ltac:(lia)). lia.
Qed.

Lemma range_elems_length r : 0 <= r_len r -> Z.of_nat (length (range_elems r)) = r_len r.
Proof. intros H. unfold range_elems. rewrite map_length, seq_length. lia. Qed.

(* the elements of a range, exactly *)
Lemma range_elems_progression r :
  rng_ok r -> range_elems r = progression (r_start r) (r_step r) (Z.to_nat (r_len r)).
Proof.
  intros Hok. destruct (rng_len_bounds r Hok) as [Hn Hm].
  destruct Hok as (Ha & Hb & Hc & Hnz & Hl). apply in_int32_bounds in Ha, Hb, Hc.
  unfold range_elems, progression. apply map_ext_in. intros k Hk. apply in_seq in Hk.
  unfold range_index.
  assert (Hb1 : Z.abs (Z.of_nat k * r_step r) <= 4294967296) by nia.
  rewrite (wrap64_small (Z.of_nat k * r_step r)) by lia.
  rewrite wrap64_small by lia. reflexivity.
Qed.

Lemma range_elems_spec_lemma : forall r,
  rng_ok r -> range_elems r = range_spec (r_start r) (r_stop r) (r_step r).
Proof.
  intros r Hok. rewrite range_elems_progression by exact Hok.
  destruct Hok as (_ & _ & _ & _ & Hl). rewrite Hl. unfold range_spec, plen, cnt.
  f_equal. f_equal.
  destruct (r_step r <? 0).
  - destruct (0 <? r_start r - r_stop r) eqn:E1; destruct (r_stop r <? r_start r) eqn:E2; try lia; reflexivity.
  - destruct (0 <? r_stop r - r_start r) eqn:E1; destruct (r_start r <? r_stop r) eqn:E2; try lia; reflexivity.
Qed.

Lemma at_index_progression a c n i :
  0 <= i < Z.of_nat n -> at_index (progression a c n) i = Some (a + i * c).
Proof.
  intros H. unfold at_index, progression. rewrite map_length, seq_length.
  destruct ((0 <=? i) && (i <? Z.of_nat n)) eqn:E; [|lia].
  rewrite nth_error_map, nth_error_nth' with (d := 0%nat) by (rewrite seq_length; lia).
  rewrite seq_nth by lia. cbn [option_map]. replace (Z.of_nat (0 + Z.to_nat i)) with i by lia. reflexivity.
Qed.

Lemma pick_all_valid {A} (xs : list A) l :
  length (pick xs l) = length l -> Forall (fun i => 0 <= i < Z.of_nat (length xs)) l.
Proof.
  assert (Hle : forall l', (length (pick xs l') <= length l')%nat).
  { induction l' as [|i r IH]; cbn [pick flat_map length]; [lia|].
    fold (pick xs r). rewrite app_length. destruct (at_index xs i); cbn [length]; lia. }
  induction l as [|i r IH]; intros H; [constructor|].
  rewrite pick_cons, app_length in H. cbn [length] in H.
  pose proof (Hle r) as Hr.
  destruct (at_index xs i) eqn:E; cbn [length] in H; [|lia].
  constructor; [|apply IH; lia].
  unfold at_index in E. destruct ((0 <=? i) && (i <? Z.of_nat (length xs))) eqn:E2; [lia|discriminate].
Qed.

Lemma pick_progression a c n l :
  Forall (fun i => 0 <= i < Z.of_nat n) l ->
  pick (progression a c n) l = map (fun i => a + i * c) l.
Proof.
  induction 1 as [|i r Hi Hr IH]; [reflexivity|].
  rewrite pick_cons, at_index_progression by exact Hi. cbn [app map]. f_equal. exact IH.
Qed.

Lemma range_elems_nowrap r :
  (forall k, 0 <= k < r_len r ->
     -9223372036854775808 <= k * r_step r <= 9223372036854775807 /\
     -9223372036854775808 <= r_start r + k * r_step r <= 9223372036854775807) ->
  range_elems r = progression (r_start r) (r_step r) (Z.to_nat (r_len r)).
Proof.
  intros H. unfold range_elems, progression. apply map_ext_in. intros k Hk. apply in_seq in Hk.
  unfold range_index. destruct (H (Z.of_nat k) ltac:(lia)) as [H1 H2].
  rewrite (wrap64_small (Z.of_nat k * r_step r)) by lia. rewrite wrap64_small by lia. reflexivity.
Qed.

Lemma progression_valid_idx s st m n k :
  Forall (fun i => 0 <= i < n) (progression s st m) -> (k < m)%nat -> 0 <= s + Z.of_nat k * st < n.
Proof.
  intros HF Hk. rewrite Forall_forall in HF. apply HF.
  unfold progression. apply in_map_iff. exists k. split; [reflexivity|]. apply in_seq. lia.
Qed.

Lemma range_slice_ok r s e stv :
  rng_ok r ->
  let n := r_len r in
  stv <> 0 -> Z.abs stv <= Z.max 2147483648 n ->
  (s = e \/ ((0 < stv -> 0 <= s <= e /\ e <= n) /\ (stv < 0 -> e <= s /\ s <= n - 1 /\ -1 <= e))) ->
  exists r', range_slice r s e stv = Ok r' /\
             range_elems r' = pick (range_elems r) (progression s stv (Z.to_nat (plen s e stv))).
Proof.
  intros Hok n Hst Bst Hcase.
  destruct (rng_len_bounds r Hok) as [Hn Hm]. fold n in Hn, Hm.
  pose proof Hok as (Ha & Hb & Hc & Hnz & Hl). apply in_int32_bounds in Ha, Hb, Hc.
  set (a := r_start r) in *. set (c := r_step r) in *.
  assert (Hcst : Z.abs (c * stv) <= 4611686018427387904).
  { destruct (Z_le_gt_dec (Z.abs stv) 2147483648) as [H1|H1]; [nia|].
    assert (Z.abs stv <= n) by lia. nia. }
  unfold range_slice, mk_range. fold a c.
  rewrite (wrap64_small (c * stv)) by lia.
  assert (Hcs : c * stv <> 0) by nia.
  destruct (Z.eq_dec s e) as [->|Hne].
  - (* start = stop: empty, whatever the (possibly wrapped) bound is *)
    set (x := wrap64 (a + wrap64 (c * e))).
    assert (Hlen0 : range_len x x (c * stv) = Ok 0).
    { unfold range_len. rewrite !Z.gtb_ltb.
      destruct (0 <? c * stv) eqn:E1.
      - destruct (x <? x) eqn:E2; [lia|reflexivity].
      - destruct (c * stv <? 0) eqn:E2; [|lia]. destruct (x <? x) eqn:E3; [lia|reflexivity]. }
    rewrite Hlen0. eexists. split; [reflexivity|].
    unfold range_elems. cbn [r_len]. change (Z.to_nat 0) with 0%nat. cbn [seq map].
    unfold plen. replace (e - e) with 0 by lia. rewrite !cnt_nonpos by lia.
    destruct (stv <? 0); reflexivity.
  - destruct Hcase as [Hse|[Hp Hq]]; [contradiction|].
    assert (Bse : -1 <= s <= n /\ -1 <= e <= n).
    { destruct (Z_lt_ge_dec stv 0) as [H1|H1]; [destruct (Hq H1)|destruct (Hp ltac:(lia))]; lia. }
    assert (Hcs1 : Z.abs (c * s) <= 8589934592) by nia.
    assert (Hce1 : Z.abs (c * e) <= 8589934592) by nia.
    rewrite (wrap64_small (c * s)), (wrap64_small (c * e)) by lia.
    rewrite (wrap64_small (a + c * s)), (wrap64_small (a + c * e)) by lia.
    rewrite range_len_plen by (unfold R; lia).
    rewrite (plen_scale a c s e stv Hnz Hst).
    eexists. split; [reflexivity|].
    (* all indices of the progression are valid indices of the range *)
    set (m := Z.to_nat (plen s e stv)).
    assert (Hlenxs : Z.of_nat (length (range_elems r)) = n) by (apply range_elems_length; exact (proj1 Hn)).
    assert (Hvalid : Forall (fun i => 0 <= i < n) (progression s stv m)).
    { rewrite <- Hlenxs. apply pick_all_valid.
      destruct (slice_loop_ok (range_elems r) e stv Hst ltac:(unfold B; lia) ltac:(unfold B; lia) m (S m) s) as [_ H2];
        try (unfold B; lia); try rewrite Hlenxs.
      - unfold m. assert (0 <= plen s e stv).
        { unfold plen. destruct (stv <? 0) eqn:E; apply cnt_nonneg; lia. } lia.
      - unfold progression. rewrite map_length, seq_length in *. exact H2. }
    assert (Hm0 : 0 <= plen s e stv).
    { unfold plen. destruct (stv <? 0) eqn:E; apply cnt_nonneg; lia. }
    rewrite range_elems_nowrap; cbn [r_start r_step r_len].
    + rewrite (range_elems_progression r Hok). fold a c n.
      rewrite (pick_progression a c (Z.to_nat n) (progression s stv m)).
      * unfold progression. rewrite map_map. fold m. apply map_ext. intros k. lia.
      * eapply Forall_impl; [|exact Hvalid]. cbn beta. intros i Hi. lia.
    + intros k Hk.
      pose proof (progression_valid_idx s stv m n (Z.to_nat k) Hvalid ltac:(unfold m; lia)) as Hidx.
      rewrite Z2Nat.id in Hidx by lia.
      assert (Z.abs (c * (s + k * stv)) <= 8589934592) by nia.
      assert (Heq : k * (c * stv) = c * (s + k * stv) - c * s) by ring.
      rewrite Heq. lia.
Qed.

Lemma eff_step_abs n z : 0 <= n -> Z.abs (eff_step n z) <= Z.max 2147483648 n.
Proof.
  intros Hn. unfold eff_step.
  destruct (in_int64 z && (in_int32 z || ((- n <? z) && (z <? n)))) eqn:E.
  - unfold in_int64, in_int32, min_int64, max_int64, min_int32, max_int32 in E. lia.
  - destruct (z <? 0); destruct (n <? 1) eqn:E1; lia.
Qed.

Lemma range_slice_correct_lemma : forall r lo hi st,
  rng_ok r ->
  match range_slice_impl r lo hi st with
  | Ok r' => slice_spec (range_elems r) lo hi st = Some (range_elems r')
  | Err => slice_spec (range_elems r) lo hi st = None
  | _ => False
  end.
Proof.
  intros r lo hi st Hok.
  destruct (rng_len_bounds r Hok) as [Hn Hm].
  set (n := r_len r) in *.
  assert (Hlen : Z.of_nat (length (range_elems r)) = n) by (apply range_elems_length; exact (proj1 Hn)).
  assert (HnB : 0 <= n <= B) by (unfold B; lia).
  pose proof (slice_correct_lemma Z (range_elems r) lo hi st ltac:(rewrite Hlen; change (2^61) with B; lia)) as HC.
  unfold slice_impl in HC. rewrite Hlen in HC.
  unfold range_slice_impl. fold n.
  pose proof (slice_step_eq n st HnB) as HS.
  destruct (slice_bounds n lo hi st) as [[[s e] stv]|] eqn:Eb.
  2:{ destruct (slice_spec (range_elems r) lo hi st); [discriminate HC|reflexivity]. }
  (* facts about the computed bounds *)
  assert (Hstep : slice_step n st = Some stv).
  { unfold slice_bounds in Eb. destruct (slice_step n st) as [v|]; [|discriminate Eb].
    destruct (v >? 0).
    - destruct (indices lo hi n) as [[a b]|]; [injection Eb as _ _ ->; reflexivity|discriminate Eb].
    - destruct (as_index lo n (wrap64 (n - 1))); [|discriminate Eb].
      destruct (as_index hi n (-1)); [injection Eb as _ _ ->; reflexivity|discriminate Eb]. }
  assert (Hstv : stv <> 0 /\ Z.abs stv <= Z.max 2147483648 n).
  { rewrite HS in Hstep. destruct (int_or_none st) as [[z|]|]; [|injection Hstep as <-; lia|discriminate Hstep].
    destruct (z =? 0) eqn:E0; [discriminate Hstep|]. injection Hstep as <-.
    split; [apply (eff_step_facts n z HnB); lia|apply eff_step_abs; lia]. }
  destruct Hstv as [Hnz Habs].
  rewrite (slice_bounds_eq n lo hi st stv HnB Hstep) in Eb.
  destruct (int_or_none lo) as [lo'|]; [|discriminate Eb].
  destruct (int_or_none hi) as [hi'|]; [|discriminate Eb].
  pose proof (go_bounds_agree n lo' hi' stv HnB Hnz) as HA.
  destruct (go_bounds n lo' hi' stv) as [s0 e0]. injection Eb as -> ->.
  destruct (slice_indices n lo' hi' stv) as [[sp ep] len].
  destruct HA as (Hplen & _ & Hcases).
  assert (Hcase : s = e \/ ((0 < stv -> 0 <= s <= e /\ e <= n) /\ (stv < 0 -> e <= s /\ s <= n - 1 /\ -1 <= e))).
  { destruct Hcases as [[_ ->]|(_ & _ & Hp & Hq)]; [left; reflexivity|].
    destruct (Z.eq_dec s e) as [->|Hne]; [left; reflexivity|right]. split; [exact Hp|].
    intros H. destruct (Hq H) as [H1 H2]. destruct (H2 ltac:(lia)). lia. }
  destruct (range_slice_ok r s e stv Hok Hnz Habs Hcase) as (r' & Hr' & Hel).
  rewrite Hr'. rewrite Hel.
  (* the sequence loop on the element list returns the same picked progression *)
  assert (Hseq : seq_slice (range_elems r) s e stv =
                 Ok (pick (range_elems r) (progression s stv (Z.to_nat (plen s e stv))))).
  { destruct Hcases as [[Hneg ->]|(Bs & Be & Hp & Hq)].
    - apply seq_slice_empty. exact Hneg.
    - apply seq_slice_ok; rewrite ?Hlen; try assumption.
      unfold B in *. lia. }
  rewrite Hseq in HC.
  destruct (slice_spec (range_elems r) lo hi st); [injection HC as <-; reflexivity|discriminate HC].
Qed.

(* r[i] *)
Lemma range_index_correct_lemma : forall r y,
  rng_ok r -> r_len r <= 2^31 ->
  range_get_index r y = of_spec (index_spec (range_elems r) y).
Proof.
  intros r y Hok H31. change (2^31) with 2147483648 in H31. destruct (rng_len_bounds r Hok) as [Hn Hm].
  pose proof (index_correct_lemma Z (range_elems r) y) as HI.
  rewrite range_elems_length in HI by lia. specialize (HI ltac:(change (2^31) with 2147483648; lia)).
  rewrite <- HI. unfold get_index, range_get_index. rewrite range_elems_length by lia.
  destruct (norm_index (r_len r) y) as [i|] eqn:En; [|reflexivity].
  assert (Hi : 0 <= i < r_len r).
  { unfold norm_index in En. destruct (as_int32 y) as [v|]; [|discriminate En].
    destruct ((_ <? 0) || (_ >=? r_len r)) eqn:E; [discriminate En|]. injection En as <-. lia. }
  destruct (valid_index (range_elems r) i ltac:(rewrite range_elems_length; lia)) as [x [Hz Ha]].
  rewrite Hz. f_equal.
  rewrite range_elems_progression in Ha by exact Hok.
  rewrite at_index_progression in Ha by lia. injection Ha as <-.
  pose proof Hok as (Ha' & Hb' & Hc' & _). apply in_int32_bounds in Ha', Hb', Hc'.
  unfold range_index.
  assert (Z.abs (i * r_step r) <= 4294967296 + 2147483648) by nia.
  rewrite (wrap64_small (i * r_step r)) by lia. rewrite wrap64_small by lia. reflexivity.
Qed.
