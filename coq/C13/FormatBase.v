(* C13 -- string.format: the types shared by the model of string_format
   (Format.v) and its declarative specification (FormatSpec.v).  Nothing with
   computational content beyond equality tests and character constants. *)
From Coq Require Import ZArith NArith List Bool.
From SV Require Import C13.Base.
Import ListNotations.

Notation fbytes := (list N).

(* Why a call of S.format fails.  One constructor per message group of
   string_format in starlark/library.go; the class, never the text, is what
   the theorems speak about. *)
Inductive ferr :=
| ESingleClose      (* a '}' that is not part of "}}" outside a replacement field *)
| EUnmatchedOpen    (* a '{' that is not part of "{{" and has no '}' after it *)
| EManualToAuto     (* "{}" after a numbered field *)
| EAutoToManual     (* a numbered field after "{}" *)
| EIndexRange       (* positional index >= len(args) *)
| EAttrSyntax       (* keyword not supplied and the name contains '.' *)
| EElemSyntax       (* keyword not supplied and the name contains '[' *)
| ENested           (* keyword not supplied and the name contains '{' *)
| EKeyword          (* keyword not supplied *)
| ESpecUnsupported  (* a non-empty format specifier *)
| EConversion.      (* a conversion other than s and r *)

(* Result of S.format( *args, **kwargs).  FPanic (a Go run-time panic: index
   out of range) and FOutOfFuel (the explicit fuel of a modelled loop ran out)
   exist only so that the model can be total without hiding anything; the
   specification never produces them and the theorems show the model does
   not either. *)
Inductive fres :=
| FOk (out : fbytes)
| FErr (e : ferr)
| FPanic
| FOutOfFuel.

Definition ferr_eqb (a b : ferr) : bool :=
  match a, b with
  | ESingleClose, ESingleClose | EUnmatchedOpen, EUnmatchedOpen
  | EManualToAuto, EManualToAuto | EAutoToManual, EAutoToManual
  | EIndexRange, EIndexRange | EAttrSyntax, EAttrSyntax | EElemSyntax, EElemSyntax
  | ENested, ENested | EKeyword, EKeyword | ESpecUnsupported, ESpecUnsupported
  | EConversion, EConversion => true
  | _, _ => false
  end.

Definition fres_eqb (a b : fres) : bool :=
  match a, b with
  | FOk x, FOk y => bytes_eqb x y
  | FErr x, FErr y => ferr_eqb x y
  | FPanic, FPanic => true
  | FOutOfFuel, FOutOfFuel => true
  | _, _ => false
  end.

(* What the harness can observe of a call: the result text, or "the call
   returned an error" (the message is never compared), or a panic. *)
Definition fres_observed (model : fres) (obs : outcome fbytes) : bool :=
  match model, obs with
  | FOk x, Ok y => bytes_eqb x y
  | FErr _, Err => true
  | FPanic, Panic => true
  | _, _ => false
  end.

(* ASCII codes used by the format mini-language *)
Definition ch_open   : N := 123%N.  (* { *)
Definition ch_close  : N := 125%N.  (* } *)
Definition ch_bang   : N := 33%N.   (* ! *)
Definition ch_colon  : N := 58%N.   (* : *)
Definition ch_dot    : N := 46%N.   (* . *)
Definition ch_lbrack : N := 91%N.   (* [ *)
Definition ch_s      : N := 115%N.  (* s *)
Definition ch_r      : N := 114%N.  (* r *)

(* ------------------------------------------------------------------------
   format % args  (interpolate in starlark/eval.go) *)
Inductive ierr :=
| IIncompleteKey   (* "%(" with no ")" after it *)
| INotMapping      (* %(key)c and the right operand is not a mapping *)
| IKeyNotFound     (* %(key)c and the mapping has no such key *)
| INotEnough       (* a positional conversion with no operand left *)
| IIncomplete      (* the template ends where the conversion letter should be *)
| IBadOperand      (* the conversion does not accept this value (%d of a string, %c of a list...) *)
| IUnknownConv     (* a conversion letter other than s r d i o x X e f g E F G c % *)
| ITooMany.        (* positional operands left over *)

Inductive ires :=
| IOk (out : fbytes)
| IErr (e : ierr)
| IPanic
| IOutOfFuel.

Definition ires_observed (model : ires) (obs : outcome fbytes) : bool :=
  match model, obs with
  | IOk x, Ok y => bytes_eqb x y
  | IErr _, Err => true
  | IPanic, Panic => true
  | _, _ => false
  end.

Definition ch_pct    : N := 37%N.   (* % *)
Definition ch_lparen : N := 40%N.   (* ( *)
Definition ch_rparen : N := 41%N.   (* ) *)
