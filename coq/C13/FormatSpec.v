(* C13 -- declarative specification of S.format( *args, **kwargs), written from
   doc/spec.md (section string.format) and independent of Format.v (it
   imports only the shared result type).  Two phases:

   PARSE.   The format string is cut at its braces into pieces (maximal runs
            of other text, '{', '}'); the pieces are grouped into segments:
              "{{" / "}}"               a literal brace,
              '{' text-up-to-next-'}'   a replacement field,
              a lone '}'                a syntax error at that point (Stray),
              a '{' with no '}' after   a syntax error at that point (Unclosed).
            The text of a replacement field is
              name [ '!' conversion ] [ ':' specifier ]
            and the name is classified at parse time: empty = the next
            automatic index, all decimal digits = that positional index (a
            natural number of any size), anything else = a keyword.

   EVALUATE. The segments are evaluated left to right against (args, kwargs)
            with the numbering discipline of the text ("the explicit and
            implicit forms may not be mixed"); the first offending segment
            determines the failure.  Within a field: the argument is looked
            up, then the specifier must be empty, then the conversion must be
            s or r.

   Nothing here uses integer offsets, slicing, machine arithmetic or fuel. *)
From Coq Require Import ZArith NArith List Bool.
From SV Require Import C13.Base C13.FormatBase.
Import ListNotations.

(* --------------------------------------------------------------- parse *)
Inductive piece := PText (s : fbytes) | POpen | PClose.

(* cut at every brace; text runs are maximal *)
Fixpoint split_braces (s : fbytes) : list piece :=
  match s with
  | [] => []
  | c :: r =>
      if N.eqb c ch_open then POpen :: split_braces r
      else if N.eqb c ch_close then PClose :: split_braces r
      else match split_braces r with
           | PText t :: ps => PText (c :: t) :: ps
           | ps => PText [c] :: ps
           end
  end.

Definition render (p : piece) : fbytes :=
  match p with PText s => s | POpen => [ch_open] | PClose => [ch_close] end.

Inductive selector :=
| Auto                  (* {}      the next positional argument *)
| Num (n : N)           (* {12}    the positional argument with that index *)
| Key (name : fbytes).  (* {name}  the keyword argument of that name *)

Inductive seg :=
| Lit (s : fbytes)
| Field (sel : selector) (conv spec : fbytes)
| Stray            (* a single '}' *)
| Unclosed.        (* an unmatched '{' *)

(* s = a ++ c :: b with no c in a *)
Fixpoint cut_at (c : N) (s : fbytes) : option (fbytes * fbytes) :=
  match s with
  | [] => None
  | d :: r =>
      if N.eqb d c then Some ([], r)
      else match cut_at c r with
           | Some (a, b) => Some (d :: a, b)
           | None => None
           end
  end.

Definition is_dec_digit (c : N) : bool := (48 <=? c)%N && (c <=? 57)%N.
Definition number_of (s : fbytes) : N := fold_left (fun a d => a * 10 + (d - 48))%N s 0%N.

Definition selector_of (name : fbytes) : selector :=
  match name with
  | [] => Auto
  | _ :: _ => if forallb is_dec_digit name then Num (number_of name) else Key name
  end.

(* name [ '!' conversion ] [ ':' specifier ]; the conversion defaults to s *)
Definition field_of (text : fbytes) : seg :=
  match cut_at ch_bang text with
  | Some (name, rest) =>
      match cut_at ch_colon rest with
      | Some (conv, spec) => Field (selector_of name) conv spec
      | None => Field (selector_of name) rest []
      end
  | None =>
      match cut_at ch_colon text with
      | Some (name, spec) => Field (selector_of name) [ch_s] spec
      | None => Field (selector_of text) [ch_s] []
      end
  end.

(* pieces -> segments; in_field collects the text of a replacement field *)
Fixpoint segments (ps : list piece) : list seg :=
  match ps with
  | [] => []
  | PText s :: r => Lit s :: segments r
  | PClose :: r =>
      match r with
      | PClose :: r' => Lit [ch_close] :: segments r'
      | _ => [Stray]
      end
  | POpen :: r =>
      match r with
      | POpen :: r' => Lit [ch_open] :: segments r'
      | _ => in_field r []
      end
  end
with in_field (ps : list piece) (acc : fbytes) : list seg :=
  match ps with
  | [] => [Unclosed]
  | PClose :: r => field_of acc :: segments r
  | p :: r => in_field r (acc ++ render p)
  end.

Definition parse (template : fbytes) : list seg := segments (split_braces template).

(* ------------------------------------------------------------ evaluate *)
(* which kind of positional field has been used so far *)
Inductive numbering :=
| Unused
| Implicit (next : nat)   (* {} was used; next = the index the next {} denotes *)
| Explicit.               (* a numbered field was used *)

(* class of "the keyword is not among kwargs" (Starlark has no x.y / a[i] /
   nested fields in format strings; the diagnosis depends on the name) *)
Definition missing_keyword (name : fbytes) : ferr :=
  if existsb (N.eqb ch_dot) name then EAttrSyntax
  else if existsb (N.eqb ch_lbrack) name then EElemSyntax
  else if existsb (N.eqb ch_open) name then ENested
  else EKeyword.

Section Spec.
  Variable V : Type.
  Variables str_of repr_of : V -> fbytes.

  Definition positional (args : list V) (n : N) : option V :=
    if (n <? N.of_nat (length args))%N then nth_error args (N.to_nat n) else None.

  Definition resolve (sel : selector) (args : list V) (kwargs : list (fbytes * V))
             (m : numbering) : (V * numbering) + ferr :=
    match sel with
    | Auto =>
        match m with
        | Explicit => inr EManualToAuto
        | Unused =>
            match positional args 0 with Some v => inl (v, Implicit 1) | None => inr EIndexRange end
        | Implicit k =>
            match positional args (N.of_nat k) with Some v => inl (v, Implicit (S k)) | None => inr EIndexRange end
        end
    | Num n =>
        match m with
        | Implicit _ => inr EAutoToManual
        | _ => match positional args n with Some v => inl (v, Explicit) | None => inr EIndexRange end
        end
    | Key name =>
        match find (fun kv => bytes_eqb (fst kv) name) kwargs with
        | Some kv => inl (snd kv, m)
        | None => inr (missing_keyword name)
        end
    end.

  Definition convert (conv : fbytes) : option (V -> fbytes) :=
    if bytes_eqb conv [ch_s] then Some str_of
    else if bytes_eqb conv [ch_r] then Some repr_of
    else None.

  Definition prepend (s : fbytes) (r : fres) : fres :=
    match r with FOk t => FOk (s ++ t) | _ => r end.

  Fixpoint eval (segs : list seg) (args : list V) (kwargs : list (fbytes * V))
           (m : numbering) : fres :=
    match segs with
    | [] => FOk []
    | Lit s :: r => prepend s (eval r args kwargs m)
    | Stray :: _ => FErr ESingleClose
    | Unclosed :: _ => FErr EUnmatchedOpen
    | Field sel conv spec :: r =>
        match resolve sel args kwargs m with
        | inr e => FErr e
        | inl (v, m') =>
            match spec with
            | _ :: _ => FErr ESpecUnsupported    (* "Currently it must be empty" *)
            | [] =>
                match convert conv with
                | None => FErr EConversion
                | Some f => prepend (f v) (eval r args kwargs m')
                end
            end
        end
    end.

  Definition format_spec (template : fbytes) (args : list V) (kwargs : list (fbytes * V)) : fres :=
    eval (parse template) args kwargs Unused.
End Spec.

(* ------------------------------------------------------- well-formedness *)
(* Used only as a hypothesis of the theorems (ProofsFormat2.v): every element
   of the template is a byte value (lists of N stand for Go strings). *)
Definition is_bytes (s : fbytes) : bool := forallb (fun c => (c <? 256)%N) s.
