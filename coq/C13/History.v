(* C13 -- frozen copies of definitions that modelled /repo BEFORE the `fix:`
   commits this property's check led to, with the refutation of the property
   for each (documentation: nothing here is about the current tree).

     711d9ea  rsplitspace pre-sized its result from max   -> old_rsplitspace_cap
     0c74125  rsplit = Split + re-join of the left pieces  -> old_rsplit
     decec7a, 98ffc3a  asIndex / slice step used AsInt32   -> old_slice_impl, old_sub_range
     6eba627  repeat rejected every count outside int32    -> old_repeat_impl *)
From Coq Require Import ZArith NArith List Bool Lia.
From SV Require Import Common.GoInt C13.Base C13.Index C13.Str C13.Seq C13.Spec.
Import ListNotations.
Open Scope Z_scope.

(* ---- asIndex / indices / slice before decec7a *)
Definition old_as_index (v : arg) (len : Z) (result : Z) : option Z :=
  match v with
  | ANone => Some result
  | _ => match as_int32 v with
         | None => None
         | Some r => Some (if r <? 0 then wrap64 (r + len) else r)
         end
  end.
Definition old_indices (start_ end_ : arg) (len : Z) : option (Z * Z) :=
  match old_as_index start_ len 0 with
  | None => None
  | Some start =>
      match old_as_index end_ len len with
      | None => None
      | Some e => Some (clamp0 start len, clamp0 e len)
      end
  end.
Definition old_slice_step (step_ : arg) : option Z :=
  match step_ with
  | ANone => Some 1
  | _ => match as_int32 step_ with
         | None => None
         | Some s => if s =? 0 then None else Some s
         end
  end.
Definition old_slice_bounds (n : Z) (lo hi step_ : arg) : option (Z * Z * Z) :=
  match old_slice_step step_ with
  | None => None
  | Some step =>
      if step >? 0 then
        match old_indices lo hi n with
        | None => None
        | Some (start, e) => Some (start, (if e <? start then start else e), step)
        end
      else
        match old_as_index lo n (wrap64 (n - 1)) with
        | None => None
        | Some start =>
            let start := if start >=? n then wrap64 (n - 1) else start in
            match old_as_index hi n (-1) with
            | None => None
            | Some e =>
                let e := if e <? -1 then -1 else e in
                let start := if start <? e then e else start in
                Some (start, e, step)
            end
        end
  end.
Definition old_slice_impl {A} (xs : list A) (lo hi step_ : arg) : outcome (list A) :=
  match old_slice_bounds (Z.of_nat (length xs)) lo hi step_ with
  | None => Err
  | Some (start, e, step) => seq_slice xs start e step
  end.

(* "abc"[:1<<40] failed; the specification (truncation to the nearest bound) gives "abc" *)
Lemma old_slice_refuted :
  exists (xs : list N) lo hi st, old_slice_impl xs lo hi st <> of_spec (slice_spec xs lo hi st).
Proof.
  exists [97; 98; 99]%N, ANone, (AInt (2^40)), ANone. vm_compute. discriminate.
Qed.

(* "abc".find("b", 0, 1<<40) failed the same way *)
Definition old_sub_range (recv : bytes) (a b : arg) : option (Z * bytes) :=
  match old_indices a b (blen recv) with
  | None => None
  | Some (start, e) => Some (start, if start <? e then substr recv start e else [])
  end.
Lemma old_subrange_refuted :
  exists recv a b, old_sub_range recv a b = None /\ sub_of recv (a, b) <> None.
Proof.
  exists [97; 98; 99]%N, (AInt 0), (AInt (2^40)). vm_compute. split; [reflexivity|discriminate].
Qed.

(* ---- rsplit with a separator before 0c74125: strings.Split, then the leftmost pieces re-joined *)
Definition old_rsplit (recv sep : bytes) (maxsplit : Z) : list bytes :=
  let res := go_split recv sep in
  if maxsplit <? 0 then res
  else
    let excess := Z.of_nat (length res) - maxsplit in
    if excess >? 0 then join (firstn (Z.to_nat excess) res) sep :: skipn (Z.to_nat excess) res
    else res.

(* "aaa".rsplit("aa", 1): the rightmost split gives ["a", ""], the old code gave ["", "a"] *)
Lemma old_rsplit_refuted :
  exists recv sep k, 0 <= k /\ old_rsplit recv sep k <> rsplit_spec recv sep (Some (Z.to_nat k)).
Proof.
  exists [97; 97; 97]%N, [97; 97]%N, 1. split; [lia|]. vm_compute. discriminate.
Qed.

(* ---- rsplitspace before 711d9ea: res := make([]string, 0, max+1).
   makeslice panics when the capacity is negative or exceeds maxAlloc / 16 bytes = 2^44;
   below that it really allocates 16 * cap bytes (tens of gigabytes from max = 2^31 on). *)
Definition old_rsplitspace_cap (max : Z) : outcome Z :=
  let cap := wrap64 (max + 1) in
  if (cap <? 0) || (cap >? 17592186044416) then Panic else Ok cap.
Lemma old_rsplitspace_refuted :
  exists max, in_int64 max = true /\ 0 <= max /\ old_rsplitspace_cap max = Panic.
Proof. exists (2^62). vm_compute. repeat split; intro; discriminate. Qed.

(* ---- repetition before 6eba627: AsInt32 failed before the sign was looked at *)
Definition old_repeat_impl {A} (xs : list A) (n : Z) : outcome (list A) :=
  match xs with
  | [] => Ok []
  | _ =>
      if negb (in_int32 n) then Err
      else if n <? 1 then Ok []
      else let sz := Z.of_nat (length xs) * n in
           if sz >=? max_alloc then Err else Ok (repeat_bytes xs (Z.to_nat n))
  end.
(* "ab" * -(1<<40) failed; "negative values of n behave like zero" *)
Lemma old_repeat_refuted :
  exists (xs : list N) n, old_repeat_impl xs n <> of_spec (repeat_spec xs n).
Proof. exists [97; 98]%N, (- 2^40). vm_compute. discriminate. Qed.
