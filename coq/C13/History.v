(* C13 -- frozen copies of definitions that modelled /repo BEFORE the `fix:`
   commits this property's check led to, with the refutation of the property
   for each (documentation: nothing here is about the current tree).

     711d9ea  rsplitspace pre-sized its result from max   -> old_rsplitspace_cap
     0c74125  rsplit = Split + re-join of the left pieces  -> old_rsplit
     decec7a, 98ffc3a  asIndex / slice step used AsInt32   -> old_slice_impl, old_sub_range
     6eba627  repeat rejected every count outside int32    -> old_repeat_impl
     5574fcc  decimal (string.format field numbers) wrapped -> old_decimal, old_string_format *)
From Coq Require Import ZArith NArith List Bool Lia.
From SV Require Import Common.GoInt C13.Base C13.Index C13.Str C13.Seq C13.Spec.
Import ListNotations.
Open Scope Z_scope.

(* ---- asIndex / indices / slice before decec7a *)
Definition old_as_index (v : arg) (len : Z) (result : Z) : option Z :=
  match v with
  | ANone => Some result
  | _ => match as_int32 v with
         | None => None
         | Some r => Some (if r <? 0 then wrap64 (r + len) else r)
         end
  end.
Definition old_indices (start_ end_ : arg) (len : Z) : option (Z * Z) :=
  match old_as_index start_ len 0 with
  | None => None
  | Some start =>
      match old_as_index end_ len len with
      | None => None
      | Some e => Some (clamp0 start len, clamp0 e len)
      end
  end.
Definition old_slice_step (step_ : arg) : option Z :=
  match step_ with
  | ANone => Some 1
  | _ => match as_int32 step_ with
         | None => None
         | Some s => if s =? 0 then None else Some s
         end
  end.
Definition old_slice_bounds (n : Z) (lo hi step_ : arg) : option (Z * Z * Z) :=
  match old_slice_step step_ with
  | None => None
  | Some step =>
      if step >? 0 then
        match old_indices lo hi n with
        | None => None
        | Some (start, e) => Some (start, (if e <? start then start else e), step)
        end
      else
        match old_as_index lo n (wrap64 (n - 1)) with
        | None => None
        | Some start =>
            let start := if start >=? n then wrap64 (n - 1) else start in
            match old_as_index hi n (-1) with
            | None => None
            | Some e =>
                let e := if e <? -1 then -1 else e in
                let start := if start <? e then e else start in
                Some (start, e, step)
            end
        end
  end.
Definition old_slice_impl {A} (xs : list A) (lo hi step_ : arg) : outcome (list A) :=
  match old_slice_bounds (Z.of_nat (length xs)) lo hi step_ with
  | None => Err
  | Some (start, e, step) => seq_slice xs start e step
  end.

(* "abc"[:1<<40] failed; the specification (truncation to the nearest bound) gives "abc" *)
Lemma old_slice_refuted :
  exists (xs : list N) lo hi st, old_slice_impl xs lo hi st <> of_spec (slice_spec xs lo hi st).
Proof.
  exists [97; 98; 99]%N, ANone, (AInt (2^40)), ANone. vm_compute. discriminate.
Qed.

(* "abc".find("b", 0, 1<<40) failed the same way *)
Definition old_sub_range (recv : bytes) (a b : arg) : option (Z * bytes) :=
  match old_indices a b (blen recv) with
  | None => None
  | Some (start, e) => Some (start, if start <? e then substr recv start e else [])
  end.
Lemma old_subrange_refuted :
  exists recv a b, old_sub_range recv a b = None /\ sub_of recv (a, b) <> None.
Proof.
  exists [97; 98; 99]%N, (AInt 0), (AInt (2^40)). vm_compute. split; [reflexivity|discriminate].
Qed.

(* ---- rsplit with a separator before 0c74125: strings.Split, then the leftmost pieces re-joined *)
Definition old_rsplit (recv sep : bytes) (maxsplit : Z) : list bytes :=
  let res := go_split recv sep in
  if maxsplit <? 0 then res
  else
    let excess := Z.of_nat (length res) - maxsplit in
    if excess >? 0 then join (firstn (Z.to_nat excess) res) sep :: skipn (Z.to_nat excess) res
    else res.

(* "aaa".rsplit("aa", 1): the rightmost split gives ["a", ""], the old code gave ["", "a"] *)
Lemma old_rsplit_refuted :
  exists recv sep k, 0 <= k /\ old_rsplit recv sep k <> rsplit_spec recv sep (Some (Z.to_nat k)).
Proof.
  exists [97; 97; 97]%N, [97; 97]%N, 1. split; [lia|]. vm_compute. discriminate.
Qed.

(* ---- rsplitspace before 711d9ea: res := make([]string, 0, max+1).
   makeslice panics when the capacity is negative or exceeds maxAlloc / 16 bytes = 2^44;
   below that it really allocates 16 * cap bytes (tens of gigabytes from max = 2^31 on). *)
Definition old_rsplitspace_cap (max : Z) : outcome Z :=
  let cap := wrap64 (max + 1) in
  if (cap <? 0) || (cap >? 17592186044416) then Panic else Ok cap.
Lemma old_rsplitspace_refuted :
  exists max, in_int64 max = true /\ 0 <= max /\ old_rsplitspace_cap max = Panic.
Proof. exists (2^62). vm_compute. repeat split; intro; discriminate. Qed.

(* ---- repetition before 6eba627: AsInt32 failed before the sign was looked at *)
Definition old_repeat_impl {A} (xs : list A) (n : Z) : outcome (list A) :=
  match xs with
  | [] => Ok []
  | _ =>
      if negb (in_int32 n) then Err
      else if n <? 1 then Ok []
      else let sz := Z.of_nat (length xs) * n in
           if sz >=? max_alloc then Err else Ok (repeat_bytes xs (Z.to_nat n))
  end.
(* "ab" * -(1<<40) failed; "negative values of n behave like zero" *)
Lemma old_repeat_refuted :
  exists (xs : list N) n, old_repeat_impl xs n <> of_spec (repeat_spec xs n).
Proof. exists [97; 98]%N, (- 2^40). vm_compute. discriminate. Qed.

(* ---- string.format before 5574fcc.  decimal accumulated a numeric field
   name in an int and rejected only a NEGATIVE intermediate value:
       x = x*10 + int(digit)
       if x < 0 { return 0, false } // underflow
   so a name that wraps past 2^64 to a small value was used as that index
   ("{18446744073709551616}".format("a") returned "a"), and a name in
   [2^63, ...) that wraps negative fell through to the keyword branch.
   The rest of string_format is unchanged: old_select_arg / old_format_loop
   are Format.select_arg / Format.format_loop with old_decimal in place of
   decimal (frozen copies).  FormatSpec.format_spec is the specification the
   current code is proved against (Properties.format_correct). *)
From SV Require Import C13.FormatBase C13.Format C13.FormatSpec.

Fixpoint old_decimal_loop (s : fbytes) (x : Z) : option Z :=
  match s with
  | [] => Some x
  | c :: t =>
      let digit := wrapu8 (Z.of_N c - 48) in
      if digit >? 9 then None
      else
        let x' := wrap64 (x * 10 + digit) in
        if x' <? 0 then None else old_decimal_loop t x'
  end.
Definition old_decimal (s : fbytes) : option Z := old_decimal_loop s 0.

Section OldFormat.
  Variable V : Type.
  Variables str_of repr_of : V -> fbytes.

  Definition old_select_arg (name : fbytes) (args : list V) (kwargs : list (fbytes * V))
             (st : fstate) : sel_res V :=
    match name with
    | [] =>
        if st_manual st then SelErr EManualToAuto
        else arg_at V args (st_index st)
                    {| st_auto := true; st_manual := st_manual st; st_index := st_index st + 1 |}
    | _ :: _ =>
        match old_decimal name with
        | Some num =>
            if st_auto st then SelErr EAutoToManual
            else arg_at V args num {| st_auto := st_auto st; st_manual := true; st_index := st_index st |}
        | None =>
            match find_kwarg V kwargs name with
            | Some v => SelOk v st
            | None =>
                if contains_byte name ch_dot then SelErr EAttrSyntax
                else if contains_byte name ch_lbrack then SelErr EElemSyntax
                else if contains_byte name ch_open then SelErr ENested
                else SelErr EKeyword
            end
        end
    end.

  Fixpoint old_format_loop (fuel : nat) (args : list V) (kwargs : list (fbytes * V))
           (format : fbytes) (st : fstate) (buf : fbytes) : fres :=
    match fuel with
    | O => FOutOfFuel
    | S fuel' =>
        let i := index_byte format ch_open in
        match (if 0 <=? i then sl_to format i else Some format) with
        | None => FPanic
        | Some literal =>
            match literal_loop (S (length literal)) literal buf with
            | FOk buf1 =>
                if i <? 0 then FOk buf1
                else
                  let esc :=
                      if i + 1 <? flen format then
                        match byte_at format (i + 1) with
                        | Some c => Some (N.eqb c ch_open)
                        | None => None
                        end
                      else Some false in
                  match esc with
                  | None => FPanic
                  | Some true =>
                      match sl_from format (i + 2) with
                      | Some format' => old_format_loop fuel' args kwargs format' st (buf1 ++ [ch_open])
                      | None => FPanic
                      end
                  | Some false =>
                      match sl_from format (i + 1) with
                      | None => FPanic
                      | Some format1 =>
                          let i2 := index_byte format1 ch_close in
                          if i2 <? 0 then FErr EUnmatchedOpen
                          else
                            match sl_to format1 i2, sl_from format1 (i2 + 1) with
                            | Some field, Some format2 =>
                                match split_field field with
                                | None => FPanic
                                | Some (name, conv, spec) =>
                                    match old_select_arg name args kwargs st with
                                    | SelPanic => FPanic
                                    | SelErr e => FErr e
                                    | SelOk arg st' =>
                                        match spec with
                                        | _ :: _ => FErr ESpecUnsupported
                                        | [] =>
                                            if bytes_eqb conv [ch_s]
                                            then old_format_loop fuel' args kwargs format2 st' (buf1 ++ str_of arg)
                                            else if bytes_eqb conv [ch_r]
                                            then old_format_loop fuel' args kwargs format2 st' (buf1 ++ repr_of arg)
                                            else FErr EConversion
                                        end
                                    end
                                end
                            | _, _ => FPanic
                            end
                      end
                  end
            | r => r
            end
        end
    end.

  Definition old_string_format (format : fbytes) (args : list V) (kwargs : list (fbytes * V)) : fres :=
    old_format_loop (S (length format)) args kwargs format fstate0 [].
End OldFormat.

(* "{18446744073709551616}" and "{9223372036854775808}" *)
Definition wrap_witness : fbytes :=
  [123; 49; 56; 52; 52; 54; 55; 52; 52; 48; 55; 51; 55; 48; 57; 53; 53; 49; 54; 49; 54; 125]%N.
Definition keyword_witness : fbytes :=
  [123; 57; 50; 50; 51; 51; 55; 50; 48; 51; 54; 56; 53; 52; 55; 55; 53; 56; 48; 56; 125]%N.

(* values are their own text here; one positional argument "a" *)
Lemma old_format_refuted :
  exists (template : fbytes) (args : list fbytes) (kwargs : list (fbytes * fbytes)),
    is_bytes template = true /\ Z.of_nat (length args) <= max_int64 /\
    old_string_format fbytes (fun v => v) (fun v => v) template args kwargs = FOk [97%N] /\
    format_spec fbytes (fun v => v) (fun v => v) template args kwargs = FErr EIndexRange /\
    string_format fbytes (fun v => v) (fun v => v) template args kwargs = FErr EIndexRange.
Proof.
  exists wrap_witness, [[97%N]], []. vm_compute. repeat split; intro; discriminate.
Qed.

(* the numeric name 2^63 was looked up among the keyword arguments *)
Lemma old_format_number_as_keyword :
  exists (template : fbytes) (kwargs : list (fbytes * fbytes)),
    old_string_format fbytes (fun v => v) (fun v => v) template [] kwargs = FOk [75%N] /\
    format_spec fbytes (fun v => v) (fun v => v) template [] kwargs = FErr EIndexRange /\
    string_format fbytes (fun v => v) (fun v => v) template [] kwargs = FErr EIndexRange.
Proof.
  exists keyword_witness,
         [([57; 50; 50; 51; 51; 55; 50; 48; 51; 54; 56; 53; 52; 55; 55; 53; 56; 48; 56]%N, [75%N])].
  vm_compute. repeat split.
Qed.
