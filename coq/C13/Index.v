(* C13 -- model of the index / slice core of starlark/eval.go and of the Slice
   methods in starlark/value.go, statement by statement.  Go `int` is int64:
   every addition that the Go code performs on an `int` is wrapped with wrap64.

     AsInt32            starlark/int.go      -> as_int32
     asIndex            starlark/eval.go     -> as_index
     indices            starlark/eval.go     -> indices
     slice              starlark/eval.go     -> slice_bounds (+ slice_impl)
     signum64/signum    starlark/eval.go     -> signum (signum_bits is the bit-level text)
     String.Slice, Bytes.Slice, List.Slice, Tuple.Slice (value.go, four copies of
       the same loop)                        -> seq_slice / slice_loop
     getIndex/setIndex  starlark/eval.go     -> get_index / set_index
     rangeLen, rangeValue.Slice/Index        -> range_len / range_slice / range_index

   No proofs here. *)
From Coq Require Import ZArith List Bool.
From SV Require Import Common.GoInt C13.Base.
Import ListNotations.
Open Scope Z_scope.

(* --- AsInt32: the operand must be an int whose value fits the "small"
   representation, i.e. [-2^31, 2^31-1]; otherwise an error. *)
Definition as_int32 (v : arg) : option Z :=
  match v with
  | AInt z => if in_int32 z then Some z else None
  | _ => None
  end.

(* --- asIndex(v, len, &result): None/omitted leaves result unchanged; an int
   that fits a Go int has len added when negative; an int beyond the int range
   becomes -1 (negative) or len (positive); a non-int is an error (None). *)
Definition as_index (v : arg) (len : Z) (result : Z) : option Z :=
  match v with
  | ANone => Some result
  | AInt z =>
      if in_int64 z then Some (if z <? 0 then wrap64 (z + len) else z)
      else if z <? 0 then Some (-1)
      else Some len
  | AOther => None
  end.

Definition clamp0 (x len : Z) : Z := if x <? 0 then 0 else if x >? len then len else x.

(* --- indices(start_, end_, len) *)
Definition indices (start_ end_ : arg) (len : Z) : option (Z * Z) :=
  match as_index start_ len 0 with
  | None => None
  | Some start =>
      let start := clamp0 start len in
      match as_index end_ len len with
      | None => None
      | Some e => Some (start, clamp0 e len)
      end
  end.

(* --- the index part of slice(x, lo, hi, step_): n = x.Len().
   The stride: exact when it fits 32 bits or is smaller than n in absolute
   value; otherwise +-max(n, 1) (it selects the first element only, like any
   stride of at least n); zero and non-ints are errors. *)
Definition slice_step (n : Z) (step_ : arg) : option Z :=
  match step_ with
  | ANone => Some 1
  | AInt z =>
      let step :=
          if in_int64 z && (in_int32 z || ((- n <? z) && (z <? n))) then z
          else let m := if n <? 1 then 1 else n in
               if z <? 0 then wrap64 (- m) else m in
      if step =? 0 then None else Some step
  | AOther => None
  end.

Definition slice_bounds (n : Z) (lo hi step_ : arg) : option (Z * Z * Z) :=
  match slice_step n step_ with
  | None => None
  | Some step =>
      if step >? 0 then
        match indices lo hi n with
        | None => None
        | Some (start, e) => Some (start, (if e <? start then start else e), step)
        end
      else
        match as_index lo n (wrap64 (n - 1)) with
        | None => None
        | Some start =>
            let start := if start >=? n then wrap64 (n - 1) else start in
            match as_index hi n (-1) with
            | None => None
            | Some e =>
                let e := if e <? -1 then -1 else e in
                let start := if start <? e then e else start in
                Some (start, e, step)
            end
        end
  end.

(* --- signum64: int(uint64(x>>63) | uint64(-x)>>63), Hacker's Delight 2.8,
   written on the two's-complement reading of an int64 x. *)
Definition signum_bits (x : Z) : Z :=
  wrap64 (Z.lor (wrapu64 (Z.shiftr x 63)) (Z.shiftr (wrapu64 (- x)) 63)).
(* the reading used by the loops below (ProofsIndex.signum_bits_sgn shows they agree on int64) *)
Definition signum (x : Z) : Z := Z.sgn x.

(* element i of a Go slice/string: a negative or too large i panics *)
Definition zth {A} (xs : list A) (i : Z) : option A :=
  if i <? 0 then None else nth_error xs (Z.to_nat i).

(* --- for i := start; signum(end-i) == sign; i += step { out = append(out, s[i]) } *)
Fixpoint slice_loop {A} (fuel : nat) (xs : list A) (i e step sign : Z) : outcome (list A) :=
  match fuel with
  | O => OutOfFuel
  | S f =>
      if signum (wrap64 (e - i)) =? sign then
        match zth xs i with
        | None => Panic
        | Some x =>
            match slice_loop f xs (wrap64 (i + step)) e step sign with
            | Ok r => Ok (x :: r)
            | o => o
            end
        end
      else Ok []
  end.

(* s[start:end] on a Go string/slice of length n: panics unless 0 <= start <= end <= n *)
Definition go_subslice {A} (xs : list A) (start e : Z) : outcome (list A) :=
  if (0 <=? start) && (start <=? e) && (e <=? Z.of_nat (length xs))
  then Ok (firstn (Z.to_nat (e - start)) (skipn (Z.to_nat start) xs))
  else Panic.

(* --- (String|Bytes|List|Tuple).Slice(start, end, step) *)
Definition seq_slice {A} (xs : list A) (start e step : Z) : outcome (list A) :=
  if step =? 1 then go_subslice xs start e
  else slice_loop (S (length xs)) xs start e step (signum step).

(* --- x[lo:hi:step] for a string, bytes, list or tuple x *)
Definition slice_impl {A} (xs : list A) (lo hi step_ : arg) : outcome (list A) :=
  match slice_bounds (Z.of_nat (length xs)) lo hi step_ with
  | None => Err
  | Some (start, e, step) => seq_slice xs start e step
  end.

(* --- getIndex(x, y) for an Indexable x of length n: the effective index *)
Definition norm_index (n : Z) (y : arg) : option Z :=
  match as_int32 y with
  | None => None
  | Some i =>
      let i := if i <? 0 then wrap64 (i + n) else i in
      if (i <? 0) || (i >=? n) then None else Some i
  end.

Definition get_index {A} (xs : list A) (y : arg) : outcome A :=
  match norm_index (Z.of_nat (length xs)) y with
  | None => Err
  | Some i => match zth xs i with Some x => Ok x | None => Panic end
  end.

Fixpoint set_nth {A} (xs : list A) (i : nat) (v : A) : option (list A) :=
  match xs, i with
  | [], _ => None
  | _ :: r, O => Some (v :: r)
  | x :: r, S j => match set_nth r j v with Some r' => Some (x :: r') | None => None end
  end.

(* --- setIndex(x, y, z) for an unfrozen list x *)
Definition set_index {A} (xs : list A) (y : arg) (v : A) : outcome (list A) :=
  match norm_index (Z.of_nat (length xs)) y with
  | None => Err
  | Some i => match (if i <? 0 then None else set_nth xs (Z.to_nat i) v) with
              | Some r => Ok r | None => Panic end
  end.

(* --- range values (library.go) *)
Record rng := { r_start : Z; r_stop : Z; r_step : Z; r_len : Z }.

(* rangeLen(start, stop, step): int(uint(stop-1-start)/uint(step) + 1) -- the difference is
   reinterpreted as an unsigned 64-bit number before the division; all operations wrap *)
Definition range_len (start stop step : Z) : outcome Z :=
  if step >? 0 then
    (if stop >? start
     then Ok (wrap64 (wrapu64 (wrapu64 (wrap64 (wrap64 (stop - 1) - start)) / wrapu64 step + 1)))
     else Ok 0)
  else if step <? 0 then
    (if start >? stop
     then Ok (wrap64 (wrapu64 (wrapu64 (wrap64 (wrap64 (start - 1) - stop)) / wrapu64 (wrap64 (- step)) + 1)))
     else Ok 0)
  else Panic.

Definition mk_range (start stop step : Z) : outcome rng :=
  match range_len start stop step with
  | Ok l => Ok {| r_start := start; r_stop := stop; r_step := step; r_len := l |}
  | Err => Err | Panic => Panic | OutOfFuel => OutOfFuel
  end.

Definition range_index (r : rng) (i : Z) : Z := wrap64 (r_start r + wrap64 (i * r_step r)).

Definition range_elems (r : rng) : list Z :=
  map (fun k => range_index r (Z.of_nat k)) (seq 0 (Z.to_nat (r_len r))).

(* rangeValue.Slice(start, end, step) *)
Definition range_slice (r : rng) (start e step : Z) : outcome rng :=
  mk_range (wrap64 (r_start r + wrap64 (r_step r * start)))
           (wrap64 (r_start r + wrap64 (r_step r * e)))
           (wrap64 (r_step r * step)).

(* r[lo:hi:step] *)
Definition range_slice_impl (r : rng) (lo hi step_ : arg) : outcome rng :=
  match slice_bounds (r_len r) lo hi step_ with
  | None => Err
  | Some (start, e, step) => range_slice r start e step
  end.

Definition range_get_index (r : rng) (y : arg) : outcome Z :=
  match norm_index (r_len r) y with
  | None => Err
  | Some i => Ok (range_index r i)
  end.
