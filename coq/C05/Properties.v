(* C05 -- property theorems only.  Each is closed by `exact <lemma>`.

   What these theorems are: a proof of the GUARD LOGIC.  The machine of
   Model.v gives every operation threads perform on shared values (read, index,
   membership, iterate / next / done, compare, hash, print, call of a frozen
   function, store-and-freeze-again, every mutator, Program.Init,
   Funcode.Position) its result and its read / write footprint over locations
   (object, field), with exactly the guards the code has.  A data race is two
   accesses of different threads to one location, one of them a plain write.
   That the Go memory model, sync.Once and the race detector behave as specified
   is NOT proved here (category "other"): the harness runs the real code under
   `go build -race`. *)
From Coq Require Import List Arith Bool ZArith Lia.
From SV Require Import C04.Heap C04.Model C05.Footprint C05.Spec C05.Model C05.Proofs C05.ProofsLocal C05.ProofsSolo.
Import ListNotations.

(* frozen_ops_write_nothing.  On a heap whose flagged objects are all frozen,
   every operation of the repertoire has an empty plain-write footprint and
   leaves heap and program untouched (the only state change is the Once-guarded
   decoding of a line table). *)
Theorem frozen_ops_write_nothing :
  forall st tl o st' tl' r fp,
    all_frozen (sh_heap st) -> step st tl o = (st', tl', r, fp) ->
    wr fp = [] /\ sh_heap st' = sh_heap st /\ sh_tabs st' = sh_tabs st.
Proof. exact step_frozen. Qed.

(* race_free.  For ALL numbers of threads (thread identifiers are arbitrary
   naturals) and ALL schedules, over a frozen heap no two events of different
   threads conflict. *)
Theorem race_free_schedules :
  forall sched st ts, all_frozen (sh_heap st) -> race_free (run sched st ts).
Proof. exact race_free_lemma. Qed.

(* solo_equivalence.  In any interleaving, each thread's transcript equals the
   transcript of its own operations run alone from the initial state. *)
Theorem solo_equivalence :
  forall sched st ts t,
    all_frozen (sh_heap st) -> cache_ok st ->
    transcript t (run sched st ts) = solo (ops_of t sched) st (ts t).
Proof. exact solo_equivalence_lemma. Qed.

(* once_cell.  The decoded line table of a Funcode is written only inside the
   Once body, with the decoding of the (immutable) encoded table; whichever
   thread gets there first, Position returns the entry of that decoding.
   Assumption: sync.Once (the body runs once, and completes before any Do returns). *)
Theorem once_cell :
  forall st tl fc pc st' tl' r fp tab,
    cache_ok st -> nth_error (sh_tabs st) fc = Some tab -> fc < length (sh_lnt st) ->
    step st tl (OPosition fc pc) = (st', tl', r, fp) ->
    cache_ok st' /\ nth_error (sh_lnt st') fc = Some (Some (decode tab)) /\
    r = (match nth_error (decode tab) pc with Some n => RNat n | None => RErr end) /\
    wr fp = [] /\ tl' = tl.
Proof. exact once_cell_lemma. Qed.

(* race_free with private mutable state.  Threads also own objects that are NOT
   frozen (their locals, the values of the module they are executing), which may
   refer to shared values.  `wf ow h`: shared objects (owner None) are frozen
   and refer to shared objects only; an object owned by thread t refers to
   shared objects or to t's own.  `sched_ok`: every operation targets (and
   stores) only objects its thread can reach: shared ones or its own.  Then, for
   ALL thread counts and schedules, and whatever is done to the private objects
   (mutation, iteration, freezing), no two steps of different threads conflict. *)
Theorem race_free_with_private_state :
  forall ow sched st ts,
    wf ow (sh_heap st) -> ts_ok ow ts -> sched_ok ow sched ->
    race_free (run sched st ts).
Proof. exact race_free_local_lemma. Qed.

(* solo_equivalence with private mutable state: in any interleaving of threads
   that mutate, iterate over and freeze objects of their own (and read shared
   ones), every thread's transcript is the transcript of its own operations run
   alone from the initial state -- other threads change nothing it can reach. *)
Theorem solo_equivalence_with_private_state :
  forall ow sched st ts t,
    wf ow (sh_heap st) -> cache_ok st -> ts_ok ow ts -> sched_ok ow sched ->
    transcript t (run sched st ts) = solo (ops_of t sched) st (ts t).
Proof. exact solo_equivalence_local_lemma. Qed.

(* The write footprints of the model are complete: an operation changes no object
   outside its write footprint (for every heap, frozen or not).  Together with
   the hook-based correspondence (observed writes = model writes) this is what
   makes "empty write footprint" mean "nothing is written". *)
Theorem write_footprint_complete :
  forall h tl o h' tl' r fp,
    step_heap h tl o = (h', tl', r, fp) ->
    length h' = length h /\
    forall l, (forall f, ~ In (LObj l f) (wr fp)) -> lookup h' l = lookup h l.
Proof. exact step_heap_writes_complete. Qed.

(* Necessity of the premise: two threads that start iterating over the same
   list, dict or set that is NOT frozen do conflict (both write itercount) --
   for every heap, every such object, every pair of distinct threads. *)
Theorem unfrozen_iteration_conflicts :
  forall st ts t1 t2 l o,
    lookup (sh_heap st) l = Some o -> has_counter o = true -> flag o = false ->
    t1 <> t2 ->
    race_freeb (run [(t1, OIterBegin l); (t2, OIterBegin l)] st ts) = false.
Proof. exact unfrozen_iteration_conflicts_lemma. Qed.

(* ------------------------------------------------------------------------
   Non-vacuity.  A frozen world: list 0 = [1, ref 1], dict 1 = {ref 2: 5},
   tuple 2 = (7,), function 3 with a captured cell 4 holding list 0; one
   Funcode with line table deltas [3;1;2]. *)
Definition ex_world : shared :=
  {| sh_heap := [ OList true 0 [VAtom 1; VRef 1];
                  ODict true 0 [(VRef 2, VAtom 5)];
                  OTuple [VAtom 7];
                  OFunc true [] [VRef 4] 0;
                  OCell (Some (VRef 0)) ];
     sh_tabs := [[3; 1; 2]];
     sh_lnt := [None] |}.

Example ex_all_frozen : all_frozen (sh_heap ex_world).
Proof.
  intros l o Hl Hfl.
  do 5 (destruct l as [|l]; [simpl in Hl; injection Hl as <-; simpl in *; congruence|]).
  destruct l; discriminate.
Qed.

Example ex_cache_ok : cache_ok ex_world.
Proof. intros fc tab d _ H. destruct fc as [|[|fc]]; simpl in H; discriminate. Qed.

Definition ex_sched : list (nat * op) :=
  [ (0, OIterBegin 0); (1, OIterBegin 0); (2, OMutate 0 (LAppend (VAtom 9))); (0, OIterNext);
    (1, OStoreFreeze 3); (2, OPosition 0 1); (0, OIterNext); (1, OIterNext); (0, OIterNext);
    (1, OPosition 0 2); (0, OIterDone); (2, OCall 3); (1, OIterDone); (2, OMutate 1 (DSetKey 4 (VAtom 4))) ].

Example ex_transcripts :
  transcript 0 (run ex_sched ex_world (fun _ => [])) = [RUnit; RVal (VAtom 1); RVal (VRef 1); RStop; RUnit] /\
  transcript 1 (run ex_sched ex_world (fun _ => [])) = [RUnit; RUnit; RVal (VAtom 1); RNat 6; RUnit] /\
  transcript 2 (run ex_sched ex_world (fun _ => [])) = [RErr; RNat 4; RVals [VRef 0]; RErr].
Proof. repeat split; reflexivity. Qed.

Example ex_race_free : race_freeb (run ex_sched ex_world (fun _ => [])) = true.
Proof. reflexivity. Qed.

(* The conflict notion has teeth: the same two iterations over the same list
   when it is NOT frozen do conflict (both bump itercount). *)
Definition ex_unfrozen : shared :=
  {| sh_heap := [OList false 0 [VAtom 1]]; sh_tabs := []; sh_lnt := [] |}.

Example ex_unfrozen_iteration_races :
  race_freeb (run [(0, OIterBegin 0); (1, OIterBegin 0)] ex_unfrozen (fun _ => [])) = false.
Proof. reflexivity. Qed.

(* ... and so does freezing an unfrozen value from two threads, or mutating
   while another thread reads. *)
Example ex_unfrozen_freeze_races :
  race_freeb (run [(0, OStoreFreeze 0); (1, OLen 0); (1, OStoreFreeze 0); (0, OIterBegin 0)]
                  ex_unfrozen (fun _ => [])) = false.
Proof. reflexivity. Qed.

Example ex_unfrozen_mutation_races :
  race_freeb (run [(0, OMutate 0 (LAppend (VAtom 2))); (1, OLen 0)] ex_unfrozen (fun _ => [])) = false.
Proof. reflexivity. Qed.

(* Private state: list 0 is shared and frozen; list 1 belongs to thread 1 and
   refers to list 0; list 2 belongs to thread 2.  The threads mutate, iterate
   over and freeze their own lists while reading the shared one. *)
Definition ex_own : owner := fun l => match l with 1 => Some 1 | 2 => Some 2 | _ => None end.
Definition ex_private : shared :=
  {| sh_heap := [OList true 0 [VAtom 1]; OList false 0 [VRef 0]; OList false 0 []];
     sh_tabs := []; sh_lnt := [] |}.
Definition ex_private_sched : list (nat * op) :=
  [ (1, OMutate 1 (LAppend (VRef 0))); (2, OIterBegin 2); (1, OIterBegin 0); (2, OMutate 2 (GoLAppend (VRef 0)));
    (1, OIterNext); (2, OIterDone); (2, OMutate 2 (LAppend (VRef 0))); (1, OIterDone); (1, OStoreFreeze 1);
    (2, OLen 0); (1, OMutate 1 LClear) ].

Example ex_private_wf : wf ex_own (sh_heap ex_private).
Proof.
  constructor.
  - intros l o Hl Ho Hfl.
    destruct l as [|[|[|l]]]; simpl in *; try discriminate; try (destruct l; discriminate).
    injection Hl as <-. reflexivity.
  - intros l o c Hl Ho Hc.
    destruct l as [|[|[|l]]]; simpl in *; try discriminate; try (destruct l; discriminate).
    injection Hl as <-. simpl in Hc. destruct Hc as [Hc|[]]. discriminate.
  - intros l o t c Hl Ho Hc.
    destruct l as [|[|[|l]]]; simpl in *; try discriminate; try (destruct l; discriminate).
    + injection Hl as <-. simpl in Hc. destruct Hc as [Hc|[]]. injection Hc as <-. left. reflexivity.
    + injection Hl as <-. destruct Hc.
Qed.

Example ex_private_sched_ok : sched_ok ex_own ex_private_sched.
Proof.
  intros t o Hin. unfold ex_private_sched in Hin. simpl in Hin.
  repeat (destruct Hin as [Heq|Hin]; [injection Heq as <- <-; simpl; unfold acc, ex_own; simpl;
            repeat split; auto; try (first [intros c [Hc|[]]; injection Hc as <-; auto | intros c []])|]).
  destruct Hin.
Qed.

Example ex_private_results :
  map ev_res (run ex_private_sched ex_private (fun _ => [])) =
    [RUnit; RUnit; RUnit; RErr; RVal (VAtom 1); RUnit; RUnit; RUnit; RUnit; RNat 1; RErr]
  /\ race_freeb (run ex_private_sched ex_private (fun _ => [])) = true.
Proof. split; reflexivity. Qed.

Example ex_private_solo :
  transcript 1 (run ex_private_sched ex_private (fun _ => [])) = solo (ops_of 1 ex_private_sched) ex_private []
  /\ transcript 2 (run ex_private_sched ex_private (fun _ => [])) = solo (ops_of 2 ex_private_sched) ex_private []
  /\ transcript 2 (run ex_private_sched ex_private (fun _ => [])) = [RUnit; RErr; RUnit; RUnit; RNat 1].
Proof. repeat split; reflexivity. Qed.
