(* C05/Footprint.v -- vocabulary: memory locations, read/write footprints, the
   repertoire of operations threads perform on shared values and on a shared
   compiled program, their results, and execution events.

   A location is a field of an object of the heap (C04/Heap.v): the frozen flag,
   the iterator counter, the contents (elements / hash table); or the lazily
   decoded line-number table of one Funcode (Funcode.lnt); or the rest of the
   compiled program (read-only after compilation).

   A footprint lists the locations an operation reads and writes with plain
   memory accesses (rd, wr), and separately the accesses it performs inside --
   or ordered after -- sync.Once.Do (sy): those are synchronised by the Once and
   cannot race (assumption: sync.Once). *)
From Coq Require Import List Arith Bool ZArith.
From SV Require Import C04.Heap.
Import ListNotations.

Inductive field := FFrozen | FIter | FElems.

Inductive location :=
| LObj (l : loc) (f : field)
| LLnt (fc : nat)
| LProg.

Record footprint := { rd : list location; wr : list location; sy : list location }.

Definition fp_reads (r : list location) : footprint := {| rd := r; wr := []; sy := [] |}.

Inductive op :=
| OLen (l : loc)                       (* len(x), truth *)
| OIndex (l : loc) (i : nat)           (* x[i] *)
| OContains (l : loc) (a : Z)          (* a in x, d.get(a) *)
| OIterBegin (l : loc)                 (* x.Iterate(): for loops, comprehensions, sorted(x), list(x), *args ... *)
| OIterNext                            (* it.Next() on the innermost open iterator *)
| OIterDone                            (* it.Done() *)
| OCompare (l l' : loc)                (* x == y *)
| OHash (l : loc)                      (* hash(x), x used as a key *)
| OPrint (l : loc)                     (* str(x), repr, json encode: visits everything reachable *)
| OCall (f : loc)                      (* call of a frozen function: reads defaults and captured cells *)
| OStoreFreeze (l : loc)               (* x stored in a thread's own module, whose epilogue calls x.Freeze() again *)
| OMutate (l : loc) (m : mop)          (* any mutator (rejected when x is frozen) *)
| OProgInit                            (* Program.Init of the shared program: a fresh module per thread *)
| OPosition (fc pc : nat).             (* Funcode.Position(pc): error positions, backtraces *)

Inductive result :=
| RNat (n : nat)
| RVal (v : val)
| RVals (vs : list val)
| RBool (b : bool)
| RLocs (ls : list loc)
| RUnit
| RStop                                (* iterator exhausted *)
| RErr.

Record event := { ev_thread : nat; ev_op : op; ev_res : result; ev_fp : footprint }.

(* ---- decidable equality on locations and results (for specifications and checks) *)
Definition field_eqb (a b : field) : bool :=
  match a, b with
  | FFrozen, FFrozen | FIter, FIter | FElems, FElems => true
  | _, _ => false
  end.

Definition location_eqb (a b : location) : bool :=
  match a, b with
  | LObj l f, LObj l' f' => Nat.eqb l l' && field_eqb f f'
  | LLnt a, LLnt b => Nat.eqb a b
  | LProg, LProg => true
  | _, _ => false
  end.

Definition mem_loc (x : location) (s : list location) : bool := existsb (location_eqb x) s.

Definition result_eqb (a b : result) : bool :=
  match a, b with
  | RNat n, RNat m => Nat.eqb n m
  | RVal v, RVal w => val_eqb v w
  | RVals v, RVals w => list_eqb val_eqb v w
  | RBool x, RBool y => Bool.eqb x y
  | RLocs x, RLocs y => list_eqb Nat.eqb x y
  | RUnit, RUnit | RStop, RStop | RErr, RErr => true
  | _, _ => false
  end.
