(* C05/Proofs.v -- operations on frozen objects write nothing; hence schedules
   over frozen heaps are race free and every thread sees what it sees alone. *)
From Coq Require Import List Arith Bool ZArith Lia.
From SV Require Import C04.Heap C04.Model C04.Spec C04.ProofsMut C05.Footprint C05.Spec C05.Model.
Import ListNotations.

(* every shared object that has a frozen flag is frozen *)
Definition all_frozen (h : heap) : Prop :=
  forall l o, lookup h l = Some o -> flagged o = true -> flag o = true.

(* the decoded-table cells hold nothing but the decoding of their table *)
Definition cache_ok (st : shared) : Prop :=
  forall fc tab d, nth_error (sh_tabs st) fc = Some tab -> nth_error (sh_lnt st) fc = Some (Some d) ->
    d = decode tab.

(* ---------------------------------------------------------- reflexivity *)
Lemma val_eqb_refl v : val_eqb v v = true.
Proof. destruct v; simpl; [apply Z.eqb_refl | apply Nat.eqb_refl]. Qed.

Lemma list_eqb_refl {A} (eqb : A -> A -> bool) (l : list A) :
  (forall x, eqb x x = true) -> list_eqb eqb l l = true.
Proof. intros H. induction l; simpl; auto. rewrite H, IHl. reflexivity. Qed.

Lemma obj_eqb_refl o : obj_eqb o o = true.
Proof.
  assert (Hp : forall x, pair_eqb x x = true) by (intros [a b]; unfold pair_eqb; simpl; rewrite !val_eqb_refl; auto).
  assert (Hf : forall x, Heap.field_eqb x x = true) by (intros [a b]; unfold Heap.field_eqb; simpl; rewrite Nat.eqb_refl, val_eqb_refl; auto).
  assert (Ho : forall c, opt_eqb val_eqb c c = true) by (intros [c|]; simpl; auto using val_eqb_refl).
  destruct o; simpl; repeat (apply andb_true_iff; split);
    auto using eqb_reflx, Nat.eqb_refl, (list_eqb_refl _ _ val_eqb_refl), (list_eqb_refl _ _ Hp), (list_eqb_refl _ _ Hf).
Qed.

Lemma opt_obj_eqb_refl x : opt_eqb obj_eqb x x = true.
Proof. destruct x; simpl; auto using obj_eqb_refl. Qed.

(* ------------------------------------------------ Freeze of frozen values *)
Lemma fold_opt_same f vs h :
  (forall v h', f h v = Some h' -> h' = h) -> forall h', fold_opt f vs h = Some h' -> h' = h.
Proof.
  intros Hf. induction vs as [|v r IH]; intros h' H; simpl in H.
  - congruence.
  - destruct (f h v) as [h1|] eqn:H1; [|discriminate].
    rewrite (Hf _ _ H1) in H. apply IH. exact H.
Qed.

Lemma freeze_all_frozen : forall fuel h v h',
  all_frozen h -> freeze fuel h v = Some h' -> h' = h.
Proof.
  induction fuel as [|f IH]; intros h v h' A H; simpl in H; [discriminate|].
  destruct v as [a|l]; [congruence|].
  destruct (lookup h l) as [o|] eqn:Hl; [|congruence].
  destruct (flagged o) eqn:Hfl.
  - rewrite (A l o Hl Hfl) in H. congruence.
  - eapply fold_opt_same; [|exact H]. intros v h1 H1. eapply IH; eauto.
Qed.

Lemma flat_map_nil {A B} (f : A -> list B) l : (forall x, f x = []) -> flat_map f l = [].
Proof. intros H. induction l; simpl; auto. rewrite H, IHl. reflexivity. Qed.

Lemma flag_diff_same h : flag_diff h h = [].
Proof.
  unfold flag_diff. apply flat_map_nil. intros i.
  destruct (lookup h i); auto. rewrite eqb_reflx. reflexivity.
Qed.

Lemma all_frozen_is_frozen h l o :
  all_frozen h -> lookup h l = Some o -> is_frozen h l = true.
Proof.
  intros A Hl. unfold is_frozen. rewrite Hl.
  destruct (mutable_kind o) eqn:Hm; auto.
  apply (A l o Hl). destruct o; simpl in *; auto; discriminate.
Qed.

(* frozen_ops_write_nothing, on the heap part *)
Lemma step_heap_frozen : forall h tl o h' tl' r fp,
  all_frozen h -> step_heap h tl o = (h', tl', r, fp) -> wr fp = [] /\ h' = h.
Proof.
  intros h tl o h' tl' r fp A H.
  assert (Hc : forall l ob, lookup h l = Some ob -> has_counter ob = true -> flag ob = true).
  { intros l ob Hl Hk. apply (A l ob Hl). destruct ob; simpl in *; auto; discriminate. }
  destruct o; simpl in H.
  - (* OLen *) destruct (lookup h l); injection H as <- <- <- <-; split; reflexivity.
  - (* OIndex *) destruct (lookup h l); injection H as <- <- <- <-; split; reflexivity.
  - (* OContains *) destruct (lookup h l); injection H as <- <- <- <-; split; reflexivity.
  - (* OIterBegin *)
    destruct (lookup h l) as [ob|] eqn:Hl; [|injection H as <- <- <- <-; split; reflexivity].
    destruct (iterable ob) eqn:Hi; [|injection H as <- <- <- <-; split; reflexivity].
    destruct (has_counter ob) eqn:Hk; [|injection H as <- <- <- <-; split; reflexivity].
    rewrite (Hc _ _ Hl Hk) in H. injection H as <- <- <- <-; split; reflexivity.
  - (* OIterNext *)
    destruct tl as [|[l pos] rest]; [injection H as <- <- <- <-; split; reflexivity|].
    destruct (lookup h l) as [ob|] eqn:Hl; [|injection H as <- <- <- <-; split; reflexivity].
    destruct (nth_error (iter_elems ob) pos); injection H as <- <- <- <-; split; reflexivity.
  - (* OIterDone *)
    destruct tl as [|[l pos] rest]; [injection H as <- <- <- <-; split; reflexivity|].
    destruct (lookup h l) as [ob|] eqn:Hl; [|injection H as <- <- <- <-; split; reflexivity].
    destruct (has_counter ob) eqn:Hk; [|injection H as <- <- <- <-; split; reflexivity].
    rewrite (Hc _ _ Hl Hk) in H. injection H as <- <- <- <-; split; reflexivity.
  - (* OCompare *)
    destruct (lookup h l); [destruct (lookup h l')|]; injection H as <- <- <- <-; split; reflexivity.
  - (* OHash *) destruct (lookup h l); injection H as <- <- <- <-; split; reflexivity.
  - (* OPrint *) injection H as <- <- <- <-; split; reflexivity.
  - (* OCall *)
    destruct (lookup h f) as [ob|]; [destruct ob|]; injection H as <- <- <- <-; split; reflexivity.
  - (* OStoreFreeze *)
    destruct (freeze (freeze_fuel h) h (VRef l)) as [h1|] eqn:Hf.
    + assert (h1 = h) by (eapply freeze_all_frozen; eauto). subst h1.
      injection H as <- <- <- <-. simpl. split; [apply flag_diff_same | reflexivity].
    + injection H as <- <- <- <-; split; reflexivity.
  - (* OMutate *)
    destruct (mutate h l m) as [h2| |] eqn:Hm; try (injection H as <- <- <- <-; split; reflexivity).
    destruct (lookup h l) as [ob|] eqn:Hl.
    + assert (h2 = h) by (eapply frozen_unchanged; eauto; eapply all_frozen_is_frozen; eauto). subst h2.
      injection H as <- <- <- <-. simpl. rewrite ?Hl. simpl. rewrite ?obj_eqb_refl, ?opt_obj_eqb_refl. split; reflexivity.
    + unfold mutate in Hm. rewrite Hl in Hm. discriminate.
  - (* OProgInit *) injection H as <- <- <- <-; split; reflexivity.
  - (* OPosition *) injection H as <- <- <- <-; split; reflexivity.
Qed.

Lemma set_nth_length {A} n (x : A) l : length (set_nth n x l) = length l.
Proof. revert n. induction l; intros [|n]; simpl; auto. Qed.

Lemma nth_set_nth_same {A} n (x : A) l y : nth_error l n = Some y -> nth_error (set_nth n x l) n = Some x.
Proof. revert n. induction l; intros [|n] H; simpl in *; try discriminate; auto. Qed.

Lemma nth_set_nth_other {A} n m (x : A) l : n <> m -> nth_error (set_nth n x l) m = nth_error l m.
Proof. revert n m. induction l; intros [|n] [|m] H; simpl; auto; try congruence. Qed.

(* frozen_ops_write_nothing *)
Lemma step_frozen : forall st tl o st' tl' r fp,
  all_frozen (sh_heap st) -> step st tl o = (st', tl', r, fp) ->
  wr fp = [] /\ sh_heap st' = sh_heap st /\ sh_tabs st' = sh_tabs st.
Proof.
  intros st tl o st' tl' r fp A H.
  assert (G : forall o', o' = o -> (forall fc pc, o <> OPosition fc pc) ->
              wr fp = [] /\ sh_heap st' = sh_heap st /\ sh_tabs st' = sh_tabs st).
  { intros o' -> Hn. assert (Hs : step st tl o = match step_heap (sh_heap st) tl o with
                                                (h', tl', r, fp) => (set_heap st h', tl', r, fp) end).
    { destruct o; try reflexivity. exfalso. eapply Hn. reflexivity. }
    rewrite Hs in H. destruct (step_heap (sh_heap st) tl o) as [[[h1 tl1] r1] fp1] eqn:Hh.
    destruct (step_heap_frozen _ _ _ _ _ _ _ A Hh) as [Hw ->].
    injection H as <- <- <- <-. simpl. auto. }
  destruct o; try (apply (G _ eq_refl); intros; discriminate).
  simpl in H.
  destruct (nth_error (sh_tabs st) fc); [|injection H as <- <- <- <-; auto].
  destruct (nth_error (sh_lnt st) fc); injection H as <- <- <- <-; auto.
Qed.

(* the Once cell: written at most by the first Position, with the decoding of
   the table; every Position returns the entry of the decoded table *)
Lemma once_cell_lemma : forall st tl fc pc st' tl' r fp tab,
  cache_ok st -> nth_error (sh_tabs st) fc = Some tab -> fc < length (sh_lnt st) ->
  step st tl (OPosition fc pc) = (st', tl', r, fp) ->
  cache_ok st' /\ nth_error (sh_lnt st') fc = Some (Some (decode tab)) /\
  r = (match nth_error (decode tab) pc with Some n => RNat n | None => RErr end) /\
  wr fp = [] /\ tl' = tl.
Proof.
  intros st tl fc pc st' tl' r fp tab C Ht Hlt H. simpl in H. rewrite Ht in H.
  destruct (nth_error (sh_lnt st) fc) as [cache|] eqn:Hc.
  2:{ apply nth_error_None in Hc. lia. }
  assert (Hdec : (match cache with Some d => d | None => decode tab end) = decode tab).
  { destruct cache as [d|]; auto. eapply C; eauto. }
  rewrite Hdec in H. injection H as <- <- <- <-. simpl. repeat split; auto.
  - intros fc' tab' d Ht' Hl'. simpl in *.
    destruct (Nat.eq_dec fc fc') as [<-|Hne].
    + rewrite (nth_set_nth_same _ _ _ _ Hc) in Hl'. congruence.
    + rewrite nth_set_nth_other in Hl' by auto. eapply C; eauto.
  - eapply nth_set_nth_same; eauto.
Qed.

(* two shared states that differ at most in which tables are already decoded *)
Definition sim (a b : shared) : Prop :=
  sh_heap a = sh_heap b /\ sh_tabs a = sh_tabs b /\ length (sh_lnt a) = length (sh_lnt b) /\
  cache_ok a /\ cache_ok b.

Lemma cache_ok_set_heap st h : cache_ok st -> cache_ok (set_heap st h).
Proof. intros C fc tab d H1 H2. eapply C; eauto. Qed.

Lemma step_sim : forall a b tl o a' tla ra fpa b' tlb rb fpb,
  sim a b -> all_frozen (sh_heap a) ->
  step a tl o = (a', tla, ra, fpa) -> step b tl o = (b', tlb, rb, fpb) ->
  ra = rb /\ tla = tlb /\ sim a' b' /\ sim a' b /\ sh_heap a' = sh_heap a.
Proof.
  intros a b tl o a' tla ra fpa b' tlb rb fpb [Hh [Ht [Hlen [Ca Cb]]]] A Ha Hb.
  assert (G : (forall fc pc, o <> OPosition fc pc) ->
              ra = rb /\ tla = tlb /\ sim a' b' /\ sim a' b /\ sh_heap a' = sh_heap a).
  { intros Hn.
    assert (Hs : forall st, step st tl o = match step_heap (sh_heap st) tl o with
                                           (h', tl', r, fp) => (set_heap st h', tl', r, fp) end).
    { intros st. destruct o; try reflexivity. exfalso. eapply Hn. reflexivity. }
    rewrite Hs in Ha, Hb. rewrite <- Hh in Hb.
    destruct (step_heap (sh_heap a) tl o) as [[[h1 tl1] r1] fp1] eqn:Hst.
    destruct (step_heap_frozen _ _ _ _ _ _ _ A Hst) as [_ ->].
    injection Ha as <- <- <- <-. injection Hb as <- <- <- <-.
    unfold sim; simpl. repeat split; auto using cache_ok_set_heap. }
  destruct o; try (apply G; intros; discriminate).
  simpl in Ha, Hb. rewrite <- Ht in Hb.
  destruct (nth_error (sh_tabs a) fc) as [tab|] eqn:Htab.
  2:{ injection Ha as <- <- <- <-. injection Hb as <- <- <- <-. unfold sim. repeat split; auto. }
  destruct (nth_error (sh_lnt a) fc) as [ca|] eqn:Hca; destruct (nth_error (sh_lnt b) fc) as [cb|] eqn:Hcb.
  - assert (Hda : (match ca with Some d => d | None => decode tab end) = decode tab).
    { destruct ca as [d|]; auto. eapply Ca; eauto. }
    assert (Hdb : (match cb with Some d => d | None => decode tab end) = decode tab).
    { destruct cb as [d|]; auto. eapply Cb; eauto. rewrite <- Ht. exact Htab. }
    rewrite Hda in Ha. rewrite Hdb in Hb.
    injection Ha as <- <- <- <-. injection Hb as <- <- <- <-.
    assert (Ca' : cache_ok {| sh_heap := sh_heap a; sh_tabs := sh_tabs a; sh_lnt := set_nth fc (Some (decode tab)) (sh_lnt a) |}).
    { intros fc' tab' d Ht' Hl'. simpl in *. destruct (Nat.eq_dec fc fc') as [<-|Hne].
      - rewrite (nth_set_nth_same _ _ _ _ Hca) in Hl'. congruence.
      - rewrite nth_set_nth_other in Hl' by auto. eapply Ca; eauto. }
    assert (Cb' : cache_ok {| sh_heap := sh_heap b; sh_tabs := sh_tabs a; sh_lnt := set_nth fc (Some (decode tab)) (sh_lnt b) |}).
    { intros fc' tab' d Ht' Hl'. simpl in *. destruct (Nat.eq_dec fc fc') as [<-|Hne].
      - rewrite (nth_set_nth_same _ _ _ _ Hcb) in Hl'. congruence.
      - rewrite nth_set_nth_other in Hl' by auto. eapply Cb; eauto. rewrite <- Ht. exact Ht'. }
    unfold sim; simpl. rewrite !set_nth_length. repeat split; auto.
  - apply nth_error_None in Hcb. assert (fc < length (sh_lnt a)) by (apply nth_error_Some; congruence). lia.
  - apply nth_error_None in Hca. assert (fc < length (sh_lnt b)) by (apply nth_error_Some; congruence). lia.
  - injection Ha as <- <- <- <-. injection Hb as <- <- <- <-. unfold sim. repeat split; auto.
Qed.

(* ------------------------------------------------------------ race freedom *)
Lemma run_no_writes : forall sched st ts,
  all_frozen (sh_heap st) -> forall e, In e (run sched st ts) -> wr (ev_fp e) = [].
Proof.
  induction sched as [|[t o] r IH]; intros st ts A e He; simpl in He; [contradiction|].
  destruct (step st (ts t) o) as [[[st' tl'] res] fp] eqn:Hs.
  destruct (step_frozen _ _ _ _ _ _ _ A Hs) as [Hw [Hh _]].
  destruct He as [<-|He]; [exact Hw|].
  eapply IH; [|exact He]. rewrite Hh. exact A.
Qed.

Lemma no_writes_no_conflict a b : wr a = [] -> wr b = [] -> conflict a b = false.
Proof. unfold conflict. intros -> ->. reflexivity. Qed.

Lemma race_free_lemma : forall sched st ts,
  all_frozen (sh_heap st) -> race_free (run sched st ts).
Proof.
  intros sched st ts A i j ei ej Hi Hj _.
  apply no_writes_no_conflict; eapply run_no_writes; eauto using nth_error_In.
Qed.

(* -------------------------------------------------------- solo equivalence *)
Lemma solo_equivalence_gen : forall sched a b ts t,
  sim a b -> all_frozen (sh_heap a) ->
  transcript t (run sched a ts) = solo (ops_of t sched) b (ts t).
Proof.
  induction sched as [|[t' o] r IH]; intros a b ts t S A; [reflexivity|].
  unfold transcript, ops_of in *. simpl.
  destruct (step a (ts t') o) as [[[a' tla] ra] fpa] eqn:Ha.
  simpl. destruct (Nat.eqb t' t) eqn:Ht.
  - apply Nat.eqb_eq in Ht. subst t'. simpl.
    destruct (step b (ts t) o) as [[[b' tlb] rb] fpb] eqn:Hb.
    destruct (step_sim _ _ _ _ _ _ _ _ _ _ _ _ S A Ha Hb) as [-> [-> [S' [_ Hh]]]].
    f_equal. rewrite (IH a' b' (upd ts t tlb) t S').
    + unfold upd. rewrite Nat.eqb_refl. reflexivity.
    + rewrite Hh. exact A.
  - destruct (step b (ts t') o) as [[[b' tlb] rb] fpb] eqn:Hb.
    destruct (step_sim _ _ _ _ _ _ _ _ _ _ _ _ S A Ha Hb) as [_ [_ [_ [S' Hh]]]].
    rewrite (IH a' b (upd ts t' tla) t S').
    + unfold upd. rewrite Nat.eqb_sym, Ht. reflexivity.
    + rewrite Hh. exact A.
Qed.

Lemma sim_refl st : cache_ok st -> sim st st.
Proof. intros C. unfold sim. auto. Qed.

Lemma solo_equivalence_lemma : forall sched st ts t,
  all_frozen (sh_heap st) -> cache_ok st ->
  transcript t (run sched st ts) = solo (ops_of t sched) st (ts t).
Proof. intros. apply solo_equivalence_gen; auto using sim_refl. Qed.

(* necessity of freezing: two threads that start iterating over the same
   UNFROZEN list, dict or set conflict (both increment itercount) *)
Lemma unfrozen_iteration_conflicts_lemma : forall st ts t1 t2 l o,
  lookup (sh_heap st) l = Some o -> has_counter o = true -> flag o = false ->
  t1 <> t2 ->
  race_freeb (run [(t1, OIterBegin l); (t2, OIterBegin l)] st ts) = false.
Proof.
  intros st ts t1 t2 l o Hl Hk Hf Hne.
  assert (Hit : iterable o = true) by (destruct o; simpl in *; auto; discriminate).
  assert (Hk1 : has_counter (bump true o) = true) by (destruct o; simpl in *; auto).
  assert (Hi1 : iterable (bump true o) = true) by (destruct o; simpl in *; auto).
  assert (Hf1 : flag (bump true o) = false) by (destruct o; simpl in *; auto).
  assert (Hlt : l < length (sh_heap st)) by (apply nth_error_Some; unfold lookup in Hl; congruence).
  simpl. rewrite Hl, Hit, Hk, Hf. simpl.
  rewrite (C04.ProofsMut.lookup_update_same _ _ _ Hlt), Hi1, Hk1, Hf1. simpl.
  apply Nat.eqb_neq in Hne. rewrite Hne. simpl.
  unfold conflict, mem_loc. simpl. rewrite Nat.eqb_refl. simpl. rewrite ?orb_true_r. reflexivity.
Qed.
