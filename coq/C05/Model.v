(* C05/Model.v -- the shared-use machine: each operation of the repertoire as a
   function  shared state x thread-local state -> shared state x thread-local
   state x result x footprint,  with the guards the code has:

     List.Iterate / hashtable.iterate     if !frozen { itercount++ }
     listIterator.Done / keyIterator.Done if !frozen { itercount-- }
     List.Freeze / hashtable.freeze / Struct.Freeze / Function.Freeze
                                          if !frozen { frozen = true; descend }   (C04.Model.freeze)
     checkMutable                         reads frozen and itercount, writes nothing
     mutators                             write contents only after checkMutable passed (C04.Model.mutate)
     Funcode.Position                     lntOnce.Do(decodeLNT); then reads lnt
     Program.Init                         builds a fresh Module per call; the Program is only read

   and concurrent executions: a schedule is a list of (thread, operation); the
   shared state is threaded through the schedule in order, the thread-local
   state (the stack of open iterators) per thread. *)
From Coq Require Import List Arith Bool ZArith.
From SV Require Import C04.Heap C04.Model C04.Spec C05.Footprint.
Import ListNotations.

Record shared := {
  sh_heap : heap;
  sh_tabs : list (list nat);              (* per Funcode: the encoded line table (immutable) *)
  sh_lnt : list (option (list nat))       (* per Funcode: the decoded table, once decoded *)
}.

Definition tls := list (loc * nat).       (* open iterators: object, position *)

(* the sequence an iterator yields *)
Definition iter_elems (o : obj) : list val :=
  match o with
  | OList _ _ es | OTuple es | OSet _ _ es => es
  | ODict _ _ kvs => map fst kvs
  | _ => []
  end.

Definition iterable (o : obj) : bool :=
  match o with OList _ _ _ | OTuple _ | OSet _ _ _ | ODict _ _ _ => true | _ => false end.

Definition has_counter (o : obj) : bool := mutable_kind o.

Definition bump (up : bool) (o : obj) : obj :=
  let f n := if up then S n else pred n in
  match o with
  | OList fr ic es => OList fr (f ic) es
  | ODict fr ic kvs => ODict fr (f ic) kvs
  | OSet fr ic ks => OSet fr (f ic) ks
  | o => o
  end.

(* decodeLNT: delta decoding *)
Fixpoint decode_from (acc : nat) (tab : list nat) : list nat :=
  match tab with [] => [] | d :: r => (acc + d) :: decode_from (acc + d) r end.
Definition decode (tab : list nat) : list nat := decode_from 0 tab.

Fixpoint set_nth {A} (n : nat) (x : A) (l : list A) : list A :=
  match l, n with
  | [], _ => []
  | _ :: r, O => x :: r
  | y :: r, S k => y :: set_nth k x r
  end.

Definition flag_diff (h h' : heap) : list location :=
  flat_map (fun i => match lookup h i, lookup h' i with
                     | Some a, Some b => if Bool.eqb (flag a) (flag b) then [] else [LObj i FFrozen]
                     | _, _ => []
                     end) (seq 0 (length h)).

Definition freeze_fuel (h : heap) : nat := (length h + 1) * (length h + 2).

Definition cell_contents (h : heap) (v : val) : list val :=
  match v with
  | VRef c => match lookup h c with Some (OCell (Some x)) => [x] | _ => [] end
  | VAtom _ => []
  end.

Definition set_heap (st : shared) (h : heap) : shared :=
  {| sh_heap := h; sh_tabs := sh_tabs st; sh_lnt := sh_lnt st |}.

Definition step_heap (h : heap) (tl : tls) (o : op) : heap * tls * result * footprint :=
  match o with
  | OLen l =>
      match lookup h l with
      | Some ob => (h, tl, RNat (length (iter_elems ob)), fp_reads [LObj l FElems])
      | None => (h, tl, RErr, fp_reads [])
      end
  | OIndex l i =>
      match lookup h l with
      | Some ob => (h, tl, match nth_error (iter_elems ob) i with Some v => RVal v | None => RErr end,
                    fp_reads [LObj l FElems])
      | None => (h, tl, RErr, fp_reads [])
      end
  | OContains l a =>
      match lookup h l with
      | Some ob => (h, tl, RBool (existsb (fun e => veq e a) (iter_elems ob)), fp_reads [LObj l FElems])
      | None => (h, tl, RErr, fp_reads [])
      end
  | OIterBegin l =>
      match lookup h l with
      | Some ob =>
          if iterable ob then
            if has_counter ob then
              if flag ob then (h, (l, 0) :: tl, RUnit, fp_reads [LObj l FFrozen])
              else (update h l (bump true ob), (l, 0) :: tl, RUnit,
                    {| rd := [LObj l FFrozen; LObj l FIter]; wr := [LObj l FIter]; sy := [] |})
            else (h, (l, 0) :: tl, RUnit, fp_reads [])
          else (h, tl, RErr, fp_reads [])
      | None => (h, tl, RErr, fp_reads [])
      end
  | OIterNext =>
      match tl with
      | (l, pos) :: r =>
          match lookup h l with
          | Some ob =>
              match nth_error (iter_elems ob) pos with
              | Some v => (h, (l, S pos) :: r, RVal v, fp_reads [LObj l FElems])
              | None => (h, tl, RStop, fp_reads [LObj l FElems])
              end
          | None => (h, tl, RErr, fp_reads [])
          end
      | [] => (h, tl, RErr, fp_reads [])
      end
  | OIterDone =>
      match tl with
      | (l, _) :: r =>
          match lookup h l with
          | Some ob =>
              if has_counter ob then
                if flag ob then (h, r, RUnit, fp_reads [LObj l FFrozen])
                else (update h l (bump false ob), r, RUnit,
                      {| rd := [LObj l FFrozen; LObj l FIter]; wr := [LObj l FIter]; sy := [] |})
              else (h, r, RUnit, fp_reads [])
          | None => (h, r, RErr, fp_reads [])
          end
      | [] => (h, tl, RErr, fp_reads [])
      end
  | OCompare l l' =>
      match lookup h l, lookup h l' with
      | Some a, Some b => (h, tl, RBool (list_eqb val_eqb (children a) (children b)),
                           fp_reads [LObj l FElems; LObj l' FElems])
      | _, _ => (h, tl, RErr, fp_reads [])
      end
  | OHash l =>
      match lookup h l with
      | Some ob => (h, tl, if mutable_kind ob then RErr else RUnit, fp_reads [LObj l FElems])
      | None => (h, tl, RErr, fp_reads [])
      end
  | OPrint l =>
      let rs := reach_set h [VRef l] in
      (h, tl, RLocs rs, fp_reads (map (fun x => LObj x FElems) rs))
  | OCall f =>
      match lookup h f with
      | Some (OFunc _ ds fvs _) =>
          (h, tl, RVals (ds ++ flat_map (cell_contents h) fvs),
           fp_reads (LObj f FElems :: map (fun x => LObj x FElems) (refs fvs)))
      | _ => (h, tl, RErr, fp_reads [])
      end
  | OStoreFreeze l =>
      let rs := reach_set h [VRef l] in
      match freeze (freeze_fuel h) h (VRef l) with
      | Some h' => (h', tl, RUnit,
                    {| rd := map (fun x => LObj x FFrozen) rs ++ map (fun x => LObj x FElems) rs;
                       wr := flag_diff h h'; sy := [] |})
      | None => (h, tl, RErr, fp_reads [])
      end
  | OMutate l m =>
      let r := [LObj l FFrozen; LObj l FIter; LObj l FElems] in
      match mutate h l m with
      | Ok h2 => (h2, tl, RUnit,
                  {| rd := r;
                     wr := if opt_eqb obj_eqb (lookup h2 l) (lookup h l) then [] else [LObj l FElems];
                     sy := [] |})
      | _ => (h, tl, RErr, fp_reads r)
      end
  | OProgInit => (h, tl, RUnit, fp_reads [LProg])
  | OPosition _ _ => (h, tl, RErr, fp_reads [])      (* handled by step *)
  end.

Definition step (st : shared) (tl : tls) (o : op) : shared * tls * result * footprint :=
  match o with
  | OPosition fc pc =>
      match nth_error (sh_tabs st) fc, nth_error (sh_lnt st) fc with
      | Some tab, Some cache =>
          (* lntOnce.Do(decodeLNT): the body runs iff the table was not decoded yet;
             afterwards fn.lnt is read *)
          let dec := match cache with Some d => d | None => decode tab end in
          let st' := {| sh_heap := sh_heap st; sh_tabs := sh_tabs st; sh_lnt := set_nth fc (Some dec) (sh_lnt st) |} in
          (st', tl, match nth_error dec pc with Some n => RNat n | None => RErr end,
           {| rd := [LProg]; wr := []; sy := [LLnt fc] |})
      | _, _ => (st, tl, RErr, fp_reads [LProg])
      end
  | _ =>
      match step_heap (sh_heap st) tl o with
      | (h', tl', r, fp) => (set_heap st h', tl', r, fp)
      end
  end.

(* ------------------------------------------------------ concurrent executions *)

Definition tstate := nat -> tls.
Definition upd (ts : tstate) (t : nat) (v : tls) : tstate := fun t' => if Nat.eqb t' t then v else ts t'.

Fixpoint run (sched : list (nat * op)) (st : shared) (ts : tstate) : list event :=
  match sched with
  | [] => []
  | (t, o) :: r =>
      match step st (ts t) o with
      | (st', tl', res, fp) =>
          {| ev_thread := t; ev_op := o; ev_res := res; ev_fp := fp |} :: run r st' (upd ts t tl')
      end
  end.

(* one thread alone *)
Fixpoint solo (ops : list op) (st : shared) (tl : tls) : list result :=
  match ops with
  | [] => []
  | o :: r =>
      match step st tl o with
      | (st', tl', res, _) => res :: solo r st' tl'
      end
  end.
