(* C05/ProofsLocal.v -- threads with private mutable state.

   Proofs.v treats a heap that consists of shared, frozen objects only.  Real
   threads also own values that are NOT frozen (their locals, the values of the
   module they are executing) and may store references to shared values in them.
   Here every object has an owner: None = shared (reachable from a finished
   module: frozen, and referring to shared objects only), Some t = private to
   thread t (referring to shared objects or to t's own).  A thread operates on
   objects it can reach.  Then every write lands in the writer's own objects and
   every read in own or shared objects, so steps of different threads never
   conflict -- whatever the private objects are and whatever is done to them. *)
From Coq Require Import List Arith Bool ZArith Lia Relations.
From SV Require Import C04.Heap C04.Model C04.Spec C04.ProofsMut C04.ProofsFreeze C04.ProofsSpec
  C05.Footprint C05.Spec C05.Model C05.Proofs.
Import ListNotations.

Definition owner := loc -> option nat.

Definition acc (ow : owner) (t : nat) (l : loc) : Prop := ow l = None \/ ow l = Some t.

Record wf (ow : owner) (h : heap) : Prop := {
  wf_shared_frozen : forall l o, lookup h l = Some o -> ow l = None -> flagged o = true -> flag o = true;
  wf_shared_closed : forall l o c, lookup h l = Some o -> ow l = None -> In (VRef c) (children o) -> ow c = None;
  wf_owned_closed : forall l o t c, lookup h l = Some o -> ow l = Some t -> In (VRef c) (children o) -> acc ow t c
}.

Lemma acc_child ow h t l o c :
  wf ow h -> acc ow t l -> lookup h l = Some o -> In (VRef c) (children o) -> acc ow t c.
Proof.
  intros W [A|A] Hl Hc.
  - left. eapply wf_shared_closed; eauto.
  - eapply wf_owned_closed; eauto.
Qed.

Lemma acc_reach ow h t a b : wf ow h -> reach h a b -> acc ow t a -> acc ow t b.
Proof.
  intros W Hp. induction Hp as [x | x y z Hxy Hyz IH]; intros A; auto.
  apply IH. destruct Hxy as [o [Hl Hc]]. eapply acc_child; eauto.
Qed.

(* wf only looks at objects through lookup: changing one OWNED object to one
   whose references are accessible to its owner keeps it *)
Lemma wf_change_owned ow h h2 l t :
  wf ow h -> ow l = Some t ->
  (forall l', l' <> l -> lookup h2 l' = lookup h l') ->
  (forall o2 c, lookup h2 l = Some o2 -> In (VRef c) (children o2) -> acc ow t c) ->
  wf ow h2.
Proof.
  intros W Ho Hsame Hnew. constructor.
  - intros l' o Hl Hs Hfl. assert (l' <> l) by congruence.
    rewrite Hsame in Hl by auto. eapply wf_shared_frozen; eauto.
  - intros l' o c Hl Hs Hc. assert (l' <> l) by congruence.
    rewrite Hsame in Hl by auto. eapply wf_shared_closed; eauto.
  - intros l' o t' c Hl Hs Hc. destruct (Nat.eq_dec l' l) as [->|Hne].
    + assert (t' = t) by congruence. subst. eapply Hnew; eauto.
    + rewrite Hsame in Hl by auto. eapply wf_owned_closed; eauto.
Qed.

(* Freeze keeps wf: it only sets flags *)
Lemma wf_ext ow h h' : wf ow h -> ext h h' -> wf ow h'.
Proof.
  intros W E. constructor.
  - intros l o' Hl' Hs Hfl. destruct (ext_back _ _ _ _ E Hl') as [o [Hl [S F]]].
    apply F. eapply wf_shared_frozen; eauto. rewrite <- (shape_eq_flagged _ _ S). exact Hfl.
  - intros l o' c Hl' Hs Hc. destruct (ext_back _ _ _ _ E Hl') as [o [Hl [S F]]].
    eapply wf_shared_closed; eauto. rewrite <- (shape_eq_children _ _ S). exact Hc.
  - intros l o' t c Hl' Hs Hc. destruct (ext_back _ _ _ _ E Hl') as [o [Hl [S F]]].
    eapply wf_owned_closed; eauto. rewrite <- (shape_eq_children _ _ S). exact Hc.
Qed.

(* ------------------------------------------------ what a mutator can store *)
Definition payload (m : mop) : list val :=
  match m with
  | LAppend v | GoLAppend v | LInsert _ v | LSetIndex _ v | GoLSetIndex _ v
  | DSetdefault _ v | DSetKey _ v | GoDSetKey _ v | XSetField _ v => [v]
  | LExtend vs | LInplaceAdd vs => vs
  | DPop _ (Some d) => [d]
  | DUpdate kvs | DInplacePipe kvs => map snd kvs
  | _ => []
  end.

Definition is_ref (v : val) : Prop := match v with VRef _ => True | VAtom _ => False end.

Lemma in_remove_at x i es : In x (remove_at i es) -> In x es.
Proof. revert i. induction es as [|e r IH]; intros [|i] H; simpl in *; auto. destruct H; auto. right. eapply IH; eauto. Qed.

Lemma in_remove_first a es r x : remove_first a es = Some r -> In x r -> In x es.
Proof.
  revert r. induction es as [|e es IH]; intros r H Hx; simpl in H; [discriminate|].
  destruct (veq e a).
  - injection H as <-. right. exact Hx.
  - destruct (remove_first a es) as [r'|]; [|discriminate]. injection H as <-.
    destruct Hx as [<-|Hx]; [left; auto | right; eapply IH; eauto].
Qed.

Lemma in_insert_at x i v es : In x (insert_at i v es) -> x = v \/ In x es.
Proof.
  revert es. induction i as [|i IH]; intros es H; simpl in H.
  - destruct H; auto.
  - destruct es as [|e r]; simpl in H.
    + destruct H as [H|[]]; auto.
    + destruct H as [H|H]; [right; left; auto|]. destruct (IH _ H); auto. right. right. auto.
Qed.

Lemma in_set_at x i v es : In x (set_at i v es) -> x = v \/ In x es.
Proof.
  revert i. induction es as [|e r IH]; intros [|i] H; simpl in *; auto.
  - destruct H; auto.
  - destruct H as [H|H]; [right; left; auto|]. destruct (IH _ H); auto.
Qed.

Lemma in_ht_set x k v kvs : In x (flat_pairs (ht_set k v kvs)) -> x = VAtom k \/ x = v \/ In x (flat_pairs kvs).
Proof.
  induction kvs as [|[k' v'] r IH]; simpl; intros H.
  - destruct H as [H|[H|[]]]; auto.
  - destruct (veq k' k); simpl in H.
    + destruct H as [H|[H|H]]; auto.
    + destruct H as [H|[H|H]]; auto. destruct (IH H) as [H1|[H1|H1]]; auto.
Qed.

Lemma in_ht_del x k kvs : In x (flat_pairs (ht_del k kvs)) -> In x (flat_pairs kvs).
Proof.
  induction kvs as [|[k' v'] r IH]; simpl; intros H; auto.
  destruct (veq k' k); simpl in H; auto.
  destruct H as [H|[H|H]]; auto.
Qed.

Lemma in_ht_set_all x ups kvs :
  In x (flat_pairs (ht_set_all ups kvs)) -> ~ is_ref x \/ In x (map snd ups) \/ In x (flat_pairs kvs).
Proof.
  revert kvs. induction ups as [|[k v] r IH]; intros kvs H; simpl in H; auto.
  destruct (IH _ H) as [H1|[H1|H1]]; auto.
  - right. left. right. exact H1.
  - destruct (in_ht_set _ _ _ _ H1) as [->|[->|H2]]; auto.
    right. left. left. reflexivity.
Qed.

Lemma in_set_ins x k ks : In x (set_ins k ks) -> x = VAtom k \/ In x ks.
Proof.
  unfold set_ins. destruct (set_has k ks); auto. intros H. apply in_app_or in H.
  destruct H as [H|[H|[]]]; auto.
Qed.

Lemma in_set_del x k ks : In x (set_del k ks) -> In x ks.
Proof.
  unfold set_del. destruct (remove_first k ks) eqn:Hr; auto. intros H. eapply in_remove_first; eauto.
Qed.

Lemma in_set_ins_all x ks s : In x (set_ins_all ks s) -> ~ is_ref x \/ In x s.
Proof.
  revert s. induction ks as [|k r IH]; intros s H; simpl in H; auto.
  destruct (IH _ H) as [H1|H1]; auto.
  destruct (in_set_ins _ _ _ H1) as [->|H2]; auto.
Qed.

Lemma in_tl {A} (x : A) l : In x (tl l) -> In x l.
Proof. destruct l; simpl; auto. Qed.

(* after a successful mutator, every reference held by the object was there
   before or is part of the operation's payload *)
Lemma mutate_children : forall h l m h2 o,
  mutate h l m = Ok h2 -> lookup h l = Some o ->
  (forall l', l' <> l -> lookup h2 l' = lookup h l') /\
  exists o2, lookup h2 l = Some o2 /\
    forall c, In (VRef c) (children o2) -> In (VRef c) (children o) \/ In (VRef c) (payload m).
Proof.
  intros h l m h2 o Hm Hl.
  split; [apply (proj2 (mutate_local _ _ _ _ Hm))|].
  assert (Hlt : l < length h) by (eapply lookup_lt; eauto).
  assert (Hsame : h2 = h -> exists o2, lookup h2 l = Some o2 /\
            forall c, In (VRef c) (children o2) -> In (VRef c) (children o) \/ In (VRef c) (payload m)).
  { intros ->. exists o. auto. }
  assert (Hupd : forall o2, h2 = update h l o2 ->
            (forall c, In (VRef c) (children o2) -> In (VRef c) (children o) \/ In (VRef c) (payload m)) ->
            exists o2, lookup h2 l = Some o2 /\
            forall c, In (VRef c) (children o2) -> In (VRef c) (children o) \/ In (VRef c) (payload m)).
  { intros o2 -> H. exists o2. split; auto. apply lookup_update_same. exact Hlt. }
  unfold mutate in Hm. rewrite Hl in Hm.
  destruct o; try (destruct m; discriminate);
    unfold mutate_list, mutate_dict, mutate_set, with_check in Hm;
    destruct m; try discriminate;
    repeat match type of Hm with
           | context [match ?c with _ => _ end] => destruct c eqn:?; try discriminate
           end;
    injection Hm as <-;
    first [ apply Hsame; reflexivity
          | eapply Hupd; [reflexivity|]; simpl; intros c Hc;
            repeat match goal with
                   | H : context [let (_, _) := ?p in _] |- _ => destruct p
                   | H : In _ (_ ++ _) |- _ => apply in_app_or in H; destruct H
                   | H : In _ [_] |- _ => destruct H as [H|[]]
                   | H : In _ [] |- _ => destruct H
                   | H : In _ (remove_at _ _) |- _ => apply in_remove_at in H
                   | H : In _ (insert_at _ _ _) |- _ => apply in_insert_at in H; destruct H
                   | H : In _ (set_at _ _ _) |- _ => apply in_set_at in H; destruct H
                   | H : In _ (flat_pairs (ht_set _ _ _)) |- _ => apply in_ht_set in H; destruct H as [H|[H|H]]
                   | H : In _ (flat_pairs (ht_del _ _)) |- _ => apply in_ht_del in H
                   | H : In _ (flat_pairs (ht_set_all _ _)) |- _ => apply in_ht_set_all in H; destruct H as [H|[H|H]]
                   | H : In _ (set_ins _ _) |- _ => apply in_set_ins in H; destruct H
                   | H : In _ (set_del _ _) |- _ => apply in_set_del in H
                   | H : In _ (set_ins_all _ _) |- _ => apply in_set_ins_all in H; destruct H
                   | H : ~ is_ref (VRef _) |- _ => exfalso; apply H; exact I
                   | H : VRef _ = VAtom _ |- _ => discriminate
                   end;
            subst; simpl; auto;
            try (match goal with H : remove_first _ _ = Some _ |- _ => left; eapply in_remove_first; eauto end) ].
Qed.

(* ------------------------------------------------------- one step, locally *)
Definition tls_ok (ow : owner) (t : nat) (tl : tls) : Prop :=
  forall l p, In (l, p) tl -> acc ow t l.

Definition op_ok (ow : owner) (t : nat) (o : op) : Prop :=
  match o with
  | OLen l | OIndex l _ | OContains l _ | OIterBegin l | OHash l | OPrint l | OCall l | OStoreFreeze l => acc ow t l
  | OCompare l l' => acc ow t l /\ acc ow t l'
  | OMutate l m => acc ow t l /\ forall c, In (VRef c) (payload m) -> acc ow t c
  | OIterNext | OIterDone | OProgInit | OPosition _ _ => True
  end.

(* writes land in the thread's own objects, reads in own or shared objects *)
Definition fp_local (ow : owner) (t : nat) (fp : footprint) : Prop :=
  (forall x, In x (wr fp) -> exists l f, x = LObj l f /\ ow l = Some t) /\
  (forall l f, In (LObj l f) (rd fp) -> acc ow t l).

Lemma fp_local_reads ow t r :
  (forall l f, In (LObj l f) r -> acc ow t l) -> fp_local ow t (fp_reads r).
Proof. intros H. split; simpl; auto. intros x []. Qed.

Lemma children_bump b o : children (bump b o) = children o.
Proof. destruct o; reflexivity. Qed.

Lemma shared_counter_frozen ow h l ob :
  wf ow h -> ow l = None -> lookup h l = Some ob -> has_counter ob = true -> flag ob = true.
Proof.
  intros W Ho Hl Hk. eapply wf_shared_frozen; eauto. destruct ob; simpl in *; auto; discriminate.
Qed.

Lemma unflagged_flag o : flagged o = false -> flag o = false.
Proof. destruct o; simpl; auto; discriminate. Qed.

Lemma in_flag_diff x h h' :
  In x (flag_diff h h') ->
  exists i a b, x = LObj i FFrozen /\ lookup h i = Some a /\ lookup h' i = Some b /\ flag a <> flag b.
Proof.
  unfold flag_diff. intros H. apply in_flat_map in H. destruct H as [i [_ H]].
  destruct (lookup h i) as [a|] eqn:Ha; [|destruct H].
  destruct (lookup h' i) as [b|] eqn:Hb; [|destruct H].
  destruct (Bool.eqb (flag a) (flag b)) eqn:He; [destruct H|].
  destruct H as [<-|[]]. exists i, a, b. repeat split; auto.
  intros Heq. rewrite Heq, eqb_reflx in He. discriminate.
Qed.

Lemma reach_set_acc ow h t l x :
  wf ow h -> acc ow t l -> In x (reach_set h [VRef l]) -> acc ow t x.
Proof.
  intros W A Hx. apply memb_In in Hx. apply reach_set_sound_lemma in Hx.
  destruct Hx as [r [[Hr|[]] Hp]]. injection Hr as <-. eapply acc_reach; eauto.
Qed.

Lemma fp_local_nil ow t : fp_local ow t (fp_reads []).
Proof. split; simpl; [intros x [] | intros l f []]. Qed.

Lemma fp_local_one ow t l f : acc ow t l -> fp_local ow t (fp_reads [LObj l f]).
Proof.
  intros A. split; simpl; [intros x []|]. intros l0 f0 [Heq|[]]. injection Heq as <- _. exact A.
Qed.

Ltac done3 :=
  split; [eassumption | split; [eassumption | first [apply fp_local_nil | apply fp_local_one; assumption]]].

Lemma step_heap_local : forall ow t h tl o h' tl' r fp,
  wf ow h -> tls_ok ow t tl -> op_ok ow t o ->
  step_heap h tl o = (h', tl', r, fp) ->
  wf ow h' /\ tls_ok ow t tl' /\ fp_local ow t fp.
Proof.
  intros ow t h tl o h' tl' r fp W T K H.
  assert (Hone : forall l f l0 f0, In (LObj l0 f0) [LObj l f] -> acc ow t l -> acc ow t l0).
  { intros l f l0 f0 [Heq|[]] A. injection Heq as <- _. exact A. }
  destruct o; simpl in H, K.
  - (* OLen *)
    destruct (lookup h l); injection H as <- <- <- <-;
      (split; [exact W|split; [exact T|]]); auto using fp_local_nil, fp_local_one.
  - (* OIndex *)
    destruct (lookup h l); injection H as <- <- <- <-;
      (split; [exact W|split; [exact T|]]); auto using fp_local_nil, fp_local_one.
  - (* OContains *)
    destruct (lookup h l); injection H as <- <- <- <-;
      (split; [exact W|split; [exact T|]]); auto using fp_local_nil, fp_local_one.
  - (* OIterBegin *)
    assert (Tpush : tls_ok ow t ((l, 0) :: tl)).
    { intros l0 p [Heq|Hin]; [injection Heq as <- _; exact K | eapply T; eauto]. }
    destruct (lookup h l) as [ob|] eqn:Hl.
    2:{ injection H as <- <- <- <-. done3. }
    destruct (iterable ob).
    2:{ injection H as <- <- <- <-. done3. }
    destruct (has_counter ob) eqn:Hk.
    2:{ injection H as <- <- <- <-. done3. }
    destruct (flag ob) eqn:Hf.
    + injection H as <- <- <- <-. done3.
    + assert (Ho : ow l = Some t).
      { destruct K as [Kn|Ks]; auto. rewrite (shared_counter_frozen _ _ _ _ W Kn Hl Hk) in Hf. discriminate. }
      assert (Hlt : l < length h) by (eapply lookup_lt; eauto).
      injection H as <- <- <- <-. split; [|split; [exact Tpush|]].
      * eapply wf_change_owned; eauto.
        -- intros l' Hne. apply lookup_update_other. exact Hne.
        -- intros o2 c Hl2 Hc. rewrite lookup_update_same in Hl2 by exact Hlt. injection Hl2 as <-.
           rewrite children_bump in Hc. eapply acc_child; eauto.
      * split; simpl.
        -- intros x [<-|[]]. eauto.
        -- intros l1 f1 [Heq|[Heq|[]]]; injection Heq as <- _; exact K.
  - (* OIterNext *)
    destruct tl as [|[l pos] rest].
    { injection H as <- <- <- <-. done3. }
    assert (A : acc ow t l) by (eapply T; left; reflexivity).
    destruct (lookup h l) as [ob|].
    2:{ injection H as <- <- <- <-. done3. }
    assert (Tnext : forall q, tls_ok ow t ((l, q) :: rest)).
    { intros q l1 p1 [Heq|Hin]; [injection Heq as <- _; exact A | eapply T; right; eauto]. }
    destruct (nth_error (iter_elems ob) pos); injection H as <- <- <- <-.
    + split; [exact W|]. split; [apply Tnext|]. apply fp_local_one; exact A.
    + split; [exact W|]. split; [exact T|]. apply fp_local_one; exact A.
  - (* OIterDone *)
    destruct tl as [|[l pos] rest].
    { injection H as <- <- <- <-. done3. }
    assert (A : acc ow t l) by (eapply T; left; reflexivity).
    assert (Tpop : tls_ok ow t rest) by (intros l0 p Hin; eapply T; right; eauto).
    destruct (lookup h l) as [ob|] eqn:Hl.
    2:{ injection H as <- <- <- <-. done3. }
    destruct (has_counter ob) eqn:Hk.
    2:{ injection H as <- <- <- <-. done3. }
    destruct (flag ob) eqn:Hf.
    + injection H as <- <- <- <-. done3.
    + assert (Ho : ow l = Some t).
      { destruct A as [Kn|Ks]; auto. rewrite (shared_counter_frozen _ _ _ _ W Kn Hl Hk) in Hf. discriminate. }
      assert (Hlt : l < length h) by (eapply lookup_lt; eauto).
      injection H as <- <- <- <-. split; [|split; [exact Tpop|]].
      * eapply wf_change_owned; eauto.
        -- intros l' Hne. apply lookup_update_other. exact Hne.
        -- intros o2 c Hl2 Hc. rewrite lookup_update_same in Hl2 by exact Hlt. injection Hl2 as <-.
           rewrite children_bump in Hc. eapply acc_child; eauto.
      * split; simpl.
        -- intros x [<-|[]]. eauto.
        -- intros l1 f1 [Heq|[Heq|[]]]; injection Heq as <- _; exact A.
  - (* OCompare *)
    destruct K as [K1 K2].
    destruct (lookup h l); [destruct (lookup h l')|]; injection H as <- <- <- <-; try done3.
    split; [exact W|]. split; [exact T|]. split; simpl; [intros x []|].
    intros l1 f1 [Heq|[Heq|[]]]; injection Heq as <- _; auto.
  - (* OHash *)
    destruct (lookup h l); injection H as <- <- <- <-; done3.
  - (* OPrint *)
    injection H as <- <- <- <-. split; [exact W|]. split; [exact T|]. split; simpl; [intros x []|].
    intros l1 f1 Hin. apply in_map_iff in Hin. destruct Hin as [x [Heq Hx]]. injection Heq as <- _.
    eapply reach_set_acc; eauto.
  - (* OCall *)
    destruct (lookup h f) as [ob|] eqn:Hl.
    2:{ injection H as <- <- <- <-. done3. }
    destruct ob; injection H as <- <- <- <-; try done3.
    split; [exact W|]. split; [exact T|]. split; simpl; [intros x []|].
    intros l1 f1 [Heq|Hin]; [injection Heq as <- _; exact K|].
    apply in_map_iff in Hin. destruct Hin as [x [Heq Hx]]. injection Heq as <- _.
    apply In_refs in Hx. eapply acc_child; eauto. simpl. apply in_or_app. right. exact Hx.
  - (* OStoreFreeze *)
    destruct (freeze (freeze_fuel h) h (VRef l)) as [h1|] eqn:Hf.
    2:{ injection H as <- <- <- <-. done3. }
    assert (E := freeze_ext_lemma _ _ _ _ Hf).
    injection H as <- <- <- <-. split; [eapply wf_ext; eauto|]. split; [exact T|]. split; simpl.
    + intros x Hx. destruct (in_flag_diff _ _ _ Hx) as [i [a [b [-> [Ha [Hb Hne]]]]]].
      exists i, FFrozen. split; auto.
      destruct (proj2 E i a Ha) as [b' [Hb' [Sh Fl]]]. assert (b' = b) by congruence. subst b'.
      destruct (ow i) as [t'|] eqn:Hoi.
      * destruct (Nat.eq_dec t' t) as [->|Hnt]; auto.
        exfalso. apply Hne.
        assert (Hnr : ~ reachv h (VRef l) i).
        { simpl. intros Hr. destruct (acc_reach _ _ _ _ _ W Hr K) as [A|A]; congruence. }
        rewrite (freeze_frame_val _ _ _ _ Hf i Hnr) in Hb. congruence.
      * exfalso. apply Hne. destruct (flagged a) eqn:Hfa.
        -- assert (flag a = true) by (eapply wf_shared_frozen; eauto). rewrite H, (Fl H). reflexivity.
        -- rewrite (unflagged_flag _ Hfa). symmetry. apply unflagged_flag.
           rewrite (shape_eq_flagged _ _ Sh). exact Hfa.
    + intros l1 f1 Hin. apply in_app_or in Hin.
      destruct Hin as [Hin|Hin]; apply in_map_iff in Hin; destruct Hin as [x [Heq Hx]];
        injection Heq as <- _; eapply reach_set_acc; eauto.
  - (* OMutate *)
    destruct K as [K1 K2].
    assert (Hr : forall l1 f1, In (LObj l1 f1) [LObj l FFrozen; LObj l FIter; LObj l FElems] -> acc ow t l1).
    { intros l1 f1 [Heq|[Heq|[Heq|[]]]]; injection Heq as <- _; exact K1. }
    destruct (mutate h l m) as [h2| |] eqn:Hm;
      try (injection H as <- <- <- <-; split; [exact W|]; split; [exact T|]; split; simpl; [intros x []| exact Hr]).
    destruct (lookup h l) as [ob|] eqn:Hl.
    2:{ unfold mutate in Hm. rewrite Hl in Hm. discriminate. }
    destruct (mutate_children _ _ _ _ _ Hm Hl) as [Hfr [o2 [Hl2 Hch]]].
    injection H as <- <- <- <-.
    destruct (ow l) as [t'|] eqn:Hol.
    + assert (t' = t) by (destruct K1 as [A|A]; congruence). subst t'.
      split; [|split; [exact T|]].
      * eapply wf_change_owned; eauto.
        intros o3 c Hl3 Hc. assert (o3 = o2) by congruence. subst o3.
        destruct (Hch c Hc) as [Hc1|Hc1]; [eapply acc_child; eauto | apply K2; exact Hc1].
      * split; simpl; [|exact Hr].
        intros x Hx. destruct (opt_eqb obj_eqb (lookup h2 l) (Some ob)); [destruct Hx|].
        destruct Hx as [<-|[]]. eauto.
    + assert (h2 = h).
      { eapply frozen_unchanged; eauto. unfold is_frozen. rewrite Hl.
        destruct (mutable_kind ob) eqn:Hmk; auto. eapply wf_shared_frozen; eauto.
        destruct ob; simpl in *; auto; discriminate. }
      subst h2. split; [exact W|]. split; [exact T|]. split; simpl; [|exact Hr].
      rewrite Hl. simpl. rewrite obj_eqb_refl. intros x [].
  - (* OProgInit *)
    injection H as <- <- <- <-. split; [exact W|]. split; [exact T|]. split; simpl; [intros x []|].
    intros l1 f1 [Heq|[]]. discriminate.
  - (* OPosition *)
    injection H as <- <- <- <-. done3.
Qed.

(* ------------------------------------------------------------- schedules *)
Lemma step_local : forall ow t st tl o st' tl' r fp,
  wf ow (sh_heap st) -> tls_ok ow t tl -> op_ok ow t o ->
  step st tl o = (st', tl', r, fp) ->
  wf ow (sh_heap st') /\ tls_ok ow t tl' /\ fp_local ow t fp.
Proof.
  intros ow t st tl o st' tl' r fp W T K H.
  assert (G : (forall fc pc, o <> OPosition fc pc) ->
              wf ow (sh_heap st') /\ tls_ok ow t tl' /\ fp_local ow t fp).
  { intros Hn.
    assert (Hs : step st tl o = match step_heap (sh_heap st) tl o with
                                (h', tl', r, fp) => (set_heap st h', tl', r, fp) end).
    { destruct o; try reflexivity. exfalso. eapply Hn. reflexivity. }
    rewrite Hs in H. destruct (step_heap (sh_heap st) tl o) as [[[h1 tl1] r1] fp1] eqn:Hh.
    injection H as <- <- <- <-. simpl. eapply step_heap_local; eauto. }
  destruct o; try (apply G; intros; discriminate).
  simpl in H.
  assert (P : forall s, fp_local ow t {| rd := [LProg]; wr := []; sy := s |}).
  { intros s. split; simpl; [intros x []|]. intros l1 f1 [Heq|[]]. discriminate. }
  destruct (nth_error (sh_tabs st) fc); [destruct (nth_error (sh_lnt st) fc)|];
    injection H as <- <- <- <-; simpl; (split; [exact W|]; split; [exact T|]); apply P.
Qed.

Definition ts_ok (ow : owner) (ts : tstate) : Prop := forall t, tls_ok ow t (ts t).
Definition sched_ok (ow : owner) (sched : list (nat * op)) : Prop :=
  forall t o, In (t, o) sched -> op_ok ow t o.

Lemma run_local : forall ow sched st ts,
  wf ow (sh_heap st) -> ts_ok ow ts -> sched_ok ow sched ->
  forall e, In e (run sched st ts) -> fp_local ow (ev_thread e) (ev_fp e).
Proof.
  intros ow. induction sched as [|[t o] r IH]; intros st ts W T K e He; simpl in He; [contradiction|].
  destruct (step st (ts t) o) as [[[st' tl'] res] fp] eqn:Hs.
  destruct (step_local ow t _ _ _ _ _ _ _ W (T t) (K t o (or_introl eq_refl)) Hs) as [W' [T' F]].
  destruct He as [<-|He]; [exact F|].
  eapply IH; [exact W'| |intros t0 o0 Hin; apply K; right; exact Hin|exact He].
  intros t0. unfold upd. destruct (Nat.eqb t0 t) eqn:Heq; [|apply T].
  apply Nat.eqb_eq in Heq. subst. exact T'.
Qed.

Lemma location_eqb_eq a b : location_eqb a b = true -> a = b.
Proof.
  destruct a as [l f|fc|], b as [l' f'|fc'|]; simpl; try discriminate; auto.
  - intros H. apply andb_true_iff in H. destruct H as [H1 H2]. apply Nat.eqb_eq in H1. subst.
    destruct f, f'; simpl in H2; try discriminate; reflexivity.
  - intros H. apply Nat.eqb_eq in H. subst. reflexivity.
Qed.

(* separation: footprints confined to disjoint owners cannot conflict *)
Lemma local_no_conflict ow t1 t2 a b :
  t1 <> t2 -> fp_local ow t1 a -> fp_local ow t2 b -> conflict a b = false.
Proof.
  intros Hne [Wa Ra] [Wb Rb]. apply Bool.not_true_is_false. intros Hc.
  unfold conflict in Hc. apply orb_true_iff in Hc.
  destruct Hc as [Hc|Hc]; apply existsb_exists in Hc; destruct Hc as [w [Hw Hm]];
    unfold mem_loc in Hm; apply existsb_exists in Hm; destruct Hm as [y [Hy Heq]];
    apply location_eqb_eq in Heq; subst y.
  - destruct (Wa w Hw) as [l [f [-> Ho]]]. apply in_app_or in Hy. destruct Hy as [Hy|Hy].
    + destruct (Rb l f Hy) as [A|A]; congruence.
    + destruct (Wb _ Hy) as [l' [f' [Heq Ho']]]. injection Heq as <- _. congruence.
  - destruct (Wb w Hw) as [l [f [-> Ho]]]. apply in_app_or in Hy. destruct Hy as [Hy|Hy].
    + destruct (Ra l f Hy) as [A|A]; congruence.
    + destruct (Wa _ Hy) as [l' [f' [Heq Ho']]]. injection Heq as <- _. congruence.
Qed.

(* race freedom with private mutable state *)
Lemma race_free_local_lemma : forall ow sched st ts,
  wf ow (sh_heap st) -> ts_ok ow ts -> sched_ok ow sched ->
  race_free (run sched st ts).
Proof.
  intros ow sched st ts W T K i j ei ej Hi Hj Hne.
  eapply local_no_conflict; [exact Hne| |]; eapply run_local; eauto using nth_error_In.
Qed.
