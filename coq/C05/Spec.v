(* C05/Spec.v -- what "no data race" and "same results as alone" mean, stated
   over execution traces only (independent of how the model produces them).

   Two events of DIFFERENT threads conflict when one of them plainly writes a
   location the other plainly reads or writes.  (Accesses ordered by sync.Once
   are in the `sy` component and do not count.)  Nothing orders the operations
   of different threads in the repertoire -- they share no locks -- so every
   conflicting pair is a data race. *)
From Coq Require Import List Arith Bool ZArith.
From SV Require Import C04.Heap C05.Footprint.
Import ListNotations.

Definition conflict (a b : footprint) : bool :=
  existsb (fun w => mem_loc w (rd b ++ wr b)) (wr a) ||
  existsb (fun w => mem_loc w (rd a ++ wr a)) (wr b).

Definition race_free (evs : list event) : Prop :=
  forall i j ei ej, nth_error evs i = Some ei -> nth_error evs j = Some ej ->
    ev_thread ei <> ev_thread ej -> conflict (ev_fp ei) (ev_fp ej) = false.

(* the results one thread saw, in its program order *)
Definition transcript (t : nat) (evs : list event) : list result :=
  map ev_res (filter (fun e => Nat.eqb (ev_thread e) t) evs).

(* the operations one thread performs, in its program order *)
Definition ops_of (t : nat) (sched : list (nat * op)) : list op :=
  map snd (filter (fun p => Nat.eqb (fst p) t) sched).

(* decidable versions, for checking observed traces *)
Fixpoint no_conflict_with (e : event) (rest : list event) : bool :=
  match rest with
  | [] => true
  | x :: r => (Nat.eqb (ev_thread e) (ev_thread x) || negb (conflict (ev_fp e) (ev_fp x))) && no_conflict_with e r
  end.

Fixpoint race_freeb (evs : list event) : bool :=
  match evs with
  | [] => true
  | e :: r => no_conflict_with e r && race_freeb r
  end.
