(* C05/Check.v -- the correspondence test evaluated by bin/check: a world of
   frozen values as described by the harness (C04 graph description, frozen by
   the model's epilogue), the threads' operation scripts interleaved round-robin,
   and the transcripts the implementation produced. *)
From Coq Require Import List Arith Bool ZArith.
From SV Require Import C04.Heap C04.Model C04.Check C05.Footprint C05.Spec C05.Model.
Import ListNotations.

Definition world_of (g : graph) : option shared :=
  match frozen_heap g with
  | Some h => Some {| sh_heap := h; sh_tabs := []; sh_lnt := [] |}
  | None => None
  end.

Definition results_eqb := list_eqb result_eqb.

Fixpoint transcripts_ok (t : nat) (evs : list event) (expected : list (list result)) : bool :=
  match expected with
  | [] => true
  | e :: r => results_eqb (transcript t evs) e && transcripts_ok (S t) evs r
  end.

(* the model, run on the interleaving, gives every thread the transcript that
   was observed *)
Definition model_ok (w : option shared) (sched : list (nat * op)) (expected : list (list result)) : bool :=
  match w with
  | Some st => transcripts_ok 0 (run sched st (fun _ => [])) expected
  | None => false
  end.

(* the model predicts: no plain write anywhere, no conflicting pair *)
Definition footprint_ok (w : option shared) (sched : list (nat * op)) : bool :=
  match w with
  | Some st =>
      let evs := run sched st (fun _ => []) in
      forallb (fun e => match wr (ev_fp e) with [] => true | _ => false end) evs && race_freeb evs
  | None => false
  end.

(* ---- write footprints, observed through the hooks (frozen flag, itercount,
   contents before / after each operation), against the model's *)
Fixpoint fp_trace (h : heap) (tl : tls) (ops : list op) : list (list location) :=
  match ops with
  | [] => []
  | o :: r =>
      match step_heap h tl o with
      | (h', tl', _, fp) => wr fp :: fp_trace h' tl' r
      end
  end.

Definition same_locs (a b : list location) : bool :=
  forallb (fun x => mem_loc x b) a && forallb (fun x => mem_loc x a) b.

Fixpoint all2 {A B} (f : A -> B -> bool) (la : list A) (lb : list B) : bool :=
  match la, lb with
  | [], [] => true
  | a :: ra, b :: rb => f a b && all2 f ra rb
  | _, _ => false
  end.

Definition writes_ok (w : option heap) (ops : list op) (obs : list (list location)) : bool :=
  match w with
  | Some h => all2 same_locs (fp_trace h [] ops) obs
  | None => false
  end.
