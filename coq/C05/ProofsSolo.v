(* C05/ProofsSolo.v -- solo equivalence with private mutable state:
   (a) the write footprint of the model is complete: an object that is not in it
       is not changed;
   (b) an operation sees only the objects its thread can reach: on two heaps that
       agree there it returns the same result and leaves heaps that agree there;
   (c) hence, in any interleaving, a thread's transcript is the transcript of its
       own operations run alone -- other threads only change their own objects. *)
From Coq Require Import List Arith Bool ZArith Lia Relations.
From SV Require Import C04.Heap C04.Model C04.Spec C04.ProofsMut C04.ProofsFreeze C04.ProofsSpec
  C05.Footprint C05.Spec C05.Model C05.Proofs C05.ProofsLocal.
Import ListNotations.

(* ----------------------------------------------------- boolean equalities *)
Lemma val_eqb_eq a b : val_eqb a b = true -> a = b.
Proof.
  destruct a, b; simpl; try discriminate; intros H.
  - apply Z.eqb_eq in H. congruence.
  - apply Nat.eqb_eq in H. congruence.
Qed.

Lemma list_eqb_eq {A} (eqb : A -> A -> bool) :
  (forall x y, eqb x y = true -> x = y) -> forall a b, list_eqb eqb a b = true -> a = b.
Proof.
  intros He. induction a as [|x a IH]; intros [|y b] H; simpl in H; try discriminate; auto.
  apply andb_true_iff in H. destruct H as [H1 H2]. f_equal; auto.
Qed.

Lemma obj_eqb_eq a b : obj_eqb a b = true -> a = b.
Proof.
  assert (Hp : forall x y, pair_eqb x y = true -> x = y).
  { intros [a1 a2] [b1 b2]. unfold pair_eqb. simpl. intros H. apply andb_true_iff in H.
    destruct H as [H1 H2]. apply val_eqb_eq in H1. apply val_eqb_eq in H2. congruence. }
  assert (Hf : forall x y, Heap.field_eqb x y = true -> x = y).
  { intros [a1 a2] [b1 b2]. unfold Heap.field_eqb. simpl. intros H. apply andb_true_iff in H.
    destruct H as [H1 H2]. apply Nat.eqb_eq in H1. apply val_eqb_eq in H2. congruence. }
  assert (Ho : forall x y, opt_eqb val_eqb x y = true -> x = y).
  { intros [x|] [y|]; simpl; try discriminate; auto. intros H. apply val_eqb_eq in H. congruence. }
  destruct a, b; simpl; try discriminate; intros H;
    repeat match type of H with
           | (_ && _ = true) => apply andb_true_iff in H; let H1 := fresh "H" in destruct H as [H H1]
           end;
    repeat match goal with
           | H : Bool.eqb _ _ = true |- _ => apply eqb_prop in H
           | H : Nat.eqb _ _ = true |- _ => apply Nat.eqb_eq in H
           | H : list_eqb val_eqb _ _ = true |- _ => apply (list_eqb_eq _ val_eqb_eq) in H
           | H : list_eqb pair_eqb _ _ = true |- _ => apply (list_eqb_eq _ Hp) in H
           | H : list_eqb Heap.field_eqb _ _ = true |- _ => apply (list_eqb_eq _ Hf) in H
           | H : opt_eqb val_eqb _ _ = true |- _ => apply Ho in H
           end; subst; reflexivity.
Qed.

Lemma shape_flag_eq o o' : shape o' = shape o -> flag o' = flag o -> o' = o.
Proof.
  intros S F. destruct o, o'; simpl in S, F; try discriminate; try (injection S; intros; subst; reflexivity);
    congruence.
Qed.

(* ------------------------------------- (a) the write footprint is complete *)
Lemma not_in_flag_diff h h' i a b :
  lookup h i = Some a -> lookup h' i = Some b -> ~ In (LObj i FFrozen) (flag_diff h h') -> flag a = flag b.
Proof.
  intros Ha Hb Hn. destruct (Bool.eqb (flag a) (flag b)) eqn:He; [apply eqb_prop; exact He|].
  exfalso. apply Hn. unfold flag_diff. apply in_flat_map. exists i. split.
  - apply in_seq. split; [lia|]. simpl. eapply lookup_lt; eauto.
  - rewrite Ha, Hb, He. left. reflexivity.
Qed.

Lemma step_heap_writes_complete : forall h tl o h' tl' r fp,
  step_heap h tl o = (h', tl', r, fp) ->
  length h' = length h /\
  forall l', (forall f, ~ In (LObj l' f) (wr fp)) -> lookup h' l' = lookup h l'.
Proof.
  intros h tl o h' tl' r fp H.
  assert (Hupd : forall l ob f, h' = update h l ob -> In (LObj l f) (wr fp) ->
            length h' = length h /\ forall l', (forall f, ~ In (LObj l' f) (wr fp)) -> lookup h' l' = lookup h l').
  { intros l ob f -> Hin. split; [apply length_update|]. intros l' Hn.
    apply lookup_update_other. intros ->. eapply Hn; eauto. }
  destruct o; simpl in H.
  - destruct (lookup h l); injection H as <- <- <- <-; auto.
  - destruct (lookup h l); injection H as <- <- <- <-; auto.
  - destruct (lookup h l); injection H as <- <- <- <-; auto.
  - destruct (lookup h l) as [ob|]; [|injection H as <- <- <- <-; auto].
    destruct (iterable ob); [|injection H as <- <- <- <-; auto].
    destruct (has_counter ob); [|injection H as <- <- <- <-; auto].
    destruct (flag ob); injection H as <- <- <- <-; auto.
    eapply Hupd; [reflexivity|simpl; left; reflexivity].
  - destruct tl as [|[l pos] rest]; [injection H as <- <- <- <-; auto|].
    destruct (lookup h l) as [ob|]; [|injection H as <- <- <- <-; auto].
    destruct (nth_error (iter_elems ob) pos); injection H as <- <- <- <-; auto.
  - destruct tl as [|[l pos] rest]; [injection H as <- <- <- <-; auto|].
    destruct (lookup h l) as [ob|]; [|injection H as <- <- <- <-; auto].
    destruct (has_counter ob); [|injection H as <- <- <- <-; auto].
    destruct (flag ob); injection H as <- <- <- <-; auto.
    eapply Hupd; [reflexivity|simpl; left; reflexivity].
  - destruct (lookup h l); [destruct (lookup h l')|]; injection H as <- <- <- <-; auto.
  - destruct (lookup h l); injection H as <- <- <- <-; auto.
  - injection H as <- <- <- <-; auto.
  - destruct (lookup h f) as [ob|]; [destruct ob|]; injection H as <- <- <- <-; auto.
  - destruct (freeze (freeze_fuel h) h (VRef l)) as [h1|] eqn:Hf; [|injection H as <- <- <- <-; auto].
    assert (E := freeze_ext_lemma _ _ _ _ Hf).
    injection H as <- <- <- <-. simpl. split; [apply (proj1 E)|].
    intros l' Hn. destruct (lookup h l') as [a|] eqn:Ha.
    + destruct (proj2 E l' a Ha) as [b [Hb [Sh Fl]]]. rewrite Hb. f_equal.
      apply shape_flag_eq; auto. symmetry. eapply not_in_flag_diff; eauto.
    + eapply ext_none; eauto.
  - destruct (mutate h l m) as [h2| |] eqn:Hm; try (injection H as <- <- <- <-; auto).
    destruct (mutate_local _ _ _ _ Hm) as [Hlen Hfr].
    simpl. split; [exact Hlen|]. intros l' Hn.
    destruct (Nat.eq_dec l' l) as [->|Hne]; [|apply Hfr; exact Hne].
    destruct (opt_eqb obj_eqb (lookup h2 l) (lookup h l)) eqn:He.
    + destruct (lookup h2 l), (lookup h l); simpl in He; try discriminate; auto.
      apply obj_eqb_eq in He. congruence.
    + exfalso. eapply (Hn FElems). left. reflexivity.
  - injection H as <- <- <- <-; auto.
  - injection H as <- <- <- <-; auto.
Qed.

(* --------------------------------------------- (b) locality of operations *)
Definition agree (ow : owner) (t : nat) (h1 h2 : heap) : Prop :=
  length h1 = length h2 /\ forall l, acc ow t l -> lookup h1 l = lookup h2 l.

Lemma agree_refl ow t h : agree ow t h h.
Proof. split; auto. Qed.

Lemma lookup_update_out h l o : length h <= l -> update h l o = h.
Proof.
  revert l. induction h as [|x r IH]; intros [|l] H; simpl in *; auto; try lia.
  f_equal. apply IH. lia.
Qed.

Lemma agree_update ow t h1 h2 l o :
  agree ow t h1 h2 -> agree ow t (update h1 l o) (update h2 l o).
Proof.
  intros [L A]. split; [rewrite !length_update; exact L|].
  intros l' Hl'. destruct (Nat.eq_dec l' l) as [->|Hne].
  - destruct (lt_dec l (length h1)) as [Hlt|Hge].
    + rewrite !lookup_update_same; auto. lia.
    + rewrite !lookup_update_out by lia. apply A. exact Hl'.
  - rewrite !lookup_update_other by auto. apply A. exact Hl'.
Qed.

(* the mutators look at the heap only through the object they are applied to *)
Lemma mutate_agree h1 h2 l m :
  lookup h1 l = lookup h2 l ->
  match mutate h1 l m, mutate h2 l m with
  | Ok a, Ok b => (a = h1 /\ b = h2) \/ exists x, a = update h1 l x /\ b = update h2 l x
  | Err e1, Err e2 => e1 = e2
  | Panic, Panic => True
  | _, _ => False
  end.
Proof.
  intros Hl. unfold mutate. rewrite <- Hl.
  destruct (lookup h1 l) as [ob|]; [|reflexivity].
  destruct ob; try (destruct m; reflexivity);
    unfold mutate_list, mutate_dict, mutate_set, with_check;
    destruct m; try reflexivity;
    repeat match goal with
           | |- context [if ?c then _ else _] => destruct c
           | |- context [match ?c with Some _ => _ | None => _ end] => destruct c
           | |- context [match ?c with [] => _ | _ :: _ => _ end] => destruct c
           | |- context [let (_, _) := ?c in _] => destruct c
           end; simpl; auto; try (right; eexists; split; reflexivity).
Qed.

(* Freeze on two heaps that agree on everything reachable from the value *)
Lemma fold_opt_agree ow t (f1 f2 : heap -> val -> option heap) vs :
  (forall h1 h2 v, wf ow h1 -> agree ow t h1 h2 ->
     match v with VRef l => acc ow t l | VAtom _ => True end ->
     match f1 h1 v, f2 h2 v with
     | Some a, Some b => agree ow t a b /\ ext h1 a
     | None, None => True
     | _, _ => False
     end) ->
  forall h1 h2, wf ow h1 -> agree ow t h1 h2 ->
    (forall c, In (VRef c) vs -> acc ow t c) ->
    match fold_opt f1 vs h1, fold_opt f2 vs h2 with
    | Some a, Some b => agree ow t a b /\ ext h1 a
    | None, None => True
    | _, _ => False
    end.
Proof.
  intros Hf. induction vs as [|v r IH]; intros h1 h2 W A Hc; simpl.
  - split; auto. apply ext_refl.
  - assert (Hv : match v with VRef l => acc ow t l | VAtom _ => True end).
    { destruct v; auto. apply Hc. left. reflexivity. }
    specialize (Hf h1 h2 v W A Hv).
    destruct (f1 h1 v) as [a|], (f2 h2 v) as [b|]; try contradiction; auto.
    destruct Hf as [A' E'].
    assert (W' : wf ow a) by (eapply wf_ext; eauto).
    specialize (IH a b W' A' (fun c Hin => Hc c (or_intror Hin))).
    destruct (fold_opt f1 r a), (fold_opt f2 r b); try contradiction; auto.
    destruct IH as [A2 E2]. split; auto. eapply ext_trans; eauto.
Qed.

Lemma freeze_agree ow t : forall fuel h1 h2 v,
  wf ow h1 -> agree ow t h1 h2 ->
  match v with VRef l => acc ow t l | VAtom _ => True end ->
  match freeze fuel h1 v, freeze fuel h2 v with
  | Some a, Some b => agree ow t a b /\ ext h1 a
  | None, None => True
  | _, _ => False
  end.
Proof.
  induction fuel as [|f IH]; intros h1 h2 v W A Hv; simpl; auto.
  destruct v as [a|l]; [split; auto; apply ext_refl|].
  rewrite <- (proj2 A l Hv).
  destruct (lookup h1 l) as [o|] eqn:Hl; [|split; auto; apply ext_refl].
  assert (Hch : forall c, In (VRef c) (children o) -> acc ow t c).
  { intros c Hc. eapply acc_child; eauto. }
  destruct (flagged o).
  - destruct (flag o); [split; auto; apply ext_refl|].
    assert (E1 : ext h1 (update h1 l (set_flag true o))) by (apply ext_mark; auto).
    assert (R := fold_opt_agree ow t (freeze f) (freeze f) (children o) IH
                   (update h1 l (set_flag true o)) (update h2 l (set_flag true o))
                   (wf_ext _ _ _ W E1) (agree_update _ _ _ _ _ _ A) Hch).
    destruct (fold_opt (freeze f) (children o) (update h1 l (set_flag true o))),
             (fold_opt (freeze f) (children o) (update h2 l (set_flag true o))); try contradiction; auto.
    destruct R as [A2 E2]. split; auto. eapply ext_trans; eauto.
  - apply (fold_opt_agree ow t (freeze f) (freeze f) (children o) IH h1 h2 W A Hch).
Qed.

(* reachability sets computed on agreeing heaps coincide *)
Lemma succs_agree ow t h1 h2 x : agree ow t h1 h2 -> acc ow t x -> succs h1 x = succs h2 x.
Proof. intros [_ A] Hx. unfold succs. rewrite (A x Hx). reflexivity. Qed.

Lemma in_add_all_acc (P : loc -> Prop) xs s :
  (forall x, In x xs -> P x) -> (forall x, In x s -> P x) -> forall x, In x (add_all xs s) -> P x.
Proof.
  intros Hx Hs x Hin. destruct (add_all_In _ _ _ Hin); auto.
Qed.

Lemma expand_agree ow t h1 h2 s :
  wf ow h1 -> agree ow t h1 h2 -> (forall x, In x s -> acc ow t x) ->
  expand h1 s = expand h2 s /\ forall x, In x (expand h1 s) -> acc ow t x.
Proof.
  intros W A Hs. unfold expand.
  assert (G : forall todo acc1, (forall x, In x todo -> acc ow t x) -> (forall x, In x acc1 -> acc ow t x) ->
            fold_left (fun a l => add_all (succs h1 l) a) todo acc1 =
            fold_left (fun a l => add_all (succs h2 l) a) todo acc1 /\
            forall x, In x (fold_left (fun a l => add_all (succs h1 l) a) todo acc1) -> acc ow t x).
  { induction todo as [|y r IH]; intros acc1 Ht Ha; simpl; [auto|].
    rewrite <- (succs_agree ow t h1 h2 y A (Ht y (or_introl eq_refl))).
    apply IH.
    - intros x Hx. apply Ht. right. exact Hx.
    - apply in_add_all_acc; auto. intros x Hx. apply child_succs in Hx.
      destruct Hx as [o [Hl Hc]]. eapply acc_child; eauto. apply Ht. left. reflexivity. }
  apply G; auto.
Qed.

Lemma iter_expand_agree ow t h1 h2 n s :
  wf ow h1 -> agree ow t h1 h2 -> (forall x, In x s -> acc ow t x) ->
  iter n (expand h1) s = iter n (expand h2) s.
Proof.
  intros W A. revert s. induction n as [|n IH]; intros s Hs; simpl; auto.
  destruct (expand_agree ow t h1 h2 s W A Hs) as [He Hacc]. rewrite <- He. apply IH. exact Hacc.
Qed.

Lemma reach_set_agree ow t h1 h2 l :
  wf ow h1 -> agree ow t h1 h2 -> acc ow t l -> reach_set h1 [VRef l] = reach_set h2 [VRef l].
Proof.
  intros W A Hl. unfold reach_set. rewrite <- (proj1 A).
  apply (iter_expand_agree ow t); auto.
  intros x Hx. simpl in Hx. destruct Hx as [<-|[]]. exact Hl.
Qed.

Lemma flat_map_ext_in {A B} (f g : A -> list B) l :
  (forall x, In x l -> f x = g x) -> flat_map f l = flat_map g l.
Proof.
  induction l as [|a r IH]; intros H; simpl; auto.
  rewrite (H a (or_introl eq_refl)), IH; auto. intros x Hx. apply H. right. exact Hx.
Qed.

Lemma step_heap_agree : forall ow t h1 h2 tl o h1' tl1 r1 fp1 h2' tl2 r2 fp2,
  wf ow h1 -> agree ow t h1 h2 -> tls_ok ow t tl -> op_ok ow t o ->
  step_heap h1 tl o = (h1', tl1, r1, fp1) -> step_heap h2 tl o = (h2', tl2, r2, fp2) ->
  r1 = r2 /\ tl1 = tl2 /\ agree ow t h1' h2'.
Proof.
  intros ow t h1 h2 tl o h1' tl1 r1 fp1 h2' tl2 r2 fp2 W A T K H1 H2.
  destruct o; simpl in H1, H2, K.
  - rewrite <- (proj2 A l K) in H2.
    destruct (lookup h1 l); injection H1 as <- <- <- <-; injection H2 as <- <- <- <-; auto.
  - rewrite <- (proj2 A l K) in H2.
    destruct (lookup h1 l); injection H1 as <- <- <- <-; injection H2 as <- <- <- <-; auto.
  - rewrite <- (proj2 A l K) in H2.
    destruct (lookup h1 l); injection H1 as <- <- <- <-; injection H2 as <- <- <- <-; auto.
  - rewrite <- (proj2 A l K) in H2.
    destruct (lookup h1 l) as [ob|]; [|injection H1 as <- <- <- <-; injection H2 as <- <- <- <-; auto].
    destruct (iterable ob); [|injection H1 as <- <- <- <-; injection H2 as <- <- <- <-; auto].
    destruct (has_counter ob); [|injection H1 as <- <- <- <-; injection H2 as <- <- <- <-; auto].
    destruct (flag ob); injection H1 as <- <- <- <-; injection H2 as <- <- <- <-; auto.
    split; [reflexivity|]. split; [reflexivity|]. apply agree_update. exact A.
  - destruct tl as [|[l pos] rest]; [injection H1 as <- <- <- <-; injection H2 as <- <- <- <-; auto|].
    assert (Al : acc ow t l) by (eapply T; left; reflexivity).
    rewrite <- (proj2 A l Al) in H2.
    destruct (lookup h1 l) as [ob|]; [|injection H1 as <- <- <- <-; injection H2 as <- <- <- <-; auto].
    destruct (nth_error (iter_elems ob) pos); injection H1 as <- <- <- <-; injection H2 as <- <- <- <-; auto.
  - destruct tl as [|[l pos] rest]; [injection H1 as <- <- <- <-; injection H2 as <- <- <- <-; auto|].
    assert (Al : acc ow t l) by (eapply T; left; reflexivity).
    rewrite <- (proj2 A l Al) in H2.
    destruct (lookup h1 l) as [ob|]; [|injection H1 as <- <- <- <-; injection H2 as <- <- <- <-; auto].
    destruct (has_counter ob); [|injection H1 as <- <- <- <-; injection H2 as <- <- <- <-; auto].
    destruct (flag ob); injection H1 as <- <- <- <-; injection H2 as <- <- <- <-; auto.
    split; [reflexivity|]. split; [reflexivity|]. apply agree_update. exact A.
  - destruct K as [K1 K2]. rewrite <- (proj2 A l K1), <- (proj2 A l' K2) in H2.
    destruct (lookup h1 l); [destruct (lookup h1 l')|];
      injection H1 as <- <- <- <-; injection H2 as <- <- <- <-; auto.
  - rewrite <- (proj2 A l K) in H2.
    destruct (lookup h1 l); injection H1 as <- <- <- <-; injection H2 as <- <- <- <-; auto.
  - injection H1 as <- <- <- <-; injection H2 as <- <- <- <-.
    rewrite (reach_set_agree ow t h1 h2 l W A K). auto.
  - rewrite <- (proj2 A f K) in H2.
    destruct (lookup h1 f) as [ob|] eqn:Hl; [|injection H1 as <- <- <- <-; injection H2 as <- <- <- <-; auto].
    destruct ob; injection H1 as <- <- <- <-; injection H2 as <- <- <- <-; auto.
    split; [|split; [reflexivity|exact A]]. f_equal. f_equal. apply flat_map_ext_in.
    intros x Hx. destruct x as [a|c]; simpl; auto.
    rewrite (proj2 A c); auto. eapply acc_child; eauto. simpl. apply in_or_app. right. exact Hx.
  - replace (freeze_fuel h2) with (freeze_fuel h1) in H2 by (unfold freeze_fuel; rewrite (proj1 A); reflexivity).
    assert (R := freeze_agree ow t (freeze_fuel h1) h1 h2 (VRef l) W A K).
    destruct (freeze (freeze_fuel h1) h1 (VRef l)), (freeze (freeze_fuel h1) h2 (VRef l)); try contradiction;
      injection H1 as <- <- <- <-; injection H2 as <- <- <- <-; auto.
    destruct R as [R _]. auto.
  - destruct K as [K1 K2].
    assert (R := mutate_agree h1 h2 l m (proj2 A l K1)).
    destruct (mutate h1 l m), (mutate h2 l m); try contradiction;
      injection H1 as <- <- <- <-; injection H2 as <- <- <- <-; auto.
    destruct R as [[-> ->]|[x [-> ->]]]; (split; [reflexivity|]; split; [reflexivity|]); [exact A|].
    apply agree_update. exact A.
  - injection H1 as <- <- <- <-; injection H2 as <- <- <- <-; auto.
  - injection H1 as <- <- <- <-; injection H2 as <- <- <- <-; auto.
Qed.

(* ----------------------------------------------------------- (c) schedules *)
Lemma step_tabs : forall st tl o st' tl' r fp,
  cache_ok st -> step st tl o = (st', tl', r, fp) ->
  cache_ok st' /\ sh_tabs st' = sh_tabs st /\ length (sh_lnt st') = length (sh_lnt st).
Proof.
  intros st tl o st' tl' r fp C H.
  assert (G : (forall fc pc, o <> OPosition fc pc) ->
              cache_ok st' /\ sh_tabs st' = sh_tabs st /\ length (sh_lnt st') = length (sh_lnt st)).
  { intros Hn.
    assert (Hs : step st tl o = match step_heap (sh_heap st) tl o with
                                (h', tl', r, fp) => (set_heap st h', tl', r, fp) end).
    { destruct o; try reflexivity. exfalso. eapply Hn. reflexivity. }
    rewrite Hs in H. destruct (step_heap (sh_heap st) tl o) as [[[h1 tl1] r1] fp1].
    injection H as <- <- <- <-. simpl. auto using cache_ok_set_heap. }
  destruct o; try (apply G; intros; discriminate).
  simpl in H.
  destruct (nth_error (sh_tabs st) fc) as [tab|] eqn:Ht; [|injection H as <- <- <- <-; auto].
  destruct (nth_error (sh_lnt st) fc) as [cache|] eqn:Hc; [|injection H as <- <- <- <-; auto].
  assert (Hdec : (match cache with Some d => d | None => decode tab end) = decode tab).
  { destruct cache as [d|]; auto. eapply C; eauto. }
  rewrite Hdec in H. injection H as <- <- <- <-. simpl. rewrite set_nth_length. repeat split; auto.
  intros fc' tab' d Ht' Hl'. simpl in *.
  destruct (Nat.eq_dec fc fc') as [<-|Hne].
  - rewrite (nth_set_nth_same _ _ _ _ Hc) in Hl'. congruence.
  - rewrite nth_set_nth_other in Hl' by auto. eapply C; eauto.
Qed.

(* the interleaved state a and the state b of thread t running alone *)
Definition sim_local (ow : owner) (t : nat) (a b : shared) : Prop :=
  wf ow (sh_heap a) /\ wf ow (sh_heap b) /\ agree ow t (sh_heap a) (sh_heap b) /\
  sh_tabs a = sh_tabs b /\ length (sh_lnt a) = length (sh_lnt b) /\ cache_ok a /\ cache_ok b.

(* a step of the thread itself, performed on both *)
Lemma step_self : forall ow t a b tl o a' tla ra fpa b' tlb rb fpb,
  sim_local ow t a b -> tls_ok ow t tl -> op_ok ow t o ->
  step a tl o = (a', tla, ra, fpa) -> step b tl o = (b', tlb, rb, fpb) ->
  ra = rb /\ tla = tlb /\ sim_local ow t a' b' /\ tls_ok ow t tla.
Proof.
  intros ow t a b tl o a' tla ra fpa b' tlb rb fpb [Wa [Wb [A [Ht [Hlen [Ca Cb]]]]]] T K Ha Hb.
  destruct (step_tabs _ _ _ _ _ _ _ Ca Ha) as [Ca' [Ta' La']].
  destruct (step_tabs _ _ _ _ _ _ _ Cb Hb) as [Cb' [Tb' Lb']].
  destruct (step_local ow t _ _ _ _ _ _ _ Wa T K Ha) as [Wa' [T' _]].
  destruct (step_local ow t _ _ _ _ _ _ _ Wb T K Hb) as [Wb' _].
  assert (G : (forall fc pc, o <> OPosition fc pc) -> ra = rb /\ tla = tlb /\ agree ow t (sh_heap a') (sh_heap b')).
  { intros Hn.
    assert (Hs : forall st, step st tl o = match step_heap (sh_heap st) tl o with
                                           (h', tl', r, fp) => (set_heap st h', tl', r, fp) end).
    { intros st. destruct o; try reflexivity. exfalso. eapply Hn. reflexivity. }
    rewrite Hs in Ha, Hb.
    destruct (step_heap (sh_heap a) tl o) as [[[h1 tl1] r1] fp1] eqn:H1.
    destruct (step_heap (sh_heap b) tl o) as [[[h2 tl2] r2] fp2] eqn:H2.
    injection Ha as <- <- <- <-. injection Hb as <- <- <- <-. simpl.
    exact (step_heap_agree ow t (sh_heap a) (sh_heap b) tl o h1 tl1 r1 fp1 h2 tl2 r2 fp2 Wa A T K H1 H2). }
  assert (R : ra = rb /\ tla = tlb /\ agree ow t (sh_heap a') (sh_heap b')).
  { destruct o; try (apply G; intros; discriminate).
    simpl in Ha, Hb. rewrite <- Ht in Hb.
    destruct (nth_error (sh_tabs a) fc) as [tab|] eqn:Htab.
    2:{ injection Ha as <- <- <- <-. injection Hb as <- <- <- <-. auto. }
    destruct (nth_error (sh_lnt a) fc) as [ca|] eqn:Hca; destruct (nth_error (sh_lnt b) fc) as [cb|] eqn:Hcb.
    - assert (Hda : (match ca with Some d => d | None => decode tab end) = decode tab).
      { destruct ca as [d|]; auto. eapply Ca; eauto. }
      assert (Hdb : (match cb with Some d => d | None => decode tab end) = decode tab).
      { destruct cb as [d|]; auto. eapply Cb; eauto. rewrite <- Ht. exact Htab. }
      rewrite Hda in Ha. rewrite Hdb in Hb.
      injection Ha as <- <- <- <-. injection Hb as <- <- <- <-. simpl. auto.
    - apply nth_error_None in Hcb. assert (fc < length (sh_lnt a)) by (apply nth_error_Some; congruence). lia.
    - apply nth_error_None in Hca. assert (fc < length (sh_lnt b)) by (apply nth_error_Some; congruence). lia.
    - injection Ha as <- <- <- <-. injection Hb as <- <- <- <-. auto. }
  destruct R as [-> [-> A']]. split; [reflexivity|]. split; [reflexivity|]. split; [|exact T'].
  unfold sim_local. split; [exact Wa'|]. split; [exact Wb'|]. split; [exact A'|].
  split; [congruence|]. split; [congruence|]. split; assumption.
Qed.

(* a step of another thread, performed on the interleaved state only *)
Lemma step_other : forall ow t t' a b tl o a' tla ra fpa,
  t' <> t -> sim_local ow t a b -> tls_ok ow t' tl -> op_ok ow t' o ->
  step a tl o = (a', tla, ra, fpa) ->
  sim_local ow t a' b /\ tls_ok ow t' tla.
Proof.
  intros ow t t' a b tl o a' tla ra fpa Hne [Wa [Wb [A [Ht [Hlen [Ca Cb]]]]]] T K Ha.
  destruct (step_tabs _ _ _ _ _ _ _ Ca Ha) as [Ca' [Ta' La']].
  destruct (step_local ow t' _ _ _ _ _ _ _ Wa T K Ha) as [Wa' [T' [Fw _]]].
  split; [|exact T'].
  assert (Hfr : length (sh_heap a') = length (sh_heap a) /\
                forall l, (forall f, ~ In (LObj l f) (wr fpa)) -> lookup (sh_heap a') l = lookup (sh_heap a) l).
  { assert (G : (forall fc pc, o <> OPosition fc pc) ->
                length (sh_heap a') = length (sh_heap a) /\
                forall l, (forall f, ~ In (LObj l f) (wr fpa)) -> lookup (sh_heap a') l = lookup (sh_heap a) l).
    { intros Hn.
      assert (Hs : step a tl o = match step_heap (sh_heap a) tl o with
                                 (h', tl', r, fp) => (set_heap a h', tl', r, fp) end).
      { destruct o; try reflexivity. exfalso. eapply Hn. reflexivity. }
      rewrite Hs in Ha. destruct (step_heap (sh_heap a) tl o) as [[[h1 tl1] r1] fp1] eqn:H1.
      injection Ha as <- <- <- <-. simpl. eapply step_heap_writes_complete; eauto. }
    destruct o; try (apply G; intros; discriminate).
    simpl in Ha.
    destruct (nth_error (sh_tabs a) fc); [destruct (nth_error (sh_lnt a) fc)|];
      injection Ha as <- <- <- <-; simpl; auto. }
  destruct Hfr as [Hl Hfr].
  unfold sim_local. split; [exact Wa'|]. split; [exact Wb|]. split.
  - split; [rewrite Hl; apply (proj1 A)|].
    intros l Al. rewrite Hfr; [apply (proj2 A l Al)|].
    intros f Hin. destruct (Fw _ Hin) as [l0 [f0 [Heq Ho]]]. injection Heq as <- _.
    destruct Al as [Al|Al]; congruence.
  - split; [congruence|]. split; [congruence|]. split; assumption.
Qed.

Lemma solo_equivalence_local_gen : forall ow sched a b ts t,
  sim_local ow t a b -> ts_ok ow ts -> sched_ok ow sched ->
  transcript t (run sched a ts) = solo (ops_of t sched) b (ts t).
Proof.
  intros ow. induction sched as [|[t' o] r IH]; intros a b ts t S T K; [reflexivity|].
  unfold transcript, ops_of in *. simpl.
  assert (Ko : op_ok ow t' o) by (apply K; left; reflexivity).
  assert (Kr : sched_ok ow r) by (intros t0 o0 Hin; apply K; right; exact Hin).
  destruct (step a (ts t') o) as [[[a' tla] ra] fpa] eqn:Ha.
  simpl. destruct (Nat.eqb t' t) eqn:Ht.
  - apply Nat.eqb_eq in Ht. subst t'. simpl.
    destruct (step b (ts t) o) as [[[b' tlb] rb] fpb] eqn:Hb.
    destruct (step_self _ _ _ _ _ _ _ _ _ _ _ _ _ _ S (T t) Ko Ha Hb) as [-> [-> [S' T']]].
    f_equal. rewrite (IH a' b' (upd ts t tlb) t S').
    + unfold upd. rewrite Nat.eqb_refl. reflexivity.
    + intros t0. unfold upd. destruct (Nat.eqb t0 t) eqn:Heq; [|apply T].
      apply Nat.eqb_eq in Heq. subst. exact T'.
    + exact Kr.
  - apply Nat.eqb_neq in Ht.
    destruct (step_other _ _ _ _ _ _ _ _ _ _ _ Ht S (T t') Ko Ha) as [S' T'].
    rewrite (IH a' b (upd ts t' tla) t S').
    + unfold upd. destruct (Nat.eqb t t') eqn:Heq; [apply Nat.eqb_eq in Heq; congruence|reflexivity].
    + intros t0. unfold upd. destruct (Nat.eqb t0 t') eqn:Heq; [|apply T].
      apply Nat.eqb_eq in Heq. subst. exact T'.
    + exact Kr.
Qed.

Lemma solo_equivalence_local_lemma : forall ow sched st ts t,
  wf ow (sh_heap st) -> cache_ok st -> ts_ok ow ts -> sched_ok ow sched ->
  transcript t (run sched st ts) = solo (ops_of t sched) st (ts t).
Proof.
  intros ow sched st ts t W C T K. apply (solo_equivalence_local_gen ow); auto.
  unfold sim_local. split; [exact W|]. split; [exact W|]. split; [apply agree_refl|].
  split; [reflexivity|]. split; [reflexivity|]. split; assumption.
Qed.
