(* C08 -- lemmas, part 4: the main argument. *)
From Coq Require Import String List Bool Arith Lia Permutation.
From SV Require Import C08.Types C08.Model C08.Spec C08.ProofsLayout C08.ProofsLoops C08.ProofsBind.
Import ListNotations.

Section Main.
Context {V : Type}.
Variable s : signature V.
Hypothesis Hwf : wf_sig s.

Let nreq := length (sg_req s).
Let p := length (pk_names s).
Let n := length (ord_names s).
Let L := length (sig_names s).

Lemma p_eq : p = nreq + length (sg_opt s).
Proof. unfold p, pk_names, nreq. rewrite app_length, map_length. reflexivity. Qed.

Lemma n_eq : n = p + length (sg_kwonly s).
Proof. unfold n, ord_names, p, kw_names. rewrite app_length, map_length. reflexivity. Qed.

Lemma L_eq : L = n + (if has_args s then 1 else 0) + (if has_kwargs s then 1 else 0).
Proof.
  unfold L, n. rewrite sig_names_eq. unfold tail_names, has_args, has_kwargs.
  rewrite !app_length. destruct (sg_star s), (sg_kwargs s); simpl; lia.
Qed.

Lemma firstn_ord : firstn n (sig_names s) = ord_names s.
Proof. unfold n. rewrite sig_names_eq. rewrite firstn_app, Nat.sub_diag, firstn_all. simpl. apply app_nil_r. Qed.

Lemma nodup_ord : NoDup (ord_names s).
Proof. apply wf_nodup_ord. apply Hwf. Qed.

Lemma defaults_len : length (sig_defaults s) = length (sg_opt s) + length (sg_kwonly s).
Proof. unfold sig_defaults. rewrite app_length, !map_length. reflexivity. Qed.

Definition st0 : state V := {| st_locals := repeat None L; st_kwdict := []; st_log := [] |}.

Definition setArgs_nf (P : list V) (K : list (string * V)) : result (state V) :=
  if L =? 0 then
    if 0 <? length P + length K then Err EAcceptsNoArgs else Ok st0
  else
    let st1 := if has_kwargs s then store (L - 1) SKwRef st0 else st0 in
    if (p <? length P) && negb (has_args s) then Err ETooManyPositional
    else
      let n0 := if p <? length P then p else length P in
      let st2 := bind_positional 0 (firstn n0 P) st1 in
      let st3 := if has_args s then store n (STuple (skipn n0 P)) st2 else st2 in
      match kwloop (ord_names s) (has_kwargs s) K st3 with
      | Err e => Err e
      | Ok st4 =>
          if (n0 <? n) || (0 <? length (sg_kwonly s)) then
            let missing1 := missing_required (seq n0 (nreq - n0)) st4 in
            let i := if n0 <? nreq then nreq else n0 in
            let res := fill_defaults (seq i (n - i)) nreq (sig_defaults s) st4 in
            match missing1 ++ snd res with
            | [] => Ok (fst res)
            | _ :: _ => Err EMissing
            end
          else Ok st4
      end.

Lemma setArgs_layout P K : setArgs (layout s) P K = setArgs_nf P K.
Proof.
  rewrite (layout_wf s Hwf). unfold setArgs, setArgs_nf.
  cbn [fi_locals fi_num_params fi_num_kwonly fi_has_varargs fi_has_kwargs fi_defaults].
  fold L. fold st0.
  pose proof L_eq as HL. pose proof n_eq as Hn. pose proof p_eq as Hp. pose proof defaults_len as Hd.
  pose proof firstn_ord as Hf.
  destruct (L =? 0) eqn:EL; [reflexivity|].
  destruct (has_args s) eqn:Ea; destruct (has_kwargs s) eqn:Ek; cbv zeta.
  - replace (L - 1 - 1) with n by lia.
    replace (n - length (sg_kwonly s)) with p by lia.
    replace (n - length (sig_defaults s)) with nreq by lia.
    rewrite Hf. reflexivity.
  - replace (L - 1) with n by lia.
    replace (n - length (sg_kwonly s)) with p by lia.
    replace (n - length (sig_defaults s)) with nreq by lia.
    rewrite Hf. reflexivity.
  - replace (L - 1) with n by lia.
    replace (n - length (sg_kwonly s)) with p by lia.
    replace (n - length (sig_defaults s)) with nreq by lia.
    rewrite Hf. reflexivity.
  - replace L with n in * by lia.
    replace (n - length (sg_kwonly s)) with p by lia.
    replace (n - length (sig_defaults s)) with nreq by lia.
    rewrite Hf. reflexivity.
Qed.

(* ------------------------------------------------------------ the states *)
Lemma is_nil_st0 j : is_nil st0 j = true.
Proof.
  unfold is_nil, st0; simpl. rewrite nth_error_repeat. destruct (j <? L); reflexivity.
Qed.

Lemma inv_st0 : Inv st0.
Proof.
  split; [constructor|]. intros j. simpl. rewrite is_nil_st0. split; [tauto|]. intros [_ H]; discriminate.
Qed.

Definition st1 : state V := if has_kwargs s then store (L - 1) SKwRef st0 else st0.

Lemma st1_props :
  L <> 0 ->
  Inv st1 /\ length (st_locals st1) = L /\ st_kwdict st1 = [] /\
  forall j, nth_error (st_locals st1) j =
            if has_kwargs s && (j =? L - 1) then Some (Some SKwRef)
            else if j <? L then Some None else None.
Proof.
  intros HL0. unfold st1.
  assert (Hl0 : length (st_locals st0) = L) by (simpl; apply repeat_length).
  destruct (has_kwargs s); simpl andb.
  - split; [apply store_inv; [apply inv_st0 | lia | apply is_nil_st0]|].
    split; [rewrite store_length; exact Hl0|]. split; [reflexivity|].
    intros j. simpl. rewrite nth_error_upd, nth_error_repeat, repeat_length.
    rewrite Nat.eqb_sym.
    destruct (Nat.eqb_spec j (L - 1)); auto.
    destruct (Nat.ltb_spec (L - 1) L); auto; lia.
  - split; [apply inv_st0|]. split; [exact Hl0|]. split; [reflexivity|].
    intros j. simpl. apply nth_error_repeat.
Qed.

Section WithP.
Variable P : list V.
Let n0 := if p <? length P then p else length P.

Definition st2 : state V := bind_positional 0 (firstn n0 P) st1.
Definition st3 : state V := if has_args s then store n (STuple (skipn n0 P)) st2 else st2.

Lemma n0_le : n0 <= p /\ n0 <= length P /\ n0 <= n.
Proof. unfold n0. pose proof n_eq. destruct (Nat.ltb_spec p (length P)); lia. Qed.

Lemma st3_props :
  L <> 0 ->
  Inv st3 /\ length (st_locals st3) = L /\ st_kwdict st3 = [] /\
  forall j, nth_error (st_locals st3) j =
            if j <? n0 then option_map (fun v => Some (SVal v)) (nth_error P j)
            else if has_args s && (j =? n) then Some (Some (STuple (skipn n0 P)))
            else if has_kwargs s && (j =? L - 1) then Some (Some SKwRef)
            else if j <? L then Some None else None.
Proof.
  intros HL0. destruct (st1_props HL0) as [I1 [I2 [I3 I4]]].
  pose proof n0_le as [Hn0p [Hn0P Hn0n]]. pose proof L_eq as HL.
  assert (Hfl : length (firstn n0 P) = n0) by (rewrite firstn_length; lia).
  destruct (bind_positional_spec (firstn n0 P) 0 st1) as [J1 [J2 [J3 J4]]].
  - rewrite Hfl, I2. simpl. destruct (has_args s), (has_kwargs s); lia.
  - intros j Hj. rewrite Hfl in Hj. unfold is_nil. rewrite I4.
    destruct (has_kwargs s) eqn:Ek; simpl.
    + destruct (Nat.eqb_spec j (L - 1)); [destruct (has_args s); lia|].
      destruct (j <? L); reflexivity.
    + destruct (j <? L); reflexivity.
  - exact I1.
  - fold st2 in J1, J2, J3, J4. rewrite Hfl in J4.
    assert (K4 : forall j, nth_error (st_locals st2) j =
              if j <? n0 then option_map (fun v => Some (SVal v)) (nth_error P j)
              else if has_kwargs s && (j =? L - 1) then Some (Some SKwRef)
              else if j <? L then Some None else None).
    { intros j. rewrite J4. simpl. rewrite Nat.sub_0_r. rewrite I4.
      destruct (Nat.ltb_spec j n0); auto. rewrite nth_error_firstn by lia. reflexivity. }
    unfold st3. destruct (has_args s) eqn:Ea; simpl andb.
    + assert (Hn : n < length (st_locals st2)) by (rewrite J2, I2; destruct (has_kwargs s); lia).
      split.
      { apply store_inv; auto. unfold is_nil. rewrite K4.
        destruct (Nat.ltb_spec n n0); [lia|].
        destruct (has_kwargs s); simpl.
        - destruct (Nat.eqb_spec n (L - 1)); [lia|]. destruct (n <? L); reflexivity.
        - destruct (n <? L); reflexivity. }
      split; [rewrite store_length, J2; exact I2|]. split; [simpl; rewrite J3; exact I3|].
      intros j. simpl. rewrite nth_error_upd, K4. rewrite Nat.eqb_sym.
      destruct (Nat.ltb_spec j n0).
      * destruct (Nat.eqb_spec j n); auto. lia.
      * destruct (Nat.eqb_spec j n); auto.
        destruct (Nat.ltb_spec n (length (st_locals st2))); auto; lia.
    + split; [exact J1|]. split; [rewrite J2; exact I2|]. split; [rewrite J3; exact I3|].
      exact K4.
Qed.

Lemma is_nil_st3 j : L <> 0 -> j < n -> is_nil st3 j = negb (j <? n0).
Proof.
  intros HL0 Hj. destruct (st3_props HL0) as [_ [_ [_ H]]]. unfold is_nil. rewrite H.
  pose proof n0_le as [? [? ?]]. pose proof L_eq as HL.
  destruct (Nat.ltb_spec j n0).
  - destruct (nth_error P j) eqn:E; simpl; auto.
    apply nth_error_None in E. lia.
  - destruct (has_args s) eqn:Ea; simpl.
    + destruct (Nat.eqb_spec j n); [lia|]. destruct (has_kwargs s); simpl.
      * destruct (Nat.eqb_spec j (L - 1)); [lia|]. destruct (j <? L); reflexivity.
      * destruct (j <? L); reflexivity.
    + destruct (has_kwargs s); simpl.
      * destruct (Nat.eqb_spec j (L - 1)); [lia|]. destruct (j <? L); reflexivity.
      * destruct (j <? L); reflexivity.
Qed.

Lemma rel_st3 : L <> 0 -> Rel (ord_names s) st3 (firstn (length P) (pk_names s)).
Proof.
  intros HL0. split.
  - intros j nm Hj.
    assert (Hjn : j < n) by (apply nth_error_Some; unfold n; congruence).
    rewrite is_nil_st3 by auto.
    rewrite mem_In. unfold ord_names in Hj.
    rewrite (In_firstn_NoDup (pk_names s) (kw_names s) (length P) j nm nodup_ord Hj).
    fold p. unfold n0. destruct (Nat.ltb_spec p (length P)).
    + destruct (Nat.ltb_spec j p); simpl; split; intros; try lia; try discriminate; auto.
    + destruct (Nat.ltb_spec j (length P)); simpl; split; intros; try lia; try discriminate; auto.
  - intros k Hk. destruct (st3_props HL0) as [_ [_ [Hd _]]]. rewrite Hd. simpl.
    symmetry. apply mem_notIn. intro Hin. apply In_firstn in Hin.
    assert (mem k (ord_names s) = true) by (apply mem_In; unfold ord_names; apply in_or_app; auto).
    congruence.
Qed.

End WithP.

(* ------------------------------------------------------- specification side *)
Definition all_nps : list (string * option V) := req_nps s ++ opt_nps s ++ sg_kwonly s.

Lemma all_nps_names : map fst all_nps = ord_names s.
Proof.
  unfold all_nps, ord_names, pk_names, kw_names. rewrite !map_app, map_fst_req, map_fst_opt.
  rewrite app_assoc. reflexivity.
Qed.

Lemma all_nps_len : length all_nps = n.
Proof. unfold n. rewrite <- all_nps_names, map_length. reflexivity. Qed.

Lemma pk_len : length (req_nps s ++ opt_nps s) = p.
Proof. unfold p, pk_names, req_nps, opt_nps. rewrite !app_length, !map_length. reflexivity. Qed.

Lemma req_len : length (req_nps s) = nreq.
Proof. unfold req_nps, nreq. apply map_length. Qed.

Definition dconv (o : option V) : dflt V := match o with Some d => Dflt d | None => Mandatory end.

Lemma defaults_nth j :
  nreq <= j ->
  nth_error (sig_defaults s) (j - nreq) = option_map (fun nd => dconv (snd nd)) (nth_error all_nps j).
Proof.
  intros Hj. unfold all_nps. rewrite nth_error_app2 by (rewrite req_len; exact Hj). rewrite req_len.
  assert (E : sig_defaults s = map (fun nd => dconv (snd nd)) (opt_nps s ++ sg_kwonly s)).
  { unfold sig_defaults, opt_nps. rewrite map_app, map_map. simpl. reflexivity. }
  rewrite E. apply nth_error_map.
Qed.

Lemma req_nth j : j < nreq -> exists nm, nth_error all_nps j = Some (nm, None).
Proof.
  intros Hj. unfold all_nps. rewrite nth_error_app1 by (rewrite req_len; exact Hj).
  unfold req_nps. rewrite nth_error_map.
  destruct (nth_error (sg_req s) j) eqn:E.
  - simpl. eauto.
  - apply nth_error_None in E. unfold nreq in Hj. lia.
Qed.

Section WithPK.
Variable P : list V.
Variable K : list (string * V).
Let n0 := if p <? length P then p else length P.

(* positional value or keyword value of the j-th ordinary parameter *)
Definition A (j : nat) (nd : string * option V) : option V :=
  first_some (if j <? p then nth_error P j else None) (assoc (fst nd) K).
Definition G (j : nat) (nd : string * option V) : option V := first_some (A j nd) (snd nd).

Definition pos_vals : list (option V) :=
  map (fun ind => first_some (nth_error P (fst ind))
                    (first_some (assoc (fst (snd ind)) K) (snd (snd ind))))
      (combine (seq 0 (length (req_nps s ++ opt_nps s))) (req_nps s ++ opt_nps s)).
Definition kwo_vals : list (option V) :=
  map (fun nd => first_some (assoc (fst nd) K) (snd nd)) (sg_kwonly s).

Lemma spec_vals_nth j :
  nth_error (pos_vals ++ kwo_vals) j = option_map (G j) (nth_error all_nps j).
Proof.
  assert (Hpl : length pos_vals = p).
  { unfold pos_vals. rewrite map_length, combine_length, seq_length, Nat.min_id. apply pk_len. }
  unfold all_nps. rewrite app_assoc.
  destruct (Nat.ltb_spec j p) as [Hj|Hj].
  - rewrite nth_error_app1 by lia. rewrite nth_error_app1 by (rewrite pk_len; lia).
    unfold pos_vals. rewrite nth_error_map, nth_error_combine_seq.
    destruct (nth_error (req_nps s ++ opt_nps s) j) as [nd|]; simpl; auto.
    unfold G, A. destruct (Nat.ltb_spec j p); [|lia].
    destruct (nth_error P j); simpl; auto.
  - rewrite nth_error_app2 by lia. rewrite nth_error_app2 by (rewrite pk_len; lia).
    rewrite Hpl, pk_len. unfold kwo_vals. rewrite nth_error_map.
    destruct (nth_error (sg_kwonly s) (j - p)) as [nd|]; simpl; auto.
    unfold G, A. destruct (Nat.ltb_spec j p); [lia|]. simpl. reflexivity.
Qed.

Lemma spec_core_eq :
  spec_core s P K =
  if (p <? length P) && negb (has_args s) then Err ETooManyPositional else
  match first_bad (ord_names s) (has_kwargs s) (firstn (length P) (pk_names s)) K with
  | Some e => Err e
  | None =>
      match all_some pos_vals, all_some kwo_vals with
      | Some pv, Some kv =>
          Ok {| b_pos := pv; b_kwonly := kv;
                b_args := if has_args s then Some (skipn p P) else None;
                b_kwargs := if has_kwargs s
                            then Some (filter (fun kv => negb (mem (fst kv) (ord_names s))) K)
                            else None |}
      | _, _ => Err EMissing
      end
  end.
Proof.
  unfold spec_core. cbv zeta.
  change (map (fun n1 : string => (n1, @None V)) (sg_req s)) with (req_nps s).
  change (map (fun nd : string * V => (fst nd, Some (snd nd))) (sg_opt s)) with (opt_nps s).
  rewrite pk_len.
  replace (map fst (req_nps s ++ opt_nps s)) with (pk_names s)
    by (unfold pk_names; rewrite map_app, map_fst_req, map_fst_opt; reflexivity).
  fold (kw_names s). fold (ord_names s). fold (has_args s). fold (has_kwargs s).
  unfold pos_vals, kwo_vals. rewrite pk_len.
  reflexivity.
Qed.

Lemma first_bad_class names hk seen (K' : list (string * V)) e :
  first_bad names hk seen K' = Some e -> e = EMultipleValues \/ e = EUnexpectedKeyword.
Proof.
  revert seen; induction K' as [|[k v] K' IH]; intros seen H; simpl in H; [discriminate|].
  destruct (mem k seen); [inversion H; auto|].
  destruct (mem k names || hk); [eauto|inversion H; auto].
Qed.

(* ------------------------------------------------------ after the keyword loop *)
Definition kwD : list (string * V) := filter (fun kv => negb (mem (fst kv) (ord_names s))) K.

Lemma A_lt_n0 j nd : j < n0 -> exists v, nth_error P j = Some v /\ A j nd = Some v.
Proof.
  intros Hj. pose proof (n0_le P) as [H1 [H2 _]]. fold n0 in H1, H2.
  destruct (nth_error P j) as [v|] eqn:E.
  - exists v. split; auto. unfold A. destruct (Nat.ltb_spec j p); [|lia]. rewrite E. reflexivity.
  - apply nth_error_None in E. lia.
Qed.

Lemma A_ge_n0 j nd : n0 <= j -> A j nd = assoc (fst nd) K.
Proof.
  intros Hj. unfold A. destruct (Nat.ltb_spec j p); simpl; auto.
  assert (length P <= j). { unfold n0 in Hj. destruct (Nat.ltb_spec p (length P)); lia. }
  apply nth_error_None in H0. rewrite H0. reflexivity.
Qed.

Lemma st3_ord j : L <> 0 -> j < n -> n0 <= j -> nth_error (st_locals (st3 P)) j = Some None.
Proof.
  intros HL0 Hj Hge. destruct (st3_props P HL0) as [_ [_ [_ H]]]. rewrite H. fold n0.
  pose proof L_eq as HL.
  destruct (Nat.ltb_spec j n0); [lia|].
  destruct (has_args s); simpl.
  - destruct (Nat.eqb_spec j n); [lia|]. destruct (has_kwargs s); simpl.
    + destruct (Nat.eqb_spec j (L - 1)); [lia|]. destruct (Nat.ltb_spec j L); auto; lia.
    + destruct (Nat.ltb_spec j L); auto; lia.
  - destruct (has_kwargs s); simpl.
    + destruct (Nat.eqb_spec j (L - 1)); [lia|]. destruct (Nat.ltb_spec j L); auto; lia.
    + destruct (Nat.ltb_spec j L); auto; lia.
Qed.

Lemma all_nps_name j nd : nth_error all_nps j = Some nd -> nth_error (ord_names s) j = Some (fst nd) /\ j < n.
Proof.
  intros H. split.
  - rewrite <- all_nps_names, nth_error_map, H. reflexivity.
  - rewrite <- all_nps_len. apply nth_error_Some. congruence.
Qed.

Lemma st4_values st4 :
  L <> 0 ->
  kwloop (ord_names s) (has_kwargs s) K (st3 P) = Ok st4 ->
  Inv st4 /\ length (st_locals st4) = L /\ st_kwdict st4 = kwD /\
  (forall j nd, nth_error all_nps j = Some nd ->
                nth_error (st_locals st4) j = Some (option_map SVal (A j nd))) /\
  (forall j, n <= j -> nth_error (st_locals st4) j = nth_error (st_locals (st3 P)) j).
Proof.
  intros HL0 Hk. destruct (st3_props P HL0) as [I1 [I2 [I3 I4]]].
  pose proof L_eq as HL.
  destruct (kwloop_ok (ord_names s) (has_kwargs s) K (st3 P) st4) as [J1 [J2 [J3 J4]]]; auto.
  - apply nodup_ord.
  - rewrite I2. fold n. destruct (has_args s), (has_kwargs s); lia.
  - split; [exact J1|]. split; [rewrite J2; exact I2|]. split; [rewrite J3, I3; reflexivity|]. split.
    + intros j nd Hnd. destruct (all_nps_name j nd Hnd) as [Hnm Hjn].
      rewrite J4, Hnm. rewrite is_nil_st3 by auto. fold n0.
      destruct (Nat.ltb_spec j n0) as [Hlt|Hge]; simpl.
      * destruct (A_lt_n0 j nd Hlt) as [v [Hv Ha]]. rewrite Ha. rewrite I4. fold n0.
        destruct (Nat.ltb_spec j n0); [|lia]. rewrite Hv. reflexivity.
      * rewrite (A_ge_n0 j nd Hge). destruct (assoc (fst nd) K); simpl; auto.
        apply st3_ord; auto.
    + intros j Hj. rewrite J4.
      destruct (nth_error (ord_names s) j) eqn:E; auto.
      assert (j < n) by (apply nth_error_Some; unfold n; congruence). lia.
Qed.

(* ------------------------------------------------------------ the tail slots *)
Definition tail_slots : list (option (slot V)) :=
  (if has_args s then [Some (STuple (skipn n0 P))] else []) ++
  (if has_kwargs s then [Some SKwRef] else []).

Lemma final_locals_eq (st : state V) vs :
  L <> 0 ->
  length (st_locals st) = L ->
  (forall j nd, nth_error all_nps j = Some nd ->
                nth_error (st_locals st) j = Some (option_map SVal (G j nd))) ->
  (forall j, n <= j -> nth_error (st_locals st) j = nth_error (st_locals (st3 P)) j) ->
  all_some (pos_vals ++ kwo_vals) = Some vs ->
  st_locals st = map (fun v => Some (SVal v)) vs ++ tail_slots.
Proof.
  intros HL0 Hlen Hval Htail Hall.
  apply all_some_Some in Hall.
  assert (Hvl : length vs = n).
  { rewrite <- (map_length Some vs), <- Hall, app_length. unfold pos_vals, kwo_vals.
    rewrite !map_length, combine_length, seq_length, Nat.min_id, pk_len. symmetry. apply n_eq. }
  pose proof L_eq as HL.
  apply nth_error_ext. intros j.
  destruct (Nat.ltb_spec j n) as [Hj|Hj].
  - rewrite nth_error_app1 by (rewrite map_length; lia). rewrite nth_error_map.
    destruct (nth_error all_nps j) as [nd|] eqn:End.
    2:{ apply nth_error_None in End. rewrite all_nps_len in End. lia. }
    rewrite (Hval j nd End).
    pose proof (spec_vals_nth j) as Hs. rewrite Hall, nth_error_map, End in Hs. simpl in Hs.
    destruct (nth_error vs j) as [v|]; simpl in Hs; [|discriminate].
    inversion Hs as [Hg]. try rewrite <- Hg. reflexivity.
  - rewrite nth_error_app2 by (rewrite map_length; lia). rewrite map_length, Hvl.
    rewrite (Htail j Hj). destruct (st3_props P HL0) as [_ [_ [_ H]]]. rewrite H. fold n0.
    pose proof (n0_le P) as [_ [_ Hn0]]. fold n0 in Hn0.
    destruct (Nat.ltb_spec j n0); [lia|].
    unfold tail_slots.
    destruct (has_args s) eqn:Ea; destruct (has_kwargs s) eqn:Ek; simpl.
    + destruct (Nat.eqb_spec j n).
      * subst. rewrite Nat.sub_diag. reflexivity.
      * destruct (Nat.eqb_spec j (L - 1)).
        -- replace (j - n) with 1 by lia. reflexivity.
        -- destruct (Nat.ltb_spec j L); [lia|].
           replace (j - n) with (S (S (j - n - 2))) by lia. simpl. destruct (j - n - 2); reflexivity.
    + destruct (Nat.eqb_spec j n).
      * subst. rewrite Nat.sub_diag. reflexivity.
      * destruct (Nat.ltb_spec j L); [lia|].
        replace (j - n) with (S (j - n - 1)) by lia. simpl. destruct (j - n - 1); reflexivity.
    + destruct (Nat.eqb_spec j (L - 1)).
      * replace (j - n) with 0 by lia. reflexivity.
      * destruct (Nat.ltb_spec j L); [lia|].
        replace (j - n) with (S (j - n - 1)) by lia. simpl. destruct (j - n - 1); reflexivity.
    + destruct (Nat.ltb_spec j L); [lia|]. destruct (j - n); reflexivity.
Qed.

Lemma all_some_total {A'} (l : list (option A')) :
  (forall j, j < length l -> exists v, nth_error l j = Some (Some v)) -> exists vs, all_some l = Some vs.
Proof.
  intros H. destruct (all_some l) eqn:E; eauto.
  apply all_some_None in E. destruct E as [j Hj].
  assert (j < length l) by (apply nth_error_Some; congruence).
  destruct (H j H0) as [v Hv]. congruence.
Qed.

Lemma existsb_seq j i k : existsb (Nat.eqb j) (seq i k) = (i <=? j) && (j <? i + k).
Proof.
  revert i; induction k; intros i; simpl.
  - destruct (Nat.leb_spec i j), (Nat.ltb_spec j (i + 0)); simpl; auto; lia.
  - rewrite IHk. destruct (Nat.eqb_spec j i), (Nat.leb_spec i j), (Nat.leb_spec (S i) j),
      (Nat.ltb_spec j (S i + k)), (Nat.ltb_spec j (i + S k)); simpl; auto; lia.
Qed.

Lemma vals_len : length (pos_vals ++ kwo_vals) = n.
Proof.
  rewrite app_length. unfold pos_vals, kwo_vals.
  rewrite !map_length, combine_length, seq_length, Nat.min_id, pk_len. symmetry. apply n_eq.
Qed.

(* the defaults phase *)
Definition finish (st4 : state V) : result (state V) :=
  if (n0 <? n) || (0 <? length (sg_kwonly s)) then
    let missing1 := missing_required (seq n0 (nreq - n0)) st4 in
    let i := if n0 <? nreq then nreq else n0 in
    let res := fill_defaults (seq i (n - i)) nreq (sig_defaults s) st4 in
    match missing1 ++ snd res with
    | [] => Ok (fst res)
    | _ :: _ => Err EMissing
    end
  else Ok st4.

Lemma finish_spec st4 :
  L <> 0 ->
  Inv st4 -> length (st_locals st4) = L ->
  (forall j nd, nth_error all_nps j = Some nd ->
                nth_error (st_locals st4) j = Some (option_map SVal (A j nd))) ->
  (forall j, n <= j -> nth_error (st_locals st4) j = nth_error (st_locals (st3 P)) j) ->
  match finish st4 with
  | Err e => e = EMissing /\ all_some (pos_vals ++ kwo_vals) = None
  | Ok st => exists vs, all_some (pos_vals ++ kwo_vals) = Some vs /\
                        st_locals st = map (fun v => Some (SVal v)) vs ++ tail_slots /\
                        st_kwdict st = st_kwdict st4 /\ Inv st
  end.
Proof.
  intros HL0 Hinv Hlen Hval Htail.
  pose proof (n0_le P) as [Hn0p [Hn0P Hn0n]]. fold n0 in Hn0p, Hn0P, Hn0n.
  pose proof n_eq as Hn. pose proof p_eq as Hp. pose proof L_eq as HL.
  unfold finish.
  destruct ((n0 <? n) || (0 <? length (sg_kwonly s))) eqn:Ec.
  - (* defaults are consulted *)
    set (i := if n0 <? nreq then nreq else n0).
    assert (Hi : i = Nat.max n0 nreq) by (unfold i; destruct (Nat.ltb_spec n0 nreq); lia).
    destruct (fill_defaults_spec nreq (sig_defaults s) (seq i (n - i)) st4) as [F1 [F2 [F3 [F4 F5]]]]; auto.
    { intros j Hj. apply in_seq in Hj. rewrite Hlen. destruct (has_args s), (has_kwargs s); lia. }
    { apply seq_NoDup. }
    rewrite missing_required_spec.
    set (res := fill_defaults (seq i (n - i)) nreq (sig_defaults s) st4) in *.
    (* nil-ness after the keyword loop *)
    assert (Hnil : forall j nd, nth_error all_nps j = Some nd ->
                                is_nil st4 j = match A j nd with Some _ => false | None => true end).
    { intros j nd Hnd. unfold is_nil. rewrite (Hval j nd Hnd). destruct (A j nd); reflexivity. }
    destruct (filter (is_nil st4) (seq n0 (nreq - n0)) ++ snd res) as [|j0 rest] eqn:Emiss.
    + (* nothing missing *)
      apply app_eq_nil in Emiss. destruct Emiss as [Em1 Em2].
      assert (Hfin : forall j nd, nth_error all_nps j = Some nd ->
                 nth_error (st_locals (fst res)) j = Some (option_map SVal (G j nd)) /\ G j nd <> None).
      { intros j nd Hnd. destruct (all_nps_name j nd Hnd) as [_ Hjn].
        rewrite F5, existsb_seq, (Hnil j nd Hnd), (Hval j nd Hnd). unfold G.
        destruct (A j nd) as [v|] eqn:Ea.
        - rewrite andb_false_r. simpl. split; [reflexivity|discriminate].
        - rewrite andb_true_r.
          assert (Hge : n0 <= j).
          { destruct (Nat.ltb_spec j n0) as [Hlt|]; [|lia].
            destruct (A_lt_n0 j nd Hlt) as [v [_ Hv]]. congruence. }
          destruct (Nat.ltb_spec j nreq) as [Hreq|Hreq].
          + (* a required parameter without value: it would be in missing1 *)
            exfalso. assert (In j (filter (is_nil st4) (seq n0 (nreq - n0)))).
            { apply filter_In. split; [apply in_seq; lia|]. rewrite (Hnil j nd Hnd), Ea. reflexivity. }
            rewrite Em1 in H. contradiction.
          + rewrite (defaults_nth j Hreq), Hnd. simpl.
            destruct (Nat.leb_spec i j); [|lia]. destruct (Nat.ltb_spec j (i + (n - i))); [|lia]. simpl.
            destruct (snd nd) as [d|] eqn:Ed; simpl; [split; [reflexivity|discriminate]|].
            exfalso. assert (In j (snd res)).
            { rewrite F4. apply filter_In. split; [apply in_seq; lia|].
              rewrite (Hnil j nd Hnd), Ea, (defaults_nth j Hreq), Hnd. simpl. rewrite Ed. reflexivity. }
            rewrite Em2 in H1. contradiction. }
      destruct (all_some_total (pos_vals ++ kwo_vals)) as [vs Hvs].
      { intros j Hj. rewrite vals_len in Hj. rewrite spec_vals_nth.
        destruct (nth_error all_nps j) as [nd|] eqn:End.
        - destruct (Hfin j nd End) as [_ Hg]. simpl. destruct (G j nd); [eauto|congruence].
        - apply nth_error_None in End. rewrite all_nps_len in End. lia. }
      exists vs. split; [exact Hvs|]. split.
      * apply final_locals_eq; auto.
        -- rewrite F2; exact Hlen.
        -- intros j nd Hnd. apply (Hfin j nd Hnd).
        -- intros j Hj. rewrite F5, existsb_seq.
           destruct (Nat.ltb_spec j (i + (n - i))); [lia|]. rewrite andb_false_r. simpl. apply Htail; auto.
      * split; [exact F3|exact F1].
    + (* something is missing *)
      split; [reflexivity|]. apply all_some_None.
      assert (Hin : In j0 (filter (is_nil st4) (seq n0 (nreq - n0)) ++ snd res)) by (rewrite Emiss; left; auto).
      apply in_app_or in Hin. exists j0. rewrite spec_vals_nth.
      destruct Hin as [Hin|Hin].
      * apply filter_In in Hin. destruct Hin as [Hr Hn1]. apply in_seq in Hr.
        destruct (req_nth j0) as [nm Hnm]; [lia|]. rewrite Hnm. simpl. f_equal. unfold G. simpl.
        rewrite (Hnil j0 _ Hnm) in Hn1. destruct (A j0 (nm, None)); [discriminate|reflexivity].
      * rewrite F4 in Hin. apply filter_In in Hin. destruct Hin as [Hr Hn1]. apply in_seq in Hr.
        destruct (nth_error all_nps j0) as [nd|] eqn:End.
        2:{ apply nth_error_None in End. rewrite all_nps_len in End. lia. }
        simpl. f_equal. unfold G. apply andb_prop in Hn1. destruct Hn1 as [Hn1 Hn2].
        rewrite (Hnil j0 nd End) in Hn1. destruct (A j0 nd); [discriminate|]. simpl.
        assert (Hreq : nreq <= j0) by lia.
        rewrite (defaults_nth j0 Hreq), End in Hn2. simpl in Hn2.
        destruct (snd nd); [discriminate|reflexivity].
  - (* every parameter was filled positionally *)
    apply orb_false_elim in Ec. destruct Ec as [E1 E2].
    apply Nat.ltb_ge in E1. apply Nat.ltb_ge in E2.
    assert (Hfin : forall j nd, nth_error all_nps j = Some nd ->
               nth_error (st_locals st4) j = Some (option_map SVal (G j nd)) /\ G j nd <> None).
    { intros j nd Hnd. destruct (all_nps_name j nd Hnd) as [_ Hjn].
      rewrite (Hval j nd Hnd). unfold G.
      assert (Hlt : j < n0) by lia. destruct (A_lt_n0 j nd Hlt) as [v [_ Hv]]. rewrite Hv. simpl.
      split; [reflexivity|discriminate]. }
    destruct (all_some_total (pos_vals ++ kwo_vals)) as [vs Hvs].
    { intros j Hj. rewrite vals_len in Hj. rewrite spec_vals_nth.
      destruct (nth_error all_nps j) as [nd|] eqn:End.
      - destruct (Hfin j nd End) as [_ Hg]. simpl. destruct (G j nd); [eauto|congruence].
      - apply nth_error_None in End. rewrite all_nps_len in End. lia. }
    exists vs. split; [exact Hvs|]. split; [|split; [reflexivity|exact Hinv]].
    apply final_locals_eq; auto. intros j nd Hnd. apply (Hfin j nd Hnd).
Qed.

Definition coarse_P (e : err) : err :=
  match e with
  | EAcceptsNoArgs => if 0 <? length P then ETooManyPositional else EUnexpectedKeyword
  | _ => e
  end.

Lemma skipn_n0 : skipn n0 P = skipn p P.
Proof.
  unfold n0. destruct (Nat.ltb_spec p (length P)); auto.
  rewrite skipn_all. symmetry. apply skipn_all2. exact H.
Qed.

Lemma observe_final (st : state V) vs :
  st_locals st = map (fun v => Some (SVal v)) vs ++ tail_slots ->
  observe st = map Some (map BVal vs ++
                         (if has_args s then [BTuple (skipn p P)] else []) ++
                         (if has_kwargs s then [BDict (st_kwdict st)] else [])).
Proof.
  intros H. unfold observe. rewrite H. unfold tail_slots. rewrite !map_app, !map_map. rewrite skipn_n0.
  f_equal. destruct (has_args s), (has_kwargs s); reflexivity.
Qed.

Lemma full_not_nil (st : state V) vs j :
  st_locals st = map (fun v => Some (SVal v)) vs ++ tail_slots ->
  j < length (st_locals st) -> is_nil st j = false.
Proof.
  intros H Hj. unfold is_nil.
  destruct (nth_error (st_locals st) j) as [[x|]|] eqn:E; auto.
  - exfalso. apply nth_error_In in E. rewrite H in E. apply in_app_or in E. destruct E as [E|E].
    + apply in_map_iff in E. destruct E as [v [Hv _]]. discriminate.
    + unfold tail_slots in E. destruct (has_args s), (has_kwargs s); simpl in E; intuition discriminate.
  - apply nth_error_None in E. lia.
Qed.

Lemma bind_main :
  match setArgs (layout s) P K with
  | Err e => spec_core s P K = Err (coarse_P e)
  | Ok st => exists b, spec_core s P K = Ok b /\ observe st = map Some (bindings_list b) /\
                       Permutation (st_log st) (seq 0 L) /\ length (st_locals st) = L
  end.
Proof.
  rewrite setArgs_layout. unfold setArgs_nf. rewrite spec_core_eq.
  pose proof n_eq as Hn. pose proof p_eq as Hp. pose proof L_eq as HL.
  destruct (L =? 0) eqn:EL.
  - (* a function without parameters *)
    apply Nat.eqb_eq in EL.
    assert (Ha : has_args s = false) by (destruct (has_args s); auto; lia).
    assert (Hk : has_kwargs s = false) by (destruct (has_kwargs s); auto; lia).
    assert (Hp0 : p = 0) by lia. assert (Hn0 : n = 0) by lia.
    assert (Hko : length (sg_kwonly s) = 0) by lia.
    assert (Hpv : pos_vals = []).
    { apply length_zero_iff_nil. unfold pos_vals.
      rewrite map_length, combine_length, seq_length, Nat.min_id, pk_len. exact Hp0. }
    assert (Hkv : kwo_vals = []).
    { apply length_zero_iff_nil. unfold kwo_vals. rewrite map_length. exact Hko. }
    assert (Hon : ord_names s = []) by (apply length_zero_iff_nil; exact Hn0).
    rewrite Ha, Hk, Hp0, Hpv, Hkv, Hon. simpl negb. rewrite andb_true_r. unfold coarse_P.
    destruct P as [|v P'].
    + simpl length. destruct K as [|[k v] K']; simpl.
      * eexists. split; [reflexivity|]. unfold observe, st0. rewrite EL. simpl.
        repeat split; constructor.
      * reflexivity.
    + simpl. reflexivity.
  - apply Nat.eqb_neq in EL. fold st1.
    destruct ((p <? length P) && negb (has_args s)); [reflexivity|].
    cbv zeta. fold (st2 P). fold (st3 P).
    destruct (st3_props P EL) as [S1 [S2 [S3 S4]]].
    assert (Hlen3 : length (ord_names s) <= length (st_locals (st3 P))).
    { rewrite S2. fold n. destruct (has_args s), (has_kwargs s); lia. }
    pose proof (kwloop_first_bad (ord_names s) (has_kwargs s) K (st3 P)
                  (firstn (length P) (pk_names s)) nodup_ord Hlen3 (fun _ => S3) (rel_st3 P EL)) as Hfb.
    destruct (kwloop (ord_names s) (has_kwargs s) K (st3 P)) as [st4|e] eqn:Ekw.
    + rewrite Hfb.
      destruct (st4_values st4 EL Ekw) as [T1 [T2 [T3 [T4 T5]]]].
      pose proof (finish_spec st4 EL T1 T2 T4 T5) as Hf. unfold finish in Hf. cbv zeta in Hf.
      fold n0.
      match goal with
      | Hf : match ?X with _ => _ end |- match ?Y with _ => _ end => change Y with X
      end.
      match type of Hf with match ?X with _ => _ end => destruct X as [st|e] end.
      * destruct Hf as [vs [Hvs [Hloc [Hkd Hinv]]]].
        rewrite all_some_app in Hvs.
        destruct (all_some pos_vals) as [pv|] eqn:Epv; [|discriminate].
        destruct (all_some kwo_vals) as [kv|] eqn:Ekv; [|discriminate].
        inversion Hvs; subst vs.
        eexists. split; [reflexivity|]. split.
        { rewrite (observe_final st _ Hloc). unfold bindings_list. simpl.
          rewrite Hkd, T3. f_equal. rewrite (map_app BVal pv kv), <- app_assoc. unfold kwD.
          destruct (has_args s), (has_kwargs s); reflexivity. }
        assert (Hl : length (st_locals st) = L).
        { rewrite Hloc, app_length, map_length. unfold tail_slots. rewrite app_length.
          assert (length (pv ++ kv) = n).
          { rewrite <- (map_length Some), map_app, <- (all_some_Some _ _ Epv), <- (all_some_Some _ _ Ekv).
            apply vals_len. }
          rewrite app_length in H.
          destruct (has_args s), (has_kwargs s); simpl; lia. }
        split; [|exact Hl].
        rewrite <- Hl. apply Inv_full_perm; auto.
        intros j Hj. eapply full_not_nil; eauto.
      * destruct Hf as [He Hnone]. subst e. simpl.
        rewrite all_some_app in Hnone.
        destruct (all_some pos_vals); [|reflexivity].
        destruct (all_some kwo_vals); [discriminate|reflexivity].
    + rewrite Hfb. destruct (first_bad_class _ _ _ _ _ Hfb) as [-> | ->]; reflexivity.
Qed.

End WithPK.

End Main.
