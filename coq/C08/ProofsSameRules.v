(* C08 -- UnpackArgs binds by the same rules as a Starlark function: whenever
   every argument is of a type its parameter accepts, the specification of
   UnpackArgs (Unpack.v) coincides with the Python binder of Spec.v applied to
   the signature  def f(plain.., optional..=<previous target content>). *)
From Coq Require Import String List Bool Arith ZArith Lia.
From SV Require Import C08.Types C08.Model C08.Spec C08.Unpack C08.ProofsLayout C08.ProofsLoops C08.ProofsBind
                       C08.ProofsMain C08.UnpackProofs.
Import ListNotations.

Definition wrapK (K : list (string * arg)) : list (string * tval) := map (fun ka => (fst ka, Stored (snd ka))) K.

(* parameters come with the previous content of their target *)
Definition sig_of (plains opts : list (uparam * tval)) : signature tval :=
  {| sg_req := map (fun pt => p_name (fst pt)) plains;
     sg_opt := map (fun pt => (p_name (fst pt), snd pt)) opts;
     sg_star := StarNone; sg_kwonly := []; sg_kwargs := None |}.

Definition cls (e : uerr) : err :=
  match e with
  | UTooManyPositional => ETooManyPositional
  | UUnexpectedKeyword => EUnexpectedKeyword
  | UMultipleValues => EMultipleValues
  | _ => EMissing
  end.

Section Same.
Variables (plains opts : list (uparam * tval)) (args : list arg) (K : list (string * arg)).
Let pts := plains ++ opts.
Let ps := map fst pts.
Let T0 := map snd pts.
Let names := map (fun pt => p_name (fst pt)) pts.
Hypothesis Hpl : forall pt, In pt plains -> p_marker (fst pt) = MPlain.
Hypothesis Hop : forall pt, In pt opts -> p_marker (fst pt) <> MPlain.
Hypothesis Hnd : NoDup names.
(* every argument is acceptable to every parameter it may be delivered to, and no
   "??" parameter is given None (which UnpackArgs treats as absent) *)
Hypothesis Hok : forall p a, In p ps -> skip_none p a = false /\ accepts (p_kind p) (a_ty a) = true.

Lemma Hacc : forall p a, In p ps -> bad_for p a = false.
Proof. intros p a H. destruct (Hok p a H) as [H1 H2]. unfold bad_for. rewrite H1, H2. reflexivity. Qed.

Let pk : list (string * option tval) :=
  map (fun pt => (p_name (fst pt), None)) plains ++ map (fun pt => (p_name (fst pt), Some (snd pt))) opts.
Let P := map Stored args.
Let K' := wrapK K.

Definition pvals : list (option tval) :=
  map (fun ind => first_some (nth_error P (fst ind))
                    (first_some (assoc (fst (snd ind)) K') (snd (snd ind))))
      (combine (seq 0 (length pk)) pk).

Lemma pk_names : map fst pk = names.
Proof. unfold pk, names, pts. rewrite !map_app, !map_map. reflexivity. Qed.

Lemma pk_len : length pk = length pts.
Proof. rewrite <- (map_length fst pk), pk_names. unfold names. apply map_length. Qed.

Lemma spec_core_simple :
  spec_core (sig_of plains opts) P K' =
  if length pts <? length P then Err ETooManyPositional else
  match first_bad names false (firstn (length P) names) K' with
  | Some e => Err e
  | None => match all_some pvals with
            | Some pv => Ok {| b_pos := pv; b_kwonly := []; b_args := None; b_kwargs := None |}
            | None => Err EMissing
            end
  end.
Proof.
  unfold spec_core, sig_of. cbn [sg_req sg_opt sg_star sg_kwonly sg_kwargs].
  rewrite !map_map. cbn [fst snd map].
  change (map (fun x : uparam * tval => (p_name (fst x), @None tval)) plains ++
          map (fun x : uparam * tval => (p_name (fst x), Some (snd x))) opts) with pk.
  rewrite app_nil_r, pk_names. fold pvals. rewrite pk_len. rewrite andb_true_r.
  destruct (length pts <? length P); auto;
  destruct (first_bad names false (firstn (length P) names) K'); auto;
  destruct (all_some pvals); reflexivity.
Qed.

Lemma assoc_wrap name : assoc name K' = option_map Stored (kassoc name K).
Proof.
  unfold K', wrapK. induction K as [|[k a] K0 IH]; simpl; auto.
  destruct (String.eqb k name); auto.
Qed.

Lemma pk_nth j :
  nth_error pk j = option_map (fun pt => (p_name (fst pt), if j <? length plains then None else Some (snd pt)))
                              (nth_error pts j).
Proof.
  unfold pk, pts. destruct (Nat.ltb_spec j (length plains)).
  - rewrite !nth_error_app1 by (rewrite ?map_length; lia). rewrite nth_error_map. reflexivity.
  - rewrite !nth_error_app2 by (rewrite ?map_length; lia). rewrite map_length, nth_error_map. reflexivity.
Qed.

Lemma pvals_nth j :
  nth_error pvals j =
  option_map (fun pt => first_some (option_map Stored (nth_error args j))
                          (first_some (option_map Stored (kassoc (p_name (fst pt)) K))
                                      (if j <? length plains then None else Some (snd pt))))
             (nth_error pts j).
Proof.
  unfold pvals. rewrite nth_error_map, nth_error_combine_seq, pk_nth.
  destruct (nth_error pts j) as [pt|]; simpl; auto.
  unfold P. rewrite nth_error_map, assoc_wrap. reflexivity.
Qed.

Lemma ps_nth j : nth_error ps j = option_map fst (nth_error pts j).
Proof. unfold ps. apply nth_error_map. Qed.
Lemma T0_nth j : nth_error T0 j = option_map snd (nth_error pts j).
Proof. unfold T0. apply nth_error_map. Qed.
Lemma names_nth j : nth_error names j = option_map (fun pt => p_name (fst pt)) (nth_error pts j).
Proof. unfold names. apply nth_error_map. Qed.

Lemma ps_names : map p_name ps = names.
Proof. unfold ps, names. rewrite map_map. reflexivity. Qed.

(* ---- keyword scan ---- *)
Lemma index_of_spec l : forall i k,
  match index_of i l k with
  | Some r => i <= r /\ nth_error (map p_name l) (r - i) = Some k
  | None => ~ In k (map p_name l)
  end.
Proof.
  induction l as [|q l IH]; intros i k; simpl; auto.
  destruct (String.eqb_spec (p_name q) k).
  - rewrite Nat.sub_diag. simpl. subst. auto.
  - specialize (IH (S i) k). destruct (index_of (S i) l k).
    + destruct IH as [H1 H2]. split; [lia|]. replace (n0 - i) with (S (n0 - S i)) by lia. exact H2.
    + intros [H|H]; auto.
Qed.

Lemma kw_same : forall K0 seen_i seen_n,
  (forall i nm, nth_error names i = Some nm -> existsb (Nat.eqb i) seen_i = mem nm seen_n) ->
  (forall k, mem k seen_n = true -> In k names) ->
  option_map cls (first_bad_kw ps seen_i K0) = first_bad names false seen_n (wrapK K0).
Proof.
  induction K0 as [|[k a] K0 IH]; intros seen_i seen_n H1 H2; simpl; auto.
  pose proof (index_of_spec ps 0 k) as Hi. rewrite ps_names in Hi.
  destruct (index_of 0 ps k) as [i|].
  - destruct Hi as [_ Hi]. rewrite Nat.sub_0_r in Hi.
    rewrite (H1 i k Hi).
    destruct (mem k seen_n) eqn:Em; [reflexivity|].
    assert (Hmn : mem k names = true) by (apply mem_In; eapply nth_error_In; eauto).
    rewrite Hmn. simpl.
    assert (Hil : i < length ps).
    { rewrite <- (map_length p_name ps), ps_names. apply nth_error_Some. congruence. }
    destruct (nth_error ps i) as [p|] eqn:Ep; [|apply nth_error_None in Ep; lia].
    rewrite (Hacc p a (nth_error_In _ _ Ep)).
    apply IH.
    + intros j nm Hj. simpl. destruct (Nat.eqb_spec j i).
      * subst j. assert (nm = k) by congruence. subst. rewrite String.eqb_refl. reflexivity.
      * assert (nm <> k) by (intro; subst nm; apply n; eapply NoDup_nth_error_inj; eauto).
        destruct (String.eqb_spec nm k); [contradiction|]. simpl. apply H1. exact Hj.
    + intros k0 Hk0. simpl in Hk0. destruct (String.eqb_spec k0 k).
      * subst. eapply nth_error_In; eauto.
      * apply H2. exact Hk0.
  - assert (Hmn : mem k names = false) by (apply mem_notIn; exact Hi).
    destruct (mem k seen_n) eqn:Em.
    + exfalso. apply Hi. apply H2. exact Em.
    + rewrite Hmn. reflexivity.
Qed.

Lemma first_bad_pos_none : forall l (a0 : list arg) i, (forall p, In p l -> In p ps) -> first_bad_pos i a0 l = None.
Proof.
  induction l as [|p l IH]; intros [|a a0] i H; simpl; auto.
  rewrite (Hacc p a) by (apply H; left; auto). apply IH. intros q Hq. apply H. right; auto.
Qed.

Lemma first_bad_kw_cls : forall K0 seen e, first_bad_kw ps seen K0 = Some e ->
  e = UUnexpectedKeyword \/ e = UMultipleValues.
Proof.
  induction K0 as [|[k a] K0 IH]; intros seen e H; simpl in H; [discriminate|].
  destruct (index_of 0 ps k) as [i|]; [|inversion H; auto].
  destruct (existsb (Nat.eqb i) seen); [inversion H; auto|].
  destruct (nth_error ps i) as [p|] eqn:Ep; [|discriminate].
  rewrite (Hacc p a (nth_error_In _ _ Ep)) in H. eauto.
Qed.

(* ---- missing ---- *)
Definition given (j : nat) : bool :=
  match designated ps args K j with Some _ => true | None => false end.

Lemma first_missing_spec : forall (l1 l2 : list (uparam * tval)) i,
  (forall pt, In pt l1 -> p_marker (fst pt) = MPlain) ->
  (forall pt, In pt l2 -> p_marker (fst pt) <> MPlain) ->
  match first_missing i (map fst (l1 ++ l2)) given with
  | Some e => exists j, e = UMissing j /\ i <= j < i + length l1 /\ given j = false
  | None => forall j, i <= j < i + length l1 -> given j = true
  end.
Proof.
  induction l1 as [|pt l1 IH]; intros l2 i H1 H2; simpl.
  - destruct l2 as [|pt l2]; simpl; [intros; lia|].
    destruct (p_marker (fst pt)) eqn:Em; [exfalso; apply (H2 pt); [left; auto|exact Em]| |]; intros; lia.
  - rewrite (H1 pt) by (left; auto).
    destruct (given i) eqn:Eg.
    + specialize (IH l2 (S i) (fun q Hq => H1 q (or_intror Hq)) H2).
      destruct (first_missing (S i) (map fst (l1 ++ l2)) given).
      * destruct IH as [j [E [Hj Hg]]]. exists j. split; auto. split; [lia|auto].
      * intros j Hj. destruct (Nat.eq_dec j i); [subst; auto|apply IH; lia].
    + exists i. split; auto. split; [lia|auto].
Qed.

Theorem unpack_same_rules_lemma :
  match spec_unpack_err ps args K with
  | Some e => spec_core (sig_of plains opts) P K' = Err (cls e)
  | None =>
      exists pv, spec_core (sig_of plains opts) P K' =
                 Ok {| b_pos := pv; b_kwonly := []; b_args := None; b_kwargs := None |} /\
                 forall j, j < length ps -> option_map Some (nth_error pv j) = Some (want ps args K T0 j)
  end.
Proof.
  rewrite spec_core_simple. unfold spec_unpack_err.
  assert (Hlp : length ps = length pts) by (unfold ps; apply map_length).
  assert (HlP : length P = length args) by (unfold P; apply map_length).
  rewrite Hlp, HlP.
  destruct (Nat.ltb_spec (length pts) (length args)) as [Hlt|Hle]; [reflexivity|].
  rewrite first_bad_pos_none by auto. simpl first_of.
  pose proof (kw_same K (seq 0 (length args)) (firstn (length args) names)) as Hk.
  change K' with (wrapK K). rewrite <- Hk.
  2:{ intros i nm Hi. rewrite existsb_seq0.
      assert (Hin : In nm (firstn (length args) names) <-> i < Nat.min (length args) (length names)).
      { apply (In_firstn_NoDup names [] (length args) i nm); rewrite app_nil_r; auto. }
      destruct (mem nm (firstn (length args) names)) eqn:Em.
      - apply mem_In in Em. apply Hin in Em. destruct (Nat.ltb_spec i (length args)); auto; lia.
      - destruct (Nat.ltb_spec i (length args)); auto. exfalso.
        assert (i < length names) by (apply nth_error_Some; congruence).
        assert (In nm (firstn (length args) names)) by (apply Hin; lia).
        apply mem_In in H1. congruence. }
  2:{ intros k Hk0. apply mem_In in Hk0. eapply In_firstn; eauto. }
  destruct (first_bad_kw ps (seq 0 (length args)) K) as [e|] eqn:Ekw.
  - simpl. reflexivity.
  - simpl first_of. simpl option_map.
    pose proof (first_missing_spec plains opts 0 Hpl Hop) as Hm. fold pts in Hm. fold ps in Hm.
    change (fun i : nat => match designated ps args K i with Some _ => true | None => false end) with given.
    destruct (first_missing 0 ps given) as [e|].
    + destruct Hm as [j [-> [Hj Hg]]]. simpl cls.
      assert (Hn : all_some pvals = None).
      { apply all_some_None. exists j. rewrite pvals_nth.
        destruct (nth_error pts j) as [pt|] eqn:Ept.
        2:{ apply nth_error_None in Ept. unfold pts in Ept. rewrite app_length in Ept. lia. }
        simpl. f_equal. unfold given, designated in Hg. rewrite ps_nth, Ept in Hg. simpl in Hg.
        destruct (nth_error args j); [discriminate|]. simpl.
        destruct (kassoc (p_name (fst pt)) K); [discriminate|]. simpl.
        destruct (Nat.ltb_spec j (length plains)); [reflexivity|lia]. }
      rewrite Hn. reflexivity.
    + assert (Hall : forall j, j < length pvals -> exists v, nth_error pvals j = Some (Some v) /\
                       Some v = want ps args K T0 j).
      { intros j Hj. unfold pvals in Hj. rewrite map_length, combine_length, seq_length, Nat.min_id, pk_len in Hj.
        rewrite pvals_nth. unfold want, designated. rewrite ps_nth, T0_nth.
        destruct (nth_error pts j) as [pt|] eqn:Ept; [|apply nth_error_None in Ept; lia]. simpl.
        assert (Hin : In (fst pt) ps) by (unfold ps; apply in_map; eapply nth_error_In; eauto).
        destruct (nth_error args j) as [a|] eqn:Ea; simpl.
        - destruct (Hok (fst pt) a Hin) as [Hs _]. rewrite Hs. eauto.
        - destruct (kassoc (p_name (fst pt)) K) as [a|] eqn:Eka; simpl.
          + destruct (Hok (fst pt) a Hin) as [Hs _]. rewrite Hs. eauto.
          + destruct (Nat.ltb_spec j (length plains)); [|eauto].
            specialize (Hm j (conj (Nat.le_0_l j) H)). unfold given, designated in Hm.
            rewrite ps_nth, Ept, Ea in Hm. simpl in Hm. rewrite Eka in Hm. discriminate. }
      destruct (all_some_total pvals) as [pv Hpv].
      { intros j Hj. destruct (Hall j Hj) as [v [Hv _]]. eauto. }
      rewrite Hpv. exists pv. split; [reflexivity|].
      intros j Hj.
      assert (Hjl : j < length pvals).
      { unfold pvals. rewrite map_length, combine_length, seq_length, Nat.min_id, pk_len. lia. }
      destruct (Hall j Hjl) as [v [Hv Hw]]. rewrite <- Hw.
      apply all_some_Some in Hpv. rewrite Hpv, nth_error_map in Hv.
      destruct (nth_error pv j); simpl in *; congruence.
Qed.

End Same.
