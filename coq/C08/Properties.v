(* C08 -- property theorems only.  Each is closed by `exact <lemma>`; axioms are
   printed by the audit step of bin/check (Print Assumptions per theorem). *)
From Coq Require Import String List Bool Arith NArith ZArith Permutation.
From SV Require Import C08.Types C08.Model C08.Spec C08.ProofsTop C08.ProofsBind C08.Unpack C08.UnpackProofs C08.ProofsSameRules.
Import ListNotations.
Open Scope string_scope.

(* For ALL value types, ALL well-formed signatures (any number of required,
   optional, keyword-only parameters; no star, bare star or *args; with or
   without **kwargs) and ALL calls (any positional and named arguments, any *
   operand incl. a non-iterable, any ** operand incl. a non-mapping, non-string
   keys, duplicates):  what the model of the implementation does
   (resolver layout -> compiler defaults tuple / NumParams -> CALL flattening ->
   setArgs over locals[]) equals the specification's binder (Spec.v):
     - success on exactly the same calls, with the same value in every parameter,
       the same *args tuple and the same **kwargs dict (same order);
     - failure on exactly the same calls with the same error class.
   setArgs' message "accepts no arguments" for a parameterless function is split
   (coarse_err) into too-many-positional / unexpected-keyword by what was surplus;
   every other class is compared as is. *)
Theorem bind_correct :
  forall (V : Type) (s : signature V) (c : call V),
    wf_sig s ->
    match call_observe (layout s) c with
    | Ok l => spec_observe s c = Ok l
    | Err e => spec_observe s c = Err (coarse_err c e)
    end.
Proof. exact (@bind_correct_lemma). Qed.

(* On success every parameter slot locals[0..NumParams) is written exactly once
   (the log of executed `locals[i] = ..` statements is a permutation of the slot
   indices) and none is left nil; locals[] has exactly NumParams parameter slots. *)
Theorem bind_total :
  forall (V : Type) (s : signature V) (c : call V) (st : state V),
    wf_sig s ->
    call_function (layout s) c = Ok st ->
    Permutation (st_log st) (seq 0 (fi_num_params (layout s))) /\
    length (st_locals st) = fi_num_params (layout s) /\
    forall j, j < fi_num_params (layout s) -> is_nil st j = false.
Proof. exact (@bind_total_lemma). Qed.

(* ---- the hypotheses are satisfiable on non-trivial inputs ---- *)
Definition ex_sig : signature N :=
  {| sg_req := ["a"]; sg_opt := [("b", 901%N)]; sg_star := StarArgs "args";
     sg_kwonly := [("k", None); ("m", Some 912%N)]; sg_kwargs := Some "kw" |}.

Example ex_sig_wf : wf_sig ex_sig.
Proof.
  split; [|split; intros H; discriminate H].
  unfold ex_sig, sig_names; simpl.
  repeat (constructor; [simpl; intuition discriminate|]). constructor.
Qed.

(* f(101, 102, 103, k=201, z=202, *[301], **{"y": 401}) *)
Definition ex_call : call N :=
  {| c_pos := [101; 102; 103]%N; c_named := [("k", 201%N); ("z", 202%N)];
     c_star := Some (SeqOk [301%N]); c_dstar := Some (MapOk [(KStr "y", 401%N)]) |}.

Example ex_bind_ok :
  call_observe (layout ex_sig) ex_call =
  Ok [Some (BVal 101%N); Some (BVal 102%N); Some (BVal 201%N); Some (BVal 912%N);
      Some (BTuple [103%N; 301%N]); Some (BDict [("z", 202%N); ("y", 401%N)])]
  /\ spec_observe ex_sig ex_call = call_observe (layout ex_sig) ex_call.
Proof. split; vm_compute; reflexivity. Qed.

Example ex_bind_total_premise : exists st, call_function (layout ex_sig) ex_call = Ok st.
Proof. eexists. vm_compute. reflexivity. Qed.

(* a failing call: b given positionally and by keyword; and a parameterless function *)
Example ex_bind_err :
  call_observe (layout ex_sig)
    {| c_pos := [101; 102]%N; c_named := [("b", 201%N)]; c_star := None; c_dstar := None |}
  = Err EMultipleValues
  /\ call_observe (layout {| sg_req := []; sg_opt := []; sg_star := StarNone; sg_kwonly := []; sg_kwargs := None |})
       {| c_pos := []; c_named := [("z", 1%N)]; c_star := None; c_dstar := None |}
     = Err EAcceptsNoArgs.
Proof. split; vm_compute; reflexivity. Qed.

(* ------------------------------------------------------------------ built-ins *)
(* UnpackArgs: for ALL parameter lists of any length with distinct names (each
   with a marker name / name? / name?? and a typed target), ALL calls and ALL
   previous target contents: the model of the Go code fails on exactly the calls
   the per-parameter specification rejects, with the same error class (and the
   same parameter index for bad-argument and missing), and on success every
   target holds exactly what the specification designates: the positional
   argument, else the keyword argument of that name, else (and for name?? given
   None) its previous content. *)
Theorem unpack_correct :
  forall (ps : list uparam) (args : list arg) (K : list (string * arg)) (T0 : list tval),
    NoDup (map p_name ps) -> length T0 = length ps ->
    snd (unpack_args ps args K T0) = spec_unpack_err ps args K /\
    (snd (unpack_args ps args K T0) = None ->
     forall j, nth_error (fst (unpack_args ps args K T0)) j = want ps args K T0 j).
Proof. exact unpack_correct_full. Qed.

(* "Host built-ins bind by the same rules": for ALL parameter lists (plain
   parameters followed by optional ones, each paired with the previous content of
   its target, distinct names) and ALL calls in which every argument has a type
   its parameter accepts and no "??" parameter is given None, the specification
   of UnpackArgs IS the Python binder of Spec.v applied to
       def f(plain.., optional.. = <previous target content>)
   -- it fails on exactly the same calls with the same class (too many
   positional / unexpected keyword / multiple values / missing) and on success
   target j receives what the binder assigns to parameter j. *)
Theorem unpack_same_rules :
  forall (plains opts : list (uparam * tval)) (args : list arg) (K : list (string * arg)),
    let pts := (plains ++ opts)%list in
    let ps := map fst pts in
    let T0 := map snd pts in
    (forall pt, In pt plains -> p_marker (fst pt) = MPlain) ->
    (forall pt, In pt opts -> p_marker (fst pt) <> MPlain) ->
    NoDup (map (fun pt => p_name (fst pt)) pts) ->
    (forall p a, In p ps -> skip_none p a = false /\ accepts (p_kind p) (a_ty a) = true) ->
    match spec_unpack_err ps args K with
    | Some e => spec_core (sig_of plains opts) (map Stored args) (wrapK K) = Err (cls e)
    | None =>
        exists pv, spec_core (sig_of plains opts) (map Stored args) (wrapK K) =
                   Ok {| b_pos := pv; b_kwonly := []; b_args := None; b_kwargs := None |} /\
                   forall j, j < length ps -> option_map Some (nth_error pv j) = Some (want ps args K T0 j)
    end.
Proof. exact unpack_same_rules_lemma. Qed.

(* No clobbering: if unpacking fails because the argument for parameter i has a
   type (or integer range) its target does not accept -- whether it was passed
   positionally or by keyword -- target i still holds its previous content.
   What the other targets hold, exactly, when the failing argument is positional:
   the parameters before i hold their (positional) arguments, every later target
   is untouched. *)
Theorem unpack_no_clobber :
  forall (ps : list uparam) (args : list arg) (K : list (string * arg)) (T0 : list tval) (i : nat),
    NoDup (map p_name ps) -> length T0 = length ps ->
    (snd (unpack_args ps args K T0) = Some (UBadArg i) ->
     nth_error (fst (unpack_args ps args K T0)) i = nth_error T0 i) /\
    (first_bad_pos 0 args ps = Some (UBadArg i) -> length args <= length ps ->
     snd (unpack_args ps args K T0) = Some (UBadArg i) /\
     forall j, nth_error (fst (unpack_args ps args K T0)) j =
               if Nat.ltb j i then want ps args K T0 j else nth_error T0 j).
Proof. exact unpack_no_clobber_full. Qed.

(* UnpackPositionalArgs: same error classes as its specification, no clobbering
   of the failing target, and on success target j holds the j-th argument. *)
Theorem unpack_positional_correct :
  forall (min : nat) (kinds : list tkind) (args : list arg) (K : list (string * arg)) (T0 : list tval),
    length T0 = length kinds ->
    let r := unpack_positional min kinds args K T0 in
    snd r = spec_positional_err min kinds args K /\
    (forall k, snd r = Some (UBadArg k) -> nth_error (fst r) k = nth_error T0 k) /\
    (snd r = None -> forall j, nth_error (fst r) j =
         if Nat.ltb j (length args) then option_map Stored (nth_error args j) else nth_error T0 j).
Proof. exact unpack_positional_lemma. Qed.

Definition ex_ps : list uparam :=
  [ {| p_name := "x"; p_marker := MPlain; p_kind := KInt |};
    {| p_name := "y"; p_marker := MOpt; p_kind := KString |};
    {| p_name := "z"; p_marker := MOptNone; p_kind := KList |} ].
Definition ex_T0 : list tval := [Prev 0; Prev 1; Prev 2].
Definition mk (t : vtype) (n : nat) : arg := {| a_ty := t; a_id := n |}.

(* f(1, z=None): succeeds; z?? given None keeps its previous content *)
Example ex_unpack_ok :
  unpack_args ex_ps [mk (TInt 1%Z) 10] [("z", mk TNone 11)] ex_T0
  = ([Stored (mk (TInt 1%Z) 10); Prev 1; Prev 2], None)
  /\ NoDup (map p_name ex_ps) /\ length ex_T0 = length ex_ps.
Proof.
  split; [vm_compute; reflexivity|]. split; [|reflexivity].
  simpl. repeat (constructor; [simpl; intuition discriminate|]). constructor.
Qed.

(* f(1, y=[..]): y's argument has the wrong type by keyword; f(1, 2): positionally *)
Example ex_unpack_bad :
  unpack_args ex_ps [mk (TInt 1%Z) 10] [("y", mk TList 11)] ex_T0
  = ([Stored (mk (TInt 1%Z) 10); Prev 1; Prev 2], Some (UBadArg 1))
  /\ first_bad_pos 0 [mk (TInt 1%Z) 10; mk (TInt 2%Z) 11] ex_ps = Some (UBadArg 1).
Proof. split; vm_compute; reflexivity. Qed.

Definition pv (n : string) (m : marker) : uparam := {| p_name := n; p_marker := m; p_kind := KValue |}.
Example ex_same_rules :
  (forall p a, In p [pv "x" MPlain; pv "y" MOpt] -> skip_none p a = false /\ accepts (p_kind p) (a_ty a) = true)
  /\ spec_unpack_err [pv "x" MPlain; pv "y" MOpt] [mk TList 7] [("y", mk TNone 8)] = None
  /\ spec_core (sig_of [(pv "x" MPlain, Prev 0)] [(pv "y" MOpt, Prev 1)]) [Stored (mk TList 7)] (wrapK [("y", mk TNone 8)])
     = Ok {| b_pos := [Stored (mk TList 7); Stored (mk TNone 8)]; b_kwonly := []; b_args := None; b_kwargs := None |}.
Proof.
  split; [|split; vm_compute; reflexivity].
  intros p a [H|[H|[]]]; subst; split; reflexivity.
Qed.

Example ex_unpack_positional :
  unpack_positional 1 [KInt; KString] [mk (TInt 1%Z) 10; mk TBool 11] [] [Prev 0; Prev 1]
  = ([Stored (mk (TInt 1%Z) 10); Prev 1], Some (UBadArg 1)).
Proof. vm_compute. reflexivity. Qed.
