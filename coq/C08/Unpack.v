(* C08 -- UnpackArgs / UnpackPositionalArgs (starlark/unpack.go): executable
   model following the Go code statement by statement, and, below it, the
   specification written per parameter.  No proofs here.

   Not modelled: the parsing of the "?" / "??" suffix out of the name string
   (paramName; markers are an enum here), Unpacker implementations, the
   reflection path for user-defined Value types, the spell-check hint. *)
From Coq Require Import String List Bool Arith ZArith.
From SV Require Import C08.Model.     (* only for the list update `upd` *)
Import ListNotations.

(* ------------------------------------------------------------ vocabulary *)
Inductive marker := MPlain | MOpt | MOptNone.          (* "name", "name?", "name??" *)

(* dynamic type of an argument value (ints carry their value: AsInt checks a range) *)
Inductive vtype :=
| TNone | TBool | TInt (z : Z) | TFloat | TString | TList | TDict | TTuple | TFunc.

Record arg := { a_ty : vtype; a_id : nat }.

(* the Go type of the variable a parameter is unpacked into *)
Inductive tkind :=
| KValue | KString | KBool | KInt | KInt8 | KInt16 | KInt32 | KInt64 | KUint | KUint8 | KUint16 | KUint32 | KUint64
| KFloat | KList | KDict | KCallable | KIterable
| KUnpacker          (* a variable implementing Unpacker; the harness's instance takes strings only *)
| KTupleV | KIntV.    (* reflection path: a variable of a concrete Value type (starlark.Tuple, starlark.Int) *)

Record uparam := { p_name : string; p_marker : marker; p_kind : tkind }.

(* content of a target variable: what the caller had put there, or a stored argument *)
Inductive tval := Prev (n : nat) | Stored (a : arg).

Inductive uerr :=
| UTooManyPositional          (* got %d arguments, want at most %d *)
| UTooFewPositional           (* UnpackPositionalArgs: got %d arguments, want at least %d *)
| UKwargsNotAllowed           (* UnpackPositionalArgs: unexpected keyword arguments *)
| UUnexpectedKeyword
| UMultipleValues
| UMissing (i : nat)
| UBadArg (i : nat).          (* for parameter i: got T, want K  (or out of range) *)

(* unpackArgNoEscape / AsInt: does a variable of kind k take a value of type t? *)
Definition accepts (k : tkind) (t : vtype) : bool :=
  match k, t with
  | KValue, _ => true
  | KString, TString => true
  | KBool, TBool => true
  | (KInt | KInt64), TInt z => (Z.leb (- 2 ^ 63) z && Z.ltb z (2 ^ 63))%bool
  | KInt8, TInt z => (Z.leb (- 128) z && Z.ltb z 128)%bool
  | KInt16, TInt z => (Z.leb (- 32768) z && Z.ltb z 32768)%bool
  | KInt32, TInt z => (Z.leb (- 2147483648) z && Z.ltb z 2147483648)%bool
  | KUint8, TInt z => (Z.leb 0 z && Z.ltb z 256)%bool          (* AsInt, unsigned branch *)
  | KUint16, TInt z => (Z.leb 0 z && Z.ltb z 65536)%bool
  | KUint32, TInt z => (Z.leb 0 z && Z.ltb z 4294967296)%bool
  | (KUint | KUint64), TInt z => (Z.leb 0 z && Z.ltb z (2 ^ 64))%bool
  | KUnpacker, TString => true
  | KTupleV, TTuple => true
  | KIntV, TInt _ => true
  | KFloat, TFloat => true                       (* v.(Float): an int is NOT accepted *)
  | KList, TList => true
  | KDict, TDict => true
  | KCallable, TFunc => true
  | KIterable, (TList | TDict | TTuple) => true
  | _, _ => false
  end.

Definition is_none (a : arg) : bool := match a_ty a with TNone => true | _ => false end.
Definition skip_none (p : uparam) (a : arg) : bool :=
  match p_marker p with MOptNone => is_none a | _ => false end.

(* ------------------------------------------------------------------ model *)
Record ustate := { u_targets : list tval; u_defined : list bool }.

(* one `if skipNone && isNone {continue}; if err := UnpackArg(arg, ptr) ...` *)
Definition unpack_into (p : uparam) (i : nat) (a : arg) (st : ustate) : ustate * option uerr :=
  if skip_none p a then (st, None)
  else if accepts (p_kind p) (a_ty a)
       then ({| u_targets := upd i (Stored a) (u_targets st); u_defined := u_defined st |}, None)
       else (st, Some (UBadArg i)).                               (* On failure, don't clobber *ptr *)

Definition set_defined (i : nat) (st : ustate) : ustate :=
  {| u_targets := u_targets st; u_defined := upd i true (u_defined st) |}.

(* for i, arg := range args { defined.set(i); ... } *)
Fixpoint pos_loop (i : nat) (args : list arg) (ps : list uparam) (st : ustate) : ustate * option uerr :=
  match args, ps with
  | [], _ => (st, None)
  | a :: ar, p :: pr =>
      let r := unpack_into p i a (set_defined i st) in
      match snd r with
      | Some e => r
      | None => pos_loop (S i) ar pr (fst r)
      end
  | _ :: _, [] => (st, None)      (* unreachable: len(args) <= nparams was checked *)
  end.

(* for i := range nparams { if pName == name { ... } } *)
Fixpoint find_name (i : nat) (ps : list uparam) (name : string) : option (nat * uparam) :=
  match ps with
  | [] => None
  | p :: r => if String.eqb (p_name p) name then Some (i, p) else find_name (S i) r name
  end.

Fixpoint kw_loop (ps : list uparam) (kwargs : list (string * arg)) (st : ustate) : ustate * option uerr :=
  match kwargs with
  | [] => (st, None)
  | (name, a) :: rest =>
      match find_name 0 ps name with
      | Some (i, p) =>
          if nth i (u_defined st) false then (st, Some UMultipleValues)     (* defined.set(i) returned true *)
          else
            let r := unpack_into p i a (set_defined i st) in
            match snd r with
            | Some e => r
            | None => kw_loop ps rest (fst r)
            end
      | None => (st, Some UUnexpectedKeyword)
      end
  end.

(* for i := range nparams { if HasSuffix(name,"?") {break}; if i < len(args) {continue}; if !defined.get(i) {missing} } *)
Fixpoint missing_loop (i nargs : nat) (ps : list uparam) (st : ustate) : option uerr :=
  match ps with
  | [] => None
  | p :: r =>
      match p_marker p with
      | MPlain =>
          if i <? nargs then missing_loop (S i) nargs r st
          else if nth i (u_defined st) false then missing_loop (S i) nargs r st
          else Some (UMissing i)
      | _ => None                      (* break: all following parameters are implicitly optional *)
      end
  end.

Definition unpack_args (ps : list uparam) (args : list arg) (kwargs : list (string * arg))
                       (targets : list tval) : list tval * option uerr :=
  let st := {| u_targets := targets; u_defined := repeat false (length ps) |} in
  if length ps <? length args then (targets, Some UTooManyPositional)
  else
    let r := pos_loop 0 args ps st in
    match snd r with
    | Some e => (u_targets (fst r), Some e)
    | None =>
        let r := kw_loop ps kwargs (fst r) in
        match snd r with
        | Some e => (u_targets (fst r), Some e)
        | None => (u_targets (fst r), missing_loop 0 (length args) ps (fst r))
        end
    end.

(* UnpackPositionalArgs(fnname, args, kwargs, min, vars...): kinds = the types of vars *)
Fixpoint ppos_loop (i : nat) (args : list arg) (kinds : list tkind) (targets : list tval)
  : list tval * option uerr :=
  match args, kinds with
  | [], _ => (targets, None)
  | a :: ar, k :: kr =>
      if accepts k (a_ty a) then ppos_loop (S i) ar kr (upd i (Stored a) targets)
      else (targets, Some (UBadArg i))
  | _ :: _, [] => (targets, None)
  end.

Definition unpack_positional (min : nat) (kinds : list tkind) (args : list arg)
                             (kwargs : list (string * arg)) (targets : list tval)
  : list tval * option uerr :=
  match kwargs with
  | _ :: _ => (targets, Some UKwargsNotAllowed)
  | [] =>
      if length args <? min then (targets, Some UTooFewPositional)
      else if length kinds <? length args then (targets, Some UTooManyPositional)
      else ppos_loop 0 args kinds targets
  end.

(* ---------------------------------------------------------- specification *)
(* Written per parameter.  The argument designated for parameter i is the i-th
   positional argument, else the first keyword argument carrying its name.
   A call is rejected, in this order of precedence (the order is the
   implementation's; doc/spec.md fixes none):
     1. more positional arguments than parameters;
     2. the first positional argument whose type its parameter does not accept;
     3. the first keyword argument, in call order, that repeats a parameter
        already given (multiple values), or names a parameter whose kind does
        not accept it (bad argument), or names no parameter (unexpected);
     4. the first parameter before the first optional one that got no argument.
   A "??" parameter given None counts as given but keeps its previous content. *)
Fixpoint kassoc (k : string) (l : list (string * arg)) : option arg :=
  match l with
  | [] => None
  | (k', v) :: r => if String.eqb k' k then Some v else kassoc k r
  end.

Definition designated (ps : list uparam) (args : list arg) (kwargs : list (string * arg)) (i : nat) : option arg :=
  match nth_error args i with
  | Some a => Some a
  | None => match nth_error ps i with Some p => kassoc (p_name p) kwargs | None => None end
  end.

(* what target i holds once every argument has been delivered *)
Definition want (ps : list uparam) (args : list arg) (kwargs : list (string * arg))
                (targets : list tval) (i : nat) : option tval :=
  match nth_error targets i, nth_error ps i with
  | Some t0, Some p =>
      match designated ps args kwargs i with
      | Some a => if skip_none p a then Some t0 else Some (Stored a)
      | None => Some t0
      end
  | t0, _ => t0
  end.

Definition bad_for (p : uparam) (a : arg) : bool := negb (skip_none p a) && negb (accepts (p_kind p) (a_ty a)).

Fixpoint first_bad_pos (i : nat) (args : list arg) (ps : list uparam) : option uerr :=
  match args, ps with
  | a :: ar, p :: pr => if bad_for p a then Some (UBadArg i) else first_bad_pos (S i) ar pr
  | _, _ => None
  end.

Fixpoint index_of (i : nat) (ps : list uparam) (name : string) : option nat :=
  match ps with
  | [] => None
  | p :: r => if String.eqb (p_name p) name then Some i else index_of (S i) r name
  end.

(* seen = indices of the parameters that already have an argument *)
Fixpoint first_bad_kw (ps : list uparam) (seen : list nat) (kwargs : list (string * arg)) : option uerr :=
  match kwargs with
  | [] => None
  | (k, a) :: r =>
      match index_of 0 ps k with
      | None => Some UUnexpectedKeyword
      | Some i =>
          if existsb (Nat.eqb i) seen then Some UMultipleValues
          else match nth_error ps i with
               | Some p => if bad_for p a then Some (UBadArg i) else first_bad_kw ps (i :: seen) r
               | None => None
               end
      end
  end.

Fixpoint first_missing (i : nat) (ps : list uparam) (given : nat -> bool) : option uerr :=
  match ps with
  | [] => None
  | p :: r =>
      match p_marker p with
      | MPlain => if given i then first_missing (S i) r given else Some (UMissing i)
      | _ => None
      end
  end.

Definition first_of (a b : option uerr) : option uerr := match a with Some _ => a | None => b end.

Definition spec_unpack_err (ps : list uparam) (args : list arg) (kwargs : list (string * arg)) : option uerr :=
  if length ps <? length args then Some UTooManyPositional
  else first_of (first_bad_pos 0 args ps)
        (first_of (first_bad_kw ps (seq 0 (length args)) kwargs)
          (first_missing 0 ps (fun i => match designated ps args kwargs i with Some _ => true | None => false end))).

Definition spec_positional_err (min : nat) (kinds : list tkind) (args : list arg)
                               (kwargs : list (string * arg)) : option uerr :=
  match kwargs with
  | _ :: _ => Some UKwargsNotAllowed
  | [] => if length args <? min then Some UTooFewPositional
          else if length kinds <? length args then Some UTooManyPositional
          else (fix go i (args : list arg) (kinds : list tkind) :=
                  match args, kinds with
                  | a :: ar, k :: kr => if accepts k (a_ty a) then go (S i) ar kr else Some (UBadArg i)
                  | _, _ => None
                  end) 0 args kinds
  end.
