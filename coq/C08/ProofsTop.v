(* C08 -- lemmas, part 5: the statements of Properties.v for Starlark-defined functions. *)
From Coq Require Import String List Bool Arith Lia Permutation.
From SV Require Import C08.Types C08.Model C08.Spec C08.ProofsLayout C08.ProofsLoops C08.ProofsBind C08.ProofsMain.
Import ListNotations.

Section Top.
Context {V : Type}.

Lemma coarse_err_other (c : call V) e : e <> EAcceptsNoArgs -> coarse_err c e = e.
Proof. destruct e; simpl; auto. congruence. Qed.

Lemma bind_correct_lemma (s : signature V) (c : call V) :
  wf_sig s ->
  match call_observe (layout s) c with
  | Ok l => spec_observe s c = Ok l
  | Err e => spec_observe s c = Err (coarse_err c e)
  end.
Proof.
  intros Hwf. unfold call_observe, call_function, spec_observe.
  rewrite spec_bind_core. pose proof (flatten_spec c) as Hfl.
  destruct (keyword_args c) as [K|e] eqn:EK.
  - destruct (positional_args c) as [P|e] eqn:EP.
    + rewrite Hfl. simpl fst. simpl snd.
      pose proof (bind_main s Hwf P K) as Hm.
      destruct (setArgs (layout s) P K) as [st|e].
      * destruct Hm as [b [Hb [Ho _]]]. rewrite Hb, Ho. reflexivity.
      * rewrite Hm. unfold coarse_P, coarse_err. rewrite Hfl. destruct e; reflexivity.
    + rewrite Hfl. rewrite coarse_err_other; auto.
      unfold positional_args in EP. destruct (c_star c) as [[l|]|]; inversion EP; discriminate.
  - rewrite Hfl. rewrite coarse_err_other; auto.
    unfold keyword_args in EK. destruct (c_dstar c) as [[items|]|]; try discriminate.
    + destruct (keys_as_strings items); inversion EK; discriminate.
    + inversion EK; discriminate.
Qed.

Lemma bind_total_lemma (s : signature V) (c : call V) (st : state V) :
  wf_sig s ->
  call_function (layout s) c = Ok st ->
  Permutation (st_log st) (seq 0 (fi_num_params (layout s))) /\
  length (st_locals st) = fi_num_params (layout s) /\
  forall j, j < fi_num_params (layout s) -> is_nil st j = false.
Proof.
  intros Hwf H. unfold call_function in H. rewrite flatten_spec in H.
  destruct (keyword_args c) as [K|e]; [|discriminate].
  destruct (positional_args c) as [P|e]; [|discriminate]. simpl in H.
  pose proof (bind_main s Hwf P K) as Hm. rewrite H in Hm.
  destruct Hm as [b [_ [Ho [Hp Hl]]]].
  rewrite (layout_wf s Hwf). simpl fi_num_params.
  split; [exact Hp|]. split; [exact Hl|].
  intros j Hj. unfold is_nil.
  assert (E : nth_error (observe st) j = nth_error (map Some (bindings_list b)) j) by (rewrite Ho; reflexivity).
  unfold observe in E. rewrite !nth_error_map in E.
  destruct (nth_error (st_locals st) j) as [[x|]|] eqn:En; auto.
  - simpl in E. destruct (nth_error (bindings_list b) j); discriminate.
  - apply nth_error_None in En. lia.
Qed.

End Top.
