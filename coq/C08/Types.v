(* C08 -- vocabulary shared by the model of the implementation (Model.v) and the
   specification (Spec.v): signatures, calls, bound values, error classes.
   Nothing here computes a binding. *)
From Coq Require Import String List Bool Arith.
Import ListNotations.

Section Types.
Context {V : Type}.   (* Starlark values are opaque: binding never inspects them *)

(* A function signature
     def f(r1, .., o1=d1, .., [* | *args], k1[=e1], .., [**kwargs])              *)
Inductive star_kind := StarNone | StarBare | StarArgs (name : string).

Record signature := {
  sg_req    : list string;                  (* required positional-or-keyword *)
  sg_opt    : list (string * V);            (* optional positional-or-keyword, with default *)
  sg_star   : star_kind;
  sg_kwonly : list (string * option V);     (* keyword-only, with or without default *)
  sg_kwargs : option string
}.

Definition sig_names (s : signature) : list string :=
  sg_req s ++ map fst (sg_opt s) ++ map fst (sg_kwonly s) ++
  match sg_star s with StarArgs a => [a] | _ => [] end ++
  match sg_kwargs s with Some k => [k] | None => [] end.

(* what the resolver accepts (resolve.go resolver.function): distinct names,
   keyword-only parameters need a star, a bare star needs a keyword-only parameter *)
Definition wf_sig (s : signature) : Prop :=
  NoDup (sig_names s) /\
  (sg_star s = StarNone -> sg_kwonly s = []) /\
  (sg_star s = StarBare -> sg_kwonly s <> []).

(* A call  f(p1, .., n1=v1, .., *star, **dstar).  The operand of * may be a
   non-iterable, the operand of ** a non-mapping, a mapping key a non-string. *)
Inductive key := KStr (s : string) | KOther (tag : nat).
Inductive star_arg := SeqOk (elems : list V) | NotIterable.
Inductive dstar_arg := MapOk (items : list (key * V)) | NotMapping.

Record call := {
  c_pos   : list V;
  c_named : list (string * V);
  c_star  : option star_arg;
  c_dstar : option dstar_arg
}.

(* what a parameter is bound to *)
Inductive bound :=
| BVal (v : V)
| BTuple (l : list V)                 (* *args *)
| BDict (l : list (string * V)).      (* **kwargs, insertion order *)

Inductive err :=
| ETooManyPositional
| EUnexpectedKeyword
| EMultipleValues
| EMissing
| EStarNotIterable
| EDstarNotMapping
| EKeyNotString
| EAcceptsNoArgs.      (* setArgs' special message for parameterless functions; see Properties.v *)

Inductive result (A : Type) := Ok (a : A) | Err (e : err).

End Types.

Arguments signature : clear implicits.
Arguments call : clear implicits.
Arguments bound : clear implicits.
Arguments star_arg : clear implicits.
Arguments dstar_arg : clear implicits.
Arguments Ok {A} a.
Arguments Err {A} e.

Definition err_eqb (a b : err) : bool :=
  match a, b with
  | ETooManyPositional, ETooManyPositional | EUnexpectedKeyword, EUnexpectedKeyword
  | EMultipleValues, EMultipleValues | EMissing, EMissing
  | EStarNotIterable, EStarNotIterable | EDstarNotMapping, EDstarNotMapping
  | EKeyNotString, EKeyNotString | EAcceptsNoArgs, EAcceptsNoArgs => true
  | _, _ => false
  end.
