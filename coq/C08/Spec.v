(* C08 -- the specification: Python 3's rule for binding the arguments of a
   call to the parameters of a signature (doc/spec.md "Function calls" /
   Python reference 6.3.4), written per parameter, independently of the
   implementation model (it does not import Model.v and has no notion of slots,
   defaults tuples or loops over locals).

   The rule.  Let P be the positional arguments of the call followed by the
   elements of the *-operand, and K the named arguments followed by the items
   of the **-operand.
     - the i-th positional-or-keyword parameter is bound to P[i] if there is
       one; otherwise to the keyword argument carrying its name; otherwise to
       its default; otherwise the call fails (missing);
     - a keyword-only parameter is bound to the keyword argument carrying its
       name, else to its default, else the call fails (missing);
     - positional arguments beyond the positional-or-keyword parameters go to
       *args, in order; without *args the call fails (too many positional);
     - keyword arguments naming no parameter go to **kwargs, in order; without
       **kwargs the call fails (unexpected keyword);
     - a keyword argument naming a parameter that already has a positional
       argument, or repeating an earlier keyword, fails (multiple values).
   Which class is reported when several apply is not fixed by doc/spec.md (and
   differs from CPython's order); the order used here is: operand errors
   [double-star operand not a mapping, non-string key, star operand not iterable], too many positional,
   then the FIRST keyword argument in call order that is a duplicate or
   unexpected, then missing. *)
From Coq Require Import String List Bool Arith.
From SV Require Import C08.Types.
Import ListNotations.

Section Spec.
Context {V : Type}.

(* the bindings of a successful call, grouped as in the signature *)
Record bindings := {
  b_pos    : list V;                          (* positional-or-keyword parameters, in order *)
  b_kwonly : list V;                          (* keyword-only parameters, in order *)
  b_args   : option (list V);                 (* *args, if declared *)
  b_kwargs : option (list (string * V))       (* **kwargs, if declared *)
}.

Definition mem (x : string) (l : list string) : bool := existsb (String.eqb x) l.

Fixpoint assoc (k : string) (l : list (string * V)) : option V :=
  match l with
  | [] => None
  | (k', v) :: r => if String.eqb k' k then Some v else assoc k r
  end.

(* the keys of a ** operand must all be strings *)
Fixpoint keys_as_strings (items : list (key * V)) : option (list (string * V)) :=
  match items with
  | [] => Some []
  | (KOther _, _) :: _ => None
  | (KStr s, v) :: r => option_map (cons (s, v)) (keys_as_strings r)
  end.

Definition keyword_args (c : call V) : result (list (string * V)) :=
  match c_dstar c with
  | None => Ok (c_named c)
  | Some NotMapping => Err EDstarNotMapping
  | Some (MapOk items) =>
      match keys_as_strings items with
      | Some l => Ok (c_named c ++ l)
      | None => Err EKeyNotString
      end
  end.

Definition positional_args (c : call V) : result (list V) :=
  match c_star c with
  | None => Ok (c_pos c)
  | Some NotIterable => Err EStarNotIterable
  | Some (SeqOk l) => Ok (c_pos c ++ l)
  end.

(* the first keyword argument, in call order, that cannot be accepted:
   `seen` = names that already have a value *)
Fixpoint first_bad (params : list string) (has_kwargs : bool) (seen : list string)
                   (K : list (string * V)) : option err :=
  match K with
  | [] => None
  | (k, _) :: r =>
      if mem k seen then Some EMultipleValues
      else if mem k params || has_kwargs then first_bad params has_kwargs (k :: seen) r
      else Some EUnexpectedKeyword
  end.

Fixpoint all_some {A} (l : list (option A)) : option (list A) :=
  match l with
  | [] => Some []
  | Some x :: r => option_map (cons x) (all_some r)
  | None :: _ => None
  end.

Definition first_some {A} (a b : option A) : option A := match a with Some _ => a | None => b end.

Definition spec_bind (s : signature V) (c : call V) : result bindings :=
  match keyword_args c with
  | Err e => Err e
  | Ok K =>
  match positional_args c with
  | Err e => Err e
  | Ok P =>
      let pk : list (string * option V) :=          (* positional-or-keyword: name, default *)
        map (fun n => (n, None)) (sg_req s) ++ map (fun nd => (fst nd, Some (snd nd))) (sg_opt s) in
      let names := map fst pk ++ map fst (sg_kwonly s) in
      let has_args := match sg_star s with StarArgs _ => true | _ => false end in
      let has_kwargs := match sg_kwargs s with Some _ => true | None => false end in
      if (length pk <? length P) && negb has_args then Err ETooManyPositional else
      match first_bad names has_kwargs (firstn (length P) (map fst pk)) K with
      | Some e => Err e
      | None =>
          let pos_vals :=
            map (fun ind => first_some (nth_error P (fst ind))
                              (first_some (assoc (fst (snd ind)) K) (snd (snd ind))))
                (combine (seq 0 (length pk)) pk) in
          let kwo_vals := map (fun nd => first_some (assoc (fst nd) K) (snd nd)) (sg_kwonly s) in
          match all_some pos_vals, all_some kwo_vals with
          | Some pv, Some kv =>
              Ok {| b_pos := pv; b_kwonly := kv;
                    b_args := if has_args then Some (skipn (length pk) P) else None;
                    b_kwargs := if has_kwargs
                                then Some (filter (fun kv => negb (mem (fst kv) names)) K)
                                else None |}
          | _, _ => Err EMissing
          end
      end
  end
  end.

(* the values in the order  positional-or-keyword, keyword-only, *args, **kwargs *)
Definition bindings_list (b : bindings) : list (bound V) :=
  map BVal (b_pos b) ++ map BVal (b_kwonly b) ++
  match b_args b with Some l => [BTuple l] | None => [] end ++
  match b_kwargs b with Some d => [BDict d] | None => [] end.

Definition spec_observe (s : signature V) (c : call V) : result (list (option (bound V))) :=
  match spec_bind s c with
  | Err e => Err e
  | Ok b => Ok (map Some (bindings_list b))
  end.

End Spec.

Arguments bindings : clear implicits.
