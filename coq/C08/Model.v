(* C08 -- executable model of the code that binds arguments to parameters:
     resolve/resolve.go   resolver.function      parameter slot order, NumKwonlyParams, HasVarargs/HasKwargs
     internal/compile/compile.go fcomp.function  defaults tuple with MANDATORY, NumParams
     starlark/interp.go   case compile.CALL...      flattening of a call
     starlark/eval.go     setArgs, findParam        the binding algorithm
   Hand-written, statement by statement; tied to /repo by the correspondence
   check (checks/c08.py).  No proofs here. *)
From Coq Require Import String List Bool Arith.
From SV Require Import C08.Types.
Import ListNotations.

Section Model.
Context {V : Type}.

(* ------------------------------------------------------------------ syntax *)
(* function.Params as the parser hands it to the resolver:
   *syntax.Ident | *syntax.BinaryExpr (x=dflt) | *syntax.UnaryExpr for a bare star, *args, **kwargs *)
Inductive param :=
| PIdent (n : string)
| PDefault (n : string) (d : V)
| PStar (n : option string)
| PStarStar (n : string).

Definition params_of (s : signature V) : list param :=
  map PIdent (sg_req s) ++
  map (fun nd => PDefault (fst nd) (snd nd)) (sg_opt s) ++
  match sg_star s with StarNone => [] | StarBare => [PStar None] | StarArgs a => [PStar (Some a)] end ++
  map (fun nd => match snd nd with None => PIdent (fst nd) | Some d => PDefault (fst nd) d end) (sg_kwonly s) ++
  match sg_kwargs s with None => [] | Some k => [PStarStar k] end.

(* ---------------------------------------------------------------- resolver *)
(* state of the loop in resolver.function: star, starStar, numKwonlyParams
   and function.Locals as extended by r.bind (bindLocal appends a new local
   only if the name is not bound yet; the duplicate is an error reported
   elsewhere -- C09) *)
Record rstate := {
  r_star     : option (option string);   (* Some None = bare *, Some (Some a) = *a *)
  r_starstar : option string;
  r_nkw      : nat;
  r_locals   : list string
}.

Definition bind_name (n : string) (locals : list string) : list string :=
  if existsb (String.eqb n) locals then locals else locals ++ [n].

Definition count_kwonly (st : rstate) : nat :=
  match r_starstar st, r_star st with
  | None, Some _ => S (r_nkw st)          (* else if star != nil { numKwonlyParams++ } *)
  | _, _ => r_nkw st
  end.

Definition resolve_param (st : rstate) (p : param) : rstate :=
  match p with
  | PIdent n | PDefault n _ =>
      {| r_star := r_star st; r_starstar := r_starstar st;
         r_nkw := count_kwonly st; r_locals := bind_name n (r_locals st) |}
  | PStar x =>
      match r_starstar st, r_star st with
      | None, None => {| r_star := Some x; r_starstar := None; r_nkw := r_nkw st; r_locals := r_locals st |}
      | _, _ => st                       (* error branches: star is not updated *)
      end
  | PStarStar n =>
      {| r_star := r_star st; r_starstar := Some n; r_nkw := r_nkw st; r_locals := r_locals st |}
  end.

Record rfunction := {
  rf_locals : list string; rf_has_varargs : bool; rf_has_kwargs : bool; rf_num_kwonly : nat
}.

(* "Bind the *args and **kwargs parameters at the end" *)
Definition resolve_function (ps : list param) : rfunction :=
  let st := fold_left resolve_param ps
              {| r_star := None; r_starstar := None; r_nkw := 0; r_locals := [] |} in
  let lv := match r_star st with
            | Some (Some id) => (bind_name id (r_locals st), true)
            | _ => (r_locals st, false)
            end in
  let lk := match r_starstar st with
            | Some id => (bind_name id (fst lv), true)
            | None => (fst lv, false)
            end in
  {| rf_locals := fst lk; rf_has_varargs := snd lv; rf_has_kwargs := snd lk;
     rf_num_kwonly := r_nkw st |}.

(* ---------------------------------------------------------------- compiler *)
Inductive dflt := Mandatory | Dflt (v : V).

Record funcinfo := {
  fi_locals      : list string;     (* Funcode.Locals: parameters first *)
  fi_num_params  : nat;             (* Funcode.NumParams *)
  fi_num_kwonly  : nat;
  fi_has_varargs : bool;
  fi_has_kwargs  : bool;
  fi_defaults    : list dflt        (* Function.defaults *)
}.

(* the loop that emits the defaults tuple: (seenStar, tuple so far) *)
Definition defaults_step (acc : bool * list dflt) (p : param) : bool * list dflt :=
  match p with
  | PDefault _ d => (fst acc, snd acc ++ [Dflt d])
  | PStar _ | PStarStar _ => (true, snd acc)
  | PIdent _ => if fst acc then (true, snd acc ++ [Mandatory]) else acc
  end.

Definition compile_function (ps : list param) : funcinfo :=
  let rf := resolve_function ps in
  let defaults := snd (fold_left defaults_step ps (false, [])) in
  (* def f(a, *, b=1) has only 2 parameters *)
  let num := if (0 <? rf_num_kwonly rf) && negb (rf_has_varargs rf)
             then length ps - 1 else length ps in
  {| fi_locals := rf_locals rf; fi_num_params := num; fi_num_kwonly := rf_num_kwonly rf;
     fi_has_varargs := rf_has_varargs rf; fi_has_kwargs := rf_has_kwargs rf;
     fi_defaults := defaults |}.

Definition layout (s : signature V) : funcinfo := compile_function (params_of s).

(* ------------------------------------------------------- CALL* flattening *)
Fixpoint string_items (items : list (key * V)) : option (list (string * V)) :=
  match items with
  | [] => Some []
  | (KStr s, v) :: r => match string_items r with Some l => Some ((s, v) :: l) | None => None end
  | (KOther _, _) :: _ => None
  end.

Definition flatten (c : call V) : result (list V * list (string * V)) :=
  let kvpairs := c_named c in
  match (match c_dstar c with
         | None => Ok kvpairs
         | Some NotMapping => Err EDstarNotMapping
         | Some (MapOk items) =>
             match string_items items with
             | None => Err EKeyNotString
             | Some its => Ok (kvpairs ++ its)
             end
         end) with
  | Err e => Err e
  | Ok kvpairs =>
      match c_star c with
      | None => Ok (c_pos c, kvpairs)
      | Some NotIterable => Err EStarNotIterable
      | Some (SeqOk elems) => Ok (c_pos c ++ elems, kvpairs)
      end
  end.

(* ---------------------------------------------------------------- setArgs *)
(* a slot of locals[]: nil (None) or a value.  The **kwargs slot holds a
   pointer to the dict that later SetKey calls mutate: SKwRef + st_kwdict. *)
Inductive slot := SVal (v : V) | STuple (l : list V) | SKwRef.

Record state := {
  st_locals : list (option slot);
  st_kwdict : list (string * V);
  st_log    : list nat            (* indices i of every `locals[i] = ...` executed, latest first *)
}.

Fixpoint upd {A} (i : nat) (x : A) (l : list A) : list A :=
  match l, i with
  | [], _ => []
  | _ :: r, 0 => x :: r
  | y :: r, S j => y :: upd j x r
  end.

Definition store (i : nat) (x : slot) (st : state) : state :=
  {| st_locals := upd i (Some x) (st_locals st); st_kwdict := st_kwdict st; st_log := i :: st_log st |}.

Definition is_nil (st : state) (i : nat) : bool :=
  match nth_error (st_locals st) i with Some (Some _) => false | _ => true end.

Fixpoint findParam_from (i : nat) (params : list string) (name : string) : option nat :=
  match params with
  | [] => None
  | p :: r => if String.eqb p name then Some i else findParam_from (S i) r name
  end.
Definition findParam := findParam_from 0.

(* for i := 0; i < n; i++ { locals[i] = args[i] }   (l = args[:n], i counts up) *)
Fixpoint bind_positional (i : nat) (l : list V) (st : state) : state :=
  match l with
  | [] => st
  | a :: r => bind_positional (S i) r (store i (SVal a) st)
  end.

Definition dict_has (d : list (string * V)) (k : string) : bool :=
  existsb (fun kv => String.eqb (fst kv) k) d.

(* for _, pair := range kwargs { ... } *)
Fixpoint kwloop (paramIdents : list string) (has_kwdict : bool)
                (kwargs : list (string * V)) (st : state) : result state :=
  match kwargs with
  | [] => Ok st
  | (k, v) :: rest =>
      match findParam paramIdents k with
      | Some i =>
          if is_nil st i then kwloop paramIdents has_kwdict rest (store i (SVal v) st)
          else Err EMultipleValues
      | None =>
          if negb has_kwdict then Err EUnexpectedKeyword
          else if dict_has (st_kwdict st) k then Err EMultipleValues   (* Len unchanged after SetKey *)
          else kwloop paramIdents has_kwdict rest
                 {| st_locals := st_locals st; st_kwdict := st_kwdict st ++ [(k, v)]; st_log := st_log st |}
      end
  end.

(* for i = n; i < m; i++ { if locals[i] == nil { missing = append(...) } } *)
Fixpoint missing_required (idx : list nat) (st : state) : list nat :=
  match idx with
  | [] => []
  | i :: r => if is_nil st i then i :: missing_required r st else missing_required r st
  end.

(* for ; i < nparams; i++ { if locals[i] == nil { dflt := defaults[i-m]; ... } } *)
Fixpoint fill_defaults (idx : list nat) (m : nat) (defaults : list dflt) (st : state)
  : state * list nat :=
  match idx with
  | [] => (st, [])
  | i :: r =>
      if is_nil st i then
        match nth_error defaults (i - m) with
        | Some (Dflt d) => fill_defaults r m defaults (store i (SVal d) st)
        | _ => let res := fill_defaults r m defaults st in (fst res, i :: snd res)   (* mandatory *)
        end
      else fill_defaults r m defaults st
  end.

Definition setArgs (fn : funcinfo) (args : list V) (kwargs : list (string * V)) : result state :=
  let st0 := {| st_locals := repeat None (length (fi_locals fn)); st_kwdict := []; st_log := [] |} in
  if fi_num_params fn =? 0 then
    if 0 <? length args + length kwargs then Err EAcceptsNoArgs else Ok st0
  else
    let nparams := fi_num_params fn in
    let nparams := if fi_has_kwargs fn then nparams - 1 else nparams in
    let st := if fi_has_kwargs fn then store nparams SKwRef st0 else st0 in
    let has_kwdict := fi_has_kwargs fn in
    let nparams := if fi_has_varargs fn then nparams - 1 else nparams in
    let nonkwonly := nparams - fi_num_kwonly fn in
    if (nonkwonly <? length args) && negb (fi_has_varargs fn) then Err ETooManyPositional
    else
      let n := if nonkwonly <? length args then nonkwonly else length args in
      let st := bind_positional 0 (firstn n args) st in
      let st := if fi_has_varargs fn then store nparams (STuple (skipn n args)) st else st in
      let paramIdents := firstn nparams (fi_locals fn) in
      match kwloop paramIdents has_kwdict kwargs st with
      | Err e => Err e
      | Ok st =>
          if (n <? nparams) || (0 <? fi_num_kwonly fn) then
            let m := nparams - length (fi_defaults fn) in
            let missing1 := missing_required (seq n (m - n)) st in
            let i := if n <? m then m else n in
            let res := fill_defaults (seq i (nparams - i)) m (fi_defaults fn) st in
            match missing1 ++ snd res with
            | [] => Ok (fst res)
            | _ :: _ => Err EMissing
            end
          else Ok st
      end.

(* what the callee observes: locals[0:NumParams] with the kwargs pointer dereferenced *)
Definition observe_slot (st : state) (s : option slot) : option (bound V) :=
  match s with
  | None => None
  | Some (SVal v) => Some (BVal v)
  | Some (STuple l) => Some (BTuple l)
  | Some SKwRef => Some (BDict (st_kwdict st))
  end.

Definition observe (st : state) : list (option (bound V)) := map (observe_slot st) (st_locals st).

(* CALL on a Starlark function: flatten, then setArgs *)
Definition call_function (fn : funcinfo) (c : call V) : result state :=
  match flatten c with
  | Err e => Err e
  | Ok pk => setArgs fn (fst pk) (snd pk)
  end.

Definition call_observe (fn : funcinfo) (c : call V) : result (list (option (bound V))) :=
  match call_function fn c with Err e => Err e | Ok st => Ok (observe st) end.

(* setArgs reports "accepts no arguments" for a parameterless function whatever
   the surplus is; the property's four classes split it by what was surplus *)
Definition coarse_err (c : call V) (e : err) : err :=
  match e with
  | EAcceptsNoArgs =>
      match flatten c with
      | Ok pk => if 0 <? length (fst pk) then ETooManyPositional else EUnexpectedKeyword
      | Err _ => e
      end
  | _ => e
  end.

End Model.

Arguments param : clear implicits.
Arguments funcinfo : clear implicits.
Arguments state : clear implicits.
Arguments slot : clear implicits.
Arguments dflt : clear implicits.
