(* C08 -- lemmas, part 3: setArgs on the layout of a well-formed signature
   against the specification. *)
From Coq Require Import String List Bool Arith Lia Permutation.
From SV Require Import C08.Types C08.Model C08.Spec C08.ProofsLayout C08.ProofsLoops.
Import ListNotations.

Section Bind.
Context {V : Type}.

(* ------------------------------------------------- flattening = the P, K of the spec *)
Lemma string_items_keys (items : list (key * V)) : string_items items = keys_as_strings items.
Proof.
  induction items as [|[[s|t] v] r IH]; simpl; auto.
  all: try (rewrite IH; destruct (keys_as_strings r); reflexivity).
Qed.

Lemma flatten_spec (c : call V) :
  flatten c =
  match keyword_args c with
  | Err e => Err e
  | Ok K => match positional_args c with Err e => Err e | Ok P => Ok (P, K) end
  end.
Proof.
  unfold flatten, keyword_args, positional_args.
  destruct (c_dstar c) as [[items|]|]; simpl.
  - rewrite string_items_keys. destruct (keys_as_strings items); simpl; auto.
    destruct (c_star c) as [[el|]|]; auto.
  - reflexivity.
  - destruct (c_star c) as [[el|]|]; auto.
Qed.

(* the body of spec_bind once P and K are known *)
Definition spec_core (s : signature V) (P : list V) (K : list (string * V)) : result (bindings V) :=
  let pk : list (string * option V) :=
    map (fun n => (n, None)) (sg_req s) ++ map (fun nd => (fst nd, Some (snd nd))) (sg_opt s) in
  let names := map fst pk ++ map fst (sg_kwonly s) in
  let has_args := match sg_star s with StarArgs _ => true | _ => false end in
  let has_kwargs := match sg_kwargs s with Some _ => true | None => false end in
  if (length pk <? length P) && negb has_args then Err ETooManyPositional else
  match first_bad names has_kwargs (firstn (length P) (map fst pk)) K with
  | Some e => Err e
  | None =>
      let pos_vals :=
        map (fun ind => first_some (nth_error P (fst ind))
                          (first_some (assoc (fst (snd ind)) K) (snd (snd ind))))
            (combine (seq 0 (length pk)) pk) in
      let kwo_vals := map (fun nd => first_some (assoc (fst nd) K) (snd nd)) (sg_kwonly s) in
      match all_some pos_vals, all_some kwo_vals with
      | Some pv, Some kv =>
          Ok {| b_pos := pv; b_kwonly := kv;
                b_args := if has_args then Some (skipn (length pk) P) else None;
                b_kwargs := if has_kwargs
                            then Some (filter (fun kv => negb (mem (fst kv) names)) K)
                            else None |}
      | _, _ => Err EMissing
      end
  end.

Lemma spec_bind_core (s : signature V) (c : call V) :
  spec_bind s c =
  match keyword_args c with
  | Err e => Err e
  | Ok K => match positional_args c with Err e => Err e | Ok P => spec_core s P K end
  end.
Proof. reflexivity. Qed.

(* --------------------------------------------------------- small list facts *)
Lemma all_some_app {A} (l1 l2 : list (option A)) :
  all_some (l1 ++ l2) =
  match all_some l1, all_some l2 with Some a, Some b => Some (a ++ b) | _, _ => None end.
Proof.
  induction l1 as [|[x|] l1 IH]; simpl.
  - destruct (all_some l2); reflexivity.
  - rewrite IH. destruct (all_some l1), (all_some l2); reflexivity.
  - reflexivity.
Qed.

Lemma all_some_Some {A} (l : list (option A)) l' : all_some l = Some l' -> l = map Some l'.
Proof.
  revert l'; induction l as [|[x|] l IH]; intros l' H; simpl in H.
  - inversion H; reflexivity.
  - destruct (all_some l) eqn:E; simpl in H; inversion H; subst. simpl. f_equal. auto.
  - discriminate.
Qed.

Lemma all_some_None {A} (l : list (option A)) :
  all_some l = None <-> exists j, nth_error l j = Some None.
Proof.
  induction l as [|[x|] l IH]; simpl.
  - split; [discriminate|]. intros [[|j] H]; discriminate.
  - destruct (all_some l) eqn:E; simpl.
    + split; [discriminate|]. intros [[|j] H]; simpl in H; [discriminate|].
      assert (Hx : Some l0 = None :> option (list A)) by (apply IH; eauto). discriminate Hx.
    + split; auto. intros _. destruct IH as [IH _]. destruct (IH eq_refl) as [j Hj]. exists (S j); auto.
  - split; auto. intros _. exists 0; auto.
Qed.

Lemma nth_error_combine_seq {A} (l : list A) : forall a j,
  nth_error (combine (seq a (length l)) l) j = option_map (fun x => (a + j, x)) (nth_error l j).
Proof.
  induction l as [|x l IH]; intros a j; simpl.
  - destruct j; reflexivity.
  - destruct j; simpl.
    + rewrite Nat.add_0_r. reflexivity.
    + rewrite IH. replace (S a + j) with (a + S j) by lia. reflexivity.
Qed.

Lemma nth_error_firstn {A} (l : list A) : forall k j, j < k -> nth_error (firstn k l) j = nth_error l j.
Proof.
  induction l as [|x l IH]; intros [|k] [|j] H; simpl; auto; try lia.
  apply IH. lia.
Qed.

Lemma In_firstn {A} (l : list A) : forall k x, In x (firstn k l) -> In x l.
Proof.
  induction l as [|y l IH]; intros [|k] x H; simpl in *; auto; try contradiction.
  destruct H; auto. right; eauto.
Qed.

Lemma In_firstn_NoDup (l1 l2 : list string) k j x :
  NoDup (l1 ++ l2) -> nth_error (l1 ++ l2) j = Some x ->
  (In x (firstn k l1) <-> j < Nat.min k (length l1)).
Proof.
  intros Hnd Hj. split.
  - intros Hin. apply In_nth_error in Hin. destruct Hin as [i Hi].
    assert (Hil : i < length (firstn k l1)) by (apply nth_error_Some; congruence).
    rewrite firstn_length in Hil.
    assert (nth_error (l1 ++ l2) i = Some x).
    { rewrite nth_error_app1 by lia. rewrite <- Hi. symmetry. apply nth_error_firstn. lia. }
    assert (i = j) by (eapply NoDup_nth_error_inj; eauto). lia.
  - intros Hlt. apply nth_error_In with (n := j).
    rewrite nth_error_firstn by lia. rewrite <- Hj. symmetry. apply nth_error_app1. lia.
Qed.

Lemma nth_error_firstn_ge {A} (l : list A) k j : k <= j -> nth_error (firstn k l) j = None.
Proof. intros H. apply nth_error_None. rewrite firstn_length. lia. Qed.

Lemma Inv_full_perm (st : state V) :
  Inv st -> (forall j, j < length (st_locals st) -> is_nil st j = false) ->
  Permutation (st_log st) (seq 0 (length (st_locals st))).
Proof.
  intros [Hnd Hin] Hall. apply NoDup_Permutation; auto. apply seq_NoDup.
  intros j. rewrite Hin. rewrite in_seq. split.
  - intros [H _]; lia.
  - intros H. split; [lia|]. apply Hall. lia.
Qed.

End Bind.
