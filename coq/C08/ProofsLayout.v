(* C08 -- lemmas, part 1: list facts and the layout computed by the
   resolver/compiler model for a well-formed signature. *)
From Coq Require Import String List Bool Arith Lia.
From SV Require Import C08.Types C08.Model.
Import ListNotations.

(* ------------------------------------------------------------- list facts *)
Lemma upd_length {A} i (x : A) l : length (upd i x l) = length l.
Proof. revert i; induction l; intros [|i]; simpl; auto. Qed.

Lemma nth_error_upd {A} i (x : A) l j :
  nth_error (upd i x l) j =
  if Nat.eqb i j then (if Nat.ltb i (length l) then Some x else None) else nth_error l j.
Proof.
  revert i j; induction l as [|a l IH]; intros i j.
  - destruct i, j; simpl; auto. destruct (Nat.eqb i j); auto.
  - destruct i, j; simpl; auto.
    rewrite IH. destruct (Nat.eqb i j); auto.
Qed.

Lemma nth_error_upd_same {A} i (x : A) l : i < length l -> nth_error (upd i x l) i = Some x.
Proof.
  intros H. rewrite nth_error_upd, Nat.eqb_refl.
  destruct (Nat.ltb_spec i (length l)); auto; lia.
Qed.

Lemma nth_error_upd_other {A} i (x : A) l j : i <> j -> nth_error (upd i x l) j = nth_error l j.
Proof.
  intros H. rewrite nth_error_upd. destruct (Nat.eqb_spec i j); auto; contradiction.
Qed.

Lemma nth_error_ext {A} (l1 l2 : list A) :
  (forall j, nth_error l1 j = nth_error l2 j) -> l1 = l2.
Proof.
  revert l2; induction l1 as [|a l1 IH]; intros [|b l2] H; auto.
  - specialize (H 0); discriminate.
  - specialize (H 0); discriminate.
  - f_equal. + specialize (H 0); simpl in H; congruence.
    + apply IH. intros j. exact (H (S j)).
Qed.

Lemma nth_error_repeat {A} (x : A) n j :
  nth_error (repeat x n) j = if Nat.ltb j n then Some x else None.
Proof.
  revert j; induction n; intros [|j]; simpl; auto.
  rewrite IHn. destruct (Nat.ltb_spec j n), (Nat.ltb_spec (S j) (S n)); auto; lia.
Qed.

Lemma existsb_eqb_In (x : string) l : existsb (String.eqb x) l = true <-> In x l.
Proof.
  rewrite existsb_exists. split.
  - intros [y [Hy He]]. apply String.eqb_eq in He. subst; auto.
  - intros H. exists x. split; auto. apply String.eqb_refl.
Qed.

Lemma existsb_eqb_notIn (x : string) l : ~ In x l -> existsb (String.eqb x) l = false.
Proof.
  intros H. destruct (existsb (String.eqb x) l) eqn:E; auto.
  apply existsb_eqb_In in E. contradiction.
Qed.

Lemma NoDup_app_remove_r {A} (l l' : list A) : NoDup (l ++ l') -> NoDup l.
Proof.
  induction l as [|a l IH]; simpl; intros H; [constructor|].
  inversion H; subst. constructor; auto. intro Hin. apply H2. apply in_or_app; auto.
Qed.

Lemma NoDup_app_remove_l {A} (l l' : list A) : NoDup (l ++ l') -> NoDup l'.
Proof. induction l as [|a l IH]; simpl; intros H; auto. inversion H; auto. Qed.

(* ------------------------------------------------------------------ layout *)
Section Layout.
Context {V : Type}.

Definition named_params (nps : list (string * option V)) : list (param V) :=
  map (fun nd => match snd nd with None => PIdent (fst nd) | Some d => PDefault (fst nd) d end) nps.

Definition star_params (s : star_kind) : list (param V) :=
  match s with StarNone => [] | StarBare => [PStar None] | StarArgs a => [PStar (Some a)] end.

Definition kwargs_params (k : option string) : list (param V) :=
  match k with None => [] | Some k => [PStarStar k] end.

Definition req_nps (s : signature V) : list (string * option V) := map (fun n => (n, None)) (sg_req s).
Definition opt_nps (s : signature V) : list (string * option V) :=
  map (fun nd => (fst nd, Some (snd nd))) (sg_opt s).

Lemma params_of_eq (s : signature V) :
  params_of s = named_params (req_nps s) ++ named_params (opt_nps s) ++ star_params (sg_star s) ++
                named_params (sg_kwonly s) ++ kwargs_params (sg_kwargs s).
Proof.
  unfold params_of, named_params, req_nps, opt_nps, star_params, kwargs_params.
  rewrite !map_map. simpl. reflexivity.
Qed.

(* the resolver loop over a run of ordinary parameters *)
Lemma resolve_named (nps : list (string * option V)) : forall st,
  r_starstar st = None ->
  NoDup (r_locals st ++ map fst nps) ->
  fold_left resolve_param (named_params nps) st =
  {| r_star := r_star st; r_starstar := None;
     r_nkw := match r_star st with Some _ => r_nkw st + length nps | None => r_nkw st end;
     r_locals := r_locals st ++ map fst nps |}.
Proof.
  induction nps as [|[n d] nps IH]; intros st Hss Hnd.
  - simpl. rewrite app_nil_r. destruct st as [a b c e]; simpl in *; subst.
    destruct a; simpl; f_equal; lia.
  - simpl named_params. simpl fold_left.
    assert (Hstep : resolve_param st (match d with None => PIdent n | Some d0 => PDefault n d0 end) =
                    {| r_star := r_star st; r_starstar := None;
                       r_nkw := match r_star st with Some _ => S (r_nkw st) | None => r_nkw st end;
                       r_locals := r_locals st ++ [n] |}).
    { simpl in Hnd. apply NoDup_remove_2 in Hnd.
      assert (Hn : ~ In n (r_locals st)) by (intro; apply Hnd; apply in_or_app; auto).
      destruct d; simpl; unfold count_kwonly, bind_name; rewrite Hss;
        rewrite (existsb_eqb_notIn _ _ Hn); destruct (r_star st); reflexivity. }
    simpl in Hstep. rewrite Hstep.
    rewrite IH; simpl; auto.
    + rewrite <- app_assoc. simpl. destruct (r_star st); f_equal; lia.
    + rewrite <- app_assoc. simpl. exact Hnd.
Qed.

Definition dfl (seen : bool) (nps : list (string * option V)) : list (dflt V) :=
  flat_map (fun nd => match snd nd with
                      | Some d => [Dflt d]
                      | None => if seen then [Mandatory] else []
                      end) nps.

Lemma defaults_named (nps : list (string * option V)) : forall seen ds,
  fold_left defaults_step (named_params nps) (seen, ds) = (seen, ds ++ dfl seen nps).
Proof.
  induction nps as [|[n d] nps IH]; intros seen ds; simpl.
  - rewrite app_nil_r. reflexivity.
  - destruct d; simpl.
    + rewrite IH. rewrite <- app_assoc. reflexivity.
    + destruct seen; simpl.
      * rewrite IH. rewrite <- app_assoc. reflexivity.
      * rewrite IH. reflexivity.
Qed.

Definition pk_names (s : signature V) : list string := sg_req s ++ map fst (sg_opt s).
Definition kw_names (s : signature V) : list string := map fst (sg_kwonly s).
Definition ord_names (s : signature V) : list string := pk_names s ++ kw_names s.

Definition has_args (s : signature V) : bool := match sg_star s with StarArgs _ => true | _ => false end.
Definition has_kwargs (s : signature V) : bool := match sg_kwargs s with Some _ => true | None => false end.

Definition tail_names (s : signature V) : list string :=
  match sg_star s with StarArgs a => [a] | _ => [] end ++
  match sg_kwargs s with Some k => [k] | None => [] end.

Lemma sig_names_eq (s : signature V) : sig_names s = ord_names s ++ tail_names s.
Proof.
  unfold sig_names, ord_names, pk_names, kw_names, tail_names. rewrite <- !app_assoc. reflexivity.
Qed.

Definition sig_defaults (s : signature V) : list (dflt V) :=
  map (fun nd => Dflt (snd nd)) (sg_opt s) ++
  map (fun nd => match snd nd with Some d => Dflt d | None => Mandatory end) (sg_kwonly s).

Lemma dfl_req (s : signature V) seen : seen = false -> dfl seen (req_nps s) = [].
Proof. intros ->. unfold req_nps. induction (sg_req s); simpl; auto. Qed.

Lemma dfl_opt (s : signature V) seen : dfl seen (opt_nps s) = map (fun nd => Dflt (snd nd)) (sg_opt s).
Proof. unfold opt_nps. induction (sg_opt s); simpl; auto. f_equal; auto. Qed.

Lemma dfl_kwonly (l : list (string * option V)) :
  dfl true l = map (fun nd => match snd nd with Some d => Dflt d | None => Mandatory end) l.
Proof. induction l as [|[n [d|]] l IH]; simpl; auto; f_equal; auto. Qed.

Lemma map_fst_req (s : signature V) : map fst (req_nps s) = sg_req s.
Proof. unfold req_nps. rewrite map_map. simpl. apply map_id. Qed.

Lemma map_fst_opt (s : signature V) : map fst (opt_nps s) = map fst (sg_opt s).
Proof. unfold opt_nps. rewrite map_map. reflexivity. Qed.

Definition star_state (k : star_kind) : option (option string) :=
  match k with StarNone => None | StarBare => Some None | StarArgs a => Some (Some a) end.

Lemma wf_nodup_ord (s : signature V) : NoDup (sig_names s) -> NoDup (ord_names s).
Proof. rewrite sig_names_eq. apply NoDup_app_remove_r. Qed.

Lemma resolve_fold (s : signature V) :
  wf_sig s ->
  fold_left resolve_param (params_of s)
    {| r_star := None; r_starstar := None; r_nkw := 0; r_locals := [] |} =
  {| r_star := star_state (sg_star s); r_starstar := sg_kwargs s;
     r_nkw := length (sg_kwonly s); r_locals := ord_names s |}.
Proof.
  intros [Hnd [Hnone Hbare]].
  apply wf_nodup_ord in Hnd. unfold ord_names, pk_names, kw_names in *.
  assert (Hnd2 : NoDup (sg_req s ++ map fst (sg_opt s))) by (apply NoDup_app_remove_r in Hnd; exact Hnd).
  assert (Hnd1 : NoDup (sg_req s)) by (apply NoDup_app_remove_r in Hnd2; exact Hnd2).
  rewrite params_of_eq. rewrite !fold_left_app.
  rewrite (resolve_named (req_nps s) {| r_star := None; r_starstar := None; r_nkw := 0; r_locals := [] |});
    [| reflexivity | simpl; rewrite map_fst_req; exact Hnd1].
  rewrite map_fst_req. cbn [r_star r_nkw r_locals r_starstar app].
  rewrite (resolve_named (opt_nps s) {| r_star := None; r_starstar := None; r_nkw := 0; r_locals := sg_req s |});
    [| reflexivity | simpl; rewrite map_fst_opt; exact Hnd2].
  rewrite map_fst_opt. cbn [r_star r_nkw r_locals r_starstar app].
  destruct (sg_star s) eqn:Es; simpl star_params; simpl fold_left.
  - rewrite (Hnone eq_refl) in *. simpl named_params. simpl fold_left.
    destruct (sg_kwargs s); simpl; rewrite ?app_nil_r; reflexivity.
  - rewrite (resolve_named (sg_kwonly s) {| r_star := Some None; r_starstar := None; r_nkw := 0;
                   r_locals := sg_req s ++ map fst (sg_opt s) |}); [| reflexivity | exact Hnd].
    destruct (sg_kwargs s); simpl; reflexivity.
  - rewrite (resolve_named (sg_kwonly s) {| r_star := Some (Some name); r_starstar := None; r_nkw := 0;
                   r_locals := sg_req s ++ map fst (sg_opt s) |}); [| reflexivity | exact Hnd].
    destruct (sg_kwargs s); simpl; reflexivity.
Qed.

Theorem layout_wf (s : signature V) :
  wf_sig s ->
  layout s =
  {| fi_locals := sig_names s;
     fi_num_params := length (sig_names s);
     fi_num_kwonly := length (sg_kwonly s);
     fi_has_varargs := has_args s;
     fi_has_kwargs := has_kwargs s;
     fi_defaults := sig_defaults s |}.
Proof.
  intros [Hnd [Hnone Hbare]].
  unfold layout, compile_function.
  (* defaults *)
  assert (Hdef : snd (fold_left defaults_step (params_of s) (false, [])) = sig_defaults s).
  { rewrite params_of_eq. rewrite !fold_left_app.
    rewrite defaults_named, (dfl_req s false eq_refl), app_nil_r.
    rewrite defaults_named, dfl_opt. simpl app.
    unfold sig_defaults.
    destruct (sg_star s) eqn:Es; simpl star_params; simpl fold_left.
    - rewrite (Hnone eq_refl). simpl. destruct (sg_kwargs s); simpl; rewrite app_nil_r; reflexivity.
    - rewrite defaults_named, dfl_kwonly. destruct (sg_kwargs s); reflexivity.
    - rewrite defaults_named, dfl_kwonly. destruct (sg_kwargs s); reflexivity. }
  (* resolver *)
  assert (Hres : resolve_function (params_of s) =
                 {| rf_locals := sig_names s; rf_has_varargs := has_args s;
                    rf_has_kwargs := has_kwargs s; rf_num_kwonly := length (sg_kwonly s) |}).
  { unfold resolve_function. rewrite (resolve_fold s (conj Hnd (conj Hnone Hbare))).
    simpl. rewrite sig_names_eq in *. unfold tail_names, has_args, has_kwargs in *.
    destruct (sg_star s) eqn:Es; destruct (sg_kwargs s) eqn:Ek; simpl in *;
      rewrite ?app_nil_r in *; try reflexivity; unfold bind_name.
    - apply NoDup_remove_2 in Hnd. rewrite app_nil_r in Hnd.
      rewrite (existsb_eqb_notIn _ _ Hnd). reflexivity.
    - apply NoDup_remove_2 in Hnd. rewrite app_nil_r in Hnd.
      rewrite (existsb_eqb_notIn _ _ Hnd). reflexivity.
    - assert (Ha : ~ In name (ord_names s)).
      { apply NoDup_remove_2 in Hnd. intro; apply Hnd. apply in_or_app; auto. }
      rewrite (existsb_eqb_notIn _ _ Ha). simpl.
      assert (Hk : ~ In s0 (ord_names s ++ [name])).
      { replace (ord_names s ++ [name; s0]) with ((ord_names s ++ [name]) ++ [s0]) in Hnd
          by (rewrite <- app_assoc; reflexivity).
        apply NoDup_remove_2 in Hnd. rewrite app_nil_r in Hnd. exact Hnd. }
      rewrite (existsb_eqb_notIn _ _ Hk). rewrite <- app_assoc. reflexivity.
    - assert (Ha : ~ In name (ord_names s)).
      { apply NoDup_remove_2 in Hnd. rewrite app_nil_r in Hnd. exact Hnd. }
      rewrite (existsb_eqb_notIn _ _ Ha). reflexivity. }
  rewrite Hres, Hdef. simpl.
  f_equal.
  (* NumParams *)
  rewrite params_of_eq. unfold sig_names, named_params, req_nps, opt_nps, has_args.
  rewrite !app_length, !map_length.
  destruct (sg_star s) eqn:Es; simpl.
  - rewrite (Hnone eq_refl). simpl. destruct (sg_kwargs s); simpl; lia.
  - assert (length (sg_kwonly s) <> 0) by (destruct (sg_kwonly s); [exfalso; apply Hbare; auto | simpl; lia]).
    destruct (Nat.ltb_spec 0 (length (sg_kwonly s))); [|lia]. simpl.
    destruct (sg_kwargs s); simpl; lia.
  - rewrite andb_false_r. destruct (sg_kwargs s); simpl; lia.
Qed.

End Layout.
