(* C08 -- lemmas about the model of UnpackArgs / UnpackPositionalArgs. *)
From Coq Require Import String List Bool Arith ZArith Lia.
From SV Require Import C08.Model C08.Unpack C08.ProofsLayout.
Import ListNotations.

Definition dget (st : ustate) (j : nat) : bool := nth j (u_defined st) false.

Lemma nth_upd_bool i (x : bool) l j :
  nth j (upd i x l) false = if Nat.eqb i j then (if i <? length l then x else false) else nth j l false.
Proof.
  revert i j; induction l as [|a l IH]; intros i j.
  - destruct i, j; simpl; auto. destruct (Nat.eqb i j); auto.
  - destruct i, j; simpl; auto. rewrite IH.
    destruct (Nat.eqb i j); auto.
Qed.

Lemma unpack_into_spec p i a st :
  snd (unpack_into p i a st) = (if bad_for p a then Some (UBadArg i) else None) /\
  u_defined (fst (unpack_into p i a st)) = u_defined st /\
  u_targets (fst (unpack_into p i a st)) =
    (if skip_none p a || negb (accepts (p_kind p) (a_ty a)) then u_targets st
     else upd i (Stored a) (u_targets st)).
Proof.
  unfold unpack_into, bad_for. destruct (skip_none p a); simpl; auto.
  destruct (accepts (p_kind p) (a_ty a)); simpl; auto.
Qed.

(* ------------------------------------------------------------ positional loop *)
Lemma pos_loop_err args : forall ps i st, snd (pos_loop i args ps st) = first_bad_pos i args ps.
Proof.
  induction args as [|a args IH]; intros [|p ps] i st; simpl; auto.
  destruct (unpack_into_spec p i a (set_defined i st)) as [E _].
  destruct (snd (unpack_into p i a (set_defined i st))) eqn:Es.
  - destruct (bad_for p a); [congruence|discriminate].
  - destruct (bad_for p a); [discriminate|]. apply IH.
Qed.

Lemma pos_loop_ok args : forall ps i st,
  i + length args <= length (u_targets st) ->
  i + length args <= length (u_defined st) ->
  length args <= length ps ->
  snd (pos_loop i args ps st) = None ->
  let st' := fst (pos_loop i args ps st) in
  length (u_targets st') = length (u_targets st) /\
  length (u_defined st') = length (u_defined st) /\
  (forall j, dget st' j = if (i <=? j) && (j <? i + length args) then true else dget st j) /\
  (forall j, nth_error (u_targets st') j =
             if (i <=? j) && (j <? i + length args) then
               match nth_error args (j - i), nth_error ps (j - i) with
               | Some a, Some p => if skip_none p a then nth_error (u_targets st) j else Some (Stored a)
               | _, _ => nth_error (u_targets st) j
               end
             else nth_error (u_targets st) j).
Proof.
  induction args as [|a args IH]; intros [|p ps] i st Ht Hd Hl Hs; simpl in *.
  - repeat split; auto; intros j; destruct (Nat.leb_spec i j), (Nat.ltb_spec j (i + 0)); simpl; auto; lia.
  - repeat split; auto; intros j; destruct (Nat.leb_spec i j), (Nat.ltb_spec j (i + 0)); simpl; auto; lia.
  - lia.
  - destruct (unpack_into_spec p i a (set_defined i st)) as [E1 [E2 E3]].
    cbv zeta in *.
    destruct (snd (unpack_into p i a (set_defined i st))) eqn:Es; [congruence|].
    assert (Hb : bad_for p a = false) by (destruct (bad_for p a); [discriminate|reflexivity]).
    unfold bad_for in Hb.
    set (st1 := fst (unpack_into p i a (set_defined i st))) in *.
    assert (Hl1 : length (u_targets st1) = length (u_targets st)).
    { rewrite E3. destruct (skip_none p a || negb (accepts (p_kind p) (a_ty a))); simpl; auto. apply upd_length. }
    assert (Hd1 : length (u_defined st1) = length (u_defined st)).
    { rewrite E2. simpl. apply upd_length. }
    destruct (IH ps (S i) st1) as [I1 [I2 [I3 I4]]]; try lia; auto.
    split; [rewrite I1; exact Hl1|]. split; [rewrite I2; exact Hd1|]. split.
    + intros j. rewrite I3. unfold dget. rewrite E2. cbn [set_defined u_defined]. rewrite nth_upd_bool.
      destruct (Nat.leb_spec (S i) j), (Nat.ltb_spec j (S i + length args)), (Nat.leb_spec i j),
               (Nat.ltb_spec j (i + S (length args))), (Nat.eqb_spec i j); cbn [andb]; try lia; auto.
      destruct (Nat.ltb_spec i (length (u_defined st))); auto; lia.
    + intros j. rewrite I4, E3. cbn [set_defined u_targets].
      destruct (Nat.eqb_spec j i) as [->|Hne].
      { replace ((S i <=? i) && (i <? S i + length args)) with false
          by (destruct (Nat.leb_spec (S i) i); [lia|reflexivity]).
        replace ((i <=? i) && (i <? i + S (length args))) with true
          by (destruct (Nat.leb_spec i i), (Nat.ltb_spec i (i + S (length args))); simpl; auto; lia).
        rewrite Nat.sub_diag. simpl. destruct (skip_none p a); simpl in *; auto.
        rewrite Hb. simpl. apply nth_error_upd_same. lia. }
      { replace ((i <=? j) && (j <? i + S (length args))) with ((S i <=? j) && (j <? S i + length args))
          by (destruct (Nat.leb_spec (S i) j), (Nat.ltb_spec j (S i + length args)), (Nat.leb_spec i j),
                       (Nat.ltb_spec j (i + S (length args))); simpl; auto; lia).
        assert (Hu : nth_error (if skip_none p a || negb (accepts (p_kind p) (a_ty a))
                                then u_targets st
                                else upd i (Stored a) (u_targets st)) j
                     = nth_error (u_targets st) j).
        { destruct (skip_none p a || negb (accepts (p_kind p) (a_ty a))); simpl; auto.
          apply nth_error_upd_other. lia. }
        destruct ((S i <=? j) && (j <? S i + length args)) eqn:Ec; [|exact Hu].
        assert (S i <= j) by (apply andb_prop in Ec; destruct Ec as [Ec _]; apply Nat.leb_le in Ec; exact Ec).
        replace (j - i) with (S (j - S i)) by lia. simpl. rewrite Hu.
        destruct (nth_error args (j - S i)), (nth_error ps (j - S i)); auto. }
Qed.

(* a failing positional loop: the failing target is untouched, the earlier ones
   hold their arguments, the later ones are untouched *)
Lemma pos_loop_fail args : forall ps i st k,
  i + length args <= length (u_targets st) ->
  length args <= length ps ->
  snd (pos_loop i args ps st) = Some (UBadArg k) ->
  i <= k < i + length args /\
  forall j, nth_error (u_targets (fst (pos_loop i args ps st))) j =
            if (i <=? j) && (j <? k) then
              match nth_error args (j - i), nth_error ps (j - i) with
              | Some a, Some p => if skip_none p a then nth_error (u_targets st) j else Some (Stored a)
              | _, _ => nth_error (u_targets st) j
              end
            else nth_error (u_targets st) j.
Proof.
  induction args as [|a args IH]; intros [|p ps] i st k Ht Hl Hs; simpl in *; try discriminate; try lia.
  destruct (unpack_into_spec p i a (set_defined i st)) as [E1 [E2 E3]].
  destruct (snd (unpack_into p i a (set_defined i st))) eqn:Es.
  - (* fails here *)
    rewrite Es in Hs. destruct (bad_for p a) eqn:Eb; [|discriminate].
    assert (k = i) by congruence. subst k. split; [lia|].
    intros j. rewrite E3. unfold bad_for in Eb.
    destruct (Nat.leb_spec i j), (Nat.ltb_spec j i); cbn [andb]; try lia;
      destruct (skip_none p a); simpl in *; auto; rewrite Eb; reflexivity.
  - assert (Hb : bad_for p a = false) by (destruct (bad_for p a); [discriminate|reflexivity]).
    unfold bad_for in Hb.
    set (st1 := fst (unpack_into p i a (set_defined i st))) in *.
    assert (Hl1 : length (u_targets st1) = length (u_targets st)).
    { rewrite E3. destruct (skip_none p a || negb (accepts (p_kind p) (a_ty a))); simpl; auto. apply upd_length. }
    destruct (IH ps (S i) st1 k) as [Hk I4]; try lia; auto.
    split; [lia|]. intros j. rewrite I4, E3. cbn [set_defined u_targets].
    destruct (Nat.eqb_spec j i) as [->|Hne].
    { replace ((S i <=? i) && (i <? k)) with false
        by (destruct (Nat.leb_spec (S i) i); [lia|reflexivity]).
      replace ((i <=? i) && (i <? k)) with true
        by (destruct (Nat.leb_spec i i), (Nat.ltb_spec i k); simpl; auto; lia).
      rewrite Nat.sub_diag. simpl. destruct (skip_none p a); simpl in *; auto.
      rewrite Hb. simpl. apply nth_error_upd_same. lia. }
    { replace ((i <=? j) && (j <? k)) with ((S i <=? j) && (j <? k))
        by (destruct (Nat.leb_spec (S i) j), (Nat.ltb_spec j k), (Nat.leb_spec i j); simpl; auto; lia).
      assert (Hu : nth_error (if skip_none p a || negb (accepts (p_kind p) (a_ty a))
                              then u_targets st
                              else upd i (Stored a) (u_targets st)) j
                   = nth_error (u_targets st) j).
      { destruct (skip_none p a || negb (accepts (p_kind p) (a_ty a))); simpl; auto.
        apply nth_error_upd_other. lia. }
      destruct ((S i <=? j) && (j <? k)) eqn:Ec; [|exact Hu].
      assert (S i <= j) by (apply andb_prop in Ec; destruct Ec as [Ec _]; apply Nat.leb_le in Ec; exact Ec).
      replace (j - i) with (S (j - S i)) by lia. simpl. rewrite Hu.
      destruct (nth_error args (j - S i)), (nth_error ps (j - S i)); auto. }
Qed.

(* --------------------------------------------------------------- keyword loop *)
Lemma find_name_spec ps : forall i k,
  match find_name i ps k with
  | Some (j, p) => i <= j /\ nth_error ps (j - i) = Some p /\ p_name p = k /\ index_of i ps k = Some j
  | None => index_of i ps k = None
  end.
Proof.
  induction ps as [|q ps IH]; intros i k; simpl; auto.
  destruct (String.eqb_spec (p_name q) k).
  - rewrite Nat.sub_diag. simpl. auto.
  - specialize (IH (S i) k). destruct (find_name (S i) ps k) as [[j p]|]; auto.
    destruct IH as [H1 [H2 [H3 H4]]]. split; [lia|]. split; auto.
    replace (j - i) with (S (j - S i)) by lia. exact H2.
Qed.

Lemma names_inj ps j j' p p' :
  NoDup (map p_name ps) -> nth_error ps j = Some p -> nth_error ps j' = Some p' ->
  p_name p = p_name p' -> j = j'.
Proof.
  intros Hnd H1 H2 He. rewrite NoDup_nth_error in Hnd. apply Hnd.
  - rewrite map_length. apply nth_error_Some. congruence.
  - rewrite !nth_error_map, H1, H2. simpl. congruence.
Qed.

Definition is_some {A} (o : option A) : bool := match o with Some _ => true | None => false end.

Lemma kw_loop_err ps K : forall st seen,
  length (u_defined st) = length ps ->
  (forall j, j < length ps -> dget st j = existsb (Nat.eqb j) seen) ->
  snd (kw_loop ps K st) = first_bad_kw ps seen K.
Proof.
  induction K as [|[k a] K IH]; intros st seen Hl Hrel; simpl; auto.
  pose proof (find_name_spec ps 0 k) as Hf.
  destruct (find_name 0 ps k) as [[i p]|].
  - destruct Hf as [_ [Hp [Hn Hi]]]. rewrite Nat.sub_0_r in Hp. rewrite Hi.
    assert (Hil : i < length ps) by (apply nth_error_Some; congruence).
    fold (dget st i). rewrite (Hrel i Hil).
    destruct (existsb (Nat.eqb i) seen); [reflexivity|].
    rewrite Hp.
    destruct (unpack_into_spec p i a (set_defined i st)) as [E1 [E2 E3]].
    destruct (snd (unpack_into p i a (set_defined i st))) eqn:Es.
    + destruct (bad_for p a); [congruence|discriminate].
    + destruct (bad_for p a); [discriminate|].
      apply IH.
      * rewrite E2. simpl. rewrite upd_length. exact Hl.
      * intros j Hj. unfold dget. rewrite E2. simpl. rewrite nth_upd_bool. rewrite Nat.eqb_sym.
        destruct (Nat.eqb_spec j i); simpl.
        -- subst. destruct (Nat.ltb_spec i (length (u_defined st))); auto; lia.
        -- apply Hrel; auto.
  - rewrite Hf. reflexivity.
Qed.

Lemma kw_loop_ok ps K : forall st,
  NoDup (map p_name ps) ->
  length (u_defined st) = length ps -> length (u_targets st) = length ps ->
  snd (kw_loop ps K st) = None ->
  let st' := fst (kw_loop ps K st) in
  length (u_targets st') = length ps /\
  forall j p, nth_error ps j = Some p ->
    dget st' j = dget st j || is_some (kassoc (p_name p) K) /\
    nth_error (u_targets st') j =
      if dget st j then nth_error (u_targets st) j
      else match kassoc (p_name p) K with
           | Some a => if skip_none p a then nth_error (u_targets st) j else Some (Stored a)
           | None => nth_error (u_targets st) j
           end.
Proof.
  induction K as [|[k a] K IH]; intros st Hnd Hd Ht Hs; simpl in *.
  - split; auto. intros j p Hp. rewrite orb_false_r. split; auto. destruct (dget st j); auto.
  - pose proof (find_name_spec ps 0 k) as Hf.
    destruct (find_name 0 ps k) as [[i q]|]; [|discriminate].
    destruct Hf as [_ [Hq [Hn _]]]. rewrite Nat.sub_0_r in Hq.
    assert (Hil : i < length ps) by (apply nth_error_Some; congruence).
    fold (dget st i) in *.
    destruct (dget st i) eqn:Edi; [discriminate|].
    destruct (unpack_into_spec q i a (set_defined i st)) as [E1 [E2 E3]].
    cbv zeta in *.
    destruct (snd (unpack_into q i a (set_defined i st))) eqn:Es; [congruence|].
    assert (Hb : bad_for q a = false) by (destruct (bad_for q a); [discriminate|reflexivity]).
    unfold bad_for in Hb.
    set (st1 := fst (unpack_into q i a (set_defined i st))) in *.
    assert (Hd1 : length (u_defined st1) = length ps) by (rewrite E2; simpl; rewrite upd_length; exact Hd).
    assert (Ht1 : length (u_targets st1) = length ps).
    { rewrite E3. simpl. destruct (skip_none q a || negb (accepts (p_kind q) (a_ty a))); auto.
      rewrite upd_length; auto. }
    destruct (IH st1 Hnd Hd1 Ht1 Hs) as [I1 I2].
    split; [exact I1|]. intros j p Hp. destruct (I2 j p Hp) as [J1 J2].
    assert (Hdj : dget st1 j = if Nat.eqb i j then true else dget st j).
    { unfold dget. rewrite E2. simpl. rewrite nth_upd_bool.
      destruct (Nat.eqb i j); auto. destruct (Nat.ltb_spec i (length (u_defined st))); auto; lia. }
    destruct (Nat.eqb_spec i j).
    + subst j. assert (p = q) by congruence. subst p.
      rewrite Hn, String.eqb_refl. simpl is_some. rewrite orb_true_r.
      rewrite J1, J2, Hdj. simpl. split; auto.
      rewrite Edi. rewrite E3. simpl.
      destruct (skip_none q a); simpl in *; auto.
      rewrite Hb. simpl. apply nth_error_upd_same. lia.
    + assert (Hne : String.eqb k (p_name p) = false).
      { destruct (String.eqb_spec k (p_name p)); auto. exfalso. apply n.
        eapply names_inj; eauto. congruence. }
      rewrite Hne. rewrite J1, J2, Hdj.
      assert (Hu : nth_error (u_targets st1) j = nth_error (u_targets st) j).
      { rewrite E3. simpl. destruct (skip_none q a || negb (accepts (p_kind q) (a_ty a))); auto.
        apply nth_error_upd_other; auto. }
      rewrite Hu. split; reflexivity.
Qed.

Lemma kw_loop_defined_no_bad ps K i : forall st,
  dget st i = true -> i < length (u_defined st) -> snd (kw_loop ps K st) <> Some (UBadArg i).
Proof.
  induction K as [|[k a] K IH]; intros st Hd Hl; simpl; [discriminate|].
  pose proof (find_name_spec ps 0 k) as Hf.
  destruct (find_name 0 ps k) as [[i0 q]|]; [|discriminate].
  fold (dget st i0).
  destruct (dget st i0) eqn:Ed0; [discriminate|].
  destruct (unpack_into_spec q i0 a (set_defined i0 st)) as [E1 [E2 E3]].
  destruct (snd (unpack_into q i0 a (set_defined i0 st))) eqn:Es.
  - rewrite Es. destruct (bad_for q a); [|discriminate].
    intro H. assert (i0 = i) by congruence. subst. congruence.
  - apply IH.
    + unfold dget. rewrite E2. simpl. rewrite nth_upd_bool.
      destruct (Nat.eqb_spec i0 i); auto. subst. congruence.
    + rewrite E2. simpl. rewrite upd_length. exact Hl.
Qed.

Lemma kw_loop_fail ps K i : forall st,
  length (u_defined st) = length ps ->
  snd (kw_loop ps K st) = Some (UBadArg i) ->
  dget st i = false /\ nth_error (u_targets (fst (kw_loop ps K st))) i = nth_error (u_targets st) i.
Proof.
  induction K as [|[k a] K IH]; intros st Hl Hs; simpl in *; [discriminate|].
  pose proof (find_name_spec ps 0 k) as Hf.
  destruct (find_name 0 ps k) as [[i0 q]|]; [|discriminate].
  destruct Hf as [_ [Hq _]]. rewrite Nat.sub_0_r in Hq.
  assert (Hil : i0 < length ps) by (apply nth_error_Some; congruence).
  fold (dget st i0) in *.
  destruct (dget st i0) eqn:Ed0; [discriminate|].
  destruct (unpack_into_spec q i0 a (set_defined i0 st)) as [E1 [E2 E3]].
  cbv zeta in *.
  destruct (snd (unpack_into q i0 a (set_defined i0 st))) eqn:Es.
  - rewrite Es in Hs. destruct (bad_for q a) eqn:Eb; [|discriminate].
    assert (i0 = i) by congruence. subst i0. split; auto.
    rewrite E3. simpl. unfold bad_for in Eb.
    destruct (skip_none q a); simpl in *; [discriminate|]. rewrite Eb. reflexivity.
  - set (st1 := fst (unpack_into q i0 a (set_defined i0 st))) in *.
    assert (Hd1 : length (u_defined st1) = length ps) by (rewrite E2; simpl; rewrite upd_length; exact Hl).
    destruct (IH st1 Hd1 Hs) as [I1 I2].
    assert (Hne : i0 <> i).
    { intro; subst i0. unfold dget in I1. rewrite E2 in I1. simpl in I1. rewrite nth_upd_bool, Nat.eqb_refl in I1.
      destruct (Nat.ltb_spec i (length (u_defined st))); [discriminate|lia]. }
    split.
    + unfold dget in I1. rewrite E2 in I1. simpl in I1. rewrite nth_upd_bool in I1.
      destruct (Nat.eqb_spec i0 i); [contradiction|exact I1].
    + rewrite I2, E3. simpl. destruct (skip_none q a || negb (accepts (p_kind q) (a_ty a))); auto.
      apply nth_error_upd_other; auto.
Qed.

(* ---------------------------------------------------------------- missing loop *)
Lemma missing_loop_spec nargs given st : forall ps i,
  (forall j, i <= j < i + length ps -> (j <? nargs) || dget st j = given j) ->
  missing_loop i nargs ps st = first_missing i ps given.
Proof.
  induction ps as [|p ps IH]; intros i H; simpl; auto.
  destruct (p_marker p); auto.
  rewrite <- (H i) by (simpl; lia). fold (dget st i).
  destruct (i <? nargs); simpl.
  - apply IH. intros j Hj. apply H. simpl. lia.
  - destruct (dget st i); auto. apply IH. intros j Hj. apply H. simpl. lia.
Qed.

(* ------------------------------------------------------------- top statements *)
Lemma nth_repeat_false n : forall j, nth j (repeat false n) false = false.
Proof. induction n; intros [|j]; simpl; auto. Qed.

Lemma existsb_seq0 j k : existsb (Nat.eqb j) (seq 0 k) = (j <? k).
Proof.
  assert (G : forall i, existsb (Nat.eqb j) (seq i k) = (i <=? j) && (j <? i + k)).
  { induction k; intros i; simpl.
    - destruct (Nat.leb_spec i j), (Nat.ltb_spec j (i + 0)); simpl; auto; lia.
    - rewrite IHk. destruct (Nat.eqb_spec j i), (Nat.leb_spec i j), (Nat.leb_spec (S i) j),
        (Nat.ltb_spec j (S i + k)), (Nat.ltb_spec j (i + S k)); simpl; auto; lia. }
  rewrite G. simpl. reflexivity.
Qed.

Section Top.
Variables (ps : list uparam) (args : list arg) (K : list (string * arg)) (T0 : list tval).
Hypothesis Hnd : NoDup (map p_name ps).
Hypothesis HT0 : length T0 = length ps.

Let st0 := {| u_targets := T0; u_defined := repeat false (length ps) |}.

Lemma dget_st0 j : dget st0 j = false.
Proof. unfold dget, st0. simpl. apply nth_repeat_false. Qed.

Lemma unpack_err_lemma : snd (unpack_args ps args K T0) = spec_unpack_err ps args K.
Proof.
  unfold unpack_args, spec_unpack_err. fold st0.
  destruct (Nat.ltb_spec (length ps) (length args)) as [Hlt|Hle]; [reflexivity|].
  pose proof (pos_loop_err args ps 0 st0) as Hpe.
  destruct (snd (pos_loop 0 args ps st0)) as [e|] eqn:Ep.
  - rewrite <- Hpe. reflexivity.
  - rewrite <- Hpe. simpl first_of.
    destruct (pos_loop_ok args ps 0 st0) as [P1 [P2 [P3 P4]]]; simpl; try rewrite repeat_length; try lia; auto.
    set (st1 := fst (pos_loop 0 args ps st0)) in *.
    assert (Hd1 : length (u_defined st1) = length ps) by (rewrite P2; simpl; apply repeat_length).
    assert (Hdg : forall j, dget st1 j = (j <? length args)).
    { intros j. rewrite P3, dget_st0. simpl. destruct (j <? length args); reflexivity. }
    pose proof (kw_loop_err ps K st1 (seq 0 (length args)) Hd1) as Hke.
    rewrite <- Hke by (intros j _; rewrite Hdg, existsb_seq0; reflexivity).
    destruct (snd (kw_loop ps K st1)) as [e|] eqn:Ek; [reflexivity|]. simpl first_of.
    assert (Ht1 : length (u_targets st1) = length ps) by (rewrite P1; exact HT0).
    destruct (kw_loop_ok ps K st1 Hnd Hd1 Ht1 Ek) as [_ Q].
    apply missing_loop_spec. intros j Hj. simpl in Hj.
    destruct (nth_error ps j) as [p|] eqn:Epj.
    2:{ apply nth_error_None in Epj. lia. }
    destruct (Q j p Epj) as [Q1 _]. rewrite Q1, Hdg. unfold designated. rewrite Epj.
    destruct (Nat.ltb_spec j (length args)).
    + destruct (nth_error args j) eqn:Ea; auto. apply nth_error_None in Ea. lia.
    + assert (nth_error args j = None) by (apply nth_error_None; lia). rewrite H0. simpl.
      destruct (kassoc (p_name p) K); reflexivity.
Qed.

Lemma unpack_ok_lemma :
  snd (unpack_args ps args K T0) = None ->
  forall j, nth_error (fst (unpack_args ps args K T0)) j = want ps args K T0 j.
Proof.
  unfold unpack_args. fold st0.
  destruct (Nat.ltb_spec (length ps) (length args)) as [Hlt|Hle]; [discriminate|].
  destruct (snd (pos_loop 0 args ps st0)) as [e|] eqn:Ep; [discriminate|].
  destruct (pos_loop_ok args ps 0 st0) as [P1 [P2 [P3 P4]]]; simpl; try rewrite repeat_length; try lia; auto.
  set (st1 := fst (pos_loop 0 args ps st0)) in *.
  assert (Hd1 : length (u_defined st1) = length ps) by (rewrite P2; simpl; apply repeat_length).
  assert (Ht1 : length (u_targets st1) = length ps) by (rewrite P1; exact HT0).
  destruct (snd (kw_loop ps K st1)) as [e|] eqn:Ek; [discriminate|].
  destruct (kw_loop_ok ps K st1 Hnd Hd1 Ht1 Ek) as [Q0 Q].
  simpl. intros _ j. unfold want.
  destruct (nth_error ps j) as [p|] eqn:Epj.
  - destruct (Q j p Epj) as [_ Q2]. rewrite Q2. rewrite P3, dget_st0, P4. simpl. rewrite Nat.sub_0_r, Epj.
    unfold designated. rewrite Epj.
    assert (Hjl : j < length T0) by (rewrite HT0; apply nth_error_Some; congruence).
    destruct (nth_error T0 j) as [t0|] eqn:Et0; [|apply nth_error_None in Et0; lia].
    destruct (Nat.ltb_spec j (length args)).
    + destruct (nth_error args j) eqn:Ea; [|apply nth_error_None in Ea; lia].
      destruct (skip_none p a); reflexivity.
    + assert (Hn : nth_error args j = None) by (apply nth_error_None; lia). rewrite Hn.
      destruct (kassoc (p_name p) K) as [a|]; auto; try (destruct (skip_none p a); reflexivity).
  - assert (Hge : length ps <= j) by (apply nth_error_None; exact Epj).
    assert (E1 : nth_error (u_targets (fst (kw_loop ps K st1))) j = None) by (apply nth_error_None; lia).
    assert (E2 : nth_error T0 j = None) by (apply nth_error_None; lia).
    rewrite E1, E2. reflexivity.
Qed.

(* a parameter whose argument has the wrong type leaves its target unchanged *)
Lemma unpack_no_clobber_lemma i :
  snd (unpack_args ps args K T0) = Some (UBadArg i) ->
  nth_error (fst (unpack_args ps args K T0)) i = nth_error T0 i.
Proof.
  unfold unpack_args. fold st0.
  destruct (Nat.ltb_spec (length ps) (length args)) as [Hlt|Hle]; [discriminate|].
  destruct (snd (pos_loop 0 args ps st0)) as [e|] eqn:Ep.
  - simpl. intros He. inversion He; subst e.
    destruct (pos_loop_fail args ps 0 st0 i) as [Hk F]; simpl; try lia; auto.
    rewrite F. destruct (Nat.ltb_spec i i); [lia|]. rewrite andb_false_r. reflexivity.
  - destruct (pos_loop_ok args ps 0 st0) as [P1 [P2 [P3 P4]]]; simpl; try rewrite repeat_length; try lia; auto.
    set (st1 := fst (pos_loop 0 args ps st0)) in *.
    assert (Hd1 : length (u_defined st1) = length ps) by (rewrite P2; simpl; apply repeat_length).
    destruct (snd (kw_loop ps K st1)) as [e|] eqn:Ek.
    + simpl. intros He. inversion He; subst e.
      destruct (kw_loop_fail ps K i st1 Hd1 Ek) as [F1 F2]. rewrite F2.
      rewrite P3, dget_st0 in F1. rewrite P4. simpl in *.
      destruct (i <? length args); [discriminate|reflexivity].
    + simpl. intros He.
      assert (Hm : forall ps' i0 st, missing_loop i0 (length args) ps' st <> Some (UBadArg i)).
      { induction ps' as [|p ps' IH]; intros i0 st; simpl; [discriminate|].
        destruct (p_marker p); try discriminate.
        destruct (i0 <? length args); auto. destruct (nth i0 (u_defined st) false); auto. discriminate. }
      exfalso. eapply Hm; eauto.
Qed.

(* exactly what the other targets hold when a POSITIONAL argument has the wrong
   type: the earlier parameters hold their arguments, the later ones are untouched *)
Lemma unpack_positional_stage_lemma i :
  first_bad_pos 0 args ps = Some (UBadArg i) -> length args <= length ps ->
  snd (unpack_args ps args K T0) = Some (UBadArg i) /\
  forall j, nth_error (fst (unpack_args ps args K T0)) j =
            if j <? i then want ps args K T0 j else nth_error T0 j.
Proof.
  intros Hb Hle. unfold unpack_args. fold st0.
  destruct (Nat.ltb_spec (length ps) (length args)) as [Hlt|_]; [lia|].
  rewrite (pos_loop_err args ps 0 st0), Hb. simpl. split; auto.
  destruct (pos_loop_fail args ps 0 st0 i) as [Hk F]; simpl; try lia; auto.
  { rewrite pos_loop_err. exact Hb. }
  intros j. rewrite F. simpl. rewrite Nat.sub_0_r.
  destruct (Nat.ltb_spec j i); auto.
  unfold want, designated.
  assert (Hja : j < length args) by lia.
  destruct (nth_error args j) as [a|] eqn:Ea; [|apply nth_error_None in Ea; lia].
  destruct (nth_error ps j) as [p|] eqn:Epj; [|apply nth_error_None in Epj; lia].
  destruct (nth_error T0 j) as [t0|] eqn:Et; [|apply nth_error_None in Et; lia].
  destruct (skip_none p a); reflexivity.
Qed.

End Top.

(* ------------------------------------------------------ UnpackPositionalArgs *)
Lemma ppos_loop_spec args : forall kinds i T,
  i + length args <= length T -> length args <= length kinds ->
  let r := ppos_loop i args kinds T in
  snd r = (fix go i (args : list arg) (kinds : list tkind) :=
             match args, kinds with
             | a :: ar, k :: kr => if accepts k (a_ty a) then go (S i) ar kr else Some (UBadArg i)
             | _, _ => None
             end) i args kinds /\
  (forall k, snd r = Some (UBadArg k) -> nth_error (fst r) k = nth_error T k) /\
  (snd r = None -> forall j, nth_error (fst r) j =
       if (i <=? j) && (j <? i + length args)
       then option_map Stored (nth_error args (j - i)) else nth_error T j).
Proof.
  induction args as [|a args IH]; intros [|k kinds] i T Hl Hk; simpl in *; try lia.
  - split; auto. split; [discriminate|]. intros _ j.
    destruct (Nat.leb_spec i j), (Nat.ltb_spec j (i + 0)); simpl; auto; lia.
  - split; auto. split; [discriminate|]. intros _ j.
    destruct (Nat.leb_spec i j), (Nat.ltb_spec j (i + 0)); simpl; auto; lia.
  - destruct (accepts k (a_ty a)) eqn:Ea.
    + destruct (IH kinds (S i) (upd i (Stored a) T)) as [I1 [I2 I3]]; try (rewrite upd_length); try lia.
      split; [exact I1|]. split.
      * intros k0 Hk0. rewrite (I2 k0 Hk0).
        assert (k0 <> i).
        { intro; subst k0. clear - Hk0 Hl. revert Hk0. generalize (upd i (Stored a) T).
          assert (G : forall args kinds j T', j > i -> snd (ppos_loop j args kinds T') <> Some (UBadArg i)).
          { induction args0 as [|a0 args0 IHa]; intros [|k0 kinds0] j T' Hj; simpl; try discriminate.
            destruct (accepts k0 (a_ty a0)); [apply IHa; lia|]. simpl. intro H; inversion H; lia. }
          intros T'. apply G. lia. }
        apply nth_error_upd_other. auto.
      * intros Hn j. rewrite (I3 Hn j).
        destruct (Nat.eqb_spec j i) as [->|Hne].
        { replace ((S i <=? i) && (i <? S i + length args)) with false
            by (destruct (Nat.leb_spec (S i) i); [lia|reflexivity]).
          replace ((i <=? i) && (i <? i + S (length args))) with true
            by (destruct (Nat.leb_spec i i), (Nat.ltb_spec i (i + S (length args))); simpl; auto; lia).
          rewrite Nat.sub_diag. simpl. apply nth_error_upd_same. lia. }
        { replace ((i <=? j) && (j <? i + S (length args))) with ((S i <=? j) && (j <? S i + length args))
            by (destruct (Nat.leb_spec (S i) j), (Nat.ltb_spec j (S i + length args)), (Nat.leb_spec i j),
                         (Nat.ltb_spec j (i + S (length args))); simpl; auto; lia).
          destruct ((S i <=? j) && (j <? S i + length args)) eqn:Ec.
          - assert (S i <= j) by (apply andb_prop in Ec; destruct Ec as [Ec _]; apply Nat.leb_le in Ec; exact Ec).
            replace (j - i) with (S (j - S i)) by lia. reflexivity.
          - apply nth_error_upd_other. auto. }
    + simpl. split; auto. split; [|discriminate]. intros k0 Hk0. reflexivity.
Qed.

Lemma unpack_positional_lemma min kinds args K T0 :
  length T0 = length kinds ->
  let r := unpack_positional min kinds args K T0 in
  snd r = spec_positional_err min kinds args K /\
  (forall k, snd r = Some (UBadArg k) -> nth_error (fst r) k = nth_error T0 k) /\
  (snd r = None -> forall j, nth_error (fst r) j =
       if j <? length args then option_map Stored (nth_error args j) else nth_error T0 j).
Proof.
  intros HT. unfold unpack_positional, spec_positional_err.
  destruct K as [|kv K]; [|simpl; repeat split; auto; discriminate].
  destruct (length args <? min); [simpl; repeat split; auto; discriminate|].
  destruct (Nat.ltb_spec (length kinds) (length args)); [simpl; repeat split; auto; discriminate|].
  destruct (ppos_loop_spec args kinds 0 T0) as [I1 [I2 I3]]; try lia.
  split; [exact I1|]. split; [exact I2|].
  intros Hn j. rewrite (I3 Hn j). simpl. rewrite Nat.sub_0_r. reflexivity.
Qed.

(* full statements used by Properties.v *)
Lemma unpack_correct_full :
  forall (ps : list uparam) (args : list arg) (K : list (string * arg)) (T0 : list tval),
    NoDup (map p_name ps) -> length T0 = length ps ->
    snd (unpack_args ps args K T0) = spec_unpack_err ps args K /\
    (snd (unpack_args ps args K T0) = None ->
     forall j, nth_error (fst (unpack_args ps args K T0)) j = want ps args K T0 j).
Proof.
  intros ps args K T0 Hnd HT. split.
  - exact (unpack_err_lemma ps args K T0 Hnd HT).
  - exact (unpack_ok_lemma ps args K T0 Hnd HT).
Qed.

Lemma unpack_no_clobber_full :
  forall (ps : list uparam) (args : list arg) (K : list (string * arg)) (T0 : list tval) (i : nat),
    NoDup (map p_name ps) -> length T0 = length ps ->
    (snd (unpack_args ps args K T0) = Some (UBadArg i) ->
     nth_error (fst (unpack_args ps args K T0)) i = nth_error T0 i) /\
    (first_bad_pos 0 args ps = Some (UBadArg i) -> length args <= length ps ->
     snd (unpack_args ps args K T0) = Some (UBadArg i) /\
     forall j, nth_error (fst (unpack_args ps args K T0)) j =
               if Nat.ltb j i then want ps args K T0 j else nth_error T0 j).
Proof.
  intros ps args K T0 i Hnd HT. split.
  - exact (unpack_no_clobber_lemma ps args K T0 HT i).
  - exact (unpack_positional_stage_lemma ps args K T0 HT i).
Qed.
