(* C08 -- lemmas, part 2: what each loop of setArgs does to locals[], to the
   kwargs dict and to the write log. *)
From Coq Require Import String List Bool Arith Lia.
From SV Require Import C08.Types C08.Model C08.Spec C08.ProofsLayout.
Import ListNotations.

Section Loops.
Context {V : Type}.
Notation state := (state V).

(* every executed `locals[i] = ..` hit a nil slot: the log has no duplicates
   and lists exactly the non-nil slots *)
Definition Inv (st : state) : Prop :=
  NoDup (st_log st) /\
  forall j, In j (st_log st) <-> (j < length (st_locals st) /\ is_nil st j = false).

Lemma is_nil_store i x (st : state) j :
  i < length (st_locals st) ->
  is_nil (store i x st) j = if Nat.eqb i j then false else is_nil st j.
Proof.
  intros Hi. unfold is_nil, store; simpl. rewrite nth_error_upd.
  destruct (Nat.eqb i j); auto.
  destruct (Nat.ltb_spec i (length (st_locals st))); auto; lia.
Qed.

Lemma store_length i x (st : state) : length (st_locals (store i x st)) = length (st_locals st).
Proof. unfold store; simpl. apply upd_length. Qed.

Lemma store_inv i x (st : state) :
  Inv st -> i < length (st_locals st) -> is_nil st i = true -> Inv (store i x st).
Proof.
  intros [Hnd Hin] Hi Hnil. split.
  - simpl. constructor; auto. intro H. apply Hin in H. destruct H as [_ H]. congruence.
  - intros j. rewrite store_length. rewrite is_nil_store by auto. simpl.
    destruct (Nat.eqb_spec i j).
    + subst. split; auto.
    + rewrite Hin. split.
      * intros [H|H]; [contradiction|auto].
      * intros H; right; auto.
Qed.

Lemma is_nil_oob (st : state) j : length (st_locals st) <= j -> is_nil st j = true.
Proof.
  intros H. unfold is_nil. destruct (nth_error (st_locals st) j) eqn:E; auto.
  apply nth_error_None in H. congruence.
Qed.

(* ------------------------------------------------------- positional loop *)
Lemma bind_positional_spec (l : list V) : forall i (st : state),
  i + length l <= length (st_locals st) ->
  (forall j, i <= j < i + length l -> is_nil st j = true) ->
  Inv st ->
  let st' := bind_positional i l st in
  Inv st' /\ length (st_locals st') = length (st_locals st) /\ st_kwdict st' = st_kwdict st /\
  forall j, nth_error (st_locals st') j =
            if (i <=? j) && (j <? i + length l)
            then option_map (fun v => Some (SVal v)) (nth_error l (j - i))
            else nth_error (st_locals st) j.
Proof.
  induction l as [|a l IH]; intros i st Hlen Hnil Hinv; simpl.
  - repeat split; try apply Hinv; auto.
    intros j. destruct (Nat.leb_spec i j), (Nat.ltb_spec j (i + 0)); simpl; auto; lia.
  - simpl in Hlen.
    assert (Hi : i < length (st_locals st)) by lia.
    destruct (IH (S i) (store i (SVal a) st)) as [I1 [I2 [I3 I4]]].
    + rewrite store_length. lia.
    + intros j Hj. rewrite is_nil_store by auto. destruct (Nat.eqb_spec i j); [lia|].
      apply Hnil. simpl. lia.
    + apply store_inv; auto. apply Hnil. simpl. lia.
    + split; [exact I1|]. split; [rewrite I2; apply store_length|]. split; [rewrite I3; reflexivity|].
      intros j. rewrite I4. simpl st_locals. rewrite nth_error_upd.
      destruct (Nat.leb_spec (S i) j), (Nat.ltb_spec j (S i + length l)),
               (Nat.leb_spec i j), (Nat.ltb_spec j (i + S (length l))), (Nat.eqb_spec i j); simpl; try lia; auto.
      * replace (j - i) with (S (j - S i)) by lia. reflexivity.
      * subst. rewrite Nat.sub_diag. simpl.
        destruct (Nat.ltb_spec j (length (st_locals st))); auto; lia.
Qed.

(* ----------------------------------------------------------- findParam *)
Lemma findParam_from_spec names : forall i (k : string),
  match findParam_from i names k with
  | Some r => i <= r /\ nth_error names (r - i) = Some k
  | None => ~ In k names
  end.
Proof.
  induction names as [|p names IH]; intros i k; simpl; auto.
  destruct (String.eqb_spec p k).
  - subst. split; auto. rewrite Nat.sub_diag. reflexivity.
  - specialize (IH (S i) k). destruct (findParam_from (S i) names k).
    + destruct IH as [H1 H2]. split; [lia|].
      replace (n0 - i) with (S (n0 - S i)) by lia. exact H2.
    + intros [H|H]; auto.
Qed.

Lemma findParam_Some names (k : string) i :
  findParam names k = Some i -> nth_error names i = Some k.
Proof.
  unfold findParam. intros H. pose proof (findParam_from_spec names 0 k) as S. rewrite H in S.
  destruct S as [_ S]. rewrite Nat.sub_0_r in S. exact S.
Qed.

Lemma findParam_None names (k : string) : findParam names k = None -> ~ In k names.
Proof.
  unfold findParam. intros H. pose proof (findParam_from_spec names 0 k) as S. rewrite H in S. exact S.
Qed.

Lemma NoDup_nth_error_inj {A} (l : list A) i j x :
  NoDup l -> nth_error l i = Some x -> nth_error l j = Some x -> i = j.
Proof.
  intros Hnd Hi Hj. rewrite NoDup_nth_error in Hnd. apply Hnd.
  - apply nth_error_Some. congruence.
  - congruence.
Qed.

Lemma mem_In (x : string) l : mem x l = true <-> In x l.
Proof. apply existsb_eqb_In. Qed.

Lemma mem_notIn (x : string) l : ~ In x l -> mem x l = false.
Proof. apply existsb_eqb_notIn. Qed.

(* ------------------------------------------------------------ keyword loop *)
Lemma kwloop_ok names hk (K : list (string * V)) : forall (st st' : state),
  NoDup names ->
  length names <= length (st_locals st) ->
  Inv st ->
  kwloop names hk K st = Ok st' ->
  Inv st' /\ length (st_locals st') = length (st_locals st) /\
  st_kwdict st' = st_kwdict st ++ filter (fun kv => negb (mem (fst kv) names)) K /\
  forall j, nth_error (st_locals st') j =
            match nth_error names j with
            | Some nm =>
                if is_nil st j
                then match assoc nm K with
                     | Some v => Some (Some (SVal v))
                     | None => nth_error (st_locals st) j
                     end
                else nth_error (st_locals st) j
            | None => nth_error (st_locals st) j
            end.
Proof.
  induction K as [|[k v] K IH]; intros st st' Hnd Hlen Hinv H; simpl in H.
  - inversion H; subst. split; auto. split; auto. split; [simpl; rewrite app_nil_r; auto|].
    intros j. simpl. destruct (nth_error names j); auto. destruct (is_nil st' j); auto.
  - destruct (findParam names k) as [i|] eqn:Ef.
    + pose proof (findParam_Some _ _ _ Ef) as Hi.
      assert (Hil : i < length (st_locals st)).
      { assert (i < length names) by (apply nth_error_Some; congruence). lia. }
      destruct (is_nil st i) eqn:Eni; [|discriminate].
      destruct (IH (store i (SVal v) st) st') as [I1 [I2 [I3 I4]]]; auto.
      * rewrite store_length; auto.
      * apply store_inv; auto.
      * split; [exact I1|]. split; [rewrite I2; apply store_length|].
        split.
        { rewrite I3. simpl. assert (mem k names = true) by (apply mem_In; eapply nth_error_In; eauto).
          rewrite H0. reflexivity. }
        intros j. rewrite I4. rewrite is_nil_store by auto. simpl st_locals. rewrite nth_error_upd.
        destruct (nth_error names j) as [nm|] eqn:Enj.
        -- destruct (Nat.eqb_spec i j).
           ++ subst j. assert (nm = k) by congruence. subst nm. rewrite Eni. simpl.
              rewrite String.eqb_refl.
              destruct (Nat.ltb_spec i (length (st_locals st))); auto; lia.
           ++ assert (nm <> k).
              { intro; subst nm. apply n. eapply NoDup_nth_error_inj; eauto. }
              simpl. destruct (String.eqb_spec k nm); [congruence|]. reflexivity.
        -- destruct (Nat.eqb_spec i j); auto. subst. congruence.
    + pose proof (findParam_None _ _ Ef) as Hni.
      destruct hk; simpl in H; [|discriminate].
      destruct (dict_has (st_kwdict st) k) eqn:Edh; [discriminate|].
      destruct (IH {| st_locals := st_locals st; st_kwdict := st_kwdict st ++ [(k, v)]; st_log := st_log st |} st')
        as [I1 [I2 [I3 I4]]]; auto.
      split; [exact I1|]. split; [exact I2|]. split.
      * rewrite I3. simpl. rewrite (mem_notIn _ _ Hni). simpl. rewrite <- app_assoc. reflexivity.
      * intros j. rewrite I4. unfold is_nil. simpl.
        destruct (nth_error names j) as [nm|] eqn:Enj; auto.
        destruct (String.eqb_spec k nm); auto.
        subst. exfalso. apply Hni. eapply nth_error_In; eauto.
Qed.

(* which keyword the loop rejects, against the specification's scan *)
Definition Rel names (st : state) (seen : list string) : Prop :=
  (forall j nm, nth_error names j = Some nm -> (is_nil st j = false <-> mem nm seen = true)) /\
  (forall k, mem k names = false -> dict_has (st_kwdict st) k = mem k seen).

Lemma dict_has_app (d : list (string * V)) k v k' :
  dict_has (d ++ [(k, v)]) k' = dict_has d k' || String.eqb k k'.
Proof. unfold dict_has. rewrite existsb_app. simpl. rewrite orb_false_r. reflexivity. Qed.

Lemma kwloop_first_bad names hk (K : list (string * V)) : forall (st : state) seen,
  NoDup names ->
  length names <= length (st_locals st) ->
  (hk = false -> st_kwdict st = []) ->
  Rel names st seen ->
  match kwloop names hk K st with
  | Err e => first_bad names hk seen K = Some e
  | Ok _ => first_bad names hk seen K = None
  end.
Proof.
  induction K as [|[k v] K IH]; intros st seen Hnd Hlen Hhk [R1 R2]; simpl; auto.
  destruct (findParam names k) as [i|] eqn:Ef.
  - pose proof (findParam_Some _ _ _ Ef) as Hi.
    assert (Hil : i < length (st_locals st)).
    { assert (i < length names) by (apply nth_error_Some; congruence). lia. }
    assert (Hmn : mem k names = true) by (apply mem_In; eapply nth_error_In; eauto).
    destruct (is_nil st i) eqn:Eni.
    + assert (Hms : mem k seen = false).
      { destruct (mem k seen) eqn:E; auto. apply (R1 _ _ Hi) in E. congruence. }
      rewrite Hms, Hmn. simpl.
      apply IH; auto.
      * rewrite store_length; auto.
      * split.
        -- intros j nm Hj. rewrite is_nil_store by auto. simpl.
           destruct (Nat.eqb_spec i j).
           ++ subst j. assert (nm = k) by congruence. subst. rewrite String.eqb_refl. simpl. tauto.
           ++ assert (nm <> k) by (intro; subst nm; apply n; eapply NoDup_nth_error_inj; eauto).
              destruct (String.eqb_spec nm k); [contradiction|]. simpl. apply R1; auto.
        -- intros k' Hk'. simpl. destruct (String.eqb_spec k' k); [congruence|]. simpl. apply R2; auto.
    + assert (Hms : mem k seen = true) by (apply (R1 _ _ Hi); auto).
      rewrite Hms. reflexivity.
  - pose proof (findParam_None _ _ Ef) as Hni.
    assert (Hmn : mem k names = false) by (apply mem_notIn; auto).
    rewrite Hmn. simpl.
    destruct hk; simpl.
    + rewrite <- (R2 k Hmn).
      destruct (dict_has (st_kwdict st) k) eqn:Edh; auto.
      apply IH; auto.
      * intros; discriminate.
      * split.
        -- intros j nm Hj. unfold is_nil. simpl.
           assert (nm <> k) by (intro; subst; apply Hni; eapply nth_error_In; eauto).
           destruct (String.eqb_spec nm k); [contradiction|]. simpl. apply (R1 j nm Hj).
        -- intros k' Hk'. simpl. rewrite dict_has_app. rewrite (R2 k' Hk').
           rewrite orb_comm. f_equal. apply String.eqb_sym.
    + rewrite <- (R2 k Hmn). rewrite (Hhk eq_refl). reflexivity.
Qed.

(* ------------------------------------------------------------ defaults loops *)
Lemma missing_required_spec idx (st : state) : missing_required idx st = filter (is_nil st) idx.
Proof. induction idx; simpl; auto. destruct (is_nil st a); simpl; f_equal; auto. Qed.

Definition is_dflt (d : option (dflt V)) : bool := match d with Some (Dflt _) => true | _ => false end.

Lemma fill_defaults_spec m defaults idx : forall (st : state),
  (forall j, In j idx -> j < length (st_locals st)) ->
  NoDup idx ->
  Inv st ->
  let res := fill_defaults idx m defaults st in
  Inv (fst res) /\ length (st_locals (fst res)) = length (st_locals st) /\
  st_kwdict (fst res) = st_kwdict st /\
  snd res = filter (fun j => is_nil st j && negb (is_dflt (nth_error defaults (j - m)))) idx /\
  forall j, nth_error (st_locals (fst res)) j =
            if existsb (Nat.eqb j) idx && is_nil st j
            then match nth_error defaults (j - m) with
                 | Some (Dflt d) => Some (Some (SVal d))
                 | _ => nth_error (st_locals st) j
                 end
            else nth_error (st_locals st) j.
Proof.
  induction idx as [|i idx IH]; intros st Hlt Hnd Hinv; simpl.
  - repeat split; try apply Hinv; auto.
  - inversion Hnd as [|? ? Hni Hnd']; subst.
    assert (Hi : i < length (st_locals st)) by (apply Hlt; left; auto).
    destruct (is_nil st i) eqn:Eni.
    + destruct (nth_error defaults (i - m)) as [[|d]|] eqn:Ed.
      * (* mandatory *)
        destruct (IH st) as [I1 [I2 [I3 [I4 I5]]]]; auto. { intros; apply Hlt; right; auto. }
        simpl. split; [exact I1|]. split; [exact I2|]. split; [exact I3|]. split.
        { rewrite I4. reflexivity. }
        intros j. rewrite I5. destruct (Nat.eqb_spec j i); simpl; auto.
        subst. rewrite Eni, Ed.
        destruct (existsb (Nat.eqb i) idx); simpl; auto.
      * (* default value *)
        destruct (IH (store i (SVal d) st)) as [I1 [I2 [I3 [I4 I5]]]]; auto.
        { intros j Hj. rewrite store_length. apply Hlt; right; auto. }
        { apply store_inv; auto. }
        split; [exact I1|]. split; [rewrite I2; apply store_length|]. split; [rewrite I3; reflexivity|].
        split.
        { rewrite I4. simpl. apply filter_ext_in. intros j Hj.
          rewrite is_nil_store by auto. destruct (Nat.eqb_spec i j); auto. subst. contradiction. }
        intros j. rewrite I5. rewrite is_nil_store by auto. simpl st_locals. rewrite nth_error_upd.
        destruct (Nat.eqb_spec j i).
        -- subst j. rewrite Nat.eqb_refl. rewrite andb_false_r. simpl. rewrite Eni, Ed.
           destruct (Nat.ltb_spec i (length (st_locals st))); auto; lia.
        -- destruct (Nat.eqb_spec i j); [congruence|]. simpl. reflexivity.
      * (* no entry in the defaults tuple *)
        destruct (IH st) as [I1 [I2 [I3 [I4 I5]]]]; auto. { intros; apply Hlt; right; auto. }
        simpl. split; [exact I1|]. split; [exact I2|]. split; [exact I3|]. split.
        { rewrite I4. reflexivity. }
        intros j. rewrite I5. destruct (Nat.eqb_spec j i); simpl; auto.
        subst. rewrite Eni, Ed.
        destruct (existsb (Nat.eqb i) idx); simpl; auto.
    + destruct (IH st) as [I1 [I2 [I3 [I4 I5]]]]; auto. { intros; apply Hlt; right; auto. }
      split; [exact I1|]. split; [exact I2|]. split; [exact I3|]. split.
      { rewrite I4. reflexivity. }
      intros j. rewrite I5. destruct (Nat.eqb_spec j i); simpl; auto.
      subst. rewrite Eni. rewrite andb_false_r. reflexivity.
Qed.

End Loops.
