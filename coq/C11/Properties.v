(* C11 -- property theorems only.  Each is closed by `exact <lemma>`.
   hs is the string hash (hashtable.go hashString), a parameter.
   ok v := fits CompareLimit v : v is in the property's value universe (None, bool,
   int, float, string, bytes, tuple, list, range, struct, function, builtin, time,
   duration) and nested within the comparison depth limit (boolean guard). *)
From Coq Require Import ZArith QArith Bool List Permutation Sorted.
From SV Require Import C11.Model C11.Spec C11.ProofsAtom C11.ProofsValue C11.ProofsLaws C11.ProofsHash C11.Proofs C11.ProofsSort C11.ProofsIsort.
Import ListNotations.
Open Scope Z_scope.

(* The six operators are the six readings of ONE specified three-way comparison of
   exact values (Spec.cmp3: numbers as rationals with NaN greatest and equal to
   itself, lexicographic strings / bytes / tuples / lists, identity-only types). *)
Theorem compare_exact :
  forall hs x y, ok x = true -> ok y = true ->
    exists o, cmp3 CompareLimit x y = Some o /\ forall op, compare hs op x y = interp op o.
Proof. exact cmp_spec. Qed.

(* == is reflexive (NaN and lists containing NaN included), symmetric, transitive *)
Theorem eq_equivalence :
  forall hs,
    (forall x, ok x = true -> compare hs EQL x x = Ok true) /\
    (forall x y, ok x = true -> ok y = true -> compare hs EQL x y = compare hs EQL y x) /\
    (forall x y z, ok x = true -> ok y = true -> ok z = true ->
       compare hs EQL x y = Ok true -> compare hs EQL y z = Ok true -> compare hs EQL x z = Ok true).
Proof. intro hs. exact (conj (eq_refl_lemma hs) (conj (eq_sym_lemma hs) (eq_trans_lemma hs))). Qed.

(* within the limit == always answers, and != answers the negation *)
Theorem neq_is_negation :
  forall hs x y, ok x = true -> ok y = true ->
    exists b, compare hs EQL x y = Ok b /\ compare hs NEQ x y = Ok (negb b).
Proof. exact eq_total_lemma. Qed.

(* equal values are interchangeable in every comparison, on either side *)
Theorem eq_interchangeable :
  forall hs x y z, ok x = true -> ok y = true -> ok z = true -> compare hs EQL x y = Ok true ->
    forall op, compare hs op x z = compare hs op y z /\ compare hs op z x = compare hs op z y.
Proof. exact eq_congr_lemma. Qed.

(* x == y -> hash x = hash y : 1 / 1.0, 2^64 / 2.0^64, -0.0 / 0, tuples and structs of
   such; both unhashable for lists and ranges *)
Theorem eq_hash :
  forall hs x y, ok x = true -> ok y = true -> compare hs EQL x y = Ok true -> hash hs x = hash hs y.
Proof. exact eq_hash_lemma. Qed.

(* equal (atom) keys find the same dict entry / set member (hashtable.lookup = hash filter + Equal) *)
Theorem dict_key_interchangeable :
  forall hs a b, atom_compare EQL a b = Ok true ->
    (forall kv, dict_get hs kv a = dict_get hs kv b) /\ (forall l, set_has hs l a = set_has hs l b).
Proof.
  intros hs a b H. rewrite atom_compare_spec in H. apply (interp_eql_true) in H.
  split; intro; [apply dict_get_congr|apply set_has_congr]; exact H.
Qed.

(* one total order modulo ==: whenever < answers at all, all six operators answer in
   both directions, exactly one of <, ==, > holds, <= is (< or ==), >= is (> or ==),
   x > y is y < x *)
Theorem order_total :
  forall hs x y l, ok x = true -> ok y = true -> compare hs LT x y = Ok l ->
    exists e g,
      compare hs EQL x y = Ok e /\ compare hs GT x y = Ok g /\ compare hs NEQ x y = Ok (negb e) /\
      compare hs LE x y = Ok (l || e) /\ compare hs GE x y = Ok (g || e) /\
      compare hs LT y x = Ok g /\ compare hs GT y x = Ok l /\ compare hs LE y x = Ok (g || e) /\ compare hs GE y x = Ok (l || e) /\
      ((l = true /\ e = false /\ g = false) \/ (l = false /\ e = true /\ g = false) \/ (l = false /\ e = false /\ g = true)).
Proof. exact order_total_lemma. Qed.

Theorem lt_transitive :
  forall hs x y z, ok x = true -> ok y = true -> ok z = true ->
    compare hs LT x y = Ok true -> compare hs LT y z = Ok true -> compare hs LT x z = Ok true.
Proof. exact lt_trans_lemma. Qed.

(* on each ordered class (int and float together, string, bytes, bool, time, duration,
   tuples / lists of one class, recursively) < always answers: with order_total and
   lt_transitive, a strict total order modulo == *)
Theorem order_classes_total :
  forall hs c x y, has_cls c x = true -> has_cls c y = true -> ok x = true -> ok y = true ->
    exists l, compare hs LT x y = Ok l.
Proof. exact class_comparable_lemma. Qed.

(* beyond the depth limit: an answer given at ANY depth d is the specified answer
   (so deeper values get the depth error or the right answer, never a wrong one) *)
Theorem depth_limit_sound :
  forall hs d D op x y b, (d <= D)%nat -> fits D x = true -> fits D y = true ->
    compare_depth hs d op x y = Ok b ->
    exists o, cmp3 D x y = Some o /\ interp op o = Ok b.
Proof. exact depth_sound_lemma. Qed.

(* sortSlice.Less (and its sort.Reverse) is a strict weak order on any sequence of
   pairwise comparable keys: the obligation sort.Stable places on its caller *)
Theorem sorted_less_strict_weak_order :
  forall hs items, keys_ok items -> all_comparable hs items = true ->
    swo_on (value * value) (less hs) items /\ swo_on (value * value) (rev_less hs) items.
Proof. intros hs items K C. exact (conj (less_swo hs items K C) (rev_less_swo hs items K C)). Qed.

(* sorted(items, key, reverse) for any sort function meeting the stable-sort contract
   (oracle: Go's sort.Stable): the undecorated output of a permutation of the decorated
   input that is sorted w.r.t. the order (reversed order when reverse) and keeps
   equivalent elements in input order *)
Theorem sorted_spec :
  forall hs srt, stable_sort_contract (value * value) srt ->
    forall (items : list (value * value)) (reverse : bool),
      keys_ok items -> all_comparable hs items = true ->
      let lt : value * value -> value * value -> bool := if reverse then rev_less hs else less hs in
      exists out,
        sorted_with hs srt items reverse = map snd out /\
        Permutation items out /\
        StronglySorted (fun a b => lt b a = false) out /\
        (forall e, In e items -> filter (equiv (value * value) lt e) out = filter (equiv (value * value) lt e) items).
Proof. exact sorted_spec_lemma. Qed.

(* the contract assumed for sort.Stable is satisfiable: the insertion sort used as
   its executable stand-in in the correspondence check meets it (for every order
   and every input) *)
Theorem stable_sort_contract_instance : stable_sort_contract (value * value) (@isort (value * value)).
Proof. exact (isort_meets_contract (value * value)). Qed.

(* min / max: the FIRST element than which none is strictly smaller / greater *)
Theorem minmax_spec :
  forall hs (ismax : bool) (items : list (value * value)),
    keys_ok items -> all_comparable hs items = true -> items <> [] ->
    exists b p,
      minmax hs (mmop ismax) items = Some (Ok (snd b)) /\
      nth_error items p = Some b /\
      (forall x, In x items -> better hs ismax x b = false) /\
      (forall q x, (q < p)%nat -> nth_error items q = Some x -> better hs ismax b x = true).
Proof. exact minmax_spec_lemma. Qed.

(* ---- non-vacuity: the premises hold on concrete non-trivial inputs ---- *)
Definition h0 (s : list Z) : Z := 7.
Definition big : Z := 18446744073709551616.
Definition ex_x : value := VTuple [VAtom (AInt big); VList [VAtom (AFloat FNaN)]; VAtom (AInt 0)].
Definition ex_y : value := VTuple [VAtom (AFloat (FFin false 1 64)); VList [VAtom (AFloat FNaN)]; VAtom (AFloat (FFin true 0 0))].
Definition ex_z : value := VTuple [VAtom (AInt (big + 1)); VList []].

Example premises_hold :
  ok ex_x = true /\ ok ex_y = true /\ ok ex_z = true /\
  compare h0 EQL ex_x ex_y = Ok true /\ compare h0 LT ex_y ex_z = Ok true /\
  compare h0 LT ex_x ex_z = Ok true /\
  hash h0 (VTuple [VAtom (AInt big)]) = hash h0 (VTuple [VAtom (AFloat (FFin false 1 64))]) /\
  hash h0 (VTuple [VAtom (AInt big)]) <> None /\
  has_cls (CTuple CNum) (VTuple [VAtom (AInt 1); VAtom (AFloat FNaN)]) = true /\
  atom_compare EQL (AInt 1) (AFloat (FFin false 1 0)) = Ok true /\
  compare_depth h0 3 EQL (VList [VList [VList [VList []]]]) (VList [VList [VList [VList []]]]) = ErrDepth /\
  compare_depth h0 1 EQL (VList [VList [VList []]]) (VList []) = Ok false.
Proof. vm_compute. repeat split; discriminate. Qed.

Definition ex_items : list (value * value) :=
  [(VAtom (AFloat (FFin false 1 0)), VAtom (AStr [97])); (VAtom (AInt 0), VAtom (AStr [98]));
   (VAtom (AInt 1), VAtom (AStr [99])); (VAtom (AFloat FNaN), VAtom (AStr [100])); (VAtom (AFloat (FFin true 0 0)), VAtom (AStr [101]))].

Example sort_premises_hold :
  all_comparable h0 ex_items = true /\ ex_items <> [] /\
  forallb (fun it => ok (fst it)) ex_items = true /\
  sorted_with h0 (@isort _) ex_items false = [VAtom (AStr [98]); VAtom (AStr [101]); VAtom (AStr [97]); VAtom (AStr [99]); VAtom (AStr [100])] /\
  sorted_with h0 (@isort _) ex_items true = [VAtom (AStr [100]); VAtom (AStr [97]); VAtom (AStr [99]); VAtom (AStr [98]); VAtom (AStr [101])] /\
  minmax h0 LT ex_items = Some (Ok (VAtom (AStr [98]))) /\ minmax h0 GT ex_items = Some (Ok (VAtom (AStr [100]))).
Proof. vm_compute. repeat split; discriminate. Qed.
