(* C11 -- property theorems only.  Each is closed by `exact <lemma>`.
   hs is the string hash (hashtable.go hashString), a parameter.
   ok v := fits CompareLimit v : v is in the property's value universe (None, bool,
   int, float, string, bytes, tuple, list, range, struct, function, builtin, time,
   duration) and nested within the comparison depth limit (boolean guard). *)
From Coq Require Import ZArith QArith Bool List Permutation Sorted.
From SV Require Import C11.Model C11.Spec C11.ProofsAtom C11.ProofsValue C11.ProofsLaws C11.ProofsHash C11.Proofs C11.ProofsSort C11.ProofsIsort.
Import ListNotations.
Open Scope Z_scope.

(* The six operators are the six readings of ONE specified three-way comparison of
   exact values (Spec.cmp3: numbers as rationals with NaN greatest and equal to
   itself, lexicographic strings / bytes / tuples / lists, identity-only types). *)
Theorem compare_exact :
  forall hs x y, ok x = true -> ok y = true ->
    exists o, cmp3 CompareLimit x y = Some o /\ forall op, compare hs op x y = interp op o.
Proof. exact cmp_spec. Qed.

(* == is reflexive (NaN and lists containing NaN included), symmetric, transitive *)
Theorem eq_equivalence :
  forall hs,
    (forall x, ok x = true -> compare hs EQL x x = Ok true) /\
    (forall x y, ok x = true -> ok y = true -> compare hs EQL x y = compare hs EQL y x) /\
    (forall x y z, ok x = true -> ok y = true -> ok z = true ->
       compare hs EQL x y = Ok true -> compare hs EQL y z = Ok true -> compare hs EQL x z = Ok true).
Proof. intro hs. exact (conj (eq_refl_lemma hs) (conj (eq_sym_lemma hs) (eq_trans_lemma hs))). Qed.

(* within the limit == always answers, and != answers the negation *)
Theorem neq_is_negation :
  forall hs x y, ok x = true -> ok y = true ->
    exists b, compare hs EQL x y = Ok b /\ compare hs NEQ x y = Ok (negb b).
Proof. exact eq_total_lemma. Qed.

(* equal values are interchangeable in every comparison, on either side *)
Theorem eq_interchangeable :
  forall hs x y z, ok x = true -> ok y = true -> ok z = true -> compare hs EQL x y = Ok true ->
    forall op, compare hs op x z = compare hs op y z /\ compare hs op z x = compare hs op z y.
Proof. exact eq_congr_lemma. Qed.

(* x == y -> hash x = hash y : 1 / 1.0, 2^64 / 2.0^64, -0.0 / 0, tuples and structs of
   such; both unhashable for lists and ranges *)
Theorem eq_hash :
  forall hs x y, ok x = true -> ok y = true -> compare hs EQL x y = Ok true -> hash hs x = hash hs y.
Proof. exact eq_hash_lemma. Qed.

(* equal (atom) keys find the same dict entry / set member (hashtable.lookup = hash filter + Equal) *)
Theorem dict_key_interchangeable :
  forall hs a b, atom_compare EQL a b = Ok true ->
    (forall kv, dict_get hs kv a = dict_get hs kv b) /\ (forall l, set_has hs l a = set_has hs l b).
Proof.
  intros hs a b H. rewrite atom_compare_spec in H. apply (interp_eql_true) in H.
  split; intro; [apply dict_get_congr|apply set_has_congr]; exact H.
Qed.

(* one total order modulo ==: whenever < answers at all, all six operators answer in
   both directions, exactly one of <, ==, > holds, <= is (< or ==), >= is (> or ==),
   x > y is y < x *)
Theorem order_total :
  forall hs x y l, ok x = true -> ok y = true -> compare hs LT x y = Ok l ->
    exists e g,
      compare hs EQL x y = Ok e /\ compare hs GT x y = Ok g /\ compare hs NEQ x y = Ok (negb e) /\
      compare hs LE x y = Ok (l || e) /\ compare hs GE x y = Ok (g || e) /\
      compare hs LT y x = Ok g /\ compare hs GT y x = Ok l /\ compare hs LE y x = Ok (g || e) /\ compare hs GE y x = Ok (l || e) /\
      ((l = true /\ e = false /\ g = false) \/ (l = false /\ e = true /\ g = false) \/ (l = false /\ e = false /\ g = true)).
Proof. exact order_total_lemma. Qed.

Theorem lt_transitive :
  forall hs x y z, ok x = true -> ok y = true -> ok z = true ->
    compare hs LT x y = Ok true -> compare hs LT y z = Ok true -> compare hs LT x z = Ok true.
Proof. exact lt_trans_lemma. Qed.

(* on each ordered class (int and float together, string, bytes, bool, time, duration,
   tuples / lists of one class, recursively) < always answers: with order_total and
   lt_transitive, a strict total order modulo == *)
Theorem order_classes_total :
  forall hs c x y, has_cls c x = true -> has_cls c y = true -> ok x = true -> ok y = true ->
    exists l, compare hs LT x y = Ok l.
Proof. exact class_comparable_lemma. Qed.

(* beyond the depth limit: an answer given at ANY depth d is the specified answer
   (so deeper values get the depth error or the right answer, never a wrong one) *)
Theorem depth_limit_sound :
  forall hs d D op x y b, (d <= D)%nat -> fits D x = true -> fits D y = true ->
    compare_depth hs d op x y = Ok b ->
    exists o, cmp3 D x y = Some o /\ interp op o = Ok b.
Proof. exact depth_sound_lemma. Qed.

(* sortSlice.Less (and its sort.Reverse) is a strict weak order on any sequence of
   pairwise comparable keys: the obligation sort.Stable places on its caller *)
Theorem sorted_less_strict_weak_order :
  forall hs items, keys_ok items -> all_comparable hs items = true ->
    swo_on (value * value) (less hs) items /\ swo_on (value * value) (rev_less hs) items.
Proof. intros hs items K C. exact (conj (less_swo hs items K C) (rev_less_swo hs items K C)). Qed.

(* sorted(items, key, reverse) for any sort function meeting the stable-sort contract
   (oracle: Go's sort.Stable): the undecorated output of a permutation of the decorated
   input that is sorted w.r.t. the order (reversed order when reverse) and keeps
   equivalent elements in input order *)
Theorem sorted_spec :
  forall hs srt, stable_sort_contract (value * value) srt ->
    forall (items : list (value * value)) (reverse : bool),
      keys_ok items -> all_comparable hs items = true ->
      let lt : value * value -> value * value -> bool := if reverse then rev_less hs else less hs in
      exists out,
        sorted_with hs srt items reverse = map snd out /\
        Permutation items out /\
        StronglySorted (fun a b => lt b a = false) out /\
        (forall e, In e items -> filter (equiv (value * value) lt e) out = filter (equiv (value * value) lt e) items).
Proof. exact sorted_spec_lemma. Qed.

(* the contract assumed for sort.Stable is satisfiable: the insertion sort used as
   its executable stand-in in the correspondence check meets it (for every order
   and every input) *)
Theorem stable_sort_contract_instance : stable_sort_contract (value * value) (@isort (value * value)).
Proof. exact (isort_meets_contract (value * value)). Qed.

(* min / max: the FIRST element than which none is strictly smaller / greater *)
Theorem minmax_spec :
  forall hs (ismax : bool) (items : list (value * value)),
    keys_ok items -> all_comparable hs items = true -> items <> [] ->
    exists b p,
      minmax hs (mmop ismax) items = Some (Ok (snd b)) /\
      nth_error items p = Some b /\
      (forall x, In x items -> better hs ismax x b = false) /\
      (forall q x, (q < p)%nat -> nth_error items q = Some x -> better hs ismax b x = true).
Proof. exact minmax_spec_lemma. Qed.

(* ---- non-vacuity: the premises hold on concrete non-trivial inputs ---- *)
Definition h0 (s : list Z) : Z := 7.
Definition big : Z := 18446744073709551616.
Definition ex_x : value := VTuple [VAtom (AInt big); VList [VAtom (AFloat FNaN)]; VAtom (AInt 0)].
Definition ex_y : value := VTuple [VAtom (AFloat (FFin false 1 64)); VList [VAtom (AFloat FNaN)]; VAtom (AFloat (FFin true 0 0))].
Definition ex_z : value := VTuple [VAtom (AInt (big + 1)); VList []].

Example premises_hold :
  ok ex_x = true /\ ok ex_y = true /\ ok ex_z = true /\
  compare h0 EQL ex_x ex_y = Ok true /\ compare h0 LT ex_y ex_z = Ok true /\
  compare h0 LT ex_x ex_z = Ok true /\
  hash h0 (VTuple [VAtom (AInt big)]) = hash h0 (VTuple [VAtom (AFloat (FFin false 1 64))]) /\
  hash h0 (VTuple [VAtom (AInt big)]) <> None /\
  has_cls (CTuple CNum) (VTuple [VAtom (AInt 1); VAtom (AFloat FNaN)]) = true /\
  atom_compare EQL (AInt 1) (AFloat (FFin false 1 0)) = Ok true /\
  compare_depth h0 3 EQL (VList [VList [VList [VList []]]]) (VList [VList [VList [VList []]]]) = ErrDepth /\
  compare_depth h0 1 EQL (VList [VList [VList []]]) (VList []) = Ok false.
Proof. vm_compute. repeat split; discriminate. Qed.

Definition ex_items : list (value * value) :=
  [(VAtom (AFloat (FFin false 1 0)), VAtom (AStr [97])); (VAtom (AInt 0), VAtom (AStr [98]));
   (VAtom (AInt 1), VAtom (AStr [99])); (VAtom (AFloat FNaN), VAtom (AStr [100])); (VAtom (AFloat (FFin true 0 0)), VAtom (AStr [101]))].

Example sort_premises_hold :
  all_comparable h0 ex_items = true /\ ex_items <> [] /\
  forallb (fun it => ok (fst it)) ex_items = true /\
  sorted_with h0 (@isort _) ex_items false = [VAtom (AStr [98]); VAtom (AStr [101]); VAtom (AStr [97]); VAtom (AStr [99]); VAtom (AStr [100])] /\
  sorted_with h0 (@isort _) ex_items true = [VAtom (AStr [100]); VAtom (AStr [97]); VAtom (AStr [99]); VAtom (AStr [98]); VAtom (AStr [101])] /\
  minmax h0 LT ex_items = Some (Ok (VAtom (AStr [98]))) /\ minmax h0 GT ex_items = Some (Ok (VAtom (AStr [100]))).
Proof. vm_compute. repeat split; discriminate. Qed.

(* ======================================================================
   dict and set IN the theorem universe (ModelColl.cval: the universe above plus
   CDict -- insertion-ordered entries, keys any hashable value of the universe
   above, nested tuples included, values any cval -- and CSet).
   cok v := cfits CompareLimit v : boolean guard -- nesting within the depth limit
   and every dict / set inside v is one the hashtable can hold (keys hashable,
   comparable by Equal at its fresh CompareLimit, pairwise non-==).
   kok k : boolean guard on a key -- hashable and fits CompareLimit.
   ====================================================================== *)
From SV Require Import C11.ModelColl C11.ProofsCollKeys C11.ProofsColl C11.ProofsCollLaws C11.ProofsCollProps C11.ProofsCollInj.

(* the extension is conservative: on EVERY value of Model.v (its atom-keyed dicts and
   sets included -- the ones the correspondence check runs against the implementation),
   every operator and every depth, the extended CompareDepth is the existing one; and
   the guard of the theorems above implies the guard of the theorems below *)
Theorem coll_conservative :
  forall hs,
    (forall d op x y, ccompare_depth hs d op (inj x) (inj y) = compare_depth hs d op x y) /\
    (forall d x, fits d x = true -> cfits hs d (inj x) = true).
Proof. exact inj_conservative_all. Qed.

(* == is reflexive (NaN inside dict values included), symmetric, transitive on ALL values *)
Theorem eq_equivalence_coll :
  forall hs,
    (forall x, cok hs x = true -> ccompare hs EQL x x = Ok true) /\
    (forall x y, cok hs x = true -> cok hs y = true -> ccompare hs EQL x y = ccompare hs EQL y x) /\
    (forall x y z, cok hs x = true -> cok hs y = true -> cok hs z = true ->
       ccompare hs EQL x y = Ok true -> ccompare hs EQL y z = Ok true -> ccompare hs EQL x z = Ok true).
Proof. intro hs. exact (conj (ceq_refl_lemma hs) (conj (ceq_sym_lemma hs) (ceq_trans_lemma hs))). Qed.

(* within the limit == always answers, and != answers the negation *)
Theorem neq_is_negation_coll :
  forall hs x y, cok hs x = true -> cok hs y = true ->
    exists b, ccompare hs EQL x y = Ok b /\ ccompare hs NEQ x y = Ok (negb b).
Proof. exact ceq_total_lemma. Qed.

(* == values are interchangeable in == and != against any third value, on either side *)
Theorem eq_interchangeable_coll :
  forall hs x y z, cok hs x = true -> cok hs y = true -> cok hs z = true -> ccompare hs EQL x y = Ok true ->
    (ccompare hs EQL x z = ccompare hs EQL y z /\ ccompare hs NEQ x z = ccompare hs NEQ y z) /\
    (ccompare hs EQL z x = ccompare hs EQL z y /\ ccompare hs NEQ z x = ccompare hs NEQ z y).
Proof. exact ceq_congr_lemma. Qed.

(* dicts are == exactly when each one's entries are found in the other modulo == of
   keys and == of values (one level down): nothing about the order of the entries *)
Theorem dict_eq_spec :
  forall hs a b, cok hs (CDict a) = true -> cok hs (CDict b) = true ->
    (ccompare hs EQL (CDict a) (CDict b) = Ok true <->
     ((forall k v, In (k, v) a -> exists k' v', In (k', v') b /\ compare hs EQL k k' = Ok true /\
                                          ccompare_depth hs (pred CompareLimit) EQL v v' = Ok true) /\
      (forall k v, In (k, v) b -> exists k' v', In (k', v') a /\ compare hs EQL k k' = Ok true /\
                                          ccompare_depth hs (pred CompareLimit) EQL v v' = Ok true))).
Proof. exact dict_eq_spec_lemma. Qed.

(* permuting the entries of a dict / the elements of a set preserves well-formedness and == *)
Theorem dict_eq_order_insensitive :
  forall hs,
    (forall kv kv', Permutation kv kv' -> cok hs (CDict kv) = true ->
       cok hs (CDict kv') = true /\ ccompare hs EQL (CDict kv) (CDict kv') = Ok true) /\
    (forall ks ks', Permutation ks ks' -> cok hs (CSet ks) = true ->
       cok hs (CSet ks') = true /\ ccompare hs EQL (CSet ks) (CSet ks') = Ok true).
Proof. intro hs. exact (conj (dict_perm_eq hs) (set_perm_eq hs)). Qed.

(* k == k' (1 / 1.0, (1, "x") / (1.0, "x"), ...): every dict and set answers the same
   for both (Get, `in`, Has), and inserting under k' into a dict that has k updates
   that entry -- the key list is unchanged, no second entry *)
Theorem eq_interchangeable_keys :
  forall hs k k', kok hs k = true -> kok hs k' = true -> compare hs EQL k k' = Ok true ->
    (forall (A : Type) (kv : list (value * A)), forallb (kok hs) (map fst kv) = true ->
       cdict_get hs kv k = cdict_get hs kv k' /\ cin_dict hs kv k = cin_dict hs kv k') /\
    (forall ks, forallb (kok hs) ks = true -> cset_has hs ks k = cset_has hs ks k') /\
    (forall (A : Type) (kv : list (value * A)) (v' : A), forallb (kok hs) (map fst kv) = true -> cin_dict hs kv k = true ->
       exists kv', cdict_insert hs kv k' v' = Ok kv' /\ map fst kv' = map fst kv /\
                   cdict_get hs kv' k = Ok (Some v') /\ cdict_get hs kv' k' = Ok (Some v')).
Proof. exact eq_keys_lemma. Qed.

(* Get / Has do not depend on the order in which the entries are probed (the model probes in
   insertion order, the implementation in bucket order) *)
Theorem lookup_order_insensitive :
  forall hs k, kok hs k = true ->
    (forall (A : Type) (kv kv' : list (value * A)), Permutation kv kv' -> keys_wf hs (map fst kv) = true ->
       cdict_get hs kv k = cdict_get hs kv' k) /\
    (forall ks ks', Permutation ks ks' -> keys_wf hs ks = true -> cset_has hs ks k = cset_has hs ks' k).
Proof. exact lookup_perm_lemma. Qed.

(* <, <=, >, >= on two dicts are errors *)
Theorem dict_unordered :
  forall hs d op a b, is_eqop op = false -> ccompare_depth hs (S d) op (CDict a) (CDict b) = ErrUnord.
Proof. exact dict_unordered_lemma. Qed.

(* the subset operators on sets: <= is a partial order whose equivalence is ==; all
   six operators always answer, < is (<= and not ==), >= and > are the converses *)
Theorem set_order_partial :
  forall hs,
    (forall a, cok hs (CSet a) = true -> ccompare hs LE (CSet a) (CSet a) = Ok true) /\
    (forall a b, cok hs (CSet a) = true -> cok hs (CSet b) = true ->
       ccompare hs LE (CSet a) (CSet b) = Ok true -> ccompare hs LE (CSet b) (CSet a) = Ok true ->
       ccompare hs EQL (CSet a) (CSet b) = Ok true) /\
    (forall a b c, cok hs (CSet a) = true -> cok hs (CSet b) = true -> cok hs (CSet c) = true ->
       ccompare hs LE (CSet a) (CSet b) = Ok true -> ccompare hs LE (CSet b) (CSet c) = Ok true ->
       ccompare hs LE (CSet a) (CSet c) = Ok true) /\
    (forall a b, cok hs (CSet a) = true -> cok hs (CSet b) = true ->
       exists e le,
         ccompare hs EQL (CSet a) (CSet b) = Ok e /\ ccompare hs NEQ (CSet a) (CSet b) = Ok (negb e) /\
         ccompare hs LE (CSet a) (CSet b) = Ok le /\ ccompare hs LT (CSet a) (CSet b) = Ok (le && negb e) /\
         ccompare hs GE (CSet b) (CSet a) = Ok le /\ ccompare hs GT (CSet b) (CSet a) = Ok (le && negb e) /\
         (e = true -> le = true)).
Proof. intro hs. exact (conj (set_le_refl hs) (conj (set_le_antisym hs) (conj (set_le_trans hs) (set_ops_lemma hs)))). Qed.

(* ---- non-vacuity for the dict / set theorems ---- *)
Definition cI (z : Z) : cval := CAtom (AInt z).
Definition cF1 : cval := CAtom (AFloat (FFin false 1 0)).           (* 1.0 *)
Definition kI (z : Z) : value := VAtom (AInt z).
Definition kF (m e : Z) : value := VAtom (AFloat (FFin false m e)).
(* {1: "a", 2.0: (1, 2)}  and  {2: (1.0, 2), 1.0: "a"} *)
Definition ex_d1 : cval := CDict [(kI 1, CAtom (AStr [97])); (kF 1 1, CTuple [cI 1; cI 2])].
Definition ex_d2 : cval := CDict [(kI 2, CTuple [cF1; cI 2]); (kF 1 0, CAtom (AStr [97]))].
(* the tuple keys (1, "x") and (1.0, "x") *)
Definition ex_k : value := VTuple [kI 1; VAtom (AStr [120])].
Definition ex_k' : value := VTuple [kF 1 0; VAtom (AStr [120])].
(* {(1, "x"): [{1: nan}], None: {2}} : dict in list in dict, NaN, a set *)
Definition ex_d3 : cval :=
  CDict [(ex_k, CList [CDict [(kI 1, CAtom (AFloat FNaN))]]); (VAtom ANone, CSet [kI 2])].
Definition ex_d3' : cval :=
  CDict [(VAtom ANone, CSet [kF 1 1]); (ex_k', CList [CDict [(kF 1 0, CAtom (AFloat FNaN))]])].

Example coll_premises_hold :
  cok h0 ex_d1 = true /\ cok h0 ex_d2 = true /\
  ccompare h0 EQL ex_d1 ex_d2 = Ok true /\ ccompare h0 NEQ ex_d1 ex_d2 = Ok false /\ ccompare h0 LT ex_d1 ex_d2 = ErrUnord /\
  cok h0 ex_d3 = true /\ cok h0 ex_d3' = true /\ ccompare h0 EQL ex_d3 ex_d3' = Ok true /\ ccompare h0 EQL ex_d3 ex_d3 = Ok true /\
  ccompare h0 EQL ex_d1 ex_d3 = Ok false /\
  (* a tuple key looked up by an == tuple key; insertion under it updates *)
  kok h0 ex_k = true /\ kok h0 ex_k' = true /\ compare h0 EQL ex_k ex_k' = Ok true /\
  cdict_get h0 [(kI 5, cI 0); (ex_k, cI 7)] ex_k' = Ok (Some (cI 7)) /\
  cdict_insert h0 [(kI 5, cI 0); (ex_k, cI 7)] ex_k' (cI 8) = Ok [(kI 5, cI 0); (ex_k, cI 8)] /\
  cdict_insert h0 [(kI 5, cI 0)] ex_k' (cI 8) = Ok [(kI 5, cI 0); (ex_k', cI 8)] /\
  cset_has h0 [kI 5; ex_k] ex_k' = Ok true /\ cin_dict h0 [(ex_k, cI 7)] (kI 1) = false /\
  (* an unhashable key is an error of Get / Has (and `in dict` says False) *)
  cdict_get h0 [(kI 5, cI 0)] (VList []) = ErrUnord /\ cin_dict h0 [(kI 5, cI 0)] (VList []) = false /\
  (* the guard rejects what insert cannot build: == keys twice, an unhashable key *)
  cok h0 (CDict [(kI 1, cI 0); (kF 1 0, cI 0)]) = false /\ cok h0 (CSet [VList []]) = false /\
  (* sets: {1, 2} <= {2.0, 1, 3}, strictly; {1, 2} == {2.0, 1.0} *)
  ccompare h0 LE (CSet [kI 1; kI 2]) (CSet [kF 1 1; kI 1; kI 3]) = Ok true /\
  ccompare h0 LT (CSet [kI 1; kI 2]) (CSet [kF 1 1; kI 1; kI 3]) = Ok true /\
  ccompare h0 GE (CSet [kI 1; kI 2]) (CSet [kF 1 1; kI 1; kI 3]) = Ok false /\
  ccompare h0 EQL (CSet [kI 1; kI 2]) (CSet [kF 1 1; kF 1 0]) = Ok true /\
  ccompare h0 LT (CSet [kI 1; kI 2]) (CSet [kF 1 1; kF 1 0]) = Ok false /\
  (* the depth limit applies to dict values *)
  ccompare_depth h0 1 EQL (CDict [(kI 1, CDict [])]) (CDict [(kI 1, CDict [])]) = ErrDepth /\
  Permutation [(kI 1, cI 0); (kI 2, cI 1)] [(kI 2, cI 1); (kI 1, cI 0)].
Proof. vm_compute. repeat split; try discriminate. apply perm_swap. Qed.
