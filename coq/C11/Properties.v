(* C11 -- property theorems only. *)
From Coq Require Import ZArith QArith Bool List.
From SV Require Import C11.Model C11.Spec C11.Proofs.
Import ListNotations.
Open Scope Z_scope.

Theorem threeway_neq_negation : forall c, threeway NEQ c = negb (threeway EQL c).
Proof. exact (threeway_neq EQL). Qed.
