(* C11 -- sorted / min / max: Less is a strict weak order on any sequence of
   pairwise comparable keys; consequences for a stable sort (contract assumed
   for sort.Stable) and for the min/max fold. *)
From Coq Require Import ZArith QArith Bool List Lia Permutation Sorted.
From SV Require Import C11.Model C11.Spec C11.ProofsAtom C11.ProofsValue C11.ProofsLaws C11.ProofsHash C11.Proofs.
Import ListNotations.
Open Scope Z_scope.

Section Generic.
  Variable A : Type.

  (* strict weak order on the elements of l *)
  Definition swo_on (lt : A -> A -> bool) (l : list A) : Prop :=
    (forall a, In a l -> lt a a = false) /\
    (forall a b c, In a l -> In b l -> In c l -> lt a b = true -> lt b c = true -> lt a c = true) /\
    (forall a b c, In a l -> In b l -> In c l ->
       lt a b = false -> lt b a = false -> lt b c = false -> lt c b = false -> lt a c = false /\ lt c a = false).

  Definition equiv (lt : A -> A -> bool) (a b : A) : bool := negb (lt a b) && negb (lt b a).

  Lemma swo_converse lt l : swo_on lt l -> swo_on (fun a b => lt b a) l.
  Proof.
    intros [I [T E]]. repeat split.
    - exact I.
    - intros a b c Ha Hb Hc H1 H2. apply (T c b a); assumption.
    - destruct (E c b a) as [X Y]; assumption.
    - destruct (E c b a) as [X Y]; assumption.
  Qed.

  Section Order.
    Variable lt : A -> A -> bool.
    Variable l : list A.
    Hypothesis W : swo_on lt l.

    Lemma lt_le_trans a b c : In a l -> In b l -> In c l -> lt a b = true -> lt c b = false -> lt a c = true.
    Proof.
      destruct W as [I [T E]]. intros Ha Hb Hc AB CB.
      destruct (lt a c) eqn:AC; [reflexivity|]. exfalso.
      destruct (lt c a) eqn:CA.
      { rewrite (T c a b Hc Ha Hb CA AB) in CB. discriminate. }
      destruct (lt b c) eqn:BC.
      { rewrite (T a b c Ha Hb Hc AB BC) in AC. discriminate. }
      destruct (E a c b Ha Hc Hb AC CA CB BC) as [X _]. rewrite X in AB. discriminate.
    Qed.

    (* the fold of min / max *)
    Fixpoint gloop (best : A) (rest : list A) : A :=
      match rest with
      | [] => best
      | x :: r => if lt x best then gloop x r else gloop best r
      end.

    (* b is the first element of done than which no element is strictly better *)
    Definition first_best (done : list A) (b : A) (p : nat) : Prop :=
      nth_error done p = Some b /\
      (forall x, In x done -> lt x b = false) /\
      (forall q x, (q < p)%nat -> nth_error done q = Some x -> lt b x = true).

    Lemma gloop_spec : forall rest done b p,
      (forall x, In x (done ++ rest) -> In x l) ->
      first_best done b p -> exists p', first_best (done ++ rest) (gloop b rest) p'.
    Proof.
      pose proof W as [I [T E]].
      induction rest as [|x r IH]; intros done b p Dom [N [B1 B2]].
      - rewrite app_nil_r. exists p. repeat split; assumption.
      - assert (Hb : In b l). { apply Dom, in_or_app. left. eapply nth_error_In, N. }
        assert (Hx : In x l). { apply Dom, in_or_app. right. left. reflexivity. }
        assert (Hd : forall y, In y done -> In y l). { intros y Hy. apply Dom, in_or_app. left. exact Hy. }
        assert (R : done ++ x :: r = (done ++ [x]) ++ r) by (rewrite <- app_assoc; reflexivity).
        rewrite R. cbn [gloop]. destruct (lt x b) eqn:XB.
        + apply (IH (done ++ [x]) x (length done)).
          { rewrite <- R. exact Dom. }
          repeat split.
          * rewrite nth_error_app2 by lia. rewrite Nat.sub_diag. reflexivity.
          * intros y Hy. apply in_app_or in Hy. destruct Hy as [Hy|[Hy|[]]].
            -- destruct (lt y x) eqn:YX; [|reflexivity].
               pose proof (T y x b (Hd y Hy) Hx Hb YX XB) as C. rewrite (B1 y Hy) in C. discriminate.
            -- subst y. apply I, Hx.
          * intros q y Hq Hn. rewrite nth_error_app1 in Hn by exact Hq.
            pose proof (nth_error_In _ _ Hn) as Hy.
            apply (lt_le_trans x b y Hx Hb (Hd y Hy) XB (B1 y Hy)).
        + apply (IH (done ++ [x]) b p).
          { rewrite <- R. exact Dom. }
          assert (Pl : (p < length done)%nat) by (apply nth_error_Some; rewrite N; discriminate).
          repeat split.
          * rewrite nth_error_app1 by exact Pl. exact N.
          * intros y Hy. apply in_app_or in Hy. destruct Hy as [Hy|[Hy|[]]]; [apply B1, Hy|subst y; exact XB].
          * intros q y Hq Hn. rewrite nth_error_app1 in Hn by lia. apply (B2 q y Hq Hn).
    Qed.

    Lemma gloop_first_best b rest : (forall x, In x (b :: rest) -> In x l) ->
      exists p, first_best (b :: rest) (gloop b rest) p.
    Proof.
      pose proof W as [I [T E]].
      intro Dom. apply (gloop_spec rest [b] b 0%nat Dom).
      repeat split.
      - intros x [Hx|[]]. subst x. apply I, Dom. left. reflexivity.
      - intros q x Hq. lia.
    Qed.
  End Order.

  (* the contract of a stable sort (what sort.Stable is assumed to provide for a
     Less that is a strict weak order): a permutation, sorted, and elements that
     are equivalent under the order keep their input order *)
  Definition stable_sort_contract (srt : (A -> A -> bool) -> list A -> list A) : Prop :=
    forall lt l, swo_on lt l ->
      Permutation l (srt lt l) /\
      StronglySorted (fun a b => lt b a = false) (srt lt l) /\
      (forall e, In e l -> filter (equiv lt e) (srt lt l) = filter (equiv lt e) l).
End Generic.

Section WithHash.
  Variable hs : list Z -> Z.
  Notation cmp := (compare hs).
  Notation item := (value * value)%type.

  Definition keys_ok (items : list item) : Prop := forall it, In it items -> ok (fst it) = true.

  Lemma all_comparable_In items a b : all_comparable hs items = true -> In a items -> In b items ->
    exists t, cmp LT (fst a) (fst b) = Ok t.
  Proof.
    intros H Ha Hb. unfold all_comparable in H.
    pose proof (forallb_In _ _ _ H Ha) as H1. cbv beta in H1.
    pose proof (forallb_In _ _ _ H1 Hb) as H2. cbv beta in H2.
    apply negb_true_iff in H2. revert H2. unfold less_fails.
    generalize (cmp LT (fst a) (fst b)). intros [t| |] H2; try discriminate. exists t. reflexivity.
  Qed.

  (* under comparability: an ordered outcome, and less reads it *)
  Lemma less_char items a b : keys_ok items -> all_comparable hs items = true -> In a items -> In b items ->
    exists o, cmp3 CompareLimit (fst a) (fst b) = Some o /\ is_ordered o = true /\
              less hs a b = match o with OLt => true | _ => false end.
  Proof.
    intros K C Ha Hb. destruct (all_comparable_In items a b C Ha Hb) as [t Ht].
    destruct (cmp_spec hs (fst a) (fst b) (K a Ha) (K b Hb)) as [o [E A]].
    exists o. split; [exact E|]. unfold less. rewrite A in Ht. rewrite A. clear E A. destruct o; try discriminate Ht; split; reflexivity.
  Qed.

  Lemma less_swo items : keys_ok items -> all_comparable hs items = true -> swo_on item (less hs) items.
  Proof.
    intros K C. destruct (laws CompareLimit) as [LR [LF [LC LT']]]. split; [|split].
    - intros a Ha. destruct (less_char items a a K C Ha Ha) as [o [E [O L]]]. rewrite L.
      pose proof (LR (fst a) (K a Ha)) as R. rewrite E in R. cbn [oequal] in R. clear E. destruct o; try discriminate; reflexivity.
    - intros a b c Ha Hb Hc H1 H2.
      destruct (less_char items a b K C Ha Hb) as [o1 [E1 [O1 L1]]].
      destruct (less_char items b c K C Hb Hc) as [o2 [E2 [O2 L2]]].
      destruct (less_char items a c K C Ha Hc) as [o3 [E3 [O3 L3]]].
      rewrite L1 in H1. rewrite L2 in H2. rewrite L3.
      destruct o1; try discriminate. destruct o2; try discriminate.
      pose proof (LT' (fst a) (fst b) (fst c) (K a Ha) (K b Hb) (K c Hc) E1 E2) as T. rewrite E3 in T. inversion T. reflexivity.
    - intros a b c Ha Hb Hc H1 H2 H3 H4.
      destruct (less_char items a b K C Ha Hb) as [o1 [E1 [O1 L1]]].
      destruct (less_char items b a K C Hb Ha) as [o1' [E1' [O1' L1']]].
      destruct (less_char items b c K C Hb Hc) as [o2 [E2 [O2 L2]]].
      destruct (less_char items c b K C Hc Hb) as [o2' [E2' [O2' L2']]].
      destruct (less_char items a c K C Ha Hc) as [o3 [E3 [O3 L3]]].
      destruct (less_char items c a K C Hc Ha) as [o3' [E3' [O3' L3']]].
      pose proof (LF (fst a) (fst b) (K a Ha) (K b Hb)) as F1. rewrite E1, E1' in F1. cbn [oflip option_map] in F1. injection F1 as F1; subst o1'.
      pose proof (LF (fst b) (fst c) (K b Hb) (K c Hc)) as F2. rewrite E2, E2' in F2. cbn [oflip option_map] in F2. injection F2 as F2; subst o2'.
      pose proof (LF (fst a) (fst c) (K a Ha) (K c Hc)) as F3. rewrite E3, E3' in F3. cbn [oflip option_map] in F3. injection F3 as F3; subst o3'.
      rewrite L1 in H1. rewrite L1' in H2. rewrite L2 in H3. rewrite L2' in H4. rewrite L3, L3'.
      assert (Q1 : o1 = OEq) by (clear - H1 H2 O1; destruct o1; try discriminate; reflexivity).
      assert (Q2 : o2 = OEq) by (clear - H3 H4 O2; destruct o2; try discriminate; reflexivity).
      subst o1 o2.
      assert (Q : oequal (cmp3 CompareLimit (fst a) (fst b)) = true) by (rewrite E1; reflexivity).
      pose proof (LC (fst a) (fst b) (fst c) (K a Ha) (K b Hb) (K c Hc) Q) as C3. rewrite E3, E2 in C3. inversion C3; subst o3.
      split; reflexivity.
  Qed.

  Lemma rev_less_swo items : keys_ok items -> all_comparable hs items = true -> swo_on item (rev_less hs) items.
  Proof. intros K C. apply (swo_converse item (less hs) items), less_swo; assumption. Qed.

  (* ---------- sorted ---------- *)
  Section Sorted.
    Variable srt : (item -> item -> bool) -> list item -> list item.
    Hypothesis srt_contract : stable_sort_contract item srt.

    Lemma sorted_spec_lemma (items : list item) (reverse : bool) :
      keys_ok items -> all_comparable hs items = true ->
      let lt : item -> item -> bool := if reverse then rev_less hs else less hs in
      exists out,
        sorted_with hs srt items reverse = map snd out /\
        Permutation items out /\
        StronglySorted (fun a b => lt b a = false) out /\
        (forall e, In e items -> filter (equiv item lt e) out = filter (equiv item lt e) items).
    Proof.
      intros K C lt. exists (srt lt items). split; [reflexivity|].
      apply srt_contract. unfold lt. destruct reverse; [apply rev_less_swo|apply less_swo]; assumption.
    Qed.
  End Sorted.

  (* ---------- min / max ---------- *)
  Definition better (ismax : bool) : item -> item -> bool := if ismax then rev_less hs else less hs.
  Definition mmop (ismax : bool) : tok := if ismax then GT else LT.

  Lemma cmp_gt_lt x y : ok x = true -> ok y = true -> cmp GT x y = cmp LT y x.
  Proof.
    intros Fx Fy. destruct (cmp_spec hs x y Fx Fy) as [o [E A]]. destruct (cmp_spec hs y x Fy Fx) as [o' [E' A']].
    pose proof (proj1 (proj2 (laws CompareLimit)) x y Fx Fy) as F. rewrite E, E' in F. cbn [oflip option_map] in F. injection F as F; subst o'.
    rewrite A, A'. clear. destruct o; reflexivity.
  Qed.

  Lemma minmax_loop_gloop (ismax : bool) (items : list item) : keys_ok items -> all_comparable hs items = true ->
    forall rest best, (forall x, In x (best :: rest) -> In x items) ->
      minmax_loop hs (mmop ismax) best rest = Ok (snd (gloop item (better ismax) best rest)).
  Proof.
    intros K C. induction rest as [|kx r IH]; intros best Dom; [reflexivity|].
    cbn [minmax_loop gloop].
    assert (Hk : In kx items) by (apply Dom; right; left; reflexivity).
    assert (Hb : In best items) by (apply Dom; left; reflexivity).
    assert (Q : cmp (mmop ismax) (fst kx) (fst best) = Ok (better ismax kx best)).
    { destruct ismax; simpl.
      - rewrite (cmp_gt_lt _ _ (K kx Hk) (K best Hb)). unfold rev_less, less.
        destruct (all_comparable_In items best kx C Hb Hk) as [t Ht]. rewrite Ht. reflexivity.
      - unfold less. destruct (all_comparable_In items kx best C Hk Hb) as [t Ht]. rewrite Ht. reflexivity. }
    rewrite Q. destruct (better ismax kx best).
    - apply IH. intros x [Hx|Hx]; [subst x; exact Hk|apply Dom; right; right; exact Hx].
    - apply IH. intros x [Hx|Hx]; [subst x; exact Hb|apply Dom; right; right; exact Hx].
  Qed.

  Lemma minmax_spec_lemma (ismax : bool) (items : list item) :
    keys_ok items -> all_comparable hs items = true -> items <> [] ->
    exists b p,
      minmax hs (mmop ismax) items = Some (Ok (snd b)) /\
      nth_error items p = Some b /\
      (forall x, In x items -> better ismax x b = false) /\
      (forall q x, (q < p)%nat -> nth_error items q = Some x -> better ismax b x = true).
  Proof.
    intros K C NE. destruct items as [|b0 r]; [congruence|].
    assert (W : swo_on item (better ismax) (b0 :: r)).
    { unfold better. destruct ismax; [apply rev_less_swo|apply less_swo]; assumption. }
    destruct (gloop_first_best item (better ismax) (b0 :: r) W b0 r (fun x H => H)) as [p [N [B1 B2]]].
    exists (gloop item (better ismax) b0 r), p. repeat split; try assumption.
    cbn [minmax]. f_equal. apply (minmax_loop_gloop ismax (b0 :: r) K C r b0). exact (fun x H => H).
  Qed.

  Lemma minmax_empty op : minmax hs op [] = None.
  Proof. reflexivity. Qed.
End WithHash.
