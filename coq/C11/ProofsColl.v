(* C11 -- dict / set: the hashtable operations on well-formed keys are lookups modulo
   == (the hash filter never hides an equal key), and what the loops of
   sliceCompare / structsEqual / dictsEqual / setsEqual / IsSuperset / count decide. *)
From Coq Require Import ZArith QArith Bool List Lia Permutation.
From SV Require Import C11.Model C11.Spec C11.ProofsAtom C11.ProofsValue C11.ProofsLaws C11.ProofsHash C11.Proofs
  C11.ModelColl C11.ProofsCollKeys.
Import ListNotations.
Open Scope Z_scope.

(* ---------- Forall2 with hypotheses restricted to the members ---------- *)
Section F2.
  Variables (A : Type) (R : A -> A -> Prop).
  Lemma F2_refl l : (forall x, In x l -> R x x) -> Forall2 R l l.
  Proof. induction l as [|x l IH]; intro H; constructor; [apply H; left; reflexivity|apply IH; intros; apply H; right; assumption]. Qed.
  Lemma F2_sym l m : (forall x y, In x l -> In y m -> R x y -> R y x) -> Forall2 R l m -> Forall2 R m l.
  Proof.
    intros H F. induction F as [|x y l m Rxy F IH]; constructor.
    - apply H; try (left; reflexivity). exact Rxy.
    - apply IH. intros; apply H; try (right; assumption). assumption.
  Qed.
  Lemma F2_trans l m : forall n, (forall x y z, In x l -> In y m -> In z n -> R x y -> R y z -> R x z) ->
    Forall2 R l m -> Forall2 R m n -> Forall2 R l n.
  Proof.
    intros n H F. revert n H. induction F as [|x y l m Rxy F IH]; intros n H G; inversion G as [|? z ? n' Ryz G']; subst; constructor.
    - apply (H x y z); try (left; reflexivity); assumption.
    - apply IH; [|exact G']. intros a b c Ha Hb Hc. apply H; right; assumption.
  Qed.
  Lemma F2_length l m : Forall2 R l m -> length l = length m.
  Proof. induction 1; simpl; congruence. Qed.
End F2.

(* ---------- sliceCompare, == and != ---------- *)
Section Slices.
  Variable c : tok -> cval -> cval -> res bool.

  Lemma cslice_loop_eq l : forall m, length l = length m ->
    (forall x y, In x l -> In y m -> exists b, c EQL x y = Ok b) ->
    exists b, cslice_loop c EQL l m = Ok b /\ cslice_loop c NEQ l m = Ok (negb b) /\
              (b = true <-> Forall2 (fun x y => c EQL x y = Ok true) l m).
  Proof.
    induction l as [|x l IH]; intros [|y m] L T; try discriminate.
    - exists true. repeat split; constructor.
    - cbn [cslice_loop]. destruct (T x y (or_introl eq_refl) (or_introl eq_refl)) as [bx Ex]. rewrite Ex.
      destruct bx.
      + destruct (IH m) as [b [E1 [E2 I]]]; [simpl in L; lia|intros; apply T; right; assumption|].
        exists b. split; [exact E1|]. split; [exact E2|]. split.
        * intro Hb. constructor; [exact Ex|apply I, Hb].
        * intro F. inversion F; subst. apply I. assumption.
      + exists false. repeat split; try discriminate. intro F. inversion F; subst. congruence.
  Qed.

  Lemma cslice_eq l m :
    (forall x y, In x l -> In y m -> exists b, c EQL x y = Ok b) ->
    exists b, cslice_compare c EQL l m = Ok b /\ cslice_compare c NEQ l m = Ok (negb b) /\
              (b = true <-> Forall2 (fun x y => c EQL x y = Ok true) l m).
  Proof.
    intro T. unfold cslice_compare. cbn [is_eqop is_neq]. rewrite andb_true_r.
    destruct (Nat.eqb (length l) (length m)) eqn:L; cbn [negb].
    - apply Nat.eqb_eq in L. apply cslice_loop_eq; assumption.
    - apply Nat.eqb_neq in L. exists false. repeat split; try discriminate.
      intro F. exfalso. apply L. eapply F2_length; eassumption.
  Qed.
End Slices.

(* ---------- structsEqual's entries loop ---------- *)
Lemma centries_eq (eqd : cval -> cval -> res bool) f : forall g, length f = length g ->
  (forall nx my, In nx f -> In my g -> exists b, eqd (snd nx) (snd my) = Ok b) ->
  exists b, centries_equal eqd f g = Ok b /\
            (b = true <-> Forall2 (fun nx my => fst nx = fst my /\ eqd (snd nx) (snd my) = Ok true) f g).
Proof.
  induction f as [|[n x] f IH]; intros [|[m y] g] L T; try discriminate.
  - exists true. repeat split; constructor.
  - cbn [centries_equal]. destruct (bytes_eqb n m) eqn:B; cbn [negb].
    + apply bytes_eqb_eq in B. subst m.
      destruct (T (n, x) (n, y) (or_introl eq_refl) (or_introl eq_refl)) as [bx Ex]. simpl in Ex. rewrite Ex.
      destruct bx.
      * destruct (IH g) as [b [E1 I]]; [simpl in L; lia|intros; apply T; right; assumption|].
        exists b. split; [exact E1|]. split.
        -- intro Hb. constructor; [split; [reflexivity|exact Ex]|apply I, Hb].
        -- intro F. inversion F; subst. apply I. assumption.
      * exists false. split; [reflexivity|]. split; [discriminate|].
        intro F. inversion F as [|? ? ? ? [_ Q] ?]; subst. simpl in Q. congruence.
    + exists false. split; [reflexivity|]. split; [discriminate|].
      intro F. inversion F as [|? ? ? ? [Q _] ?]; subst. simpl in Q. subst m. rewrite bytes_eqb_refl in B. discriminate.
Qed.

Section WithHash.
  Variable hs : list Z -> Z.
  Notation Pk := (fun k => kok hs k = true).
  Notation ke := (keqb hs).

  Lemma kok_ok k : kok hs k = true -> ok k = true.
  Proof. unfold kok. intro H. apply andb_true_iff in H. apply H. Qed.
  Lemma kok_hash k : kok hs k = true -> exists h, hash hs k = Some h.
  Proof. unfold kok. intro H. apply andb_true_iff in H. destruct H as [_ H]. destruct (hash hs k); [eexists; reflexivity|discriminate]. Qed.

  (* == on keys is an equivalence (the existing theorems on the existing universe) *)
  Lemma ke_refl x : Pk x -> ke x x = true.
  Proof. intro H. unfold keqb. rewrite (eq_refl_lemma hs x (kok_ok x H)). reflexivity. Qed.
  Lemma ke_sym x y : Pk x -> Pk y -> ke x y = ke y x.
  Proof. intros Hx Hy. unfold keqb. rewrite (eq_sym_lemma hs x y (kok_ok x Hx) (kok_ok y Hy)). reflexivity. Qed.
  Lemma ke_true x y : ke x y = true -> compare hs EQL x y = Ok true.
  Proof. unfold keqb. destruct (compare hs EQL x y) as [[|]| |]; try discriminate. reflexivity. Qed.
  Lemma ke_trans x y z : Pk x -> Pk y -> Pk z -> ke x y = true -> ke y z = true -> ke x z = true.
  Proof.
    intros Hx Hy Hz E1 E2. apply ke_true in E1. apply ke_true in E2. unfold keqb.
    rewrite (eq_trans_lemma hs x y z (kok_ok x Hx) (kok_ok y Hy) (kok_ok z Hz) E1 E2). reflexivity.
  Qed.

  (* the hash filter never hides an equal key: a probe is exactly == *)
  Lemma probe_spec k e : Pk k -> Pk e -> probe hs k e = Ok (ke k e).
  Proof.
    intros Hk He. unfold probe, keqb.
    destruct (kok_hash k Hk) as [h Eh]. destruct (kok_hash e He) as [h' Eh']. rewrite Eh, Eh'.
    destruct (eq_total_lemma hs k e (kok_ok k Hk) (kok_ok e He)) as [b [E _]]. rewrite E.
    destruct b.
    - pose proof (eq_hash_lemma hs k e (kok_ok k Hk) (kok_ok e He) E) as Q. rewrite Eh, Eh' in Q. inversion Q; subst.
      rewrite Z.eqb_refl. reflexivity.
    - destruct (adj0 h =? adj0 h'); reflexivity.
  Qed.

  Lemma clookup_spec A (kv : list (value * A)) k : Pk k -> keysP value Pk A kv ->
    clookup hs kv k = Ok (option_map snd (kfind value ke A kv k)).
  Proof.
    intros Hk F. induction kv as [|[e v] kv IH]; [reflexivity|].
    inversion F as [|? ? Pe F']; subst. cbn [clookup]. rewrite (probe_spec k e Hk Pe).
    unfold kfind. cbn [find fst]. destruct (ke k e); [reflexivity|]. apply IH, F'.
  Qed.

  Lemma cdict_get_spec A (kv : list (value * A)) k : Pk k -> keysP value Pk A kv ->
    cdict_get hs kv k = Ok (option_map snd (kfind value ke A kv k)).
  Proof.
    intros Hk F. unfold cdict_get. destruct (kok_hash k Hk) as [h Eh]. rewrite Eh. apply clookup_spec; assumption.
  Qed.

  Lemma cset_has_spec ks k : Pk k -> Forall Pk ks -> cset_has hs ks k = Ok (existsb (ke k) ks).
  Proof.
    intros Hk F. unfold cset_has, cdict_get. destruct (kok_hash k Hk) as [h Eh]. rewrite Eh.
    induction ks as [|e ks IH]; [reflexivity|]. inversion F as [|? ? Pe F']; subst.
    cbn [sentries map clookup existsb]. rewrite (probe_spec k e Hk Pe).
    destruct (ke k e); [reflexivity|]. apply IH, F'.
  Qed.

  (* ---- dictsEqual's loop decides inclusion modulo == ---- *)
  Lemma cdict_loop_char (eqd : cval -> cval -> res bool) a b :
    keysP value Pk cval a -> keysP value Pk cval b ->
    (forall k v k' v', In (k, v) a -> In (k', v') b -> exists r, eqd v v' = Ok r) ->
    exists r, cdict_loop hs eqd a b = Ok r /\
              (r = true <-> dincl value ke cval (fun v v' => eqd v v' = Ok true) a b).
  Proof.
    intros Fa Fb T. induction a as [|[k xv] a IH].
    - exists true. split; [reflexivity|]. split; [|reflexivity]. intros _ k v [].
    - inversion Fa as [|? ? Pk0 Fa']; subst. cbn [cdict_loop]. simpl in Pk0.
      rewrite (cdict_get_spec cval b k Pk0 Fb).
      destruct (kfind value ke cval b k) as [[k' yv]|] eqn:Fd; cbn [option_map snd].
      + pose proof (kfind_some value ke cval b k k' yv Fd) as [I' _].
        destruct (T k xv k' yv (or_introl eq_refl) I') as [r Er]. rewrite Er. destruct r.
        * destruct IH as [r [E1 I]]; [exact Fa'|intros; eapply T; [right|]; eassumption|].
          exists r. split; [exact E1|]. split.
          -- intros Hr q v [Q|Q].
             ++ inversion Q; subst. exists k', yv. split; assumption.
             ++ apply (proj1 I Hr q v Q).
          -- intro D. apply I. intros q v Q. apply D. right. exact Q.
        * exists false. split; [reflexivity|]. split; [discriminate|].
          intro D. destruct (D k xv (or_introl eq_refl)) as [k2 [v2 [F2 R2]]]. rewrite Fd in F2. inversion F2; subst. congruence.
      + exists false. split; [reflexivity|]. split; [discriminate|].
        intro D. destruct (D k xv (or_introl eq_refl)) as [k2 [v2 [F2 _]]]. rewrite Fd in F2. discriminate.
  Qed.

  (* ---- sets: inclusion modulo == on the element lists ---- *)
  Definition sincl (a b : list value) : Prop := forall k, In k a -> exists e, In e b /\ ke k e = true.

  Lemma existsb_ke b k : existsb (ke k) b = true <-> exists e, In e b /\ ke k e = true.
  Proof. apply existsb_exists. Qed.

  Lemma forall_has_sincl a b : forallb (fun k => existsb (ke k) b) a = true <-> sincl a b.
  Proof.
    rewrite forallb_forall. unfold sincl. split; intros H k I; [apply existsb_ke, H, I|apply existsb_ke, H, I].
  Qed.

  Lemma sincl_refl a : Forall Pk a -> sincl a a.
  Proof. intros F k I. exists k. split; [exact I|]. apply ke_refl. rewrite Forall_forall in F. apply F, I. Qed.

  Lemma sincl_trans a b c : Forall Pk a -> Forall Pk b -> Forall Pk c -> sincl a b -> sincl b c -> sincl a c.
  Proof.
    intros Fa Fb Fc H1 H2 k I. destruct (H1 k I) as [e [Ie Ee]]. destruct (H2 e Ie) as [g [Ig Eg]].
    exists g. split; [exact Ig|]. rewrite Forall_forall in *. apply (ke_trans k e g); auto.
  Qed.

  Lemma sincl_sym a b : keys_wf hs a = true -> keys_wf hs b = true -> (length b <= length a)%nat -> sincl a b -> sincl b a.
  Proof.
    unfold keys_wf. intros Wa Wb L H. apply andb_true_iff in Wa. apply andb_true_iff in Wb.
    destruct Wa as [Fa Na]. destruct Wb as [Fb Nb]. rewrite forallb_forall in Fa, Fb.
    assert (Fa' : Forall Pk a) by (apply Forall_forall; exact Fa).
    assert (Fb' : Forall Pk b) by (apply Forall_forall; exact Fb).
    intros y Iy.
    destruct (pigeon value ke Pk ke_sym ke_trans a b Fa' Fb' Na Nb H L y Iy) as [x [Ix Ex]].
    exists x. split; [exact Ix|]. rewrite ke_sym; auto.
  Qed.

  Lemma sincl_le a b : keys_wf hs a = true -> Forall Pk b -> sincl a b -> (length a <= length b)%nat.
  Proof.
    unfold keys_wf. intros Wa Fb H. apply andb_true_iff in Wa. destruct Wa as [Fa Na]. rewrite forallb_forall in Fa.
    apply (pigeon_le value ke Pk ke_sym ke_trans a b); try assumption. apply Forall_forall; exact Fa.
  Qed.

  Lemma keys_wf_P a : keys_wf hs a = true -> Forall Pk a.
  Proof. unfold keys_wf. intro W. apply andb_true_iff in W. destruct W as [F _]. rewrite forallb_forall in F. apply Forall_forall; exact F. Qed.

  Lemma csets_equal_char a b : Forall Pk a -> Forall Pk b ->
    csets_equal hs a b = true <-> (length a = length b /\ sincl a b).
  Proof.
    intros Fa Fb. unfold csets_equal. rewrite andb_true_iff, Nat.eqb_eq, <- forall_has_sincl.
    assert (Q : forallb (fun k => match cset_has hs b k with Ok true => true | _ => false end) a = forallb (fun k => existsb (ke k) b) a).
    { clear -Fa Fb. induction a as [|k a IH]; [reflexivity|]. inversion Fa; subst. cbn [forallb].
      rewrite (cset_has_spec b k) by assumption. rewrite IH by assumption. destruct (existsb (ke k) b); reflexivity. }
    rewrite Q. reflexivity.
  Qed.

  Lemma csuperset_spec a b : Forall Pk a -> Forall Pk b ->
    csuperset hs a b = Ok (forallb (fun k => existsb (ke k) a) b).
  Proof.
    intros Fa Fb. induction b as [|k b IH]; [reflexivity|]. inversion Fb; subst. cbn [csuperset forallb].
    rewrite (cset_has_spec a k) by assumption. destruct (existsb (ke k) a); [apply IH; assumption|reflexivity].
  Qed.

  Lemma hit_by_spec ys e : Forall Pk ys -> Pk e -> hit_by hs ys e = Ok (existsb (fun k => ke k e) ys).
  Proof.
    intros F He. induction ys as [|k ys IH]; [reflexivity|]. inversion F; subst. cbn [hit_by existsb].
    rewrite (probe_spec k e) by assumption. rewrite IH by assumption. reflexivity.
  Qed.

  Lemma filter_len_le {A} (p : A -> bool) l : (length (filter p l) <= length l)%nat.
  Proof. induction l as [|x l IH]; [apply le_n|]. simpl. destruct (p x); simpl; lia. Qed.

  Lemma filter_all {A} (p : A -> bool) l : Nat.eqb (length (filter p l)) (length l) = forallb p l.
  Proof.
    induction l as [|x l IH]; [reflexivity|]. cbn [filter forallb]. destruct (p x); cbn [length andb].
    - exact IH.
    - apply Nat.eqb_neq. pose proof (filter_len_le p l). lia.
  Qed.

  Lemma ccount_spec xs ys : Forall Pk xs -> Forall Pk ys ->
    ccount hs xs ys = Ok (length (filter (fun e => existsb (fun k => ke k e) ys) xs)).
  Proof.
    intros Fx Fy. induction xs as [|e xs IH]; [reflexivity|]. inversion Fx; subst. cbn [ccount filter].
    rewrite (hit_by_spec ys e) by assumption. rewrite IH by assumption.
    destruct (existsb (fun k => ke k e) ys); reflexivity.
  Qed.

  Lemma csubset_spec xs ys : Forall Pk xs -> Forall Pk ys ->
    csubset hs xs ys = Ok (forallb (fun e => existsb (fun k => ke k e) ys) xs).
  Proof. intros Fx Fy. unfold csubset. rewrite ccount_spec by assumption. rewrite filter_all. reflexivity. Qed.

  Lemma forall_hit_sincl a b : Forall Pk a -> Forall Pk b ->
    forallb (fun e => existsb (fun k => ke k e) b) a = true <-> sincl a b.
  Proof.
    intros Fa Fb. rewrite forallb_forall. unfold sincl. rewrite Forall_forall in *. split; intros H k I.
    - pose proof (H k I) as Q. apply existsb_exists in Q. destruct Q as [e [Ie Ee]]. exists e. split; [exact Ie|]. rewrite ke_sym; auto.
    - destruct (H k I) as [e [Ie Ee]]. apply existsb_exists. exists e. split; [exact Ie|]. rewrite ke_sym; auto.
  Qed.
End WithHash.
