(* C11 -- lemmas. *)
From Coq Require Import ZArith QArith Bool List Lia.
From SV Require Import C11.Model C11.Spec.
Import ListNotations.
Open Scope Z_scope.

Lemma threeway_neq op c : threeway NEQ c = negb (threeway EQL c).
Proof. reflexivity. Qed.
