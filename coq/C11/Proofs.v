(* C11 -- the property-level statements about the model (compare, hash),
   obtained from compare_depth_spec and the laws of the specification. *)
From Coq Require Import ZArith QArith Bool List Lia.
From SV Require Import C11.Model C11.Spec C11.ProofsAtom C11.ProofsValue C11.ProofsLaws C11.ProofsHash.
Import ListNotations.
Open Scope Z_scope.

Definition ok (v : value) : bool := fits CompareLimit v.

Section WithHash.
  Variable hs : list Z -> Z.
  Notation cmp := (compare hs).

  Lemma cmp_spec x y : ok x = true -> ok y = true ->
    exists o, cmp3 CompareLimit x y = Some o /\ forall op, cmp op x y = interp op o.
  Proof. apply compare_depth_spec. Qed.

  Lemma interp_eql_true o : interp EQL o = Ok true -> is_equal o = true.
  Proof. destruct o; simpl; intro H; try discriminate; reflexivity. Qed.
  Lemma interp_eql_of_equal o : is_equal o = true -> interp EQL o = Ok true.
  Proof. destruct o; simpl; intro H; try discriminate; reflexivity. Qed.
  Lemma interp_lt_true o : interp LT o = Ok true -> o = OLt.
  Proof. destruct o; simpl; intro H; try discriminate; reflexivity. Qed.

  Lemma eq_true_equal x y : ok x = true -> ok y = true -> cmp EQL x y = Ok true ->
    oequal (cmp3 CompareLimit x y) = true.
  Proof.
    intros Fx Fy H. destruct (cmp_spec x y Fx Fy) as [o [E A]]. rewrite E. simpl.
    apply interp_eql_true. rewrite <- A. exact H.
  Qed.

  Lemma eq_refl_lemma x : ok x = true -> cmp EQL x x = Ok true.
  Proof.
    intro Fx. destruct (cmp_spec x x Fx Fx) as [o [E A]]. rewrite A.
    apply interp_eql_of_equal. pose proof (proj1 (laws CompareLimit) x Fx) as R. rewrite E in R. exact R.
  Qed.

  Lemma flip_interp_eq o : interp EQL (flip o) = interp EQL o.
  Proof. destruct o; reflexivity. Qed.

  Lemma eq_sym_lemma x y : ok x = true -> ok y = true -> cmp EQL x y = cmp EQL y x.
  Proof.
    intros Fx Fy. destruct (cmp_spec x y Fx Fy) as [o [E A]]. destruct (cmp_spec y x Fy Fx) as [o' [E' A']].
    rewrite A, A'. pose proof (proj1 (proj2 (laws CompareLimit)) x y Fx Fy) as F.
    rewrite E, E' in F. simpl in F. inversion F. apply eq_sym, flip_interp_eq.
  Qed.

  Lemma eq_congr_lemma x y z : ok x = true -> ok y = true -> ok z = true -> cmp EQL x y = Ok true ->
    forall op, cmp op x z = cmp op y z /\ cmp op z x = cmp op z y.
  Proof.
    intros Fx Fy Fz H op. pose proof (eq_true_equal x y Fx Fy H) as Q.
    destruct (laws CompareLimit) as [LR [LF [LC LT']]].
    destruct (cmp_spec x z Fx Fz) as [o1 [E1 A1]]. destruct (cmp_spec y z Fy Fz) as [o2 [E2 A2]].
    destruct (cmp_spec z x Fz Fx) as [o3 [E3 A3]]. destruct (cmp_spec z y Fz Fy) as [o4 [E4 A4]].
    pose proof (LC x y z Fx Fy Fz Q) as C1. rewrite E1, E2 in C1. inversion C1; subst.
    pose proof (LF x z Fx Fz) as F1. pose proof (LF y z Fy Fz) as F2.
    rewrite E3, E1 in F1. rewrite E4, E2 in F2. simpl in F1, F2. inversion F1. inversion F2. subst.
    rewrite A1, A2, A3, A4. split; reflexivity.
  Qed.

  Lemma eq_trans_lemma x y z : ok x = true -> ok y = true -> ok z = true ->
    cmp EQL x y = Ok true -> cmp EQL y z = Ok true -> cmp EQL x z = Ok true.
  Proof.
    intros Fx Fy Fz H1 H2. rewrite (proj1 (eq_congr_lemma x y z Fx Fy Fz H1 EQL)). exact H2.
  Qed.

  Lemma eq_total_lemma x y : ok x = true -> ok y = true -> exists b, cmp EQL x y = Ok b /\ cmp NEQ x y = Ok (negb b).
  Proof.
    intros Fx Fy. destruct (cmp_spec x y Fx Fy) as [o [E A]]. rewrite !A.
    destruct o; simpl; eexists; split; reflexivity.
  Qed.

  Lemma eq_hash_lemma x y : ok x = true -> ok y = true -> cmp EQL x y = Ok true -> hash hs x = hash hs y.
  Proof. intros Fx Fy H. eapply hash_eq; try eassumption. apply eq_true_equal; assumption. Qed.

  (* one total order: whenever < answers, all six operators answer, consistently *)
  Lemma order_total_lemma x y l : ok x = true -> ok y = true -> cmp LT x y = Ok l ->
    exists e g,
      cmp EQL x y = Ok e /\ cmp GT x y = Ok g /\ cmp NEQ x y = Ok (negb e) /\
      cmp LE x y = Ok (l || e) /\ cmp GE x y = Ok (g || e) /\
      cmp LT y x = Ok g /\ cmp GT y x = Ok l /\ cmp LE y x = Ok (g || e) /\ cmp GE y x = Ok (l || e) /\
      ((l = true /\ e = false /\ g = false) \/ (l = false /\ e = true /\ g = false) \/ (l = false /\ e = false /\ g = true)).
  Proof.
    intros Fx Fy H. destruct (cmp_spec x y Fx Fy) as [o [E A]]. destruct (cmp_spec y x Fy Fx) as [o' [E' A']].
    pose proof (proj1 (proj2 (laws CompareLimit)) x y Fx Fy) as F. rewrite E, E' in F. simpl in F. inversion F; subst o'.
    rewrite A in H. rewrite !A, !A'.
    destruct o; simpl in H; try discriminate; inversion H; subst; simpl;
      do 2 eexists; repeat split; try reflexivity; tauto.
  Qed.

  Lemma lt_trans_lemma x y z : ok x = true -> ok y = true -> ok z = true ->
    cmp LT x y = Ok true -> cmp LT y z = Ok true -> cmp LT x z = Ok true.
  Proof.
    intros Fx Fy Fz H1 H2.
    destruct (cmp_spec x y Fx Fy) as [o1 [E1 A1]]. destruct (cmp_spec y z Fy Fz) as [o2 [E2 A2]].
    destruct (cmp_spec x z Fx Fz) as [o3 [E3 A3]].
    rewrite A1 in H1. rewrite A2 in H2. apply interp_lt_true in H1. apply interp_lt_true in H2. subst.
    pose proof (proj2 (proj2 (proj2 (laws CompareLimit))) x y z Fx Fy Fz E1 E2) as T.
    rewrite E3 in T. inversion T. subst. rewrite A3. reflexivity.
  Qed.

  (* ---------- ordered classes: < always answers ---------- *)
  Lemma seq3_ordered c l : forall m,
    (forall x y, In x l -> In y m -> exists o, c x y = Some o /\ is_ordered o = true) ->
    exists o, seq3 c l m = Some o /\ is_ordered o = true.
  Proof.
    induction l as [|x l IH]; intros [|y m] H; try (eexists; split; reflexivity).
    cbn [seq3]. destruct (H x y (or_introl eq_refl) (or_introl eq_refl)) as [o [E O]]. rewrite E.
    destruct (IH m) as [o2 [E2 O2]]. { intros a b Ha Hb. apply H; right; assumption. }
    destruct o; try discriminate; simpl; try (eexists; split; [reflexivity|reflexivity]); exists o2; split; assumption.
  Qed.

  Lemma cls_ordered : forall c d x y, has_cls c x = true -> has_cls c y = true ->
    fits d x = true -> fits d y = true -> exists o, cmp3 d x y = Some o /\ is_ordered o = true.
  Proof.
    induction c as [| | | | | |c IH|c IH]; intros [|d] x y Cx Cy Fx Fy; try discriminate;
      destruct x as [a|l|l|s1 st1 n1|c1 f|kv|ks]; try discriminate;
      destruct y as [b|m|m|s2 st2 n2|c2 g|kv'|ks']; try discriminate.
    - destruct a; try discriminate; destruct b; try discriminate; cbn [cmp3]; eexists; split; try reflexivity;
        unfold atom_cmp3; try rewrite !num_of_float; cbn [num_of]; apply xcmp_ordered.
    - destruct a; try discriminate; destruct b; try discriminate. eexists; split; [reflexivity|]. apply lex3_not_un.
    - destruct a; try discriminate; destruct b; try discriminate. eexists; split; [reflexivity|]. apply lex3_not_un.
    - destruct a; try discriminate; destruct b; try discriminate. eexists; split; [reflexivity|]. apply ord_of_ordered.
    - destruct a; try discriminate; destruct b; try discriminate. eexists; split; [reflexivity|]. apply ord_of_ordered.
    - destruct a; try discriminate; destruct b; try discriminate. eexists; split; [reflexivity|]. apply ord_of_ordered.
    - cbn [cmp3 fits has_cls] in *. apply seq3_ordered. intros x y Hx Hy.
      apply IH; [apply (forallb_In _ _ _ Cx Hx)|apply (forallb_In _ _ _ Cy Hy)|apply (forallb_In _ _ _ Fx Hx)|apply (forallb_In _ _ _ Fy Hy)].
    - cbn [cmp3 fits has_cls] in *. apply seq3_ordered. intros x y Hx Hy.
      apply IH; [apply (forallb_In _ _ _ Cx Hx)|apply (forallb_In _ _ _ Cy Hy)|apply (forallb_In _ _ _ Fx Hx)|apply (forallb_In _ _ _ Fy Hy)].
  Qed.

  Lemma class_comparable_lemma c x y : has_cls c x = true -> has_cls c y = true -> ok x = true -> ok y = true ->
    exists l, cmp LT x y = Ok l.
  Proof.
    intros Cx Cy Fx Fy. destruct (cls_ordered c CompareLimit x y Cx Cy Fx Fy) as [o [E O]].
    destruct (cmp_spec x y Fx Fy) as [o' [E' A]]. rewrite E in E'. inversion E'; subst o'.
    rewrite A. destruct o; try discriminate; eexists; reflexivity.
  Qed.

  (* ---------- beyond the limit: the depth error or the right answer ---------- *)
  Lemma depth_sound_lemma d D op x y b : (d <= D)%nat -> fits D x = true -> fits D y = true ->
    compare_depth hs d op x y = Ok b ->
    exists o, cmp3 D x y = Some o /\ interp op o = Ok b.
  Proof.
    intros L Fx Fy H. apply (compare_depth_mono_le hs d D op x y b L) in H.
    destruct (compare_depth_spec hs D x y Fx Fy) as [o [E A]]. exists o. split; [exact E|]. rewrite <- A. exact H.
  Qed.

  (* ---------- equal atoms are interchangeable as dict / set keys ---------- *)
  Lemma key_match_congr a b k : is_equal (atom_cmp3 a b) = true -> key_match hs a k = key_match hs b k.
  Proof.
    intro H. unfold key_match. rewrite (atom_hash_eq hs a b H), !atom_compare_spec, (atom_cmp3_eq_congr a b k H). reflexivity.
  Qed.

  Lemma dict_get_congr kv a b : is_equal (atom_cmp3 a b) = true -> dict_get hs kv a = dict_get hs kv b.
  Proof.
    intro H. induction kv as [|[k v] kv IH]; [reflexivity|]. simpl. rewrite (key_match_congr a b k H), IH. reflexivity.
  Qed.

  Lemma set_has_congr l a b : is_equal (atom_cmp3 a b) = true -> set_has hs l a = set_has hs l b.
  Proof.
    intro H. unfold set_has. induction l as [|k l IH]; [reflexivity|]. simpl. rewrite (key_match_congr a b k H), IH. reflexivity.
  Qed.
End WithHash.
