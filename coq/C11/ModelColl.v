(* C11 -- the value universe extended with dict and set (starlark/value.go
   dictsEqual / setsEqual / CompareSameType / IsSubset / IsSuperset,
   hashtable.go lookup / insert / count, eval.go Binary IN).  No proofs here.

   cval wraps the existing universe (Model.value): the scalar / sequence / struct
   constructors are the same, and
   * CDict kv : the entries in insertion order.  A KEY is a Model.value (the
     hashable values -- atoms, tuples and structs of hashable values, nested --
     all live in the existing universe: a list, dict or set is never hashable);
     a dict VALUE is any cval (dicts in dicts, lists of dicts ...).
   * CSet ks  : the elements in insertion order (a hashtable whose values are None).
   hashtable.lookup / insert / count test an entry by  e.hash == h  (0 is
   replaced by 1 on both sides) and then  Equal(k, e.key)  -- Equal starts a
   FRESH CompareLimit, whatever the depth at which the dict is being compared
   (`probe`).  Keys of a hashtable are pairwise non-== and hashable because
   insert keeps them so; that invariant is the boolean guard `keys_wf` (in
   `cfits`), not part of the data type.  Where the data type allows a term the
   code cannot build (an unhashable stored key) the model answers ErrUnord
   ("unhashable type" TypeError) -- the guard excludes it.
   Not modelled: bucket order (entries are probed in insertion order; with
   pairwise non-== keys at most one entry can match, so the order is not
   observable within the guard), the early exit of count when every entry has
   been seen (it can only skip a probe error). *)
From Coq Require Import ZArith QArith Bool List.
From SV Require Import C11.Model C11.Spec.
Import ListNotations.
Open Scope Z_scope.

Inductive cval :=
| CAtom (a : atom)
| CTuple (l : list cval)
| CList (l : list cval)
| CRange (start step len : Z)
| CStruct (ctor : atom) (fields : list (list Z * cval))
| CDict (kv : list (value * cval))
| CSet (ks : list value).

(* the existing universe inside the extended one (atom-keyed VDict / VSet included) *)
Fixpoint inj (v : value) : cval :=
  match v with
  | VAtom a => CAtom a
  | VTuple l => CTuple (map inj l)
  | VList l => CList (map inj l)
  | VRange s st n => CRange s st n
  | VStruct c f => CStruct c (map (fun nv => match nv with (n, x) => (n, inj x) end) f)
  | VDict kv => CDict (map (fun e => match e with (k, x) => (VAtom k, inj x) end) kv)
  | VSet ks => CSet (map VAtom ks)
  end.

(* sliceCompare on the extended universe (same text as Model.slice_loop / slice_compare) *)
Fixpoint cslice_loop (cmp : tok -> cval -> cval -> res bool) (op : tok) (l m : list cval) : res bool :=
  match l, m with
  | x :: l', y :: m' =>
      match cmp EQL x y with
      | Ok true => cslice_loop cmp op l' m'
      | Ok false =>
          match op with
          | EQL => Ok false
          | NEQ => Ok true
          | _ => cmp op x y
          end
      | ErrDepth => ErrDepth
      | ErrUnord => ErrUnord
      end
  | _, _ => Ok (threeway op (Z.of_nat (length l) - Z.of_nat (length m)))
  end.

Definition cslice_compare (cmp : tok -> cval -> cval -> res bool) (op : tok) (l m : list cval) : res bool :=
  if negb (Nat.eqb (length l) (length m)) && is_eqop op then Ok (is_neq op)
  else cslice_loop cmp op l m.

(* structsEqual's entries loop *)
Fixpoint centries_equal (eqd : cval -> cval -> res bool) (f g : list (list Z * cval)) : res bool :=
  match f, g with
  | (n, x) :: f', (m, y) :: g' =>
      if negb (bytes_eqb n m) then Ok false
      else match eqd x y with
           | Ok true => centries_equal eqd f' g'
           | r => r
           end
  | _, _ => Ok true
  end.

(* pairwise non-equivalent w.r.t. a boolean relation *)
Fixpoint nodup_by {K} (e : K -> K -> bool) (l : list K) : bool :=
  match l with
  | [] => true
  | k :: r => forallb (fun k' => negb (e k k')) r && nodup_by e r
  end.

Definition is_some {A} (o : option A) : bool := match o with Some _ => true | None => false end.

Section WithStringHash.
  Variable hs : list Z -> Z.

  (* hashtable.go: "zero is reserved" *)
  Definition adj0 (h : Z) : Z := if h =? 0 then 1 else h.

  (* one probe of lookup / insert / count for the key k at the entry whose key is e:
     e.hash == h, then Equal(k, e.key) at a fresh CompareLimit *)
  Definition probe (k e : value) : res bool :=
    match hash hs k, hash hs e with
    | Some h, Some h' => if adj0 h =? adj0 h' then compare hs EQL k e else Ok false
    | _, _ => ErrUnord
    end.

  (* hashtable.lookup: ErrUnord = k is unhashable, ErrDepth = Equal failed *)
  Fixpoint clookup {A} (kv : list (value * A)) (k : value) : res (option A) :=
    match kv with
    | [] => Ok None
    | (e, v) :: r =>
        match probe k e with
        | Ok true => Ok (Some v)
        | Ok false => clookup r k
        | ErrDepth => ErrDepth
        | ErrUnord => ErrUnord
        end
    end.
  Definition cdict_get {A} (kv : list (value * A)) (k : value) : res (option A) :=
    match hash hs k with None => ErrUnord | Some _ => clookup kv k end.

  Definition sentries (ks : list value) : list (value * unit) := map (fun k => (k, tt)) ks.
  Definition cset_has (ks : list value) (k : value) : res bool :=
    match cdict_get (sentries ks) k with
    | Ok (Some _) => Ok true
    | Ok None => Ok false
    | ErrDepth => ErrDepth
    | ErrUnord => ErrUnord
    end.

  (* hashtable.insert: an entry with an equal key keeps its key and position and
     gets the new value; otherwise the pair is appended to the insertion order *)
  Fixpoint cinsert_loop {A} (kv : list (value * A)) (k : value) (v : A) : res (list (value * A)) :=
    match kv with
    | [] => Ok [(k, v)]
    | (e, w) :: r =>
        match probe k e with
        | Ok true => Ok ((e, v) :: r)
        | Ok false => match cinsert_loop r k v with Ok r' => Ok ((e, w) :: r') | q => q end
        | ErrDepth => ErrDepth
        | ErrUnord => ErrUnord
        end
    end.
  Definition cdict_insert {A} (kv : list (value * A)) (k : value) (v : A) : res (list (value * A)) :=
    match hash hs k with None => ErrUnord | Some _ => cinsert_loop kv k v end.

  (* eval.go Binary IN: `k in dict` ignores every error of Get; `k in set` is Has *)
  Definition cin_dict {A} (kv : list (value * A)) (k : value) : bool :=
    match cdict_get kv k with Ok (Some _) => true | _ => false end.
  Definition cin_set (ks : list value) (k : value) : res bool := cset_has ks k.

  (* value.go dictsEqual, the loop over x's entries (Get's error is ignored: not found) *)
  Fixpoint cdict_loop (eqd : cval -> cval -> res bool) (xs y : list (value * cval)) : res bool :=
    match xs with
    | [] => Ok true
    | (k, xv) :: r =>
        match cdict_get y k with
        | Ok (Some yv) => match eqd xv yv with
                          | Ok true => cdict_loop eqd r y
                          | q => q
                          end
        | _ => Ok false
        end
    end.

  (* value.go setsEqual (Has's error is ignored: not found) *)
  Definition csets_equal (x y : list value) : bool :=
    Nat.eqb (length x) (length y) &&
    forallb (fun k => match cset_has y k with Ok true => true | _ => false end) x.

  (* IsSuperset: every element of the other is in s; an error of Has is returned *)
  Fixpoint csuperset (s other : list value) : res bool :=
    match other with
    | [] => Ok true
    | k :: r => match cset_has s k with
                | Ok true => csuperset s r
                | q => q
                end
    end.

  (* hashtable.count: the number of entries of ht that some element of the iterator
     probes equal (every entry with the element's hash is probed, no break) *)
  Definition res_or (a b : res bool) : res bool :=
    match a, b with
    | Ok x, Ok y => Ok (x || y)
    | ErrDepth, _ | _, ErrDepth => ErrDepth
    | _, _ => ErrUnord
    end.
  Fixpoint hit_by (other : list value) (e : value) : res bool :=
    match other with
    | [] => Ok false
    | k :: r => res_or (probe k e) (hit_by r e)
    end.
  Fixpoint ccount (ht other : list value) : res nat :=
    match ht with
    | [] => Ok O
    | e :: r => match hit_by other e, ccount r other with
                | Ok b, Ok n => Ok (if b then S n else n)
                | ErrDepth, _ | _, ErrDepth => ErrDepth
                | _, _ => ErrUnord
                end
    end.
  (* IsSubset: count == s.Len() *)
  Definition csubset (s other : list value) : res bool :=
    match ccount s other with
    | Ok n => Ok (Nat.eqb n (length s))
    | ErrDepth => ErrDepth
    | ErrUnord => ErrUnord
    end.

  (* CompareSameType *)
  Definition cset_compare (op : tok) (x y : list value) : res bool :=
    match op with
    | EQL => Ok (csets_equal x y)
    | NEQ => Ok (negb (csets_equal x y))
    | GE => if Nat.ltb (length x) (length y) then Ok false else csuperset x y
    | LE => if Nat.ltb (length y) (length x) then Ok false else csubset x y
    | GT => if Nat.leb (length x) (length y) then Ok false else csuperset x y
    | LT => if Nat.leb (length y) (length x) then Ok false else csubset x y
    end.

  (* CompareDepth on the extended universe.  d is Go's depth (depth < 1 <-> d = 0). *)
  Fixpoint ccompare_depth (d : nat) (op : tok) (x y : cval) : res bool :=
    match d with
    | O => ErrDepth
    | S d' =>
        match x, y with
        | CAtom a, CAtom b => atom_compare op a b
        | CTuple l, CTuple m => cslice_compare (ccompare_depth d') op l m
        | CList l, CList m => cslice_compare (ccompare_depth d') op l m
        | CRange s1 st1 n1, CRange s2 st2 n2 => eq_only op (Ok (range_equal s1 st1 n1 s2 st2 n2))
        | CStruct c f, CStruct c' g =>
            eq_only op
              (if negb (Nat.eqb (length f) (length g)) then Ok false
               else match atom_compare EQL c c' with
                    | Ok true => centries_equal (ccompare_depth d' EQL) f g
                    | r => r
                    end)
        | CDict a, CDict b =>
            eq_only op (if negb (Nat.eqb (length a) (length b)) then Ok false
                        else cdict_loop (ccompare_depth d' EQL) a b)
        | CSet a, CSet b => cset_compare op a b
        | _, _ => mismatch op
        end
    end.

  Definition ccompare (op : tok) (x y : cval) : res bool := ccompare_depth CompareLimit op x y.

  (* ---- the guard of the theorems ---- *)
  (* == on keys, as a boolean (an error of Equal counts as "no") *)
  Definition keqb (k e : value) : bool :=
    match compare hs EQL k e with Ok true => true | _ => false end.

  (* a key the hashtable can hold: hashable, and within the depth Equal can compare
     (Spec.fits: the existing theorem universe, fresh CompareLimit) *)
  Definition kok (k : value) : bool := fits CompareLimit k && is_some (hash hs k).

  (* the invariant insert maintains: keys hashable and pairwise non-== *)
  Definition keys_wf (ks : list value) : bool := forallb kok ks && nodup_by keqb ks.

  (* cfits d v: v is a value of the extended universe (well-formed dicts / sets
     included) nested within d levels *)
  Fixpoint cfits (d : nat) (v : cval) : bool :=
    match d with
    | O => false
    | S d' =>
        match v with
        | CAtom _ | CRange _ _ _ => true
        | CTuple l | CList l => forallb (cfits d') l
        | CStruct _ f => forallb (fun nv => match nv with (_, x) => cfits d' x end) f
        | CDict kv => keys_wf (map fst kv) && forallb (fun e => match e with (_, x) => cfits d' x end) kv
        | CSet ks => keys_wf ks
        end
    end.

  Definition cok (v : cval) : bool := cfits CompareLimit v.
End WithStringHash.
