(* C11 -- the stable-sort contract is satisfiable: insertion sort (Model.isort,
   the executable stand-in for sort.Stable) meets it. *)
From Coq Require Import ZArith Bool List Lia Permutation Sorted.
From SV Require Import C11.Model C11.ProofsSort.
Import ListNotations.

Section Isort.
  Variable A : Type.
  Variable lt : A -> A -> bool.
  Variable D : list A.
  Hypothesis W : swo_on A lt D.

  Lemma lt_asym a b : In a D -> In b D -> lt a b = true -> lt b a = false.
  Proof.
    destruct W as [I [T E]]. intros Ha Hb H. destruct (lt b a) eqn:F; [|reflexivity].
    pose proof (T a b a Ha Hb Ha H F) as C. rewrite (I a Ha) in C. discriminate.
  Qed.

  Lemma insert_perm x : forall s, Permutation (x :: s) (insert_stable lt x s).
  Proof.
    induction s as [|y r IH]; simpl; [apply Permutation_refl|].
    destruct (lt y x); [|apply Permutation_refl].
    eapply perm_trans; [apply perm_swap|]. apply perm_skip, IH.
  Qed.

  Lemma isort_perm : forall l, Permutation l (isort lt l).
  Proof.
    induction l as [|x l IH]; simpl; [apply perm_nil|].
    eapply perm_trans; [apply perm_skip, IH|]. apply insert_perm.
  Qed.

  Definition R (a b : A) : Prop := lt b a = false.

  Lemma insert_sorted x : In x D -> forall s, incl s D -> StronglySorted R s -> StronglySorted R (insert_stable lt x s).
  Proof.
    intros Hx. induction s as [|y r IH]; intros Inc S; simpl.
    - constructor; constructor.
    - assert (Hy : In y D) by (apply Inc; left; reflexivity).
      assert (Incr : incl r D) by (intros z Hz; apply Inc; right; exact Hz).
      inversion S as [|? ? Sr Fy]; subst.
      destruct (lt y x) eqn:YX.
      + constructor; [apply IH; assumption|].
        apply (Permutation_Forall (insert_perm x r)). constructor; [|exact Fy].
        unfold R. apply lt_asym; assumption.
      + constructor; [exact S|]. constructor; [exact YX|].
        rewrite Forall_forall in *. intros z Hz. unfold R in *.
        destruct (lt z x) eqn:ZX; [|reflexivity].
        pose proof (lt_le_trans A lt D W z x y (Incr z Hz) Hx Hy ZX YX) as C.
        rewrite (Fy z Hz) in C. discriminate.
  Qed.

  Lemma isort_sorted : forall l, incl l D -> StronglySorted R (isort lt l).
  Proof.
    induction l as [|x l IH]; intro Inc; simpl; [constructor|].
    apply insert_sorted.
    - apply Inc. left. reflexivity.
    - intros z Hz. apply Inc. right. apply (Permutation_in _ (Permutation_sym (isort_perm l)) Hz).
    - apply IH. intros z Hz. apply Inc. right. exact Hz.
  Qed.

  Lemma equiv_not_lt e x y : In e D -> In x D -> In y D ->
    equiv A lt e x = true -> equiv A lt e y = true -> lt y x = false.
  Proof.
    destruct W as [I [T E]]. unfold equiv. intros He Hx Hy H1 H2.
    apply andb_true_iff in H1. destruct H1 as [H1a H1b]. apply negb_true_iff in H1a. apply negb_true_iff in H1b.
    apply andb_true_iff in H2. destruct H2 as [H2a H2b]. apply negb_true_iff in H2a. apply negb_true_iff in H2b.
    destruct (E y e x Hy He Hx H2b H2a H1a H1b) as [P _]. exact P.
  Qed.

  Lemma insert_filter e x : In e D -> In x D -> forall s, incl s D ->
    filter (equiv A lt e) (insert_stable lt x s) = filter (equiv A lt e) (x :: s).
  Proof.
    intros He Hx. induction s as [|y r IH]; intro Inc; [reflexivity|].
    assert (Hy : In y D) by (apply Inc; left; reflexivity).
    assert (Incr : incl r D) by (intros z Hz; apply Inc; right; exact Hz).
    cbn [insert_stable]. destruct (lt y x) eqn:YX; [|reflexivity].
    cbn [filter]. rewrite (IH Incr). cbn [filter].
    destruct (equiv A lt e y) eqn:EY; destruct (equiv A lt e x) eqn:EX; try reflexivity.
    rewrite (equiv_not_lt e x y He Hx Hy EX EY) in YX. discriminate.
  Qed.

  Lemma isort_filter e : In e D -> forall l, incl l D ->
    filter (equiv A lt e) (isort lt l) = filter (equiv A lt e) l.
  Proof.
    intros He. induction l as [|x l IH]; intro Inc; [reflexivity|].
    assert (Incl : incl l D) by (intros z Hz; apply Inc; right; exact Hz).
    cbn [isort fold_right]. change (fold_right (insert_stable lt) [] l) with (isort lt l).
    rewrite insert_filter.
    - cbn [filter]. rewrite (IH Incl). reflexivity.
    - exact He.
    - apply Inc. left. reflexivity.
    - intros z Hz. apply Incl. apply (Permutation_in _ (Permutation_sym (isort_perm l)) Hz).
  Qed.
End Isort.

Lemma isort_meets_contract A : stable_sort_contract A (@isort A).
Proof.
  intros lt l W. split; [|split].
  - apply isort_perm.
  - apply (isort_sorted A lt l W l). intros z Hz. exact Hz.
  - intros e He. apply (isort_filter A lt l W e He l). intros z Hz. exact Hz.
Qed.
