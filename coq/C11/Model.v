(* C11 -- executable model of equality, ordering and hashing of Starlark values
   (starlark/value.go CompareDepth / sameType / CompareSameType / Cmp / floatCmp /
   threeway / sliceCompare, int.go Int.Cmp / Int.Hash, library.go rangeEqual /
   sorted / minmax, starlarkstruct structsEqual / Hash, lib/time Cmp / Hash).
   No proofs here.

   Representation choices (what the model covers):
   * Int is Z (the two machine representations are a function of the value:
     small iff int32, see int.go MakeInt64 / MakeBigInt / get).
   * Float: NaN, +-Inf, or a finite dyadic rational m * 2^e (every finite
     binary64 is one; -0.0 carries a flag that nothing inspects).  Comparison and
     hashing need only the exact rational value.
   * String / Bytes: lists of byte values.  The string hash (FNV for < 12 bytes,
     runtime maphash with a per-process seed otherwise) is a Section parameter.
   * *Function / *Builtin: an object identity (id) with the name the hash uses;
     pointer equality is equality of (id, name).
   * Time: the instant in nanoseconds (location is not inspected by Cmp / Hash).
   * struct: the constructor is an atom (string / function / builtin ...);
     structsEqual compares it with starlark.Equal at a fresh CompareLimit, which
     for atoms never reaches the limit.
   * dict / set: keys are atoms (lookup = hash filter + Equal as in
     hashtable.lookup); theorems exclude dict / set (they are not in the
     property's value universe) but the correspondence covers their equality. *)
From Coq Require Import ZArith QArith Bool List.
Import ListNotations.
Open Scope Z_scope.

Inductive tok := EQL | NEQ | LT | LE | GT | GE.

Inductive res (A : Type) := Ok (a : A) | ErrDepth | ErrUnord.
Arguments Ok {A} a.
Arguments ErrDepth {A}.
Arguments ErrUnord {A}.

Inductive flt := FNaN | FInf (neg : bool) | FFin (negzero : bool) (m e : Z).

Inductive atom :=
| ANone
| ABool (b : bool)
| AInt (z : Z)
| AFloat (f : flt)
| AStr (s : list Z)
| ABytes (s : list Z)
| AFunc (id : Z) (name : list Z)
| ABuiltin (id : Z) (name : list Z) (recv : bool)
| ATime (ns : Z)
| ADur (ns : Z).

Inductive value :=
| VAtom (a : atom)
| VTuple (l : list value)
| VList (l : list value)
| VRange (start step len : Z)
| VStruct (ctor : atom) (fields : list (list Z * value))
| VDict (kv : list (atom * value))
| VSet (keys : list atom).

Definition CompareLimit : nat := 10.

(* ---- threeway, b2i ---- *)
Definition threeway (op : tok) (c : Z) : bool :=
  match op with
  | EQL => c =? 0 | NEQ => negb (c =? 0)
  | LE => c <=? 0 | LT => c <? 0 | GE => c >=? 0 | GT => c >? 0
  end.
Definition b2i (b : bool) : Z := if b then 1 else 0.
Definition zcmp (a b : Z) : Z := match a ?= b with Lt => -1 | Eq => 0 | Gt => 1 end.
Definition qcmp (a b : Q) : Z := match Qcompare a b with Lt => -1 | Eq => 0 | Gt => 1 end.

(* ---- floats ---- *)
(* the rational value of a finite float m * 2^e *)
Definition fq (m e : Z) : Q :=
  if 0 <=? e then inject_Z (m * 2 ^ e) else Qmake m (Z.to_pos (2 ^ (- e))).

(* IEEE comparisons x < y, x == y (false when either is NaN) *)
Definition f_lt (x y : flt) : bool :=
  match x, y with
  | FNaN, _ | _, FNaN => false
  | FInf true, FInf true => false
  | FInf true, _ => true
  | _, FInf true => false
  | FInf false, _ => false
  | _, FInf false => true
  | FFin _ m e, FFin _ m' e' => match Qcompare (fq m e) (fq m' e') with Lt => true | _ => false end
  end.
Definition f_eq (x y : flt) : bool :=
  match x, y with
  | FNaN, _ | _, FNaN => false
  | FInf a, FInf b => Bool.eqb a b
  | FFin _ m e, FFin _ m' e' => match Qcompare (fq m e) (fq m' e') with Eq => true | _ => false end
  | _, _ => false
  end.

(* value.go floatCmp *)
Definition float_cmp (x y : flt) : Z :=
  if f_lt y x then 1
  else if f_lt x y then -1
  else if f_eq x y then 0
  else if f_eq x x then -1      (* y is NaN *)
  else if f_eq y y then 1       (* x is NaN *)
  else 0.                       (* both NaN *)

(* CompareDepth, the Int / Float arms: x Int, y Float *)
Definition int_float_cmp (x : Z) (y : flt) : Z :=
  match y with
  | FNaN => -1
  | FFin _ m e => qcmp (inject_Z x) (fq m e)
  | FInf false => -1
  | FInf true => 1
  end.
Definition float_int_cmp (x : flt) (y : Z) : Z :=
  match x with
  | FNaN => 1
  | FFin _ m e => qcmp (fq m e) (inject_Z y)
  | FInf false => 1
  | FInf true => -1
  end.

(* strings.Compare on byte strings *)
Fixpoint lex_cmp (a b : list Z) : Z :=
  match a, b with
  | [], [] => 0
  | [], _ :: _ => -1
  | _ :: _, [] => 1
  | x :: a', y :: b' => if x <? y then -1 else if y <? x then 1 else lex_cmp a' b'
  end.

Fixpoint bytes_eqb (a b : list Z) : bool :=
  match a, b with
  | [], [] => true
  | x :: a', y :: b' => (x =? y) && bytes_eqb a' b'
  | _, _ => false
  end.

(* identity comparison (CompareDepth's fallback for same-type values that are
   neither Comparable nor TotallyOrdered) *)
Definition identity_cmp (op : tok) (same : bool) : res bool :=
  match op with
  | EQL => Ok same
  | NEQ => Ok (negb same)
  | _ => ErrUnord
  end.

(* values of different types *)
Definition mismatch (op : tok) : res bool :=
  match op with EQL => Ok false | NEQ => Ok true | _ => ErrUnord end.

Definition atom_compare (op : tok) (x y : atom) : res bool :=
  match x, y with
  | ANone, ANone => identity_cmp op true
  | ABool a, ABool b => Ok (threeway op (b2i a - b2i b))
  | AInt a, AInt b => Ok (threeway op (zcmp a b))
  | AFloat a, AFloat b => Ok (threeway op (float_cmp a b))
  | AStr a, AStr b => Ok (threeway op (lex_cmp a b))
  | ABytes a, ABytes b => Ok (threeway op (lex_cmp a b))
  | AFunc i n, AFunc j m => identity_cmp op ((i =? j) && bytes_eqb n m)
  | ABuiltin i n r, ABuiltin j m s => identity_cmp op ((i =? j) && bytes_eqb n m && Bool.eqb r s)
  | ATime a, ATime b => Ok (threeway op (zcmp a b))
  | ADur a, ADur b => Ok (threeway op (zcmp a b))
  | AInt a, AFloat b => Ok (threeway op (int_float_cmp a b))
  | AFloat a, AInt b => Ok (threeway op (float_int_cmp a b))
  | _, _ => mismatch op
  end.

Definition is_eqop (op : tok) : bool := match op with EQL | NEQ => true | _ => false end.
Definition is_neq (op : tok) : bool := match op with NEQ => true | _ => false end.

(* sliceCompare's loop; cmp is CompareDepth at depth-1 *)
Fixpoint slice_loop (cmp : tok -> value -> value -> res bool) (op : tok) (l m : list value) : res bool :=
  match l, m with
  | x :: l', y :: m' =>
      match cmp EQL x y with
      | Ok true => slice_loop cmp op l' m'
      | Ok false =>
          match op with
          | EQL => Ok false
          | NEQ => Ok true
          | _ => cmp op x y
          end
      | ErrDepth => ErrDepth
      | ErrUnord => ErrUnord
      end
  | _, _ => Ok (threeway op (Z.of_nat (length l) - Z.of_nat (length m)))
  end.

Definition slice_compare (cmp : tok -> value -> value -> res bool) (op : tok) (l m : list value) : res bool :=
  if negb (Nat.eqb (length l) (length m)) && is_eqop op then Ok (is_neq op)
  else slice_loop cmp op l m.

(* library.go rangeEqual *)
Definition range_equal (s1 st1 n1 s2 st2 n2 : Z) : bool :=
  if negb (n1 =? n2) then false
  else if n1 =? 0 then true
  else if negb (s1 =? s2) then false
  else (n1 =? 1) || (st1 =? st2).

(* EQL / NEQ only types: equality function eq returns res bool *)
Definition eq_only (op : tok) (eq : res bool) : res bool :=
  match op with
  | EQL => eq
  | NEQ => match eq with Ok b => Ok (negb b) | e => e end
  | _ => ErrUnord
  end.

(* starlarkstruct structsEqual: entries loop *)
Fixpoint entries_equal (eqd : value -> value -> res bool) (f g : list (list Z * value)) : res bool :=
  match f, g with
  | (n, x) :: f', (m, y) :: g' =>
      if negb (bytes_eqb n m) then Ok false
      else match eqd x y with
           | Ok true => entries_equal eqd f' g'
           | r => r
           end
  | _, _ => Ok true
  end.

Section WithStringHash.
  (* hashtable.go hashString: FNV-1a below 12 bytes, seeded runtime hash above *)
  Variable hs : list Z -> Z.

  Definition u32 (z : Z) : Z := z mod 4294967296.
  Definition in_i32 (z : Z) : bool := (-2147483648 <=? z) && (z <=? 2147483647).

  (* int.go Int.Hash: low word of the two's-complement small value, or of the
     magnitude of the big value *)
  Definition hash_int (z : Z) : Z :=
    if in_i32 z then u32 (12582917 * u32 (z + 3))
    else u32 (12582917 * u32 (Z.abs z + 3)).

  (* finiteFloatToInt: truncation towards zero *)
  Definition qtrunc (q : Q) : Z := Z.quot (Qnum q) (Zpos (Qden q)).

  Definition hash_float (f : flt) : Z :=
    match f with
    | FFin _ m e => hash_int (qtrunc (fq m e))
    | _ => 1618033
    end.

  (* lib/time Time.Hash / Duration.Hash on the int64 nanosecond count; Time.UnixNano
     of an instant outside the int64 range is the exact count wrapped to int64 *)
  Definition wrap_i64 (z : Z) : Z := (z + 9223372036854775808) mod 18446744073709551616 - 9223372036854775808.
  Definition hash_i64 (ns : Z) : Z := let n := wrap_i64 ns in Z.lxor (u32 n) (u32 (n / 4294967296)).

  Definition hash_atom (a : atom) : Z :=
    match a with
    | ANone => 0
    | ABool b => b2i b
    | AInt z => hash_int z
    | AFloat f => hash_float f
    | AStr s => hs s
    | ABytes s => hs s
    | AFunc _ n => hs n
    | ABuiltin _ n r => if r then Z.lxor (hs n) 5521 else hs n
    | ATime ns => hash_i64 ns
    | ADur ns => hash_i64 ns
    end.

  (* Tuple.Hash loop over the element hashes *)
  Fixpoint tuple_hash_loop (hsh : list (option Z)) (x mult step : Z) : option Z :=
    match hsh with
    | [] => Some x
    | None :: _ => None
    | Some y :: r => tuple_hash_loop r (Z.lxor x (u32 (y * mult))) (u32 (mult + step)) step
    end.
  Definition tuple_hash (hsh : list (option Z)) : option Z :=
    tuple_hash_loop hsh 3430008 1000003 (u32 (82520 + u32 (2 * Z.of_nat (length hsh)))).

  (* Struct.Hash loop *)
  Fixpoint struct_hash_loop (es : list (list Z * option Z)) (x m : Z) : option Z :=
    match es with
    | [] => Some x
    | (_, None) :: _ => None
    | (n, Some y) :: r =>
        let x1 := Z.lxor x (u32 (3 * hs n)) in
        struct_hash_loop r (Z.lxor x1 (u32 (y * m))) (u32 (m + 7349))
    end.

  Fixpoint hash (v : value) : option Z :=
    match v with
    | VAtom a => Some (hash_atom a)
    | VTuple l => tuple_hash (map hash l)
    | VStruct _ f => struct_hash_loop (map (fun nv => match nv with (n, x) => (n, hash x) end) f) 8731 9839
    | _ => None
    end.

  (* hashtable.lookup on atom keys: same hash and Equal *)
  Definition key_match (k k' : atom) : bool :=
    (hash_atom k =? hash_atom k') && match atom_compare EQL k k' with Ok true => true | _ => false end.

  Fixpoint dict_get (kv : list (atom * value)) (k : atom) : option value :=
    match kv with
    | [] => None
    | (k', v) :: r => if key_match k k' then Some v else dict_get r k
    end.
  Definition set_has (l : list atom) (k : atom) : bool := existsb (key_match k) l.

  (* value.go dictsEqual: loop over x's entries *)
  Fixpoint dict_loop (eqd : value -> value -> res bool) (xs : list (atom * value)) (y : list (atom * value)) : res bool :=
    match xs with
    | [] => Ok true
    | (k, xv) :: r =>
        match dict_get y k with
        | None => Ok false
        | Some yv => match eqd xv yv with
                     | Ok true => dict_loop eqd r y
                     | q => q
                     end
        end
    end.

  Definition sets_equal (x y : list atom) : bool :=
    Nat.eqb (length x) (length y) && forallb (set_has y) x.
  Definition set_subset (x y : list atom) : bool := forallb (set_has y) x.

  (* CompareDepth.  d is Go's depth (depth < 1 <-> d = 0). *)
  Fixpoint compare_depth (d : nat) (op : tok) (x y : value) : res bool :=
    match d with
    | O => ErrDepth
    | S d' =>
        match x, y with
        | VAtom a, VAtom b => atom_compare op a b
        | VTuple l, VTuple m => slice_compare (compare_depth d') op l m
        | VList l, VList m => slice_compare (compare_depth d') op l m
        | VRange s1 st1 n1, VRange s2 st2 n2 => eq_only op (Ok (range_equal s1 st1 n1 s2 st2 n2))
        | VStruct c f, VStruct c' g =>
            eq_only op
              (if negb (Nat.eqb (length f) (length g)) then Ok false
               else match atom_compare EQL c c' with
                    | Ok true => entries_equal (compare_depth d' EQL) f g
                    | r => r
                    end)
        | VDict a, VDict b =>
            eq_only op (if negb (Nat.eqb (length a) (length b)) then Ok false
                        else dict_loop (compare_depth d' EQL) a b)
        | VSet a, VSet b =>
            match op with
            | EQL => Ok (sets_equal a b)
            | NEQ => Ok (negb (sets_equal a b))
            | GE => Ok (Nat.leb (length b) (length a) && set_subset b a)
            | LE => Ok (Nat.leb (length a) (length b) && set_subset a b)
            | GT => Ok (Nat.ltb (length b) (length a) && set_subset b a)
            | LT => Ok (Nat.ltb (length a) (length b) && set_subset a b)
            end
        | _, _ => mismatch op
        end
    end.

  Definition compare (op : tok) (x y : value) : res bool := compare_depth CompareLimit op x y.

  (* ---- min / max (library.go minmax): first extremal element ---- *)
  (* items are (key, value) pairs; op is LT for min, GT for max *)
  Fixpoint minmax_loop (op : tok) (best : value * value) (rest : list (value * value)) : res value :=
    match rest with
    | [] => Ok (snd best)
    | kx :: r =>
        match compare op (fst kx) (fst best) with
        | Ok true => minmax_loop op kx r
        | Ok false => minmax_loop op best r
        | ErrDepth => ErrDepth
        | ErrUnord => ErrUnord
        end
    end.
  Definition minmax (op : tok) (items : list (value * value)) : option (res value) :=
    match items with
    | [] => None                   (* "argument is an empty sequence" *)
    | b :: r => Some (minmax_loop op b r)
    end.

  (* ---- sorted (library.go sorted / sortSlice) ---- *)
  (* sortSlice.Less: an error is recorded and Less answers false *)
  Definition less (a b : value * value) : bool :=
    match compare LT (fst a) (fst b) with Ok t => t | _ => false end.
  Definition less_fails (a b : value * value) : bool :=
    match compare LT (fst a) (fst b) with Ok _ => false | _ => true end.
  Definition rev_less (a b : value * value) : bool := less b a.   (* sort.Reverse *)

  (* a concrete stable sort (insertion sort), the executable stand-in for
     sort.Stable in the correspondence check; the theorems quantify over any
     sort function satisfying the stable-sort contract *)
  Fixpoint insert_stable {A} (lt : A -> A -> bool) (x : A) (l : list A) : list A :=
    match l with
    | [] => [x]
    | y :: r => if lt y x then y :: insert_stable lt x r else x :: l
    end.
  (* elements are inserted from the right end of the input; x passes only the
     elements strictly below it, so it stays in front of later equal elements *)
  Definition isort {A} (lt : A -> A -> bool) (l : list A) : list A :=
    fold_right (insert_stable lt) [] l.

  (* sorted(items, reverse): decorate = the (key, value) pairs, undecorate = map snd *)
  Definition sorted_with (srt : (value * value -> value * value -> bool) -> list (value * value) -> list (value * value))
             (items : list (value * value)) (reverse : bool) : list value :=
    map snd (srt (if reverse then rev_less else less) items).

  (* all pairs comparable <-> no execution of the sort can record an error *)
  Definition all_comparable (items : list (value * value)) : bool :=
    forallb (fun a => forallb (fun b => negb (less_fails a b)) items) items.

End WithStringHash.
