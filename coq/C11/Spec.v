(* C11 -- specification: what the six comparison operators mean, stated as ONE
   three-way (plus "unordered") comparison of denotations, independently of how
   CompareDepth is organised (no threeway / sliceCompare / Equal-then-Compare
   structure, no hashing):
     numbers (int and float together) are compared by exact value, NaN is the
       greatest number and equal to itself;
     strings and bytes lexicographically by byte, False < True, times and
       durations by instant / length;
     tuples and lists lexicographically;
     None, functions, builtins, ranges, structs, dicts, sets: only equal or
       unequal (ranges by the sequence they denote, structs by constructor,
       field names and field values, dicts/sets by mutual inclusion);
     values of different types are unequal and unordered.
   Only the value type is shared with Model.v. *)
From Coq Require Import ZArith QArith Bool List.
From SV Require Import C11.Model.
Import ListNotations.
Open Scope Z_scope.

(* OId: equal, in a type that defines no order (None, functions, ranges, structs, dicts, sets);
   OUn: unequal and unordered *)
Inductive ord := OLt | OEq | OGt | OUn | OId.

Definition ord_of (c : comparison) : ord := match c with Lt => OLt | Eq => OEq | Gt => OGt end.
Definition flip (o : ord) : ord := match o with OLt => OGt | OGt => OLt | o => o end.
Definition is_equal (o : ord) : bool := match o with OEq | OId => true | _ => false end.

(* extended rationals with NaN on top *)
Inductive xnum := XNaN | XInf (neg : bool) | XQ (q : Q).

Definition xcmp (a b : xnum) : ord :=
  match a, b with
  | XNaN, XNaN => OEq
  | XNaN, _ => OGt
  | _, XNaN => OLt
  | XInf true, XInf true => OEq
  | XInf true, _ => OLt
  | _, XInf true => OGt
  | XInf false, XInf false => OEq
  | XInf false, _ => OGt
  | _, XInf false => OLt
  | XQ p, XQ q => ord_of (Qcompare p q)
  end.

Definition num_of (a : atom) : option xnum :=
  match a with
  | AInt z => Some (XQ (inject_Z z))
  | AFloat FNaN => Some XNaN
  | AFloat (FInf n) => Some (XInf n)
  | AFloat (FFin _ m e) => Some (XQ (fq m e))
  | _ => None
  end.

Fixpoint lex3 (a b : list Z) : ord :=
  match a, b with
  | [], [] => OEq
  | [], _ :: _ => OLt
  | _ :: _, [] => OGt
  | x :: a', y :: b' => match x ?= y with Lt => OLt | Gt => OGt | Eq => lex3 a' b' end
  end.

Definition same_or_un (b : bool) : ord := if b then OId else OUn.

Definition atom_cmp3 (a b : atom) : ord :=
  match num_of a, num_of b with
  | Some x, Some y => xcmp x y
  | _, _ =>
      match a, b with
      | ANone, ANone => OId
      | ABool x, ABool y => ord_of (Z.compare (b2i x) (b2i y))
      | AStr x, AStr y => lex3 x y
      | ABytes x, ABytes y => lex3 x y
      | ATime x, ATime y => ord_of (x ?= y)
      | ADur x, ADur y => ord_of (x ?= y)
      | AFunc i n, AFunc j m => same_or_un ((i =? j) && bytes_eqb n m)
      | ABuiltin i n r, ABuiltin j m s => same_or_un ((i =? j) && bytes_eqb n m && Bool.eqb r s)
      | _, _ => OUn
      end
  end.

(* lexicographic lifting; None = depth exceeded *)
Fixpoint seq3 (c : value -> value -> option ord) (l m : list value) : option ord :=
  match l, m with
  | [], [] => Some OEq
  | [], _ :: _ => Some OLt
  | _ :: _, [] => Some OGt
  | x :: l', y :: m' =>
      match c x y with
      | None => None
      | Some OUn => Some OUn
      | Some o => if is_equal o then seq3 c l' m' else Some o
      end
  end.

(* struct fields: same names, pairwise equal values *)
Fixpoint fields3 (c : value -> value -> option ord) (f g : list (list Z * value)) : option ord :=
  match f, g with
  | [], [] => Some OId
  | (n, x) :: f', (m, y) :: g' =>
      if negb (bytes_eqb n m) then Some OUn
      else match c x y with
           | None => None
           | Some o => if is_equal o then fields3 c f' g' else Some OUn
           end
  | _, _ => Some OUn
  end.

(* the sequence a range denotes is determined by (len, start if len > 0, step if len > 1) *)
Definition range_same (s1 st1 n1 s2 st2 n2 : Z) : bool :=
  (n1 =? n2) && ((n1 =? 0) || ((s1 =? s2) && ((n1 =? 1) || (st1 =? st2)))).

Definition key_eq (k k' : atom) : bool := is_equal (atom_cmp3 k k').

(* dict: every key of x has an equal key in y whose value is equal *)
Fixpoint dict_incl3 (c : value -> value -> option ord) (xs y : list (atom * value)) : option ord :=
  match xs with
  | [] => Some OId
  | (k, xv) :: r =>
      match find (fun kv => key_eq k (fst kv)) y with
      | None => Some OUn
      | Some (_, yv) =>
          match c xv yv with
          | None => None
          | Some o => if is_equal o then dict_incl3 c r y else Some OUn
          end
      end
  end.

Fixpoint cmp3 (d : nat) (x y : value) : option ord :=
  match d with
  | O => None
  | S d' =>
      match x, y with
      | VAtom a, VAtom b => Some (atom_cmp3 a b)
      | VTuple l, VTuple m => seq3 (cmp3 d') l m
      | VList l, VList m => seq3 (cmp3 d') l m
      | VRange s1 st1 n1, VRange s2 st2 n2 => Some (same_or_un (range_same s1 st1 n1 s2 st2 n2))
      | VStruct c f, VStruct c' g =>
          if negb (Nat.eqb (length f) (length g)) then Some OUn
          else if is_equal (atom_cmp3 c c') then fields3 (cmp3 d') f g else Some OUn
      | VDict a, VDict b =>
          if negb (Nat.eqb (length a) (length b)) then Some OUn else dict_incl3 (cmp3 d') a b
      | VSet a, VSet b =>
          Some (same_or_un (Nat.eqb (length a) (length b) && forallb (fun k => existsb (key_eq k) b) a))
      | _, _ => Some OUn
      end
  end.

(* what each operator answers for a given outcome *)
Definition interp (op : tok) (o : ord) : res bool :=
  match o with
  | OLt => Ok (match op with NEQ | LT | LE => true | _ => false end)
  | OEq => Ok (match op with EQL | LE | GE => true | _ => false end)
  | OGt => Ok (match op with NEQ | GT | GE => true | _ => false end)
  | OUn => match op with EQL => Ok false | NEQ => Ok true | _ => ErrUnord end
  | OId => match op with EQL => Ok true | NEQ => Ok false | _ => ErrUnord end
  end.

(* ---- the value universe of the property and the depth guard ----
   fits d v: v belongs to the property's universe (no dict / set) and its nesting
   is within d levels, so that comparison at depth d never reaches the limit. *)
Fixpoint fits (d : nat) (v : value) : bool :=
  match d with
  | O => false
  | S d' =>
      match v with
      | VAtom _ | VRange _ _ _ => true
      | VTuple l | VList l => forallb (fits d') l
      | VStruct _ f => forallb (fun nv => match nv with (_, x) => fits d' x end) f
      | VDict _ | VSet _ => false
      end
  end.

(* nesting within d levels, dict / set allowed (used by the correspondence only) *)
Fixpoint within (d : nat) (v : value) : bool :=
  match d with
  | O => false
  | S d' =>
      match v with
      | VAtom _ | VRange _ _ _ | VSet _ => true
      | VTuple l | VList l => forallb (within d') l
      | VStruct _ f => forallb (fun nv => match nv with (_, x) => within d' x end) f
      | VDict kv => forallb (fun nv => match nv with (_, x) => within d' x end) kv
      end
  end.

Definition is_set (v : value) : bool := match v with VSet _ => true | _ => false end.

(* ---- oracle for one observation: x, y and the six observed answers
   (Some b = answered b, None = error), operators in the order
   EQL NEQ LT LE GT GE ---- *)
Definition all_ops : list tok := [EQL; NEQ; LT; LE; GT; GE].

Definition obs_agrees (want : res bool) (got : option bool) : bool :=
  match want, got with
  | Ok b, Some c => Bool.eqb b c
  | ErrDepth, None | ErrUnord, None => true
  | _, _ => false
  end.

(* within the limit: exactly the specified answers.  Beyond it: the depth error
   or the specified answer, never a different answer.  Ordering operators on
   sets are the subset relation and are not part of this oracle. *)
Definition spec_pair_ok (x y : value) (obs : list (option bool)) : bool :=
  let deep := negb (within CompareLimit x && within CompareLimit y) in
  match cmp3 100 x y with
  | None => false
  | Some o =>
      forallb (fun oo =>
                 match oo with (op, got) =>
                   (is_set x && is_set y && negb (is_eqop op))
                   || obs_agrees (interp op o) got
                   || (deep && match got with None => true | _ => false end)
                 end) (combine all_ops obs)
  end.

(* ---- sorted / min / max, stated on positions ----
   keys : the key at each input position; out : the input positions in output order *)
Definition klt (x y : value) : bool :=
  match cmp3 CompareLimit x y with Some OLt => true | _ => false end.
Definition kdef (x y : value) : bool :=
  match cmp3 CompareLimit x y with Some OLt | Some OEq | Some OGt => true | _ => false end.

Definition nthv (keys : list value) (p : nat) : value := nth p keys (VAtom ANone).

Fixpoint NoDup_b (l : list nat) : bool :=
  match l with [] => true | x :: r => negb (existsb (Nat.eqb x) r) && NoDup_b r end.
Definition is_perm_of_range (n : nat) (out : list nat) : bool :=
  Nat.eqb (length out) n && forallb (fun p => Nat.ltb p n) out && NoDup_b out.

(* adjacent output elements are in order, and ties keep their input order *)
Fixpoint sorted_stable_b (keys : list value) (reverse : bool) (out : list nat) : bool :=
  match out with
  | p :: ((q :: _) as r) =>
      let a := nthv keys p in let b := nthv keys q in
      let wrong := if reverse then klt a b else klt b a in
      let tie := negb (klt a b) && negb (klt b a) in
      negb wrong && (negb tie || Nat.ltb p q) && sorted_stable_b keys reverse r
  | _ => true
  end.

Definition all_defined (keys : list value) : bool :=
  forallb (fun a => forallb (kdef a) keys) keys.

Definition spec_sorted_ok (keys : list value) (reverse : bool) (out : option (list nat)) : bool :=
  if all_defined keys then
    match out with
    | Some o => is_perm_of_range (length keys) o && sorted_stable_b keys reverse o
    | None => false
    end
  else true.   (* some pair unordered: sorted may fail, or succeed without having compared it *)

(* min: no element is strictly smaller, and no earlier element is as small *)
Definition spec_minmax_ok (ismax : bool) (keys : list value) (out : option nat) : bool :=
  if all_defined keys then
    match keys, out with
    | [], None => true
    | [], Some _ => false
    | _, None => false
    | _, Some p =>
        let e := nthv keys p in
        Nat.ltb p (length keys) &&
        forallb (fun a => negb (if ismax then klt e a else klt a e)) keys &&
        forallb (fun a => (if ismax then klt a e else klt e a)) (firstn p keys)
    end
  else true.

(* ---- the ordered classes of the property: int and float together, string,
   bytes, bool (and time, duration), and tuples / lists of one class ---- *)
Inductive cls := CNum | CStr | CBytes | CBool | CTime | CDur | CTuple (c : cls) | CList (c : cls).

Fixpoint has_cls (c : cls) (v : value) : bool :=
  match c, v with
  | CNum, VAtom (AInt _) | CNum, VAtom (AFloat _) => true
  | CStr, VAtom (AStr _) => true
  | CBytes, VAtom (ABytes _) => true
  | CBool, VAtom (ABool _) => true
  | CTime, VAtom (ATime _) => true
  | CDur, VAtom (ADur _) => true
  | CTuple c', VTuple l => forallb (has_cls c') l
  | CList c', VList l => forallb (has_cls c') l
  | _, _ => false
  end.

Definition is_ordered (o : ord) : bool := match o with OLt | OEq | OGt => true | _ => false end.
