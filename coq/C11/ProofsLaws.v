(* C11 -- laws of the specified three-way comparison on values within the
   depth limit: reflexive, antisymmetric (flip), equality is a congruence,
   strict order transitive.  Proved for all four laws together by induction on
   the depth. *)
From Coq Require Import ZArith QArith Bool List Lia.
From SV Require Import C11.Model C11.Spec C11.ProofsAtom C11.ProofsValue.
Import ListNotations.
Open Scope Z_scope.

Definition oflip (r : option ord) : option ord := option_map flip r.
Definition oequal (r : option ord) : bool := match r with Some o => is_equal o | None => false end.

Lemma is_equal_flip o : is_equal (flip o) = is_equal o.
Proof. destruct o; reflexivity. Qed.

(* ---------- sequences ---------- *)
Section Seq.
  Variable c : value -> value -> option ord.

  Lemma seq3_refl l : (forall x, In x l -> oequal (c x x) = true) -> seq3 c l l = Some OEq.
  Proof.
    induction l as [|x l IH]; intro H; [reflexivity|].
    cbn [seq3]. pose proof (H x (or_introl eq_refl)) as E.
    destruct (c x x) as [o|]; [|discriminate]. simpl in E.
    destruct o; try discriminate; simpl; apply IH; intros; apply H; right; assumption.
  Qed.

  Lemma seq3_flip l : forall m,
    (forall x y, In x l -> In y m -> c y x = oflip (c x y)) -> seq3 c m l = oflip (seq3 c l m).
  Proof.
    induction l as [|x l IH]; intros [|y m] H; try reflexivity.
    cbn [seq3]. rewrite (H x y (or_introl eq_refl) (or_introl eq_refl)).
    destruct (c x y) as [o|]; [|reflexivity].
    assert (R : seq3 c m l = oflip (seq3 c l m)) by (apply IH; intros; apply H; right; assumption).
    destruct o; simpl; try reflexivity; exact R.
  Qed.

  Lemma seq3_not_id l : forall m o, seq3 c l m = Some o -> o <> OId.
  Proof.
    induction l as [|x l IH]; intros [|y m] o H; simpl in H; try (inversion H; discriminate).
    destruct (c x y) as [o1|]; [|discriminate].
    destruct o1; simpl in H; try (inversion H; discriminate); eapply IH; eassumption.
  Qed.

  Lemma seq3_congr l : forall m n,
    (forall x y z, In x l -> In y m -> In z n -> oequal (c x y) = true -> c x z = c y z) ->
    oequal (seq3 c l m) = true -> seq3 c l n = seq3 c m n.
  Proof.
    induction l as [|x l IH]; intros [|y m] n H E; simpl in E; try discriminate; try reflexivity.
    destruct (c x y) as [o1|] eqn:C1; [|discriminate].
    assert (Q : is_equal o1 = true /\ oequal (seq3 c l m) = true).
    { destruct o1; simpl in E; try discriminate; split; try reflexivity; exact E. }
    destruct Q as [Q1 Q2].
    destruct n as [|z n]; [reflexivity|].
    cbn [seq3].
    assert (R : c x z = c y z).
    { apply H; try (left; reflexivity). rewrite C1. exact Q1. }
    rewrite R.
    assert (R2 : seq3 c l n = seq3 c m n).
    { apply IH; [|exact Q2]. intros x0 y0 z0 Hx0 Hy0 Hz0 He0. apply H; [right; exact Hx0|right; exact Hy0|right; exact Hz0|exact He0]. }
    rewrite R2. reflexivity.
  Qed.

  Lemma seq3_lt_trans l : forall m n,
    (forall x y z, In x l -> In y m -> In z n -> oequal (c x y) = true -> c x z = c y z) ->
    (forall x y z, In x l -> In y m -> In z n -> oequal (c y z) = true -> c x y = c x z) ->
    (forall x y z, In x l -> In y m -> In z n -> c x y = Some OLt -> c y z = Some OLt -> c x z = Some OLt) ->
    seq3 c l m = Some OLt -> seq3 c m n = Some OLt -> seq3 c l n = Some OLt.
  Proof.
    induction l as [|x l IH]; intros [|y m] [|z n] HL HR HT H1 H2; simpl in H1, H2; try discriminate; try reflexivity.
    cbn [seq3].
    assert (IH' : seq3 c l m = Some OLt -> seq3 c m n = Some OLt -> seq3 c l n = Some OLt).
    { apply IH.
      - intros x0 y0 z0 Hx0 Hy0 Hz0 He0. apply HL; [right; exact Hx0|right; exact Hy0|right; exact Hz0|exact He0].
      - intros x0 y0 z0 Hx0 Hy0 Hz0 He0. apply HR; [right; exact Hx0|right; exact Hy0|right; exact Hz0|exact He0].
      - intros x0 y0 z0 Hx0 Hy0 Hz0 Ha Hb. apply (HT x0 y0 z0); [right; exact Hx0|right; exact Hy0|right; exact Hz0|exact Ha|exact Hb]. }
    destruct (c x y) as [o1|] eqn:C1; [|discriminate].
    destruct (c y z) as [o2|] eqn:C2; [|destruct o1; discriminate].
    assert (Ix : In x (x :: l)) by (left; reflexivity).
    assert (Iy : In y (y :: m)) by (left; reflexivity).
    assert (Iz : In z (z :: n)) by (left; reflexivity).
    destruct (is_equal o1) eqn:Q1.
    - assert (R : c x z = c y z) by (apply HL; try assumption; rewrite C1; exact Q1).
      rewrite R, C2.
      assert (S1 : seq3 c l m = Some OLt) by (destruct o1; try discriminate; exact H1).
      destruct o2; simpl in *; try discriminate; try reflexivity; apply IH'; assumption.
    - assert (O1 : o1 = OLt) by (destruct o1; simpl in *; try discriminate; reflexivity).
      subst o1.
      destruct (is_equal o2) eqn:Q2.
      + assert (R : c x y = c x z) by (apply HR; try assumption; rewrite C2; exact Q2).
        rewrite <- R, C1. reflexivity.
      + assert (O2 : o2 = OLt) by (destruct o2; simpl in *; try discriminate; reflexivity).
        subst o2. rewrite (HT x y z Ix Iy Iz C1 C2). reflexivity.
  Qed.
End Seq.

(* ---------- struct fields ---------- *)
Section Fields.
  Variable c : value -> value -> option ord.

  Lemma fields3_cases f : forall g o, fields3 c f g = Some o -> o = OId \/ o = OUn.
  Proof.
    induction f as [|[n x] f IH]; intros [|[m y] g] o H; simpl in H; try (inversion H; auto; fail).
    destruct (negb (bytes_eqb n m)); [inversion H; auto|].
    destruct (c x y) as [o1|]; [|discriminate].
    destruct (is_equal o1); [eapply IH; eassumption|inversion H; auto].
  Qed.

  Lemma fields3_refl f : (forall nx, In nx f -> oequal (c (snd nx) (snd nx)) = true) -> fields3 c f f = Some OId.
  Proof.
    induction f as [|[n x] f IH]; intro H; [reflexivity|].
    cbn [fields3]. rewrite bytes_eqb_refl. simpl negb. cbv iota.
    pose proof (H (n, x) (or_introl eq_refl)) as E. simpl in E.
    destruct (c x x) as [o|]; [|discriminate]. simpl in E. rewrite E.
    apply IH. intros; apply H; right; assumption.
  Qed.

  Lemma fields3_flip f : forall g,
    (forall nx my, In nx f -> In my g -> c (snd my) (snd nx) = oflip (c (snd nx) (snd my))) ->
    fields3 c g f = fields3 c f g.
  Proof.
    induction f as [|[n x] f IH]; intros [|[m y] g] H; try reflexivity.
    cbn [fields3]. rewrite (bytes_eqb_sym m n).
    destruct (negb (bytes_eqb n m)); [reflexivity|].
    pose proof (H (n, x) (m, y) (or_introl eq_refl) (or_introl eq_refl)) as E. simpl in E. rewrite E.
    destruct (c x y) as [o|]; [|reflexivity]. simpl. rewrite is_equal_flip.
    destruct (is_equal o); [|reflexivity].
    apply IH. intros; apply H; right; assumption.
  Qed.

  Lemma fields3_congr f : forall g h,
    (forall nx my pz, In nx f -> In my g -> In pz h -> oequal (c (snd nx) (snd my)) = true -> c (snd nx) (snd pz) = c (snd my) (snd pz)) ->
    oequal (fields3 c f g) = true -> fields3 c f h = fields3 c g h.
  Proof.
    induction f as [|[n x] f IH]; intros [|[m y] g] h H E; simpl in E; try discriminate; try reflexivity.
    destruct (bytes_eqb n m) eqn:B; simpl in E; [|discriminate].
    apply bytes_eqb_eq in B. subst m.
    destruct (c x y) as [o1|] eqn:C1; [|discriminate].
    destruct (is_equal o1) eqn:Q1; [|discriminate].
    destruct h as [|[p z] h]; [reflexivity|].
    cbn [fields3].
    destruct (negb (bytes_eqb n p)); [reflexivity|].
    assert (R : c x z = c y z).
    { apply (H (n, x) (n, y) (p, z)); try (left; reflexivity). simpl. rewrite C1. exact Q1. }
    rewrite R.
    assert (R2 : fields3 c f h = fields3 c g h).
    { apply IH; [|exact E]. intros; apply H; try (right; assumption); assumption. }
    rewrite R2. reflexivity.
  Qed.
End Fields.

(* ---------- ranges ---------- *)
Lemma range_same_refl s st n : range_same s st n s st n = true.
Proof. unfold range_same. rewrite !Z.eqb_refl. simpl. rewrite !orb_true_r. reflexivity. Qed.

Lemma range_same_sym s1 st1 n1 s2 st2 n2 : range_same s2 st2 n2 s1 st1 n1 = range_same s1 st1 n1 s2 st2 n2.
Proof.
  unfold range_same.
  destruct (Z.eqb_spec n1 n2) as [E|E].
  - subst. rewrite Z.eqb_refl. rewrite (Z.eqb_sym s2 s1), (Z.eqb_sym st2 st1). reflexivity.
  - rewrite (proj2 (Z.eqb_neq n2 n1)) by congruence. reflexivity.
Qed.

Lemma range_same_congr s1 st1 n1 s2 st2 n2 s3 st3 n3 :
  range_same s1 st1 n1 s2 st2 n2 = true ->
  range_same s1 st1 n1 s3 st3 n3 = range_same s2 st2 n2 s3 st3 n3.
Proof.
  unfold range_same.
  destruct (Z.eqb_spec n1 n2) as [E|E]; [subst n2|discriminate].
  destruct (Z.eqb_spec n1 0) as [Z0|Z0]; [reflexivity|].
  destruct (Z.eqb_spec s1 s2) as [S|S]; [subst s2|discriminate].
  destruct (Z.eqb_spec n1 1) as [O|O]; [reflexivity|].
  destruct (Z.eqb_spec st1 st2) as [T|T]; [subst st2; reflexivity|discriminate].
Qed.

(* ---------- the four laws, by induction on the depth ---------- *)
Definition law_refl (d : nat) : Prop :=
  forall x, fits d x = true -> oequal (cmp3 d x x) = true.
Definition law_flip (d : nat) : Prop :=
  forall x y, fits d x = true -> fits d y = true -> cmp3 d y x = oflip (cmp3 d x y).
Definition law_congr (d : nat) : Prop :=
  forall x y z, fits d x = true -> fits d y = true -> fits d z = true ->
    oequal (cmp3 d x y) = true -> cmp3 d x z = cmp3 d y z.
Definition law_trans (d : nat) : Prop :=
  forall x y z, fits d x = true -> fits d y = true -> fits d z = true ->
    cmp3 d x y = Some OLt -> cmp3 d y z = Some OLt -> cmp3 d x z = Some OLt.

Lemma oequal_flip r : oequal (oflip r) = oequal r.
Proof. destruct r as [o|]; [apply is_equal_flip|reflexivity]. Qed.

(* equality is a congruence on the right as well *)
Lemma congr_right d : law_flip d -> law_congr d ->
  forall x y z, fits d x = true -> fits d y = true -> fits d z = true ->
    oequal (cmp3 d y z) = true -> cmp3 d x y = cmp3 d x z.
Proof.
  intros HF HC x y z Fx Fy Fz E.
  rewrite (HF y x Fy Fx), (HF z x Fz Fx). f_equal. apply HC; assumption.
Qed.

Ltac fits_in F H := apply (forallb_In _ _ _ F H).

Lemma laws : forall d, law_refl d /\ law_flip d /\ law_congr d /\ law_trans d.
Proof.
  induction d as [|d [IR [IF [IC IT]]]].
  { repeat split; intro x; intros; discriminate. }
  pose proof (congr_right d IF IC) as ICR.
  repeat split.
  - (* reflexive *)
    intros x Fx. destruct x as [a|l|l|s st n|c f|kv|ks]; try discriminate; cbn [cmp3 fits] in *.
    + simpl. apply atom_cmp3_refl.
    + rewrite seq3_refl; [reflexivity|]. intros x Hx. apply IR. fits_in Fx Hx.
    + rewrite seq3_refl; [reflexivity|]. intros x Hx. apply IR. fits_in Fx Hx.
    + rewrite range_same_refl. reflexivity.
    + rewrite Nat.eqb_refl. simpl negb. cbv iota. rewrite atom_cmp3_refl.
      rewrite fields3_refl; [reflexivity|]. intros [n x] Hx. simpl. apply IR. apply (forallb_In _ _ _ Fx Hx).
  - (* flip *)
    intros x y Fx Fy.
    destruct x as [a|l|l|s1 st1 n1|c f|kv|ks]; try discriminate;
      destruct y as [b|m|m|s2 st2 n2|c' g|kv'|ks']; try discriminate; try reflexivity; cbn [cmp3 fits] in *.
    + simpl. f_equal. apply atom_cmp3_flip.
    + apply seq3_flip. intros x y Hx Hy. apply IF; [fits_in Fx Hx|fits_in Fy Hy].
    + apply seq3_flip. intros x y Hx Hy. apply IF; [fits_in Fx Hx|fits_in Fy Hy].
    + rewrite range_same_sym. destruct (range_same s1 st1 n1 s2 st2 n2); reflexivity.
    + rewrite (Nat.eqb_sym (length g) (length f)).
      destruct (negb (Nat.eqb (length f) (length g))); [reflexivity|].
      rewrite (atom_cmp3_flip c c'), is_equal_flip.
      destruct (is_equal (atom_cmp3 c c')); [|reflexivity].
      rewrite (fields3_flip (cmp3 d) f g).
      * destruct (fields3 (cmp3 d) f g) as [o|] eqn:E; [|reflexivity].
        destruct (fields3_cases _ _ _ _ E); subst; reflexivity.
      * intros [n x] [m y] Hx Hy. simpl. apply IF; [apply (forallb_In _ _ _ Fx Hx)|apply (forallb_In _ _ _ Fy Hy)].
  - (* equality is a congruence *)
    intros x y z Fx Fy Fz E.
    destruct x as [a|l|l|s1 st1 n1|c f|kv|ks]; try discriminate;
      destruct y as [b|m|m|s2 st2 n2|c' g|kv'|ks']; try discriminate; try (simpl in E; discriminate);
      destruct z as [e|n|n|s3 st3 n3|c'' h|kv''|ks'']; try discriminate; try reflexivity; cbn [cmp3 fits] in *.
    + simpl in E. f_equal. apply atom_cmp3_eq_congr, E.
    + apply seq3_congr; [|exact E]. intros x y z Hx Hy Hz. apply IC; [fits_in Fx Hx|fits_in Fy Hy|fits_in Fz Hz].
    + apply seq3_congr; [|exact E]. intros x y z Hx Hy Hz. apply IC; [fits_in Fx Hx|fits_in Fy Hy|fits_in Fz Hz].
    + destruct (range_same s1 st1 n1 s2 st2 n2) eqn:R; [|discriminate].
      rewrite (range_same_congr _ _ _ _ _ _ s3 st3 n3 R). reflexivity.
    + destruct (Nat.eqb (length f) (length g)) eqn:L; simpl in E; [|discriminate].
      apply Nat.eqb_eq in L. rewrite <- L.
      destruct (is_equal (atom_cmp3 c c')) eqn:A; [|discriminate].
      rewrite <- (atom_cmp3_eq_congr c c' c'' A).
      destruct (negb (Nat.eqb (length f) (length h))); [reflexivity|].
      destruct (is_equal (atom_cmp3 c c'')); [|reflexivity].
      apply fields3_congr; [|exact E].
      intros [n x] [m y] [p z] Hx Hy Hz. simpl.
      apply IC; [apply (forallb_In _ _ _ Fx Hx)|apply (forallb_In _ _ _ Fy Hy)|apply (forallb_In _ _ _ Fz Hz)].
  - (* the strict order is transitive *)
    intros x y z Fx Fy Fz H1 H2.
    destruct x as [a|l|l|s1 st1 n1|c f|kv|ks]; try discriminate;
      destruct y as [b|m|m|s2 st2 n2|c' g|kv'|ks']; try discriminate; try (simpl in H1; discriminate);
      destruct z as [e|n|n|s3 st3 n3|c'' h|kv''|ks'']; try discriminate; try (simpl in H2; discriminate); cbn [cmp3 fits] in *.
    + injection H1 as H1. injection H2 as H2. f_equal. eapply atom_cmp3_lt_trans; eassumption.
    + apply (seq3_lt_trans (cmp3 d) l m n); try assumption.
      * intros x y z Hx Hy Hz. apply IC; [fits_in Fx Hx|fits_in Fy Hy|fits_in Fz Hz].
      * intros x y z Hx Hy Hz. apply ICR; [fits_in Fx Hx|fits_in Fy Hy|fits_in Fz Hz].
      * intros x y z Hx Hy Hz. apply IT; [fits_in Fx Hx|fits_in Fy Hy|fits_in Fz Hz].
    + apply (seq3_lt_trans (cmp3 d) l m n); try assumption.
      * intros x y z Hx Hy Hz. apply IC; [fits_in Fx Hx|fits_in Fy Hy|fits_in Fz Hz].
      * intros x y z Hx Hy Hz. apply ICR; [fits_in Fx Hx|fits_in Fy Hy|fits_in Fz Hz].
      * intros x y z Hx Hy Hz. apply IT; [fits_in Fx Hx|fits_in Fy Hy|fits_in Fz Hz].
    + destruct (range_same s1 st1 n1 s2 st2 n2); discriminate.
    + destruct (negb (Nat.eqb (length f) (length g))); [discriminate|].
      destruct (is_equal (atom_cmp3 c c')); [|discriminate].
      destruct (fields3_cases _ _ _ _ H1); discriminate.
Qed.
