(* C11 -- the property-level statements about dict and set (ccompare, cdict_get,
   cset_has, cdict_insert), obtained from coll_laws and the lookup lemmas. *)
From Coq Require Import ZArith QArith Bool List Lia Permutation.
From SV Require Import C11.Model C11.Spec C11.ProofsAtom C11.ProofsValue C11.ProofsLaws C11.ProofsHash C11.Proofs
  C11.ModelColl C11.ProofsCollKeys C11.ProofsColl C11.ProofsCollLaws.
Import ListNotations.
Open Scope Z_scope.

Section WithHash.
  Variable hs : list Z -> Z.
  Notation ccmp := (ccompare hs).
  Notation Pk := (fun k => kok hs k = true).
  Notation ke := (keqb hs).

  (* ---------- == is an equivalence, != its negation ---------- *)
  Lemma ceq_refl_lemma x : cok hs x = true -> ccmp EQL x x = Ok true.
  Proof. apply (proj1 (proj2 (coll_laws hs CompareLimit))). Qed.

  Lemma ceq_total_lemma x y : cok hs x = true -> cok hs y = true ->
    exists b, ccmp EQL x y = Ok b /\ ccmp NEQ x y = Ok (negb b).
  Proof. apply (proj1 (coll_laws hs CompareLimit)). Qed.

  Lemma ceq_sym_d d x y : cfits hs d x = true -> cfits hs d y = true ->
    ccompare_depth hs d EQL x y = ccompare_depth hs d EQL y x.
  Proof.
    intros Fx Fy. destruct (coll_laws hs d) as [T [_ [S _]]].
    destruct (T x y Fx Fy) as [b [E1 _]]. destruct (T y x Fy Fx) as [b' [E2 _]].
    rewrite E1, E2. destruct b, b'; try reflexivity.
    - rewrite (S x y Fx Fy E1) in E2. exact E2.
    - rewrite (S y x Fy Fx E2) in E1. symmetry. exact E1.
  Qed.

  Lemma ceq_sym_lemma x y : cok hs x = true -> cok hs y = true -> ccmp EQL x y = ccmp EQL y x.
  Proof. exact (ceq_sym_d CompareLimit x y). Qed.

  Lemma ceq_trans_lemma x y z : cok hs x = true -> cok hs y = true -> cok hs z = true ->
    ccmp EQL x y = Ok true -> ccmp EQL y z = Ok true -> ccmp EQL x z = Ok true.
  Proof. apply (proj2 (proj2 (proj2 (coll_laws hs CompareLimit)))). Qed.

  (* ---------- equal keys are interchangeable ---------- *)
  Lemma keysP_of A (kv : list (value * A)) : forallb (kok hs) (map fst kv) = true -> keysP value Pk A kv.
  Proof. intro F. unfold keysP. apply Forall_forall. rewrite forallb_forall in F. exact F. Qed.

  Lemma keq_of k k' : compare hs EQL k k' = Ok true -> ke k k' = true.
  Proof. intro H. unfold keqb. rewrite H. reflexivity. Qed.

  Lemma cdict_get_congr A (kv : list (value * A)) k k' : Pk k -> Pk k' -> compare hs EQL k k' = Ok true ->
    forallb (kok hs) (map fst kv) = true -> cdict_get hs kv k = cdict_get hs kv k'.
  Proof.
    intros Hk Hk' H F. apply keysP_of in F. rewrite !cdict_get_spec by assumption. do 2 f_equal.
    apply (kfind_congr value ke Pk (ke_sym hs) (ke_trans hs)); try assumption. apply keq_of, H.
  Qed.

  Lemma cset_has_congr ks k k' : Pk k -> Pk k' -> compare hs EQL k k' = Ok true ->
    forallb (kok hs) ks = true -> cset_has hs ks k = cset_has hs ks k'.
  Proof.
    intros Hk Hk' H F. assert (F' : Forall Pk ks) by (apply Forall_forall; rewrite forallb_forall in F; exact F).
    rewrite !cset_has_spec by assumption. f_equal. apply keq_of in H.
    clear F. induction F' as [|e ks Pe F' IH]; [reflexivity|]. cbn [existsb].
    rewrite (ke_congr_l value ke Pk (ke_sym hs) (ke_trans hs) k k' e) by assumption. rewrite IH. reflexivity.
  Qed.

  (* inserting under an equal key updates the entry in place: same keys (the original
     key object stays), same length, and the new value is found under either key *)
  Lemma cinsert_update A (kv : list (value * A)) k k' (v' : A) : Pk k -> Pk k' -> compare hs EQL k k' = Ok true ->
    forallb (kok hs) (map fst kv) = true -> cin_dict hs kv k = true ->
    exists kv', cdict_insert hs kv k' v' = Ok kv' /\ map fst kv' = map fst kv /\
                cdict_get hs kv' k = Ok (Some v') /\ cdict_get hs kv' k' = Ok (Some v').
  Proof.
    intros Hk Hk' H F I. apply keq_of in H.
    unfold cin_dict, cdict_get, cdict_insert in *.
    destruct (kok_hash hs k Hk) as [h Eh]. destruct (kok_hash hs k' Hk') as [h' Eh']. rewrite Eh in *. rewrite Eh' in *.
    induction kv as [|[e w] kv IH]; [discriminate|].
    cbn [map fst forallb] in F. apply andb_true_iff in F. destruct F as [Pe F].
    cbn [clookup cinsert_loop] in *.
    rewrite (probe_spec hs k' e Hk' Pe). rewrite (probe_spec hs k e Hk Pe) in I.
    rewrite <- (ke_congr_l value ke Pk (ke_sym hs) (ke_trans hs) k k' e Hk Hk' Pe H).
    destruct (ke k e) eqn:Ee.
    - exists ((e, v') :: kv). split; [reflexivity|]. split; [reflexivity|]. cbn [clookup].
      rewrite (probe_spec hs k e Hk Pe), (probe_spec hs k' e Hk' Pe), Ee.
      rewrite <- (ke_congr_l value ke Pk (ke_sym hs) (ke_trans hs) k k' e Hk Hk' Pe H), Ee. split; reflexivity.
    - destruct (IH F I) as [kv' [E1 [E2 [E3 E4]]]]. exists ((e, w) :: kv'). rewrite E1. split; [reflexivity|].
      split; [cbn [map fst]; rewrite E2; reflexivity|]. cbn [clookup].
      rewrite (probe_spec hs k e Hk Pe), (probe_spec hs k' e Hk' Pe), Ee.
      rewrite <- (ke_congr_l value ke Pk (ke_sym hs) (ke_trans hs) k k' e Hk Hk' Pe H), Ee. split; assumption.
  Qed.

  Lemma eq_keys_lemma k k' : kok hs k = true -> kok hs k' = true -> compare hs EQL k k' = Ok true ->
    (forall (A : Type) (kv : list (value * A)), forallb (kok hs) (map fst kv) = true ->
       cdict_get hs kv k = cdict_get hs kv k' /\ cin_dict hs kv k = cin_dict hs kv k') /\
    (forall ks, forallb (kok hs) ks = true -> cset_has hs ks k = cset_has hs ks k') /\
    (forall (A : Type) (kv : list (value * A)) (v' : A), forallb (kok hs) (map fst kv) = true -> cin_dict hs kv k = true ->
       exists kv', cdict_insert hs kv k' v' = Ok kv' /\ map fst kv' = map fst kv /\
                   cdict_get hs kv' k = Ok (Some v') /\ cdict_get hs kv' k' = Ok (Some v')).
  Proof.
    intros Hk Hk' H. split; [|split].
    - intros A kv F. pose proof (cdict_get_congr A kv k k' Hk Hk' H F) as Q. split; [exact Q|]. unfold cin_dict. rewrite Q. reflexivity.
    - intros ks F. apply cset_has_congr; assumption.
    - intros A kv v' F I. apply cinsert_update; assumption.
  Qed.

  (* ordered comparison of two dicts is an error at every depth that gets there *)
  Lemma dict_unordered_lemma d op a b : is_eqop op = false -> ccompare_depth hs (S d) op (CDict a) (CDict b) = ErrUnord.
  Proof. destruct op; try discriminate; reflexivity. Qed.

  (* ---------- order of the entries ---------- *)
  Lemma forallb_perm {A} (p : A -> bool) l l' : Permutation l l' -> forallb p l = true -> forallb p l' = true.
  Proof. intros Pm H. rewrite forallb_forall in *. intros x I. apply H. eapply Permutation_in; [apply Permutation_sym, Pm|exact I]. Qed.

  Lemma keys_wf_perm l l' : Permutation l l' -> keys_wf hs l = true -> keys_wf hs l' = true.
  Proof.
    unfold keys_wf. intros Pm W. apply andb_true_iff in W. destruct W as [F N]. apply andb_true_iff. split.
    - eapply forallb_perm; eassumption.
    - apply (nodup_perm value ke Pk (ke_sym hs) l l' Pm); [|exact N]. apply Forall_forall. rewrite forallb_forall in F. exact F.
  Qed.

  Lemma cfits_dict_perm d kv kv' : Permutation kv kv' -> cfits hs d (CDict kv) = true -> cfits hs d (CDict kv') = true.
  Proof.
    destruct d as [|d]; [intros _ H; exact H|]. cbn [cfits]. intros Pm H. apply andb_true_iff in H. destruct H as [W F].
    apply andb_true_iff. split; [|eapply forallb_perm; eassumption].
    eapply keys_wf_perm; [apply Permutation_map, Pm|exact W].
  Qed.

  Lemma dict_perm_eq_d d kv kv' : Permutation kv kv' -> cfits hs (S d) (CDict kv) = true ->
    cfits hs (S d) (CDict kv') = true /\ ccompare_depth hs (S d) EQL (CDict kv) (CDict kv') = Ok true.
  Proof.
    intros Pm Fx. pose proof (cfits_dict_perm (S d) kv kv' Pm Fx) as Fy. split; [exact Fy|].
    destruct (coll_laws hs d) as [T [R _]].
    destruct (ceq_char hs d T (CDict kv) (CDict kv') Fx Fy) as [b [E1 [_ I]]]. rewrite E1. f_equal. apply I.
    destruct (cfits_dict hs d kv Fx) as [W V].
    split; [apply Permutation_length, Pm|].
    apply (dincl_perm value ke Pk (ke_refl hs) (ke_sym hs) (ke_trans hs) cval (E hs d) kv kv' W Pm).
    intros k v Iv. apply R, (V k v Iv).
  Qed.

  Lemma dict_perm_eq kv kv' : Permutation kv kv' -> cok hs (CDict kv) = true ->
    cok hs (CDict kv') = true /\ ccmp EQL (CDict kv) (CDict kv') = Ok true.
  Proof. exact (dict_perm_eq_d 9 kv kv'). Qed.

  Lemma set_perm_eq_d d ks ks' : Permutation ks ks' -> cfits hs (S d) (CSet ks) = true ->
    cfits hs (S d) (CSet ks') = true /\ ccompare_depth hs (S d) EQL (CSet ks) (CSet ks') = Ok true.
  Proof.
    intros Pm Fx. cbn [cfits] in *.
    pose proof (keys_wf_perm ks ks' Pm Fx) as Fy. split; [exact Fy|].
    cbn [ccompare_depth cset_compare]. f_equal.
    apply (csets_equal_char hs ks ks' (keys_wf_P hs ks Fx) (keys_wf_P hs ks' Fy)).
    split; [apply Permutation_length, Pm|].
    intros k I. exists k. split; [eapply Permutation_in; eassumption|].
    apply ke_refl. pose proof (keys_wf_P hs ks Fx) as F. rewrite Forall_forall in F. apply F, I.
  Qed.

  Lemma set_perm_eq ks ks' : Permutation ks ks' -> cok hs (CSet ks) = true ->
    cok hs (CSet ks') = true /\ ccmp EQL (CSet ks) (CSet ks') = Ok true.
  Proof. exact (set_perm_eq_d 9 ks ks'). Qed.

  (* == values are interchangeable in == / != against any third value *)
  Lemma ceq_congr_lemma x y z : cok hs x = true -> cok hs y = true -> cok hs z = true -> ccmp EQL x y = Ok true ->
    (ccmp EQL x z = ccmp EQL y z /\ ccmp NEQ x z = ccmp NEQ y z) /\
    (ccmp EQL z x = ccmp EQL z y /\ ccmp NEQ z x = ccmp NEQ z y).
  Proof.
    intros Fx Fy Fz H.
    assert (H' : ccmp EQL y x = Ok true) by (rewrite <- (ceq_sym_lemma x y Fx Fy); exact H).
    assert (Q : forall u v w, cok hs u = true -> cok hs v = true -> cok hs w = true -> ccmp EQL u v = Ok true -> ccmp EQL v u = Ok true ->
                  ccmp EQL u w = ccmp EQL v w /\ ccmp NEQ u w = ccmp NEQ v w).
    { intros u v w Fu Fv Fw A B.
      destruct (ceq_total_lemma u w Fu Fw) as [b1 [E1 N1]]. destruct (ceq_total_lemma v w Fv Fw) as [b2 [E2 N2]].
      assert (b1 = b2).
      { destruct b1, b2; try reflexivity.
        - rewrite (ceq_trans_lemma v u w Fv Fu Fw B E1) in E2. inversion E2.
        - rewrite (ceq_trans_lemma u v w Fu Fv Fw A E2) in E1. inversion E1. }
      subst b2. rewrite E1, E2, N1, N2. split; reflexivity. }
    split; [apply Q; assumption|].
    destruct (Q x y z Fx Fy Fz H H') as [Q1 _].
    destruct (ceq_total_lemma z x Fz Fx) as [b1 [E1 N1]]. destruct (ceq_total_lemma z y Fz Fy) as [b2 [E2 N2]].
    rewrite (ceq_sym_lemma z x Fz Fx) in E1. rewrite (ceq_sym_lemma z y Fz Fy) in E2.
    rewrite Q1, E2 in E1. inversion E1; subst b2.
    rewrite N1, N2, (ceq_sym_lemma z x Fz Fx), (ceq_sym_lemma z y Fz Fy), Q1. split; reflexivity.
  Qed.

  (* lookups do not depend on the order in which the entries are probed *)
  Lemma kfind_perm A (kv kv' : list (value * A)) k : Permutation kv kv' -> wfk value ke Pk A kv -> Pk k ->
    kfind value ke A kv k = kfind value ke A kv' k.
  Proof.
    intros Pm [F N] Hk.
    assert (F' : keysP value Pk A kv') by (unfold keysP; eapply Permutation_Forall; [apply Permutation_map, Pm|exact F]).
    assert (N' : nodup_by ke (map fst kv') = true) by (eapply (nodup_perm value ke Pk (ke_sym hs)); [apply Permutation_map, Pm|exact F|exact N]).
    destruct (kfind value ke A kv k) as [[e v]|] eqn:Fd.
    - apply kfind_some in Fd. destruct Fd as [I Ee]. symmetry.
      apply (kfind_unique value ke Pk (ke_sym hs) (ke_trans hs)); try assumption. eapply Permutation_in; eassumption.
    - destruct (kfind value ke A kv' k) as [[e v]|] eqn:Fd'; [|reflexivity]. exfalso.
      apply kfind_some in Fd'. destruct Fd' as [I Ee].
      rewrite (kfind_none value ke A kv k Fd e v) in Ee; [discriminate|]. eapply Permutation_in; [apply Permutation_sym, Pm|exact I].
  Qed.

  Lemma lookup_perm_lemma k : kok hs k = true ->
    (forall (A : Type) (kv kv' : list (value * A)), Permutation kv kv' -> keys_wf hs (map fst kv) = true ->
       cdict_get hs kv k = cdict_get hs kv' k) /\
    (forall ks ks', Permutation ks ks' -> keys_wf hs ks = true -> cset_has hs ks k = cset_has hs ks' k).
  Proof.
    intro Hk. split.
    - intros A kv kv' Pm W.
      assert (Wk : wfk value ke Pk A kv).
      { split; [apply keys_wf_P, W|]. unfold keys_wf in W. apply andb_true_iff in W. apply W. }
      pose proof (keys_wf_perm _ _ (Permutation_map fst Pm) W) as W'.
      rewrite !cdict_get_spec; try assumption; [|apply keys_wf_P, W'|apply keys_wf_P, W].
      rewrite (kfind_perm A kv kv' k Pm Wk Hk). reflexivity.
    - intros ks ks' Pm W. pose proof (keys_wf_perm _ _ Pm W) as W'.
      rewrite !cset_has_spec; try assumption; [|apply keys_wf_P, W'|apply keys_wf_P, W].
      f_equal. apply eq_true_iff_eq. rewrite !existsb_exists. split; intros [e [I Ee]]; exists e; (split; [|exact Ee]).
      + eapply Permutation_in; eassumption.
      + eapply Permutation_in; [apply Permutation_sym, Pm|exact I].
  Qed.

  (* ---------- dict == is mutual inclusion modulo == (order-insensitive specification) ---------- *)
  Definition dsub_d (d : nat) (a b : list (value * cval)) : Prop :=
    forall k v, In (k, v) a -> exists k' v', In (k', v') b /\ compare hs EQL k k' = Ok true /\
                                         ccompare_depth hs d EQL v v' = Ok true.
  Definition dsub := dsub_d (pred CompareLimit).

  Lemma dincl_dsub d a b : dincl value ke cval (E hs d) a b -> dsub_d d a b.
  Proof.
    intros D k v I. destruct (D k v I) as [k' [v' [Fd Rv]]]. apply kfind_some in Fd. destruct Fd as [I' Ek].
    exists k', v'. split; [exact I'|]. split; [apply ke_true, Ek|exact Rv].
  Qed.

  Lemma dsub_dincl d a b : keysP value Pk cval a -> wfk value ke Pk cval b -> dsub_d d a b ->
    dincl value ke cval (E hs d) a b.
  Proof.
    intros Fa [Fb Nb] D k v I. destruct (D k v I) as [k' [v' [I' [Ek Rv]]]].
    exists k', v'. split; [|exact Rv].
    apply (kfind_unique value ke Pk (ke_sym hs) (ke_trans hs)); try assumption.
    - apply (keysP_in value Pk cval a k v Fa I).
    - apply keq_of, Ek.
  Qed.

  Lemma dict_eq_spec_d d a b : cfits hs (S d) (CDict a) = true -> cfits hs (S d) (CDict b) = true ->
    (ccompare_depth hs (S d) EQL (CDict a) (CDict b) = Ok true <-> (dsub_d d a b /\ dsub_d d b a)).
  Proof.
    intros Fx Fy.
    destruct (coll_laws hs d) as [T [R [S _]]].
    destruct (ceq_char hs d T (CDict a) (CDict b) Fx Fy) as [r [E1 [_ I]]].
    destruct (cfits_dict hs d a Fx) as [Wa Va]. destruct (cfits_dict hs d b Fy) as [Wb Vb].
    cbn [CE] in I. split.
    - intro H. rewrite E1 in H. inversion H; subst r. destruct (proj1 I eq_refl) as [L D]. split.
      + apply dincl_dsub, D.
      + apply dincl_dsub. apply (dincl_sym value ke Pk (ke_sym hs) (ke_trans hs) cval (E hs d) a b Wa Wb L); [|exact D].
        intros k v k' v' Ia Ib. apply S; [apply (Va k v Ia)|apply (Vb k' v' Ib)].
    - intros [D1 D2]. rewrite E1. f_equal. apply I.
      pose proof (dsub_dincl d a b (proj1 Wa) Wb D1) as Q1. pose proof (dsub_dincl d b a (proj1 Wb) Wa D2) as Q2.
      split; [|exact Q1].
      apply (dincl_length value ke Pk (ke_sym hs) (ke_trans hs) cval (E hs d) a b Wa Wb Q1 Q2).
  Qed.

  Lemma dict_eq_spec_lemma a b : cok hs (CDict a) = true -> cok hs (CDict b) = true ->
    (ccmp EQL (CDict a) (CDict b) = Ok true <-> (dsub a b /\ dsub b a)).
  Proof. exact (dict_eq_spec_d 9 a b). Qed.

  (* ---------- the subset operators on sets ---------- *)
  Section SetOps.
    Variables a b : list value.
    Hypothesis Wa : keys_wf hs a = true.
    Hypothesis Wb : keys_wf hs b = true.
    Let Fa := keys_wf_P hs a Wa.
    Let Fb := keys_wf_P hs b Wb.

    Lemma set_eq_char : exists r, cset_compare hs EQL a b = Ok r /\ cset_compare hs NEQ a b = Ok (negb r) /\
      (r = true <-> (length a = length b /\ sincl hs a b)).
    Proof. exists (csets_equal hs a b). split; [reflexivity|]. split; [reflexivity|]. apply csets_equal_char; assumption. Qed.

    Lemma set_le_char : exists r, cset_compare hs LE a b = Ok r /\ (r = true <-> sincl hs a b).
    Proof.
      cbn [cset_compare]. rewrite csubset_spec by assumption.
      destruct (Nat.ltb (length b) (length a)) eqn:C.
      - exists false. split; [reflexivity|]. split; [discriminate|].
        intro S. pose proof (sincl_le hs a b Wa Fb S). apply Nat.ltb_lt in C. lia.
      - eexists. split; [reflexivity|]. apply forall_hit_sincl; assumption.
    Qed.

    Lemma set_lt_char : exists r, cset_compare hs LT a b = Ok r /\ (r = true <-> (sincl hs a b /\ (length a < length b)%nat)).
    Proof.
      cbn [cset_compare]. rewrite csubset_spec by assumption.
      destruct (Nat.leb (length b) (length a)) eqn:C.
      - exists false. split; [reflexivity|]. split; [discriminate|]. intros [_ L]. apply Nat.leb_le in C. lia.
      - eexists. split; [reflexivity|]. rewrite (forall_hit_sincl hs a b Fa Fb). apply Nat.leb_gt in C. tauto.
    Qed.

    Lemma set_ge_char : exists r, cset_compare hs GE a b = Ok r /\ (r = true <-> sincl hs b a).
    Proof.
      cbn [cset_compare]. rewrite csuperset_spec by assumption.
      destruct (Nat.ltb (length a) (length b)) eqn:C.
      - exists false. split; [reflexivity|]. split; [discriminate|].
        intro S. pose proof (sincl_le hs b a Wb Fa S). apply Nat.ltb_lt in C. lia.
      - eexists. split; [reflexivity|]. apply forall_has_sincl.
    Qed.

    Lemma set_gt_char : exists r, cset_compare hs GT a b = Ok r /\ (r = true <-> (sincl hs b a /\ (length b < length a)%nat)).
    Proof.
      cbn [cset_compare]. rewrite csuperset_spec by assumption.
      destruct (Nat.leb (length a) (length b)) eqn:C.
      - exists false. split; [reflexivity|]. split; [discriminate|]. intros [_ L]. apply Nat.leb_le in C. lia.
      - eexists. split; [reflexivity|]. rewrite (forall_has_sincl hs b a). apply Nat.leb_gt in C. tauto.
    Qed.
  End SetOps.

  Notation sok := (fun s => cok hs (CSet s) = true).

  Lemma sok_wf s : cok hs (CSet s) = true -> keys_wf hs s = true.
  Proof. intro H. exact H. Qed.

  Lemma scmp_unfold op a b : ccmp op (CSet a) (CSet b) = cset_compare hs op a b.
  Proof. reflexivity. Qed.

  Lemma set_le_refl a : sok a -> ccmp LE (CSet a) (CSet a) = Ok true.
  Proof.
    intro W. apply sok_wf in W. rewrite scmp_unfold. destruct (set_le_char a a W W) as [r [E1 I]]. rewrite E1. f_equal.
    apply I, sincl_refl, keys_wf_P, W.
  Qed.

  Lemma set_le_antisym a b : sok a -> sok b ->
    ccmp LE (CSet a) (CSet b) = Ok true -> ccmp LE (CSet b) (CSet a) = Ok true -> ccmp EQL (CSet a) (CSet b) = Ok true.
  Proof.
    intros Wa Wb H1 H2. apply sok_wf in Wa. apply sok_wf in Wb. rewrite scmp_unfold in *.
    destruct (set_le_char a b Wa Wb) as [r1 [E1 I1]]. destruct (set_le_char b a Wb Wa) as [r2 [E2 I2]].
    destruct (set_eq_char a b Wa Wb) as [r [E [_ I]]].
    rewrite E1 in H1. rewrite E2 in H2. inversion H1; inversion H2; subst. rewrite E. f_equal. apply I.
    pose proof (proj1 I1 eq_refl) as S1. pose proof (proj1 I2 eq_refl) as S2. split; [|exact S1].
    pose proof (sincl_le hs a b Wa (keys_wf_P hs b Wb) S1). pose proof (sincl_le hs b a Wb (keys_wf_P hs a Wa) S2). lia.
  Qed.

  Lemma set_le_trans a b c : sok a -> sok b -> sok c ->
    ccmp LE (CSet a) (CSet b) = Ok true -> ccmp LE (CSet b) (CSet c) = Ok true -> ccmp LE (CSet a) (CSet c) = Ok true.
  Proof.
    intros Wa Wb Wc H1 H2. apply sok_wf in Wa. apply sok_wf in Wb. apply sok_wf in Wc. rewrite scmp_unfold in *.
    destruct (set_le_char a b Wa Wb) as [r1 [E1 I1]]. destruct (set_le_char b c Wb Wc) as [r2 [E2 I2]].
    destruct (set_le_char a c Wa Wc) as [r3 [E3 I3]].
    rewrite E1 in H1. rewrite E2 in H2. inversion H1; inversion H2; subst. rewrite E3. f_equal. apply I3.
    apply (sincl_trans hs a b c); try (apply keys_wf_P; assumption); [apply I1|apply I2]; reflexivity.
  Qed.

  (* all six operators always answer; < is (<= and not ==), >= and > are the converses, == implies <= *)
  Lemma set_ops_lemma a b : sok a -> sok b ->
    exists e le,
      ccmp EQL (CSet a) (CSet b) = Ok e /\ ccmp NEQ (CSet a) (CSet b) = Ok (negb e) /\
      ccmp LE (CSet a) (CSet b) = Ok le /\ ccmp LT (CSet a) (CSet b) = Ok (le && negb e) /\
      ccmp GE (CSet b) (CSet a) = Ok le /\ ccmp GT (CSet b) (CSet a) = Ok (le && negb e) /\
      (e = true -> le = true).
  Proof.
    intros Wa Wb. apply sok_wf in Wa. apply sok_wf in Wb. rewrite !scmp_unfold.
    destruct (set_eq_char a b Wa Wb) as [e [E1 [E2 Ie]]]. destruct (set_le_char a b Wa Wb) as [le [E3 Il]].
    destruct (set_lt_char a b Wa Wb) as [lt [E4 It]]. destruct (set_ge_char b a Wb Wa) as [ge [E5 Ig]].
    destruct (set_gt_char b a Wb Wa) as [gt [E6 Igt]].
    pose proof (sincl_le hs a b Wa (keys_wf_P hs b Wb)) as Lab.
    assert (Q : forall r, (r = true <-> (sincl hs a b /\ (length a < length b)%nat)) -> r = le && negb e).
    { intros r Ir. apply eq_true_iff_eq. rewrite andb_true_iff, negb_true_iff, <- not_true_iff_false, Ir, Il, Ie. split.
      - intros [S L]. split; [exact S|]. intros [Q _]. lia.
      - intros [S N]. split; [exact S|]. pose proof (Lab S).
        destruct (Nat.eq_dec (length a) (length b)) as [D|D]; [exfalso; apply N; split; assumption|lia]. }
    exists e, le. rewrite E1, E2, E3, E4, E5, E6.
    split; [reflexivity|]. split; [reflexivity|]. split; [reflexivity|].
    split; [f_equal; apply Q, It|]. split; [f_equal; apply eq_true_iff_eq; rewrite Ig, Il; reflexivity|].
    split; [f_equal; apply Q, Igt|].
    intro He. apply Il. apply Ie in He. apply He.
  Qed.
End WithHash.
