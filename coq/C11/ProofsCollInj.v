(* C11 -- the extended universe is a conservative extension: on (the image of) the
   existing theorem universe ccompare_depth is compare_depth, for every operator
   and every depth, and the guards correspond. *)
From Coq Require Import ZArith QArith Bool List Lia.
From SV Require Import C11.Model C11.Spec C11.ProofsAtom C11.ProofsValue C11.ProofsLaws C11.ProofsHash C11.Proofs C11.ModelColl C11.ProofsCollKeys C11.ProofsColl.
Import ListNotations.
Open Scope Z_scope.

Lemma cslice_loop_inj c c' op l : forall m,
  (forall x y o, In x l -> In y m -> c' o (inj x) (inj y) = c o x y) ->
  cslice_loop c' op (map inj l) (map inj m) = slice_loop c op l m.
Proof.
  induction l as [|x l IH]; intros [|y m] H; cbn [map cslice_loop slice_loop]; rewrite ?map_length; try reflexivity.
  rewrite !(H x y) by (left; reflexivity).
  rewrite (IH m) by (intros; apply H; right; assumption). reflexivity.
Qed.

Lemma cslice_compare_inj c c' op l m :
  (forall x y o, In x l -> In y m -> c' o (inj x) (inj y) = c o x y) ->
  cslice_compare c' op (map inj l) (map inj m) = slice_compare c op l m.
Proof.
  intro H. unfold cslice_compare, slice_compare. rewrite !map_length.
  destruct (negb (Nat.eqb (length l) (length m)) && is_eqop op); [reflexivity|]. apply cslice_loop_inj, H.
Qed.

Definition injf (nv : list Z * value) : list Z * cval := match nv with (n, x) => (n, inj x) end.

Lemma centries_inj e e' f : forall g,
  (forall nx my, In nx f -> In my g -> e' (inj (snd nx)) (inj (snd my)) = e (snd nx) (snd my)) ->
  centries_equal e' (map injf f) (map injf g) = entries_equal e f g.
Proof.
  induction f as [|[n x] f IH]; intros [|[m y] g] H; cbn [map injf centries_equal entries_equal]; try reflexivity.
  destruct (negb (bytes_eqb n m)); [reflexivity|].
  pose proof (H (n, x) (m, y) (or_introl eq_refl) (or_introl eq_refl)) as Q. cbn [snd] in Q. rewrite Q.
  rewrite (IH g) by (intros; apply H; right; assumption). reflexivity.
Qed.

Section WithHash.
  Variable hs : list Z -> Z.

  (* ---- atom-keyed dicts and sets: Model.v's dict_get / set_has / dictsEqual / set
     operators (the ones the correspondence check runs against the implementation)
     are the instances of the ModelColl ones ---- *)
  Definition injkv (e : atom * value) : value * cval := match e with (k, x) => (VAtom k, inj x) end.

  Lemma key_match_sym k e : key_match hs k e = key_match hs e k.
  Proof.
    unfold key_match. rewrite (Z.eqb_sym (hash_atom hs k)), !atom_compare_spec, (atom_cmp3_flip e k).
    destruct (atom_cmp3 e k); reflexivity.
  Qed.

  Lemma probe_atom k e : probe hs (VAtom k) (VAtom e) = Ok (key_match hs k e).
  Proof.
    unfold probe, key_match. cbn [hash].
    change (compare hs EQL (VAtom k) (VAtom e)) with (atom_compare EQL k e). rewrite atom_compare_spec.
    destruct (is_equal (atom_cmp3 k e)) eqn:Q.
    - rewrite (atom_hash_eq hs k e Q), !Z.eqb_refl. rewrite (interp_eql_of_equal _ Q). reflexivity.
    - assert (R : interp EQL (atom_cmp3 k e) = Ok false) by (destruct (atom_cmp3 k e); try discriminate; reflexivity).
      rewrite R, andb_false_r. destruct (adj0 (hash_atom hs k) =? adj0 (hash_atom hs e)); reflexivity.
  Qed.

  Lemma clookup_atom b k : clookup hs (map injkv b) (VAtom k) = Ok (option_map inj (dict_get hs b k)).
  Proof.
    induction b as [|[e v] b IH]; [reflexivity|]. cbn [map injkv clookup dict_get]. rewrite probe_atom.
    destruct (key_match hs k e); [reflexivity|exact IH].
  Qed.

  Lemma cdict_loop_inj e e' a b : (forall x y, e' (inj x) (inj y) = e x y) ->
    cdict_loop hs e' (map injkv a) (map injkv b) = dict_loop hs e a b.
  Proof.
    intro H. induction a as [|[k xv] a IH]; [reflexivity|]. cbn [map injkv cdict_loop dict_loop].
    unfold cdict_get. cbn [hash]. rewrite clookup_atom.
    destruct (dict_get hs b k) as [yv|]; cbn [option_map]; [|reflexivity].
    rewrite H. destruct (e xv yv) as [[|]| |]; try reflexivity. exact IH.
  Qed.

  Lemma cset_has_atom b k : cset_has hs (map VAtom b) (VAtom k) = Ok (set_has hs b k).
  Proof.
    unfold cset_has, cdict_get, set_has. cbn [hash].
    induction b as [|e b IH]; [reflexivity|]. cbn [map sentries clookup existsb]. rewrite probe_atom.
    destruct (key_match hs k e); [reflexivity|exact IH].
  Qed.

  Lemma csets_equal_atom a b : csets_equal hs (map VAtom a) (map VAtom b) = sets_equal hs a b.
  Proof.
    unfold csets_equal, sets_equal. rewrite !map_length. f_equal.
    induction a as [|k a IH]; [reflexivity|]. cbn [map forallb]. rewrite cset_has_atom, IH.
    destruct (set_has hs b k); reflexivity.
  Qed.

  Lemma csuperset_atom a b : csuperset hs (map VAtom a) (map VAtom b) = Ok (set_subset hs b a).
  Proof.
    unfold set_subset. induction b as [|k b IH]; [reflexivity|]. cbn [map csuperset forallb]. rewrite cset_has_atom.
    destruct (set_has hs a k); [exact IH|reflexivity].
  Qed.

  Lemma hit_by_atom ys e : hit_by hs (map VAtom ys) (VAtom e) = Ok (existsb (fun k => key_match hs k e) ys).
  Proof. induction ys as [|k ys IH]; [reflexivity|]. cbn [map hit_by existsb]. rewrite probe_atom, IH. reflexivity. Qed.

  Lemma csubset_atom a b : csubset hs (map VAtom a) (map VAtom b) = Ok (set_subset hs a b).
  Proof.
    unfold csubset, set_subset.
    assert (Q : ccount hs (map VAtom a) (map VAtom b) = Ok (length (filter (fun e => existsb (fun k => key_match hs k e) b) a))).
    { induction a as [|e a IH]; [reflexivity|]. cbn [map ccount filter]. rewrite hit_by_atom, IH.
      destruct (existsb (fun k => key_match hs k e) b); reflexivity. }
    rewrite Q, map_length, filter_all. apply (f_equal (@Ok bool)). unfold set_has. clear Q.
    induction a as [|e a IH]; [reflexivity|]. cbn [forallb]. rewrite IH. apply (f_equal (fun t => t && _)).
    clear IH. induction b as [|k b IHb]; [reflexivity|]. cbn [existsb]. rewrite IHb, (key_match_sym k e). reflexivity.
  Qed.

  Lemma cset_compare_atom op a b :
    cset_compare hs op (map VAtom a) (map VAtom b) =
    match op with
    | EQL => Ok (sets_equal hs a b)
    | NEQ => Ok (negb (sets_equal hs a b))
    | GE => Ok (Nat.leb (length b) (length a) && set_subset hs b a)
    | LE => Ok (Nat.leb (length a) (length b) && set_subset hs a b)
    | GT => Ok (Nat.ltb (length b) (length a) && set_subset hs b a)
    | LT => Ok (Nat.ltb (length a) (length b) && set_subset hs a b)
    end.
  Proof.
    destruct op; cbn [cset_compare]; rewrite ?csets_equal_atom, ?map_length, ?csubset_atom, ?csuperset_atom; try reflexivity.
    - rewrite (Nat.ltb_antisym (length b) (length a)). destruct (Nat.leb (length b) (length a)); reflexivity.
    - rewrite (Nat.leb_antisym (length b) (length a)). destruct (Nat.ltb (length b) (length a)); reflexivity.
    - rewrite (Nat.ltb_antisym (length a) (length b)). destruct (Nat.leb (length a) (length b)); reflexivity.
    - rewrite (Nat.leb_antisym (length a) (length b)). destruct (Nat.ltb (length a) (length b)); reflexivity.
  Qed.

  (* no guard: every value of Model.v, every operator, every depth *)
  Lemma inj_compare_all : forall d op x y,
    ccompare_depth hs d op (inj x) (inj y) = compare_depth hs d op x y.
  Proof.
    induction d as [|d IH]; intros op x y; [reflexivity|].
    destruct x as [a|l|l|s1 st1 n1|c f|kv|ks]; destruct y as [b|m|m|s2 st2 n2|c' g|kv'|ks']; try reflexivity;
      cbn [inj ccompare_depth compare_depth].
    - apply cslice_compare_inj. intros x y o _ _. apply IH.
    - apply cslice_compare_inj. intros x y o _ _. apply IH.
    - rewrite !map_length. f_equal. destruct (negb (Nat.eqb (length f) (length g))); [reflexivity|].
      destruct (atom_compare EQL c c') as [[|]| |]; try reflexivity.
      apply (centries_inj (compare_depth hs d EQL) (ccompare_depth hs d EQL) f g). intros nx my _ _. apply IH.
    - rewrite !map_length. f_equal. destruct (negb (Nat.eqb (length kv) (length kv'))); [reflexivity|].
      apply (cdict_loop_inj (compare_depth hs d EQL) (ccompare_depth hs d EQL)). intros x y. apply IH.
    - apply cset_compare_atom.
  Qed.

  Lemma inj_cfits : forall d x, fits d x = true -> cfits hs d (inj x) = true.
  Proof.
    induction d as [|d IH]; intros x Fx; [discriminate|].
    destruct x as [a|l|l|s1 st1 n1|c f|kv|ks]; try discriminate; try reflexivity; cbn [inj cfits fits] in *.
    - apply forallb_forall. intros z Hz. apply in_map_iff in Hz. destruct Hz as [x [E I]]. subst z. apply IH, (forallb_In _ _ _ Fx I).
    - apply forallb_forall. intros z Hz. apply in_map_iff in Hz. destruct Hz as [x [E I]]. subst z. apply IH, (forallb_In _ _ _ Fx I).
    - apply forallb_forall. intros z Hz. apply in_map_iff in Hz. destruct Hz as [[n x] [E I]]. subst z. apply IH, (forallb_In _ _ _ Fx I).
  Qed.

  Lemma inj_conservative_all :
    (forall d op x y, ccompare_depth hs d op (inj x) (inj y) = compare_depth hs d op x y) /\
    (forall d x, fits d x = true -> cfits hs d (inj x) = true).
  Proof. exact (conj inj_compare_all inj_cfits). Qed.
End WithHash.
