(* C11 -- == on the extended universe (dict and set included) always answers within
   the depth limit, != answers its negation, and == is reflexive, symmetric and
   transitive: by induction on the depth, through a characterisation (CE) of
   what == decides one level down. *)
From Coq Require Import ZArith QArith Bool List Lia Permutation.
From SV Require Import C11.Model C11.Spec C11.ProofsAtom C11.ProofsValue C11.ProofsLaws C11.ProofsHash C11.Proofs
  C11.ModelColl C11.ProofsCollKeys C11.ProofsColl.
Import ListNotations.
Open Scope Z_scope.

Section WithHash.
  Variable hs : list Z -> Z.
  Notation cmp := (ccompare_depth hs).
  Notation Pk := (fun k => kok hs k = true).
  Notation ke := (keqb hs).

  Definition E (d : nat) (x y : cval) : Prop := cmp d EQL x y = Ok true.

  Definition FE (d : nat) (nx my : list Z * cval) : Prop := fst nx = fst my /\ E d (snd nx) (snd my).

  (* what == decides at depth d+1, in terms of == at depth d *)
  Definition CE (d : nat) (x y : cval) : Prop :=
    match x, y with
    | CAtom a, CAtom b => is_equal (atom_cmp3 a b) = true
    | CTuple l, CTuple m => Forall2 (E d) l m
    | CList l, CList m => Forall2 (E d) l m
    | CRange s1 st1 n1, CRange s2 st2 n2 => range_same s1 st1 n1 s2 st2 n2 = true
    | CStruct c f, CStruct c' g => is_equal (atom_cmp3 c c') = true /\ Forall2 (FE d) f g
    | CDict a, CDict b => length a = length b /\ dincl value ke cval (E d) a b
    | CSet a, CSet b => length a = length b /\ sincl hs a b
    | _, _ => False
    end.

  Definition Tot (d : nat) : Prop :=
    forall x y, cfits hs d x = true -> cfits hs d y = true ->
      exists b, cmp d EQL x y = Ok b /\ cmp d NEQ x y = Ok (negb b).
  Definition Rf (d : nat) : Prop := forall x, cfits hs d x = true -> E d x x.
  Definition Sy (d : nat) : Prop := forall x y, cfits hs d x = true -> cfits hs d y = true -> E d x y -> E d y x.
  Definition Tr (d : nat) : Prop :=
    forall x y z, cfits hs d x = true -> cfits hs d y = true -> cfits hs d z = true -> E d x y -> E d y z -> E d x z.

  (* ---- what cfits says about dicts ---- *)
  Lemma cfits_dict d kv : cfits hs (S d) (CDict kv) = true ->
    wfk value ke Pk cval kv /\ (forall k v, In (k, v) kv -> cfits hs d v = true).
  Proof.
    cbn [cfits]. intro H. apply andb_true_iff in H. destruct H as [W F]. split.
    - split; [apply keys_wf_P, W|]. unfold keys_wf in W. apply andb_true_iff in W. apply W.
    - intros k v I. apply (forallb_In _ _ _ F I).
  Qed.

  Lemma cfits_field d (f : list (list Z * cval)) nx :
    forallb (fun nv => match nv with (_, x) => cfits hs d x end) f = true -> In nx f -> cfits hs d (snd nx) = true.
  Proof. intros F I. pose proof (forallb_In _ _ _ F I) as Q. destruct nx; exact Q. Qed.

  Lemma mismatch_eq : mismatch EQL = Ok false /\ mismatch NEQ = Ok (negb false).
  Proof. split; reflexivity. Qed.

  Lemma ceq_char d : Tot d -> forall x y, cfits hs (S d) x = true -> cfits hs (S d) y = true ->
    exists b, cmp (S d) EQL x y = Ok b /\ cmp (S d) NEQ x y = Ok (negb b) /\ (b = true <-> CE d x y).
  Proof.
    intros T x y Fx Fy.
    destruct x as [a|l|l|s1 st1 n1|c f|kv|ks]; destruct y as [b|m|m|s2 st2 n2|c' g|kv'|ks'];
      try (exists false; split; [reflexivity|]; split; [reflexivity|]; split; [discriminate|intros []]).
    - cbn [ccompare_depth CE]. rewrite !atom_compare_spec. exists (is_equal (atom_cmp3 a b)).
      destruct (atom_cmp3 a b); (split; [reflexivity|split; [reflexivity|tauto]]).
    - cbn [ccompare_depth CE cfits] in *. apply cslice_eq. intros x y Hx Hy.
      destruct (T x y (forallb_In _ _ _ Fx Hx) (forallb_In _ _ _ Fy Hy)) as [b [Eb _]]. exists b. exact Eb.
    - cbn [ccompare_depth CE cfits] in *. apply cslice_eq. intros x y Hx Hy.
      destruct (T x y (forallb_In _ _ _ Fx Hx) (forallb_In _ _ _ Fy Hy)) as [b [Eb _]]. exists b. exact Eb.
    - cbn [ccompare_depth CE]. rewrite range_equal_same. exists (range_same s1 st1 n1 s2 st2 n2). split; [reflexivity|split; [reflexivity|tauto]].
    - cbn [ccompare_depth CE cfits] in *.
      destruct (Nat.eqb (length f) (length g)) eqn:L; cbn [negb].
      + apply Nat.eqb_eq in L. rewrite atom_compare_spec.
        destruct (centries_eq (cmp d EQL) f g L) as [b [Eb Ib]].
        { intros nx my Hx Hy. destruct (T (snd nx) (snd my) (cfits_field d f nx Fx Hx) (cfits_field d g my Fy Hy)) as [b [Eb _]]. exists b. exact Eb. }
        destruct (is_equal (atom_cmp3 c c')) eqn:A.
        * exists b. assert (Q : interp EQL (atom_cmp3 c c') = Ok true) by (apply interp_eql_of_equal, A).
          rewrite Q, Eb. cbn [eq_only]. split; [reflexivity|]. split; [reflexivity|].
          split; [intro Hb; split; [reflexivity|apply Ib, Hb]|intros [_ Hf]; apply Ib, Hf].
        * exists false. destruct (atom_cmp3 c c'); try discriminate; cbn [interp eq_only negb];
            (split; [reflexivity|]; split; [reflexivity|]; split; [discriminate|intros [Q _]; discriminate]).
      + exists false. cbn [eq_only negb]. split; [reflexivity|]. split; [reflexivity|]. split; [discriminate|].
        intros [_ Hf]. apply F2_length in Hf. apply Nat.eqb_neq in L. contradiction.
    - destruct (cfits_dict d kv Fx) as [[Pa Na] Va]. destruct (cfits_dict d kv' Fy) as [[Pb Nb] Vb].
      cbn [ccompare_depth CE].
      destruct (Nat.eqb (length kv) (length kv')) eqn:L; cbn [negb].
      + apply Nat.eqb_eq in L.
        destruct (cdict_loop_char hs (cmp d EQL) kv kv' Pa Pb) as [r [Er Ir]].
        { intros k v k' v' I I'. destruct (T v v' (Va k v I) (Vb k' v' I')) as [b [Eb _]]. exists b. exact Eb. }
        exists r. rewrite Er. cbn [eq_only]. split; [reflexivity|]. split; [reflexivity|].
        split; [intro Hr; split; [exact L|apply Ir, Hr]|intros [_ D]; apply Ir, D].
      + exists false. cbn [eq_only negb]. split; [reflexivity|]. split; [reflexivity|]. split; [discriminate|].
        intros [Q _]. apply Nat.eqb_neq in L. contradiction.
    - cbn [cfits] in Fx, Fy. cbn [ccompare_depth cset_compare CE]. exists (csets_equal hs ks ks').
      split; [reflexivity|]. split; [reflexivity|].
      apply csets_equal_char; apply keys_wf_P; assumption.
  Qed.

  (* ---- the laws of CE one level up ---- *)
  Lemma CE_refl d : Rf d -> forall x, cfits hs (S d) x = true -> CE d x x.
  Proof.
    intros R x Fx. destruct x as [a|l|l|s1 st1 n1|c f|kv|ks]; cbn [CE cfits] in *.
    - apply atom_cmp3_refl.
    - apply F2_refl. intros x Hx. apply R. apply (forallb_In _ _ _ Fx Hx).
    - apply F2_refl. intros x Hx. apply R. apply (forallb_In _ _ _ Fx Hx).
    - apply range_same_refl.
    - split; [apply atom_cmp3_refl|]. apply F2_refl. intros nx Hx. split; [reflexivity|]. apply R, (cfits_field d f nx Fx Hx).
    - destruct (cfits_dict d kv Fx) as [W V]. split; [reflexivity|].
      apply (dincl_refl value ke Pk (ke_refl hs) (ke_sym hs) (ke_trans hs) cval (E d) kv W).
      intros k v I. apply R, (V k v I).
    - split; [reflexivity|]. apply sincl_refl, keys_wf_P, Fx.
  Qed.

  Lemma CE_sym d : Sy d -> forall x y, cfits hs (S d) x = true -> cfits hs (S d) y = true -> CE d x y -> CE d y x.
  Proof.
    intros S x y Fx Fy H.
    destruct x as [a|l|l|s1 st1 n1|c f|kv|ks]; destruct y as [b|m|m|s2 st2 n2|c' g|kv'|ks']; try (destruct H; fail);
      cbn [CE] in *.
    - rewrite atom_cmp3_flip, is_equal_flip. exact H.
    - cbn [cfits] in *. apply F2_sym; [|exact H]. intros x y Hx Hy. apply S; [apply (forallb_In _ _ _ Fx Hx)|apply (forallb_In _ _ _ Fy Hy)].
    - cbn [cfits] in *. apply F2_sym; [|exact H]. intros x y Hx Hy. apply S; [apply (forallb_In _ _ _ Fx Hx)|apply (forallb_In _ _ _ Fy Hy)].
    - rewrite range_same_sym. exact H.
    - cbn [cfits] in *. destruct H as [A F]. split; [rewrite atom_cmp3_flip, is_equal_flip; exact A|].
      apply F2_sym; [|exact F]. intros nx my Hx Hy [Q1 Q2]. split; [symmetry; exact Q1|].
      apply S; [apply (cfits_field d f nx Fx Hx)|apply (cfits_field d g my Fy Hy)|exact Q2].
    - destruct (cfits_dict d kv Fx) as [Wa Va]. destruct (cfits_dict d kv' Fy) as [Wb Vb].
      destruct H as [L D]. split; [symmetry; exact L|].
      apply (dincl_sym value ke Pk (ke_sym hs) (ke_trans hs) cval (E d) kv kv' Wa Wb L); [|exact D].
      intros k v k' v' I I'. apply S; [apply (Va k v I)|apply (Vb k' v' I')].
    - cbn [cfits] in *. destruct H as [L D]. split; [symmetry; exact L|].
      apply sincl_sym; try assumption. lia.
  Qed.

  Lemma CE_trans d : Tr d -> forall x y z, cfits hs (S d) x = true -> cfits hs (S d) y = true -> cfits hs (S d) z = true ->
    CE d x y -> CE d y z -> CE d x z.
  Proof.
    intros T x y z Fx Fy Fz H1 H2.
    destruct x as [a|l|l|s1 st1 n1|c f|kv|ks]; destruct y as [b|m|m|s2 st2 n2|c' g|kv'|ks']; try (destruct H1; fail);
      destruct z as [e|n|n|s3 st3 n3|c'' h|kv''|ks'']; try (destruct H2; fail); cbn [CE] in *.
    - rewrite (atom_cmp3_eq_congr a b e H1). exact H2.
    - cbn [cfits] in *. apply (F2_trans cval (E d) l m n); try assumption.
      intros x y z Hx Hy Hz. apply T; [apply (forallb_In _ _ _ Fx Hx)|apply (forallb_In _ _ _ Fy Hy)|apply (forallb_In _ _ _ Fz Hz)].
    - cbn [cfits] in *. apply (F2_trans cval (E d) l m n); try assumption.
      intros x y z Hx Hy Hz. apply T; [apply (forallb_In _ _ _ Fx Hx)|apply (forallb_In _ _ _ Fy Hy)|apply (forallb_In _ _ _ Fz Hz)].
    - rewrite (range_same_congr _ _ _ _ _ _ s3 st3 n3 H1). exact H2.
    - cbn [cfits] in *. destruct H1 as [A1 F1]. destruct H2 as [A2 F2].
      split; [rewrite (atom_cmp3_eq_congr c c' c'' A1); exact A2|].
      apply (F2_trans _ (FE d) f g h); try assumption.
      intros nx my pz Hx Hy Hz [Q1 Q2] [Q3 Q4]. split; [congruence|].
      apply (T (snd nx) (snd my) (snd pz)); try assumption;
        [apply (cfits_field d f nx Fx Hx)|apply (cfits_field d g my Fy Hy)|apply (cfits_field d h pz Fz Hz)].
    - destruct (cfits_dict d kv Fx) as [[Pa Na] Va]. destruct (cfits_dict d kv' Fy) as [[Pb Nb] Vb].
      destruct (cfits_dict d kv'' Fz) as [[Pc Nc] Vc].
      destruct H1 as [L1 D1]. destruct H2 as [L2 D2]. split; [congruence|].
      apply (dincl_trans value ke Pk (ke_sym hs) (ke_trans hs) cval (E d) kv kv' kv'' Pa Pb Pc); try assumption.
      intros k v k' v' k'' v'' I I' I''. apply T; [apply (Va k v I)|apply (Vb k' v' I')|apply (Vc k'' v'' I'')].
    - cbn [cfits] in *. destruct H1 as [L1 D1]. destruct H2 as [L2 D2]. split; [congruence|].
      apply (sincl_trans hs ks ks' ks''); try assumption; apply keys_wf_P; assumption.
  Qed.

  (* ---- all four, by induction on the depth ---- *)
  Lemma coll_laws : forall d, Tot d /\ Rf d /\ Sy d /\ Tr d.
  Proof.
    induction d as [|d [T [R [S Tr']]]].
    { repeat split; intro x; intros; discriminate. }
    pose proof (ceq_char d T) as C.
    repeat split.
    - intros x y Fx Fy. destruct (C x y Fx Fy) as [b [E1 [E2 _]]]. exists b. split; assumption.
    - intros x Fx. destruct (C x x Fx Fx) as [b [E1 [_ I]]]. unfold E. rewrite E1. f_equal. apply I, CE_refl; assumption.
    - intros x y Fx Fy H. destruct (C x y Fx Fy) as [b [E1 [_ I]]]. destruct (C y x Fy Fx) as [b' [E1' [_ I']]].
      unfold E in *. rewrite E1 in H. inversion H; subst b. rewrite E1'. f_equal. apply I'.
      apply CE_sym; try assumption. apply I. reflexivity.
    - intros x y z Fx Fy Fz H1 H2.
      destruct (C x y Fx Fy) as [b1 [E1 [_ I1]]]. destruct (C y z Fy Fz) as [b2 [E2 [_ I2]]].
      destruct (C x z Fx Fz) as [b3 [E3 [_ I3]]].
      unfold E in *. rewrite E1 in H1. rewrite E2 in H2. inversion H1; inversion H2; subst. rewrite E3. f_equal. apply I3.
      apply (CE_trans d Tr' x y z); try assumption; [apply I1|apply I2]; reflexivity.
  Qed.
End WithHash.
