(* C11 -- the model's CompareDepth is the specified three-way comparison for
   values within the depth limit (compare_depth_spec). *)
From Coq Require Import ZArith QArith Bool List Lia.
From SV Require Import C11.Model C11.Spec C11.ProofsAtom.
Import ListNotations.
Open Scope Z_scope.

Lemma threeway_neg op c : c < 0 -> Ok (threeway op c) = interp op OLt.
Proof.
  intro H.
  assert (E1 : (c =? 0) = false) by (apply Z.eqb_neq; lia).
  assert (E2 : (c <=? 0) = true) by (apply Z.leb_le; lia).
  assert (E3 : (c <? 0) = true) by (apply Z.ltb_lt; lia).
  assert (E4 : (c >=? 0) = false) by (rewrite Z.geb_leb; apply Z.leb_gt; lia).
  assert (E5 : (c >? 0) = false) by (rewrite Z.gtb_ltb; apply Z.ltb_ge; lia).
  destruct op; simpl; rewrite ?E1, ?E2, ?E3, ?E4, ?E5; reflexivity.
Qed.

Lemma threeway_pos op c : 0 < c -> Ok (threeway op c) = interp op OGt.
Proof.
  intro H.
  assert (E1 : (c =? 0) = false) by (apply Z.eqb_neq; lia).
  assert (E2 : (c <=? 0) = false) by (apply Z.leb_gt; lia).
  assert (E3 : (c <? 0) = false) by (apply Z.ltb_ge; lia).
  assert (E4 : (c >=? 0) = true) by (rewrite Z.geb_leb; apply Z.leb_le; lia).
  assert (E5 : (c >? 0) = true) by (rewrite Z.gtb_ltb; apply Z.ltb_lt; lia).
  destruct op; simpl; rewrite ?E1, ?E2, ?E3, ?E4, ?E5; reflexivity.
Qed.

Definition agree (cmp : tok -> value -> value -> res bool) (c3 : value -> value -> option ord) (x y : value) : Prop :=
  exists o, c3 x y = Some o /\ forall op, cmp op x y = interp op o.

Lemma slice_loop_spec cmp c3 l : forall m,
  (forall x y, In x l -> In y m -> agree cmp c3 x y) ->
  exists o, seq3 c3 l m = Some o /\ (forall op, slice_loop cmp op l m = interp op o)
            /\ o <> OId /\ (o = OEq -> length l = length m).
Proof.
  induction l as [|x l IH]; intros [|y m] H.
  - exists OEq. repeat split; try discriminate.
  - exists OLt. repeat split; try discriminate.
  - exists OGt. repeat split; try discriminate.
  - destruct (H x y (or_introl eq_refl) (or_introl eq_refl)) as [o1 [E1 A1]].
    destruct (IH m) as [o2 [E2 [A2 [N2 L2]]]].
    { intros a b Ha Hb. apply H; right; assumption. }
    cbn [seq3 slice_loop]. rewrite E1, (A1 EQL).
    destruct o1; cbn [interp is_equal].
    + exists OLt. repeat split; try discriminate. intro op. destruct op; try reflexivity; apply A1.
    + exists o2. repeat split; try assumption. intro E. simpl. f_equal. apply L2, E.
    + exists OGt. repeat split; try discriminate. intro op. destruct op; try reflexivity; apply A1.
    + exists OUn. repeat split; try discriminate. intro op. destruct op; try reflexivity; apply A1.
    + exists o2. repeat split; try assumption. intro E. simpl. f_equal. apply L2, E.
Qed.

Lemma slice_compare_spec cmp c3 l m :
  (forall x y, In x l -> In y m -> agree cmp c3 x y) ->
  exists o, seq3 c3 l m = Some o /\ forall op, slice_compare cmp op l m = interp op o.
Proof.
  intro H. destruct (slice_loop_spec cmp c3 l m H) as [o [E [A [N L]]]].
  exists o. split; [exact E|]. intro op. unfold slice_compare.
  destruct (negb (Nat.eqb (length l) (length m)) && is_eqop op) eqn:F; [|apply A].
  apply andb_true_iff in F. destruct F as [F1 F2].
  apply negb_true_iff in F1. apply Nat.eqb_neq in F1.
  destruct o; try (exfalso; apply N; reflexivity); try (exfalso; apply F1, L; reflexivity);
    destruct op; try discriminate; reflexivity.
Qed.

Lemma eq_only_interp op b : eq_only op (Ok b) = interp op (same_or_un b).
Proof. destruct op, b; reflexivity. Qed.

Lemma entries_spec eqd c3 f : forall g,
  (forall nx my, In nx f -> In my g -> exists o, c3 (snd nx) (snd my) = Some o /\ eqd (snd nx) (snd my) = interp EQL o) ->
  length f = length g ->
  exists b, fields3 c3 f g = Some (same_or_un b) /\ entries_equal eqd f g = Ok b.
Proof.
  induction f as [|[n x] f IH]; intros [|[m y] g] H L; try discriminate.
  - exists true. split; reflexivity.
  - cbn [fields3 entries_equal].
    destruct (negb (bytes_eqb n m)).
    + exists false. split; reflexivity.
    + destruct (H (n, x) (m, y) (or_introl eq_refl) (or_introl eq_refl)) as [o [E A]].
      simpl in E, A. rewrite E, A.
      destruct (IH g) as [b [E2 A2]].
      { intros a c Ha Hc. apply H; right; assumption. }
      { simpl in L. lia. }
      destruct o; cbn [interp is_equal];
        try (exists false; split; reflexivity);
        (exists b; split; assumption).
Qed.

Lemma range_equal_same s1 st1 n1 s2 st2 n2 : range_equal s1 st1 n1 s2 st2 n2 = range_same s1 st1 n1 s2 st2 n2.
Proof.
  unfold range_equal, range_same.
  destruct (n1 =? n2), (n1 =? 0), (s1 =? s2), (n1 =? 1), (st1 =? st2); reflexivity.
Qed.

Lemma forallb_In {A} (p : A -> bool) l x : forallb p l = true -> In x l -> p x = true.
Proof. intros H I. rewrite forallb_forall in H. apply H, I. Qed.

Section WithHash.
  Variable hs : list Z -> Z.

  (* for values of the property's universe within the depth limit, the six
     operators are the six readings of one specified outcome *)
  Lemma compare_depth_spec : forall d x y,
    fits d x = true -> fits d y = true ->
    exists o, cmp3 d x y = Some o /\ forall op, compare_depth hs d op x y = interp op o.
  Proof.
    induction d as [|d IH]; intros x y Fx Fy; [discriminate|].
    destruct x as [a|l|l|s1 st1 n1|c f|kv|ks]; try discriminate;
      destruct y as [b|m|m|s2 st2 n2|c' g|kv'|ks']; try discriminate;
      try (exists OUn; split; [reflexivity|intro op; apply mismatch_interp]).
    - exists (atom_cmp3 a b). split; [reflexivity|]. intro op. apply atom_compare_spec.
    - cbn [fits] in Fx, Fy. cbn [cmp3 compare_depth].
      apply slice_compare_spec. intros x y Hx Hy. apply IH; [apply (forallb_In _ _ _ Fx Hx)|apply (forallb_In _ _ _ Fy Hy)].
    - cbn [fits] in Fx, Fy. cbn [cmp3 compare_depth].
      apply slice_compare_spec. intros x y Hx Hy. apply IH; [apply (forallb_In _ _ _ Fx Hx)|apply (forallb_In _ _ _ Fy Hy)].
    - exists (same_or_un (range_same s1 st1 n1 s2 st2 n2)). split; [reflexivity|].
      intro op. cbn [compare_depth]. rewrite range_equal_same. apply eq_only_interp.
    - cbn [fits] in Fx, Fy. cbn [cmp3 compare_depth].
      destruct (negb (Nat.eqb (length f) (length g))) eqn:L.
      + exists OUn. split; [reflexivity|]. intro op. apply (eq_only_interp op false).
      + apply negb_false_iff in L. apply Nat.eqb_eq in L.
        rewrite atom_compare_spec.
        destruct (entries_spec (compare_depth hs d EQL) (cmp3 d) f g) as [b [E A]].
        { intros [n x] [m y] Hx Hy. simpl.
          destruct (IH x y) as [o [E A]].
          - apply (forallb_In _ _ _ Fx Hx).
          - apply (forallb_In _ _ _ Fy Hy).
          - exists o. split; [exact E|apply A]. }
        { exact L. }
        destruct (atom_cmp3 c c'); cbn [interp is_equal];
          try (exists OUn; split; [reflexivity|]; intro op; apply (eq_only_interp op false)).
        * exists (same_or_un b). split; [exact E|]. intro op. rewrite A. apply eq_only_interp.
        * exists (same_or_un b). split; [exact E|]. intro op. rewrite A. apply eq_only_interp.
  Qed.

End WithHash.
