(* C11 -- equal values hash equally; answers do not change with more depth. *)
From Coq Require Import ZArith QArith Bool List Lia.
From SV Require Import C11.Model C11.Spec C11.ProofsAtom C11.ProofsValue C11.ProofsLaws.
Import ListNotations.
Open Scope Z_scope.

Lemma qtrunc_Qeq p q : Qeq p q -> qtrunc p = qtrunc q.
Proof.
  unfold Qeq, qtrunc. intro H.
  rewrite <- (Z.quot_mul_cancel_r (Qnum p) (Zpos (Qden p)) (Zpos (Qden q))) by discriminate.
  rewrite <- (Z.quot_mul_cancel_r (Qnum q) (Zpos (Qden q)) (Zpos (Qden p))) by discriminate.
  rewrite H. f_equal. apply Z.mul_comm.
Qed.

Lemma qtrunc_inject z q : Qeq (inject_Z z) q -> qtrunc q = z.
Proof.
  unfold Qeq, qtrunc. simpl. intro H. rewrite Z.mul_1_r in H. rewrite <- H.
  apply Z.quot_mul. discriminate.
Qed.

Section WithHash.
  Variable hs : list Z -> Z.

  Lemma xcmp_eq_of_equal x y : is_equal (xcmp x y) = true -> xcmp x y = OEq.
  Proof. pose proof (xcmp_ordered x y). destruct (xcmp x y); try discriminate; reflexivity. Qed.

  Lemma atom_hash_eq a b : is_equal (atom_cmp3 a b) = true -> hash_atom hs a = hash_atom hs b.
  Proof.
    intro H. destruct (is_num a) eqn:Na.
    - destruct (is_num b) eqn:Nb; [|rewrite (atom_cmp3_nonnum_r a b Na Nb) in H; discriminate].
      destruct (num_of_some a Na) as [x Hx]. destruct (num_of_some b Nb) as [y Hy].
      rewrite (atom_cmp3_num a b x y Hx Hy) in H. apply xcmp_eq_of_equal in H.
      destruct a as [| |z|f| | | | | |]; try discriminate; destruct b as [| |z'|f'| | | | | |]; try discriminate.
      + simpl in Hx, Hy. inversion Hx; inversion Hy; subst. simpl in H.
        rewrite Qcompare_inject in H. apply ord_of_eq in H. apply Z.compare_eq in H. subst. reflexivity.
      + rewrite num_of_float in Hy. simpl in Hx. inversion Hx; inversion Hy; subst.
        destruct f' as [|[]|n m e]; simpl in H; try discriminate.
        apply ord_of_eq in H. apply Qeq_alt in H. simpl. f_equal. symmetry. apply qtrunc_inject, H.
      + rewrite num_of_float in Hx. simpl in Hy. inversion Hx; inversion Hy; subst.
        destruct f as [|[]|n m e]; simpl in H; try discriminate.
        apply ord_of_eq in H. apply Qeq_alt in H. simpl. f_equal. apply qtrunc_inject. symmetry. exact H.
      + rewrite num_of_float in Hx, Hy. inversion Hx; inversion Hy; subst.
        destruct f as [|[]|n m e], f' as [|[]|n' m' e']; simpl in H; try discriminate; try reflexivity.
        apply ord_of_eq in H. apply Qeq_alt in H. simpl. f_equal. apply qtrunc_Qeq, H.
    - apply atom_cmp3_equal_nonnum in H; [|exact Na]. subst. reflexivity.
  Qed.

  Lemma seq_hash_eq c l : forall m,
    (forall x y, In x l -> In y m -> oequal (c x y) = true -> hash hs x = hash hs y) ->
    oequal (seq3 c l m) = true -> map (hash hs) l = map (hash hs) m.
  Proof.
    induction l as [|x l IH]; intros [|y m] H E; simpl in E; try discriminate; [reflexivity|].
    destruct (c x y) as [o|] eqn:C; [|discriminate].
    assert (Q : is_equal o = true /\ oequal (seq3 c l m) = true).
    { destruct o; simpl in E; try discriminate; split; try reflexivity; exact E. }
    destruct Q as [Q1 Q2]. simpl. f_equal.
    - apply H; try (left; reflexivity). rewrite C. exact Q1.
    - apply IH; [|exact Q2]. intros a b Ha Hb. apply H; right; assumption.
  Qed.

  Definition hfield (nv : list Z * value) : list Z * option Z := match nv with (n, x) => (n, hash hs x) end.

  Lemma fields_hash_eq c f : forall g,
    (forall nx my, In nx f -> In my g -> oequal (c (snd nx) (snd my)) = true -> hash hs (snd nx) = hash hs (snd my)) ->
    oequal (fields3 c f g) = true -> map hfield f = map hfield g.
  Proof.
    induction f as [|[n x] f IH]; intros [|[m y] g] H E; simpl in E; try discriminate; [reflexivity|].
    destruct (bytes_eqb n m) eqn:B; simpl in E; [|discriminate].
    apply bytes_eqb_eq in B. subst m.
    destruct (c x y) as [o|] eqn:C; [|discriminate].
    destruct (is_equal o) eqn:Q; [|discriminate].
    simpl. f_equal.
    - f_equal. apply (H (n, x) (n, y)); try (left; reflexivity). simpl. rewrite C. exact Q.
    - apply IH; [|exact E]. intros a b Ha Hb. apply H; right; assumption.
  Qed.

  Lemma hash_tuple l : hash hs (VTuple l) = tuple_hash (map (hash hs) l).
  Proof. reflexivity. Qed.
  Lemma hash_struct c f : hash hs (VStruct c f) = struct_hash_loop hs (map hfield f) 8731 9839.
  Proof. reflexivity. Qed.

  (* x == y  ->  hash x = hash y (both unhashable, or the same number) *)
  Lemma hash_eq : forall d x y, fits d x = true -> fits d y = true ->
    oequal (cmp3 d x y) = true -> hash hs x = hash hs y.
  Proof.
    induction d as [|d IH]; intros x y Fx Fy E; [discriminate|].
    destruct x as [a|l|l|s1 st1 n1|c f|kv|ks]; try discriminate;
      destruct y as [b|m|m|s2 st2 n2|c' g|kv'|ks']; try discriminate; try (simpl in E; discriminate);
      try reflexivity; cbn [cmp3 fits] in *.
    - simpl. f_equal. apply atom_hash_eq, E.
    - rewrite !hash_tuple. f_equal. apply (seq_hash_eq (cmp3 d)); [|exact E].
      intros x y Hx Hy. apply IH; [apply (forallb_In _ _ _ Fx Hx)|apply (forallb_In _ _ _ Fy Hy)].
    - rewrite !hash_struct. f_equal.
      destruct (negb (Nat.eqb (length f) (length g))); [discriminate|].
      destruct (is_equal (atom_cmp3 c c')); [|discriminate].
      apply (fields_hash_eq (cmp3 d)); [|exact E].
      intros [n x] [m y] Hx Hy. simpl. apply IH; [apply (forallb_In _ _ _ Fx Hx)|apply (forallb_In _ _ _ Fy Hy)].
  Qed.

  (* ---------- more depth never changes an answer ---------- *)
  Definition mono (c1 c2 : tok -> value -> value -> res bool) : Prop :=
    forall op x y b, c1 op x y = Ok b -> c2 op x y = Ok b.

  Lemma slice_loop_mono c1 c2 op l : mono c1 c2 -> forall m b,
    slice_loop c1 op l m = Ok b -> slice_loop c2 op l m = Ok b.
  Proof.
    intros M. induction l as [|x l IH]; intros [|y m] b H; simpl in *; try exact H.
    destruct (c1 EQL x y) as [[|]| |] eqn:E; try discriminate.
    - rewrite (M _ _ _ _ E). apply IH, H.
    - rewrite (M _ _ _ _ E). destruct op; try exact H; apply M, H.
  Qed.

  Lemma slice_compare_mono c1 c2 op l m b : mono c1 c2 ->
    slice_compare c1 op l m = Ok b -> slice_compare c2 op l m = Ok b.
  Proof.
    intros M. unfold slice_compare. destruct (negb (Nat.eqb (length l) (length m)) && is_eqop op); [exact (fun H => H)|].
    apply slice_loop_mono, M.
  Qed.

  Lemma entries_mono (e1 e2 : value -> value -> res bool) f :
    (forall x y b, e1 x y = Ok b -> e2 x y = Ok b) -> forall g b,
    entries_equal e1 f g = Ok b -> entries_equal e2 f g = Ok b.
  Proof.
    intros M. induction f as [|[n x] f IH]; intros [|[m y] g] b H; simpl in *; try exact H.
    destruct (negb (bytes_eqb n m)); [exact H|].
    destruct (e1 x y) as [[|]| |] eqn:E; try discriminate.
    - rewrite (M _ _ _ E). apply IH, H.
    - rewrite (M _ _ _ E). exact H.
  Qed.

  Lemma dict_loop_mono (e1 e2 : value -> value -> res bool) xs y :
    (forall x y b, e1 x y = Ok b -> e2 x y = Ok b) -> forall b,
    dict_loop hs e1 xs y = Ok b -> dict_loop hs e2 xs y = Ok b.
  Proof.
    intros M. induction xs as [|[k xv] xs IH]; intros b H; simpl in *; try exact H.
    destruct (dict_get hs y k) as [yv|]; [|exact H].
    destruct (e1 xv yv) as [[|]| |] eqn:E; try discriminate.
    - rewrite (M _ _ _ E). apply IH, H.
    - rewrite (M _ _ _ E). exact H.
  Qed.

  Lemma eq_only_mono op r1 r2 b : (forall b, r1 = Ok b -> r2 = Ok b) -> eq_only op r1 = Ok b -> eq_only op r2 = Ok b.
  Proof.
    intros M H. destruct op; simpl in *; try discriminate.
    - apply M, H.
    - destruct r1 as [b1| |]; try discriminate. rewrite (M b1 eq_refl). exact H.
  Qed.

  Lemma compare_depth_mono : forall d op x y b,
    compare_depth hs d op x y = Ok b -> compare_depth hs (S d) op x y = Ok b.
  Proof.
    induction d as [|d IH]; intros op x y b H; [discriminate|].
    assert (M : mono (compare_depth hs d) (compare_depth hs (S d))) by (intros o a c r; apply IH).
    assert (ME : forall x y b, compare_depth hs d EQL x y = Ok b -> compare_depth hs (S d) EQL x y = Ok b) by (intros a c r; apply IH).
    destruct x as [a|l|l|s1 st1 n1|c f|kv|ks]; destruct y as [a'|m|m|s2 st2 n2|c' g|kv'|ks']; try exact H.
    - cbn [compare_depth] in *. eapply slice_compare_mono; eassumption.
    - cbn [compare_depth] in *. eapply slice_compare_mono; eassumption.
    - cbn [compare_depth] in *. revert H. apply eq_only_mono. intros r.
      destruct (negb (Nat.eqb (length f) (length g))); [exact (fun H => H)|].
      destruct (atom_compare EQL c c') as [[|]| |]; try exact (fun H => H).
      apply entries_mono, ME.
    - cbn [compare_depth] in *. revert H. apply eq_only_mono. intros r.
      destruct (negb (Nat.eqb (length kv) (length kv'))); [exact (fun H => H)|].
      apply dict_loop_mono, ME.
  Qed.

  Lemma compare_depth_mono_le d D op x y b : (d <= D)%nat ->
    compare_depth hs d op x y = Ok b -> compare_depth hs D op x y = Ok b.
  Proof.
    intros L H. induction L as [|D L IH]; [exact H|]. apply compare_depth_mono, IH.
  Qed.
End WithHash.
