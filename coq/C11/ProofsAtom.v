(* C11 -- lemmas on atoms: the model's atom comparison is the specified
   three-way comparison; laws of the three-way comparison on atoms. *)
From Coq Require Import ZArith QArith Bool List Lia.
From SV Require Import C11.Model C11.Spec.
Import ListNotations.
Open Scope Z_scope.

Definition zofo (o : ord) : Z := match o with OLt => -1 | OGt => 1 | _ => 0 end.

Lemma threeway_interp op o : is_ordered o = true -> Ok (threeway op (zofo o)) = interp op o.
Proof. destruct o, op; simpl; try discriminate; reflexivity. Qed.

Lemma ord_of_ordered c : is_ordered (ord_of c) = true.
Proof. destruct c; reflexivity. Qed.

Lemma zcmp_ord a b : zcmp a b = zofo (ord_of (a ?= b)).
Proof. unfold zcmp. destruct (a ?= b); reflexivity. Qed.

Lemma qcmp_ord p q : qcmp p q = zofo (ord_of (Qcompare p q)).
Proof. unfold qcmp. destruct (Qcompare p q); reflexivity. Qed.

Lemma Qcompare_inject a b : Qcompare (inject_Z a) (inject_Z b) = (a ?= b).
Proof. unfold Qcompare. simpl. rewrite !Z.mul_1_r. reflexivity. Qed.

Definition xof (f : flt) : xnum :=
  match f with FNaN => XNaN | FInf n => XInf n | FFin _ m e => XQ (fq m e) end.

Lemma num_of_float f : num_of (AFloat f) = Some (xof f).
Proof. destruct f; reflexivity. Qed.

Lemma xcmp_ordered a b : is_ordered (xcmp a b) = true.
Proof. destruct a as [|[]|p], b as [|[]|q]; simpl; try reflexivity. apply ord_of_ordered. Qed.

Lemma Qcompare_refl p : Qcompare p p = Eq.
Proof. apply Qeq_alt. reflexivity. Qed.

Lemma float_cmp_spec x y : float_cmp x y = zofo (xcmp (xof x) (xof y)).
Proof.
  destruct x as [|[]|nx m e], y as [|[]|ny m' e']; try reflexivity.
  - unfold float_cmp, f_lt, f_eq. rewrite Qcompare_refl. reflexivity.
  - unfold float_cmp, f_lt, f_eq. rewrite Qcompare_refl. reflexivity.
  - unfold float_cmp, f_lt, f_eq, xcmp, xof.
    rewrite <- (Qcompare_antisym (fq m e) (fq m' e')).
    destruct (Qcompare (fq m e) (fq m' e')); reflexivity.
Qed.

Lemma int_float_cmp_spec a f : int_float_cmp a f = zofo (xcmp (XQ (inject_Z a)) (xof f)).
Proof. destruct f as [|[]|n m e]; try reflexivity. simpl. apply qcmp_ord. Qed.

Lemma float_int_cmp_spec f a : float_int_cmp f a = zofo (xcmp (xof f) (XQ (inject_Z a))).
Proof. destruct f as [|[]|n m e]; try reflexivity. simpl. apply qcmp_ord. Qed.

Lemma lex_cmp_spec a : forall b, lex_cmp a b = zofo (lex3 a b) /\ is_ordered (lex3 a b) = true.
Proof.
  induction a as [|x a IH]; intros [|y b]; simpl; try (split; reflexivity).
  destruct (Z.compare_spec x y) as [E|L|G].
  - subst. rewrite Z.ltb_irrefl. apply IH.
  - apply Z.ltb_lt in L. rewrite L. split; reflexivity.
  - assert (H1 : (x <? y) = false) by (apply Z.ltb_ge; lia).
    assert (H2 : (y <? x) = true) by (apply Z.ltb_lt; lia).
    rewrite H1, H2. split; reflexivity.
Qed.

Lemma b2i_cmp a b : b2i a - b2i b = zofo (ord_of (b2i a ?= b2i b)).
Proof. destruct a, b; reflexivity. Qed.

Lemma identity_interp op b : identity_cmp op b = interp op (same_or_un b).
Proof. destruct op, b; reflexivity. Qed.

Lemma mismatch_interp op : mismatch op = interp op OUn.
Proof. destruct op; reflexivity. Qed.

(* the model's comparison of atoms is the specified one, for every operator *)
Lemma atom_compare_spec op a b : atom_compare op a b = interp op (atom_cmp3 a b).
Proof.
  destruct a as [|x|x|x|x|x|i n|i n r|x|x], b as [|y|y|y|y|y|j m|j m s|y|y];
    unfold atom_compare, atom_cmp3;
    try rewrite !num_of_float; cbn [num_of];
    try apply mismatch_interp.
  - destruct op; reflexivity.
  - rewrite b2i_cmp. apply threeway_interp, ord_of_ordered.
  - unfold xcmp. rewrite Qcompare_inject, zcmp_ord. apply threeway_interp, ord_of_ordered.
  - rewrite int_float_cmp_spec. apply threeway_interp, xcmp_ordered.
  - rewrite float_int_cmp_spec. apply threeway_interp, xcmp_ordered.
  - rewrite float_cmp_spec. apply threeway_interp, xcmp_ordered.
  - destruct (lex_cmp_spec x y) as [E O]. rewrite E. apply threeway_interp, O.
  - destruct (lex_cmp_spec x y) as [E O]. rewrite E. apply threeway_interp, O.
  - apply identity_interp.
  - apply identity_interp.
  - rewrite zcmp_ord. apply threeway_interp, ord_of_ordered.
  - rewrite zcmp_ord. apply threeway_interp, ord_of_ordered.
Qed.

(* ---------- laws of the three-way comparison on atoms ---------- *)

Lemma bytes_eqb_eq a : forall b, bytes_eqb a b = true <-> a = b.
Proof.
  induction a as [|x a IH]; intros [|y b]; simpl; split; intro H; try discriminate; try reflexivity.
  - apply andb_true_iff in H. destruct H as [H1 H2]. apply Z.eqb_eq in H1. apply IH in H2. congruence.
  - inversion H; subst. rewrite Z.eqb_refl. simpl. apply IH. reflexivity.
Qed.

Lemma bytes_eqb_refl a : bytes_eqb a a = true.
Proof. apply bytes_eqb_eq. reflexivity. Qed.

Lemma bytes_eqb_sym a b : bytes_eqb a b = bytes_eqb b a.
Proof.
  destruct (bytes_eqb a b) eqn:E.
  - apply bytes_eqb_eq in E. subst. symmetry. apply bytes_eqb_refl.
  - destruct (bytes_eqb b a) eqn:F; [|reflexivity].
    apply bytes_eqb_eq in F. subst. rewrite bytes_eqb_refl in E. discriminate.
Qed.

Lemma lex3_refl a : lex3 a a = OEq.
Proof. induction a as [|x a IH]; simpl; [reflexivity|]. rewrite Z.compare_refl. exact IH. Qed.

Lemma lex3_flip a : forall b, lex3 b a = flip (lex3 a b).
Proof.
  induction a as [|x a IH]; intros [|y b]; simpl; try reflexivity.
  rewrite (Z.compare_antisym x y). destruct (x ?= y); simpl; try reflexivity. apply IH.
Qed.

Lemma lex3_eq a : forall b, lex3 a b = OEq -> a = b.
Proof.
  induction a as [|x a IH]; intros [|y b]; simpl; intro H; try discriminate; try reflexivity.
  destruct (Z.compare_spec x y); try discriminate. subst. f_equal. apply IH, H.
Qed.

Lemma lex3_not_un a : forall b, is_ordered (lex3 a b) = true.
Proof. intro b. apply lex_cmp_spec. Qed.

Lemma lex3_lt_trans a : forall b c, lex3 a b = OLt -> lex3 b c = OLt -> lex3 a c = OLt.
Proof.
  induction a as [|x a IH]; intros [|y b] [|z c]; simpl; intros H1 H2; try discriminate; try reflexivity.
  destruct (Z.compare_spec x y) as [E|L|G]; try discriminate.
  - subst y. destruct (Z.compare_spec x z) as [E2|L2|G2]; try discriminate; try reflexivity.
    eapply IH; eassumption.
  - destruct (Z.compare_spec y z) as [E2|L2|G2]; try discriminate.
    + subst z. destruct (Z.compare_spec x y); try lia. reflexivity.
    + destruct (Z.compare_spec x z); try lia. reflexivity.
Qed.

(* xnum: laws through Qcompare *)
Lemma xcmp_refl a : xcmp a a = OEq.
Proof.
  destruct a as [|[]|p]; simpl; try reflexivity.
  assert (E : Qcompare p p = Eq) by (apply Qeq_alt; reflexivity). rewrite E. reflexivity.
Qed.

Lemma xcmp_flip a b : xcmp b a = flip (xcmp a b).
Proof.
  destruct a as [|[]|p], b as [|[]|q]; simpl; try reflexivity.
  rewrite <- (Qcompare_antisym p q). destruct (Qcompare p q); reflexivity.
Qed.

Lemma ord_of_eq c : ord_of c = OEq -> c = Eq.
Proof. destruct c; simpl; congruence. Qed.
Lemma ord_of_lt c : ord_of c = OLt -> c = Lt.
Proof. destruct c; simpl; congruence. Qed.

Lemma xcmp_eq_congr a b c : xcmp a b = OEq -> xcmp a c = xcmp b c.
Proof.
  destruct a as [|[]|p], b as [|[]|q]; simpl; intro H; try discriminate; try reflexivity.
  apply ord_of_eq in H. apply Qeq_alt in H.
  destruct c as [|[]|r]; simpl; try reflexivity.
  rewrite H. reflexivity.
Qed.

Lemma xcmp_lt_trans a b c : xcmp a b = OLt -> xcmp b c = OLt -> xcmp a c = OLt.
Proof.
  destruct a as [|[]|p], b as [|[]|q], c as [|[]|r]; simpl; intros H1 H2; try discriminate; try reflexivity.
  apply ord_of_lt in H1. apply ord_of_lt in H2.
  apply Qlt_alt in H1. apply Qlt_alt in H2.
  assert (H : Qcompare p r = Lt) by (apply Qlt_alt; eapply Qlt_trans; eassumption).
  rewrite H. reflexivity.
Qed.

Definition is_num (a : atom) : bool := match a with AInt _ | AFloat _ => true | _ => false end.

Lemma num_of_some a : is_num a = true -> exists x, num_of a = Some x.
Proof. destruct a as [| | |f| | | | | |]; try discriminate; intros _; [eexists; reflexivity|]. rewrite num_of_float. eexists; reflexivity. Qed.

Lemma num_of_none a : is_num a = false -> num_of a = None.
Proof. destruct a; try discriminate; reflexivity. Qed.

(* a non-number compared with anything: the result does not involve num_of *)
Lemma atom_cmp3_nonnum_l a b : is_num a = false -> is_num b = true -> atom_cmp3 a b = OUn.
Proof.
  intros Ha Hb. unfold atom_cmp3. rewrite (num_of_none a Ha).
  destruct a; try discriminate; destruct b; try discriminate; reflexivity.
Qed.
Lemma atom_cmp3_nonnum_r a b : is_num a = true -> is_num b = false -> atom_cmp3 a b = OUn.
Proof.
  intros Ha Hb. unfold atom_cmp3. rewrite (num_of_none b Hb).
  destruct (num_of a); destruct a; try discriminate; destruct b; try discriminate; reflexivity.
Qed.

Lemma atom_cmp3_num a b x y : num_of a = Some x -> num_of b = Some y -> atom_cmp3 a b = xcmp x y.
Proof. intros Ha Hb. unfold atom_cmp3. rewrite Ha, Hb. reflexivity. Qed.

Lemma bool_cmp_refl (x : bool) : ord_of (b2i x ?= b2i x) = OEq.
Proof. rewrite Z.compare_refl. reflexivity. Qed.

Lemma atom_cmp3_refl a : is_equal (atom_cmp3 a a) = true.
Proof.
  destruct (is_num a) eqn:N.
  - destruct (num_of_some a N) as [x Hx]. rewrite (atom_cmp3_num a a x x Hx Hx), xcmp_refl. reflexivity.
  - unfold atom_cmp3. rewrite (num_of_none a N).
    destruct a; try discriminate; simpl; try reflexivity;
      try (rewrite Z.compare_refl; reflexivity);
      try (rewrite lex3_refl; reflexivity);
      try (rewrite Z.eqb_refl, bytes_eqb_refl; simpl; try rewrite eqb_reflx; reflexivity).
Qed.

Lemma atom_cmp3_flip a b : atom_cmp3 b a = flip (atom_cmp3 a b).
Proof.
  destruct (is_num a) eqn:Na; destruct (is_num b) eqn:Nb.
  - destruct (num_of_some a Na) as [x Hx]. destruct (num_of_some b Nb) as [y Hy].
    rewrite (atom_cmp3_num a b x y Hx Hy), (atom_cmp3_num b a y x Hy Hx). apply xcmp_flip.
  - rewrite (atom_cmp3_nonnum_r a b Na Nb), (atom_cmp3_nonnum_l b a Nb Na). reflexivity.
  - rewrite (atom_cmp3_nonnum_l a b Na Nb), (atom_cmp3_nonnum_r b a Nb Na). reflexivity.
  - unfold atom_cmp3. rewrite (num_of_none a Na); try rewrite (num_of_none b Nb).
    destruct a; try discriminate; destruct b; try discriminate; simpl; try reflexivity.
    + destruct b0, b; reflexivity.
    + apply lex3_flip.
    + apply lex3_flip.
    + rewrite (Z.eqb_sym id0 id), (bytes_eqb_sym name0 name). destruct ((id =? id0) && bytes_eqb name name0); reflexivity.
    + rewrite (Z.eqb_sym id0 id), (bytes_eqb_sym name0 name).
      assert (E : Bool.eqb recv0 recv = Bool.eqb recv recv0) by (destruct recv, recv0; reflexivity).
      rewrite E. destruct ((id =? id0) && bytes_eqb name name0 && Bool.eqb recv recv0); reflexivity.
    + rewrite (Z.compare_antisym ns ns0). destruct (ns ?= ns0); reflexivity.
    + rewrite (Z.compare_antisym ns ns0). destruct (ns ?= ns0); reflexivity.
Qed.

(* equal non-numbers are the same atom (numbers: 1 == 1.0 are different atoms) *)
Lemma atom_cmp3_equal_nonnum a b : is_num a = false -> is_equal (atom_cmp3 a b) = true -> a = b.
Proof.
  intros Na H.
  destruct (is_num b) eqn:Nb.
  - rewrite (atom_cmp3_nonnum_l a b Na Nb) in H. discriminate.
  - unfold atom_cmp3 in H. rewrite (num_of_none a Na) in H; try rewrite (num_of_none b Nb) in H.
    destruct a; try discriminate; destruct b; try discriminate; simpl in H; try reflexivity.
    + destruct b0, b; try discriminate; reflexivity.
    + f_equal. apply lex3_eq. pose proof (lex3_not_un s s0) as O. destruct (lex3 s s0); try discriminate; reflexivity.
    + f_equal. apply lex3_eq. pose proof (lex3_not_un s s0) as O. destruct (lex3 s s0); try discriminate; reflexivity.
    + destruct ((id =? id0) && bytes_eqb name name0) eqn:E; try discriminate.
      apply andb_true_iff in E. destruct E as [E1 E2]. apply Z.eqb_eq in E1. apply bytes_eqb_eq in E2. congruence.
    + destruct ((id =? id0) && bytes_eqb name name0 && Bool.eqb recv recv0) eqn:E; try discriminate.
      apply andb_true_iff in E. destruct E as [E E3]. apply andb_true_iff in E. destruct E as [E1 E2].
      apply Z.eqb_eq in E1. apply bytes_eqb_eq in E2. apply eqb_prop in E3. congruence.
    + destruct (Z.compare_spec ns ns0); try discriminate. congruence.
    + destruct (Z.compare_spec ns ns0); try discriminate. congruence.
Qed.

Lemma atom_cmp3_eq_congr a b c : is_equal (atom_cmp3 a b) = true -> atom_cmp3 a c = atom_cmp3 b c.
Proof.
  intro H. destruct (is_num a) eqn:Na.
  - destruct (is_num b) eqn:Nb.
    + destruct (num_of_some a Na) as [x Hx]. destruct (num_of_some b Nb) as [y Hy].
      rewrite (atom_cmp3_num a b x y Hx Hy) in H.
      assert (E : xcmp x y = OEq).
      { pose proof (xcmp_ordered x y) as O. destruct (xcmp x y); try discriminate; reflexivity. }
      destruct (is_num c) eqn:Nc.
      * destruct (num_of_some c Nc) as [z Hz].
        rewrite (atom_cmp3_num a c x z Hx Hz), (atom_cmp3_num b c y z Hy Hz). apply xcmp_eq_congr, E.
      * rewrite (atom_cmp3_nonnum_r a c Na Nc), (atom_cmp3_nonnum_r b c Nb Nc). reflexivity.
    + rewrite (atom_cmp3_nonnum_r a b Na Nb) in H. discriminate.
  - apply atom_cmp3_equal_nonnum in H; [|exact Na]. subst. reflexivity.
Qed.

Lemma atom_cmp3_lt_trans a b c : atom_cmp3 a b = OLt -> atom_cmp3 b c = OLt -> atom_cmp3 a c = OLt.
Proof.
  intros H1 H2.
  destruct (is_num a) eqn:Na; destruct (is_num b) eqn:Nb;
    try (rewrite (atom_cmp3_nonnum_r a b Na Nb) in H1; discriminate);
    try (rewrite (atom_cmp3_nonnum_l a b Na Nb) in H1; discriminate).
  - destruct (is_num c) eqn:Nc; [|rewrite (atom_cmp3_nonnum_r b c Nb Nc) in H2; discriminate].
    destruct (num_of_some a Na) as [x Hx]. destruct (num_of_some b Nb) as [y Hy]. destruct (num_of_some c Nc) as [z Hz].
    rewrite (atom_cmp3_num _ _ _ _ Hx Hy) in H1. rewrite (atom_cmp3_num _ _ _ _ Hy Hz) in H2.
    rewrite (atom_cmp3_num _ _ _ _ Hx Hz). eapply xcmp_lt_trans; eassumption.
  - destruct (is_num c) eqn:Nc; [rewrite (atom_cmp3_nonnum_l b c Nb Nc) in H2; discriminate|].
    unfold atom_cmp3 in *. rewrite (num_of_none a Na) in H1; try rewrite (num_of_none b Nb) in H1.
    rewrite (num_of_none b Nb) in H2; try rewrite (num_of_none c Nc) in H2. rewrite (num_of_none a Na); try rewrite (num_of_none c Nc).
    destruct a; try discriminate; destruct b; try discriminate; destruct c; try discriminate; simpl in *.
    + destruct b0, b, b1; try discriminate; reflexivity.
    + eapply lex3_lt_trans; eassumption.
    + eapply lex3_lt_trans; eassumption.
    + destruct ((id =? id0) && bytes_eqb name name0); discriminate.
    + destruct ((id =? id0) && bytes_eqb name name0 && Bool.eqb recv recv0); discriminate.
    + destruct (Z.compare_spec ns ns0); try discriminate. destruct (Z.compare_spec ns0 ns1); try discriminate.
      destruct (Z.compare_spec ns ns1); try lia; reflexivity.
    + destruct (Z.compare_spec ns ns0); try discriminate. destruct (Z.compare_spec ns0 ns1); try discriminate.
      destruct (Z.compare_spec ns ns1); try lia; reflexivity.
Qed.
