(* C11 -- association lists whose keys are pairwise non-equivalent w.r.t. a boolean
   relation that is an equivalence on a carrier P: lookup is invariant under
   equivalent keys, finds THE entry, and mutual inclusion follows from one-sided
   inclusion plus equal sizes (pigeonhole modulo the equivalence). *)
From Coq Require Import Bool List Lia Permutation.
From SV Require Import C11.Model C11.ModelColl.
Import ListNotations.

Section Keys.
  Variables (K : Type) (ke : K -> K -> bool) (P : K -> Prop).
  Hypothesis ke_refl : forall x, P x -> ke x x = true.
  Hypothesis ke_sym : forall x y, P x -> P y -> ke x y = ke y x.
  Hypothesis ke_trans : forall x y z, P x -> P y -> P z -> ke x y = true -> ke y z = true -> ke x z = true.

  Lemma ke_congr_l x y z : P x -> P y -> P z -> ke x y = true -> ke x z = ke y z.
  Proof.
    intros Px Py Pz H. destruct (ke y z) eqn:E.
    - apply (ke_trans x y z); assumption.
    - destruct (ke x z) eqn:F; [|reflexivity].
      rewrite <- E. symmetry. apply (ke_trans y x z); try assumption. rewrite ke_sym; assumption.
  Qed.

  (* ---- nodup_by ---- *)
  Lemma nodup_app_remove l1 y l2 : nodup_by ke (l1 ++ y :: l2) = true -> nodup_by ke (l1 ++ l2) = true.
  Proof.
    induction l1 as [|a l1 IH]; simpl; intro H.
    - apply andb_true_iff in H. apply H.
    - apply andb_true_iff in H. destruct H as [H1 H2]. apply andb_true_iff. split; [|apply IH, H2].
      rewrite forallb_app in *. apply andb_true_iff in H1. destruct H1 as [A B]. simpl in B.
      apply andb_true_iff in B. destruct B as [_ B]. rewrite A, B. reflexivity.
  Qed.

  Lemma nodup_head_neq a l x : nodup_by ke (a :: l) = true -> In x l -> ke a x = false.
  Proof.
    simpl. intros H I. apply andb_true_iff in H. destruct H as [H _].
    rewrite forallb_forall in H. apply negb_true_iff, H, I.
  Qed.

  Lemma nodup_perm l l' : Permutation l l' -> Forall P l -> nodup_by ke l = true -> nodup_by ke l' = true.
  Proof.
    induction 1 as [|a l l' Hp IH|a b l|l l' l'' H1 IH1 H2 IH2]; intros F H.
    - reflexivity.
    - simpl in *. apply andb_true_iff in H. destruct H as [H1 H2]. inversion F; subst.
      apply andb_true_iff. split; [|apply IH; assumption].
      rewrite forallb_forall in *. intros x Hx. apply H1. eapply Permutation_in; [apply Permutation_sym, Hp|exact Hx].
    - simpl in *. inversion F as [|? ? Pb F']; subst. inversion F' as [|? ? Pa F'']; subst.
      apply andb_true_iff in H. destruct H as [H1 H2]. apply andb_true_iff in H1. destruct H1 as [H0 H1].
      apply andb_true_iff in H2. destruct H2 as [H2 H3].
      rewrite H1, H2, H3. rewrite (ke_sym a b) by assumption. rewrite H0. reflexivity.
    - apply IH2; [eapply Permutation_Forall; eassumption|]. apply IH1; assumption.
  Qed.

  (* ---- pigeonhole modulo ke ---- *)
  Lemma pigeon : forall l l', Forall P l -> Forall P l' -> nodup_by ke l = true -> nodup_by ke l' = true ->
    (forall x, In x l -> exists y, In y l' /\ ke x y = true) -> length l' <= length l ->
    forall y, In y l' -> exists x, In x l /\ ke x y = true.
  Proof.
    induction l as [|x l IH]; intros l' Fl Fl' N N' H L y Hy.
    - destruct l'; [destruct Hy|simpl in L; lia].
    - destruct (H x (or_introl eq_refl)) as [y0 [I0 E0]].
      destruct (in_split _ _ I0) as [l1 [l2 S]]. subst l'.
      inversion Fl as [|? ? Px Fl0]; subst.
      assert (Py0 : P y0) by (rewrite Forall_forall in Fl'; apply Fl', I0).
      assert (Fl'' : Forall P (l1 ++ l2)).
      { rewrite Forall_forall in *. intros z Hz. apply Fl'. apply in_app_or in Hz. apply in_or_app. destruct Hz; [left|right; right]; assumption. }
      assert (IH' : forall y, In y (l1 ++ l2) -> exists x, In x l /\ ke x y = true).
      { apply IH; try assumption.
        - simpl in N. apply andb_true_iff in N. apply N.
        - eapply nodup_app_remove; eassumption.
        - intros x' Hx'. destruct (H x' (or_intror Hx')) as [y' [I' E']].
          assert (Px' : P x') by (rewrite Forall_forall in Fl0; apply Fl0, Hx').
          exists y'. split; [|exact E'].
          apply in_app_or in I'. apply in_or_app. destruct I' as [I'|[I'|I']]; [left; exact I'| |right; exact I'].
          subst y'. exfalso.
          pose proof (nodup_head_neq x l x' N Hx') as C.
          rewrite (ke_trans x y0 x' Px Py0 Px' E0) in C; [discriminate|].
          rewrite ke_sym; assumption.
        - rewrite app_length in *. simpl in L. lia. }
      apply in_app_or in Hy. destruct Hy as [Hy|[Hy|Hy]].
      + destruct (IH' y) as [x' [A B]]; [apply in_or_app; left; exact Hy|]. exists x'. split; [right; exact A|exact B].
      + subst y. exists x. split; [left; reflexivity|exact E0].
      + destruct (IH' y) as [x' [A B]]; [apply in_or_app; right; exact Hy|]. exists x'. split; [right; exact A|exact B].
  Qed.

  (* injective modulo ke -> no longer *)
  Lemma pigeon_le : forall l l', Forall P l -> Forall P l' -> nodup_by ke l = true ->
    (forall x, In x l -> exists y, In y l' /\ ke x y = true) -> length l <= length l'.
  Proof.
    induction l as [|x l IH]; intros l' Fl Fl' N H; [simpl; lia|].
    destruct (H x (or_introl eq_refl)) as [y0 [I0 E0]].
    destruct (in_split _ _ I0) as [l1 [l2 S]]. subst l'.
    inversion Fl as [|? ? Px Fl0]; subst.
    assert (Py0 : P y0) by (rewrite Forall_forall in Fl'; apply Fl', I0).
    assert (L : length l <= length (l1 ++ l2)).
    { apply IH; try assumption.
      - rewrite Forall_forall in *. intros z Hz. apply Fl'. apply in_app_or in Hz. apply in_or_app. destruct Hz; [left|right; right]; assumption.
      - simpl in N. apply andb_true_iff in N. apply N.
      - intros x' Hx'. destruct (H x' (or_intror Hx')) as [y' [I' E']].
        assert (Px' : P x') by (rewrite Forall_forall in Fl0; apply Fl0, Hx').
        exists y'. split; [|exact E'].
        apply in_app_or in I'. apply in_or_app. destruct I' as [I'|[I'|I']]; [left; exact I'| |right; exact I'].
        subst y'. exfalso.
        pose proof (nodup_head_neq x l x' N Hx') as C.
        rewrite (ke_trans x y0 x' Px Py0 Px' E0) in C; [discriminate|].
        rewrite ke_sym; assumption. }
    rewrite app_length in *. simpl. lia.
  Qed.

  (* ---- lookup ---- *)
  Section Assoc.
    Variable A : Type.
    Definition kfind (kv : list (K * A)) (k : K) : option (K * A) := find (fun e => ke k (fst e)) kv.

    Definition keysP (kv : list (K * A)) : Prop := Forall P (map fst kv).

    Lemma keysP_in kv k v : keysP kv -> In (k, v) kv -> P k.
    Proof. unfold keysP. rewrite Forall_forall. intros F I. apply F. apply (in_map fst _ _ I). Qed.

    Lemma kfind_congr kv k k' : keysP kv -> P k -> P k' -> ke k k' = true -> kfind kv k = kfind kv k'.
    Proof.
      intros F Pk Pk' E. induction kv as [|[e v] kv IH]; [reflexivity|].
      unfold kfind in *. simpl. inversion F; subst.
      rewrite (ke_congr_l k k' e) by assumption. destruct (ke k' e); [reflexivity|]. apply IH. assumption.
    Qed.

    Lemma kfind_some kv k e v : kfind kv k = Some (e, v) -> In (e, v) kv /\ ke k e = true.
    Proof. intro H. apply find_some in H. exact H. Qed.

    Lemma kfind_none kv k : kfind kv k = None -> forall e v, In (e, v) kv -> ke k e = false.
    Proof. intros H e v I. apply (find_none _ _ H (e, v) I). Qed.

    (* with pairwise non-equivalent keys the entry found is THE entry with an equivalent key *)
    Lemma kfind_unique kv k e v : keysP kv -> nodup_by ke (map fst kv) = true -> P k ->
      In (e, v) kv -> ke k e = true -> kfind kv k = Some (e, v).
    Proof.
      intros F N Pk I E. induction kv as [|[e0 v0] kv IH]; [destruct I|].
      unfold kfind in *. simpl in *. inversion F as [|? ? Pe0 F0]; subst.
      destruct (ke k e0) eqn:E0.
      - destruct I as [I|I]; [rewrite I; reflexivity|]. exfalso.
        assert (Pe : P e) by (eapply keysP_in; eassumption).
        pose proof (nodup_head_neq e0 (map fst kv) e N (in_map fst _ _ I)) as C. simpl in C.
        rewrite (ke_trans e0 k e Pe0 Pk Pe) in C; [discriminate| |exact E].
        rewrite ke_sym; assumption.
      - destruct I as [I|I]; [inversion I; subst; rewrite E in E0; discriminate|].
        apply IH; try assumption. apply andb_true_iff in N. apply N.
    Qed.
  End Assoc.

  (* ---- inclusion of association lists, values related by R ---- *)
  Section Incl.
    Variables (A : Type) (R : A -> A -> Prop).

    Definition dincl (a b : list (K * A)) : Prop :=
      forall k v, In (k, v) a -> exists k' v', kfind A b k = Some (k', v') /\ R v v'.

    Definition wfk (a : list (K * A)) : Prop := keysP A a /\ nodup_by ke (map fst a) = true.

    Lemma dincl_keys a b : dincl a b -> forall x, In x (map fst a) -> exists y, In y (map fst b) /\ ke x y = true.
    Proof.
      intros D x Hx. apply in_map_iff in Hx. destruct Hx as [[k v] [E I]]. simpl in E. subst x.
      destruct (D k v I) as [k' [v' [Fd _]]]. apply kfind_some in Fd. destruct Fd as [I' E'].
      exists k'. split; [apply (in_map fst _ _ I')|exact E'].
    Qed.

    Lemma dincl_refl a : wfk a -> (forall k v, In (k, v) a -> R v v) -> dincl a a.
    Proof.
      intros [F N] Rr k v I. exists k, v. split; [|apply (Rr k v I)].
      apply kfind_unique; try assumption; [eapply keysP_in; eassumption|].
      apply ke_refl. eapply keysP_in; eassumption.
    Qed.

    Lemma dincl_sym a b : wfk a -> wfk b -> length a = length b ->
      (forall k v k' v', In (k, v) a -> In (k', v') b -> R v v' -> R v' v) ->
      dincl a b -> dincl b a.
    Proof.
      intros [Fa Na] [Fb Nb] L Rs D k' v' I'.
      assert (Pk' : P k') by (apply (keysP_in A b k' v' Fb I')).
      assert (LL : length (map fst b) <= length (map fst a)) by (rewrite !map_length; lia).
      destruct (pigeon (map fst a) (map fst b) Fa Fb Na Nb (dincl_keys a b D) LL k' (in_map fst _ _ I')) as [k [Ik Ek]].
      apply in_map_iff in Ik. destruct Ik as [[k0 v] [E I]]. simpl in E. subst k0.
      assert (Pk : P k) by (apply (keysP_in A a k v Fa I)).
      destruct (D k v I) as [k2 [v2 [Fd Rv]]].
      rewrite (kfind_unique A b k k' v' Fb Nb Pk I' Ek) in Fd. inversion Fd; subst k2 v2.
      exists k, v. split; [|eapply Rs; eassumption].
      apply kfind_unique; try assumption. rewrite ke_sym; assumption.
    Qed.

    Lemma dincl_trans a b c : keysP A a -> keysP A b -> keysP A c ->
      (forall k v k' v' k'' v'', In (k, v) a -> In (k', v') b -> In (k'', v'') c -> R v v' -> R v' v'' -> R v v'') ->
      dincl a b -> dincl b c -> dincl a c.
    Proof.
      intros Fa Fb Fc Rt D1 D2 k v I.
      destruct (D1 k v I) as [k' [v' [F1 R1]]]. apply kfind_some in F1. destruct F1 as [I' E'].
      destruct (D2 k' v' I') as [k'' [v'' [F2 R2]]].
      exists k'', v''. split.
      - rewrite (kfind_congr A c k k'); try assumption; [apply (keysP_in A a k v Fa I)|apply (keysP_in A b k' v' Fb I')].
      - apply kfind_some in F2. destruct F2 as [I'' _]. eapply Rt; eassumption.
    Qed.

    Lemma dincl_perm a a' : wfk a -> Permutation a a' -> (forall k v, In (k, v) a -> R v v) -> dincl a a'.
    Proof.
      intros [F N] Pm Rr k v I. exists k, v. split; [|apply (Rr k v I)].
      assert (Pk : P k) by (eapply keysP_in; eassumption).
      apply kfind_unique; try assumption.
      - unfold keysP. eapply Permutation_Forall; [apply Permutation_map, Pm|exact F].
      - eapply nodup_perm; [apply Permutation_map, Pm|exact F|exact N].
      - eapply Permutation_in; eassumption.
      - apply ke_refl, Pk.
    Qed.

    (* mutual inclusion forces equal sizes *)
    Lemma dincl_length a b : wfk a -> wfk b -> dincl a b -> dincl b a -> length a = length b.
    Proof.
      intros [Fa Na] [Fb Nb] D1 D2.
      pose proof (pigeon_le (map fst a) (map fst b) Fa Fb Na (dincl_keys a b D1)) as L1.
      pose proof (pigeon_le (map fst b) (map fst a) Fb Fa Nb (dincl_keys b a D2)) as L2.
      rewrite !map_length in *. lia.
    Qed.
  End Incl.
End Keys.
