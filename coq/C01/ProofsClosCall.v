(* C01 -- closures: simulation of calls (script of ProofsCompCall.v for the code generator of
   CompileClos.v).  Entering a function: the evaluator makes fresh variables, a cell for every boxed
   name, and appends the captured cells of the function value by NAME; the machine fills the locals
   array, spills the cell slots (fc_cells) and keeps the captured cells by POSITION
   (ProofsClosEnv.R3_entry, Rfv_call). *)
From Coq Require Import ZArith String List Bool Lia.
From SV Require Import C01.Syntax C01.Values C01.Ref C01.VM C01.Compile C01.Frag C01.ProofsVM C01.ProofsEnv
     C01.SimDefs C01.ProofsExpr C01.ProofsStmt C01.ProofsCall C01.ProofsCompFrag C01.ProofsCompEnv
     C01.CompileClos C01.VMClos C01.FragClos C01.ProofsClosEnv C01.ProofsClosBase C01.ProofsClosDefs.
Import ListNotations.
Open Scope string_scope.
Open Scope list_scope.
Open Scope nat_scope.

Section Call3.
  Variable p : program.
  Notation cp := (compile_prog3 p).
  Notation fn := (fname p).
  Hypothesis Hfuns : funs_ok3 p.

  Lemma Ca3_step : forall n, B3 p n -> Ca3 p (S n).
  Proof.
    intros n IHB.
    unfold Ca3; intros stk f args0 nm0 sa ss ps s fid C fv K pc σ L I Hstk Hf.
    unfold ref_call.
    assert (Hstep : step cp fn (S3 fid C fv K pc (optl ss ++ optl sa ++ rev (flatkw nm0) ++ rev args0 ++ f :: σ) L I s)
                    = of_pres (starstar_args ss (rw s)) ps (rw s) (fun kw2 =>
                      of_pres (star_args sa (rw s)) ps (rw s) (fun pos2 =>
                        call_value cp fn
                          {| fr_fid := fid; fr_code := C; fr_pc := pc;
                             fr_stack := optl ss ++ optl sa ++ rev (flatkw nm0) ++ rev args0 ++ f :: σ;
                             fr_locals := L; fr_iters := I; fr_free := fv |} K (rg s) (rw s) (S pc) σ ps f
                          (args0 ++ pos2) (nm0 ++ kw2)))).
    { unfold S3, St, Fr. rewrite (step_lit _ _ _ _ _ _ _ _ _ _ _ _ _ Hf). apply call_insn. }
    destruct (starstar_args ss (rw s)) as [kw2| |t] eqn:Ekw; cbn [lift sim].
    2: { apply halts_now. rewrite Hstep. reflexivity. }
    2: { apply halts_now. rewrite Hstep. reflexivity. }
    destruct (star_args sa (rw s)) as [pos2| |t] eqn:Epos; cbn [lift sim].
    2: { apply halts_now. rewrite Hstep. reflexivity. }
    2: { apply halts_now. rewrite Hstep. reflexivity. }
    cbn [of_pres] in Hstep.
    set (args := args0 ++ pos2) in *. set (nm := nm0 ++ kw2) in *.
    set (S0 := S3 fid C fv K pc (optl ss ++ optl sa ++ rev (flatkw nm0) ++ rev args0 ++ f :: σ) L I s) in *.
    simpl call.
    destruct f;
      try (cbn [sim]; apply halts_now; rewrite Hstep; reflexivity).
    - (* VFun *)
      pose proof (Hfuns fid0) as Hfid.
      destruct (find_def p fid0) as [[fd encl]|].
      2: { cbn [sim]. apply halts_now. rewrite Hstep. unfold call_value. rewrite Hfid. reflexivity. }
      destruct Hfid as [Hfd Hfc].
      (* recursion check *)
      assert (Hrec : existsb (Nat.eqb fid0) stk =
                     (match fid with Some i => Nat.eqb i fid0 | None => false end)
                     || existsb (fun fr => match fr_fid fr with Some i => Nat.eqb i fid0 | None => false end) K).
      { unfold stk_ok in Hstk. subst stk. rewrite existsb_app, existsb_fids.
        destruct fid; simpl; auto. rewrite Nat.eqb_sym, orb_false_r. reflexivity. }
      unfold ok_fundef3 in Hfd.
      apply andb_true_iff in Hfd. destruct Hfd as [Hfd Hfrok]. apply andb_true_iff in Hfd. destruct Hfd as [Hfd Hndfr].
      apply andb_true_iff in Hfd. destruct Hfd as [Hfd Hnd]. apply andb_true_iff in Hfd. destruct Hfd as [Hfd Hcm].
      apply andb_true_iff in Hfd. destruct Hfd as [Hbody Hlay].
      destruct (negb (o_recursion (p_opts p)) && existsb (Nat.eqb fid0) stk) eqn:Erec.
      { cbn [sim]. apply halts_now. rewrite Hstep. unfold call_value. rewrite Hfc, cp3_rec. cbn [existsb fr_fid].
        rewrite <- Hrec, Erec. reflexivity. }
      destruct (bind_args (fd_params fd) defaults args nm (rw s)) as [[params w1]| |t] eqn:Eb; cbn [lift_call sim].
      2: { apply halts_now. rewrite Hstep. unfold call_value. rewrite Hfc, cp3_rec. cbn [existsb fr_fid].
           rewrite <- Hrec, Erec, cf3_params, Eb. reflexivity. }
      2: { apply halts_now. rewrite Hstep. unfold call_value. rewrite Hfc, cp3_rec. cbn [existsb fr_fid].
           rewrite <- Hrec, Erec, cf3_params, Eb. reflexivity. }
      pose proof (bind_args_length _ _ _ _ _ _ _ Eb) as Hplen.
      set (fv' := filter (fun xc : string * nat => str_in (fst xc) (sc_fr (scope_of fd encl))) free).
      set (G := filter (fun xc : string * nat => str_in (fst xc) encl) free).
      set (caller := {| fr_fid := fid; fr_code := C; fr_pc := S pc; fr_stack := σ; fr_locals := L;
                        fr_iters := I; fr_free := fv |}).
      set (C' := gen_body3 p (scope_of fd encl) (fd_body fd)).
      (* the step of the machine: it pushes the callee's frame *)
      assert (Hnext : forall l1 w2',
                spill (sc_cells (scope_of fd encl)) (pad_init (length (sc_ls (scope_of fd encl))) (map Some params)) w1 = (l1, w2') ->
                step cp fn S0 = Next (S3 (Some fid0) C' fv' (caller :: K) 0 [] l1 [] (with_w s w2'))).
      { intros l1 w2' Esp. rewrite Hstep. unfold call_value. rewrite Hfc, cp3_rec. cbn [existsb fr_fid].
        rewrite <- Hrec, Erec, cf3_params, Eb, cf3_nlocals, cf3_cells, Esp. reflexivity. }
      assert (Hbad : forall l1 w2',
                bad_entry cp S0 (S3 (Some fid0) C' fv' (caller :: K) 0 [] l1 [] (with_w s w2'))
                = negb (strs_eqb (map fst fv') (sc_fr (scope_of fd encl)))).
      { intros l1 w2'. unfold bad_entry, S0, S3, St, Fr. cbn [vs_frames length fr_fid fr_free].
        rewrite Hfc, cf3_free.
        assert (Hlt : Nat.ltb (S (length K)) (S (S (length K))) = true) by (apply Nat.ltb_lt; lia).
        rewrite Hlt. reflexivity. }
      destruct (spill (sc_cells (scope_of fd encl)) (pad_init (length (sc_ls (scope_of fd encl))) (map Some params)) w1)
        as [l1 w2'] eqn:Esp.
      destruct (strs_eqb (map fst fv') (sc_fr (scope_of fd encl))) eqn:Ewf.
      2: { (* a function value with forged captured cells: the guarded machine stops *)
           specialize (Hnext l1 w2' eq_refl). specialize (Hbad l1 w2'). cbn [negb] in Hbad.
           match goal with |- sim p ?r _ _ =>
             destruct r as [a| | |]; cbn [sim]; auto;
               solve [ eapply forged_star; eauto | eapply forged_halts; eauto ] end. }
      pose proof Ewf as Ewfb. apply strs_eqb_eq in Ewf.
      apply nodup_str_ok in Hndfr.
      assert (HG : Rfv (scope_of fd encl) fv' G).
      { apply (Rfv_call (scope_of fd encl) free); auto.
        intros y Hy. rewrite forallb_forall in Hfrok. specialize (Hfrok y Hy).
        apply andb_true_iff in Hfrok. destruct Hfrok as [Hfrok _]. exact Hfrok. }
      destruct (R3_entry (locals_of fd) (scope_of fd encl) (boxed_names (fd_body fd)) params w1 _ fv' G Hlay Hplen Hcm Hnd HG)
        as [ρl [L0 [w2 [Hnv [Hsp HRl]]]]].
      rewrite Hsp in Esp. inversion Esp; subst l1 w2'. clear Esp.
      rewrite Hnv.
      match goal with |- context [exec_block p n (fid0 :: stk) ?ρ0 (fd_body fd) ?s0] => change ρ0 with (ρl ++ mapB G) end.
      (* the machine enters the callee *)
      assert (Henter : star cp fn S0
                         (S3 (Some fid0) C' fv' (caller :: K) 0 [] L0 [] (with_w s w2))).
      { eapply star_enter; [ apply Hnext; reflexivity | rewrite Hbad; reflexivity | apply star_refl ]. }
      assert (Hcode : pcode_at C' 0 (gen_block3 p (scope_of fd encl) (fd_body fd) ++ [NONE; RETURN]) None None).
      { apply pcode_finalize. }
      apply pcode_app in Hcode. destruct Hcode as [Hcb Hct]. pcode_split.
      assert (Hstk' : stk_ok (fid0 :: stk) (Some fid0) (caller :: K)).
      { unfold stk_ok in *. subst stk. simpl. reflexivity. }
      pose proof (IHB (fid0 :: stk) (locals_of fd) (scope_of fd encl) (ρl ++ mapB G) L0 (fd_body fd) (with_w s w2) (Some fid0) C' fv'
                      (caller :: K) 0 [] None None Hbody HRl Hstk' Hcb) as IH.
      destruct (exec_block p n (fid0 :: stk) (ρl ++ mapB G) (fd_body fd) (with_w s w2)) as [[[out ρ2] s2]| | |]; cbn [sim fst snd] in *; auto.
      + unfold after3 in IH.
        destruct out; cbn [sim fst snd].
        * destruct IH as (L' & _ & Ha). chain Henter. chain Ha. vstep. vstep. unfold caller. fin.
        * hstar Henter. exact IH.
        * hstar Henter. exact IH.
        * destruct IH as [pcr [Ix [wv [L' [H1 [H2 H3]]]]]].
          chain Henter. eapply star_trans; [ exact H1 | ].
          rewrite app_nil_r in *.
          norm_state. eapply star_step; [ rewrite (step_lit _ _ _ _ _ _ _ _ _ _ _ _ _ H2); simpl; rewrite H3; reflexivity | simpl; lia | ].
          unfold caller. fin.
      + hstar Henter. exact IH.
      + hstar Henter. exact IH.
    - (* VBuiltin *)
      destruct (call_builtin fn name None args nm (rw s)) as [[r w]| |t] eqn:Ec; cbn [lift sim fst snd].
      + eapply star_step; [ rewrite Hstep; unfold call_value; simpl; rewrite Ec; reflexivity
                          | unfold S0, S3, St, Fr; simpl; lia | apply star_refl ].
      + apply halts_now.
        rewrite Hstep. unfold call_value. simpl. rewrite Ec. reflexivity.
      + apply halts_now.
        rewrite Hstep. unfold call_value. simpl. rewrite Ec. reflexivity.
    - (* VMethod *)
      destruct (call_builtin fn name (Some f) args nm (rw s)) as [[r w]| |t] eqn:Ec; cbn [lift sim fst snd].
      + eapply star_step; [ rewrite Hstep; unfold call_value; simpl; rewrite Ec; reflexivity
                          | unfold S0, S3, St, Fr; simpl; lia | apply star_refl ].
      + apply halts_now.
        rewrite Hstep. unfold call_value. simpl. rewrite Ec. reflexivity.
      + apply halts_now.
        rewrite Hstep. unfold call_value. simpl. rewrite Ec. reflexivity.
  Qed.

  (* without fuel for the call itself, only the expansion of ** and * is observed *)
  Lemma Ca3_zero : Ca3 p 0.
  Proof.
    unfold Ca3; intros stk f args0 nm0 sa ss ps s fid C fv K pc σ L I Hstk Hf.
    unfold ref_call.
    assert (Hstep : step cp fn (S3 fid C fv K pc (optl ss ++ optl sa ++ rev (flatkw nm0) ++ rev args0 ++ f :: σ) L I s)
                    = of_pres (starstar_args ss (rw s)) ps (rw s) (fun kw2 =>
                      of_pres (star_args sa (rw s)) ps (rw s) (fun pos2 =>
                        call_value cp fn
                          {| fr_fid := fid; fr_code := C; fr_pc := pc;
                             fr_stack := optl ss ++ optl sa ++ rev (flatkw nm0) ++ rev args0 ++ f :: σ;
                             fr_locals := L; fr_iters := I; fr_free := fv |} K (rg s) (rw s) (S pc) σ ps f
                          (args0 ++ pos2) (nm0 ++ kw2)))).
    { unfold S3, St, Fr. rewrite (step_lit _ _ _ _ _ _ _ _ _ _ _ _ _ Hf). apply call_insn. }
    destruct (starstar_args ss (rw s)) as [kw2| |t] eqn:Ekw; cbn [lift sim].
    2: { apply halts_now. rewrite Hstep. reflexivity. }
    2: { apply halts_now. rewrite Hstep. reflexivity. }
    destruct (star_args sa (rw s)) as [pos2| |t] eqn:Epos; cbn [lift sim].
    2: { apply halts_now. rewrite Hstep. reflexivity. }
    2: { apply halts_now. rewrite Hstep. reflexivity. }
    simpl. exact Logic.I.
  Qed.
End Call3.
