(* C01 -- names to slots: the reference evaluator's environment of a function
   activation (association list in slot order) against the machine's locals array. *)
From Coq Require Import ZArith String List Bool Lia.
From SV Require Import C01.Syntax C01.Values C01.Ref C01.VM C01.Compile.
Import ListNotations.
Open Scope string_scope.
Open Scope list_scope.
Open Scope nat_scope.

Definition slot_val (s : slot) : option value := match s with Direct v => v | Boxed _ => None end.
Definition env_vals (ρ : env) : list (option value) := map (fun xs => slot_val (snd xs)) ρ.
Definition all_direct (ρ : env) : Prop := Forall (fun xs => exists v, snd xs = Direct v) ρ.

Lemma assoc_local : forall (ρ : env) x sl,
  all_direct ρ -> assoc x ρ = Some sl ->
  exists i ov, sl = Direct ov /\ index_of x (map fst ρ) = Some i /\ nth_error (env_vals ρ) i = Some ov.
Proof.
  induction ρ as [|[y s] ρ IH]; intros x sl Hd Ha; simpl in *; [discriminate|].
  inversion Hd as [|? ? [v Hv] Hd']; subst. simpl in Hv. subst s.
  destruct (String.eqb x y) eqn:E.
  - inversion Ha; subst. exists 0, v. auto.
  - destruct (IH x sl Hd' Ha) as [i [ov [H1 [H2 H3]]]].
    exists (S i), ov. rewrite H2. auto.
Qed.

Lemma assoc_none : forall (ρ : env) x, assoc x ρ = None -> index_of x (map fst ρ) = None.
Proof.
  induction ρ as [|[y s] ρ IH]; intros x Ha; simpl in *; auto.
  destruct (String.eqb x y); [discriminate|]. rewrite (IH x Ha). reflexivity.
Qed.

Lemma assoc_set_local : forall (ρ : env) x o v,
  all_direct ρ -> assoc x ρ = Some (Direct o) ->
  exists i, index_of x (map fst ρ) = Some i
    /\ env_vals (assoc_set x (Direct (Some v)) ρ) = upd_nth i (Some v) (env_vals ρ)
    /\ map fst (assoc_set x (Direct (Some v)) ρ) = map fst ρ
    /\ all_direct (assoc_set x (Direct (Some v)) ρ).
Proof.
  induction ρ as [|[y s] ρ IH]; intros x o v Hd Ha; simpl in *; [discriminate|].
  inversion Hd as [|? ? [v0 Hv] Hd']; subst. simpl in Hv. subst s.
  destruct (String.eqb x y) eqn:E.
  - exists 0. simpl. repeat split; auto. constructor; auto. exists (Some v). reflexivity.
  - destruct (IH x o v Hd' Ha) as [i [H1 [H2 [H3 H4]]]].
    exists (S i). rewrite H1. simpl. rewrite H2, H3. repeat split; auto.
    constructor; auto. exists v0. reflexivity.
Qed.

Lemma capture_direct : forall (ρ : env) names, all_direct ρ -> capture ρ names = [].
Proof.
  intros ρ names Hd. unfold capture.
  induction (add_all names []) as [|x l IH]; simpl; auto.
  rewrite IH. destruct (assoc x ρ) as [sl|] eqn:E; auto.
  destruct (assoc_local ρ x sl Hd E) as [i [ov [H _]]]. subst. reflexivity.
Qed.

Lemma new_vars_nil_boxed : forall xs init w,
  exists ρ, new_vars xs init [] w = (ρ, w) /\ all_direct ρ /\ map fst ρ = xs
            /\ env_vals ρ = pad_init (length xs) init.
Proof.
  induction xs as [|x xs IH]; intros init w; simpl.
  - exists []. repeat split; auto. constructor.
  - destruct (IH (match init with _ :: t => t | [] => [] end) w) as [ρ [H1 [H2 [H3 H4]]]].
    rewrite H1. eexists. split; [reflexivity|]. repeat split.
    + constructor; auto. eexists; reflexivity.
    + simpl. rewrite H3. reflexivity.
    + simpl. rewrite H4. destruct init; reflexivity.
Qed.


Lemma filter_no_names : forall (free : list (string * nat)),
  filter (fun xc => str_in (fst xc) []) free = [].
Proof. induction free; simpl; auto. Qed.

Lemma str_in_nil : forall x, str_in x [] = false.
Proof. reflexivity. Qed.
