(* C01 -- closures: the simulation for all fuel and the theorem on whole programs of in_fragment3
   (ProofsCompMain.v for the code generator of CompileClos.v). *)
From Coq Require Import ZArith String List Bool Lia.
From SV Require Import C01.Syntax C01.Values C01.Ref C01.VM C01.Compile C01.Frag C01.ProofsVM C01.ProofsEnv
     C01.SimDefs C01.ProofsExpr C01.ProofsStmt C01.ProofsCompFrag C01.ProofsCompEnv
     C01.CompileClos C01.VMClos C01.FragClos C01.ProofsClosEnv C01.ProofsClosBase C01.ProofsClosDefs
     C01.ProofsClosExpr C01.ProofsClosComp C01.ProofsClosStmt C01.ProofsClosCall C01.ProofsClosFuns.
Import ListNotations.
Open Scope string_scope.
Open Scope list_scope.
Open Scope nat_scope.

Lemma no_loads3 : forall p lo sc ss, forallb (ok_stmt3 p lo sc) ss = true -> flat_map load_binds ss = [].
Proof.
  induction ss as [|s ss IH]; intros H; simpl in *; auto.
  apply andb_true_iff in H. destruct H as [Hs Hss]. rewrite (IH Hss).
  destruct s; try reflexivity. simpl in Hs. discriminate.
Qed.

Section Main3.
  Variable p : program.
  Notation cp := (compile_prog3 p).
  Notation fn := (fname p).
  Hypothesis Hfuns : funs_ok3 p.

  Definition P3 (n : nat) : Prop :=
    E3 p n /\ Cn3 p n /\ Ls3 p n /\ Ar3 p n /\ Ca3 p n /\ As3 p n /\ X3 p n /\ B3 p n /\ W3 p n /\ F3 p n
    /\ Df3 p n /\ Aq3 p n /\ En3 p n /\ Cm3 p n /\ Cl3 p n.

  Lemma P3_all : forall n, P3 n.
  Proof.
    induction n.
    - unfold P3. repeat split;
        try (unfold E3, Cn3, Ls3, Ar3, As3, X3, B3, W3, F3, Df3, Aq3, En3, Cm3, Cl3; intros; simpl; exact Logic.I).
      apply Ca3_zero.
    - destruct IHn as [HE [HC [HL [HA [HCa [HAs [HX [HB [HW [HF [HD [HQ [HN [HM HCl]]]]]]]]]]]]]].
      assert (HE' : E3 p (S n)) by (apply E3_step; auto).
      unfold P3. repeat split; auto.
      + apply Cn3_step; auto.
      + apply Ls3_step; auto.
      + apply Ar3_step; auto.
      + apply Ca3_step; auto.
      + apply As3_step; auto.
      + apply X3_step; auto.
      + apply B3_step; auto.
      + apply W3_step; auto.
      + apply F3_step; auto.
      + apply Df3_step; auto.
      + apply Aq3_step; auto.
      + apply En3_step; auto.
      + apply Cm3_step; auto.
      + apply Cl3_step; auto.
  Qed.

  Hypothesis Hfrag : ok_prog3 p = true.

  Lemma frag_body : forallb (ok_stmt3 p [] (scope_top p)) (p_body p) = true.
  Proof. unfold ok_prog3 in Hfrag. apply andb_true_iff in Hfrag. tauto. Qed.

  Lemma frag_cells : sc_cells (scope_top p) = [].
  Proof.
    unfold ok_prog3 in Hfrag. apply andb_true_iff in Hfrag. destruct Hfrag as [_ H].
    destruct (sc_cells (scope_top p)); [reflexivity|discriminate].
  Qed.

  Lemma file_names_nil3 : file_names p = [].
  Proof. unfold file_names. rewrite (no_loads3 _ _ _ _ frag_body). reflexivity. Qed.

  Definition init3 : vstate := init_state cp (length (global_names p)).

  Lemma module_sim3 : forall n,
    match run_module p n with
    | Ok s' => halts cp fn init3 (VDone (rg s') (rw s'))
    | Fail ps ic w => halts cp fn init3 (VFail ps ic w)
    | Unsup t => halts cp fn init3 (VUnsup t)
    | Oof => True
    end.
  Proof.
    intros n. destruct (P3_all n) as [_ [_ [_ [_ [_ [_ [_ [HB _]]]]]]]].
    set (sc := scope_top p).
    set (L0 := repeat (@None value) (length (sc_ls sc))).
    assert (Hinit : init3 = St (Fr None (gen_body3 p sc (p_body p)) 0 [] L0 [] []) [] (repeat None (length (global_names p))) empty_world).
    { unfold init3, init_state. cbn [cp_top compile_prog3 fc_cells fc_nlocals fc_code]. rewrite frag_cells. reflexivity. }
    rewrite Hinit. unfold run_module. rewrite file_names_nil3. simpl new_vars. cbv iota beta.
    assert (Hcode : pcode_at (gen_body3 p sc (p_body p)) 0 (gen_block3 p sc (p_body p) ++ [NONE; RETURN]) None None).
    { apply pcode_finalize. }
    apply pcode_app in Hcode. destruct Hcode as [Hcb Hct]. pcode_split.
    assert (HR : R3 [] [] sc [] [] [] L0).
    { split; [intros x i Ha; discriminate|].
      exists [], []. split; [reflexivity|]. split; [constructor|]. split.
      { exists [], []. split; [reflexivity|]. split.
        - intros x. simpl. apply str_in_nil.
        - split; [intros y c []|]. intros x j Hj. unfold sc in Hj. simpl in Hj. discriminate. }
      split; [constructor|]. split; [constructor|]. unfold L0. apply repeat_length. }
    pose proof (HB [] [] sc [] L0 (p_body p) (with_w (init_rst p) empty_world) None (gen_body3 p sc (p_body p)) [] [] 0 [] None None
                   frag_body HR eq_refl Hcb) as IH.
    unfold S3, with_w, init_rst in IH. cbn [rg rw] in IH.
    unfold with_w, init_rst. cbn [rg rw].
    destruct (exec_block p n [] [] (p_body p) _) as [[[out ρ2] s2]| | |]; cbn [sim fst snd] in *; auto.
    unfold after3 in IH.
    destruct out; cbn [fst].
    - destruct IH as (L' & _ & Ha).
      eapply halts_star; [ exact Ha | ].
      eapply halts_star; [ vstep; apply star_refl | ]. vstop.
    - exact IH.
    - exact IH.
    - destruct IH as [pcr [Ix [wv [L' [H1 [H2 H3]]]]]].
      eapply halts_star; [ exact H1 | ]. rewrite app_nil_r in *.
      norm_state. apply halts_now. rewrite (step_lit _ _ _ _ _ _ _ _ _ _ _ _ _ H2). simpl. rewrite H3. reflexivity.
  Qed.

  (* the guarded machine against the evaluator *)
  Lemma codegen_correct_partial3_lemma : forall n m,
    ob_verdict (observe_ref (run_module p n)) <> OutOfFuel ->
    ob_verdict (observe_vm (run_chk3 p m)) <> OutOfFuel ->
    observe_vm (run_chk3 p m) = observe_ref (run_module p n)
    \/ ob_verdict (observe_vm (run_chk3 p m)) = Unsupported "forged-closure".
  Proof.
    intros n m Hr Hv. pose proof (module_sim3 n) as Hs.
    unfold run_chk3 in *. fold init3 in *.
    destruct (run_chk cp fn m init3) as [[r k]|] eqn:Er; [ | simpl in Hv; congruence ].
    destruct (run_module p n) as [s'|ps ic w| |t]; simpl in Hr; try congruence;
      destruct (run_halts cp fn _ _ Hs _ _ Er) as [Heq|Heq]; simpl in Heq; subst r;
        solve [ left; reflexivity | right; reflexivity ].
  Qed.

  (* the machine itself, on every run in which the guard does not fire *)
  Lemma codegen_correct_partial3_plain_lemma : forall n m,
    ob_verdict (observe_ref (run_module p n)) <> OutOfFuel ->
    ob_verdict (observe_vm (run_chk3 p m)) <> OutOfFuel ->
    ob_verdict (observe_vm (run_chk3 p m)) <> Unsupported "forged-closure" ->
    observe_vm (run_vm3 p m) = observe_ref (run_module p n).
  Proof.
    intros n m Hr Hv Hg.
    destruct (codegen_correct_partial3_lemma n m Hr Hv) as [He|He]; [|congruence].
    rewrite <- He. unfold run_chk3, run_vm3 in *. fold init3 in *.
    destruct (run_chk cp fn m init3) as [[r k]|] eqn:Er; [ | simpl in Hv; congruence ].
    unfold run_chk in Er. unfold run.
    rewrite (run_chk_agrees cp fn _ _ _ _ _ Er); [reflexivity|].
    intros ->. apply Hg. reflexivity.
  Qed.

  (* the generated code never drives the machine into a state the real one would crash in *)
  Lemma never_stuck3_lemma : forall n m r k,
    ob_verdict (observe_ref (run_module p n)) <> OutOfFuel ->
    run_chk3 p m = Some (r, k) ->
    forall why, r <> VStuck why.
  Proof.
    intros n m r k Hr Hv why Hw. subst r. pose proof (module_sim3 n) as Hs.
    unfold run_chk3 in *. fold init3 in *.
    destruct (run_module p n) as [s'|ps ic w| |t]; simpl in Hr; try congruence;
      destruct (run_halts cp fn _ _ Hs _ _ Hv) as [Heq|Heq]; unfold forged_result in Heq; simpl in Heq; discriminate.
  Qed.
End Main3.

Lemma codegen_correct_partial3_folded_lemma :
  forall p : program,
    ok_prog3 p = true -> funs_ok3 p -> number_prog (fold_prog p) = p ->
    forall n m : nat,
      ob_verdict (observe_ref (run_module p n)) <> OutOfFuel ->
      ob_verdict (observe_vm (run_chk_compiled3 p m)) <> OutOfFuel ->
      ob_verdict (observe_vm (run_chk_compiled3 p m)) <> Unsupported "forged-closure" ->
      observe_vm (run_compiled3 p m) = observe_ref (run_module p n).
Proof.
  intros p Hf Hk Hfold n m. unfold run_compiled3, run_chk_compiled3. rewrite Hfold.
  exact (codegen_correct_partial3_plain_lemma p Hk Hf n m).
Qed.

(* the guarded machine agrees with the machine on every run in which the guard does not fire *)
Lemma run_chk3_agrees : forall p m r k,
  run_chk3 p m = Some (r, k) -> r <> forged_result -> run_vm3 p m = Some (r, k).
Proof.
  intros p m r k H Hr. unfold run_chk3, run_chk in H. unfold run_vm3, run.
  apply run_chk_agrees; auto.
Qed.
