(* C01 -- simulation: expressions, conditions, expression lists, call arguments. *)
From Coq Require Import ZArith String List Bool Lia.
From SV Require Import C01.Syntax C01.Values C01.Ref C01.VM C01.Compile C01.Frag C01.ProofsVM C01.ProofsEnv C01.SimDefs.
Import ListNotations.
Open Scope string_scope.
Open Scope list_scope.
Open Scope nat_scope.

Arguments compile_prog : simpl never.
Arguments compile_fun : simpl never.

Lemma binary_notin : forall x y w,
  binary NotIn x y w =
  match binary In x y w with
  | POk (v, w') => POk (VBool (negb (truth v w')), w')
  | PErr => PErr
  | PUnsup t => PUnsup t
  end.
Proof.
  intros x y w. unfold binary.
  destruct y; try reflexivity.
  - destruct x; reflexivity.
  - destruct (list_mem w x vs) as [b| |]; reflexivity.
  - destruct (get_obj w a) as [[vs k|kvs k]|]; try reflexivity.
    + destruct (list_mem w x vs) as [b| |]; reflexivity.
    + unfold need_hashable. destruct (hashable x) as [[|]| |]; try reflexivity.
      destruct (dict_find w x kvs) as [[v|]| |]; reflexivity.
  - destruct x; reflexivity.
Qed.

Lemma unpack_length : forall n v w vs, unpack n v w = POk vs -> length vs = n.
Proof.
  intros n v w vs H. unfold unpack in H.
  destruct v; try discriminate;
    (destruct (elements _ w) as [l| |]; simpl in H; try discriminate;
     destruct (Nat.eqb (length l) n) eqn:E; try discriminate; inversion H; subst; apply Nat.eqb_eq; auto).
Qed.

Lemma truth_bool : forall b w, truth (VBool b) w = b.
Proof. reflexivity. Qed.

Global Opaque binary unary truth index_get index_set iterate release getattr call_builtin bind_args
       inplace_add inplace_pipe unpack alloc_list alloc_dict universal str_in index_get_opt slice_op
       starstar_args star_args.

Lemma St_eq : forall fid C pc pc' σ σ' L I fv K g w,
  pc = pc' -> σ = σ' -> St (Fr fid C pc σ L I fv) K g w = St (Fr fid C pc' σ' L I fv) K g w.
Proof. intros; subst; reflexivity. Qed.

Ltac pcode_split :=
  repeat match goal with
  | H : pcode_at _ _ (_ ++ _) _ _ |- _ => apply pcode_app in H; destruct H
  | H : pcode_at _ _ (_ :: _) _ _ |- _ => apply pcode_cons in H; destruct H
  | H : pcode_at _ _ [] _ _ |- _ => clear H
  end;
  repeat match goal with
  | H : nth_error _ _ = Some (resolve _ _ _ _) |- _ => progress simpl resolve in H
  end;
  cbn [length] in *.

Lemma step_lit : forall cp fn fid C pc σ L I fv K g w i,
  nth_error C pc = Some i ->
  step cp fn {| vs_frames := {| fr_fid := fid; fr_code := C; fr_pc := pc; fr_stack := σ; fr_locals := L;
                                 fr_iters := I; fr_free := fv |} :: K; vs_g := g; vs_w := w |}
  = exec_insn cp fn i {| fr_fid := fid; fr_code := C; fr_pc := pc; fr_stack := σ; fr_locals := L;
                         fr_iters := I; fr_free := fv |} K g w.
Proof. intros. unfold step. simpl. rewrite H. reflexivity. Qed.

(* find the fetch hypothesis for the pc of the current machine state and pass it to k *)
Ltac norm_state :=
  unfold S1, St, Fr, set_frame, upd, upd_locals, upd_iters, with_w;
  cbn [fr_fid fr_code fr_pc fr_stack fr_locals fr_iters fr_free rg rw].
Ltac with_fetch k :=
  norm_state;
  match goal with
  | |- ProofsVM.star _ _ {| vs_frames := {| fr_fid := _; fr_code := ?C; fr_pc := ?pc; fr_stack := _; fr_locals := _;
                                            fr_iters := _; fr_free := _ |} :: _; vs_g := _; vs_w := _ |} _ =>
      match goal with H : nth_error C ?pc' = Some _ |- _ =>
        first [ constr_eq pc pc' | replace pc' with pc in H by lia ]; k H end
  | |- ProofsVM.halts _ _ {| vs_frames := {| fr_fid := _; fr_code := ?C; fr_pc := ?pc; fr_stack := _; fr_locals := _;
                                             fr_iters := _; fr_free := _ |} :: _; vs_g := _; vs_w := _ |} _ =>
      match goal with H : nth_error C ?pc' = Some _ |- _ =>
        first [ constr_eq pc pc' | replace pc' with pc in H by lia ]; k H end
  end.

(* one machine step; E1, E2 are equations about primitives *)
Ltac vstep :=
  with_fetch ltac:(fun H => eapply star_step; [ rewrite (step_lit _ _ _ _ _ _ _ _ _ _ _ _ _ H); simpl; reflexivity | ]).
Ltac vstep1 E1 :=
  with_fetch ltac:(fun H => eapply star_step; [ rewrite (step_lit _ _ _ _ _ _ _ _ _ _ _ _ _ H); simpl; rewrite ?E1; simpl; reflexivity | ]).
Ltac vstep2 E1 E2 :=
  with_fetch ltac:(fun H => eapply star_step; [ rewrite (step_lit _ _ _ _ _ _ _ _ _ _ _ _ _ H); simpl; rewrite ?E1; simpl; rewrite ?E2; simpl; reflexivity | ]).
Ltac vstop :=
  with_fetch ltac:(fun H => apply halts_now; rewrite (step_lit _ _ _ _ _ _ _ _ _ _ _ _ _ H); simpl; reflexivity).
Ltac vstop1 E1 :=
  with_fetch ltac:(fun H => apply halts_now; rewrite (step_lit _ _ _ _ _ _ _ _ _ _ _ _ _ H); simpl; rewrite ?E1; simpl; reflexivity).
Lemma star_from_eq : forall cp fn a a' b, a = a' -> star cp fn a' b -> star cp fn a b.
Proof. intros; subst; auto. Qed.
Lemma halts_from_eq : forall cp fn a a' r, a = a' -> halts cp fn a' r -> halts cp fn a r.
Proof. intros; subst; auto. Qed.

Ltac len_norm := repeat (first [ rewrite app_length | rewrite patch_loop_length | progress cbn [length] ]).
Ltac state_eq := norm_state; apply St_eq; [ simpl; len_norm; lia | reflexivity ].
(* continue with an execution H that starts from the current state up to pc arithmetic *)
Ltac chain H :=
  eapply star_trans; [ first [ exact H | eapply star_from_eq; [ | exact H ]; state_eq ] | ].
Ltac hchain H :=
  first [ exact H | eapply halts_from_eq; [ | exact H ]; state_eq ].
Ltac hstar H := eapply halts_star; [ first [ exact H | eapply star_from_eq; [ | exact H ]; state_eq ] | ].

Ltac codeof e k := match goal with Hc : pcode_at _ _ (gen_expr _ _ e) _ _ |- _ => k Hc end.
Ltac condof e k := match goal with Hc : pcode_at _ _ (gen_cond _ _ e _ _) _ _ |- _ => k Hc end.
Ltac fin := norm_state; apply star_eq; apply St_eq; [ simpl; len_norm; lia | reflexivity ].

Section Expr.
  Variable p : program.
  Notation cp := (compile_prog p).
  Notation fn := (fname p).

  Lemma name_sim : forall ρ x ps s fid C fv K pc σ I brk cont,
    wf ρ ->
    nth_error C pc = Some (resolve brk cont pc (gen_name p (map fst ρ) [] x ps)) ->
    sim p (lookup p ρ x ps s) (St (Fr fid C pc σ (env_vals ρ) I fv) K (rg s) (rw s))
        (fun v => star cp fn (St (Fr fid C pc σ (env_vals ρ) I fv) K (rg s) (rw s))
                             (St (Fr fid C (S pc) (v :: σ) (env_vals ρ) I fv) K (rg s) (rw s))).
  Proof.
    intros ρ x ps s fid C fv K pc σ I brk cont Hwf Hf.
    unfold lookup, gen_name in *. cbn [assoc] in Hf.
    destruct (assoc x ρ) as [sl|] eqn:Ea.
    - destruct (assoc_local ρ x sl Hwf Ea) as [i [ov [-> [Hi Hn]]]].
      rewrite Hi in Hf. simpl in Hf.
      destruct ov as [v|]; simpl.
      + vstep1 Hn. constructor.
      + vstop1 Hn.
    - rewrite (assoc_none ρ x Ea) in Hf.
      destruct (gidx p x) as [j|] eqn:Eg.
      + simpl in Hf. destruct (nth_error (rg s) j) as [[v|]|] eqn:En; simpl.
        * vstep1 En. constructor.
        * vstop1 En.
        * vstop1 En.
      + destruct (str_in x predeclared_names) eqn:Ep.
        * simpl in Hf. simpl. vstep1 Ep. constructor.
        * destruct (universal x) as [v|] eqn:Eu; simpl in Hf; simpl.
          -- vstep1 Eu. constructor.
          -- vstop.
  Qed.

  (* ---- unfolding equations of the code generator *)
  Section GenEq.
    Variable ls : list string.
    Notation ge := (gen_expr p ls).
    Notation gc := (gen_cond p ls).

    Lemma gen_paren : forall e, ge (EParen e) = ge e. Proof. reflexivity. Qed.
    Lemma gen_not : forall ps e, ge (EUnary UNot ps e) = ge e ++ [NOT]. Proof. reflexivity. Qed.
    Lemma gen_unary : forall o ps e, o <> UNot -> ge (EUnary o ps e) = ge e ++ [UNARY o ps].
    Proof. intros; destruct o; try reflexivity; congruence. Qed.
    Lemma gen_binary : forall o ps x y, binop_eqb o NotIn = false -> ge (EBinary o ps x y) = ge x ++ ge y ++ [BINARY o ps].
    Proof. intros; destruct o; try reflexivity; discriminate. Qed.
    Lemma gen_notin : forall ps x y, ge (EBinary NotIn ps x y) = ge x ++ ge y ++ [BINARY In ps; NOT].
    Proof. intros. unfold gen_expr. simpl. rewrite <- app_assoc. reflexivity. Qed.
    Lemma gc_notin : forall ps x y t f, gc (EBinary NotIn ps x y) t f = ge x ++ ge y ++ [BINARY In ps; RCJMP (1 + f); RJMP t].
    Proof. intros. unfold gen_cond, gen_expr. simpl. rewrite <- app_assoc. reflexivity. Qed.
    Lemma gen_and : forall x y, ge (EAnd x y) = ge x ++ [DUP; RCJMP 1; RJMP (1 + length (ge y)); POP] ++ ge y.
    Proof. reflexivity. Qed.
    Lemma gen_or : forall x y, ge (EOr x y) = ge x ++ [DUP; RCJMP (1 + length (ge y)); POP] ++ ge y.
    Proof. reflexivity. Qed.
    Lemma gen_condexpr : forall c t f,
      ge (ECond c t f) = gc c 0 (length (ge t) + 1) ++ ge t ++ [RJMP (length (ge f))] ++ ge f.
    Proof. reflexivity. Qed.
    Lemma gen_tuple : forall es, ge (ETuple es) = flat_map ge es ++ [MAKETUPLE (length es)]. Proof. reflexivity. Qed.
    Lemma gen_list : forall es, ge (EList es) = flat_map ge es ++ [MAKELIST (length es)]. Proof. reflexivity. Qed.
    Lemma gen_index : forall x y ps, ge (EIndex x y ps) = ge x ++ ge y ++ [INDEX ps]. Proof. reflexivity. Qed.
    Lemma gen_dot : forall x name ps, ge (EDot x name ps) = ge x ++ [ATTR name ps]. Proof. reflexivity. Qed.

    Definition gopt (o : option expr) : list insn := match o with Some e => ge e | None => [NONE] end.
    Lemma gen_slice : forall x lo hi st ps, ge (ESlice x lo hi st ps) = ge x ++ gopt lo ++ gopt hi ++ gopt st ++ [SLICE ps].
    Proof. intros. destruct lo, hi, st; reflexivity. Qed.

    Lemma gen_dict : forall kvs, ge (EDict kvs) = MAKEDICT :: flat_map (entry_code p ls) kvs.
    Proof. reflexivity. Qed.

    (* the three passes of fcomp.args over the argument list coincide with one pass when
       the arguments come in the order positional, named, *args, **kwargs *)
    Lemma gen_call : forall fn_ args ps, pos_then_named args = true ->
      ge (ECall fn_ args ps) = ge fn_ ++ flat_map (arg_code p ls) args
                               ++ [CALL ((if has_star args then 1 else 0) + (if has_ss args then 2 else 0))
                                        (count_pos args) (count_named args) ps].
    Proof.
      intros fn_ args ps Hsh. unfold gen_expr at 1. simpl. f_equal.
      set (A := fun l : list arg => flat_map (fun a => if (match a with APos _ => true | _ => false end) || (match a with ANamed _ _ => true | _ => false end)
                                   then match a with APos e | AStar e | AStarStar e => fst (gen p ls [] e) | ANamed k e => CONSTANT (VStr k) :: fst (gen p ls [] e) end
                                   else []) l).
      set (B := fun l : list arg => flat_map (fun a => if (match a with AStar _ => true | _ => false end)
                                      then match a with APos e | AStar e | AStarStar e => fst (gen p ls [] e) | ANamed k e => CONSTANT (VStr k) :: fst (gen p ls [] e) end
                                      else []) l).
      set (Cc := fun l : list arg => flat_map (fun a => if (match a with AStarStar _ => true | _ => false end)
                                      then match a with APos e | AStar e | AStarStar e => fst (gen p ls [] e) | ANamed k e => CONSTANT (VStr k) :: fst (gen p ls [] e) end
                                      else []) l).
      change (A args ++ B args ++ Cc args ++ [CALL ((if existsb (fun a => match a with AStar _ => true | _ => false end) args then 1 else 0)
                                                    + (if existsb (fun a => match a with AStarStar _ => true | _ => false end) args then 2 else 0))
                                                   (length (filter (fun a => match a with APos _ => true | _ => false end) args))
                                                   (length (filter (fun a => match a with ANamed _ _ => true | _ => false end) args)) ps]
              = flat_map (arg_code p ls) args ++ [CALL ((if has_star args then 1 else 0) + (if has_ss args then 2 else 0)) (count_pos args) (count_named args) ps]).
      assert (H2 : forall l, shape2 l = true -> A l = [] /\ B l = [] /\ Cc l = flat_map (arg_code p ls) l).
      { intros [|[| | |e] [|]]; simpl; intros; try discriminate; repeat split; auto. }
      assert (H1 : forall l, shape1 l = true -> A l ++ B l ++ Cc l = flat_map (arg_code p ls) l).
      { induction l as [|a l IH]; simpl; intros Hl; auto.
        destruct a; try discriminate.
        - pose proof (IH Hl) as E. unfold A, B, Cc in *. simpl. rewrite <- E. rewrite <- ?app_assoc. reflexivity.
        - destruct (H2 l Hl) as [E1 [E2 E3]]. unfold A, B, Cc in *. simpl. rewrite E1, E2, E3.
          rewrite ?app_nil_r. reflexivity.
        - destruct l; try discriminate. unfold A, B, Cc. simpl. rewrite ?app_nil_r. reflexivity. }
      assert (H0 : forall l, pos_then_named l = true -> A l ++ B l ++ Cc l = flat_map (arg_code p ls) l).
      { induction l as [|a l IH]; simpl; intros Hl; auto.
        destruct a; try discriminate.
        - pose proof (IH Hl) as E. unfold A, B, Cc in *. simpl. rewrite <- E. rewrite <- ?app_assoc. reflexivity.
        - pose proof (H1 l Hl) as E. unfold A, B, Cc in *. simpl. rewrite <- E. rewrite <- ?app_assoc. reflexivity.
        - destruct (H2 l Hl) as [E1 [E2 E3]]. unfold A, B, Cc in *. simpl. rewrite E1, E2, E3. rewrite ?app_nil_r. reflexivity.
        - destruct l; try discriminate. unfold A, B, Cc. simpl. rewrite ?app_nil_r. reflexivity. }
      rewrite !app_assoc. rewrite <- (app_assoc (A args)). rewrite (H0 args Hsh). reflexivity.
    Qed.

    Lemma gc_not : forall ps e t f, gc (EUnary UNot ps e) t f = gc e f t. Proof. reflexivity. Qed.
    Lemma gc_and : forall x y t f,
      gc (EAnd x y) t f = ge x ++ [RCJMP (1 + 0); RJMP (length (gc y t f) + f)] ++ gc y t f.
    Proof. intros. unfold gen_cond, gen_expr. simpl. rewrite <- app_assoc. reflexivity. Qed.
    Lemma gc_or : forall x y t f,
      gc (EOr x y) t f = ge x ++ [RCJMP (1 + (length (gc y t f) + t)); RJMP 0] ++ gc y t f.
    Proof. intros. unfold gen_cond, gen_expr. simpl. rewrite <- app_assoc. reflexivity. Qed.
  End GenEq.

  Lemma popn_app : forall l σ acc, popn (length l) (l ++ σ) acc = Some (rev l ++ acc, σ).
  Proof.
    induction l; intros; simpl; auto. rewrite IHl. rewrite <- app_assoc. reflexivity.
  Qed.
  Lemma popn_rev : forall vs σ, popn (length vs) (rev vs ++ σ) [] = Some (vs, σ).
  Proof.
    intros. rewrite <- rev_length. rewrite popn_app. rewrite rev_involutive, app_nil_r. reflexivity.
  Qed.

  Lemma flatkw_length : forall nm, length (flatkw nm) = 2 * length nm.
  Proof. induction nm; simpl; auto. rewrite IHnm. lia. Qed.
  Lemma pairs_flatkw : forall nm, pairs_of (flatkw nm) = Some nm.
  Proof. induction nm as [|[k v] nm IH]; simpl; auto. rewrite IH. reflexivity. Qed.
  Lemma popn_flatkw : forall nm σ, popn (2 * length nm) (rev (flatkw nm) ++ σ) [] = Some (flatkw nm, σ).
  Proof. intros. rewrite <- flatkw_length. apply popn_rev. Qed.
  Lemma shape2_facts : forall l, shape2 l = true ->
    count_pos l = 0 /\ count_named l = 0 /\ has_star l = false /\ pos_then_named l = true.
  Proof. intros [|[| | |e] [|]]; simpl; intros; try discriminate; repeat split; auto. Qed.
  Lemma shape1_facts : forall l, shape1 l = true -> count_pos l = 0 /\ pos_then_named l = true.
  Proof.
    induction l as [|a l IH]; simpl; intros H; auto. destruct a; try discriminate.
    - destruct (IH H). split; auto.
    - destruct (shape2_facts l H) as [A [_ [_ _]]]. split; auto.
    - destruct l; try discriminate. split; auto.
  Qed.

  Lemma evals_length : forall n stk ρ es s vs s', evals p n stk ρ es s = Ok (vs, s') -> length vs = length es.
  Proof.
    induction n; intros stk ρ es s vs s' H; simpl in H; [discriminate|].
    destruct es as [|e es]; [inversion H; reflexivity|].
    destruct (eval p n stk ρ e s) as [[v s1]| | |]; try discriminate.
    destruct (evals p n stk ρ es s1) as [[vs1 s2]| | |] eqn:E2; try discriminate.
    inversion H; subst. simpl. f_equal. eapply IHn; eauto.
  Qed.

  Lemma En_step : forall n, E p n -> En p n -> En p (S n).
  Proof.
    intros n IHE IHN.
    unfold En; intros stk ρ d kvs s fid C fv K pc σ I brk cont Hok Hwf Hstk Hcode.
    destruct kvs as [|[[k v] cps] kvs]; simpl eval_entries.
    - cbn [sim]. fin.
    - simpl in Hok. apply andb_true_iff in Hok. destruct Hok as [Hkv Hr].
      unfold ok_entry in Hkv. cbn [fst snd] in Hkv. apply andb_true_iff in Hkv. destruct Hkv as [Hk Hv].
      simpl in Hcode. unfold entry_code at 1 in Hcode. cbn [fst snd] in Hcode.
      change (DUP :: gen_expr p (map fst ρ) k ++ gen_expr p (map fst ρ) v ++ [SETDICTUNIQ cps])
        with ([DUP] ++ gen_expr p (map fst ρ) k ++ gen_expr p (map fst ρ) v ++ [SETDICTUNIQ cps]) in Hcode.
      rewrite <- !app_assoc in Hcode. pcode_split.
      codeof k ltac:(fun Hc => pose proof (IHE stk ρ k s fid C fv K _ (d :: d :: σ) I brk cont Hk Hwf Hstk Hc) as IH1).
      assert (Hpre : star cp fn (S1 fid C fv K pc (d :: σ) ρ I s) (S1 fid C fv K (pc + 1) (d :: d :: σ) ρ I s)).
      { vstep. fin. }
      destruct (eval p n stk ρ k s) as [[vk s1]| | |]; cbn [sim fst snd] in *; auto;
        try (hstar Hpre; hchain IH1).
      codeof v ltac:(fun Hc => pose proof (IHE stk ρ v s1 fid C fv K _ (vk :: d :: d :: σ) I brk cont Hv Hwf Hstk Hc) as IH2).
      destruct (eval p n stk ρ v s1) as [[vv s2]| | |]; cbn [sim fst snd] in *; auto;
        try (hstar Hpre; hstar IH1; hchain IH2).
      destruct (index_get_opt d vk (rw s2)) as [present| |t] eqn:Eg; cbn [lift sim fst snd].
      2: { hstar Hpre. hstar IH1. hstar IH2. vstop1 Eg. }
      2: { hstar Hpre. hstar IH1. hstar IH2. vstop1 Eg. }
      destruct present.
      { cbn [sim]. hstar Hpre. hstar IH1. hstar IH2. vstop1 Eg. }
      destruct (index_set d vk vv (rw s2)) as [w'| |t] eqn:Es; cbn [lift sim fst snd].
      2: { hstar Hpre. hstar IH1. hstar IH2. with_fetch ltac:(fun H => apply halts_now; rewrite (step_lit _ _ _ _ _ _ _ _ _ _ _ _ _ H); simpl; rewrite Eg; simpl; rewrite Es; reflexivity). }
      2: { hstar Hpre. hstar IH1. hstar IH2. with_fetch ltac:(fun H => apply halts_now; rewrite (step_lit _ _ _ _ _ _ _ _ _ _ _ _ _ H); simpl; rewrite Eg; simpl; rewrite Es; reflexivity). }
      match goal with Hc : pcode_at C ?q (flat_map _ kvs) _ _ |- _ =>
        pose proof (IHN stk ρ d kvs (with_w s2 w') fid C fv K q σ I brk cont Hr Hwf Hstk Hc) as IH3 end.
      assert (Hpre2 : star cp fn (S1 fid C fv K pc (d :: σ) ρ I s)
                        (S1 fid C fv K (pc + length (entry_code p (map fst ρ) (k, v, cps))) (d :: σ) ρ I (with_w s2 w'))).
      { chain Hpre. chain IH1. chain IH2. vstep2 Eg Es. unfold entry_code. cbn [fst snd]. fin. }
      destruct (eval_entries p n stk ρ d kvs (with_w s2 w')) as [s3| | |]; cbn [sim fst snd] in *; auto.
      + chain Hpre2. chain IH3. unfold entry_code. cbn [fst snd]. fin.
      + hstar Hpre2. hchain IH3.
      + hstar Hpre2. hchain IH3.
  Qed.

  Lemma E_step : forall n, E p n -> Cn p n -> Ls p n -> Ar p n -> Ca p n -> En p n -> E p (S n).
  Proof.
    intros n IHE IHC IHL IHA IHCa IHN.
    unfold E; intros stk ρ e s fid C fv K pc σ I brk cont Hok Hwf Hstk Hcode.
    unfold S1 in *.
    destruct e; simpl in Hok; try discriminate.
    - (* EName *)
      simpl. change (gen_expr p (map fst ρ) (EName x p0)) with [gen_name p (map fst ρ) [] x p0] in *.
      pcode_split.
      pose proof (name_sim ρ x p0 s fid C fv K pc σ I brk cont Hwf H) as Hn.
      destruct (lookup p ρ x p0 s); cbn [sim fst snd] in *; auto.
      chain Hn. fin.
    - (* EInt *)
      simpl. change (gen_expr p (map fst ρ) (EInt z)) with [CONSTANT (VInt z)] in *.
      pcode_split. vstep. fin.
    - (* EStr *)
      simpl. change (gen_expr p (map fst ρ) (EStr s0)) with [CONSTANT (VStr s0)] in *.
      pcode_split. vstep. fin.
    - (* EUnsup *)
      simpl. change (gen_expr p (map fst ρ) (EUnsup tag)) with [UNSUPPORTED tag] in *.
      pcode_split. vstop.
    - (* EParen *)
      simpl. exact (IHE stk ρ e s fid C fv K pc σ I brk cont Hok Hwf Hstk Hcode).
    - (* EUnary *)
      destruct o.
      + rewrite gen_unary in * by congruence. pcode_split.
        codeof e ltac:(fun Hc => specialize (IHE stk ρ e s fid C fv K pc σ I brk cont Hok Hwf Hstk Hc)).
        simpl. destruct (eval p n stk ρ e s) as [[v s1]| | |]; cbn [sim fst snd] in *; auto.
        destruct (unary UNeg v) as [r| |t] eqn:Eu; simpl.
        * chain IHE. vstep1 Eu. fin.
        * hstar IHE. vstop1 Eu.
        * hstar IHE. vstop1 Eu.
      + rewrite gen_unary in * by congruence. pcode_split.
        codeof e ltac:(fun Hc => specialize (IHE stk ρ e s fid C fv K pc σ I brk cont Hok Hwf Hstk Hc)).
        simpl. destruct (eval p n stk ρ e s) as [[v s1]| | |]; cbn [sim fst snd] in *; auto.
        destruct (unary UPos v) as [r| |t] eqn:Eu; simpl.
        * chain IHE. vstep1 Eu. fin.
        * hstar IHE. vstop1 Eu.
        * hstar IHE. vstop1 Eu.
      + rewrite gen_not in *. pcode_split.
        codeof e ltac:(fun Hc => specialize (IHE stk ρ e s fid C fv K pc σ I brk cont Hok Hwf Hstk Hc)).
        simpl. destruct (eval p n stk ρ e s) as [[v s1]| | |]; cbn [sim fst snd] in *; auto.
        chain IHE. vstep. fin.
      + rewrite gen_unary in * by congruence. pcode_split.
        codeof e ltac:(fun Hc => specialize (IHE stk ρ e s fid C fv K pc σ I brk cont Hok Hwf Hstk Hc)).
        simpl. destruct (eval p n stk ρ e s) as [[v s1]| | |]; cbn [sim fst snd] in *; auto.
        destruct (unary UTilde v) as [r| |t] eqn:Eu; simpl.
        * chain IHE. vstep1 Eu. fin.
        * hstar IHE. vstop1 Eu.
        * hstar IHE. vstop1 Eu.
    - (* EBinary *)
      apply andb_true_iff in Hok. destruct Hok as [Hx Hy].
      destruct (binop_eqb o NotIn) eqn:Ho.
      + assert (o = NotIn) by (destruct o; try discriminate; reflexivity). subst o.
        rewrite gen_notin in *. pcode_split.
        codeof e1 ltac:(fun Hc => pose proof (IHE stk ρ e1 s fid C fv K pc σ I brk cont Hx Hwf Hstk Hc) as IH1).
        simpl eval.
        destruct (eval p n stk ρ e1 s) as [[vx s1]| | |]; cbn [sim fst snd] in *; auto.
        codeof e2 ltac:(fun Hc => pose proof (IHE stk ρ e2 s1 fid C fv K _ (vx :: σ) I brk cont Hy Hwf Hstk Hc) as IH2).
        destruct (eval p n stk ρ e2 s1) as [[vy s2]| | |]; cbn [sim fst snd] in *; auto;
          try (hstar IH1; hchain IH2).
        rewrite binary_notin.
        destruct (binary In vx vy (rw s2)) as [[r w]| |t] eqn:Eb; simpl.
        * chain IH1. chain IH2. vstep1 Eb. vstep. fin.
        * hstar IH1. hstar IH2. vstop1 Eb.
        * hstar IH1. hstar IH2. vstop1 Eb.
      + rewrite (gen_binary _ _ _ _ _ Ho) in *. pcode_split.
        codeof e1 ltac:(fun Hc => pose proof (IHE stk ρ e1 s fid C fv K pc σ I brk cont Hx Hwf Hstk Hc) as IH1).
        simpl eval.
        destruct (eval p n stk ρ e1 s) as [[vx s1]| | |]; cbn [sim fst snd] in *; auto.
        codeof e2 ltac:(fun Hc => pose proof (IHE stk ρ e2 s1 fid C fv K _ (vx :: σ) I brk cont Hy Hwf Hstk Hc) as IH2).
        destruct (eval p n stk ρ e2 s1) as [[vy s2]| | |]; cbn [sim fst snd] in *; auto;
          try (hstar IH1; hchain IH2).
        destruct (binary o vx vy (rw s2)) as [[r w]| |t] eqn:Eb; simpl.
        * chain IH1. chain IH2. vstep1 Eb. fin.
        * hstar IH1. hstar IH2. vstop1 Eb.
        * hstar IH1. hstar IH2. vstop1 Eb.
    - (* EAnd *)
      apply andb_true_iff in Hok. destruct Hok as [Hx Hy].
      rewrite gen_and in *. pcode_split.
      codeof e1 ltac:(fun Hc => pose proof (IHE stk ρ e1 s fid C fv K pc σ I brk cont Hx Hwf Hstk Hc) as IH1).
      simpl eval.
      destruct (eval p n stk ρ e1 s) as [[vx s1]| | |]; cbn [sim fst snd] in *; auto.
      destruct (truth vx (rw s1)) eqn:Et.
      + codeof e2 ltac:(fun Hc => pose proof (IHE stk ρ e2 s1 fid C fv K _ σ I brk cont Hy Hwf Hstk Hc) as IH2).
        assert (Hpre : star cp fn (St (Fr fid C pc σ (env_vals ρ) I fv) K (rg s) (rw s))
                         (St (Fr fid C (S (S (S (S (pc + length (gen_expr p (map fst ρ) e1)))))) σ (env_vals ρ) I fv) K (rg s1) (rw s1))).
        { chain IH1. vstep. vstep1 Et. vstep. fin. }
        destruct (eval p n stk ρ e2 s1) as [[vy s2]| | |]; cbn [sim fst snd] in *; auto.
        * chain Hpre. chain IH2. fin.
        * hstar Hpre. hchain IH2.
        * hstar Hpre. hchain IH2.
      + chain IH1. vstep. vstep1 Et. vstep. fin.
    - (* EOr *)
      apply andb_true_iff in Hok. destruct Hok as [Hx Hy].
      rewrite gen_or in *. pcode_split.
      codeof e1 ltac:(fun Hc => pose proof (IHE stk ρ e1 s fid C fv K pc σ I brk cont Hx Hwf Hstk Hc) as IH1).
      simpl eval.
      destruct (eval p n stk ρ e1 s) as [[vx s1]| | |]; cbn [sim fst snd] in *; auto.
      destruct (truth vx (rw s1)) eqn:Et.
      + chain IH1. vstep. vstep1 Et. fin.
      + codeof e2 ltac:(fun Hc => pose proof (IHE stk ρ e2 s1 fid C fv K _ σ I brk cont Hy Hwf Hstk Hc) as IH2).
        assert (Hpre : star cp fn (St (Fr fid C pc σ (env_vals ρ) I fv) K (rg s) (rw s))
                         (St (Fr fid C (S (S (S (pc + length (gen_expr p (map fst ρ) e1))))) σ (env_vals ρ) I fv) K (rg s1) (rw s1))).
        { chain IH1. vstep. vstep1 Et. vstep. fin. }
        destruct (eval p n stk ρ e2 s1) as [[vy s2]| | |]; cbn [sim fst snd] in *; auto.
        * chain Hpre. chain IH2. fin.
        * hstar Hpre. hchain IH2.
        * hstar Hpre. hchain IH2.
    - (* ECond *)
      apply andb_true_iff in Hok. destruct Hok as [Hok Hf]. apply andb_true_iff in Hok. destruct Hok as [Hc Ht].
      rewrite gen_condexpr in *. pcode_split.
      condof e1 ltac:(fun Hcc => pose proof (IHC stk ρ e1 s fid C fv K pc σ I brk cont _ _ Hc Hwf Hstk Hcc) as IHc).
      simpl eval.
      destruct (eval p n stk ρ e1 s) as [[vc s1]| | |]; cbn [sim fst snd] in *; auto.
      destruct (truth vc (rw s1)) eqn:Et.
      + codeof e2 ltac:(fun Hcc => pose proof (IHE stk ρ e2 s1 fid C fv K _ σ I brk cont Ht Hwf Hstk Hcc) as IH2).
        destruct (eval p n stk ρ e2 s1) as [[vt s2]| | |]; cbn [sim fst snd] in *; auto.
        * chain IHc. chain IH2. vstep. fin.
        * hstar IHc. hchain IH2.
        * hstar IHc. hchain IH2.
      + codeof e3 ltac:(fun Hcc => pose proof (IHE stk ρ e3 s1 fid C fv K _ σ I brk cont Hf Hwf Hstk Hcc) as IH3).
        destruct (eval p n stk ρ e3 s1) as [[vf s2]| | |]; cbn [sim fst snd] in *; auto.
        * chain IHc. chain IH3. fin.
        * hstar IHc. hchain IH3.
        * hstar IHc. hchain IH3.
    - (* ETuple *)
      rewrite gen_tuple in *. pcode_split.
      match goal with Hcc : pcode_at _ _ (flat_map _ es) _ _ |- _ =>
        pose proof (IHL stk ρ es s fid C fv K pc σ I brk cont Hok Hwf Hstk Hcc) as IHl end.
      simpl eval.
      destruct (evals p n stk ρ es s) as [[vs s1]| | |] eqn:Ev; cbn [sim fst snd] in *; auto.
      assert (Hpop : popn (length es) (rev vs ++ σ) [] = Some (vs, σ)).
      { rewrite <- (evals_length _ _ _ _ _ _ _ Ev). apply popn_rev. }
      chain IHl. vstep1 Hpop. fin.
    - (* EList *)
      rewrite gen_list in *. pcode_split.
      match goal with Hcc : pcode_at _ _ (flat_map _ es) _ _ |- _ =>
        pose proof (IHL stk ρ es s fid C fv K pc σ I brk cont Hok Hwf Hstk Hcc) as IHl end.
      simpl eval.
      destruct (evals p n stk ρ es s) as [[vs s1]| | |] eqn:Ev; cbn [sim fst snd] in *; auto.
      assert (Hpop : popn (length es) (rev vs ++ σ) [] = Some (vs, σ)).
      { rewrite <- (evals_length _ _ _ _ _ _ _ Ev). apply popn_rev. }
      destruct (alloc_list vs (rw s1)) as [v w'] eqn:Ea. cbn [sim fst snd].
      chain IHl. vstep2 Hpop Ea. fin.
    - (* EDict *)
      rewrite gen_dict in *. pcode_split.
      simpl eval.
      destruct (alloc_dict [] (rw s)) as [d w] eqn:Ea.
      match goal with Hc : pcode_at C ?q (flat_map _ kvs) _ _ |- _ =>
        pose proof (IHN stk ρ d kvs (with_w s w) fid C fv K q σ I brk cont Hok Hwf Hstk Hc) as IH1 end.
      assert (Hpre : star cp fn (S1 fid C fv K pc σ ρ I s) (S1 fid C fv K (S pc) (d :: σ) ρ I (with_w s w))).
      { vstep1 Ea. fin. }
      destruct (eval_entries p n stk ρ d kvs (with_w s w)) as [s1| | |]; cbn [sim fst snd] in *; auto.
      + chain Hpre. chain IH1. fin.
      + hstar Hpre. hchain IH1.
      + hstar Hpre. hchain IH1.
    - (* EIndex *)
      apply andb_true_iff in Hok. destruct Hok as [Hx Hy].
      rewrite gen_index in *. pcode_split.
      codeof e1 ltac:(fun Hc => pose proof (IHE stk ρ e1 s fid C fv K pc σ I brk cont Hx Hwf Hstk Hc) as IH1).
      simpl eval.
      destruct (eval p n stk ρ e1 s) as [[vx s1]| | |]; cbn [sim fst snd] in *; auto.
      codeof e2 ltac:(fun Hc => pose proof (IHE stk ρ e2 s1 fid C fv K _ (vx :: σ) I brk cont Hy Hwf Hstk Hc) as IH2).
      destruct (eval p n stk ρ e2 s1) as [[vy s2]| | |]; cbn [sim fst snd] in *; auto;
        try (hstar IH1; hchain IH2).
      destruct (index_get vx vy (rw s2)) as [r| |t] eqn:Eb; simpl.
      + chain IH1. chain IH2. vstep1 Eb. fin.
      + hstar IH1. hstar IH2. vstop1 Eb.
      + hstar IH1. hstar IH2. vstop1 Eb.
    - (* EDot *)
      rewrite gen_dot in *. pcode_split.
      codeof e ltac:(fun Hc => pose proof (IHE stk ρ e s fid C fv K pc σ I brk cont Hok Hwf Hstk Hc) as IH1).
      simpl eval.
      destruct (eval p n stk ρ e s) as [[vx s1]| | |]; cbn [sim fst snd] in *; auto.
      destruct (getattr vx name (rw s1)) as [r| |t] eqn:Eb; simpl.
      + chain IH1. vstep1 Eb. fin.
      + hstar IH1. vstop1 Eb.
      + hstar IH1. vstop1 Eb.
    - (* ECall *)
      apply andb_true_iff in Hok. destruct Hok as [Hok Hshape]. apply andb_true_iff in Hok. destruct Hok as [Hf Hargs].
      change (ok_args args = true) in Hargs.
      rewrite (gen_call _ e args p0 Hshape) in *. pcode_split.
      codeof e ltac:(fun Hc => pose proof (IHE stk ρ e s fid C fv K pc σ I brk cont Hf Hwf Hstk Hc) as IH1).
      simpl eval.
      destruct (eval p n stk ρ e s) as [[vf s1]| | |]; cbn [sim fst snd] in *; auto.
      match goal with Hcc : pcode_at _ _ (flat_map _ args) _ _ |- _ =>
        pose proof (IHA stk ρ args [] [] None None s1 fid C fv K _ (vf :: σ) I brk cont Hargs Hwf Hstk Hcc) as IHa end.
      destruct (eval_args p n stk ρ args [] [] None None s1) as [r| | |]; cbn [sim fst snd] in *; auto;
        try (hstar IH1; hchain IHa).
      destruct IHa as [vs [nm [sa [ss [s2 [-> [Hlen [Hlen2 [Hsa [Hss IHa]]]]]]]]]]. specialize (IHa Hshape). simpl.
      assert (Hmode : (if has_star args then 1 else 0) + (if has_ss args then 2 else 0) = mode_of sa ss).
      { unfold mode_of. destruct (has_star args), (has_ss args); destruct sa, ss; subst; try congruence; try discriminate; reflexivity. }
      assert (Hst : (if has_ss args then optl ss else []) ++ (if has_star args then optl sa else []) = optl ss ++ optl sa).
      { destruct (has_star args), (has_ss args); subst; reflexivity. }
      match goal with Hcc : nth_error C ?q = Some (CALL _ _ _ _) |- _ =>
        rewrite <- Hlen, <- Hlen2, Hmode in Hcc;
        pose proof (IHCa stk vf vs nm sa ss p0 s2 fid C fv K q σ ρ I Hstk Hcc) as IHc end.
      unfold ref_call in IHc.
      assert (Hpre : star cp fn (S1 fid C fv K pc σ ρ I s)
                       (S1 fid C fv K (pc + length (gen_expr p (map fst ρ) e) + length (flat_map (arg_code p (map fst ρ)) args))
                           (optl ss ++ optl sa ++ rev (flatkw nm) ++ rev vs ++ vf :: σ) ρ I s2)).
      { chain IH1. chain IHa. norm_state. apply star_eq. f_equal. f_equal. f_equal.
        rewrite (app_assoc _ _ (rev (flatkw nm) ++ _)). rewrite Hst. rewrite <- !app_assoc. reflexivity. }
      destruct (lift (starstar_args ss (rw s2)) p0 (rw s2)) as [kw2| | |]; cbn [sim fst snd] in *; auto;
        try (hstar Hpre; hchain IHc).
      destruct (lift (star_args sa (rw s2)) p0 (rw s2)) as [pos2| | |]; cbn [sim fst snd] in *; auto;
        try (hstar Hpre; hchain IHc).
      destruct (call p n stk vf (vs ++ pos2) (nm ++ kw2) p0 s2) as [[r s3]| | |]; cbn [sim fst snd] in *; auto.
      + chain Hpre. chain IHc. fin.
      + hstar Hpre. hchain IHc.
      + hstar Hpre. hchain IHc.
    - (* ESlice *)
      apply andb_true_iff in Hok. destruct Hok as [Hok Hst]. apply andb_true_iff in Hok. destruct Hok as [Hok Hhi].
      apply andb_true_iff in Hok. destruct Hok as [Hx Hlo].
      assert (Hopt : forall (oe : option expr) s0 pc0 σ0,
                 match oe with Some e0 => ok_expr e0 = true | None => True end ->
                 pcode_at C pc0 (gopt (map fst ρ) oe) brk cont ->
                 sim p (match oe with Some e0 => eval p n stk ρ e0 s0 | None => Ok (VNone, s0) end)
                     (S1 fid C fv K pc0 σ0 ρ I s0)
                     (fun r => star cp fn (S1 fid C fv K pc0 σ0 ρ I s0)
                                 (S1 fid C fv K (pc0 + length (gopt (map fst ρ) oe)) (fst r :: σ0) ρ I (snd r)))).
      { intros [e0|] s0 pc0 σ0 Ho Hc; simpl in *.
        - exact (IHE stk ρ e0 s0 fid C fv K pc0 σ0 I brk cont Ho Hwf Hstk Hc).
        - pcode_split. vstep. fin. }
      rewrite gen_slice in *. pcode_split.
      codeof e ltac:(fun Hc => pose proof (IHE stk ρ e s fid C fv K pc σ I brk cont Hx Hwf Hstk Hc) as IH1).
      simpl eval.
      destruct (eval p n stk ρ e s) as [[vx s1]| | |]; cbn [sim fst snd] in *; auto.
      match goal with Hc : pcode_at C ?q (gopt _ lo) _ _ |- _ =>
        pose proof (Hopt lo s1 q (vx :: σ) ltac:(destruct lo; auto) Hc) as IH2 end.
      destruct (match lo with Some e0 => eval p n stk ρ e0 s1 | None => Ok (VNone, s1) end) as [[vlo s2]| | |];
        cbn [sim fst snd] in *; auto; try (hstar IH1; hchain IH2).
      match goal with Hc : pcode_at C ?q (gopt _ hi) _ _ |- _ =>
        pose proof (Hopt hi s2 q (vlo :: vx :: σ) ltac:(destruct hi; auto) Hc) as IH3 end.
      destruct (match hi with Some e0 => eval p n stk ρ e0 s2 | None => Ok (VNone, s2) end) as [[vhi s3]| | |];
        cbn [sim fst snd] in *; auto; try (hstar IH1; hstar IH2; hchain IH3).
      match goal with Hc : pcode_at C ?q (gopt _ step) _ _ |- _ =>
        pose proof (Hopt step s3 q (vhi :: vlo :: vx :: σ) ltac:(destruct step; auto) Hc) as IH4 end.
      destruct (match step with Some e0 => eval p n stk ρ e0 s3 | None => Ok (VNone, s3) end) as [[vst s4]| | |];
        cbn [sim fst snd] in *; auto; try (hstar IH1; hstar IH2; hstar IH3; hchain IH4).
      destruct (slice_op vx vlo vhi vst (rw s4)) as [[r w]| |t] eqn:Eb; cbn [lift sim fst snd].
      + chain IH1. chain IH2. chain IH3. chain IH4. vstep1 Eb. fin.
      + hstar IH1. hstar IH2. hstar IH3. hstar IH4. vstop1 Eb.
      + hstar IH1. hstar IH2. hstar IH3. hstar IH4. vstop1 Eb.
  Qed.

  Lemma cond_default : forall n, E p (S n) ->
    forall stk ρ e s fid C fv K pc σ I brk cont t f,
      gen_cond p (map fst ρ) e t f = gen_expr p (map fst ρ) e ++ [RCJMP (1 + t); RJMP f] ->
      ok_expr e = true -> wf ρ -> stk_ok stk fid K ->
      pcode_at C pc (gen_cond p (map fst ρ) e t f) brk cont ->
      sim p (eval p (S n) stk ρ e s) (S1 fid C fv K pc σ ρ I s)
          (fun r => star cp fn (S1 fid C fv K pc σ ρ I s)
                         (S1 fid C fv K (pc + length (gen_cond p (map fst ρ) e t f) + (if truth (fst r) (rw (snd r)) then t else f))
                             σ ρ I (snd r))).
  Proof.
    intros n HE stk ρ e s fid C fv K pc σ I brk cont t f Hg Hok Hwf Hstk Hcode.
    rewrite Hg in *. pcode_split.
    codeof e ltac:(fun Hc => pose proof (HE stk ρ e s fid C fv K pc σ I brk cont Hok Hwf Hstk Hc) as IH1).
    destruct (eval p (S n) stk ρ e s) as [[v s1]| | |]; cbn [sim fst snd] in *; auto.
    destruct (truth v (rw s1)) eqn:Et.
    - chain IH1. vstep1 Et. fin.
    - chain IH1. vstep1 Et. vstep. fin.
  Qed.

  Lemma Cn_step : forall n, E p (S n) -> E p n -> Cn p n -> Cn p (S n).
  Proof.
    intros n HE IHE IHC.
    unfold Cn; intros stk ρ e s fid C fv K pc σ I brk cont t f Hok Hwf Hstk Hcode.
    destruct e; try (solve [eapply (cond_default n HE); eauto; reflexivity]); simpl in Hok; try discriminate.
    - (* EUnary *)
      destruct o; try (solve [eapply (cond_default n HE); eauto; reflexivity]).
      rewrite gc_not in *.
      pose proof (IHC stk ρ e s fid C fv K pc σ I brk cont f t Hok Hwf Hstk Hcode) as IH1.
      simpl eval.
      destruct (eval p n stk ρ e s) as [[v s1]| | |]; cbn [sim fst snd] in *; auto.
      rewrite truth_bool. destruct (truth v (rw s1)); exact IH1.
    - (* EBinary *)
      destruct (binop_eqb o NotIn) eqn:Ho.
      2: { eapply (cond_default n HE); eauto. destruct o; try reflexivity; discriminate. }
      assert (o = NotIn) by (destruct o; try discriminate; reflexivity). subst o.
      apply andb_true_iff in Hok. destruct Hok as [Hx Hy].
      rewrite gc_notin in *. pcode_split.
      codeof e1 ltac:(fun Hc => pose proof (IHE stk ρ e1 s fid C fv K pc σ I brk cont Hx Hwf Hstk Hc) as IH1).
      simpl eval.
      destruct (eval p n stk ρ e1 s) as [[vx s1]| | |]; cbn [sim fst snd] in *; auto.
      codeof e2 ltac:(fun Hc => pose proof (IHE stk ρ e2 s1 fid C fv K _ (vx :: σ) I brk cont Hy Hwf Hstk Hc) as IH2).
      destruct (eval p n stk ρ e2 s1) as [[vy s2]| | |]; cbn [sim fst snd] in *; auto;
        try (hstar IH1; hchain IH2).
      rewrite binary_notin.
      destruct (binary In vx vy (rw s2)) as [[r w]| |t0] eqn:Eb; cbn [lift sim fst snd with_w rw].
      + rewrite truth_bool. destruct (truth r w) eqn:Et; cbn [negb].
        * chain IH1. chain IH2. vstep1 Eb. vstep1 Et. fin.
        * chain IH1. chain IH2. vstep1 Eb. vstep1 Et. vstep. fin.
      + hstar IH1. hstar IH2. vstop1 Eb.
      + hstar IH1. hstar IH2. vstop1 Eb.
    - (* EAnd *)
      apply andb_true_iff in Hok. destruct Hok as [Hx Hy].
      rewrite gc_and in *. pcode_split.
      codeof e1 ltac:(fun Hc => pose proof (IHE stk ρ e1 s fid C fv K pc σ I brk cont Hx Hwf Hstk Hc) as IH1).
      simpl eval.
      destruct (eval p n stk ρ e1 s) as [[vx s1]| | |]; cbn [sim fst snd] in *; auto.
      destruct (truth vx (rw s1)) eqn:Et.
      + condof e2 ltac:(fun Hc => pose proof (IHC stk ρ e2 s1 fid C fv K _ σ I brk cont t f Hy Hwf Hstk Hc) as IH2).
        assert (Hpre : star cp fn (S1 fid C fv K pc σ ρ I s)
                         (S1 fid C fv K (pc + length (gen_expr p (map fst ρ) e1) + 2) σ ρ I s1)).
        { chain IH1. vstep1 Et. fin. }
        destruct (eval p n stk ρ e2 s1) as [[vy s2]| | |]; cbn [sim fst snd] in *; auto.
        * chain Hpre. chain IH2. fin.
        * hstar Hpre. hchain IH2.
        * hstar Hpre. hchain IH2.
      + cbn [sim fst snd]. rewrite Et. chain IH1. vstep1 Et. vstep. fin.
    - (* EOr *)
      apply andb_true_iff in Hok. destruct Hok as [Hx Hy].
      rewrite gc_or in *. pcode_split.
      codeof e1 ltac:(fun Hc => pose proof (IHE stk ρ e1 s fid C fv K pc σ I brk cont Hx Hwf Hstk Hc) as IH1).
      simpl eval.
      destruct (eval p n stk ρ e1 s) as [[vx s1]| | |]; cbn [sim fst snd] in *; auto.
      destruct (truth vx (rw s1)) eqn:Et.
      + cbn [sim fst snd]. rewrite Et. chain IH1. vstep1 Et. fin.
      + condof e2 ltac:(fun Hc => pose proof (IHC stk ρ e2 s1 fid C fv K _ σ I brk cont t f Hy Hwf Hstk Hc) as IH2).
        assert (Hpre : star cp fn (S1 fid C fv K pc σ ρ I s)
                         (S1 fid C fv K (pc + length (gen_expr p (map fst ρ) e1) + 2) σ ρ I s1)).
        { chain IH1. vstep1 Et. vstep. fin. }
        destruct (eval p n stk ρ e2 s1) as [[vy s2]| | |]; cbn [sim fst snd] in *; auto.
        * chain Hpre. chain IH2. fin.
        * hstar Hpre. hchain IH2.
        * hstar Hpre. hchain IH2.
  Qed.

  Lemma Ls_step : forall n, E p n -> Ls p n -> Ls p (S n).
  Proof.
    intros n IHE IHL.
    unfold Ls; intros stk ρ es s fid C fv K pc σ I brk cont Hok Hwf Hstk Hcode.
    destruct es as [|e es]; simpl.
    - fin.
    - simpl in Hok, Hcode. apply andb_true_iff in Hok. destruct Hok as [He Hes]. pcode_split.
      codeof e ltac:(fun Hc => pose proof (IHE stk ρ e s fid C fv K pc σ I brk cont He Hwf Hstk Hc) as IH1).
      destruct (eval p n stk ρ e s) as [[v s1]| | |]; cbn [sim fst snd] in *; auto.
      match goal with Hcc : pcode_at _ _ (flat_map _ es) _ _ |- _ =>
        pose proof (IHL stk ρ es s1 fid C fv K _ (v :: σ) I brk cont Hes Hwf Hstk Hcc) as IH2 end.
      destruct (evals p n stk ρ es s1) as [[vs s2]| | |]; cbn [sim fst snd] in *; auto.
      + chain IH1. chain IH2. norm_state. apply star_eq. f_equal. f_equal. f_equal.
        * rewrite app_length. lia.
        * simpl. rewrite <- app_assoc. reflexivity.
      + hstar IH1. hchain IH2.
      + hstar IH1. hchain IH2.
  Qed.

  Lemma Df_step : forall n, E p n -> Df p n -> Df p (S n).
  Proof.
    intros n IHE IHD.
    unfold Df; intros stk ρ ps seen s fid C fv K pc σ I brk cont Hok Hwf Hstk Hcode.
    destruct ps as [|q ps]; simpl.
    - split; auto. fin.
    - simpl in Hok. apply andb_true_iff in Hok. destruct Hok as [Hq Hps].
      destruct q; simpl in Hcode |- *.
      + (* plain *)
        destruct (gen_defaults p (map fst ρ) ps seen) as [c k] eqn:Eg.
        pose proof (IHD stk ρ ps seen s fid C fv K) as IH. rewrite Eg in IH. cbn [fst snd] in IH.
        destruct seen; cbn [fst snd] in *.
        * pcode_split.
          match goal with Hc : pcode_at C ?q c _ _ |- _ => specialize (IH q (VMandatory :: σ) I brk cont Hps Hwf Hstk Hc) end.
          destruct (eval_defaults p n stk ρ ps true s) as [[vs s1]| | |]; cbn [sim fst snd] in *; auto.
          -- destruct IH as [Hl IH]. split; [simpl; congruence|].
             vstep. chain IH. norm_state. apply star_eq. f_equal. f_equal. f_equal.
             ++ lia.
             ++ simpl. rewrite <- app_assoc. reflexivity.
          -- eapply halts_star; [ vstep; apply star_refl | ]. hchain IH.
          -- eapply halts_star; [ vstep; apply star_refl | ]. hchain IH.
        * specialize (IH pc σ I brk cont Hps Hwf Hstk Hcode).
          destruct (eval_defaults p n stk ρ ps false s) as [[vs s1]| | |]; cbn [sim fst snd] in *; auto.
      + (* default *)
        destruct (gen_defaults p (map fst ρ) ps seen) as [c k] eqn:Eg. cbn [fst snd] in *. pcode_split.
        codeof e ltac:(fun Hc => pose proof (IHE stk ρ e s fid C fv K pc σ I brk cont Hq Hwf Hstk Hc) as IH1).
        destruct (eval p n stk ρ e s) as [[v s1]| | |]; cbn [sim fst snd] in *; auto.
        pose proof (IHD stk ρ ps seen s1 fid C fv K) as IH. rewrite Eg in IH. cbn [fst snd] in IH.
        match goal with Hc : pcode_at C ?q c _ _ |- _ => specialize (IH q (v :: σ) I brk cont Hps Hwf Hstk Hc) end.
        destruct (eval_defaults p n stk ρ ps seen s1) as [[vs s2]| | |]; cbn [sim fst snd] in *; auto.
        * destruct IH as [Hl IH]. split; [simpl; congruence|].
          chain IH1. chain IH. norm_state. apply star_eq. f_equal. f_equal. f_equal.
          -- rewrite app_length. lia.
          -- simpl. rewrite <- app_assoc. reflexivity.
        * hstar IH1. hchain IH.
        * hstar IH1. hchain IH.
      + (* star *)
        exact (IHD stk ρ ps true s fid C fv K pc σ I brk cont Hps Hwf Hstk Hcode).
      + (* starstar *)
        exact (IHD stk ρ ps true s fid C fv K pc σ I brk cont Hps Hwf Hstk Hcode).
  Qed.

  Lemma Ar_step : forall n, E p n -> Ar p n -> Ar p (S n).
  Proof.
    intros n IHE IHA.
    unfold Ar; intros stk ρ args acc nacc sa0 ss0 s fid C fv K pc σ I brk cont Hok Hwf Hstk Hcode.
    destruct args as [|a args]; simpl eval_args.
    - cbn [sim]. exists [], [], sa0, ss0, s. rewrite !app_nil_r. repeat split; auto. intros _. fin.
    - simpl in Hok. apply andb_true_iff in Hok. destruct Hok as [He Hes].
      destruct a; simpl in Hcode; pcode_split.
      + (* positional *)
        codeof e ltac:(fun Hc => pose proof (IHE stk ρ e s fid C fv K pc σ I brk cont He Hwf Hstk Hc) as IH1).
        destruct (eval p n stk ρ e s) as [[v s1]| | |]; cbn [sim fst snd] in *; auto.
        match goal with Hcc : pcode_at _ _ (flat_map _ args) _ _ |- _ =>
          pose proof (IHA stk ρ args (acc ++ [v]) nacc sa0 ss0 s1 fid C fv K _ (v :: σ) I brk cont Hes Hwf Hstk Hcc) as IH2 end.
        destruct (eval_args p n stk ρ args (acc ++ [v]) nacc sa0 ss0 s1) as [r| | |]; cbn [sim fst snd] in *; auto.
        * destruct IH2 as [vs [nm [sa [ss [s2 [-> [Hl1 [Hl2 [Hsa [Hss IH2]]]]]]]]]].
          exists (v :: vs), nm, sa, ss, s2. rewrite <- app_assoc. simpl. repeat split; auto.
          -- unfold count_pos in *. simpl. lia.
          -- intros Hsh. specialize (IH2 Hsh). chain IH1. chain IH2. norm_state. apply star_eq. f_equal. f_equal. f_equal.
             ++ rewrite ?app_length; simpl; lia.
             ++ simpl. rewrite <- !app_assoc. reflexivity.
        * hstar IH1. hchain IH2.
        * hstar IH1. hchain IH2.
      + (* named *)
        codeof e ltac:(fun Hc => pose proof (IHE stk ρ e s fid C fv K _ (VStr name :: σ) I brk cont He Hwf Hstk Hc) as IH1).
        assert (Hpre : star cp fn (S1 fid C fv K pc σ ρ I s) (S1 fid C fv K (S pc) (VStr name :: σ) ρ I s)).
        { vstep. fin. }
        destruct (eval p n stk ρ e s) as [[v s1]| | |]; cbn [sim fst snd] in *; auto;
          try (hstar Hpre; hchain IH1).
        match goal with Hcc : pcode_at _ _ (flat_map _ args) _ _ |- _ =>
          pose proof (IHA stk ρ args acc (nacc ++ [(name, v)]) sa0 ss0 s1 fid C fv K _ (v :: VStr name :: σ) I brk cont Hes Hwf Hstk Hcc) as IH2 end.
        destruct (eval_args p n stk ρ args acc (nacc ++ [(name, v)]) sa0 ss0 s1) as [r| | |]; cbn [sim fst snd] in *; auto.
        * destruct IH2 as [vs [nm [sa [ss [s2 [-> [Hl1 [Hl2 [Hsa [Hss IH2]]]]]]]]]].
          exists vs, ((name, v) :: nm), sa, ss, s2. rewrite <- app_assoc. simpl. repeat split; auto.
          -- unfold count_named in *. simpl. lia.
          -- intros Hsh. destruct (shape1_facts _ Hsh) as [Hcp Hptn]. specialize (IH2 Hptn).
             rewrite Hcp in Hl1. destruct vs; [|discriminate].
             chain Hpre. chain IH1. chain IH2. norm_state. apply star_eq. f_equal. f_equal. f_equal.
             ++ simpl; rewrite ?app_length; simpl; lia.
             ++ simpl. rewrite <- !app_assoc. reflexivity.
        * hstar Hpre. hstar IH1. hchain IH2.
        * hstar Hpre. hstar IH1. hchain IH2.
      + (* *args *)
        codeof e ltac:(fun Hc => pose proof (IHE stk ρ e s fid C fv K pc σ I brk cont He Hwf Hstk Hc) as IH1).
        destruct (eval p n stk ρ e s) as [[v s1]| | |]; cbn [sim fst snd] in *; auto.
        match goal with Hcc : pcode_at _ _ (flat_map _ args) _ _ |- _ =>
          pose proof (IHA stk ρ args acc nacc (Some v) ss0 s1 fid C fv K _ (v :: σ) I brk cont Hes Hwf Hstk Hcc) as IH2 end.
        destruct (eval_args p n stk ρ args acc nacc (Some v) ss0 s1) as [r| | |]; cbn [sim fst snd] in *; auto.
        * destruct IH2 as [vs [nm [sa [ss [s2 [-> [Hl1 [Hl2 [Hsa [Hss IH2]]]]]]]]]].
          exists vs, nm, sa, ss, s2. repeat split; auto.
          -- destruct (has_star args); [exact Hsa | subst; discriminate].
          -- intros Hsh. destruct (shape2_facts _ Hsh) as [Hcp [Hcn [Hhs Hptn]]]. specialize (IH2 Hptn).
             rewrite Hhs in *. subst sa. rewrite Hcp in Hl1. rewrite Hcn in Hl2.
             destruct vs; [|discriminate]. destruct nm; [|discriminate].
             chain IH1. chain IH2. norm_state. apply star_eq. apply St_eq.
             ++ simpl; len_norm; lia.
             ++ simpl. rewrite ?app_nil_r. rewrite <- ?app_assoc. reflexivity.
        * hstar IH1. hchain IH2.
        * hstar IH1. hchain IH2.
      + (* **kwargs *)
        codeof e ltac:(fun Hc => pose proof (IHE stk ρ e s fid C fv K pc σ I brk cont He Hwf Hstk Hc) as IH1).
        destruct (eval p n stk ρ e s) as [[v s1]| | |]; cbn [sim fst snd] in *; auto.
        match goal with Hcc : pcode_at _ _ (flat_map _ args) _ _ |- _ =>
          pose proof (IHA stk ρ args acc nacc sa0 (Some v) s1 fid C fv K _ (v :: σ) I brk cont Hes Hwf Hstk Hcc) as IH2 end.
        destruct (eval_args p n stk ρ args acc nacc sa0 (Some v) s1) as [r| | |]; cbn [sim fst snd] in *; auto.
        * destruct IH2 as [vs [nm [sa [ss [s2 [-> [Hl1 [Hl2 [Hsa [Hss IH2]]]]]]]]]].
          exists vs, nm, sa, ss, s2. repeat split; auto.
          -- destruct (has_ss args); [exact Hss | subst; discriminate].
          -- intros Hsh. destruct args; [|discriminate]. specialize (IH2 eq_refl).
             simpl in Hsa, Hss, Hl1, Hl2. subst sa ss. destruct vs; [|discriminate]. destruct nm; [|discriminate].
             chain IH1. chain IH2. norm_state. apply star_eq. apply St_eq.
             ++ simpl; len_norm; lia.
             ++ simpl. rewrite ?app_nil_r. reflexivity.
        * hstar IH1. hchain IH2.
        * hstar IH1. hchain IH2.
  Qed.
End Expr.
